(** Big-endian two's-complement integers of a given byte width: the model of
    [int.from_bytes(data, "big", signed=s)] and [int.to_bytes(w, "big", signed=s)]. *)
From Coq Require Import ZArith List Bool Lia ZifyBool.
Import ListNotations.
Open Scope Z_scope.
Ltac Zify.zify_post_hook ::= Z.to_euclidean_division_equations.

Definition isbyte (b : Z) : Prop := 0 <= b < 256.
Definition isbyteb (b : Z) : bool := (0 <=? b) && (b <? 256).

(** unsigned big-endian value, accumulator style *)
Fixpoint be_dec (bs : list Z) (acc : Z) : Z :=
  match bs with
  | [] => acc
  | b :: r => be_dec r (acc * 256 + b)
  end.

(** unsigned big-endian digits, [w] of them (most significant first) *)
Fixpoint be_enc (w : nat) (v : Z) : list Z :=
  match w with
  | O => []
  | S w' => be_enc w' (v / 256) ++ [v mod 256]
  end.

Definition from_bytes (signed : bool) (bs : list Z) : Z :=
  let u := be_dec bs 0 in
  let n := 8 * Z.of_nat (length bs) in
  if signed && (2 ^ (n - 1) <=? u) then u - 2 ^ n else u.

(** [int.to_bytes] raises OverflowError outside the representable range: [None]. *)
Definition to_bytes (w : nat) (signed : bool) (v : Z) : option (list Z) :=
  let n := 8 * Z.of_nat w in
  if signed then
    if (- 2 ^ (n - 1) <=? v) && (v <? 2 ^ (n - 1)) then Some (be_enc w (v mod 2 ^ n)) else None
  else
    if (0 <=? v) && (v <? 2 ^ n) then Some (be_enc w v) else None.

Lemma be_enc_length w v : length (be_enc w v) = w.
Proof. revert v; induction w as [|w IH]; intros v; cbn [be_enc]; [reflexivity|].
  rewrite app_length, IH; simpl; lia. Qed.

Lemma be_dec_app bs cs acc : be_dec (bs ++ cs) acc = be_dec cs (be_dec bs acc).
Proof. revert acc; induction bs as [|b r IH]; intros acc; cbn [be_dec app]; [reflexivity|apply IH]. Qed.

Lemma be_dec_acc bs acc : be_dec bs acc = acc * 256 ^ Z.of_nat (length bs) + be_dec bs 0.
Proof.
  revert acc; induction bs as [|b r IH]; intros acc.
  - cbn [be_dec length]. change (Z.of_nat 0) with 0. rewrite Z.pow_0_r. lia.
  - cbn [be_dec length]. rewrite IH. rewrite (IH (0 * 256 + b)).
    rewrite Nat2Z.inj_succ, Z.pow_succ_r by lia. lia.
Qed.

Lemma be_dec_range bs : Forall isbyte bs -> 0 <= be_dec bs 0 < 256 ^ Z.of_nat (length bs).
Proof.
  induction bs as [|b r IH] using rev_ind; intros H.
  - cbn. lia.
  - apply Forall_app in H as [Hr Hb]. inversion Hb as [|? ? Hb' _]; subst.
    specialize (IH Hr). rewrite be_dec_app. cbn [be_dec].
    rewrite app_length. cbn [length]. rewrite Nat2Z.inj_add. change (Z.of_nat 1) with 1.
    rewrite Z.pow_add_r by lia. unfold isbyte in Hb'. lia.
Qed.

Lemma be_enc_dec bs : Forall isbyte bs -> be_enc (length bs) (be_dec bs 0) = bs.
Proof.
  induction bs as [|b r IH] using rev_ind; intros H; [reflexivity|].
  apply Forall_app in H as [Hr Hb]. inversion Hb as [|? ? Hb' _]; subst.
  rewrite app_length. cbn [length]. rewrite Nat.add_1_r. cbn [be_enc].
  rewrite be_dec_app. cbn [be_dec]. unfold isbyte in Hb'.
  replace ((be_dec r 0 * 256 + b) / 256) with (be_dec r 0) by lia.
  replace ((be_dec r 0 * 256 + b) mod 256) with b by lia.
  rewrite IH by assumption. reflexivity.
Qed.

Lemma be_dec_enc w v : 0 <= v < 256 ^ Z.of_nat w -> be_dec (be_enc w v) 0 = v.
Proof.
  revert v; induction w as [|w IH]; intros v Hv.
  - cbn in *. lia.
  - cbn [be_enc]. rewrite be_dec_app. cbn [be_dec].
    rewrite Nat2Z.inj_succ, Z.pow_succ_r in Hv by lia.
    rewrite IH by lia. lia.
Qed.

Lemma be_enc_bytes w v : Forall isbyte (be_enc w v).
Proof. revert v; induction w as [|w IH]; intros v; cbn [be_enc]; [constructor|].
  apply Forall_app; split; [apply IH|]. constructor; [unfold isbyte; lia|constructor]. Qed.

Lemma pow256 n : 256 ^ Z.of_nat n = 2 ^ (8 * Z.of_nat n).
Proof. change 256 with (2 ^ 8). rewrite <- Z.pow_mul_r by lia. reflexivity. Qed.

(** Round trip 1: re-encoding the decoded value of [w] input bytes gives the bytes back. *)
Theorem to_from_bytes s bs :
  Forall isbyte bs -> bs <> [] -> to_bytes (length bs) s (from_bytes s bs) = Some bs.
Proof.
  intros H Hne. pose proof (be_dec_range bs H) as R. rewrite pow256 in R.
  unfold to_bytes, from_bytes.
  set (n := 8 * Z.of_nat (length bs)) in *.
  assert (Hn : 8 <= n) by (destruct bs; [congruence|cbn [length] in n; lia]).
  assert (Hp : 2 ^ n = 2 * 2 ^ (n - 1)) by (rewrite <- Z.pow_succ_r by lia; f_equal; lia).
  assert (Hpos : 0 < 2 ^ (n - 1)) by (apply Z.pow_pos_nonneg; lia).
  destruct s; cbn [andb].
  - destruct (2 ^ (n - 1) <=? be_dec bs 0) eqn:E.
    + replace ((- 2 ^ (n - 1) <=? be_dec bs 0 - 2 ^ n) && (be_dec bs 0 - 2 ^ n <? 2 ^ (n - 1))) with true by lia.
      replace ((be_dec bs 0 - 2 ^ n) mod 2 ^ n) with (be_dec bs 0).
      * rewrite be_enc_dec by assumption; reflexivity.
      * symmetry. rewrite <- (Z.mod_small (be_dec bs 0) (2 ^ n)) at 2 by lia.
        replace (be_dec bs 0 - 2 ^ n) with (be_dec bs 0 + (-1) * 2 ^ n) by lia.
        apply Z.mod_add. lia.
    + replace ((- 2 ^ (n - 1) <=? be_dec bs 0) && (be_dec bs 0 <? 2 ^ (n - 1))) with true by lia.
      rewrite Z.mod_small by lia. rewrite be_enc_dec by assumption; reflexivity.
  - replace ((0 <=? be_dec bs 0) && (be_dec bs 0 <? 2 ^ n)) with true by lia.
    rewrite be_enc_dec by assumption; reflexivity.
Qed.

(** Round trip 2: decoding the byte form of a representable value gives the value back. *)
Theorem from_to_bytes w s v bs :
  (0 < w)%nat -> to_bytes w s v = Some bs -> from_bytes s bs = v /\ length bs = w /\ Forall isbyte bs.
Proof.
  intros Hw. unfold to_bytes, from_bytes.
  set (n := 8 * Z.of_nat w).
  assert (Hn : 8 <= n) by lia.
  assert (Hp : 2 ^ n = 2 * 2 ^ (n - 1)) by (rewrite <- Z.pow_succ_r by lia; f_equal; lia).
  assert (Hpos : 0 < 2 ^ (n - 1)) by (apply Z.pow_pos_nonneg; lia).
  destruct s.
  - destruct ((- 2 ^ (n - 1) <=? v) && (v <? 2 ^ (n - 1))) eqn:E; [|discriminate].
    intros [= <-]. rewrite be_enc_length. fold n.
    split; [|split; [reflexivity|apply be_enc_bytes]].
    assert (Hm : 0 <= v mod 2 ^ n < 2 ^ n) by (apply Z.mod_pos_bound; lia).
    rewrite be_dec_enc by (rewrite pow256; fold n; lia).
    cbn [andb].
    destruct (Z.ltb_spec v 0) as [Hneg|Hnn].
    + assert (Hv : v mod 2 ^ n = v + 2 ^ n).
      { replace v with ((v + 2 ^ n) + (-1) * 2 ^ n) at 1 by lia.
        rewrite Z.mod_add by lia. apply Z.mod_small. lia. }
      rewrite Hv. replace (2 ^ (n - 1) <=? v + 2 ^ n) with true by lia. lia.
    + rewrite Z.mod_small by lia. replace (2 ^ (n - 1) <=? v) with false by lia. reflexivity.
  - destruct ((0 <=? v) && (v <? 2 ^ n)) eqn:E; [|discriminate].
    intros [= <-]. rewrite be_enc_length. cbn [andb].
    split; [|split; [reflexivity|apply be_enc_bytes]].
    apply be_dec_enc. rewrite pow256. fold n. lia.
Qed.

(** The decoded value of [w] bytes is always representable in width [w]. *)
Lemma from_bytes_range s bs : Forall isbyte bs -> bs <> [] ->
  let n := 8 * Z.of_nat (length bs) in
  (s = true -> - 2 ^ (n - 1) <= from_bytes s bs < 2 ^ (n - 1)) /\
  (s = false -> 0 <= from_bytes s bs < 2 ^ n).
Proof.
  intros H Hne n. pose proof (be_dec_range bs H) as R. rewrite pow256 in R. fold n in R.
  assert (Hn : 8 <= n) by (destruct bs; [congruence|cbn [length] in n; lia]).
  assert (Hp : 2 ^ n = 2 * 2 ^ (n - 1)) by (rewrite <- Z.pow_succ_r by lia; f_equal; lia).
  unfold from_bytes. fold n. destruct s; cbn [andb]; (split; [|intros; try discriminate; try lia]); intros; try discriminate.
  destruct (2 ^ (n - 1) <=? be_dec bs 0) eqn:E; lia.
Qed.
