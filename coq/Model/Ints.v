(** Protocol integers: validity ([ValidValues.get]), text form ([format()]/[str()]),
    byte form.  Model of spec/common/values.py and spec/common/base_type.py. *)
From Coq Require Import ZArith List String Ascii Bool.
From TV Require Import Layout.Types Base.Bytes.
Import ListNotations.
Open Scope Z_scope.

Definition in_member (z : Z) (m : emember) : bool :=
  match m with
  | EMConst _ v => z =? v
  | EMRange _ lo hi _ => (lo <=? z) && (z <? hi)
  end.

Definition in_vitem (z : Z) (it : vitem) : bool :=
  match it with
  | VRange lo hi => (lo <=? z) && (z <? hi)
  | VNamed _ _ lo hi _ => (lo <=? z) && (z <? hi)
  | VMember _ _ v => z =? v
  | VInt v => z =? v
  | VEnum _ ms => existsb (in_member z) ms
  end.

(** [T(z).is_valid()] *)
Definition valid (p : prim) (z : Z) : bool := existsb (in_vitem z) (pvalid p).

(** digits *)
Definition digit_char (d : Z) : ascii :=
  if d <? 10 then ascii_of_nat (48 + Z.to_nat d) else ascii_of_nat (87 + Z.to_nat d).

Fixpoint digits_fuel (fuel : nat) (base : Z) (z : Z) (acc : string) : string :=
  match fuel with
  | O => acc
  | S f => let acc' := String (digit_char (z mod base)) acc in
           if z / base =? 0 then acc' else digits_fuel f base (z / base) acc'
  end.

Definition nat_digits (base : Z) (z : Z) : string :=   (* z >= 0 *)
  digits_fuel (S (Z.to_nat (Z.log2 z))) base z EmptyString.

Definition dec_string (z : Z) : string :=
  if z <? 0 then String "-" (nat_digits 10 (- z)) else nat_digits 10 z.

Fixpoint zeros (n : nat) : string := match n with O => EmptyString | S k => String "0" (zeros k) end.

(** ["{:0{nib}x}".format(z)] for z >= 0 *)
Definition hexpad (nib : Z) (z : Z) : string :=
  let s := nat_digits 16 z in
  append (zeros (Z.to_nat nib - String.length s)) s.

Fixpoint member_name (z : Z) (ms : list emember) : option string :=
  match ms with
  | [] => None
  | EMConst n v :: r => if z =? v then Some n else member_name z r
  | EMRange n lo hi nib :: r =>
      if (lo <=? z) && (z <? hi) then Some (append n (append "." (hexpad nib (z - lo))))
      else member_name z r
  end.

Definition enum_text (cls : string) (ms : list emember) (z : Z) : string :=
  append cls (append "." (match member_name z ms with Some n => n | None => "None" end)).

Fixpoint vitems_text (z : Z) (its : list vitem) : string :=
  match its with
  | [] => dec_string z
  | it :: r =>
      if in_vitem z it then
        match it with
        | VRange _ _ => dec_string z
        | VInt _ => dec_string z
        | VNamed cls base lo _ nib => append cls (append "." (append base (append "." (hexpad nib (z - lo)))))
        | VMember cls name _ => append cls (append "." name)
        | VEnum cls ms => enum_text cls ms z
        end
      else vitems_text z r
  end.

Fixpoint join_bar (l : list string) : string :=
  match l with
  | [] => EmptyString
  | [x] => x
  | x :: r => append x (append " | " (join_bar r))
  end.

Definition bits_text (cls : string) (masks : list (string * Z)) (z : Z) : string :=
  join_bar (map (fun nm => append cls (append "." (fst nm)))
                (filter (fun nm => negb (Z.land z (snd nm) =? 0)) masks)).

(** text form of every kind except TPM_RC (Model/RC.v) *)
Definition prim_text (p : prim) (z : Z) : string :=
  match pkind_ p with
  | KInt => vitems_text z (pvalid p)
  | KEnum ms => enum_text (pname p) ms z
  | KBits masks => bits_text (pname p) masks z
  | KRC => EmptyString
  end.

(** [T(z).to_bytes()] *)
Definition prim_bytes (p : prim) (z : Z) : option (list Z) :=
  to_bytes (Z.to_nat (pwidth p)) (psigned p) z.

(** every integer representable in the width *)
Definition representable (p : prim) (z : Z) : bool :=
  let n := 8 * pwidth p in
  if psigned p then (- 2 ^ (n - 1) <=? z) && (z <? 2 ^ (n - 1)) else (0 <=? z) && (z <? 2 ^ n).
