(** The decision logic of the command line ([convert] in __main__.py): which invocations are refused, and with
    which arguments the library is called otherwise.  argparse, files, stdout and exit status are outside the model. *)
From Coq Require Import ZArith List String Bool.
Import ListNotations.
Open Scope string_scope.

Inductive cli_root := CliStream | CliType (name : string) | CliResponse (cc : Z).
Inductive cli_result :=
| Refused (what : string)              (* non-zero status and a suggestion *)
| Incompatible                         (* custom type with --in auto: RuntimeError *)
| Decode (r : cli_root) (fmt_in : string).

Fixpoint lookup_cc (n : string) (ccs : list (string * Z)) : option Z :=
  match ccs with [] => None | (k, v) :: r => if String.eqb k n then Some v else lookup_cc n r end.

Definition cli_decide (types : list string) (ccs : list (string * Z))
           (type_arg cmd_arg : option string) (fmt_in : string) : cli_result :=
  match type_arg with
  | None => Decode CliStream fmt_in
  | Some t =>
      if negb (existsb (String.eqb t) types) then Refused "type"
      else if String.eqb t "Response" then
        match cmd_arg with
        | None => Refused "command-missing"
        | Some c =>
            if String.eqb c "" then Refused "command-missing" else
            match lookup_cc c ccs with
            | None => Refused "commandCode"
            | Some cc => if String.eqb fmt_in "auto" then Incompatible else Decode (CliResponse cc) fmt_in
            end
        end
      else if String.eqb t "CommandResponseStream" then Decode CliStream fmt_in
      else if String.eqb fmt_in "auto" then Incompatible else Decode (CliType t) fmt_in
  end.

(** refused exactly for: an unknown type name, a response without its command, an unknown command name *)
Theorem cli_refuses_exactly types ccs t c f :
  (exists w, cli_decide types ccs t c f = Refused w) <->
  (exists tn, t = Some tn /\
     (existsb (String.eqb tn) types = false \/
      (tn = "Response" /\ (c = None \/ c = Some "" \/ exists cn, c = Some cn /\ lookup_cc cn ccs = None)))).
Proof.
  unfold cli_decide. destruct t as [tn|].
  - destruct (existsb (String.eqb tn) types) eqn:E; cbn [negb].
    + destruct (String.eqb tn "Response") eqn:R.
      * apply String.eqb_eq in R. subst tn.
        destruct c as [cn|].
        -- destruct (String.eqb cn "") eqn:Em.
           ++ apply String.eqb_eq in Em. subst cn. split; [intros _|intros _; eexists; reflexivity].
              exists "Response". split; [reflexivity|]. right. split; [reflexivity|]. right. left. reflexivity.
           ++ destruct (lookup_cc cn ccs) as [cc|] eqn:L.
              ** split.
                 --- intros [w H]. destruct (String.eqb f "auto"); discriminate.
                 --- intros (tn & [= <-] & [H|(_ & [H|[H|(cn' & [= <-] & H)]])]); try congruence.
                     injection H as ->. discriminate.
              ** split; [intros _|intros _; eexists; reflexivity].
                 exists "Response". split; [reflexivity|]. right. split; [reflexivity|]. right. right. exists cn. split; [reflexivity|exact L].
        -- split; [intros _|intros _; eexists; reflexivity].
           exists "Response". split; [reflexivity|]. right. split; [reflexivity|]. left. reflexivity.
      * split.
        -- intros [w H]. destruct (String.eqb tn "CommandResponseStream"); [discriminate|]. destruct (String.eqb f "auto"); discriminate.
        -- intros (tn' & [= <-] & [H|(H & _)]); [congruence|]. subst tn. discriminate.
    + split; [intros _|intros _; eexists; reflexivity]. exists tn. split; [reflexivity|left; exact E].
  - split; [intros [w H]; discriminate|intros (tn & H & _); discriminate].
Qed.
