(** Input front-ends: hex text (io/hex/marshal.py), swtpm log (io/swtpm_log/marshal.py),
    auto detection (io/auto/marshal.py), pcapng payload trimming (io/pcapng/marshal.py; dpkt's
    container parsing is outside the model).  Bytes of the text are integers 0..255. *)
From Coq Require Import ZArith List String Bool.
Import ListNotations.
Open Scope Z_scope.

(** Python's bytes.strip() whitespace set *)
Definition is_ws (c : Z) : bool :=
  (c =? 32) || (c =? 9) || (c =? 10) || (c =? 13) || (c =? 11) || (c =? 12).

Definition hexval (c : Z) : option Z :=
  if (48 <=? c) && (c <=? 57) then Some (c - 48)
  else if (65 <=? c) && (c <=? 70) then Some (c - 55)
  else if (97 <=? c) && (c <=? 102) then Some (c - 87)
  else None.

(** result of a text front-end: the bytes delivered, and whether the text was rejected (ValueError)
    after them *)
Record parsed := mkParsed { p_bytes : list Z; p_ok : bool }.
Definition pcons (b : Z) (p : parsed) : parsed := mkParsed (b :: p_bytes p) (p_ok p).

(** hex: skip whitespace, take a high nibble, skip whitespace, take a low nibble *)
Fixpoint hex_go (s : list Z) (high : option Z) : parsed :=
  match s with
  | [] => match high with None => mkParsed [] true | Some _ => mkParsed [] false end
  | c :: r =>
      if is_ws c then hex_go r high
      else match high with
           | None => hex_go r (Some c)
           | Some h =>
               match hexval h, hexval c with
               | Some a, Some b => pcons (16 * a + b) (hex_go r None)
               | _, _ => mkParsed [] false
               end
           end
  end.
Definition parse_hex (s : list Z) : parsed := hex_go s None.

(** swtpm log scanner *)
Definition marker : list Z := [83; 87; 84; 80; 77; 95; 73; 79].     (* "SWTPM_IO" *)
Definition upper_hex (c : Z) : option Z :=
  if (48 <=? c) && (c <=? 57) then Some (c - 48)
  else if (65 <=? c) && (c <=? 70) then Some (c - 55) else None.
Definition sw_ws (c : Z) : bool := (c =? 32) || (c =? 13) || (c =? 10).

Inductive sw_state :=
| WantMarker (k : nat)        (* k characters of the marker matched *)
| WantStart                   (* rest of the marker line *)
| WantHigh
| WantLow (h : Z).            (* the high nibble character *)

Fixpoint sw_go (s : list Z) (st : sw_state) : parsed :=
  match s with
  | [] =>
      match st with
      | WantMarker O => mkParsed [] true
      | WantMarker _ => mkParsed [] false      (* "Incomplete command marker" *)
      | WantStart => mkParsed [] false         (* "Missing command payload" *)
      | WantHigh => mkParsed [] true
      | WantLow _ => mkParsed [] false         (* "Incomplete command byte" *)
      end
  | c :: r =>
      match st with
      | WantMarker k =>
          if c =? nth k marker (-1) then
            if Nat.eqb (S k) (List.length marker) then sw_go r WantStart else sw_go r (WantMarker (S k))
          else sw_go r (WantMarker (if c =? 83 then 1 else 0))
      | WantStart => if c =? 10 then sw_go r WantHigh else sw_go r WantStart
      | WantHigh =>
          if sw_ws c then sw_go r WantHigh
          else if c =? 83 then sw_go r (WantMarker 1)
          else match upper_hex c with
               | Some _ => sw_go r (WantLow c)
               | None => mkParsed [] false
               end
      | WantLow h =>
          if (h =? 67) && (c =? 116) then sw_go r (WantMarker 0)          (* "Ct" of a Ctrl section *)
          else match upper_hex h, upper_hex c with
               | Some a, Some b => pcons (16 * a + b) (sw_go r WantHigh)
               | _, _ => mkParsed [] false
               end
      end
  end.
Definition parse_swtpm (s : list Z) : parsed := sw_go s (WantMarker 0).

(** auto detection *)
Inductive fmt := FPcapng | FHex | FBinary | FTooShort.
Definition detect (s : list Z) : fmt :=
  match s with
  | a :: b :: _ =>
      if (a =? 10) && (b =? 13) then FPcapng
      else match filter (fun c => negb (is_ws c)) s with
           | x :: y :: _ => match hexval x, hexval y with Some _, Some _ => FHex | _, _ => FBinary end
           | _ => FBinary
           end
  | _ => FTooShort
  end.

(** pcapng: the TPM payloads, in order; runts (< 10 bytes, or empty) skipped; each trimmed to its own size field *)
Fixpoint be (l : list Z) (acc : Z) : Z := match l with [] => acc | b :: r => be r (acc * 256 + b) end.
Definition trim_payload (p : list Z) : list Z :=
  let size := be (firstn 4 (skipn 2 p)) 0 in
  if size <? Z.of_nat (List.length p) then firstn (Z.to_nat size) p else p.
Definition pcap_bytes (payloads : list (list Z)) : list Z :=
  flat_map trim_payload (filter (fun p => 10 <=? Z.of_nat (List.length p)) payloads).
