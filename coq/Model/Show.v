(** Canonical text rendering of model results for the correspondence check (the implementation
    worker harness/impl_worker.py renders the real objects in the same format). *)
From Coq Require Import ZArith List String Ascii Bool.
From TV Require Import Layout.Types Base.Bytes Model.Monad Model.Ints Model.Decoder Model.Message Model.Pump Model.Object.
Import ListNotations.
Open Scope string_scope.
Open Scope list_scope.
Open Scope Z_scope.
Infix "+++" := String.append (right associativity, at level 60).

Fixpoint sconcat (sep : string) (l : list string) : string :=
  match l with
  | [] => ""
  | [x] => x
  | x :: r => x +++ sep +++ sconcat sep r
  end.

Definition show_node (n : pnode) : string :=
  match pn_idx n with
  | None => pn_name n
  | Some i => pn_name n +++ "[" +++ dec_string i +++ "]"
  end.
Definition show_path (p : path) : string := sconcat "." (map show_node p).

Definition show_tyid (t : tyid) : string :=
  match t with
  | TyN n => n
  | TyEnc n => "enc:" +++ n
  | TyList e => "list:" +++ e
  end.

Definition show_oz (o : option Z) : string := match o with None => "-" | Some z => dec_string z end.
Definition show_opath (o : option path) : string := match o with None => "-" | Some p => "/" +++ show_path p end.

Definition hex2 (b : Z) : string := hexpad 2 b.
Fixpoint show_hex (l : list Z) : string :=
  match l with [] => "" | b :: r => hex2 b +++ show_hex r end.
Definition show_hex_ (l : list Z) : string := match l with [] => "-" | _ => show_hex l end.

Definition show_info (c : scinfo) : string :=
  show_opath (si_path c) +++ " " +++ show_oz (si_max c) +++ " " +++ dec_string (si_already c).

Definition show_vsrc (s : vsrc) : string :=
  match s with VSType => "type" | VSCommandCodes => "cc" | VSSelection => "sel" | VSNoCommand => "nocc" end.

Definition show_err (e : err) : string :=
  match e with
  | EValue p tn v s => "V /" +++ show_path p +++ " " +++ tn +++ " " +++ dec_string v +++ " " +++ show_vsrc s
  | EExceeded c v b => "X " +++ show_info c +++ " /" +++ show_path v +++ " " +++ dec_string b
  | EAnticipated c v val b => "A " +++ show_info c +++ " /" +++ show_path v +++ " " +++ dec_string val +++ " " +++ dec_string b
  | ESubceeded c => "U " +++ show_info c
  | EDepleted cc => "D " +++ show_oz cc
  | ESuperfluous rest cc => "S " +++ show_hex_ rest +++ " " +++ show_oz cc
  | EEncMismatch p ex fo => "M /" +++ show_path p +++ (if ex then " 1" else " 0") +++ (if fo then " 1" else " 0")
  end.

Definition show_oevent (e : oevent) : string :=
  match fst e with
  | Ev ev => "E /" +++ show_path (epath ev) +++ " " +++ show_tyid (ety ev) +++ " " +++
             match evalue ev with None => "..." | Some z => dec_string z end +++ " " +++ dec_string (snd e)
  | Wn w => "W " +++ show_err w
  | Rd _ => "?"
  end.

Definition show_internal (k : internal) : string :=
  match k with
  | IAssertMaxNone => "IAssertMaxNone" | IAssertSizeNeg => "IAssertSizeNeg" | INoCount => "INoCount"
  | INoSelector => "INoSelector" | INoListSize => "INoListSize" | IEncrypt => "IEncrypt"
  | IRspEncMismatch => "IRspEncMismatch" | IRspNoCommandCode => "IRspNoCommandCode"
  | IUnionAtRoot => "IUnionAtRoot" | IAuthNone => "IAuthNone" | IStopOnSend => "IStopOnSend"
  | IStaleNone => "IStaleNone" | IListNotDone => "IListNotDone"
  end.

Definition show_outcome (o : outcome) : string :=
  match o with
  | OAccepted => "ACC"
  | ORaised e rem => "RAISE " +++ show_err e +++ " rem=" +++ show_hex_ rem
  | ODepleted cc => "DEP " +++ show_oz cc
  | OSuperfluous rest cc => "SUP " +++ show_hex_ rest +++ " " +++ show_oz cc
  | OCrash k => "CRASH " +++ show_internal k
  | OFuel => "FUEL"
  end.

Definition show_result (r : list oevent * outcome) : string :=
  sconcat ";" (app (map show_oevent (fst r)) [show_outcome (snd r)]).

(** objects *)
Fixpoint show_value (v : value) : string :=
  match v with
  | VInt_ tn z => tn +++ "=" +++ dec_string z
  | VStruct_ t fs =>
      show_tyid t +++ "{" +++
      sconcat "," (map (fun nf => fst nf +++ ":" +++
                        match snd nf with None => "None" | Some x => show_value x end) fs) +++ "}"
  | VList_ vs => "[" +++ sconcat "," (map show_value vs) +++ "]"
  end.

(** root types by name: the structure types, then the area types of the four command maps *)
Fixpoint find_by_name (n : string) (l : list (Z * ty)) : option ty :=
  match l with
  | [] => None
  | (_, t) :: r => if String.eqb (ty_name t) n then Some t else find_by_name n r
  end.

Definition find_type (T : tables) (which : string) (n : string) : option ty :=
  if String.eqb which "S" then lookupS n (types T)
  else if String.eqb which "CH" then find_by_name n (cmd_handles T)
  else if String.eqb which "CP" then find_by_name n (cmd_params T)
  else if String.eqb which "RH" then find_by_name n (rsp_handles T)
  else if String.eqb which "RP" then find_by_name n (rsp_params T)
  else None.

Definition run_decode (T : tables) (abort : bool) (r : root) (input : list Z) : string :=
  show_result (decode T abort r input).

Definition run_obj (T : tables) (r : root) (input : list Z) : string :=
  match decode_obj T true r input with
  | Some v => show_value v
  | None => "None"
  end.

(** [obj_to_events] applied to the decoder's by-product object: one event per item, without pull counts *)
Definition show_event_plain (ev : event) : string :=
  "E /" +++ show_path (epath ev) +++ " " +++ show_tyid (ety ev) +++ " " +++
  match evalue ev with None => "..." | Some z => dec_string z end.

Definition run_objev (T : tables) (r : root) (input : list Z) : string :=
  match decode_obj T true r input with
  | Some v => sconcat ";" (map show_event_plain (obj_to_events T r v))
  | None => "None"
  end.

(** [events_to_obj] applied to the events of an accepted strict decode *)
Definition only_events (l : list action) : list event :=
  flat_map (fun a => match a with Ev e => [e] | _ => [] end) l.

Definition run_evobj (T : tables) (r : root) (input : list Z) : string :=
  match decode T true r input with
  | (evs, OAccepted) =>
      match events_to_obj T r (only_events (map fst evs)) with
      | Some v => show_value v
      | None => "CRASH"
      end
  | _ => "None"
  end.

(** [events_to_objs] applied to the events of an accepted strict stream decode: one object per message *)
Definition run_sevobj (T : tables) (input : list Z) : string :=
  match decode T true RStream input with
  | (evs, OAccepted) =>
      let objs := events_to_objs T (only_events (map fst evs)) in
      if forallb (fun o => match o with Some _ => true | None => false end) objs
      then sconcat ";" (map (fun o => match o with Some v => show_value v | None => "" end) objs)
      else "CRASH"
  | _ => "None"
  end.


