(** Attribute words (tpm_bitfield): masks, field accessors ([Bit.__get__]) and the pretty printer's
    bit rows ([pretty_attrs]). *)
From Coq Require Import ZArith List String Ascii Bool.
From TV Require Import Layout.Types.
Import ListNotations.
Open Scope Z_scope.

Definition attr_masks (p : prim) : list (string * Z) :=
  match pkind_ p with KBits ms => ms | _ => [] end.

(** [bits = v & mask; while mask & 1 == 0: bits >>= 1; mask >>= 1; return bits]
    ([None] = the Python loop would not terminate within [fuel] steps: mask = 0) *)
Fixpoint acc_loop (fuel : nat) (bits mask : Z) : option Z :=
  match fuel with
  | O => None
  | S f => if Z.land mask 1 =? 0 then acc_loop f (Z.shiftr bits 1) (Z.shiftr mask 1) else Some bits
  end.
Definition accessor (nbits : nat) (mask v : Z) : option Z := acc_loop (S nbits) (Z.land v mask) mask.

(** one printed row: position j (0 = most significant) shows v's bit where the mask has a bit, a dot elsewhere *)
Definition bit_row (n : nat) (mask v : Z) : list (option bool) :=
  map (fun j => let i := Z.of_nat (n - 1 - j) in
                if Z.testbit mask i then Some (Z.testbit v i) else None) (seq 0 n).

Definition show_row (r : list (option bool)) : string :=
  fold_right (fun o acc => String (match o with None => "."%char | Some true => "1"%char | Some false => "0"%char end) acc)
             EmptyString r.

Fixpoint disjoint_list (ms : list Z) : bool :=
  match ms with
  | [] => true
  | m :: r => forallb (fun x => Z.land m x =? 0) r && disjoint_list r
  end.

(** masks are positive, pairwise disjoint and together cover exactly the n-bit word *)
Definition attr_ok (n : Z) (ms : list Z) : bool :=
  forallb (fun m => 0 <? m) ms && disjoint_list ms && (fold_right Z.lor 0 ms =? Z.ones n).
