(** Model of process_command / process_response / process_command_response_stream and
    process_byte_sized_array (io/binary/marshal.py). *)
From Coq Require Import ZArith List String Bool.
From TV Require Import Layout.Types Base.Bytes Model.Monad Model.Constraints Model.Ints Model.Decoder.
Import ListNotations.
Open Scope string_scope.
Open Scope list_scope.
Open Scope Z_scope.

Inductive root :=
| RType (t : ty)                       (* a structure type *)
| RCommand
| RResponse (cc : option Z) (enc : bool)
| RStream.

Definition field_of (v : value) (n : string) : option (option value) :=
  match v with VStruct_ _ fs => lookupS n fs | _ => None end.

(** [any(a.sessionAttributes.<bit> for a in area)], [None] area = False;
    [None] result = the Python would raise (malformed element) *)
Fixpoint any_attr (attr : string) (mask : Z) (vs : list value) : option bool :=
  match vs with
  | [] => Some false
  | v :: r =>
      match field_of v attr with
      | Some (Some (VInt_ _ z)) =>
          if negb (Z.land z mask =? 0) then Some true else any_attr attr mask r
      | _ => None
      end
  end.

Definition is_param_enc (attr : string) (mask : Z) (area : option value) : option bool :=
  match area with
  | None => Some false
  | Some (VList_ vs) => any_attr attr mask vs
  | Some _ => None
  end.

Definition listval (l : list (option value)) : value :=
  VList_ (map (fun o => match o with Some x => x | None => VList_ [] end) l).

Section Msg.
  Variable T : tables.
  Variable abort : bool.

  (** [process_byte_sized_array]: elements until the governing constraint is used up *)
  Definition dec_sized_array (lid : tyid) (pa : path) (cid : nat)
             (body : path -> M (option value)) : M (option value) :=
    emit (sev pa lid) ;;;
    s0 <- get ;;
    let c0 := get_sc s0 cid in
    match sc_max c0 with
    | None => internal_ IAssertMaxNone
    | Some mx =>
        catch_exceeded abort [cid]
          (r <- repZ (mx - sc_already c0)
                 (fun st_ : Z * list (option value) =>
                    s <- get ;;
                    if sc_already (get_sc s cid) <? mx
                    then v <- body (pindex pa (fst st_)) ;; ret (fst st_ + 1, v :: snd st_)
                    else ret st_) (0, []) ;;
           s <- get ;;
           if sc_already (get_sc s cid) <? mx then fuel_
           else assert_done abort cid ;;; ret (Some (listval (rev (snd r)))))
          (ret None)
    end.

  (** one field of a command/response: Exceeded of one of the message's own constraints is
      reported as a warning and the message is abandoned with the object built so far *)
  Definition try_field {A R} (ids : list nat) (m : M A) (abandon : M R) (k : A -> M R) : M R :=
    r <- catch_exceeded abort ids (a <- m ;; ret (Some a)) (ret None) ;;
    match r with Some a => k a | None => abandon end.

  Record cmdres := mkCmdRes { cr_obj : value; cr_cc : option Z; cr_area : option value }.

  Definition cmd_obj (rvals : list (string * option value)) : value := VStruct_ (TyN "Command") (rev rvals).

  Definition bad_cc (pa : path) (ccz : Z) : M cmdres :=
    fail (EValue (pchild pa "commandCode") (pname (p_cc T)) ccz VSCommandCodes).

  (** a response whose command is unknown - its code is not a TPM_CC, or was never decoded (a stream in warn mode
      whose command was abandoned before the code): the layout of field [n] is unknowable, ValueConstraintViolatedError *)
  Definition rsp_no_cc {A} (pa : path) (n : string) (cc : option Z) : M A :=
    match cc with
    | Some c => fail (EValue (pchild pa n) (pname (p_cc T)) c VSCommandCodes)
    | None => fail (EValue (pchild pa n) (pname (p_cc T)) 0 VSNoCommand)
    end.

  (** the parameter area of a command and the end of the command *)
  Definition cmd_params_step (pa : path) (cid aid : nat) (ccz : Z)
             (v : list (string * option value)) (area : option value) (enc : bool) : M cmdres :=
    match lookupZ ccz (cmd_params T) with
    | Some pty =>
        try_field [cid; aid] (dec_ty T abort pty (pchild pa "parameters") None enc)
          (ret (mkCmdRes (cmd_obj v) (Some ccz) area)) (fun pv =>
        assert_done abort cid ;;;
        ret (mkCmdRes (cmd_obj (("parameters", pv) :: v)) (Some ccz) area))
    | None => bad_cc pa ccz
    end.

  Definition dec_command (pa : path) : M cmdres :=
    cid <- new_sc ;;
    aid <- new_sc ;;
    set_lst [cid] ;;;
    emit (sev pa (TyN "Command")) ;;;
    let ids := [cid; aid] in
    try_field ids (dec_prim abort (p_cmd_tag T) (pchild pa "tag"))
      (ret (mkCmdRes (cmd_obj []) None None)) (fun tagv =>
    let v1 := [("tag", tagv)] in
    try_field ids (dec_prim abort (p_size32 T) (pchild pa "commandSize"))
      (ret (mkCmdRes (cmd_obj v1) None None)) (fun szv =>
    let v2 := ("commandSize", szv) :: v1 in
    set_constraint abort cid (pchild pa "commandSize") (match as_int szv with Some z => z | None => 0 end) ;;;
    try_field ids (dec_prim abort (p_cc T) (pchild pa "commandCode"))
      (ret (mkCmdRes (cmd_obj v2) None None)) (fun ccv =>
    let v3 := ("commandCode", ccv) :: v2 in
    let ccz := match as_int ccv with Some z => z | None => 0 end in
    let cc := Some ccz in
    match lookupZ ccz (cmd_handles T) with
    | Some hty =>
        try_field ids (dec_ty T abort hty (pchild pa "handles") None false)
          (ret (mkCmdRes (cmd_obj v3) cc None)) (fun hv =>
        let v4 := ("handles", hv) :: v3 in
        if match as_int tagv with Some z => z =? st_sessions T | None => false end then
          try_field ids (dec_prim abort (p_size32 T) (pchild pa "authSize"))
            (ret (mkCmdRes (cmd_obj v4) cc None)) (fun asv =>
          let v5 := ("authSize", asv) :: v4 in
          set_constraint abort aid (pchild pa "authSize") (match as_int asv with Some z => z | None => 0 end) ;;;
          append_lst aid ;;;
          try_field ids (dec_sized_array (list_id (t_auth_cmd T)) (pchild pa "authorizationArea") aid
                           (fun p => dec_ty T abort (t_auth_cmd T) p None false))
            (ret (mkCmdRes (cmd_obj v5) cc None)) (fun area =>
          let v6 := ("authorizationArea", area) :: v5 in
          match is_param_enc (sess_attr_field T) (mask_decrypt T) area with
          | Some enc => cmd_params_step pa cid aid ccz v6 area enc
          | None => internal_ IAuthNone
          end))
        else cmd_params_step pa cid aid ccz v4 None false)
    | None => bad_cc pa ccz
    end))).

  (** [size_constraints.assert_done()]: every listed constraint must be obsolete by now *)
  Definition list_assert_done : M unit :=
    s <- get ;;
    if forallb (fun i => sc_obs (get_sc s i)) (lst s) then ret tt else internal_ IListNotDone.

  Definition rsp_obj (rvals : list (string * option value)) : value := VStruct_ (TyN "Response") (rev rvals).

  Definition rsp_finish (rid : nat) (v : list (string * option value)) : M value :=
    assert_done abort rid ;;; list_assert_done ;;; ret (rsp_obj v).

  (** parameters, [parameterSize] check, session area, end of the response *)
  Definition rsp_rest (pa : path) (rid pid : nat) (cc : option Z) (enc sessions : bool)
             (v : list (string * option value)) (have_psize : bool) : M value :=
    match match cc with Some c => lookupZ c (rsp_params T) | None => None end with
    | None => rsp_no_cc pa "parameters" cc
    | Some pty =>
        try_field [rid; pid] (dec_ty T abort pty (pchild pa "parameters") None enc) (ret (rsp_obj v)) (fun pv =>
        let v' := ("parameters", pv) :: v in
        (if have_psize then assert_done abort pid else ret tt) ;;;
        if sessions then
          try_field [rid; pid] (dec_sized_array (list_id (t_auth_rsp T)) (pchild pa "authorizationArea") rid
                           (fun p => dec_ty T abort (t_auth_rsp T) p None false))
            (ret (rsp_obj v')) (fun area =>
          match is_param_enc (sess_attr_field T) (mask_encrypt T) area with
          | Some e =>
              (if Bool.eqb e enc then ret tt
               else let er := EEncMismatch (pchild pa "authorizationArea") enc e in
                    if abort then fail er else emit (Wn er)) ;;;
              rsp_finish rid (("authorizationArea", area) :: v')
          | None => internal_ IAuthNone
          end)
        else rsp_finish rid v')
    end.

  Definition dec_response (pa : path) (cc : option Z) (enc : bool) : M value :=
    rid <- new_sc ;;
    pid <- new_sc ;;
    set_lst [rid] ;;;
    emit (sev pa (TyN "Response")) ;;;
    let ids := [rid; pid] in
    try_field ids (dec_prim abort (p_rsp_tag T) (pchild pa "tag")) (ret (rsp_obj [])) (fun tagv =>
    let v1 := [("tag", tagv)] in
    try_field ids (dec_prim abort (p_size32 T) (pchild pa "responseSize")) (ret (rsp_obj v1)) (fun szv =>
    let v2 := ("responseSize", szv) :: v1 in
    set_constraint abort rid (pchild pa "responseSize") (match as_int szv with Some z => z | None => 0 end) ;;;
    try_field ids (dec_prim abort (p_rc T) (pchild pa "responseCode")) (ret (rsp_obj v2)) (fun rcv =>
    let v3 := ("responseCode", rcv) :: v2 in
    if match as_int rcv with Some z => negb (z =? rc_success T) | None => true end then rsp_finish rid v3
    else
    match match cc with Some c => lookupZ c (rsp_handles T) | None => None end with
    | Some hty =>
        let sessions := match as_int tagv with Some z => z =? st_sessions T | None => false end in
        try_field ids (dec_ty T abort hty (pchild pa "handles") None enc) (ret (rsp_obj v3)) (fun hv =>
        let v4 := ("handles", hv) :: v3 in
        if sessions then
          try_field ids (dec_prim abort (p_size32 T) (pchild pa "parameterSize")) (ret (rsp_obj v4)) (fun psv =>
          set_constraint abort pid (pchild pa "parameterSize") (match as_int psv with Some z => z | None => 0 end) ;;;
          append_lst pid ;;;
          rsp_rest pa rid pid cc enc sessions (("parameterSize", psv) :: v4) true)
        else rsp_rest pa rid pid cc enc sessions v4 false)
    | None => rsp_no_cc pa "handles" cc
    end))).

  (** [process_command_response_stream]: [while True]; the pump ends it at a message root *)
  Definition stream_bound : positive := 18446744073709551616.   (* 2^64 message pairs *)

  Definition dec_stream (pa : path) : M unit :=
    rep stream_bound (fun _ : unit =>
      c <- dec_command pa ;;
      match is_param_enc (sess_attr_field T) (mask_encrypt T) (cr_area c) with
      | Some enc => _ <- dec_response pa (cr_cc c) enc ;; ret tt
      | None => internal_ IAuthNone
      end) tt ;;;
    fuel_.

  Definition dec_root (r : root) : M (option value) :=
    match r with
    | RType t => set_lst [] ;;; dec_ty T abort t root_path None false
    | RCommand => c <- dec_command root_path ;; ret (Some (cr_obj c))
    | RResponse cc enc => v <- dec_response root_path cc enc ;; ret (Some v)
    | RStream => dec_stream root_path ;;; ret None
    end.
End Msg.
