(** Model of common/object.py: splitting a decoded stream into messages ([separate_events]) and
    the command/response pairing of [events_to_objs].  ([events_to_obj]/[obj_to_events] themselves are not
    modelled: C11 is decided on the implementation, with the by-product object tied to Model/Decoder.v.) *)
From Coq Require Import ZArith List String Bool.
From TV Require Import Layout.Types Model.Monad Model.Decoder Model.Message Model.Pump.
Import ListNotations.
Open Scope string_scope.
Open Scope list_scope.
Open Scope Z_scope.

Definition is_root (e : event) : bool := path_eqb (epath e) root_path.

(** [separate_events]: a new message starts at every event whose path is the root path (unless nothing has been
    collected yet) *)
Fixpoint separate (evs : list event) (cur : list event) : list (list event) :=
  match evs with
  | [] => match cur with [] => [] | _ => [rev cur] end
  | e :: r =>
      if is_root e && negb (match cur with [] => true | _ => false end)
      then rev cur :: separate r [e]
      else separate r (e :: cur)
  end.
Definition separate_events (evs : list event) : list (list event) := separate evs [].

(** [events_to_objs]: messages alternate command, response; the response is built with the command code of the
    command before it *)
Inductive role := RoleCommand | RoleResponse (cc : option Z).
Definition command_code_of (m : list event) : option Z :=
  match filter (fun e => path_eqb (epath e) cc_path) m with
  | e :: _ => evalue e
  | [] => None
  end.
Fixpoint roles (ms : list (list event)) (pending : option (option Z)) : list role :=
  match ms with
  | [] => []
  | m :: r =>
      match pending with
      | None => RoleCommand :: roles r (Some (command_code_of m))
      | Some cc => RoleResponse cc :: roles r None
      end
  end.


(** ---- [obj_to_events] (common/object.py): an object back into the events of its decode.
    The Python function walks [dataclasses.fields(obj)] of the object's own class and needs, per field, its declared
    type (for the placeholder event of an absent field and for the parent event of a list field).  The model is
    directed by the layout descriptor of the class the object was decoded as (for a parameter area whose object has the
    synthesized encrypted class, the first field's descriptor is replaced by TPM2B_ENCRYPTED_PARAM, as
    [TPMS_PARAMS.encrypted()] does); attributes are looked up by name, an attribute that is not recorded is [None]. *)
Section ObjEvents.
  Variable T : tables.

  Definition ev_node (pa : path) (t : tyid) : event := mkEvent pa t None.

  (** [for i, elem in enumerate(obj): yield from obj_to_events(elem, parent / PathNode(name, i))] *)
  Fixpoint oe_elems (f : value -> path -> list event) (pa : path) (l : list value) (i : Z) : list event :=
    match l with
    | [] => []
    | x :: r => f x (pindex pa i) ++ oe_elems f pa r (i + 1)
    end.

  (** a list-typed field: the list parent, then the elements *)
  Definition oe_list (lid : tyid) (f : value -> path -> list event) (pa : path) (v : value) : list event :=
    ev_node pa lid :: match v with VList_ l => oe_elems f pa l 0 | _ => f v pa end.

  Definition oe_leaf (v : value) (pa : path) : list event :=
    match v with
    | VInt_ tn z => [mkEvent pa (TyN tn) (Some z)]
    | VList_ l => oe_elems (fun _ _ => []) pa l 0       (* a list outside a list field: no parent event *)
    | VStruct_ _ _ => []
    end.

  (** the opaque first parameter: TPM2B_ENCRYPTED_PARAM, a size and a list of a primitive *)
  Definition oe_enc_param (v : value) (pa : path) : list event :=
    match t_enc_param T, v with
    | TTpm2bList _ szf buf _ (TPrim ep), VStruct_ tid vals =>
        ev_node pa tid ::
        (match lookupS szf vals with
         | Some (Some x) => oe_leaf x (pchild pa szf)
         | _ => [ev_node (pchild pa szf) (TyN (pname (match t_enc_param T with TTpm2bList _ _ _ szp _ => szp | _ => ep end)))]
         end) ++
        (match lookupS buf vals with
         | Some (Some x) => oe_list (TyList (pname ep)) oe_leaf (pchild pa buf) x
         | _ => [ev_node (pchild pa buf) (TyList (pname ep))]
         end)
    | _, _ => []
    end.

  Fixpoint oe_ty (t : ty) (v : value) (pa : path) {struct t} : list event :=
    match t with
    | TPrim _ => oe_leaf v pa
    | TStruct name isp fs =>
        match v with
        | VStruct_ tid vals =>
            ev_node pa tid ::
            match tid, fs with
            | TyEnc _, FPlain n _ r =>
                (match lookupS n vals with
                 | Some (Some x) => oe_enc_param x (pchild pa n)
                 | _ => [ev_node (pchild pa n) (ty_id (t_enc_param T))]
                 end) ++ oe_fields r vals pa
            | _, _ => oe_fields fs vals pa
            end
        | _ => oe_leaf v pa
        end
    | TTpm2bList name szf buf szp elem =>
        match v with
        | VStruct_ tid vals =>
            ev_node pa tid ::
            (match lookupS szf vals with
             | Some (Some x) => oe_leaf x (pchild pa szf)
             | _ => [ev_node (pchild pa szf) (TyN (pname szp))]
             end) ++
            (match lookupS buf vals with
             | Some (Some x) => oe_list (list_id elem) (oe_ty elem) (pchild pa buf) x
             | _ => [ev_node (pchild pa buf) (list_id elem)]
             end)
        | _ => oe_leaf v pa
        end
    | TTpm2bStruct name szf buf szp inner =>
        match v with
        | VStruct_ tid vals =>
            ev_node pa tid ::
            (match lookupS szf vals with
             | Some (Some x) => oe_leaf x (pchild pa szf)
             | _ => [ev_node (pchild pa szf) (TyN (pname szp))]
             end) ++
            (match lookupS buf vals with
             | Some (Some x) => oe_ty inner x (pchild pa buf)
             | _ => [ev_node (pchild pa buf) (ty_id inner)]          (* the absent payload: an "empty field" *)
             end)
        | _ => oe_leaf v pa
        end
    | TUnion name ar =>
        match v with
        | VStruct_ tid vals => ev_node pa tid :: oe_arms ar vals pa
        | _ => oe_leaf v pa
        end
    end
  with oe_fields (fs : fields) (vals : list (string * option value)) (pa : path) {struct fs} : list event :=
    match fs with
    | FNil => []
    | FPlain n t r =>
        (match lookupS n vals with
         | Some (Some x) => oe_ty t x (pchild pa n)
         | _ => [ev_node (pchild pa n) (ty_id t)]
         end) ++ oe_fields r vals pa
    | FList n elem r =>
        (match lookupS n vals with
         | Some (Some x) => oe_list (list_id elem) (oe_ty elem) (pchild pa n) x
         | _ => [ev_node (pchild pa n) (list_id elem)]
         end) ++ oe_fields r vals pa
    | FUnion n _ u r =>
        (match lookupS n vals with
         | Some (Some x) => oe_ty u x (pchild pa n)
         | _ => [ev_node (pchild pa n) (ty_id u)]
         end) ++ oe_fields r vals pa
    end
  with oe_arms (ar : arms) (vals : list (string * option value)) (pa : path) {struct ar} : list event :=
    (* a union class: members that are None are skipped completely *)
    match ar with
    | ANil => []
    | ACons n _ p r =>
        (match lookupS n vals with
         | Some (Some x) =>
             match p with
             | PNone => oe_leaf x (pchild pa n)
             | PTy t => oe_ty t x (pchild pa n)
             | PList elem _ => oe_list (list_id elem) (oe_ty elem) (pchild pa n) x
             end
         | _ => []
         end) ++ oe_arms r vals pa
    end.

  (** a field of Command / Response that may be invisible: skipped when None *)
  Definition oe_opt (vals : list (string * option value)) (n : string) (f : value -> list event) : list event :=
    match lookupS n vals with Some (Some x) => f x | _ => [] end.
  Definition oe_req (vals : list (string * option value)) (n : string) (pa : path) (p : prim) : list event :=
    match lookupS n vals with Some (Some x) => oe_leaf x (pchild pa n) | _ => [ev_node (pchild pa n) (TyN (pname p))] end.

  Definition oe_command (v : value) (pa : path) : list event :=
    match v with
    | VStruct_ tid vals =>
        let cc := match lookupS "commandCode" vals with Some x => as_int x | None => None end in
        ev_node pa tid ::
        oe_req vals "tag" pa (p_cmd_tag T) ++ oe_req vals "commandSize" pa (p_size32 T) ++ oe_req vals "commandCode" pa (p_cc T) ++
        oe_opt vals "handles" (fun x => match cc with Some c => match lookupZ c (cmd_handles T) with Some t => oe_ty t x (pchild pa "handles") | None => [] end | None => [] end) ++
        oe_opt vals "authSize" (fun x => oe_leaf x (pchild pa "authSize")) ++
        oe_opt vals "authorizationArea" (oe_list (list_id (t_auth_cmd T)) (oe_ty (t_auth_cmd T)) (pchild pa "authorizationArea")) ++
        oe_opt vals "parameters" (fun x => match cc with Some c => match lookupZ c (cmd_params T) with Some t => oe_ty t x (pchild pa "parameters") | None => [] end | None => [] end)
    | _ => []
    end.

  (** [Response._type_maps] are keyed by the command code the response object was built with *)
  Definition oe_response (cc : option Z) (v : value) (pa : path) : list event :=
    match v with
    | VStruct_ tid vals =>
        ev_node pa tid ::
        oe_req vals "tag" pa (p_rsp_tag T) ++ oe_req vals "responseSize" pa (p_size32 T) ++ oe_req vals "responseCode" pa (p_rc T) ++
        oe_opt vals "handles" (fun x => match cc with Some c => match lookupZ c (rsp_handles T) with Some t => oe_ty t x (pchild pa "handles") | None => [] end | None => [] end) ++
        oe_opt vals "parameterSize" (fun x => oe_leaf x (pchild pa "parameterSize")) ++
        oe_opt vals "parameters" (fun x => match cc with Some c => match lookupZ c (rsp_params T) with Some t => oe_ty t x (pchild pa "parameters") | None => [] end | None => [] end) ++
        oe_opt vals "authorizationArea" (oe_list (list_id (t_auth_rsp T)) (oe_ty (t_auth_rsp T)) (pchild pa "authorizationArea"))
    | _ => []
    end.

  Definition obj_to_events (r : root) (v : value) : list event :=
    match r with
    | RType t => oe_ty t v root_path
    | RCommand => oe_command v root_path
    | RResponse cc _ => oe_response cc v root_path
    | RStream => []
    end.
End ObjEvents.
