(** Model of common/object.py: splitting a decoded stream into messages ([separate_events]) and
    the command/response pairing of [events_to_objs].  ([events_to_obj]/[obj_to_events] themselves are not
    modelled: C11 is decided on the implementation, with the by-product object tied to Model/Decoder.v.) *)
From Coq Require Import ZArith List String Bool.
From TV Require Import Layout.Types Model.Monad Model.Decoder Model.Pump.
Import ListNotations.
Open Scope string_scope.
Open Scope list_scope.
Open Scope Z_scope.

Definition is_root (e : event) : bool := path_eqb (epath e) root_path.

(** [separate_events]: a new message starts at every event whose path is the root path (unless nothing has been
    collected yet) *)
Fixpoint separate (evs : list event) (cur : list event) : list (list event) :=
  match evs with
  | [] => match cur with [] => [] | _ => [rev cur] end
  | e :: r =>
      if is_root e && negb (match cur with [] => true | _ => false end)
      then rev cur :: separate r [e]
      else separate r (e :: cur)
  end.
Definition separate_events (evs : list event) : list (list event) := separate evs [].

(** [events_to_objs]: messages alternate command, response; the response is built with the command code of the
    command before it *)
Inductive role := RoleCommand | RoleResponse (cc : option Z).
Definition command_code_of (m : list event) : option Z :=
  match filter (fun e => path_eqb (epath e) cc_path) m with
  | e :: _ => evalue e
  | [] => None
  end.
Fixpoint roles (ms : list (list event)) (pending : option (option Z)) : list role :=
  match ms with
  | [] => []
  | m :: r =>
      match pending with
      | None => RoleCommand :: roles r (Some (command_code_of m))
      | Some cc => RoleResponse cc :: roles r None
      end
  end.

