(** Model of common/object.py: splitting a decoded stream into messages ([separate_events]) and
    the command/response pairing of [events_to_objs].  ([events_to_obj]/[obj_to_events] themselves are not
    modelled: C11 is decided on the implementation, with the by-product object tied to Model/Decoder.v.) *)
From Coq Require Import ZArith List String Bool.
From TV Require Import Layout.Types Model.Monad Model.Decoder Model.Message Model.Pump.
Import ListNotations.
Open Scope string_scope.
Open Scope list_scope.
Open Scope Z_scope.

Definition is_root (e : event) : bool := path_eqb (epath e) root_path.

(** [separate_events]: a new message starts at every event whose path is the root path (unless nothing has been
    collected yet) *)
Fixpoint separate (evs : list event) (cur : list event) : list (list event) :=
  match evs with
  | [] => match cur with [] => [] | _ => [rev cur] end
  | e :: r =>
      if is_root e && negb (match cur with [] => true | _ => false end)
      then rev cur :: separate r [e]
      else separate r (e :: cur)
  end.
Definition separate_events (evs : list event) : list (list event) := separate evs [].

(** [events_to_objs]: messages alternate command, response; the response is built with the command code of the
    command before it *)
Inductive role := RoleCommand | RoleResponse (cc : option Z).
Definition command_code_of (m : list event) : option Z :=
  match filter (fun e => path_eqb (epath e) cc_path) m with
  | e :: _ => evalue e
  | [] => None
  end.
Fixpoint roles (ms : list (list event)) (pending : option (option Z)) : list role :=
  match ms with
  | [] => []
  | m :: r =>
      match pending with
      | None => RoleCommand :: roles r (Some (command_code_of m))
      | Some cc => RoleResponse cc :: roles r None
      end
  end.


(** ---- [obj_to_events] (common/object.py): an object back into the events of its decode.
    The Python function walks [dataclasses.fields(obj)] of the object's own class and needs, per field, its declared
    type (for the placeholder event of an absent field and for the parent event of a list field).  The model is
    directed by the layout descriptor of the class the object was decoded as (for a parameter area whose object has the
    synthesized encrypted class, the first field's descriptor is replaced by TPM2B_ENCRYPTED_PARAM, as
    [TPMS_PARAMS.encrypted()] does); attributes are looked up by name, an attribute that is not recorded is [None]. *)
Section ObjEvents.
  Variable T : tables.

  Definition ev_node (pa : path) (t : tyid) : event := mkEvent pa t None.

  (** [for i, elem in enumerate(obj): yield from obj_to_events(elem, parent / PathNode(name, i))] *)
  Fixpoint oe_elems (f : value -> path -> list event) (pa : path) (l : list value) (i : Z) : list event :=
    match l with
    | [] => []
    | x :: r => f x (pindex pa i) ++ oe_elems f pa r (i + 1)
    end.

  (** a list-typed field: the list parent, then the elements *)
  Definition oe_list (lid : tyid) (f : value -> path -> list event) (pa : path) (v : value) : list event :=
    ev_node pa lid :: match v with VList_ l => oe_elems f pa l 0 | _ => f v pa end.

  Definition oe_leaf (v : value) (pa : path) : list event :=
    match v with
    | VInt_ tn z => [mkEvent pa (TyN tn) (Some z)]
    | VList_ l => oe_elems (fun _ _ => []) pa l 0       (* a list outside a list field: no parent event *)
    | VStruct_ _ _ => []
    end.

  (** the opaque first parameter: TPM2B_ENCRYPTED_PARAM, a size and a list of a primitive *)
  Definition oe_enc_param (v : value) (pa : path) : list event :=
    match t_enc_param T, v with
    | TTpm2bList _ szf buf _ (TPrim ep), VStruct_ tid vals =>
        ev_node pa tid ::
        (match lookupS szf vals with
         | Some (Some x) => oe_leaf x (pchild pa szf)
         | _ => [ev_node (pchild pa szf) (TyN (pname (match t_enc_param T with TTpm2bList _ _ _ szp _ => szp | _ => ep end)))]
         end) ++
        (match lookupS buf vals with
         | Some (Some x) => oe_list (TyList (pname ep)) oe_leaf (pchild pa buf) x
         | _ => [ev_node (pchild pa buf) (TyList (pname ep))]
         end)
    | _, _ => []
    end.

  Fixpoint oe_ty (t : ty) (v : value) (pa : path) {struct t} : list event :=
    match t with
    | TPrim _ => oe_leaf v pa
    | TStruct name isp fs =>
        match v with
        | VStruct_ tid vals =>
            ev_node pa tid ::
            match tid, fs with
            | TyEnc _, FPlain n _ r =>
                (match lookupS n vals with
                 | Some (Some x) => oe_enc_param x (pchild pa n)
                 | _ => [ev_node (pchild pa n) (ty_id (t_enc_param T))]
                 end) ++ oe_fields r vals pa
            | _, _ => oe_fields fs vals pa
            end
        | _ => oe_leaf v pa
        end
    | TTpm2bList name szf buf szp elem =>
        match v with
        | VStruct_ tid vals =>
            ev_node pa tid ::
            (match lookupS szf vals with
             | Some (Some x) => oe_leaf x (pchild pa szf)
             | _ => [ev_node (pchild pa szf) (TyN (pname szp))]
             end) ++
            (match lookupS buf vals with
             | Some (Some x) => oe_list (list_id elem) (oe_ty elem) (pchild pa buf) x
             | _ => [ev_node (pchild pa buf) (list_id elem)]
             end)
        | _ => oe_leaf v pa
        end
    | TTpm2bStruct name szf buf szp inner =>
        match v with
        | VStruct_ tid vals =>
            ev_node pa tid ::
            (match lookupS szf vals with
             | Some (Some x) => oe_leaf x (pchild pa szf)
             | _ => [ev_node (pchild pa szf) (TyN (pname szp))]
             end) ++
            (match lookupS buf vals with
             | Some (Some x) => oe_ty inner x (pchild pa buf)
             | _ => [ev_node (pchild pa buf) (ty_id inner)]          (* the absent payload: an "empty field" *)
             end)
        | _ => oe_leaf v pa
        end
    | TUnion name ar =>
        match v with
        | VStruct_ tid vals => ev_node pa tid :: oe_arms ar vals pa
        | _ => oe_leaf v pa
        end
    end
  with oe_fields (fs : fields) (vals : list (string * option value)) (pa : path) {struct fs} : list event :=
    match fs with
    | FNil => []
    | FPlain n t r =>
        (match lookupS n vals with
         | Some (Some x) => oe_ty t x (pchild pa n)
         | _ => [ev_node (pchild pa n) (ty_id t)]
         end) ++ oe_fields r vals pa
    | FList n elem r =>
        (match lookupS n vals with
         | Some (Some x) => oe_list (list_id elem) (oe_ty elem) (pchild pa n) x
         | _ => [ev_node (pchild pa n) (list_id elem)]
         end) ++ oe_fields r vals pa
    | FUnion n _ u r =>
        (match lookupS n vals with
         | Some (Some x) => oe_ty u x (pchild pa n)
         | _ => [ev_node (pchild pa n) (ty_id u)]
         end) ++ oe_fields r vals pa
    end
  with oe_arms (ar : arms) (vals : list (string * option value)) (pa : path) {struct ar} : list event :=
    (* a union class: members that are None are skipped completely *)
    match ar with
    | ANil => []
    | ACons n _ p r =>
        (match lookupS n vals with
         | Some (Some x) =>
             match p with
             | PNone => oe_leaf x (pchild pa n)
             | PTy t => oe_ty t x (pchild pa n)
             | PList elem _ => oe_list (list_id elem) (oe_ty elem) (pchild pa n) x
             end
         | _ => []
         end) ++ oe_arms r vals pa
    end.

  (** a field of Command / Response that may be invisible: skipped when None *)
  Definition oe_opt (vals : list (string * option value)) (n : string) (f : value -> list event) : list event :=
    match lookupS n vals with Some (Some x) => f x | _ => [] end.
  Definition oe_req (vals : list (string * option value)) (n : string) (pa : path) (p : prim) : list event :=
    match lookupS n vals with Some (Some x) => oe_leaf x (pchild pa n) | _ => [ev_node (pchild pa n) (TyN (pname p))] end.

  Definition oe_command (v : value) (pa : path) : list event :=
    match v with
    | VStruct_ tid vals =>
        let cc := match lookupS "commandCode" vals with Some x => as_int x | None => None end in
        ev_node pa tid ::
        oe_req vals "tag" pa (p_cmd_tag T) ++ oe_req vals "commandSize" pa (p_size32 T) ++ oe_req vals "commandCode" pa (p_cc T) ++
        oe_opt vals "handles" (fun x => match cc with Some c => match lookupZ c (cmd_handles T) with Some t => oe_ty t x (pchild pa "handles") | None => [] end | None => [] end) ++
        oe_opt vals "authSize" (fun x => oe_leaf x (pchild pa "authSize")) ++
        oe_opt vals "authorizationArea" (oe_list (list_id (t_auth_cmd T)) (oe_ty (t_auth_cmd T)) (pchild pa "authorizationArea")) ++
        oe_opt vals "parameters" (fun x => match cc with Some c => match lookupZ c (cmd_params T) with Some t => oe_ty t x (pchild pa "parameters") | None => [] end | None => [] end)
    | _ => []
    end.

  (** [Response._type_maps] are keyed by the command code the response object was built with *)
  Definition oe_response (cc : option Z) (v : value) (pa : path) : list event :=
    match v with
    | VStruct_ tid vals =>
        ev_node pa tid ::
        oe_req vals "tag" pa (p_rsp_tag T) ++ oe_req vals "responseSize" pa (p_size32 T) ++ oe_req vals "responseCode" pa (p_rc T) ++
        oe_opt vals "handles" (fun x => match cc with Some c => match lookupZ c (rsp_handles T) with Some t => oe_ty t x (pchild pa "handles") | None => [] end | None => [] end) ++
        oe_opt vals "parameterSize" (fun x => oe_leaf x (pchild pa "parameterSize")) ++
        oe_opt vals "parameters" (fun x => match cc with Some c => match lookupZ c (rsp_params T) with Some t => oe_ty t x (pchild pa "parameters") | None => [] end | None => [] end) ++
        oe_opt vals "authorizationArea" (oe_list (list_id (t_auth_rsp T)) (oe_ty (t_auth_rsp T)) (pchild pa "authorizationArea"))
    | _ => []
    end.

  Definition obj_to_events (r : root) (v : value) : list event :=
    match r with
    | RType t => oe_ty t v root_path
    | RCommand => oe_command v root_path
    | RResponse cc _ => oe_response cc v root_path
    | RStream => []
    end.
End ObjEvents.

(** ---- [events_to_obj] (common/object.py): the events of one decode back into an object.
    [_events_to_dict] builds a nested dict/list structure by walking every event's path from the root
    ([dict.setdefault] for plain nodes, [list_setdefault] for indexed ones); [_to_obj] then converts dicts into
    instances of the class expected at that place (the class of the root is the type of the first event; below it the
    declared field types, the command-code maps for the Any-typed areas, the synthesized encrypted class when the first
    field looks like TPM2B_ENCRYPTED_PARAM), lists element-wise, and returns leaves as they are.  [None] models any
    Python exception. *)
Inductive tree :=
| TLeaf (tn : string) (z : Z)
| TDict (kvs : list (string * tree))
| TList (items : list (option tree)).

Fixpoint dict_set {A} (k : string) (v : A) (kvs : list (string * A)) : list (string * A) :=
  match kvs with
  | [] => [(k, v)]
  | (k', v') :: r => if String.eqb k k' then (k, v) :: r else (k', v') :: dict_set k v r
  end.

Fixpoint list_set {A} (i : nat) (v : A) (l : list A) : list A :=
  match l, i with
  | [], _ => []
  | _ :: r, O => v :: r
  | x :: r, S j => x :: list_set j v r
  end.

(** walk [path] below the node [t], creating what is missing; [leaf] is stored at the last node unless something is
    there already *)
Fixpoint ins (path : list pnode) (leaf : tree) (t : tree) {struct path} : option tree :=
  match path with
  | [] => Some t
  | n :: rest =>
      let v0 := match rest with [] => leaf | _ => TDict [] end in
      match t with
      | TDict kvs =>
          match pn_idx n with
          | None =>
              match lookupS (pn_name n) kvs with
              | Some child => match ins rest leaf child with Some c' => Some (TDict (dict_set (pn_name n) c' kvs)) | None => None end
              | None => match ins rest leaf v0 with Some c' => Some (TDict (dict_set (pn_name n) c' kvs)) | None => None end
              end
          | Some i =>
              match (match lookupS (pn_name n) kvs with Some (TList l) => Some l | None => Some [] | Some _ => None end) with
              | None => None
              | Some l =>
                  if i <? 0 then None
                  else if i =? Z.of_nat (List.length l) then
                    match ins rest leaf v0 with Some c' => Some (TDict (dict_set (pn_name n) (TList (l ++ [Some c'])) kvs)) | None => None end
                  else if i <? Z.of_nat (List.length l) then
                    match nth (Z.to_nat i) l None with
                    | Some child => match ins rest leaf child with Some c' => Some (TDict (dict_set (pn_name n) (TList (list_set (Z.to_nat i) (Some c') l)) kvs)) | None => None end
                    | None => match ins rest leaf v0 with Some c' => Some (TDict (dict_set (pn_name n) (TList (list_set (Z.to_nat i) (Some c') l)) kvs)) | None => None end
                    end
                  else None
              end
          end
      | _ => None
      end
  end.

Definition is_list_tyid (t : tyid) : bool := match t with TyList _ => true | _ => false end.
Definition tyid_name (t : tyid) : string := match t with TyN n | TyEnc n | TyList n => n end.

Definition leaf_of (e : event) : tree :=
  match evalue e with
  | Some z => TLeaf (tyid_name (ety e)) z
  | None => if is_list_tyid (ety e) then TList [] else TDict []
  end.

Fixpoint events_to_dict (evs : list event) (root : tree) : option tree :=
  match evs with
  | [] => Some root
  | e :: r => match ins (epath e) (leaf_of e) root with Some root' => events_to_dict r root' | None => None end
  end.

Section EventsToObj.
  Variable T : tables.

  Definition tree_is_empty_dict (t : tree) : bool := match t with TDict [] => true | _ => false end.
  Definition first_is_zero (kvs : list (string * tree)) : bool :=
    match kvs with (_, TLeaf _ z) :: _ => z =? 0 | _ => false end.

  (** [TPMS_PARAMS.is_encrypted_params(dict)]: the first value is a dict whose keys are those of TPM2B_ENCRYPTED_PARAM *)
  Definition looks_encrypted (kvs : list (string * tree)) : bool :=
    match kvs, t_enc_param T with
    | (_, TDict sub) :: _, TTpm2bList _ szf buf _ _ =>
        match map fst sub with
        | [a; b] => String.eqb a szf && String.eqb b buf
        | _ => false
        end
    | _, _ => false
    end.

  Definition all_some {A} (l : list (option A)) : option (list A) :=
    fold_right (fun o acc => match o, acc with Some x, Some r => Some (x :: r) | _, _ => None end) (Some []) l.

  Definition to_list (f : tree -> option value) (t : tree) : option value :=
    match t with
    | TList items => match all_some (map (fun o => match o with Some x => f x | None => None end) items) with Some l => Some (VList_ l) | None => None end
    | TLeaf tn z => Some (VInt_ tn z)
    | TDict _ => None
    end.

  (** the TPM2B rule: with a zero size, an empty placeholder dict stands for an absent payload *)
  Definition tpm2b_fix (zero : bool) (sub : tree) (o : option value) : option (option value) :=
    if zero && tree_is_empty_dict sub then Some None else match o with Some v => Some (Some v) | None => None end.

  Definition leaf_obj (t : tree) : option value := match t with TLeaf tn z => Some (VInt_ tn z) | _ => None end.

  (** a TPM2B class: the size leaf and the buffer *)
  Definition to_obj_2b (name szf buf : string) (fbuf : tree -> option value) (kvs : list (string * tree)) : option value :=
    let zero := first_is_zero kvs in
    match all_some (map (fun kv =>
             let o := if String.eqb (fst kv) szf then leaf_obj (snd kv)
                      else if String.eqb (fst kv) buf then fbuf (snd kv) else None in
             match tpm2b_fix zero (snd kv) o with Some ov => Some (fst kv, ov) | None => None end) kvs) with
    | Some vals => Some (VStruct_ (TyN name) vals)
    | None => None
    end.

  Definition to_obj_enc (sub : tree) : option value :=
    match t_enc_param T, sub with
    | TTpm2bList ename eszf ebuf _ (TPrim _), TDict kvs => to_obj_2b ename eszf ebuf (to_list leaf_obj) kvs
    | _, _ => None
    end.

  Fixpoint to_obj_ty (t : ty) (tr : tree) {struct t} : option value :=
    match tr with
    | TLeaf tn z => Some (VInt_ tn z)
    | TList _ => None
    | TDict kvs =>
        match t with
        | TPrim _ => None
        | TStruct name isp fs =>
            if looks_encrypted kvs then
              match fs, kvs with
              | FPlain n0 _ r, (k0, sub0) :: kvr =>
                  if String.eqb k0 n0 then
                    match to_obj_enc sub0, all_some (map (fun kv => match to_obj_fields r (fst kv) (snd kv) with Some v => Some (fst kv, Some v) | None => None end) kvr) with
                    | Some v0, Some rest => Some (VStruct_ (TyEnc name) ((k0, Some v0) :: rest))
                    | _, _ => None
                    end
                  else None
              | _, _ => None
              end
            else
              match all_some (map (fun kv => match to_obj_fields fs (fst kv) (snd kv) with Some v => Some (fst kv, Some v) | None => None end) kvs) with
              | Some vals => Some (VStruct_ (TyN name) vals)
              | None => None
              end
        | TTpm2bList name szf buf szp elem => to_obj_2b name szf buf (to_list (to_obj_ty elem)) kvs
        | TTpm2bStruct name szf buf szp inner => to_obj_2b name szf buf (to_obj_ty inner) kvs
        | TUnion name ar =>
            match all_some (map (fun kv => match to_obj_arms ar (fst kv) (snd kv) with Some v => Some (fst kv, Some v) | None => None end) kvs) with
            | Some vals => Some (VStruct_ (TyN name) vals)
            | None => None
            end
        end
    end
  with to_obj_fields (fs : fields) (k : string) (sub : tree) {struct fs} : option value :=
    match fs with
    | FNil => None
    | FPlain n t r => if String.eqb k n then to_obj_ty t sub else to_obj_fields r k sub
    | FList n e r => if String.eqb k n then to_list (to_obj_ty e) sub else to_obj_fields r k sub
    | FUnion n _ u r => if String.eqb k n then to_obj_ty u sub else to_obj_fields r k sub
    end
  with to_obj_arms (ar : arms) (k : string) (sub : tree) {struct ar} : option value :=
    match ar with
    | ANil => None
    | ACons n _ p r =>
        if String.eqb k n then
          match p with
          | PNone => leaf_obj sub
          | PTy t => to_obj_ty t sub
          | PList e _ => to_list (to_obj_ty e) sub
          end
        else to_obj_arms r k sub
    end.

  (** a message: the Any-typed areas take their class from the command-code maps *)
  Definition to_obj_msg (tname : string) (handles params : list (Z * ty)) (auth : ty) (cc : option Z) (tr : tree) : option value :=
    match tr with
    | TDict kvs =>
        match all_some (map (fun kv =>
                 let k := fst kv in let sub := snd kv in
                 let o := if String.eqb k "handles" then match cc with Some c => match lookupZ c handles with Some t => to_obj_ty t sub | None => None end | None => None end
                          else if String.eqb k "parameters" then match cc with Some c => match lookupZ c params with Some t => to_obj_ty t sub | None => None end | None => None end
                          else if String.eqb k "authorizationArea" then to_list (to_obj_ty auth) sub
                          else leaf_obj sub in
                 match o with Some v => Some (k, Some v) | None => None end) kvs) with
        | Some vals => Some (VStruct_ (TyN tname) vals)
        | None => None
        end
    | _ => None
    end.

  Definition tree_cc (tr : tree) : option Z :=
    match tr with TDict kvs => match lookupS "commandCode" kvs with Some (TLeaf _ z) => Some z | _ => None end | _ => None end.

  Definition events_to_obj (r : root) (evs : list event) : option value :=
    match events_to_dict evs (TDict []) with
    | Some (TDict rootkvs) =>
        match lookupS "" rootkvs with
        | Some tr =>
            match r with
            | RType t => to_obj_ty t tr
            | RCommand => to_obj_msg "Command" (cmd_handles T) (cmd_params T) (t_auth_cmd T) (tree_cc tr) tr
            | RResponse cc _ => to_obj_msg "Response" (rsp_handles T) (rsp_params T) (t_auth_rsp T) cc tr
            | RStream => None
            end
        | None => None
        end
    | _ => None
    end.
End EventsToObj.

(** ---- [events_to_objs]: the events of a decoded stream, split at the message roots, each message turned into an
    object - a command, then the response built with that command's code, ... (the last command may lack its response) *)
Definition role_root (ro : role) : root :=
  match ro with RoleCommand => RCommand | RoleResponse cc => RResponse cc false end.
Fixpoint zip_objs (T : tables) (ms : list (list event)) (rs : list role) : list (option value) :=
  match ms, rs with
  | m :: ms', r :: rs' => events_to_obj T (role_root r) m :: zip_objs T ms' rs'
  | _, _ => []
  end.
Definition events_to_objs (T : tables) (evs : list event) : list (option value) :=
  let ms := separate_events evs in zip_objs T ms (roles ms None).
