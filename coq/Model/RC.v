(** Response codes: model of TPM_RC.__format__ and TPM_RC.attributes (spec/common/tpm_rc.py),
    and the SPECIFICATION of the classification as the property words it ([rc_class], [rc_render]). *)
From Coq Require Import ZArith List String Bool.
From TV Require Import Layout.Types Model.Ints.
Import ListNotations.
Open Scope string_scope.
Open Scope Z_scope.

Definition bits_set (v m : Z) : bool := Z.land v m =? m.
Definition bits_unset (v m : Z) : bool := Z.land v m =? 0.

Section RC.
  Variable T : tables.
  Variable default_name : string.

  Definition name_in (tbl : list (Z * string)) (k : Z) : string :=
    match lookupZ k tbl with Some n => n | None => default_name end.

  (** ---- the code, as written (mask names follow the source) *)
  Definition rc_text (v : Z) : string :=
    if v =? 0 then "TPM_RC.SUCCESS"
    else if bits_unset v 384 then "TPM_RC.UNKNOWN (TPM1.2)"
    else if negb (bits_set v 128) then
      if bits_set v 1024 then "TPM_RC.UNKNOWN (Vendor-defined)"
      else if bits_set v 2048 then "TPM_RC." ++ name_in (rc_fmt0_warn T) (Z.land v 127)
      else "TPM_RC." ++ name_in (rc_fmt0_err T) (Z.land v 127)
    else
      let details :=
        if bits_set v 64 then "Parameter No. " ++ dec_string (Z.shiftr (Z.land v 3840) 8)
        else if bits_set v 2048 then "Session No. " ++ dec_string (Z.shiftr (Z.land v 1792) 8)
        else "Handle No. " ++ dec_string (Z.shiftr (Z.land v 1792) 8) in
      "TPM_RC." ++ name_in (rc_fmt1 T) (Z.land v 63) ++ " (" ++ details ++ ")".

  (** rows of [attributes()]: (name, mask, first part of the details) sorted by mask, descending *)
  Definition insert_desc (x : string * Z * string) (l : list (string * Z * string)) :=
    (fix ins (l : list (string * Z * string)) :=
       match l with
       | [] => [x]
       | y :: r => if snd (fst y) <? snd (fst x) then x :: y :: r else y :: ins r
       end) l.
  Definition sort_desc (l : list (string * Z * string)) := fold_right insert_desc [] l.

  Definition rc_rows (v : Z) : list (string * Z * string) :=
    if v =? 0 then []
    else
      let res := ("reserved0", 4294963200, "") in
      if bits_unset v 384 then
        sort_desc [res; ("nonFatal", 2048, ""); ("vendorSpecific", 1024, ""); ("tpm12_signifier", 384, "TPM 1.2"); ("code", 127, "")]
      else if negb (bits_set v 128) then
        let code_details :=
          if bits_unset v 1024 then
            if bits_set v 2048 then name_in (rc_fmt0_warn T) (Z.land v 127) else name_in (rc_fmt0_err T) (Z.land v 127)
          else "" in
        sort_desc [res; ("format", 128, ""); ("version", 256, "TPM 2.0"); ("vendorDefined", 1024, "");
                   ("severity", 2048, if bits_set v 2048 then "Warning" else "Error"); ("reserved1", 512, "");
                   ("code", 127, code_details)]
      else
        let who :=
          if bits_set v 64 then [("parameterNumber", 3840, "Parameter No. " ++ dec_string (Z.shiftr (Z.land v 3840) 8))]
          else if bits_set v 2048 then
            [("sessionError", 2048, ""); ("sessionNumber", 1792, "Session No. " ++ dec_string (Z.shiftr (Z.land v 1792) 8))]
          else [("sessionError", 2048, ""); ("handleNumber", 1792, "Handle No. " ++ dec_string (Z.shiftr (Z.land v 1792) 8))] in
        sort_desc ([res; ("format", 128, ""); ("parameterError", 64, "")] ++ who ++ [("code", 63, name_in (rc_fmt1 T) (Z.land v 63))]).

  (** ---- the specification: the TPM 2.0 format rules in the property's words *)
  Inductive who := AtParameter (n : Z) | AtSession (n : Z) | AtHandle (n : Z).
  Inductive rc_class :=
  | Success
  | FormatOne (number : Z) (w : who)      (* format bit (bit 7) set *)
  | Vendor                                (* bit 10 *)
  | Warning (number : Z)                  (* bit 11 *)
  | Error (number : Z).

  Definition bit (v i : Z) : bool := Z.testbit v i.
  Definition field (v lo n : Z) : Z := Z.shiftr v lo mod 2 ^ n.    (* n bits starting at bit lo *)

  Definition classify (v : Z) : rc_class :=
    if v =? 0 then Success
    else if bit v 7 then
      FormatOne (field v 0 6)
                (if bit v 6 then AtParameter (field v 8 4)
                 else if bit v 11 then AtSession (field v 8 3) else AtHandle (field v 8 3))
    else if bit v 10 then Vendor
    else if bit v 11 then Warning (field v 0 7) else Error (field v 0 7).

  Definition rc_render (c : rc_class) : string :=
    match c with
    | Success => "TPM_RC.SUCCESS"
    | FormatOne n w =>
        "TPM_RC." ++ name_in (rc_fmt1 T) n ++ " (" ++
        match w with
        | AtParameter k => "Parameter No. " ++ dec_string k
        | AtSession k => "Session No. " ++ dec_string k
        | AtHandle k => "Handle No. " ++ dec_string k
        end ++ ")"
    | Vendor => "TPM_RC.UNKNOWN (Vendor-defined)"
    | Warning n => "TPM_RC." ++ name_in (rc_fmt0_warn T) n
    | Error n => "TPM_RC." ++ name_in (rc_fmt0_err T) n
    end.

  (** the rows carry the same classification *)
  Definition row_details (rows : list (string * Z * string)) (name : string) : option string :=
    match filter (fun r => String.eqb (fst (fst r)) name) rows with
    | [r] => Some (snd r)
    | _ => None
    end.
  Definition has_row (rows : list (string * Z * string)) (name : string) : bool :=
    match row_details rows name with Some _ => true | None => false end.

  Definition rows_agree (c : rc_class) (rows : list (string * Z * string)) : bool :=
    match c with
    | Success => match rows with [] => true | _ => false end
    | FormatOne n w =>
        match row_details rows "code" with Some d => String.eqb d (name_in (rc_fmt1 T) n) | None => false end &&
        match w with
        | AtParameter k => match row_details rows "parameterNumber" with Some d => String.eqb d ("Parameter No. " ++ dec_string k) | None => false end
        | AtSession k => match row_details rows "sessionNumber" with Some d => String.eqb d ("Session No. " ++ dec_string k) | None => false end
        | AtHandle k => match row_details rows "handleNumber" with Some d => String.eqb d ("Handle No. " ++ dec_string k) | None => false end
        end
    | Vendor => has_row rows "vendorDefined" && match row_details rows "code" with Some d => String.eqb d "" | None => false end
    | Warning n =>
        match row_details rows "severity" with Some d => String.eqb d "Warning" | None => false end &&
        match row_details rows "code" with Some d => String.eqb d (name_in (rc_fmt0_warn T) n) | None => false end
    | Error n =>
        match row_details rows "severity" with Some d => String.eqb d "Error" | None => false end &&
        match row_details rows "code" with Some d => String.eqb d (name_in (rc_fmt0_err T) n) | None => false end
    end.
End RC.
