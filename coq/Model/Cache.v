(** The one piece of process-global state of the decoder: the memo of TPMS_PARAMS.encrypted()
    (functools.lru_cache(maxsize=k)).  A lookup returns the identity of the synthesized class. *)
From Coq Require Import ZArith List String Bool.
Import ListNotations.
Open Scope Z_scope.

Record cache := mkCache { entries : list (string * nat); next_id : nat }.   (* most recently used first *)
Definition empty_cache : cache := mkCache [] 0.

Fixpoint find (n : string) (l : list (string * nat)) : option nat :=
  match l with
  | [] => None
  | (k, v) :: r => if String.eqb k n then Some v else find n r
  end.
Fixpoint remove (n : string) (l : list (string * nat)) : list (string * nat) :=
  match l with
  | [] => []
  | (k, v) :: r => if String.eqb k n then r else (k, v) :: remove n r
  end.

(** capacity: None = unbounded; Some k = at most k entries (k <= 0: nothing is kept) *)
Definition trim (cap : option Z) (l : list (string * nat)) : list (string * nat) :=
  match cap with
  | None => l
  | Some k => firstn (Z.to_nat k) l
  end.

(** one call of [cls.encrypted()] for the class named [n] *)
Definition lookup (cap : option Z) (c : cache) (n : string) : cache * nat :=
  match find n (entries c) with
  | Some id => (mkCache (trim cap ((n, id) :: remove n (entries c))) (next_id c), id)
  | None => (mkCache (trim cap ((n, next_id c) :: entries c)) (S (next_id c)), next_id c)
  end.

(** a history = the sequence of lookups made by all decodes of the process, interleaved in any way *)
Fixpoint run (cap : option Z) (c : cache) (h : list string) : list nat :=
  match h with
  | [] => []
  | n :: r => let '(c', id) := lookup cap c n in id :: run cap c' r
  end.
