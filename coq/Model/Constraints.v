(** Model of common/constraints.py: SizeConstraint objects live in [store] (identity = index),
    the SizeConstraintList is [lst]. *)
From Coq Require Import ZArith List String Bool.
From TV Require Import Layout.Types Model.Monad.
Import ListNotations.
Open Scope Z_scope.

Definition sc_new : sc := mkSc None None 0 false.
Definition sc_dummy : sc := mkSc None None 0 true.

Definition get_sc (s : st) (i : nat) : sc := nth i (store s) sc_dummy.

Fixpoint upd {A} (l : list A) (i : nat) (a : A) : list A :=
  match l, i with
  | [], _ => []
  | _ :: r, O => a :: r
  | x :: r, S j => x :: upd r j a
  end.

Definition set_sc (i : nat) (c : sc) : M unit := fun s =>
  ([], mkSt (inp s) (upd (store s) i c) (lst s), Ok tt).

(** [SizeConstraint()] *)
Definition new_sc : M nat := fun s =>
  ([], mkSt (inp s) (store s ++ [sc_new]) (lst s), Ok (List.length (store s))).

Definition set_lst (l : list nat) : M unit := fun s => ([], mkSt (inp s) (store s) l, Ok tt).
Definition append_lst (i : nat) : M unit := fun s => ([], mkSt (inp s) (store s) (lst s ++ [i]), Ok tt).

(** [list.remove(x)]: first occurrence *)
Fixpoint remove1 (i : nat) (l : list nat) : list nat :=
  match l with
  | [] => []
  | x :: r => if Nat.eqb x i then r else x :: remove1 i r
  end.
Definition remove_lst (i : nat) : M unit := fun s => ([], mkSt (inp s) (store s) (remove1 i (lst s)), Ok tt).

Definition info (i : nat) (c : sc) : scinfo := mkInfo i (sc_path c) (sc_max c) (sc_already c).

Definition exceeds (c : sc) (size : Z) : option Z :=
  match sc_max c with
  | Some mx => if mx <? sc_already c + size then Some (sc_already c + size - mx) else None
  | None => None
  end.

(** [SizeConstraintList.bytes_parsed(path, size)] (not anticipating):
    1. finished constraints are dropped from the list;
    2. decide first: the outermost (first listed) region the field would cross;
    3a. none: every listed region is charged [size];
    3b. region [i]: the enclosing regions (listed before it) are charged the bytes actually skipped, the regions
        opened inside it (listed after it) are abandoned and dropped, then [i] is marked finished, the rest of
        it is skipped and Exceeded is raised *)
Definition purge : M unit :=
  s <- get ;; set_lst (filter (fun i => negb (sc_obs (get_sc s i))) (lst s)).

Fixpoint find_violated (s : st) (ids : list nat) (size : Z) (before : list nat)
  : option (list nat * nat * Z * list nat) :=
  match ids with
  | [] => None
  | i :: r =>
      match exceeds (get_sc s i) size with
      | Some by_ => Some (rev before, i, by_, r)
      | None => find_violated s r size (i :: before)
      end
  end.

Fixpoint bump_all (ids : list nat) (n : Z) : M unit :=
  match ids with
  | [] => ret tt
  | i :: r =>
      s <- get ;;
      let c := get_sc s i in
      set_sc i (mkSc (sc_path c) (sc_max c) (sc_already c + n) (sc_obs c)) ;;; bump_all r n
  end.

Fixpoint retire_all (ids : list nat) : M unit :=
  match ids with
  | [] => ret tt
  | i :: r =>
      s <- get ;;
      let c := get_sc s i in
      set_sc i (mkSc (sc_path c) (sc_max c) (sc_already c) true) ;;; retire_all r
  end.

Definition bytes_parsed (p : path) (size : Z) : M unit :=
  purge ;;;
  s <- get ;;
  match find_violated s (lst s) size [] with
  | None => bump_all (lst s) size
  | Some (before, i, by_, after) =>
      let c := get_sc s i in
      let room := match sc_max c with Some mx => mx - sc_already c | None => 0 end in
      bump_all before (Z.max room 0) ;;;
      retire_all after ;;;
      set_lst (before ++ [i]) ;;;
      set_sc i (mkSc (sc_path c) (sc_max c) (sc_already c) true) ;;;
      consume room ;;;
      fail (EExceeded (info i c) p by_)
  end.

(** anticipate_only walk over the *other* constraints: first live one that would be exceeded *)
Fixpoint anticipate (s : st) (ids : list nat) (self : nat) (size : Z) : option (scinfo * Z) :=
  match ids with
  | [] => None
  | i :: r =>
      if Nat.eqb i self then anticipate s r self size
      else let c := get_sc s i in
           if sc_obs c then anticipate s r self size
           else match exceeds c size with
                | Some by_ => Some (info i c, by_)
                | None => anticipate s r self size
                end
  end.

(** [constraint.set_constraint(path, size_max, other_size_constraints, abort)] *)
Definition set_constraint (abort : bool) (i : nat) (p : path) (size_max : Z) : M unit :=
  if size_max <? 0 then internal_ IAssertSizeNeg else
  s <- get ;;
  let c := get_sc s i in
  set_sc i (mkSc (Some p) (Some size_max) (sc_already c) (sc_obs c)) ;;;
  s' <- get ;;
  match anticipate s' (lst s') i size_max with
  | Some (ci, by_) =>
      let e := EAnticipated ci p size_max by_ in
      if abort then fail e else emit (Wn e)
  | None => ret tt
  end.

(** charge [n] bytes to every listed, unfinished constraint other than [self] *)
Fixpoint bump_others (ids : list nat) (self : nat) (n : Z) : M unit :=
  match ids with
  | [] => ret tt
  | i :: r =>
      s <- get ;;
      let c := get_sc s i in
      (if Nat.eqb i self || sc_obs c then ret tt
       else set_sc i (mkSc (sc_path c) (sc_max c) (sc_already c + n) (sc_obs c))) ;;;
      bump_others r self n
  end.

(** [constraint.assert_done(all_size_constraints, abort)]: nothing to do for a region already abandoned after a
    reported overrun; otherwise the region is finished: exactly filled, or Subceeded - in warn mode the rest of
    it is skipped and counted in the enclosing regions *)
Definition assert_done (abort : bool) (i : nat) : M unit :=
  s <- get ;;
  let c := get_sc s i in
  match sc_max c with
  | None => internal_ IAssertMaxNone
  | Some mx =>
      if sc_obs c then ret tt else
      set_sc i (mkSc (sc_path c) (sc_max c) (sc_already c) true) ;;;
      if sc_already c =? mx then ret tt
      else let e := ESubceeded (info i c) in
           if abort then fail e
           else emit (Wn e) ;;;
                bump_others (lst s) i (Z.max (mx - sc_already c) 0) ;;;
                consume (Z.max (mx - sc_already c) 0)
  end.
