(** Model of the byte pump [marshal()] (io/binary/marshal.py) as a function of the processor's
    trace: one byte of look-ahead, command-code tracking, silent end of a stream at a message
    root, Depleted / Superfluous, bytes_remaining. *)
From Coq Require Import ZArith List String Bool.
From TV Require Import Layout.Types Model.Monad Model.Decoder Model.Message.
Import ListNotations.
Open Scope string_scope.
Open Scope list_scope.
Open Scope Z_scope.

Inductive outcome :=
| OAccepted
| ORaised (e : err) (rem : list Z)
| ODepleted (cc : option Z)
| OSuperfluous (rest : list Z) (cc : option Z)
| OCrash (k : internal)
| OFuel.

(** an emitted event with the number of input bytes pulled from the source when it was yielded *)
Definition oevent := (action * Z)%type.

Definition path_eqb (p q : path) : bool :=
  (fix go (p q : path) : bool :=
     match p, q with
     | [], [] => true
     | a :: p', b :: q' =>
         String.eqb (pn_name a) (pn_name b) &&
         match pn_idx a, pn_idx b with
         | None, None => true
         | Some x, Some y => x =? y
         | _, _ => false
         end && go p' q'
     | _, _ => false
     end) p q.

Definition cc_path : path := pchild root_path "commandCode".

Definition is_root_event (e : event) : bool :=
  path_eqb (epath e) root_path && match evalue e with None => true | Some _ => false end.

Record pstate := mkP { ps_nrd : Z; ps_cc : option Z; ps_out : list oevent (* reversed *) }.

(** walks the trace; [inr] = stopped silently at a message root with the input depleted *)
Fixpoint pump_go (is_stream : bool) (len : Z) (tr : list action) (ps : pstate) : pstate * bool :=
  match tr with
  | [] => (ps, false)
  | Rd _ :: r => pump_go is_stream len r (mkP (ps_nrd ps + 1) (ps_cc ps) (ps_out ps))
  | Ev e :: r =>
      let depleted := len <=? ps_nrd ps in
      let cc' := if path_eqb (epath e) cc_path then evalue e else ps_cc ps in
      if is_stream && depleted && is_root_event e then (mkP (ps_nrd ps) cc' (ps_out ps), true)
      else pump_go is_stream len r
             (mkP (ps_nrd ps) cc' ((Ev e, Z.min len (ps_nrd ps + 1)) :: ps_out ps))
  | Wn w :: r =>
      pump_go is_stream len r (mkP (ps_nrd ps) (ps_cc ps) ((Wn w, Z.min len (ps_nrd ps + 1)) :: ps_out ps))
  end.

Fixpoint skipZ (l : list Z) (n : Z) : list Z :=
  if n <=? 0 then l else match l with [] => [] | _ :: r => skipZ r (n - 1) end.

Definition pump {A} (abort is_stream : bool) (input : list Z) (run : list action * st * out A)
  : list oevent * outcome :=
  let '(tr, _, o) := run in
  let len := Z.of_nat (List.length input) in
  let '(ps, stopped) := pump_go is_stream len tr (mkP 0 None []) in
  if stopped then (rev (ps_out ps), OAccepted) else
  let pulled := Z.min len (ps_nrd ps + 1) in
  let rest := skipZ input (ps_nrd ps) in
  match o with
  | Ok _ =>
      match rest with
      | [] => (rev (ps_out ps), OAccepted)
      | _ => if abort then (rev (ps_out ps), OSuperfluous rest (ps_cc ps))
             else (rev ((Wn (ESuperfluous rest (ps_cc ps)), pulled) :: ps_out ps), OAccepted)
      end
  | Fail e => (rev (ps_out ps), ORaised e rest)
  | More =>
      if abort then (rev (ps_out ps), ODepleted (ps_cc ps))
      else (rev ((Wn (EDepleted (ps_cc ps)), pulled) :: ps_out ps), OAccepted)
  | Internal k => (rev (ps_out ps), OCrash k)
  | Fuel => (rev (ps_out ps), OFuel)
  end.

Definition init_st (input : list Z) : st := mkSt input [] [].

Definition is_stream_root (r : root) : bool := match r with RStream => true | _ => false end.

(** [Binary.marshal(tpm_type, buffer, command_code, parameter_encryption, abort_on_error)] *)
Definition decode (T : tables) (abort : bool) (r : root) (input : list Z) : list oevent * outcome :=
  pump abort (is_stream_root r) input (dec_root T abort r (init_st input)).

(** the by-product object ([return obj] of the generator) when decoding completes *)
Definition decode_obj (T : tables) (abort : bool) (r : root) (input : list Z) : option value :=
  match dec_root T abort r (init_st input) with
  | (_, _, Ok v) => v
  | _ => None
  end.
