(** Model of the pretty printer (io/pretty/unmarshal.py) and the events printer (io/events/unmarshal.py)
    as functions from the event list to rows. *)
From Coq Require Import ZArith List String Ascii Bool.
From TV Require Import Layout.Types Base.Bytes Model.Monad Model.Ints Model.Attr Model.RC.
Import ListNotations.
Open Scope string_scope.
Open Scope list_scope.
Open Scope Z_scope.

(** an event as the printers see it *)
Inductive pev :=
| PStruct (pa : path) (tname : string)                       (* structural event of a class *)
| PList (pa : path) (ename : string) (is_byte : bool)        (* list parent: list[ename]; is_byte: element type is BYTE itself *)
| PPrim (pa : path) (p : prim) (z : Z)
| PWarn (text : string).

Inductive row :=
| RField (tname : string) (depth : nat) (name : string) (hex : list Z) (value : string) (cover : list pev)
| RBits (depth : nat) (name : string) (bits : string)        (* one bit row of an attribute word *)
| RWarn (text : string) (cover : list pev)
| RCrashRow.                                                 (* the Python would raise (malformed event list) *)

Definition pev_path (e : pev) : path :=
  match e with PStruct pa _ | PList pa _ _ | PPrim pa _ _ => pa | PWarn _ => [] end.

Definition node_text (n : pnode) : string :=
  match pn_idx n with None => pn_name n | Some i => pn_name n ++ "[" ++ dec_string i ++ "]" end.
Definition last_node (pa : path) : pnode := match rev pa with n :: _ => n | [] => mkNode "" None end.
Definition depth_of (pa : path) : nat := List.length pa - 1.
Definition row_name (pa : path) : string := node_text (last_node pa).

Definition node_eqb (a b : pnode) : bool :=
  String.eqb (pn_name a) (pn_name b) &&
  match pn_idx a, pn_idx b with None, None => true | Some x, Some y => x =? y | _, _ => false end.
Fixpoint nodes_eqb (p q : list pnode) : bool :=
  match p, q with
  | [], [] => true
  | a :: p', b :: q' => node_eqb a b && nodes_eqb p' q'
  | _, _ => false
  end.
(** [is_child]: same parent path, same last name (any index) *)
Definition is_child (parent child : path) : bool :=
  nodes_eqb (removelast parent) (removelast child) &&
  String.eqb (pn_name (last_node parent)) (pn_name (last_node child)).

Section Printer.
  Variable T : tables.
  Variable rc_default : string.

  Definition value_text (p : prim) (z : Z) : string :=
    match pkind_ p with KRC => rc_text T rc_default z | _ => prim_text p z end.

  Definition prim_hex (p : prim) (z : Z) : list Z :=
    match prim_bytes p z with Some bs => bs | None => [] end.

  (** the bit rows printed after an attribute word *)
  Definition attr_rows (pa : path) (p : prim) (z : Z) : list row :=
    let nbits := Z.to_nat (8 * pwidth p) in
    match pkind_ p with
    | KBits masks =>
        map (fun nm => RBits (S (depth_of pa)) (fst nm) (show_row (bit_row nbits (snd nm) z))) masks
    | KRC =>
        map (fun r => RBits (S (depth_of pa)) (fst (fst r)) (show_row (bit_row nbits (snd (fst r)) z)))
            (rc_rows T rc_default z)
    | _ => []
    end.

  Definition printable (b : Z) : ascii := if (32 <=? b) && (b <=? 126) then ascii_of_nat (Z.to_nat b) else "."%char.
  Definition printable_text (bs : list Z) : string :=
    fold_right (fun b acc => String (printable b) acc) EmptyString bs.

  (** [pretty(event)]: one row *)
  Definition plain_row (e : pev) : row :=
    match e with
    | PStruct pa tn => RField tn (depth_of pa) (row_name pa) [] "" [e]
    | PList pa en _ => RField ("list[" ++ en ++ "]") (depth_of pa) (row_name pa) [] "" [e]
    | PPrim pa p z => RField (pname p) (depth_of pa) (row_name pa) (prim_hex p z) (value_text p z) [e]
    | PWarn t => RWarn t [e]
    end.
  (** main loop for a non-list event: the row, then bit rows *)
  Definition full_rows (e : pev) : list row :=
    plain_row e :: match e with PPrim pa p z => attr_rows pa p z | _ => [] end.

  Definition bytes_row (pa : path) (en : string) (buf : list Z) (cover : list pev) : row :=
    RField ("list[" ++ en ++ "]") (depth_of pa) (row_name pa) buf (printable_text buf) cover.

  Definition warn_rows (ws : list pev) : list row := map plain_row ws.

  Inductive pstate :=
  | Top
  | InBytes (pa : path) (en : string) (buf : list Z) (cover : list pev) (deferred : list pev)   (* folding a byte buffer *)
  | InElems (parent : pev) (empty : bool) (deferred : list pev).                               (* elements of another list *)

  (** warnings seen before the row of the current list has been printed are [deferred] and shown right after it *)
  Fixpoint pp (evs : list pev) (st : pstate) : list row :=
    match evs with
    | [] =>
        match st with
        | Top => []
        | InBytes pa en buf cover dw => bytes_row pa en buf cover :: warn_rows dw
        | InElems parent empty dw => (if empty then [plain_row parent] else []) ++ warn_rows dw
        end
    | e :: r =>
        match st with
        | Top =>
            match e with
            | PList pa en true => pp r (InBytes pa en [] [e] [])
            | PList pa en false => pp r (InElems e true [])
            | _ => full_rows e ++ pp r Top
            end
        | InBytes pa en buf cover dw =>
            match e with
            | PWarn t => pp r (InBytes pa en buf cover (dw ++ [e]))
            | _ =>
                if is_child pa (pev_path e) then
                  match e with
                  | PPrim _ p z => pp r (InBytes pa en (buf ++ prim_hex p z) (cover ++ [e]) dw)
                  | _ => [RCrashRow]                      (* Ellipsis has no to_bytes() *)
                  end
                else bytes_row pa en buf cover :: warn_rows dw ++ full_rows e ++ pp r Top
            end
        | InElems parent empty dw =>
            match e with
            | PWarn t => if empty then pp r (InElems parent empty (dw ++ [e]))
                         else RWarn t [e] :: pp r (InElems parent empty dw)
            | _ =>
                if is_child (pev_path parent) (pev_path e)
                then warn_rows dw ++ plain_row e :: pp r (InElems parent false [])
                else (if empty then [plain_row parent] else []) ++ warn_rows dw ++ full_rows e ++ pp r Top
            end
        end
    end.

  Definition pretty (evs : list pev) : list row := pp evs Top.
End Printer.

Definition row_hex (r : row) : list Z := match r with RField _ _ _ h _ _ => h | _ => [] end.
Definition row_cover (r : row) : list pev := match r with RField _ _ _ _ _ c | RWarn _ c => c | _ => [] end.
Definition pev_bytes (e : pev) : list Z :=
  match e with PPrim _ p z => match prim_bytes p z with Some bs => bs | None => [] end | _ => [] end.

(** the decoder's actions as the printers see them ([ps]: the primitive types, looked up by name) *)
Definition find_prim (ps : list prim) (n : string) : option prim :=
  find (fun p => String.eqb (pname p) n) ps.
Definition to_pev (ps : list prim) (a : action) : pev :=
  match a with
  | Ev e =>
      match ety e, evalue e with
      | TyList en, _ => PList (epath e) en (String.eqb en "BYTE")
      | TyN n, Some z => match find_prim ps n with Some p => PPrim (epath e) p z | None => PStruct (epath e) n end
      | TyN n, None => PStruct (epath e) n
      | TyEnc n, _ => PStruct (epath e) n
      end
  | Wn w => PWarn ""
  | Rd _ => PWarn "?"
  end.
