(** Model of the type-directed coroutine decoder (io/binary/marshal.py, the process_xxx coroutines). *)
From Coq Require Import ZArith List String Bool.
From TV Require Import Layout.Types Base.Bytes Model.Monad Model.Constraints Model.Ints.
Import ListNotations.
Open Scope Z_scope.

(** the decoder's by-product object *)
Inductive value :=
| VInt_ (tn : string) (z : Z)
| VStruct_ (t : tyid) (fs : list (string * option value))
| VList_ (vs : list value).

Definition ty_id (t : ty) : tyid := TyN (ty_name t).
Definition list_id (elem : ty) : tyid := TyList (ty_name elem).

Definition sev (p : path) (t : tyid) : action := Ev (mkEvent p t None).

(** the int behind a decoded value, if it is a primitive *)
Definition as_int (v : option value) : option Z :=
  match v with Some (VInt_ _ z) => Some z | _ => None end.
Definition as_typed_int (v : option value) : option (string * Z) :=
  match v with Some (VInt_ tn z) => Some (tn, z) | _ => None end.

Definition is_list_value (v : option value) : bool :=
  match v with Some (VList_ _) => true | _ => false end.

(** [[v for v in values.values() if not is_list(type(v))][-1]] on the reversed field list *)
Fixpoint last_nonlist (rvals : list (string * option value)) : option (option value) :=
  match rvals with
  | [] => None
  | (_, v) :: r => if is_list_value v then last_nonlist r else Some v
  end.

Fixpoint find_arm (ar : arms) (z : Z) : option (string * armp) :=
  match ar with
  | ANil => None
  | ACons n (KVal k) p r => if z =? k then Some (n, p) else find_arm r z
  | ACons _ _ _ r => find_arm r z
  end.
Fixpoint find_fallback (ar : arms) : option (string * armp) :=
  match ar with
  | ANil => None
  | ACons n KFallback p r => Some (n, p)
  | ACons _ _ _ r => find_fallback r
  end.
Definition select_arm (ar : arms) (sel : option (string * Z)) : option (string * armp) :=
  match sel with
  | Some (_, z) => match find_arm ar z with Some a => Some a | None => find_fallback ar end
  | None => find_fallback ar
  end.

Fixpoint arm_names (ar : arms) : list string :=
  match ar with ANil => [] | ACons n _ _ r => n :: arm_names r end.

(** first field of a parameter area is a TPM2B ([TPMS_PARAMS.can_be_encrypted]) *)
Definition first_is_tpm2b (fs : fields) : bool :=
  match fs with
  | FPlain _ (TTpm2bList _ _ _ _ _) _ => true
  | FPlain _ (TTpm2bStruct _ _ _ _ _) _ => true
  | _ => false
  end.

(** the class name of a field type starts with "TPM2B" for exactly these two constructors
    (translator invariant) *)
Definition encrypt_fields (enc_param : ty) (fs : fields) : fields :=
  match fs with
  | FPlain n _ r => FPlain n enc_param r
  | other => other
  end.

Section Dec.
  Variable T : tables.
  Variable abort : bool.

  Definition dec_prim (p : prim) (pa : path) : M (option value) :=
    bytes_parsed pa (pwidth p) ;;;
    bs <- readn (Z.to_nat (pwidth p)) ;;
    let v := from_bytes (psigned p) bs in
    let ev := Ev (mkEvent pa (TyN (pname p)) (Some v)) in
    if valid p v then emit ev ;;; ret (Some (VInt_ (pname p) v))
    else let e := EValue pa (pname p) v VSType in
         if abort then fail e
         else emit ev ;;; emit (Wn e) ;;; ret (Some (VInt_ (pname p) v)).

  (** [process_array]: [count] elements; the element decoder gets the element's path *)
  Definition dec_array (lid : tyid) (pa : path) (count : Z)
             (body : path -> M (option value)) : M (option value) :=
    emit (sev pa lid) ;;;
    r <- repZ count (fun st_ : Z * list (option value) =>
           v <- body (pindex pa (fst st_)) ;;
           ret (fst st_ + 1, v :: snd st_)) (0, []) ;;
    ret (Some (VList_ (map (fun o => match o with Some x => x | None => VList_ [] end) (rev (snd r))))).

  (** [process_tpm2b] with a list buffer *)
  Definition dec_tpm2b_list (name szf buf : string) (szp : prim) (lid : tyid)
             (body : path -> M (option value)) (pa : path) : M (option value) :=
    emit (sev pa (TyN name)) ;;;
    let size_path := pchild pa szf in
    szv <- dec_prim szp size_path ;;
    let size := match as_int szv with Some z => z | None => 0 end in
    cid <- new_sc ;;
    set_constraint abort cid size_path size ;;;
    append_lst cid ;;;
    bv <- dec_array lid (pchild pa buf) size body ;;
    assert_done abort cid ;;;
    ret (Some (VStruct_ (TyN name) [(szf, szv); (buf, bv)])).

  (** the opaque first parameter: TPM2B_ENCRYPTED_PARAM (a TPM2B whose buffer is a list of a primitive) *)
  Definition dec_enc_param (pa : path) : M (option value) :=
    match t_enc_param T with
    | TTpm2bList name szf buf szp (TPrim ep) =>
        dec_tpm2b_list name szf buf szp (TyList (pname ep)) (dec_prim ep) pa
    | _ => internal_ IEncrypt
    end.

  Fixpoint dec_ty (t : ty) (pa : path) (sel : option (string * Z)) (enc : bool) {struct t} : M (option value) :=
    match t with
    | TPrim p => dec_prim p pa
    | TStruct name isparams fs =>
        let use_enc := enc && isparams && first_is_tpm2b fs in
        let tid := if use_enc then TyEnc name else TyN name in
        emit (sev pa tid) ;;;
        vals <- (if use_enc
                 then match fs with
                      | FPlain n _ r => v <- dec_enc_param (pchild pa n) ;; dec_fields r pa [(n, v)]
                      | _ => dec_fields fs pa []
                      end
                 else dec_fields fs pa []) ;;
        ret (Some (VStruct_ tid (rev vals)))
    | TTpm2bList name szf buf szp elem =>
        dec_tpm2b_list name szf buf szp (list_id elem) (fun p => dec_ty elem p None false) pa
    | TTpm2bStruct name szf buf szp inner =>
        emit (sev pa (TyN name)) ;;;
        let size_path := pchild pa szf in
        szv <- dec_prim szp size_path ;;
        let size := match as_int szv with Some z => z | None => 0 end in
        cid <- new_sc ;;
        set_constraint abort cid size_path size ;;;
        append_lst cid ;;;
        if size =? 0 then
          emit (sev (pchild pa buf) (ty_id inner)) ;;;
          assert_done abort cid ;;;
          ret (Some (VStruct_ (TyN name) [(szf, szv); (buf, None)]))
        else
          catch_exceeded abort [cid]
            (bv <- dec_ty inner (pchild pa buf) None false ;;
             assert_done abort cid ;;;
             ret (Some (VStruct_ (TyN name) [(szf, szv); (buf, bv)])))
            (ret None)
    | TUnion name ar =>
        emit (sev pa (TyN name)) ;;;
        match select_arm ar sel with
        | Some (n, _) => dec_arms ar name pa n
        | None =>
            match sel with
            | Some (tn, z) => fail (EValue pa tn z VSSelection)
            | None => internal_ IUnionAtRoot
            end
        end
    end
  with dec_fields (fs : fields) (pa : path) (rvals : list (string * option value)) {struct fs}
       : M (list (string * option value)) :=
    match fs with
    | FNil => ret rvals
    | FPlain n t r =>
        v <- dec_ty t (pchild pa n) None false ;;
        dec_fields r pa ((n, v) :: rvals)
    | FList n elem r =>
        match last_nonlist rvals with
        | Some cv =>
            match as_int cv with
            | Some count =>
                v <- dec_array (list_id elem) (pchild pa n) count (fun p => dec_ty elem p None false) ;;
                dec_fields r pa ((n, v) :: rvals)
            | None => internal_ INoCount
            end
        | None => internal_ INoCount
        end
    | FUnion n seln u r =>
        match lookupS seln rvals with
        | Some sv =>
            match as_typed_int sv with
            | Some tz =>
                v <- dec_ty u (pchild pa n) (Some tz) false ;;
                dec_fields r pa ((n, v) :: rvals)
            | None => internal_ INoSelector
            end
        | None => internal_ INoSelector
        end
    end
  with dec_arms (ar : arms) (uname : string) (pa : path) (target : string) {struct ar} : M (option value) :=
    (* the member named [target] (found by select_arm): its payload type decides *)
    match ar with
    | ANil => internal_ IUnionAtRoot
    | ACons n _ p r =>
        if String.eqb n target then
          match p with
          | PNone => ret (Some (VStruct_ (TyN uname) []))
          | PTy t =>
              v <- dec_ty t (pchild pa n) None false ;;
              ret (Some (VStruct_ (TyN uname) [(n, v)]))
          | PList elem (Some cnt) =>
              v <- dec_array (list_id elem) (pchild pa n) cnt (fun p => dec_ty elem p None false) ;;
              ret (Some (VStruct_ (TyN uname) [(n, v)]))
          | PList _ None => internal_ INoListSize
          end
        else dec_arms r uname pa target
    end.
End Dec.
