(** The decoder monad: state (remaining input, size constraints) x trace writer x outcome.
    Mirrors the coroutine protocol of io/binary/marshal.py: [Rd b] = the processor received byte b
    (it had yielded None), [Ev]/[Wn] = it yielded an event. *)
From Coq Require Import ZArith List String Bool.
From TV Require Import Layout.Types.
Import ListNotations.
Open Scope Z_scope.

Record pnode := mkNode { pn_name : string; pn_idx : option Z }.
Definition path := list pnode.
Definition root_path : path := [mkNode "" None].
Definition pchild (p : path) (n : string) : path := p ++ [mkNode n None].
(** [parent_path / path[-1].with_index(i)] *)
Definition pindex (p : path) (i : Z) : path :=
  match rev p with
  | [] => [mkNode "" (Some i)]          (* unreachable: paths are never empty *)
  | l :: r => rev r ++ [mkNode (pn_name l) (Some i)]
  end.

(** identity of the [type] attribute of an event *)
Inductive tyid :=
| TyN (name : string)        (* a class, by name *)
| TyEnc (name : string)      (* the synthesized encrypted-parameter class of that name *)
| TyList (elem : string).    (* list[elem] *)

Record event := mkEvent { epath : path; ety : tyid; evalue : option Z }.   (* None = Ellipsis *)

Record scinfo := mkInfo { si_id : nat; si_path : option path; si_max : option Z; si_already : Z }.

Inductive vsrc := VSType | VSCommandCodes | VSSelection | VSNoCommand.   (* VSNoCommand: the command code itself is absent (None) *)

Inductive err :=
| EValue (p : path) (tn : string) (v : Z) (src : vsrc)
| EExceeded (c : scinfo) (viol : path) (by_ : Z)
| EAnticipated (c : scinfo) (viol : path) (val : Z) (by_ : Z)
| ESubceeded (c : scinfo)
| EDepleted (cc : option Z)
| ESuperfluous (rest : list Z) (cc : option Z)
| EEncMismatch (p : path) (expected found : bool).   (* response sessions contradict the expected encryption *)

Inductive action := Rd (b : Z) | Ev (e : event) | Wn (w : err).

(** places where the Python code would raise something undocumented *)
Inductive internal :=
| IAssertMaxNone        (* assert_done before set_constraint *)
| IAssertSizeNeg        (* set_constraint: assert size_max >= 0 *)
| INoCount              (* list field without a usable preceding count *)
| INoSelector           (* union field whose selector is absent / not an integer *)
| INoListSize           (* list-valued union member without _list_size *)
| IEncrypt              (* TPMS_PARAMS.encrypted() assertion *)
| IRspEncMismatch       (* process_response consistency assert *)
| IRspNoCommandCode     (* no longer produced: a response without a known command code raises a value error, see [rsp_no_cc] (was: NameError in the handler) *)
| IUnionAtRoot          (* union decoded without selector *)
| IAuthNone             (* is_parameter_encryption on a malformed object *)
| IStopOnSend           (* pump: processor finished on a byte send *)
| IStaleNone            (* pump: bytes(chain((None,), ...)) *)
| IListNotDone.         (* size_constraints.assert_done(): a listed constraint is still live *)

Inductive out (A : Type) :=
| Ok (a : A)
| Fail (e : err)
| More                  (* suspended asking for a byte that never comes *)
| Internal (k : internal)
| Fuel.
Arguments Ok {A} a. Arguments Fail {A} e. Arguments More {A}. Arguments Internal {A} k. Arguments Fuel {A}.

Record sc := mkSc { sc_path : option path; sc_max : option Z; sc_already : Z; sc_obs : bool }.

Record st := mkSt {
  inp : list Z;          (* bytes not yet sent to the processor *)
  store : list sc;       (* every SizeConstraint object created so far; identity = index *)
  lst : list nat }.      (* the current SizeConstraintList *)

Definition M (A : Type) := st -> list action * st * out A.

Definition ret {A} (a : A) : M A := fun s => ([], s, Ok a).
Definition bind {A B} (m : M A) (f : A -> M B) : M B := fun s =>
  match m s with
  | (tr, s1, Ok a) => match f a s1 with (tr2, s2, o) => (tr ++ tr2, s2, o) end
  | (tr, s1, Fail e) => (tr, s1, Fail e)
  | (tr, s1, More) => (tr, s1, More)
  | (tr, s1, Internal k) => (tr, s1, Internal k)
  | (tr, s1, Fuel) => (tr, s1, Fuel)
  end.
Notation "x <- m ;; k" := (bind m (fun x => k)) (at level 100, m at next level, right associativity, only parsing).
Notation "m1 ;;; m2" := (bind m1 (fun _ => m2)) (at level 100, right associativity, only parsing).

Definition emit (a : action) : M unit := fun s => ([a], s, Ok tt).
Definition fail {A} (e : err) : M A := fun s => ([], s, Fail e).
Definition internal_ {A} (k : internal) : M A := fun s => ([], s, Internal k).
Definition fuel_ {A} : M A := fun s => ([], s, Fuel).
(** read access to the constraint store and list (the remaining input is deliberately not exposed: the
    decoder learns about its input only through [read1]) *)
Definition get : M st := fun s => ([], s, Ok (mkSt [] (store s) (lst s))).
Definition put (s' : st) : M unit := fun _ => ([], s', Ok tt).

Definition read1 : M Z := fun s =>
  match inp s with
  | [] => ([], s, More)
  | b :: r => ([Rd b], mkSt r (store s) (lst s), Ok b)
  end.

Fixpoint readn (n : nat) : M (list Z) :=
  match n with
  | O => ret []
  | S n' => b <- read1 ;; bs <- readn n' ;; ret (b :: bs)
  end.

(** [consume_bytes(count)]: takes [n] bytes (none if [n <= 0]); recursion on the input, so that a
    32-bit count costs nothing *)
Fixpoint take_bytes (l : list Z) (n : Z) : list Z * list Z * bool :=
  if n <=? 0 then ([], l, true) else
  match l with
  | [] => ([], [], false)
  | b :: r => let '(t, rest, done) := take_bytes r (n - 1) in (b :: t, rest, done)
  end.

Definition consume (n : Z) : M unit := fun s =>
  let '(t, rest, done) := take_bytes (inp s) n in
  (map Rd t, mkSt rest (store s) (lst s), if done then Ok tt else More).

(** [try: m except SizeConstraintExceededError as error: if abort or error.constraint not in ids: raise;
     yield Warning; h] *)
Definition catch_exceeded {A} (abort : bool) (ids : list nat) (m : M A) (h : M A) : M A := fun s =>
  match m s with
  | (tr, s1, Fail (EExceeded c v b)) =>
      if abort || negb (existsb (Nat.eqb (si_id c)) ids) then (tr, s1, Fail (EExceeded c v b))
      else match h s1 with (tr2, s2, o) => (tr ++ Wn (EExceeded c v b) :: tr2, s2, o) end
  | r => r
  end.

(** Iterate [f] [p] times (binary recursion: a 2^32 count costs 32 frames once [f] stops with
    a non-Ok outcome, which [bind] propagates). *)
Fixpoint rep {A} (p : positive) (f : A -> M A) (x : A) : M A :=
  match p with
  | xH => f x
  | xO q => y <- rep q f x ;; rep q f y
  | xI q => y <- f x ;; z <- rep q f y ;; rep q f z
  end.

Definition repZ {A} (n : Z) (f : A -> M A) (x : A) : M A :=
  match n with
  | Zpos p => rep p f x
  | _ => ret x
  end.
