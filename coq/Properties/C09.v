(** C09 - a command/response stream decodes as its messages decoded one by one.
    PROVED: the object side - a decoded stream's events, split at the message roots, are exactly the per-message
    event lists, one per message, in order, and the pairing command / response-with-that-command's-code.
    NOT YET PROVED: that the stream decoder's events ARE the concatenation of the individual decodes (needs C01
    for commands/responses); decided by the oracle (stream vs individual decodes on the implementation, Python ==
    on events and objects) and the model correspondence on generated streams.
    Statement file: theorem statements, [exact], Print Assumptions only. *)
From Coq Require Import ZArith List String Bool.
From TV Require Import Layout.Types Model.Monad Model.Pump Model.Object Proofs.ObjectProofs.
Import ListNotations.

Theorem C09_stream_events_split_into_messages_partial :
  forall ms, Forall message ms -> separate_events (List.concat ms) = ms.
Proof. exact separate_messages. Qed.
Print Assumptions C09_stream_events_split_into_messages_partial.

Theorem C09_pairing_partial :
  forall c rsp rest, roles (c :: rsp :: rest) None = RoleCommand :: RoleResponse (command_code_of c) :: roles rest None.
Proof. exact roles_alternate. Qed.
Theorem C09_one_object_per_message_partial : forall ms p, List.length (roles ms p) = List.length ms.
Proof. exact roles_length. Qed.
Print Assumptions C09_pairing_partial.
