(** C09 - a command/response stream decodes as its messages decoded one by one.
    PROVED (Proofs/Sim11-12.v): for every byte string that is a concatenation of whole messages - command, the
    response to it, command, ..., the last command possibly without its response - (all tables passing
    [msg_tables_ok], either mode, below the model's loop bound of 2^64 bytes), the events (and warnings) the stream
    decoder emits are exactly the events of the first command decoded on its own, then those of the response
    decoded with THAT command's code and the response encryption THAT command's sessions ask for, then those of
    the next command, ... - nothing dropped, nothing added, in order; the decoder then stops silently at the next
    message root.  Object side: a decoded stream's events, split at the message roots, are exactly the per-message
    event lists, one per message, in order, with the pairing command / response-with-that-command's-code.
    and [events_to_objs] turns them into the objects of the individual decodes (C11_stream_events_rebuild_...).
    NOT PROVED: streams containing a malformed message (behaviour up to the first problem is C07/C10).  The oracle (stream vs individual decodes on the implementation,
    Python == on events and objects) and the model correspondence on generated streams tie this to /repo.
    Statement file: theorem statements, [exact], Print Assumptions only. *)
From Coq Require Import ZArith List String Bool.
From TV Require Import Layout.Types gen.Tables Model.Monad Model.Message Model.Pump Model.Object Spec.Value Spec.Message
  Proofs.ObjectProofs Proofs.Sim4 Proofs.Sim10 Proofs.Sim11 Proofs.Sim12 Proofs.ObjEv Proofs.EvObj2 Proofs.StreamObj.
Import ListNotations.
Open Scope Z_scope.

(** the stream decoder's events are the concatenation of the individual decodes (messages as [split_as] cuts them) *)
Theorem C09_stream_is_its_messages :
  forall T abort bs ps, msg_tables_ok T = true -> split_as T bs ps -> forallb (fun p => ok_leaves abort (snd p)) ps = true ->
    Z.of_nat (List.length bs) < Z.pos stream_bound ->
    map fst (fst (decode T abort RStream bs)) =
    flat_map (fun p => map fst (fst (decode T abort (fst (fst p)) (snd (fst p))))) ps.
Proof. exact stream_is_its_messages. Qed.
Print Assumptions C09_stream_is_its_messages.

(** non-vacuity: Startup command + its response + a second command are cut into three messages *)
Example C09_example_split :
  exists ps, split_as Tables.T ([128;1;0;0;0;12;0;0;1;68;0;0] ++ [128;1;0;0;0;10;0;0;0;0] ++ [128;1;0;0;0;12;0;0;1;68;0;0]) ps /\ List.length ps = 3%nat.
Proof.
  eexists. split.
  - eapply split_pair; [vm_compute; reflexivity|discriminate|vm_compute; reflexivity|discriminate|].
    eapply split_last; [vm_compute; reflexivity|discriminate].
  - reflexivity.
Qed.

Theorem C09_stream_events_split_into_messages_partial :
  forall ms, Forall message ms -> separate_events (List.concat ms) = ms.
Proof. exact separate_messages. Qed.
Print Assumptions C09_stream_events_split_into_messages_partial.

Theorem C09_pairing_partial :
  forall c rsp rest, roles (c :: rsp :: rest) None = RoleCommand :: RoleResponse (command_code_of c) :: roles rest None.
Proof. exact roles_alternate. Qed.
Theorem C09_one_object_per_message_partial : forall ms p, List.length (roles ms p) = List.length ms.
Proof. exact roles_length. Qed.
Print Assumptions C09_pairing_partial.

(** object side for decoder output (no premise about the event lists): the events of a well-formed stream split at the
    message roots into exactly the event lists of the messages decoded one by one *)
Theorem C09_stream_events_split_into_its_messages :
  forall T bs ps, msg_tables_ok T = true -> msg_named T = true -> msg_plain T = true ->
    split_as T bs ps -> forallb (fun p => ok_leaves true (snd p)) ps = true -> Z.of_nat (List.length bs) < Z.pos stream_bound ->
    separate_events (evs_of (map fst (fst (decode T true RStream bs)))) = map (msg_events T) ps.
Proof. exact (fun T bs ps H1 H2 H3 => stream_events_split_into_its_messages T H1 H2 H3 bs ps). Qed.
Print Assumptions C09_stream_events_split_into_its_messages.
