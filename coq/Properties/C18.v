(** C18 - response codes are classified and named by the TPM 2.0 format rules.
    Statement file: theorem statements, [exact]/computation, Print Assumptions only. *)
From Coq Require Import ZArith List String Bool.
From TV Require Import Layout.Types gen.Tables gen.Pinned Model.Ints Model.Attr Model.RC Proofs.RCProofs.
Import ListNotations.
Open Scope Z_scope.

(** all 4096 values of the low 12 bits, names of the regenerated tables vs the pinned ones *)
Theorem C18_sweep : sweep Tables.T Pinned.T Tables.rc_default_name Pinned.rc_default_name = true.
Proof. vm_compute. reflexivity. Qed.
Print Assumptions C18_sweep.

(** Every TPM 2.0 response code (bit 7 or bit 8 set, or zero), reserved high bits arbitrary: the text form
    produced by the code is the rendering of the specification's classification ([classify]: zero = SUCCESS;
    format bit -> format-one error, number = low six bits, attributed to parameter N (bit 6; N = bits 8-11),
    session N (bit 11) or handle N (N = bits 8-10); else vendor-defined if bit 10; else warning (bit 11) or
    error named by the low seven bits); the bit rows carry the same classification and, for a non-zero code,
    their masks partition the 32-bit word (attr_ok, see C17_partition). *)
Theorem C18_text_and_rows :
  forall v, 0 <= v -> (v = 0 \/ bit v 7 || bit v 8 = true) ->
    rc_text Tables.T Tables.rc_default_name v = rc_render Pinned.T Pinned.rc_default_name (classify v) /\
    rows_agree Pinned.T Pinned.rc_default_name (classify v) (rc_rows Tables.T Tables.rc_default_name v) = true /\
    (v <> 0 -> attr_ok 32 (map (fun x => snd (fst x)) (rc_rows Tables.T Tables.rc_default_name v)) = true).
Proof. exact (rc_spec _ _ _ _ C18_sweep). Qed.
Print Assumptions C18_text_and_rows.

(** non-vacuity: a format-one code attributed to parameter 1, and a warning *)
Example C18_example_fmt1 : classify 0x1C4 = FormatOne 4 (AtParameter 1).
Proof. vm_compute. reflexivity. Qed.
Example C18_example_warn : rc_text Tables.T Tables.rc_default_name 0x922 = "TPM_RC.RETRY"%string.
Proof. vm_compute. reflexivity. Qed.
