(** C04 - strict mode rejects exactly the inputs containing an out-of-range value.
    PROVED: the field-level statement - a strict primitive decode raises the value error exactly for an
    out-of-range value, after reading exactly the field's bytes, naming path, declared type and integer, without
    emitting the offending event; validity is membership in the declared set (C16_valid_iff_declared).
    NOT YET PROVED: the composition ("the FIRST such field in wire order, events of all earlier fields emitted");
    decided by the oracle (implementation vs extracted [spec_value_error] at the pinned tables on every
    constrained leaf of generated messages) and the model correspondence.
    Statement file: theorem statements, [exact], Print Assumptions only. *)
From Coq Require Import ZArith List String Bool.
From TV Require Import Layout.Types Base.Bytes Model.Monad Model.Ints Model.Decoder Proofs.OpLemmas.
Import ListNotations.
Open Scope Z_scope.

Theorem C04_field_level_partial :
  forall p pa s tr s' o, dec_prim true p pa s = (tr, s', o) ->
    match o with
    | Ok r => exists bs, tr = map Rd bs ++ [Ev (mkEvent pa (TyN (pname p)) (Some (from_bytes (psigned p) bs)))] /\
                         List.length bs = Z.to_nat (pwidth p) /\ valid p (from_bytes (psigned p) bs) = true /\
                         r = Some (VInt_ (pname p) (from_bytes (psigned p) bs))
    | Fail (EValue pa' tn v src) =>
        exists bs, tr = map Rd bs /\ List.length bs = Z.to_nat (pwidth p) /\ v = from_bytes (psigned p) bs /\
                   valid p v = false /\ pa' = pa /\ tn = pname p /\ src = VSType
    | Fail (EExceeded _ viol _) => viol = pa
    | Fail _ => False
    | More => True
    | Internal _ | Fuel => False
    end.
Proof. exact dec_prim_strict. Qed.
Print Assumptions C04_field_level_partial.
