(** C04 - strict mode rejects exactly the inputs containing an out-of-range value.
    PROVED: (field level) a strict primitive decode raises the value error exactly for an out-of-range value,
    after reading exactly the field's bytes, naming path, declared type and integer, without emitting the offending
    event; validity is membership in the declared set (C16_valid_iff_declared).
    (composition, every structure type, all tables, all inputs) whenever the input is structurally consistent for
    type [t]: strict decoding raises if and only if some leaf of the field-by-field reading is out of range; the
    error names the FIRST such leaf in wire order (path, declared type, integer); exactly the events of all earlier
    fields - none for the offending one - have been emitted; exactly the bytes after that field remain.
    (Proofs/Sim6.v: warn-mode simulation + strict/warn agreement + "strict mode never warns".)
    The same is proved for COMMANDS and RESPONSES (Proofs/Sim7-10.v), for all tables passing [msg_tables_ok].
    and for STREAMS of whole messages below the model's loop bound (Proofs/Sim13.v): [C04_every_root].
    RESERVED COMMAND CODES (an unknown command code makes the input structurally inconsistent for the specification, so
    the theorems above do not speak about it) have their own theorem, for all tables and all inputs: a command with a
    valid tag, a size field announcing at least the header and a code that is not a TPM_CC raises the value error
    naming the commandCode field (path, declared type, the integer), after exactly the events of the root, the tag and
    the size - none for the code -, leaving exactly the bytes after the code ([Proofs/ReservedCC.v]: the run of the
    command decoder computed symbolically through the constraint store, then the byte pump).
    All of this is also decided by the oracle (implementation vs extracted [spec_value_error] at the pinned tables on every
    constrained leaf of generated messages) and the model correspondence.
    Statement file: theorem statements, [exact], Print Assumptions only. *)
From Coq Require Import ZArith List String Bool.
From TV Require Import Layout.Types gen.Tables gen.Pinned Base.Bytes Model.Monad Model.Ints Model.Decoder Model.Message Model.Pump
  Model.Show Spec.Value Spec.Message Proofs.OpLemmas Proofs.Agree Proofs.Sim6 Proofs.Sim10 Proofs.Sim11 Proofs.Sim13 Proofs.ReservedCC Properties.C20.
Import ListNotations.
Open Scope Z_scope.

Theorem C04_field_level :
  forall p pa s tr s' o, dec_prim true p pa s = (tr, s', o) ->
    match o with
    | Ok r => exists bs, tr = map Rd bs ++ [Ev (mkEvent pa (TyN (pname p)) (Some (from_bytes (psigned p) bs)))] /\
                         List.length bs = Z.to_nat (pwidth p) /\ valid p (from_bytes (psigned p) bs) = true /\
                         r = Some (VInt_ (pname p) (from_bytes (psigned p) bs))
    | Fail (EValue pa' tn v src) =>
        exists bs, tr = map Rd bs /\ List.length bs = Z.to_nat (pwidth p) /\ v = from_bytes (psigned p) bs /\
                   valid p v = false /\ pa' = pa /\ tn = pname p /\ src = VSType
    | Fail (EExceeded _ viol _) => viol = pa
    | Fail _ => False
    | More => True
    | Internal _ | Fuel => False
    end.
Proof. exact dec_prim_strict. Qed.
Print Assumptions C04_field_level.

(** every structure type: a structurally consistent input with an out-of-range leaf decodes, in strict mode, to
    exactly the events before the first such leaf, then the value error naming it, the bytes after it remaining *)
Theorem C04_structure_types :
  forall T t bs evs o, spec_value_error T (RType t) bs = Some (evs, o) -> decode T true (RType t) bs = (evs, o).
Proof. exact types_first_bad. Qed.
Print Assumptions C04_structure_types.

Theorem C04_structure_types_pinned :
  forall t bs evs o, spec_value_error Pinned.T (RType t) bs = Some (evs, o) -> decode Tables.T true (RType t) bs = (evs, o).
Proof. rewrite C20_pinned. exact (types_first_bad Pinned.T). Qed.
Print Assumptions C04_structure_types_pinned.

(** "if and only if": for a structurally consistent input, strict decoding raises exactly when some leaf is out of
    range (and then, by the theorem above, the error is the value error of the first one) *)
Theorem C04_raises_iff_some_leaf_out_of_range :
  forall T t bs v, sp_ty T t root_path None false bs = Some (v, []) ->
    ((exists evs e rem, decode T true (RType t) bs = (evs, ORaised e rem)) <-> all_valid v = false).
Proof. exact types_raise_iff_bad_leaf. Qed.
Print Assumptions C04_raises_iff_some_leaf_out_of_range.

(** every root but a stream: structure types, commands, responses *)
Theorem C04_types_commands_responses :
  forall T r bs evs o, msg_tables_ok T = true -> is_stream_root r = false ->
    spec_value_error T r bs = Some (evs, o) -> decode T true r bs = (evs, o).
Proof. exact root_first_bad. Qed.
Print Assumptions C04_types_commands_responses.

Theorem C04_types_commands_responses_pinned :
  forall r bs evs o, is_stream_root r = false ->
    spec_value_error Pinned.T r bs = Some (evs, o) -> decode Tables.T true r bs = (evs, o).
Proof. intros r bs evs o. rewrite C20_pinned. apply root_first_bad. vm_compute. reflexivity. Qed.
Print Assumptions C04_types_commands_responses_pinned.

Theorem C04_raises_iff_some_leaf_out_of_range_all_roots :
  forall T r bs vs, msg_tables_ok T = true -> is_stream_root r = false -> sp_root T r bs = Some vs ->
    ((exists evs e rem, decode T true r bs = (evs, ORaised e rem)) <-> forallb all_valid vs = false).
Proof. exact root_raises_iff_bad_leaf. Qed.
Print Assumptions C04_raises_iff_some_leaf_out_of_range_all_roots.

(** EVERY root (streams below the loop bound of the model) *)
Theorem C04_every_root :
  forall T r bs evs o, msg_tables_ok T = true -> within_bound r bs ->
    spec_value_error T r bs = Some (evs, o) -> decode T true r bs = (evs, o).
Proof. exact any_root_first_bad. Qed.
Print Assumptions C04_every_root.

Theorem C04_every_root_pinned :
  forall r bs evs o, within_bound r bs -> spec_value_error Pinned.T r bs = Some (evs, o) -> decode Tables.T true r bs = (evs, o).
Proof. intros r bs evs o Hb. rewrite C20_pinned. apply any_root_first_bad; [vm_compute; reflexivity|exact Hb]. Qed.
Print Assumptions C04_every_root_pinned.

(** strict mode never emits a warning (every root, every state) *)
Theorem C04_strict_never_warns :
  forall T r s tr s' o, dec_root T true r s = (tr, s', o) -> existsb Agree.is_warning tr = false.
Proof. exact strict_is_quiet. Qed.
Print Assumptions C04_strict_never_warns.

(** the full statement = [C04_every_root_pinned] *)
Definition C04_full_statement : Prop :=
  forall r bs evs o, within_bound r bs -> spec_value_error Pinned.T r bs = Some (evs, o) -> decode Tables.T true r bs = (evs, o).

(** non-vacuity: a creation ticket whose tag is fine and whose hierarchy handle is out of range - the events of the
    structure and of the tag, then the error at the hierarchy, 2 bytes remaining *)
Example C04_example_ticket :
  exists t evs e, find_type Pinned.T "S" "TPMT_TK_CREATION" = Some t /\
    spec_value_error Pinned.T (RType t) [128; 33; 0; 0; 0; 0; 0; 0] = Some (evs, ORaised e [0; 0]) /\ List.length evs = 2%nat.
Proof. eexists _, _, _. split; [vm_compute; reflexivity|]. split; vm_compute; reflexivity. Qed.

(** reserved command codes: every table, every input of this form *)
Theorem C04_reserved_command_code :
  forall T tagb szb ccb rest,
    List.length tagb = Z.to_nat (pwidth (p_cmd_tag T)) -> List.length szb = Z.to_nat (pwidth (p_size32 T)) ->
    List.length ccb = Z.to_nat (pwidth (p_cc T)) ->
    valid (p_cmd_tag T) (from_bytes (psigned (p_cmd_tag T)) tagb) = true ->
    valid (p_size32 T) (from_bytes (psigned (p_size32 T)) szb) = true ->
    valid (p_cc T) (from_bytes (psigned (p_cc T)) ccb) = false ->
    0 <= from_bytes (psigned (p_size32 T)) szb ->
    pwidth (p_cmd_tag T) + pwidth (p_size32 T) + pwidth (p_cc T) <= from_bytes (psigned (p_size32 T)) szb ->
    exists evs,
      decode T true RCommand (tagb ++ szb ++ ccb ++ rest) =
        (evs, ORaised (EValue (pchild root_path "commandCode") (pname (p_cc T)) (from_bytes (psigned (p_cc T)) ccb) VSType) rest) /\
      map fst evs = [sev root_path (TyN "Command");
                     Ev (mkEvent (pchild root_path "tag") (TyN (pname (p_cmd_tag T))) (Some (from_bytes (psigned (p_cmd_tag T)) tagb)));
                     Ev (mkEvent (pchild root_path "commandSize") (TyN (pname (p_size32 T))) (Some (from_bytes (psigned (p_size32 T)) szb)))].
Proof. exact reserved_command_code_is_rejected. Qed.
Print Assumptions C04_reserved_command_code.

(** non-vacuity: command code 0x00000FFF *)
Example C04_example_reserved_cc :
  snd (decode Tables.T true RCommand [128;1; 0;0;0;12; 0;0;15;255; 0;0]) =
  ORaised (EValue (pchild root_path "commandCode") "TPM_CC" 4095 VSType) [0;0].
Proof. vm_compute. reflexivity. Qed.
