(** C14 - the printers show every event and every byte exactly once, in order.
    PROVED (for every event list, in either mode, on which the printer does not fail, i.e. whose byte-buffer
    elements are primitive events - which the decoder guarantees): the hex column concatenated over all rows is
    the concatenation of the bytes of the primitive events, in event order; what the row of a primitive shows.
    NOT YET PROVED: the row/event bijection and that decoder output always has the required shape; decided by
    the oracle (rows parsed from the real output: one row per structure/primitive/warning event in order, one row
    per byte buffer, bit rows, indentation, value text) and the correspondence Model/Pretty.v vs implementation.
    Statement file: theorem statements, [exact], Print Assumptions only. *)
From Coq Require Import ZArith List String Bool.
From TV Require Import Layout.Types Model.Monad Model.Ints Model.Pretty Proofs.PrettyProofs.
Import ListNotations.

Theorem C14_hex_column_is_the_decoded_bytes :
  forall T d evs st, st_ok st -> ~ In RCrashRow (pp T d evs st) ->
    List.concat (map row_hex (pp T d evs st)) = pending_hex st ++ List.concat (map pev_bytes evs).
Proof. exact hex_column_is_all_bytes. Qed.
Print Assumptions C14_hex_column_is_the_decoded_bytes.

(** the row of a primitive: declared type, indentation = depth of the path, name = last path node, hex = its bytes,
    value column = its text form *)
Theorem C14_row_of_a_primitive :
  forall T d pa p z, plain_row T d (PPrim pa p z) =
    RField (pname p) (List.length pa - 1) (row_name pa) (prim_hex p z) (value_text T d p z) [PPrim pa p z].
Proof. reflexivity. Qed.
Print Assumptions C14_row_of_a_primitive.
