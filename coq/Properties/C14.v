(** C14 - the printers show every event and every byte exactly once, in order.
    PROVED (for every event list, in either mode, on which the printer does not fail, i.e. whose byte-buffer
    elements are primitive events - which the decoder guarantees): the hex column concatenated over all rows is
    the concatenation of the bytes of the primitive events, in event order; what the row of a primitive shows;
    the rows and the events correspond one to one: every row is the row of exactly one event, a bit row of the
    attribute word above it, or the single row of a byte buffer (covering the list parent and all its elements,
    holding all their bytes), and every structure, primitive and byte-buffer event is covered by exactly one row,
    in event order, as is every warning (a warning raised inside a list before the row of that list is printed is
    shown right after that row); the parent of a non-byte list has a row exactly when the list is empty.
    PROVED as well: the printer never fails on decoder output - for the events of ANY decode (every root: structure
    types, commands, responses, streams; every input, well-formed or not; strict or warn mode; whatever the outcome)
    no row is the failure row, so the theorems above apply to every event stream the decoder can produce.
    ([Proofs/PrintSafe1-6.v]: the printer's control state as a three-state machine over (kind, path) tokens; a
    compositional judgement "from any state that holds no byte buffer a later event could be mistaken for an element
    of, the machine runs through these events and ends holding at most a buffer that lies inside their scope", scopes
    being sets of paths (a field of a structure, the elements of a list from index i on); a path-indexed induction
    over the layout descriptors for every outcome of every decoder function - sibling fields have different names,
    elements different indices, the parent of a byte buffer is followed by its primitive elements only - then
    commands, responses, the stream loop (the root event of the next message closes a buffer left open) and the
    byte pump (its output is a prefix of the trace, possibly followed by one warning).)
    The tie to /repo: the row oracle (the real printer on decoder output of every generated input: no exception, rows
    parsed from the real output: one row per structure/primitive/warning event in order, one row per byte buffer, bit
    rows, indentation, value text) and the correspondence Model/Pretty.v vs implementation.
    Statement file: theorem statements, [exact], Print Assumptions only. *)
From Coq Require Import ZArith List String Bool.
From TV Require Import Layout.Types gen.Tables Model.Monad Model.Ints Model.Message Model.Pump Model.Pretty Proofs.PrettyProofs
  Proofs.PrintSafe4 Proofs.PrintSafe5 Proofs.PrintSafe6.
Import ListNotations.

Theorem C14_hex_column_is_the_decoded_bytes :
  forall T d evs st, st_ok st -> ~ In RCrashRow (pp T d evs st) ->
    List.concat (map row_hex (pp T d evs st)) = pending_hex st ++ List.concat (map pev_bytes evs).
Proof. exact hex_column_is_all_bytes. Qed.
Print Assumptions C14_hex_column_is_the_decoded_bytes.

(** the row of a primitive: declared type, indentation = depth of the path, name = last path node, hex = its bytes,
    value column = its text form *)
Theorem C14_row_of_a_primitive :
  forall T d pa p z, plain_row T d (PPrim pa p z) =
    RField (pname p) (List.length pa - 1) (row_name pa) (prim_hex p z) (value_text T d p z) [PPrim pa p z].
Proof. reflexivity. Qed.
Print Assumptions C14_row_of_a_primitive.

(** every row is the row of one event, a bit row, or the one row of a byte buffer with all its bytes *)
Theorem C14_every_row_is_an_event_row_a_bit_row_or_a_buffer_row :
  forall T d evs, Forall (row_ok T d) (pretty T d evs).
Proof. exact (fun T d evs => every_row_is_an_event_row_a_bit_row_or_a_buffer_row T d evs Top I). Qed.
Print Assumptions C14_every_row_is_an_event_row_a_bit_row_or_a_buffer_row.

(** every event except the parents of non-byte lists is covered by exactly one row, in event order
    (f selects any class of non-warning events, e.g. one particular event) ... *)
Theorem C14_every_structure_and_primitive_event_has_exactly_one_row :
  forall T d (f : pev -> bool) evs, (forall e, is_warn e = true -> f e = false) -> ignores_list_parents f ->
    ~ In RCrashRow (pretty T d evs) ->
    filter f (List.concat (map row_cover (pretty T d evs))) = filter f evs.
Proof. exact (fun T d f evs Hf Hl NC => rows_cover_events_once T d f (or_introl Hf) Hl evs Top (conj I I) NC). Qed.
Print Assumptions C14_every_structure_and_primitive_event_has_exactly_one_row.

(** ... and so is every warning *)
Theorem C14_every_warning_has_exactly_one_row :
  forall T d evs, ~ In RCrashRow (pretty T d evs) ->
    filter is_warn (List.concat (map row_cover (pretty T d evs))) = filter is_warn evs.
Proof.
  exact (fun T d evs NC => rows_cover_events_once T d is_warn (or_intror (fun e H => H)) (fun _ _ => eq_refl) evs Top (conj I I) NC).
Qed.
Print Assumptions C14_every_warning_has_exactly_one_row.

(** the parent of an empty non-byte list has its row *)
Theorem C14_empty_list_is_shown :
  forall T d pa en e r, is_warn e = false -> is_child pa (pev_path e) = false ->
    pretty T d (PList pa en false :: e :: r) = plain_row T d (PList pa en false) :: full_rows T d e ++ pretty T d r.
Proof. exact empty_list_is_shown. Qed.
Print Assumptions C14_empty_list_is_shown.

(** the printer never fails on decoder output: any root passing the table condition, any input, either mode *)
Theorem C14_printer_never_fails_on_decoder_output :
  forall T ps d abort r bs, msg_pok T ps = true -> root_pok ps r ->
    ~ In RCrashRow (pretty T d (map (fun e => to_pev ps (fst e)) (fst (decode T abort r bs)))).
Proof. exact printer_never_fails_on_decoder_output. Qed.
Print Assumptions C14_printer_never_fails_on_decoder_output.

(** the table condition holds of the regenerated tables: the elements of every list[BYTE] are primitives the printers
    know, attribute names are distinct within a class *)
Theorem C14_tables_checks :
  msg_pok Tables.T Tables.all_prims && forallb (fun nt => pok_ty Tables.all_prims (snd nt)) (types Tables.T) = true.
Proof. vm_compute. reflexivity. Qed.
Print Assumptions C14_tables_checks.

(** so for the regenerated tables every clause above holds of every decode: e.g. the hex column *)
Theorem C14_hex_column_of_any_decode :
  forall d abort r bs, root_pok Tables.all_prims r ->
    let evs := map (fun e => to_pev Tables.all_prims (fst e)) (fst (decode Tables.T abort r bs)) in
    List.concat (map row_hex (pretty Tables.T d evs)) = List.concat (map pev_bytes evs).
Proof.
  intros d abort r bs Hr evs.
  assert (Hok : msg_pok Tables.T Tables.all_prims = true) by (vm_compute; reflexivity).
  exact (hex_column_is_all_bytes Tables.T d evs Top I (printer_never_fails_on_decoder_output Tables.T Tables.all_prims d abort r bs Hok Hr)).
Qed.
Print Assumptions C14_hex_column_of_any_decode.

(** non-vacuity: a GetRandom response whose parameterSize is one too large, decoded in warn mode (a byte buffer, a
    Subceeded warning, skipped padding): rows are printed, none is the failure row *)
Example C14_example_rows :
  let evs := map (fun e => to_pev Tables.all_prims (fst e))
                 (fst (decode Tables.T false (RResponse (Some 379) false) [128;2;0;0;0;23;0;0;0;0; 0;0;0;5; 0;2;170;187; 0;0;1;0;0])) in
  (List.length (pretty Tables.T "UNKNOWN"%string evs) >= 8)%nat /\ ~ In RCrashRow (pretty Tables.T "UNKNOWN"%string evs).
Proof. vm_compute. split; [repeat constructor|]. intros H. repeat (destruct H as [H|H]; [discriminate|]). exact H. Qed.
