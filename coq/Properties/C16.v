(** C16 - protocol integers carry their value, width, validity and name faithfully.
    Statement file: theorem statements, [exact]/computation, Print Assumptions only.
    (conversion to int, ==, hash, ordering and the operators are true of the model by definition and
    are therefore decided by the correspondence run only - see DESIGN.md 4 C16.) *)
From Coq Require Import ZArith List String Bool.
From TV Require Import Layout.Types gen.Tables Base.Bytes Model.Ints Proofs.IntProofs.
Import ListNotations.
Open Scope Z_scope.

(** byte form: big-endian two's complement of the declared width, for every width, both signednesses *)
Theorem C16_bytes_of_decoded_value : forall s bs, Forall isbyte bs -> bs <> [] ->
  to_bytes (List.length bs) s (from_bytes s bs) = Some bs.
Proof. exact to_from_bytes. Qed.
Theorem C16_value_of_byte_form : forall w s v bs, (0 < w)%nat -> to_bytes w s v = Some bs ->
  from_bytes s bs = v /\ List.length bs = w /\ Forall isbyte bs.
Proof. exact from_to_bytes. Qed.
Print Assumptions C16_value_of_byte_form.

(** validity: reported valid exactly when the integer belongs to the declared set *)
Theorem C16_valid_iff_declared : forall p z, valid p z = true <-> exists it, In it (pvalid p) /\ In_vitem z it.
Proof. exact valid_reflect. Qed.
Print Assumptions C16_valid_iff_declared.

(** names: what is printed for an enumeration value is a declared member's name - the constant with that
    value, or the range's name plus the zero-padded hexadecimal offset ... *)
Theorem C16_name_is_declared : forall z ms n, member_name z ms = Some n ->
  (In (EMConst n z) ms) \/
  (exists base lo hi nib, In (EMRange base lo hi nib) ms /\ lo <= z < hi /\
                          n = append base (append "." (hexpad nib (z - lo)))).
Proof. exact member_name_sound. Qed.
(** ... the offset text determines the offset (distinct handles in a range print differently) ... *)
Theorem C16_offset_text_injective : forall nib z1 z2, 0 <= z1 -> 0 <= z2 -> hexpad nib z1 = hexpad nib z2 -> z1 = z2.
Proof. exact hexpad_injective. Qed.
(** ... and every valid value of every enumeration-kind type of the regenerated tables has such a name *)
Theorem C16_every_enum_type_names_its_valid_values : forallb enum_named Tables.all_prims = true.
Proof. vm_compute. reflexivity. Qed.
Theorem C16_valid_value_is_named : forall p ms z,
  pkind_ p = KEnum ms -> enum_named p = true -> valid p z = true ->
  exists n, member_name z ms = Some n /\ prim_text p z = append (pname p) (append "." n).
Proof. exact valid_enum_value_is_named. Qed.
Print Assumptions C16_valid_value_is_named.

Example C16_example_handle : prim_text p_TPM_HANDLE 0x80000005 = "TPM_HR.TRANSIENT.000005"%string.
Proof. vm_compute. reflexivity. Qed.
Example C16_example_signed : to_bytes 2 true (-2) = Some [255; 254].
Proof. vm_compute. reflexivity. Qed.
