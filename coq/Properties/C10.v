(** C10 - decoding is incremental: one byte of look-ahead, prefix-stable, source-agnostic.
    (Independence of the kind of iterable is not a theorem - the model's input is the sequence of integers an
    iterable yields - it is decided by the correspondence run with seven source kinds.)
    Statement file: theorem statements, [exact], Print Assumptions only. *)
From Coq Require Import ZArith List String Bool.
From TV Require Import Layout.Types Model.Monad Model.Message Model.Pump Proofs.Incremental Proofs.PumpProofs.
Import ListNotations.
Open Scope Z_scope.

(** the decoder learns about its input only by asking for the next byte: for every decoder function, both
    modes, all tables, all states - appending bytes to the input leaves a run that did not stop for lack of input
    unchanged (same trace, same outcome, the appended bytes still unread), and extends a run that did *)
Theorem C10_processor_is_incremental :
  forall T abort r s ys tr s' o, dec_root T abort r s = (tr, s', o) ->
    (o <> More -> dec_root T abort r (ext s ys) = (tr, ext s' ys, o)) /\
    (o = More -> exists tr2 s2 o2, dec_root T abort r (ext s ys) = (tr ++ tr2, s2, o2)).
Proof. exact incr_dec_root. Qed.
Print Assumptions C10_processor_is_incremental.

(** consequently, for ALL inputs (well-formed or not), every root: the events emitted for a prefix are a prefix
    of the events emitted for the whole input *)
Theorem C10_prefix_stable :
  forall T r xs ys evs1 o1 evs2 o2,
    decode T true r xs = (evs1, o1) -> decode T true r (xs ++ ys) = (evs2, o2) ->
    exists rest, map fst evs2 = map fst evs1 ++ rest.
Proof. exact strict_events_prefix_stable. Qed.
Print Assumptions C10_prefix_stable.

(** look-ahead: an event yielded when the processor had received n bytes is reported with min(len, n + 1) bytes
    pulled from the source ([stamps]), never more than the input holds *)
Theorem C10_one_byte_lookahead :
  forall T r input evs o, decode T true r input = (evs, o) ->
    evs = stamps (is_stream_root r) (Z.of_nat (List.length input)) (fst (fst (dec_root T true r (init_st input)))) 0.
Proof. exact strict_events_are_stamps. Qed.
Theorem C10_pulls_at_most_the_input :
  forall T abort r input evs o, decode T abort r input = (evs, o) ->
    forall a n, In (a, n) evs -> n <= Z.of_nat (List.length input).
Proof. exact pull_counts_bounded. Qed.
Print Assumptions C10_one_byte_lookahead.
