(** C12 - decoding is a pure function of its arguments.
    The decoder model [decode T abort root input] has no state parameter; the one piece of process-global
    state of the implementation - the memo behind TPMS_PARAMS.encrypted() - is modelled in Model/Cache.v.
    That there is no other cross-call state is validated by the correspondence run (histories and
    step-wise interleavings compared with Python ==) and by a syntactic audit of the sources that the translator
    repeats on every run (gen/Audit.v); it is not proved of the Python code.
    Statement file: theorem statements, [exact]/computation, Print Assumptions only. *)
From Coq Require Import ZArith List String Bool.
From TV Require Import Layout.Types gen.Tables gen.Audit Model.Cache Proofs.CacheProofs.
Import ListNotations.

(** the memo of the tree under test is unbounded (read from the source by the translator) *)
Theorem C12_memo_is_unbounded : cache_size Tables.T = None.
Proof. vm_compute. reflexivity. Qed.
Print Assumptions C12_memo_is_unbounded.

(** the translator's audit of every module under src/tpmstream finds no further carrier of state that survives a
    call: no default argument evaluated once (anything but constants and plain names), no global / nonlocal
    statement, no memo decorator or functools memo helper besides the one above and two per-instance properties *)
Theorem C12_no_further_shared_state_in_the_sources : Audit.shared_state = [].
Proof. vm_compute. reflexivity. Qed.
Print Assumptions C12_no_further_shared_state_in_the_sources.

(** with an unbounded memo: in every history - any number of decodes, interleaved step by step in any way -
    any two requests for the encrypted layout of the same parameter class get the same synthesized type *)
Theorem C12_synthesized_type_is_stable :
  forall h i j n idi idj,
    nth_error h i = Some n -> nth_error h j = Some n ->
    nth_error (run None empty_cache h) i = Some idi -> nth_error (run None empty_cache h) j = Some idj ->
    idi = idj.
Proof. exact unbounded_cache_is_stable. Qed.
Print Assumptions C12_synthesized_type_is_stable.

(** with the one-entry memo the pinned commit shipped with, the history A, B, A breaks it
    (fixed: property=C12, see known_findings.json) *)
Theorem C12_one_entry_memo_refuted :
  exists h i j n idi idj, nth_error h i = Some n /\ nth_error h j = Some n /\
    nth_error (run (Some 1%Z) empty_cache h) i = Some idi /\
    nth_error (run (Some 1%Z) empty_cache h) j = Some idj /\ idi <> idj.
Proof. exact one_entry_cache_refuted. Qed.
Print Assumptions C12_one_entry_memo_refuted.

(** ... and so does every bound: with room for k entries, k+1 different classes and then the first again.  The
    property therefore needs the memo to be unbounded ([C12_memo_is_unbounded] demands no more than it must); the
    witness history is what the check replays on the implementation when the translator reads a bound *)
Theorem C12_every_bounded_memo_refuted :
  forall k : Z, exists h i j n idi idj, nth_error h i = Some n /\ nth_error h j = Some n /\
    nth_error (run (Some k) empty_cache h) i = Some idi /\
    nth_error (run (Some k) empty_cache h) j = Some idj /\ idi <> idj.
Proof. exact bounded_cache_refuted. Qed.
Print Assumptions C12_every_bounded_memo_refuted.
