(** C03 - strict mode accepts an input only if every size field is exact.
    PROVED: (composition, every structure type passing the table checks - all decodable types and area types of the
    regenerated tables do -, all byte strings) strict decoding ACCEPTS an input if and only if the specification reads
    the whole input as a value of the type with valid leaves - and the specification takes a size-prefixed region to
    be exactly as long as its size field says: so acceptance implies that every TPM2B size equals the byte length of
    the region it governs, and the events are the specified ones (Proofs/Comp1-3.v: a completed strict run can be
    restricted to the bytes it consumed; it has charged every live region exactly the bytes read, so a region that
    closes normally was filled exactly; from this the specification's reading is rebuilt by induction on the type).
    (mechanism) what each of the three size errors means when it is raised, and that a sized region closes normally
    only when exactly filled (operation level, all states).
    The same for the Command root and for the Response root (Proofs/Comp4-5.v): accepted if and only if the
    specification reads the whole input as one message - commandSize / responseSize equal to the length of the whole
    message, authSize to the length of the session area, parameterSize to the length of the parameter area, and every
    TPM2B size inside exact.  For a response the caller's encryption flag must be consistent with the message
    (set only if the response has a session area: the decoder checks the flag against the sessions only when there
    are any, so a flagged response without sessions is decoded with an opaque first parameter and accepted although
    no reading of the specification describes it).
    NOT PROVED: the converse direction for the stream root (a stream is accepted message by message with the flag
    taken from the preceding command, so the same consistency condition would have to hold at every response) and
    "no earlier point was decidable"; decided by the oracle (accepted => the specification parses the input with
    exact sizes; arithmetic of every reported error recomputed from the emitted events) and the model
    correspondence on fault-enumerated inputs.
    Statement file: theorem statements, [exact], Print Assumptions only. *)
From Coq Require Import ZArith List String Bool.
From TV Require Import Layout.Types gen.Tables Base.Bytes Model.Monad Model.Constraints Model.Message Model.Pump Spec.Message
  Proofs.Account Proofs.OpLemmas Proofs.Sim10 Proofs.Safe1 Proofs.Safe3 Proofs.Comp2 Proofs.Comp3 Proofs.Comp4 Proofs.Comp5.
Import ListNotations.
Open Scope Z_scope.

(** exceeded: raised for a listed live region whose limit the field would cross: it names that region's size
    field (path, limit, bytes counted so far), the offending field, by how much; the rest of the region has been
    skipped *)
Theorem C03_exceeded_partial :
  forall p size s tr s' o, bytes_parsed p size s = (tr, s', o) ->
    match o with
    | Ok _ => tr = [] /\ inp s' = inp s
    | Fail e =>
        exists ci by_ mx, e = EExceeded ci p by_ /\ si_max ci = Some mx /\
                          by_ = si_already ci + size - mx /\ 0 < by_ /\
                          List.length (bytes_of tr) = Z.to_nat (mx - si_already ci)
    | More => True
    | Internal _ | Fuel => False
    end.
Proof. exact bytes_parsed_outcome. Qed.
Print Assumptions C03_exceeded_partial.

(** anticipated: raised when a size is read that cannot fit in another live listed region *)
Theorem C03_anticipated_partial :
  forall s ids self size ci by_, anticipate s ids self size = Some (ci, by_) ->
    exists mx, In (si_id ci) ids /\ si_id ci <> self /\ si_max ci = Some mx /\
               by_ = si_already ci + size - mx /\ 0 < by_ /\ sc_obs (get_sc s (si_id ci)) = false.
Proof. exact anticipate_spec. Qed.
Print Assumptions C03_anticipated_partial.

(** subceeded / exact: closing a sized region succeeds exactly when the bytes counted equal the limit, and
    otherwise raises Subceeded naming it; nothing is read or emitted *)
Theorem C03_region_closes_only_when_exact_partial :
  forall i s tr s' o, assert_done true i s = (tr, s', o) ->
    tr = [] /\
    match o with
    | Ok _ => sc_obs (get_sc s i) = true \/ sc_max (get_sc s i) = Some (sc_already (get_sc s i))
    | Fail e => exists mx, sc_max (get_sc s i) = Some mx /\ sc_already (get_sc s i) <> mx /\
                           e = ESubceeded (info i (get_sc s i))
    | Internal _ => sc_max (get_sc s i) = None
    | _ => False
    end.
Proof. exact assert_done_strict. Qed.
Print Assumptions C03_region_closes_only_when_exact_partial.

(** every structure type passing the checks, every byte string: accepted exactly when well-formed - in particular
    with every size field equal to the length of its region - and then with exactly the specified events *)
Theorem C03_types_accept_iff_well_formed :
  forall T t bs evs, safe_ty t = true -> lp_ty t = true -> Forall isbyte bs ->
    (decode T true (RType t) bs = (evs, OAccepted) <-> spec_events T (RType t) bs = Some evs).
Proof. exact types_accept_iff_specified. Qed.
Print Assumptions C03_types_accept_iff_well_formed.

(** the regenerated tables: every decodable type and every area type has list elements that take at least a byte *)
Theorem C03_tables_lists_progress :
  forallb (fun nt => is_union (snd nt) || lp_ty (snd nt)) (types Tables.T) &&
  forallb (fun kt => lp_ty (snd kt)) (cmd_handles Tables.T ++ cmd_params Tables.T ++ rsp_handles Tables.T ++ rsp_params Tables.T) = true.
Proof. vm_compute. reflexivity. Qed.
Print Assumptions C03_tables_lists_progress.

(** a command: accepted exactly when the specification reads the whole input as one command with valid leaves -
    commandSize is then the length of the message and authSize the length of the session area *)
Theorem C03_commands_accept_iff_well_formed :
  forall T bs evs, msg_safe T = true -> msg_lp T = true -> msg_tables_ok T = true -> Forall isbyte bs ->
    (decode T true RCommand bs = (evs, OAccepted) <-> spec_events T RCommand bs = Some evs).
Proof. exact command_accept_iff_specified. Qed.
Print Assumptions C03_commands_accept_iff_well_formed.

(** a response to command [cc]: the same, with responseSize and parameterSize; the caller's encryption flag may be
    set only for a response that has a session area *)
Theorem C03_responses_accept_iff_well_formed :
  forall T cc enc bs evs, msg_safe T = true -> msg_lp T = true -> msg_tables_ok T = true -> Forall isbyte bs ->
    enc_flag_consistent T root_path enc bs ->
    (decode T true (RResponse (Some cc) enc) bs = (evs, OAccepted) <-> spec_events T (RResponse (Some cc) enc) bs = Some evs).
Proof. exact response_accept_iff_specified. Qed.
Print Assumptions C03_responses_accept_iff_well_formed.

(** the premises hold of the regenerated tables *)
Theorem C03_tables_message_checks :
  msg_safe Tables.T && msg_lp Tables.T && msg_tables_ok Tables.T = true.
Proof. vm_compute. reflexivity. Qed.
Print Assumptions C03_tables_message_checks.

(** non-vacuity: a flagged response without a session area is the case the consistency premise excludes, and it is
    excluded only there - with the flag clear the premise holds of every input *)
Theorem C03_flag_clear_is_consistent : forall T bs, enc_flag_consistent T root_path false bs.
Proof. intros T bs H. discriminate H. Qed.
Print Assumptions C03_flag_clear_is_consistent.
