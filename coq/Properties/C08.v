(** C08 - warn mode reports problems as warnings and keeps decoding.
    PROVED: (values only) a warn-mode decode that completes with value warnings only is tiled by its events
    (C02_accepted_input_is_tiled_by_its_events, abort = false); (resume) when a field would cross a live region
    the rest of that region - exactly limit minus counted bytes - is consumed before the problem is reported;
    (first problem) C07; (values only, structure types) for EVERY structure type, all tables, all inputs: when the
    input is structurally consistent, warn-mode decoding emits exactly the events of the lenient field-by-field
    interpretation with one warning directly after each offending event, and accepts (Proofs/Sim4-5, mode false).
    The same for COMMANDS and RESPONSES (Proofs/Sim7-10.v; tables passing [msg_tables_ok]).
    and for STREAMS below the model's loop bound (Proofs/Sim11.v): [C08_values_only_every_root].
    (never aborts) [C08_never_aborts_every_root]: for EVERY byte string and EVERY root - any non-union structure type
    of the tables, commands, responses with any command code or none, streams below the model's loop bound - on tables
    passing the checks (the regenerated ones do by computation) warn-mode decoding runs to the end of the input
    (every problem a warning) or raises a value error that is not a type-range error: an unknown command code, a
    missing command code, a selector that selects no member.  It never raises a size error, depleted or superfluous,
    never fails internally, never reaches a loop bound.  ([Proofs/Warn1-4.v]: a Hoare logic with an exceptional
    post-condition - a run that ends with Exceeded for a live listed region has charged the enclosing regions exactly
    the bytes read, skipped ones included, and finished the region and those inside it - so that every handler resumes
    in a state in which the invariant of completed runs holds again; completed runs charge every live listed region
    exactly the bytes read in warn mode, too; the own region of a byte buffer cannot be overrun; each iteration of the
    session loop and of the stream loop consumes input.)  The proof found F20 (a response without a known command
    code raised NameError; fixed in /repo).
    (tiling) [C08_every_run_is_tiled]: for every root, every input, either mode, the run's trace is a sequence of
    blocks - structure event; the w bytes of a primitive followed by its event carrying their big-endian value; a
    warning without bytes (value, anticipated, encryption mismatch); an overrun: the skipped rest of the violated
    region, exactly limit - counted bytes, then its Exceeded warning; a shortfall: the Subceeded warning, then exactly
    limit - counted bytes of padding - with one incomplete last block when the input ends early; and the input is the
    bytes of the blocks followed by the unread rest.  So every input byte is shown in a field, skipped as the reported
    tail of a region, or left as surplus, and decoding resumes exactly at the end the violated size field declares
    ([Proofs/WTiling.v], a closure over the decoder's building blocks).
    NOT PROVED: nothing of the property's text is left without a theorem about the model; the tie to /repo is the
    correspondence in warn mode and the tiling oracle on the implementation.
    Statement file: theorem statements, [exact], Print Assumptions only. *)
From Coq Require Import ZArith List String Bool.
From TV Require Import Layout.Types gen.Tables gen.Pinned Model.Monad Model.Constraints Model.Message Model.Pump Spec.Value Spec.Message
  Model.Show Proofs.Account Proofs.Tiling Proofs.OpLemmas Proofs.Agree Proofs.Sim5 Proofs.Sim10 Proofs.Sim11 Proofs.Safe1 Proofs.Safe3
  Proofs.Warn2 Proofs.Warn3 Proofs.Warn4 Proofs.WTiling Properties.C20.
Import ListNotations.
Open Scope Z_scope.

Theorem C08_value_warnings_only_is_lenient_tiling_partial :
  forall T r input evs,
    is_stream_root r = false ->
    decode T false r input = (evs, OAccepted) ->
    existsb is_size_warning (map fst evs) = false ->
    exists tr cs, fst (fst (dec_root T false r (init_st input))) = tr /\
                  tiled tr cs /\ List.concat cs = input /\ map fst evs = filter not_rd tr.
Proof. exact (fun T => accepted_is_tiled T false). Qed.
Print Assumptions C08_value_warnings_only_is_lenient_tiling_partial.

Theorem C08_overrun_skips_to_the_declared_end_partial :
  forall p size s tr s' e, bytes_parsed p size s = (tr, s', Fail e) ->
    exists ci by_ mx, e = EExceeded ci p by_ /\ si_max ci = Some mx /\
                      by_ = si_already ci + size - mx /\ 0 < by_ /\
                      List.length (bytes_of tr) = Z.to_nat (mx - si_already ci).
Proof. exact (fun p size s tr s' e H => bytes_parsed_outcome p size s tr s' (Fail e) H). Qed.
Print Assumptions C08_overrun_skips_to_the_declared_end_partial.

(** values only, every structure type (any descriptor [t], any tables [T], any input): if the input is structurally
    consistent for [t], warn mode emits every field's event in wire order, exactly one warning - the value error
    naming path, declared type and integer - directly after the event of each out-of-range leaf, nothing else, and
    accepts *)
Theorem C08_values_only_structure_types :
  forall T t bs evs, spec_lenient T (RType t) bs = Some evs -> decode T false (RType t) bs = (evs, OAccepted).
Proof. exact types_decode_lenient. Qed.
Print Assumptions C08_values_only_structure_types.

(** the same with the specification at the PINNED layout and the decoder at the tables regenerated from /repo *)
Theorem C08_values_only_structure_types_pinned :
  forall t bs evs, spec_lenient Pinned.T (RType t) bs = Some evs -> decode Tables.T false (RType t) bs = (evs, OAccepted).
Proof. rewrite C20_pinned. exact (types_decode_lenient Pinned.T). Qed.
Print Assumptions C08_values_only_structure_types_pinned.

(** values only, every root but a stream: structure types, commands, responses *)
Theorem C08_values_only_types_commands_responses :
  forall T r bs evs, msg_tables_ok T = true -> is_stream_root r = false ->
    spec_lenient T r bs = Some evs -> decode T false r bs = (evs, OAccepted).
Proof. exact root_decodes_lenient. Qed.
Print Assumptions C08_values_only_types_commands_responses.

Theorem C08_values_only_types_commands_responses_pinned :
  forall r bs evs, is_stream_root r = false ->
    spec_lenient Pinned.T r bs = Some evs -> decode Tables.T false r bs = (evs, OAccepted).
Proof. intros r bs evs. rewrite C20_pinned. apply root_decodes_lenient. vm_compute. reflexivity. Qed.
Print Assumptions C08_values_only_types_commands_responses_pinned.

(** values only, EVERY root (streams below the loop bound of the model) *)
Theorem C08_values_only_every_root :
  forall T r bs evs, msg_tables_ok T = true -> within_bound r bs ->
    spec_lenient T r bs = Some evs -> decode T false r bs = (evs, OAccepted).
Proof. exact any_root_decodes_lenient. Qed.
Print Assumptions C08_values_only_every_root.

Theorem C08_values_only_every_root_pinned :
  forall r bs evs, within_bound r bs -> spec_lenient Pinned.T r bs = Some evs -> decode Tables.T false r bs = (evs, OAccepted).
Proof. intros r bs evs Hb. rewrite C20_pinned. apply any_root_decodes_lenient; [vm_compute; reflexivity|exact Hb]. Qed.
Print Assumptions C08_values_only_every_root_pinned.

(** non-vacuity: a hash algorithm identifier out of range *)
Example C08_example_bad_alg :
  exists t evs, find_type Pinned.T "S" "TPMI_ALG_HASH" = Some t /\
    spec_lenient Pinned.T (RType t) [18; 52] = Some evs /\ existsb is_warning (map fst evs) = true.
Proof. eexists _, _. split; [vm_compute; reflexivity|]. split; vm_compute; reflexivity. Qed.

(** tiling with size problems: every root, every input, either mode *)
Theorem C08_every_run_is_tiled :
  forall T abort r bs tr s' o, dec_root T abort r (init_st bs) = (tr, s', o) ->
    bs = bytes_of tr ++ inp s' /\
    match o with
    | Ok _ => wt tr
    | More => partial tr /\ inp s' = []
    | _ => True
    end.
Proof. exact run_is_tiled. Qed.
Print Assumptions C08_every_run_is_tiled.

(** never aborts: every root, every byte string *)
Theorem C08_never_aborts_every_root :
  forall T r bs, msg_safe T = true -> msg_b2 T = true -> root_safe_w r -> Forall Bytes.isbyte bs -> within_bound r bs ->
    warn_outcome_ok (snd (decode T false r bs)).
Proof. intros T r bs Hs Hb. exact (any_root_never_aborts T Hs Hb r bs). Qed.
Print Assumptions C08_never_aborts_every_root.

(** the premises hold of the regenerated tables: the message checks, and every decodable (non-union) type *)
Theorem C08_tables_checks :
  msg_safe Tables.T && msg_b2 Tables.T &&
  forallb (fun nt => is_union (snd nt) || (safe_ty (snd nt) && bytes2b (snd nt))) (types Tables.T) = true.
Proof. vm_compute. reflexivity. Qed.
Print Assumptions C08_tables_checks.

(** non-vacuity: a command whose commandSize is smaller than its header is abandoned with a warning and accepted; the
    response that follows has no command code and decoding raises the value error for it (the F20 input); a command
    with an oversized inner size runs to the end with warnings *)
Example C08_example_never_aborts :
  snd (decode Tables.T false RStream [128;1;0;0;0;6]) = OAccepted /\
  (match snd (decode Tables.T false RStream [128;1;0;0;0;6;128;1;0;0;0;10;0;0;0;0]) with ORaised (EValue _ _ _ VSNoCommand) _ => True | _ => False end) /\
  snd (decode Tables.T false RCommand [128;1;0;0;0;12;0;0;1;123;255;255]) = OAccepted.
Proof. vm_compute. repeat split. Qed.
