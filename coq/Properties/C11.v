(** C11 - events and Python objects convert into each other without loss.
    PROVED (obj_to_events, common/object.py, modelled in Model/Object.v; every structure type whose classes have
    distinct attribute names - all of the regenerated tables -, commands, responses; EVERY input strict decoding
    accepts): the object the decoder returns, turned back into events, is exactly the decoded event list - same
    length, paths, declared types and values, structure / list / placeholder events included; an absent optional part
    stays absent (the empty payload of a size-prefixed structure becomes its one placeholder event, union members
    without payload, the session area / parameterSize of a message without sessions and everything after the response
    code of a failed response produce nothing).  Hence (with C02) re-encoding the object yields the input bytes.
    ([Proofs/ObjEv.v]: induction over the layout descriptors on completed strict runs, then field by field through
    the two message decoders.)
    NOT PROVED: events_to_obj (the path trie [_events_to_dict] and the class lookup of [_to_obj]) is not modelled:
    "the object rebuilt from the events equals the decoder's object" is decided on the implementation by the oracle
    (by-product == rebuilt with Python ==, both turn back into the decoded events incl. value classes, re-encoding gives
    the input) on generated well-formed encodings of every type; the decoder's by-product object and the model's
    obj_to_events of it are tied to the implementation by correspondence.
    Statement file: theorem statements, [exact], Print Assumptions only. *)
From Coq Require Import ZArith List String Bool.
From TV Require Import Layout.Types gen.Tables Base.Bytes Model.Monad Model.Ints Model.Decoder Model.Message Model.Pump Model.Object
  Proofs.OpLemmas Proofs.ObjEv.
Import ListNotations.
Open Scope Z_scope.

(** every root but the stream, every accepted input: obj_to_events (returned object) = the decoded events *)
Theorem C11_returned_object_turns_back_into_the_decoded_events :
  forall T r bs evs, msg_named T = true -> root_named T r -> is_stream_root r = false ->
    decode T true r bs = (evs, OAccepted) ->
    exists v, decode_obj T true r bs = Some v /\ map fst evs = map Ev (obj_to_events T r v).
Proof. exact decoded_object_reproduces_events. Qed.
Print Assumptions C11_returned_object_turns_back_into_the_decoded_events.

(** the same at the level of the decoder functions, for every state: any structure type ... *)
Theorem C11_structure_types :
  forall T t, named_ty t = true -> forall sel pa s tr s' a, dec_ty T true t pa sel false s = (tr, s', Ok a) ->
    exists v, a = Some v /\ evs_of tr = oe_ty T t v pa.
Proof. exact (fun T t H sel => proj1 (obj_all T) t H sel). Qed.
Print Assumptions C11_structure_types.

(** ... commands and responses *)
Theorem C11_commands :
  forall T, msg_named T = true -> forall pa s tr s' res, dec_command T true pa s = (tr, s', Ok res) ->
    evs_of tr = oe_command T (cr_obj res) pa.
Proof. exact command_obj. Qed.
Print Assumptions C11_commands.

Theorem C11_responses :
  forall T, msg_named T = true -> forall pa cc enc s tr s' v, dec_response T true pa cc enc s = (tr, s', Ok v) ->
    evs_of tr = oe_response T cc v pa.
Proof. exact response_obj. Qed.
Print Assumptions C11_responses.

(** the premises hold of the regenerated tables: attribute names are distinct within every class *)
Theorem C11_tables_named :
  msg_named Tables.T && forallb (fun nt => named_ty (snd nt)) (types Tables.T) = true.
Proof. vm_compute. reflexivity. Qed.
Print Assumptions C11_tables_named.

(** field level: the value stored in the object of a primitive field is the value of the event emitted for it *)
Theorem C11_field_object_matches_event_partial :
  forall p pa s tr s' r, dec_prim true p pa s = (tr, s', Ok r) ->
    exists bs, tr = map Rd bs ++ [Ev (mkEvent pa (TyN (pname p)) (Some (from_bytes (psigned p) bs)))] /\
               r = Some (VInt_ (pname p) (from_bytes (psigned p) bs)).
Proof.
  intros p pa s tr s' r H. destruct (dec_prim_strict p pa s tr s' (Ok r) H) as (bs & Ht & _ & _ & Hr).
  exists bs. split; assumption.
Qed.
Print Assumptions C11_field_object_matches_event_partial.

(** non-vacuity: TPM2_GetRandom(32) is accepted; its object turns back into its 7 events; an empty TPM2B_PUBLIC keeps
    its absent payload as one placeholder event *)
Example C11_example :
  (let bs := [128;1;0;0;0;12;0;0;1;123;0;32] in
   snd (decode Tables.T true RCommand bs) = OAccepted /\
   match decode_obj Tables.T true RCommand bs with
   | Some v => map Ev (obj_to_events Tables.T RCommand v) = map fst (fst (decode Tables.T true RCommand bs)) /\ List.length (obj_to_events Tables.T RCommand v) = 7%nat
   | None => False
   end) /\
  match lookupS "TPM2B_PUBLIC" (types Tables.T) with
  | Some t => match decode_obj Tables.T true (RType t) [0;0] with
              | Some v => List.length (obj_to_events Tables.T (RType t) v) = 3%nat
              | None => False
              end
  | None => False
  end.
Proof. vm_compute. repeat split. Qed.
