(** C11 - events and Python objects convert into each other without loss.
    PROVED, both directions (common/object.py modelled in Model/Object.v; every structure type whose classes have
    distinct attribute names and none of which can be mistaken for the synthesized encrypted-parameter class - all of
    the regenerated tables -, commands, responses; EVERY input strict decoding accepts):
    (a) obj_to_events: the object the decoder returns, turned back into events, is exactly the decoded event list -
    same length, paths, declared types and values, structure / list / placeholder events included; an absent optional
    part stays absent (the empty payload of a size-prefixed structure becomes its one placeholder event, union members
    without payload, the session area / parameterSize of a message without sessions and everything after the response
    code of a failed response produce nothing).  Hence (with C02) re-encoding the object yields the input bytes.
    ([Proofs/ObjEv.v]: induction over the layout descriptors on completed strict runs, then field by field through
    the two message decoders; the same induction establishes the shape [wsh]/[cmd_shape]/[rsp_shape] of the object.)
    (b) events_to_obj: the decoded events, run through the path trie [_events_to_dict] ([ins]/[events_to_dict]) and the
    class lookup [_to_obj] ([to_obj_ty]/[to_obj_msg], incl. the TPM2B empty-payload rule, the command-code maps for the
    Any-typed areas and the recognition of the encrypted first parameter), rebuild exactly the object the decoder
    returned.  ([Proofs/EvDict.v]: the events of an object are natural in the path they are asked for, and building
    the trie from them gives the nested dict/list image [tree_of] of the object; [Proofs/EvObj.v]: converting that image
    back gives the object; [Proofs/EvObj2.v]: encrypted areas, commands, responses, and the composition with (a).)
    (c) the stream root: the events of a well-formed stream, split at the message roots and converted with the
    command / response-with-that-command's-code pairing of [events_to_objs], give exactly the objects the decoder
    returns for the messages decoded one by one - one per message, also for a last command without its response
    ([Proofs/StreamObj.v]: the events of a message object are its root event followed by events below the root only;
    the command code recorded in the events is the one the response was decoded with).
    NOT PROVED: streams containing a malformed message; Python-level equality of the value classes (the model
    compares class names and integer values).
    Both conversions of the implementation are tied to the model by correspondence (objev / evobj).
    Statement file: theorem statements, [exact], Print Assumptions only. *)
From Coq Require Import ZArith List String Bool.
From TV Require Import Layout.Types gen.Tables Base.Bytes Model.Monad Model.Ints Model.Decoder Model.Message Model.Pump Model.Object
  Spec.Value Spec.Message Proofs.OpLemmas Proofs.Sim4 Proofs.Sim10 Proofs.Sim12 Proofs.ObjEv Proofs.EvObj Proofs.EvDict Proofs.EvObj2 Proofs.StreamObj.
Import ListNotations.
Open Scope Z_scope.

(** every root but the stream, every accepted input: obj_to_events (returned object) = the decoded events *)
Theorem C11_returned_object_turns_back_into_the_decoded_events :
  forall T r bs evs, msg_named T = true -> root_named T r -> is_stream_root r = false ->
    decode T true r bs = (evs, OAccepted) ->
    exists v, decode_obj T true r bs = Some v /\ map fst evs = map Ev (obj_to_events T r v).
Proof. exact decoded_object_reproduces_events. Qed.
Print Assumptions C11_returned_object_turns_back_into_the_decoded_events.

(** the same at the level of the decoder functions, for every state: any structure type ... *)
Theorem C11_structure_types :
  forall T t, named_ty t = true -> forall sel pa s tr s' a, dec_ty T true t pa sel false s = (tr, s', Ok a) ->
    exists v, a = Some v /\ evs_of tr = oe_ty T t v pa.
Proof.
  intros T t H sel pa s tr s' a E. destruct (proj1 (obj_all T) t H sel pa s tr s' a E) as (v & Hv & _ & He). exists v. split; assumption.
Qed.
Print Assumptions C11_structure_types.

(** ... commands and responses *)
Theorem C11_commands :
  forall T, msg_named T = true -> forall pa s tr s' res, dec_command T true pa s = (tr, s', Ok res) ->
    evs_of tr = oe_command T (cr_obj res) pa.
Proof. exact (fun T H pa s tr s' res E => proj1 (command_obj T H pa s tr s' res E)). Qed.
Print Assumptions C11_commands.

Theorem C11_responses :
  forall T, msg_named T = true -> forall pa cc enc s tr s' v, dec_response T true pa cc enc s = (tr, s', Ok v) ->
    evs_of tr = oe_response T cc v pa.
Proof. exact (fun T H pa cc enc s tr s' v E => proj1 (response_obj T H pa cc enc s tr s' v E)). Qed.
Print Assumptions C11_responses.

(** the premises hold of the regenerated tables: attribute names are distinct within every class *)
Theorem C11_tables_named :
  msg_named Tables.T && forallb (fun nt => named_ty (snd nt)) (types Tables.T) = true.
Proof. vm_compute. reflexivity. Qed.
Print Assumptions C11_tables_named.

(** (b) every root but the stream, every accepted input: events_to_obj (the decoded events) = the returned object *)
Theorem C11_decoded_events_rebuild_the_returned_object :
  forall T r bs evs, msg_named T = true -> msg_plain T = true -> root_named T r -> root_plain T r -> is_stream_root r = false ->
    decode T true r bs = (evs, OAccepted) ->
    exists v es, decode_obj T true r bs = Some v /\ map fst evs = map Ev es /\ es = obj_to_events T r v /\ events_to_obj T r es = Some v.
Proof. exact decoded_events_rebuild_object. Qed.
Print Assumptions C11_decoded_events_rebuild_the_returned_object.

(** (c) the stream root: every well-formed stream below the loop bound of the model *)
Theorem C11_stream_events_rebuild_the_objects_of_its_messages :
  forall T bs ps, msg_tables_ok T = true -> msg_named T = true -> msg_plain T = true ->
    split_as T bs ps -> forallb (fun p => ok_leaves true (snd p)) ps = true -> Z.of_nat (List.length bs) < Z.pos stream_bound ->
    events_to_objs T (evs_of (map fst (fst (decode T true RStream bs)))) = map (fun p => decode_obj T true (fst (fst p)) (snd (fst p))) ps /\
    Forall (fun o => o <> None) (map (fun p => decode_obj T true (fst (fst p)) (snd (fst p))) ps).
Proof. exact (fun T bs ps H1 H2 H3 => stream_events_rebuild_the_objects T H1 H2 H3 bs ps). Qed.
Print Assumptions C11_stream_events_rebuild_the_objects_of_its_messages.

(** the two conversions are inverse on the objects the decoder produces: any structure type ... *)
Theorem C11_structure_round_trip :
  forall T t v, named_ty t = true -> plain_ok T t = true -> wsh t v ->
    events_to_obj T (RType t) (obj_to_events T (RType t) v) = Some v.
Proof. exact type_back. Qed.
Print Assumptions C11_structure_round_trip.

(** ... commands and responses (with or without sessions, failed responses, encrypted first parameters) *)
Theorem C11_command_round_trip :
  forall T, msg_named T = true -> msg_plain T = true -> forall v, cmd_shape T v ->
    events_to_obj T RCommand (obj_to_events T RCommand v) = Some v.
Proof. exact command_back. Qed.
Print Assumptions C11_command_round_trip.

Theorem C11_response_round_trip :
  forall T, msg_named T = true -> msg_plain T = true -> forall cc enc v, rsp_shape T cc v ->
    events_to_obj T (RResponse cc enc) (obj_to_events T (RResponse cc enc) v) = Some v.
Proof. exact response_back. Qed.
Print Assumptions C11_response_round_trip.

(** the trie built from the events of an object is the nested dict/list image of the object *)
Theorem C11_events_build_the_image_of_the_object :
  forall T t v, named_ty t = true -> wsh t v ->
    events_to_dict (oe_ty T t v root_path) (TDict []) = Some (TDict [(EmptyString, tree_of v)]).
Proof.
  intros T t v Hn Hw. rewrite events_to_dict_build. exact (placed_blk (oe_ty T t v) (tree_of v) EmptyString [] (proj1 (dict_all T) t Hn v Hw) eq_refl).
Qed.
Print Assumptions C11_events_build_the_image_of_the_object.

(** the premises hold of the regenerated tables: no class can be mistaken for the encrypted-parameter class *)
Theorem C11_tables_plain :
  msg_plain Tables.T && forallb (fun nt => plain_ok Tables.T (snd nt)) (types Tables.T) = true.
Proof. vm_compute. reflexivity. Qed.
Print Assumptions C11_tables_plain.

(** field level: the value stored in the object of a primitive field is the value of the event emitted for it *)
Theorem C11_field_object_matches_event_partial :
  forall p pa s tr s' r, dec_prim true p pa s = (tr, s', Ok r) ->
    exists bs, tr = map Rd bs ++ [Ev (mkEvent pa (TyN (pname p)) (Some (from_bytes (psigned p) bs)))] /\
               r = Some (VInt_ (pname p) (from_bytes (psigned p) bs)).
Proof.
  intros p pa s tr s' r H. destruct (dec_prim_strict p pa s tr s' (Ok r) H) as (bs & Ht & _ & _ & Hr).
  exists bs. split; assumption.
Qed.
Print Assumptions C11_field_object_matches_event_partial.

(** non-vacuity: TPM2_GetRandom(32) is accepted; its object turns back into its 7 events; an empty TPM2B_PUBLIC keeps
    its absent payload as one placeholder event *)
Example C11_example :
  (let bs := [128;1;0;0;0;12;0;0;1;123;0;32] in
   snd (decode Tables.T true RCommand bs) = OAccepted /\
   match decode_obj Tables.T true RCommand bs with
   | Some v => map Ev (obj_to_events Tables.T RCommand v) = map fst (fst (decode Tables.T true RCommand bs)) /\ List.length (obj_to_events Tables.T RCommand v) = 7%nat /\
               events_to_obj Tables.T RCommand (obj_to_events Tables.T RCommand v) = Some v
   | None => False
   end) /\
  match lookupS "TPM2B_PUBLIC" (types Tables.T) with
  | Some t => match decode_obj Tables.T true (RType t) [0;0] with
              | Some v => List.length (obj_to_events Tables.T (RType t) v) = 3%nat /\
                          events_to_obj Tables.T (RType t) (obj_to_events Tables.T (RType t) v) = Some v
              | None => False
              end
  | None => False
  end.
Proof. vm_compute. repeat split. Qed.

(** non-vacuity of (c): Startup command + its response + a second Startup command: three objects, the ones the
    decoder returns for the three messages *)
Example C11_stream_example :
  let c := [128;1;0;0;0;12;0;0;1;68;0;0] in let r := [128;1;0;0;0;10;0;0;0;0] in
  events_to_objs Tables.T (evs_of (map fst (fst (decode Tables.T true RStream (c ++ r ++ c))))) =
  [decode_obj Tables.T true RCommand c; decode_obj Tables.T true (RResponse (Some 324) false) r; decode_obj Tables.T true RCommand c] /\
  decode_obj Tables.T true RCommand c <> None /\ decode_obj Tables.T true (RResponse (Some 324) false) r <> None.
Proof. vm_compute. repeat split; discriminate. Qed.
