(** C11 - events and Python objects convert into each other without loss.
    events_to_obj / obj_to_events are NOT modelled; this property is decided on the implementation by the oracle
    (by-product == rebuilt object, both turn back into the decoded events incl. value classes, re-encoding gives
    the input) on generated well-formed encodings of every type, with the decoder's by-product object tied to
    the model by correspondence.  PROVED (field level only): the value stored in the by-product object of a
    primitive field is the value of the event emitted for it.
    Statement file: theorem statements, [exact], Print Assumptions only. *)
From Coq Require Import ZArith List String Bool.
From TV Require Import Layout.Types Base.Bytes Model.Monad Model.Ints Model.Decoder Proofs.OpLemmas.
Import ListNotations.
Open Scope Z_scope.

Theorem C11_field_object_matches_event_partial :
  forall p pa s tr s' r, dec_prim true p pa s = (tr, s', Ok r) ->
    exists bs, tr = map Rd bs ++ [Ev (mkEvent pa (TyN (pname p)) (Some (from_bytes (psigned p) bs)))] /\
               r = Some (VInt_ (pname p) (from_bytes (psigned p) bs)).
Proof.
  intros p pa s tr s' r H. destruct (dec_prim_strict p pa s tr s' (Ok r) H) as (bs & Ht & _ & _ & Hr).
  exists bs. split; assumption.
Qed.
Print Assumptions C11_field_object_matches_event_partial.
