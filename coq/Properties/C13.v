(** C13 - a constraint error accounts for every input byte.
    Statement file: theorem statements, [exact], Print Assumptions only. *)
From Coq Require Import ZArith List.
From TV Require Import Layout.Types Model.Monad Model.Message Model.Pump Proofs.Account Proofs.Tiling Proofs.WTiling Proofs.Balance.
Import ListNotations.

(** For every table set, mode, root type and input: if decoding raises a constraint-violation error with
    remainder [rem], then input = (bytes the decoder consumed, in order) ++ rem, and rem is the decoder's
    unread input.  Together with C02's tiling of the consumed bytes this is the byte balance of C13. *)
Theorem C13_remaining_is_unconsumed_suffix :
  forall T abort r input evs e rem,
    decode T abort r input = (evs, ORaised e rem) ->
    exists tr s', fst (fst (dec_root T abort r (init_st input))) = tr /\
                  input = bytes_of tr ++ rem /\ rem = inp s'.
Proof. exact raised_accounts_for_input. Qed.
Print Assumptions C13_remaining_is_unconsumed_suffix.

(** every run of every decoder function balances its bytes (strict and warn mode, any outcome) *)
Theorem C13_every_run_balances :
  forall T abort r s tr s' o, dec_root T abort r s = (tr, s', o) -> inp s = bytes_of tr ++ inp s'.
Proof. exact accounts_dec_root. Qed.
Print Assumptions C13_every_run_balances.

(** the balance block by block (strict mode, any root but a stream, every input): when a constraint error is raised,
    input = bytes of the complete blocks [pre] (structure events, primitives with exactly the bytes of their value)
    ++ the bytes consumed for the offending field [off] ++ the remainder reported with the error; the events shown
    are exactly those of the complete blocks - none for the offending field; for an overrun the consumed offending
    bytes are the rest of the violated region, exactly limit - counted bytes *)
Theorem C13_input_is_fields_then_offending_bytes_then_remainder :
  forall T r input evs e rem, is_stream_root r = false -> decode T true r input = (evs, ORaised e rem) ->
    exists pre off, wt pre /\ input = bytes_of pre ++ off ++ rem /\ map fst evs = filter not_rd pre /\
                    match e with EExceeded c _ _ => tail_of c off | _ => True end.
Proof. exact raised_input_is_fields_offending_remainder. Qed.
Print Assumptions C13_input_is_fields_then_offending_bytes_then_remainder.

(** the same for the decoder's run under every root (streams included) *)
Theorem C13_raised_run_is_fields_then_offending_bytes :
  forall T r bs tr s' e, dec_root T true r (init_st bs) = (tr, s', Fail e) ->
    exists pre off, tr = pre ++ map Rd off /\ wt pre /\ bs = bytes_of pre ++ off ++ inp s' /\
                    match e with EExceeded c _ _ => tail_of c off | _ => True end.
Proof. exact raised_run_is_fields_then_offending_bytes. Qed.
Print Assumptions C13_raised_run_is_fields_then_offending_bytes.
