(** C13 - a constraint error accounts for every input byte.
    Statement file: theorem statements, [exact], Print Assumptions only. *)
From Coq Require Import ZArith List.
From TV Require Import Layout.Types Model.Monad Model.Message Model.Pump Proofs.Account.
Import ListNotations.

(** For every table set, mode, root type and input: if decoding raises a constraint-violation error with
    remainder [rem], then input = (bytes the decoder consumed, in order) ++ rem, and rem is the decoder's
    unread input.  Together with C02's tiling of the consumed bytes this is the byte balance of C13. *)
Theorem C13_remaining_is_unconsumed_suffix :
  forall T abort r input evs e rem,
    decode T abort r input = (evs, ORaised e rem) ->
    exists tr s', fst (fst (dec_root T abort r (init_st input))) = tr /\
                  input = bytes_of tr ++ rem /\ rem = inp s'.
Proof. exact raised_accounts_for_input. Qed.
Print Assumptions C13_remaining_is_unconsumed_suffix.

(** every run of every decoder function balances its bytes (strict and warn mode, any outcome) *)
Theorem C13_every_run_balances :
  forall T abort r s tr s' o, dec_root T abort r s = (tr, s', o) -> inp s = bytes_of tr ++ inp s'.
Proof. exact accounts_dec_root. Qed.
Print Assumptions C13_every_run_balances.
