(** C02 - re-encoding the events of a decodable input reproduces the input bytes.
    Statement file: theorem statements, [exact], Print Assumptions only. *)
From Coq Require Import ZArith List Bool.
From TV Require Import Layout.Types Base.Bytes Model.Monad Model.Ints Model.Message Model.Pump Proofs.Account Proofs.Tiling Proofs.WTiling Proofs.StreamTiling.
Import ListNotations.
Open Scope Z_scope.

(** Every root other than a stream, strict and warn mode, every table set and every input: if decoding
    completes and the only problems reported (if any) are out-of-range values, then the processor's trace is
    tiled - each primitive event directly follows exactly its [width] bytes and carries their big-endian value,
    structural events and value warnings carry no bytes - the per-event chunks concatenate to the input, and
    the emitted events are exactly the events of that trace. *)
Theorem C02_accepted_input_is_tiled_by_its_events :
  forall T abort r input evs,
    is_stream_root r = false ->
    decode T abort r input = (evs, OAccepted) ->
    existsb is_size_warning (map fst evs) = false ->
    exists tr cs, fst (fst (dec_root T abort r (init_st input))) = tr /\
                  tiled tr cs /\ List.concat cs = input /\ map fst evs = filter not_rd tr.
Proof. exact accepted_is_tiled. Qed.
Print Assumptions C02_accepted_input_is_tiled_by_its_events.

(** the chunk of a primitive event is what re-encoding its value yields (Python: event.value.to_bytes()),
    for every width > 0, both signednesses, all byte strings *)
Theorem C02_chunk_is_reencoding :
  forall p bs, 0 < pwidth p -> List.length bs = Z.to_nat (pwidth p) -> Forall isbyte bs ->
               prim_bytes p (from_bytes (psigned p) bs) = Some bs.
Proof. exact chunk_reencodes. Qed.
Print Assumptions C02_chunk_is_reencoding.

(** any run (also of a stream, any outcome) that returns normally is tiled or has reported a size problem *)
Theorem C02_completed_runs_are_tiled :
  forall T abort r s tr s' a, dec_root T abort r s = (tr, s', Ok a) ->
                              (exists cs, tiled tr cs) \/ sizewarn tr.
Proof. exact tiles_dec_root. Qed.
Print Assumptions C02_completed_runs_are_tiled.

(** the stream root, both modes, every table set and every input: an accepted stream whose reported problems (if any)
    are out-of-range values is tiled by its events - the part of the processor's trace before the message root at
    which the pump ended the stream is tiled, its chunks concatenate to the whole input, and the emitted events are
    exactly the events of that part *)
Theorem C02_accepted_stream_is_tiled_by_its_events :
  forall T abort input evs,
    decode T abort RStream input = (evs, OAccepted) ->
    existsb is_size_warning (map fst evs) = false ->
    exists tr0 cs, tiled tr0 cs /\ List.concat cs = input /\ map fst evs = filter not_rd tr0 /\
                   exists e rest, fst (fst (dec_root T abort RStream (init_st input))) = tr0 ++ Ev e :: rest /\ is_root_event e = true.
Proof. exact accepted_stream_is_tiled. Qed.
Print Assumptions C02_accepted_stream_is_tiled_by_its_events.
