(** C06 - decoding arbitrary bytes terminates with a documented outcome.
    Termination: [decode] is a total Gallina function (structural recursion; the counted and the byte-sized loops
    and the stream loop are bounded iterations whose exhaustion is the distinguished outcome [OFuel], never a
    normal-looking value).  PROVED: it never pulls more than the input holds, and the pump itself adds no failure
    mode - an undocumented outcome can only come from one of the enumerated [internal] sites of the processor.
    NOT YET PROVED: that those sites are unreachable in strict mode for coherent tables; decided by the oracle
    (exception classes escaping from the implementation on random / mutated / mistyped inputs) and the model
    correspondence (outcome classes incl. crashes).
    Statement file: theorem statements, [exact], Print Assumptions only. *)
From Coq Require Import ZArith List String Bool.
From TV Require Import Layout.Types Model.Monad Model.Message Model.Pump Proofs.PumpProofs.
Import ListNotations.
Open Scope Z_scope.

Theorem C06_pulls_at_most_the_available_input :
  forall T abort r input evs o, decode T abort r input = (evs, o) ->
    forall a n, In (a, n) evs -> n <= Z.of_nat (List.length input).
Proof. exact pull_counts_bounded. Qed.
Print Assumptions C06_pulls_at_most_the_available_input.

Theorem C06_undocumented_outcome_only_from_an_internal_site_partial :
  forall T r input evs o, decode T true r input = (evs, o) ->
    match o with
    | OAccepted | ORaised _ _ | ODepleted _ | OSuperfluous _ _ => True
    | OCrash k => snd (dec_root T true r (init_st input)) = Internal k
    | OFuel => snd (dec_root T true r (init_st input)) = Fuel
    end.
Proof.
  intros T r input evs o. unfold decode, pump.
  destruct (dec_root T true r (init_st input)) as [[tr s'] p]. cbn [snd].
  destruct (pump_go _ _ tr _) as [ps stp]. destruct stp; [intros [= _ <-]; exact I|].
  destruct p as [v|e| |k|].
  - destruct (skipZ input (ps_nrd ps)); intros [= _ <-]; exact I.
  - intros [= _ <-]. exact I.
  - intros [= _ <-]. exact I.
  - intros [= _ <-]. reflexivity.
  - intros [= _ <-]. reflexivity.
Qed.
Print Assumptions C06_undocumented_outcome_only_from_an_internal_site_partial.
