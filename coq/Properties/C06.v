(** C06 - decoding arbitrary bytes terminates with a documented outcome.
    Termination: [decode] is a total Gallina function (structural recursion; the counted and the byte-sized loops
    and the stream loop are bounded iterations whose exhaustion is the distinguished outcome [OFuel], never a
    normal-looking value).
    PROVED IN FULL for the model, strict mode (Proofs/Safe1-4.v): for EVERY byte string and EVERY root - any non-union
    structure type passing [safe_ty], commands, responses to a known command code (either encryption flag), streams
    shorter than the model's loop bound of 2^64 bytes - on tables passing [msg_safe] (which the regenerated tables do
    by computation, as do all 231 decodable types and all 468 area types), decoding ends accepted, with a constraint
    error, depleted or superfluous: never with an internal error, never at a loop bound; and it never pulls more than
    the input holds.
    The checks: size fields unsigned and of non-negative width; a list directly follows its count; a union's selector
    is an earlier primitive field; no union is decoded without a selector; selectable union members are sized; member
    names distinct; session structures carry the attribute word and start with a field that takes at least a byte;
    the opaque-parameter type is a TPM2B of primitives; the four command-code maps have the same keys.
    The proof: (1) nothing ever removes the limit of a constraint object, so closing a region always finds one;
    (2) a COMPLETED strict run has charged every live listed region exactly the bytes it read and has closed the
    regions it opened exactly filled - hence the session loop makes progress and reaches its governing size, the
    by-product values have the declared shape (session attribute words are there), and at the end of a response no
    listed region is still live; (3) every message takes at least one byte, so the stream loop ends by running out
    of input, not of iterations.
    Warn mode is not part of this property; its counterpart is proved under C08 (C08_never_aborts_every_root).  The tie to /repo is the
    crash oracle (exception classes escaping from the implementation on random / mutated / mistyped inputs) and
    the model correspondence (outcome classes incl. crashes).
    Statement file: theorem statements, [exact], Print Assumptions only. *)
From Coq Require Import ZArith List String Bool.
From TV Require Import Layout.Types gen.Tables Base.Bytes Model.Monad Model.Message Model.Pump Proofs.PumpProofs Proofs.Sim11
  Proofs.Safe1 Proofs.Safe3 Proofs.Safe4.
Import ListNotations.
Open Scope Z_scope.

Theorem C06_pulls_at_most_the_available_input :
  forall T abort r input evs o, decode T abort r input = (evs, o) ->
    forall a n, In (a, n) evs -> n <= Z.of_nat (List.length input).
Proof. exact pull_counts_bounded. Qed.
Print Assumptions C06_pulls_at_most_the_available_input.

Theorem C06_undocumented_outcome_only_from_an_internal_site_partial :
  forall T r input evs o, decode T true r input = (evs, o) ->
    match o with
    | OAccepted | ORaised _ _ | ODepleted _ | OSuperfluous _ _ => True
    | OCrash k => snd (dec_root T true r (init_st input)) = Internal k
    | OFuel => snd (dec_root T true r (init_st input)) = Fuel
    end.
Proof.
  intros T r input evs o. unfold decode, pump.
  destruct (dec_root T true r (init_st input)) as [[tr s'] p]. cbn [snd].
  destruct (pump_go _ _ tr _) as [ps stp]. destruct stp; [intros [= _ <-]; exact I|].
  destruct p as [v|e| |k|].
  - destruct (skipZ input (ps_nrd ps)); intros [= _ <-]; exact I.
  - intros [= _ <-]. exact I.
  - intros [= _ <-]. exact I.
  - intros [= _ <-]. reflexivity.
  - intros [= _ <-]. reflexivity.
Qed.
Print Assumptions C06_undocumented_outcome_only_from_an_internal_site_partial.

(** every non-union structure type passing the check, every byte string: a documented outcome *)
Theorem C06_structure_types_never_crash :
  forall T t bs, safe_ty t = true -> nonunion t = true -> Forall isbyte bs -> documented (snd (decode T true (RType t) bs)).
Proof. exact types_never_crash. Qed.
Print Assumptions C06_structure_types_never_crash.

(** the regenerated tables pass the check: all decodable types and all handle / parameter area types *)
Theorem C06_tables_safe : safe_types Tables.T = true.
Proof. vm_compute. reflexivity. Qed.
Print Assumptions C06_tables_safe.

Theorem C06_every_decodable_type_of_the_tables :
  forall n t bs, In (n, t) (types Tables.T) -> nonunion t = true -> Forall isbyte bs ->
    documented (snd (decode Tables.T true (RType t) bs)).
Proof.
  intros n t bs Hin Hn Hb. apply types_never_crash; [|exact Hn|exact Hb].
  pose proof C06_tables_safe as H. unfold safe_types in H. apply andb_prop in H as [H _].
  rewrite forallb_forall in H. specialize (H (n, t) Hin). cbn [snd] in H.
  unfold nonunion in Hn. destruct (is_union t); [discriminate|exact H].
Qed.
Print Assumptions C06_every_decodable_type_of_the_tables.

(** EVERY root: any byte string, strict mode - a documented outcome *)
Theorem C06_every_root_documented :
  forall T r bs, msg_safe T = true -> root_safe T r -> Forall isbyte bs -> within_bound r bs ->
    documented (snd (decode T true r bs)).
Proof. intros T r bs H. exact (any_root_documented T H r bs). Qed.
Print Assumptions C06_every_root_documented.

(** the regenerated tables pass the message-level check *)
Theorem C06_tables_msg_safe : msg_safe Tables.T = true.
Proof. vm_compute. reflexivity. Qed.
Print Assumptions C06_tables_msg_safe.

(** commands, and streams below the loop bound, at the regenerated tables: no hypothesis left but byte-ness *)
Theorem C06_commands_and_streams :
  forall bs, Forall isbyte bs ->
    documented (snd (decode Tables.T true RCommand bs)) /\
    (Z.of_nat (List.length bs) < Z.pos stream_bound -> documented (snd (decode Tables.T true RStream bs))).
Proof.
  intros bs Hb. split.
  - apply (any_root_documented Tables.T C06_tables_msg_safe RCommand bs Logic.I Hb). intros H. discriminate H.
  - intros Hl. apply (any_root_documented Tables.T C06_tables_msg_safe RStream bs Logic.I Hb). intros _. exact Hl.
Qed.
Print Assumptions C06_commands_and_streams.

(** responses to every command code of the tables *)
Theorem C06_responses :
  forall cc enc bs, lookupZ cc (rsp_handles Tables.T) <> None -> Forall isbyte bs ->
    documented (snd (decode Tables.T true (RResponse (Some cc) enc) bs)).
Proof.
  intros cc enc bs Hc Hb. apply (any_root_documented Tables.T C06_tables_msg_safe (RResponse (Some cc) enc) bs Hc Hb). intros H. discriminate H.
Qed.
Print Assumptions C06_responses.
