(** C01 - well-formed encodings decode to exactly the field-by-field event sequence.
    The specification of "the interpretation the TPM 2.0 layout tables dictate" is Spec/Value.v + Spec/Message.v
    ([spec_events]); it is evaluated at the PINNED tables, and C20_pinned bridges to the regenerated ones.
    PROVED so far: the statement for the primitive root types (all of them, all widths, all inputs).
    NOT YET PROVED: the same statement for structures, TPM2B, unions, commands, responses, streams - for these
    the property is decided by the oracle (implementation vs extracted [spec_events] on generated well-formed
    encodings of every type / command code / union arm) and the model correspondence; see DESIGN.md.
    Statement file: theorem statements, [exact], Print Assumptions only. *)
From Coq Require Import ZArith List String Bool.
From TV Require Import Layout.Types gen.Tables gen.Pinned Base.Bytes Model.Monad Model.Ints Model.Message Model.Pump
  Spec.Value Spec.Message Proofs.OpLemmas.
Import ListNotations.
Open Scope Z_scope.

(** partial: primitive roots *)
Theorem C01_primitive_types_partial :
  forall T p bs, 0 < pwidth p -> List.length bs = Z.to_nat (pwidth p) -> valid p (from_bytes (psigned p) bs) = true ->
    exists evs, decode T true (RType (TPrim p)) bs = (evs, OAccepted) /\ spec_events T (RType (TPrim p)) bs = Some evs.
Proof. exact prim_root_decodes_as_specified. Qed.
Print Assumptions C01_primitive_types_partial.

(** the full statement (kept visible; proved only in the instance above):
    forall r bs evs, spec_events Pinned.T r bs = Some evs -> decode Tables.T true r bs = (evs, OAccepted) *)
Definition C01_full_statement : Prop :=
  forall r bs evs, spec_events Pinned.T r bs = Some evs -> decode Tables.T true r bs = (evs, OAccepted).

(** non-vacuity and a concrete instance of the full statement: a TPM2_Startup command *)
Example C01_example_startup :
  let bs := [128;1;0;0;0;12;0;0;1;68;0;0] in
  exists evs, spec_events Pinned.T RCommand bs = Some evs /\ decode Tables.T true RCommand bs = (evs, OAccepted).
Proof. eexists. split; vm_compute; reflexivity. Qed.
