(** C01 - well-formed encodings decode to exactly the field-by-field event sequence.
    The specification of "the interpretation the TPM 2.0 layout tables dictate" is Spec/Value.v + Spec/Message.v
    ([spec_events]); it is evaluated at the PINNED tables, and C20_pinned bridges to the regenerated ones.
    PROVED, for all inputs: the statement for EVERY structure type (primitives, structures, TPM2B (list and
    structured, empty payloads), unions, counted lists, parameter areas with an opaque first parameter; all tables),
    for COMMANDS (handle and parameter areas picked by the command code, session area iff the tag says so -
    size-governed list of sessions, present-but-empty included -, opaque first parameter iff a session asks for
    decryption) and for RESPONSES given the command code and the encryption flag (header-only decoding of failed
    responses, parameterSize region and sessions up to the end iff the tag says so, flag consistent with the
    sessions) - by a simulation between the constraint-tracking coroutine decoder and the specification's plain
    reading (Proofs/Sim1-10.v).  The message-level theorems hold for all tables satisfying [msg_tables_ok] (session
    structures carry the attribute word as a plain field; no response handle area is a parameter structure), which
    the regenerated tables satisfy by computation.
    STREAMS (Proofs/Sim11.v): a sequence command, response, command, ... (possibly ending after a command) decodes
    to the events of all its messages and the decoder stops silently at the next message root - for inputs shorter
    than the model's loop bound of 2^64 bytes ([within_bound]; the implementation's loop is unbounded).
    So the FULL statement is proved: [C01_every_root], and [C01_full_statement_holds] for the pinned/regenerated
    tables.  The oracle (implementation vs extracted [spec_events]) and the correspondence tie it to /repo.
    Statement file: theorem statements, [exact], Print Assumptions only. *)
From Coq Require Import ZArith List String Bool.
From TV Require Import Layout.Types gen.Tables gen.Pinned Base.Bytes Model.Monad Model.Ints Model.Message Model.Pump
  Spec.Value Spec.Message Proofs.OpLemmas Proofs.Sim5 Proofs.Sim10 Proofs.Sim11 Properties.C20.
Import ListNotations.
Open Scope Z_scope.

(** every structure type (any type descriptor [t], any tables [T]): if the specification reads the whole input as
    a value of [t] whose leaves are all in range, strict decoding emits exactly the specified events - path,
    declared type, value, in wire order, each with at most one byte of look-ahead - and accepts *)
Theorem C01_structure_types :
  forall T t bs evs, spec_events T (RType t) bs = Some evs -> decode T true (RType t) bs = (evs, OAccepted).
Proof. exact types_decode_as_specified. Qed.
Print Assumptions C01_structure_types.

(** the same with the specification at the PINNED layout and the decoder at the tables regenerated from /repo *)
Theorem C01_structure_types_pinned :
  forall t bs evs, spec_events Pinned.T (RType t) bs = Some evs -> decode Tables.T true (RType t) bs = (evs, OAccepted).
Proof. rewrite C20_pinned. exact (types_decode_as_specified Pinned.T). Qed.
Print Assumptions C01_structure_types_pinned.

(** every root but a stream - structure types, commands, responses (with command code and encryption flag) - for
    all tables passing [msg_tables_ok], all inputs *)
Theorem C01_types_commands_responses :
  forall T r bs evs, msg_tables_ok T = true -> is_stream_root r = false ->
    spec_events T r bs = Some evs -> decode T true r bs = (evs, OAccepted).
Proof. exact root_decodes_as_specified. Qed.
Print Assumptions C01_types_commands_responses.

(** the regenerated tables pass the check *)
Theorem C01_tables_ok : msg_tables_ok Tables.T = true.
Proof. vm_compute. reflexivity. Qed.
Print Assumptions C01_tables_ok.

(** specification at the PINNED layout, decoder at the tables regenerated from /repo *)
Theorem C01_types_commands_responses_pinned :
  forall r bs evs, is_stream_root r = false ->
    spec_events Pinned.T r bs = Some evs -> decode Tables.T true r bs = (evs, OAccepted).
Proof. intros r bs evs. rewrite C20_pinned. apply root_decodes_as_specified. rewrite <- C20_pinned. exact C01_tables_ok. Qed.
Print Assumptions C01_types_commands_responses_pinned.

(** EVERY root - structure types, commands, responses, streams (below the loop bound of the model) *)
Theorem C01_every_root :
  forall T r bs evs, msg_tables_ok T = true -> within_bound r bs ->
    spec_events T r bs = Some evs -> decode T true r bs = (evs, OAccepted).
Proof. exact any_root_decodes_as_specified. Qed.
Print Assumptions C01_every_root.

(** (earlier, now subsumed) primitive roots *)
Theorem C01_primitive_types_partial :
  forall T p bs, 0 < pwidth p -> List.length bs = Z.to_nat (pwidth p) -> valid p (from_bytes (psigned p) bs) = true ->
    exists evs, decode T true (RType (TPrim p)) bs = (evs, OAccepted) /\ spec_events T (RType (TPrim p)) bs = Some evs.
Proof. exact prim_root_decodes_as_specified. Qed.
Print Assumptions C01_primitive_types_partial.

(** the full statement, specification at the PINNED layout, decoder at the tables regenerated from /repo *)
Definition C01_full_statement : Prop :=
  forall r bs evs, within_bound r bs -> spec_events Pinned.T r bs = Some evs -> decode Tables.T true r bs = (evs, OAccepted).

Theorem C01_full_statement_holds : C01_full_statement.
Proof. intros r bs evs Hb. rewrite C20_pinned. apply any_root_decodes_as_specified; [rewrite <- C20_pinned; exact C01_tables_ok|exact Hb]. Qed.
Print Assumptions C01_full_statement_holds.

(** non-vacuity and a concrete instance of the full statement: a TPM2_Startup command *)
Example C01_example_startup :
  let bs := [128;1;0;0;0;12;0;0;1;68;0;0] in
  exists evs, spec_events Pinned.T RCommand bs = Some evs /\ decode Tables.T true RCommand bs = (evs, OAccepted).
Proof. eexists. split; vm_compute; reflexivity. Qed.
