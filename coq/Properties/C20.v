(** C20 - the layout tables are coherent and match the pinned TPM 2.0 layout.
    [Tables.T] is regenerated from /repo on every run by gen/translate.py; [Pinned.T] is the committed
    snapshot.  Statement file: theorem statements, proofs by computation, Print Assumptions only. *)
From Coq Require Import ZArith List String Bool.
From TV Require Import Layout.Types gen.Tables gen.Pinned Proofs.Coherent Proofs.EqDec.
Import ListNotations.

(** the wire layout of every type - field order, names, widths, signedness, allowed values, member names,
    selector mapping, command-code numbers, the four command maps, masks, response-code names - equals the
    pinned snapshot (finite, complete) *)
Theorem C20_pinned : Tables.T = Pinned.T.
Proof. apply tables_eqb_sound. vm_compute. reflexivity. Qed.
Print Assumptions C20_pinned.

Theorem C20_pinned_prims : Tables.all_prims = Pinned.all_prims.
Proof. apply prims_eqb_sound. vm_compute. reflexivity. Qed.
Print Assumptions C20_pinned_prims.

(** coherence of the regenerated tables: one handle and one parameter layout per command code in each of
    the four maps, named after it; handle areas = at most three 4-byte handles; every counted list directly
    follows its unsigned count; every union field has an earlier selector whose every valid value selects a
    member; every reachable list-valued union member has its fixed length (all types, all fields) *)
Theorem C20_coherent : coherent Tables.T = true.
Proof. vm_compute. reflexivity. Qed.
Print Assumptions C20_coherent.

(** the meaning of the boolean checks, in the property's words *)
Theorem C20_one_layout_per_command_code :
  forall pre ccs m, one_layout_per_code pre ccs m = true ->
    forall n v, In (n, v) ccs ->
      exists t, filter (fun kt => Z.eqb (fst kt) v) m = [(v, t)] /\ named_after pre n (ty_name t) = true.
Proof. exact one_layout_sound. Qed.
Theorem C20_handle_areas :
  forall t, handle_area_ok t = true ->
    exists n ip fs, t = TStruct n ip fs /\ exists k, handle_fields fs = Some k /\ (k <= 3)%nat.
Proof. exact handle_area_sound. Qed.
Theorem C20_lists_follow_unsigned_count :
  forall n e r prev, fields_ok (FList n e r) prev = true ->
    exists cn p rest, prev = (cn, Some p) :: rest /\ psigned p = false.
Proof. exact fields_ok_list. Qed.
Theorem C20_union_selectors_select :
  forall n sel u r prev, fields_ok (FUnion n sel u r) prev = true ->
    exists p un ar, lookupS sel prev = Some (Some p) /\ u = TUnion un ar /\
      (forall it, In it (pvalid p) -> vitem_selects ar it = true) /\ reachable_arms_sized ar = true.
Proof. exact fields_ok_union. Qed.
Print Assumptions C20_union_selectors_select.
