(** C19 - the command line is a faithful front-end to the decoder.
    Only the decision logic of [convert] is a theorem; argparse, file handling, stdout and the exit status are
    outside any model and are decided by differential runs (python -m tpmstream ... against in-process library
    calls).  Level claimed in MANIFEST.json: other.
    Statement file: theorem statements, [exact], Print Assumptions only. *)
From Coq Require Import ZArith List String Bool.
From TV Require Import Model.Cli.
Import ListNotations.
Open Scope string_scope.

(** an invocation is refused (non-zero status and a suggestion, nothing decoded) exactly when the type name is
    unknown, or the type is Response and the command is missing or unknown; otherwise the library is called
    with exactly the type / command code / input format given (or, for a custom type with --in auto, not at all) *)
Theorem C19_convert_refuses_exactly :
  forall types ccs t c f,
    (exists w, cli_decide types ccs t c f = Refused w) <->
    (exists tn, t = Some tn /\
       (existsb (String.eqb tn) types = false \/
        (tn = "Response" /\ (c = None \/ c = Some "" \/ exists cn, c = Some cn /\ lookup_cc cn ccs = None)))).
Proof. exact cli_refuses_exactly. Qed.
Print Assumptions C19_convert_refuses_exactly.
