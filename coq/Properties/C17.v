(** C17 - attribute words decompose into fields that partition their bits.
    Statement file: theorem statements, [exact]/computation, Print Assumptions only. *)
From Coq Require Import ZArith List String Bool.
From TV Require Import Layout.Types gen.Tables Model.Attr Proofs.AttrProofs.
Import ListNotations.
Open Scope Z_scope.

(** every attribute type of the regenerated tables: masks positive, pairwise disjoint, covering the word *)
Theorem C17_every_attribute_type_partitions :
  forallb (fun p => match pkind_ p with
                    | KBits ms => attr_ok (8 * pwidth p) (map snd ms)
                    | _ => true
                    end) Tables.all_prims = true.
Proof. vm_compute. reflexivity. Qed.
Print Assumptions C17_every_attribute_type_partitions.

(** there are attribute types, so the statement above is not vacuous *)
Theorem C17_twelve_attribute_types :
  List.length (filter (fun p => match pkind_ p with KBits _ => true | _ => false end) Tables.all_prims) = 12%nat.
Proof. vm_compute. reflexivity. Qed.

(** generic, all word sizes, all words: with such masks every bit position belongs to exactly one field ... *)
Theorem C17_partition : forall n ms i, attr_ok n ms = true -> 0 <= i < n ->
  List.length (filter (fun m => Z.testbit m i) ms) = 1%nat.
Proof. exact attr_partition. Qed.
(** ... no field reaches outside the word ... *)
Theorem C17_inside : forall n ms m i, attr_ok n ms = true -> 0 <= n -> In m ms -> n <= i -> Z.testbit m i = false.
Proof. exact attr_inside. Qed.
(** ... and every value is the union of its fields' bits *)
Theorem C17_decompose : forall n ms v, attr_ok n ms = true -> 0 <= n -> 0 <= v < 2 ^ n ->
  fold_right Z.lor 0 (map (Z.land v) ms) = v.
Proof. exact attr_decompose. Qed.
Print Assumptions C17_decompose.

(** the field accessor returns the field's bits right-aligned (k = position of the mask's lowest set bit),
    and such a k exists for every non-zero mask of the word, i.e. the accessor loop terminates *)
Theorem C17_accessor : forall nbits mask v k,
  0 <= k -> (Z.to_nat k <= nbits)%nat ->
  (forall j, 0 <= j < k -> Z.testbit mask j = false) -> Z.testbit mask k = true ->
  accessor nbits mask v = Some (Z.shiftr (Z.land v mask) k).
Proof. exact accessor_spec. Qed.
Theorem C17_accessor_terminates : forall mask n, 0 < mask < 2 ^ n -> 0 <= n ->
  exists k, 0 <= k < n /\ (forall j, 0 <= j < k -> Z.testbit mask j = false) /\ Z.testbit mask k = true.
Proof. exact lowest_bit. Qed.
Print Assumptions C17_accessor.

(** a printed bit row shows, at position j from the left, the value's bit where the field has a bit and a dot
    elsewhere; with C17_partition: overlaying the rows shows every bit of the value exactly once *)
Theorem C17_row : forall n mask v j, (j < n)%nat ->
  nth j (bit_row n mask v) None =
  if Z.testbit mask (Z.of_nat (n - 1 - j)) then Some (Z.testbit v (Z.of_nat (n - 1 - j))) else None.
Proof. exact bit_row_spec. Qed.
Print Assumptions C17_row.
