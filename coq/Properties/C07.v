(** C07 - warn mode and strict mode agree up to the first problem.
    Statement file: theorem statements, [exact], Print Assumptions only. *)
From Coq Require Import ZArith List String Bool.
From TV Require Import Layout.Types Model.Monad Model.Message Model.Pump Proofs.Agree.
Import ListNotations.

(** every decoder function, all tables, all states (hence all inputs): a strict run that ends without raising is
    reproduced exactly by warn mode; a strict run that raises [e] after trace [tr] corresponds to a warn run that
    either raises [e] after the same trace (errors warn mode raises too) or continues [tr] with - only for an
    out-of-range value - the offending event, then the warning wrapping the same [e] (same class, same details) *)
Theorem C07_processors_agree_up_to_first_problem :
  forall T r s,
    match dec_root T true r s with
    | (tr, s', Fail e) =>
        (exists pre rest s'' o'', dec_root T false r s = (tr ++ pre ++ Wn e :: rest, s'', o'') /\ offending e pre)
        \/ dec_root T false r s = (tr, s', Fail e)
    | res => dec_root T false r s = res
    end.
Proof. exact agree_dec_root. Qed.
Print Assumptions C07_processors_agree_up_to_first_problem.

(** through the byte pump, for every root, every input: if strict mode accepts, warn mode emits the identical
    events (and pull counts) and no warning *)
Theorem C07_strict_accepts_then_warn_identical :
  forall T r input evs, decode T true r input = (evs, OAccepted) -> decode T false r input = (evs, OAccepted).
Proof. exact strict_accepts_warn_identical. Qed.
Print Assumptions C07_strict_accepts_then_warn_identical.

(** if strict mode raises [e]: warn mode emits the same events, then the offending event when [e] is a value
    error, then the warning wrapping [e] - or (unknown layout) raises [e] itself after the same events *)
Theorem C07_strict_raises_then_warn_warns_the_same :
  forall T r input evs e rem, decode T true r input = (evs, ORaised e rem) ->
    (exists evs_w, decode T false r input = (evs_w, ORaised e rem) /\ map fst evs_w = map fst evs) \/
    (exists evs_w o_w pre rest, decode T false r input = (evs_w, o_w) /\ offending e pre /\
                                map fst evs_w = map fst evs ++ pre ++ Wn e :: rest).
Proof. exact strict_raises_warn_warns. Qed.
Print Assumptions C07_strict_raises_then_warn_warns_the_same.

(** if warn mode completes without any warning, strict mode accepts *)
Theorem C07_warn_clean_then_strict_accepts :
  forall T r input evs_w, decode T false r input = (evs_w, OAccepted) ->
    existsb is_warning (map fst evs_w) = false -> exists evs, decode T true r input = (evs, OAccepted).
Proof. exact warn_clean_strict_accepts. Qed.
Print Assumptions C07_warn_clean_then_strict_accepts.
