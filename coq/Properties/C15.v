(** C15 - hex, swtpm-log, pcapng and auto inputs decode like the bytes they carry.
    The front-ends hand the bytes they extract to the same decoder ([Binary.marshal]); what is proved here
    is which bytes they extract.  dpkt's pcapng/IP/Ethernet parsing is outside the model (correspondence only).
    Statement file: theorem statements, [exact], Print Assumptions only. *)
From Coq Require Import ZArith List String Bool.
From TV Require Import Model.Frontends Proofs.HexProofs Proofs.SwtpmProofs.
Import ListNotations.
Open Scope Z_scope.

(** hex text, all byte strings of any length: accepted with bytes [bs] exactly when it is a sequence of hex pairs
    (either letter case) spelling [bs], with whitespace anywhere between and inside pairs; anything else is
    rejected (ValueError) - in particular signs, prefixes and odd digit counts *)
Theorem C15_hex_accepts_iff_spells : forall s bs, parse_hex s = mkParsed bs true <-> spells s bs.
Proof. exact hex_accepts_iff_spells. Qed.
Print Assumptions C15_hex_accepts_iff_spells.

(** swtpm log in the documented layout - free text (without the letter S) before the first section, then
    SWTPM_IO sections (marker, rest of the line, upper-case hex pairs separated by blanks and line ends), each
    optionally followed by control-channel text - of any length: exactly the SWTPM_IO payloads are delivered *)
Theorem C15_swtpm_documented_layout : forall pre xs,
  no_S pre -> Forall section_ok xs ->
  parse_swtpm (pre ++ log_text xs) = mkParsed (flat_map s_bytes xs) true.
Proof. exact swtpm_documented_layout. Qed.
Print Assumptions C15_swtpm_documented_layout.

(** non-vacuity: the log of the source file's own comment *)
Example C15_swtpm_example :
  parse_swtpm [67;116;114;108;32;67;109;100;58;10;48;48;32;49;48;10;
               83;87;84;80;77;95;73;79;95;82;101;97;100;58;32;108;10;56;48;32;48;49;10;
               67;116;114;108;10;48;48;10;
               83;87;84;80;77;95;73;79;95;87;114;105;116;101;10;48;65;32;70;70;13;10]
  = mkParsed [128; 1; 10; 255] true.
Proof. vm_compute. reflexivity. Qed.
Example C15_hex_example : parse_hex [32;56;10;48;32;48;65;9;102;70] = mkParsed [128; 10; 255] true.
Proof. vm_compute. reflexivity. Qed.
Example C15_hex_rejects_sign : p_ok (parse_hex [43;102]) = false.
Proof. vm_compute. reflexivity. Qed.
