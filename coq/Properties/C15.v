(** C15 - hex, swtpm-log, pcapng and auto inputs decode like the bytes they carry.
    The front-ends hand the bytes they extract to the same decoder ([Binary.marshal]); what is proved here
    is which bytes they extract, and which front-end auto-detection picks.  dpkt's pcapng/IP/Ethernet parsing is
    outside the model (correspondence only); what the pcapng front-end does with the TCP payloads dpkt delivers
    (runts skipped, every packet trimmed to its own size field) is modelled and proved.
    Statement file: theorem statements, [exact], Print Assumptions only. *)
From Coq Require Import ZArith List String Bool Lia.
From TV Require Import Model.Frontends Proofs.HexProofs Proofs.SwtpmProofs Proofs.AutoProofs.
Import ListNotations.
Open Scope Z_scope.

(** hex text, all byte strings of any length: accepted with bytes [bs] exactly when it is a sequence of hex pairs
    (either letter case) spelling [bs], with whitespace anywhere between and inside pairs; anything else is
    rejected (ValueError) - in particular signs, prefixes and odd digit counts *)
Theorem C15_hex_accepts_iff_spells : forall s bs, parse_hex s = mkParsed bs true <-> spells s bs.
Proof. exact hex_accepts_iff_spells. Qed.
Print Assumptions C15_hex_accepts_iff_spells.

(** swtpm log in the documented layout - free text (without the letter S) before the first section, then
    SWTPM_IO sections (marker, rest of the line, upper-case hex pairs separated by blanks and line ends), each
    optionally followed by control-channel text - of any length: exactly the SWTPM_IO payloads are delivered *)
Theorem C15_swtpm_documented_layout : forall pre xs,
  no_S pre -> Forall section_ok xs ->
  parse_swtpm (pre ++ log_text xs) = mkParsed (flat_map s_bytes xs) true.
Proof. exact swtpm_documented_layout. Qed.
Print Assumptions C15_swtpm_documented_layout.

(** non-vacuity: the log of the source file's own comment *)
Example C15_swtpm_example :
  parse_swtpm [67;116;114;108;32;67;109;100;58;10;48;48;32;49;48;10;
               83;87;84;80;77;95;73;79;95;82;101;97;100;58;32;108;10;56;48;32;48;49;10;
               67;116;114;108;10;48;48;10;
               83;87;84;80;77;95;73;79;95;87;114;105;116;101;10;48;65;32;70;70;13;10]
  = mkParsed [128; 1; 10; 255] true.
Proof. vm_compute. reflexivity. Qed.
Example C15_hex_example : parse_hex [32;56;10;48;32;48;65;9;102;70] = mkParsed [128; 10; 255] true.
Proof. vm_compute. reflexivity. Qed.
Example C15_hex_rejects_sign : p_ok (parse_hex [43;102]) = false.
Proof. vm_compute. reflexivity. Qed.

(** auto-detection: a hex text (spelling at least one byte, any layout of whitespace incl. leading and inside the first
    pair) is taken for hex - unless it starts with LF CR, which is the two-byte pcapng magic *)
Theorem C15_auto_picks_hex : forall s bs, spells s bs -> bs <> [] -> (forall r, s <> 10 :: 13 :: r) -> detect s = FHex.
Proof. exact auto_picks_hex. Qed.
Print Assumptions C15_auto_picks_hex.

(** ... an input is taken for a capture exactly when it starts with that magic ... *)
Theorem C15_auto_picks_pcapng_iff_magic : forall s, detect s = FPcapng <-> exists r, s = 10 :: 13 :: r.
Proof. intros s. split; [apply auto_pcapng_only_for_magic|intros (r & ->); apply auto_picks_pcapng]. Qed.
Print Assumptions C15_auto_picks_pcapng_iff_magic.

(** ... and anything (of two bytes or more) whose first byte is neither blank nor a hex digit - every TPM message: the
    structure tags start with 0x80 or 0x00 - for binary *)
Theorem C15_auto_picks_binary : forall a b r, is_ws a = false -> hexval a = None -> detect (a :: b :: r) = FBinary.
Proof. exact auto_picks_binary. Qed.
Print Assumptions C15_auto_picks_binary.

(** pcapng: of a capture made of packets that carry a whole message (its size field = its length) followed by any
    trailer (the mssim acknowledgement), interleaved with runts, exactly the messages are delivered, in order *)
Theorem C15_capture_delivers_its_messages : forall ps bs, capture ps bs -> pcap_bytes ps = bs.
Proof. exact capture_delivers_its_messages. Qed.
Print Assumptions C15_capture_delivers_its_messages.

Example C15_capture_example :
  capture [[1;2;3]; [128;1;0;0;0;10;0;0;0;0] ++ [0;0;0;0]; []; [128;1;0;0;0;12;0;0;1;68;0;0] ++ []]
          ([128;1;0;0;0;10;0;0;0;0] ++ [128;1;0;0;0;12;0;0;1;68;0;0] ++ []).
Proof.
  apply cap_runt; [cbn; lia|]. apply cap_msg; [split; [cbn; lia|reflexivity]|]. apply cap_runt; [cbn; lia|].
  apply cap_msg; [split; [cbn; lia|reflexivity]|]. apply cap_nil.
Qed.

(** ... and packets that are cut short (a header at least, the size field announcing at least the bytes present) are
    delivered whole, so that a capture ending inside a message decodes like the bytes it carries (depleted, not a
    clean end) *)
Theorem C15_capture_with_cut_packets_delivers_every_carried_byte :
  forall ps bs, capture_cut ps bs -> pcap_bytes ps = bs.
Proof. exact capture_with_cut_packets_delivers_every_carried_byte. Qed.
Print Assumptions C15_capture_with_cut_packets_delivers_every_carried_byte.

Example C15_cut_capture_example :
  capture_cut [[128;1;0;0;0;12;0;0;1;123;0;4]; [128;1;0;0;0;16;0;0;0;0;0]]
              ([128;1;0;0;0;12;0;0;1;123;0;4] ++ [128;1;0;0;0;16;0;0;0;0;0] ++ []).
Proof.
  apply (cc_msg [128;1;0;0;0;12;0;0;1;123;0;4] []); [split; [cbn; lia|reflexivity]|].
  apply cc_cut; [split; [cbn; lia|cbn; lia]|]. apply cc_nil.
Qed.
