(** C05 - input length mismatches are reported as depleted / superfluous, never absorbed.
    Proved here: what the two errors mean in terms of the decoder's run, for all inputs.  That the events
    emitted before a depleted error are those of every complete field of a well-formed message follows from
    C10_prefix_stable together with C01 (C01 is proved for primitive roots only so far; the general case is
    decided by the correspondence + oracle run on every cut point).
    Statement file: theorem statements, [exact], Print Assumptions only. *)
From Coq Require Import ZArith List String Bool.
From TV Require Import Layout.Types Model.Monad Model.Message Model.Pump Proofs.LowClosure Proofs.Account Proofs.PumpProofs.
Import ListNotations.
Open Scope Z_scope.

(** depleted: the decoder is suspended asking for a byte, it has received the whole input, nothing is left *)
Theorem C05_depleted :
  forall T r input evs cc, decode T true r input = (evs, ODepleted cc) ->
    exists tr s', dec_root T true r (init_st input) = (tr, s', More) /\ inp s' = [] /\ input = bytes_of tr.
Proof. exact strict_depleted. Qed.
Print Assumptions C05_depleted.

(** superfluous: the decoder completed; the error carries exactly the non-empty rest it had not received *)
Theorem C05_superfluous :
  forall T r input evs rest cc, decode T true r input = (evs, OSuperfluous rest cc) ->
    exists tr s' v, dec_root T true r (init_st input) = (tr, s', Ok v) /\ rest = inp s' /\ rest <> [] /\
                    input = bytes_of tr ++ rest.
Proof. exact strict_superfluous. Qed.
Print Assumptions C05_superfluous.

(** a decoder suspended for lack of input has, in every mode and state, used its input up *)
Theorem C05_suspended_means_input_used_up :
  forall T abort r s tr s', dec_root T abort r s = (tr, s', More) -> inp s' = [].
Proof. exact (fun T abort r => L_dec_root _ more_empty_lclosed T abort r). Qed.
Print Assumptions C05_suspended_means_input_used_up.
