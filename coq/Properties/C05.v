(** C05 - input length mismatches are reported as depleted / superfluous, never absorbed.
    PROVED: (composition, every root but the stream, all tables passing the message checks - the regenerated ones do -,
    every well-formed message w) w cut anywhere before its end decodes to the events of exactly the fields complete
    within the cut, then InputStreamBytesDepletedError carrying the command code if its field was among them
    (None otherwise; for the empty input these are the structure events that need no byte);
    w followed by any non-empty bytes decodes to all events of w, then InputStreamSuperfluousBytesError carrying
    exactly those bytes and the command code ([Proofs/Asks.v]: a decoder that stopped for lack of input continues,
    given more, with reading exactly the next byte - so the run on the cut is THE maximal part of the whole run that
    needs no further byte; [Proofs/Cut.v]).  (mechanism, all inputs well-formed or not) what the two errors mean in
    terms of the decoder's run.
    The stream root: a stream of whole messages ends cleanly (C09/C01), and cut at any byte offset at which no message
    starts it is depleted after the events of the complete fields - a stream ends cleanly ONLY at a message boundary.
    NOT PROVED: cuts and surplus of inputs that are not well-formed (the mechanism theorems apply; the events are then
    whatever C10's prefix stability gives); decided by the oracle on every cut point + correspondence.
    Statement file: theorem statements, [exact], Print Assumptions only. *)
From Coq Require Import ZArith List String Bool.
From TV Require Import Layout.Types gen.Tables Model.Monad Model.Message Model.Pump Spec.Value Spec.Message Proofs.LowClosure Proofs.Account Proofs.PumpProofs
  Proofs.Incremental Proofs.Sim4 Proofs.Sim5 Proofs.Sim10 Proofs.Sim11 Proofs.Asks Proofs.Cut.
Import ListNotations.
Open Scope Z_scope.

(** depleted: the decoder is suspended asking for a byte, it has received the whole input, nothing is left *)
Theorem C05_depleted :
  forall T r input evs cc, decode T true r input = (evs, ODepleted cc) ->
    exists tr s', dec_root T true r (init_st input) = (tr, s', More) /\ inp s' = [] /\ input = bytes_of tr.
Proof. exact strict_depleted. Qed.
Print Assumptions C05_depleted.

(** superfluous: the decoder completed; the error carries exactly the non-empty rest it had not received *)
Theorem C05_superfluous :
  forall T r input evs rest cc, decode T true r input = (evs, OSuperfluous rest cc) ->
    exists tr s' v, dec_root T true r (init_st input) = (tr, s', Ok v) /\ rest = inp s' /\ rest <> [] /\
                    input = bytes_of tr ++ rest.
Proof. exact strict_superfluous. Qed.
Print Assumptions C05_superfluous.

(** a decoder suspended for lack of input has, in every mode and state, used its input up *)
Theorem C05_suspended_means_input_used_up :
  forall T abort r s tr s', dec_root T abort r s = (tr, s', More) -> inp s' = [].
Proof. exact (fun T abort r => L_dec_root _ more_empty_lclosed T abort r). Qed.
Print Assumptions C05_suspended_means_input_used_up.

(** a decoder that stopped for lack of input was asking for the next byte: every decoder function, both modes *)
Theorem C05_suspended_decoder_reads_next :
  forall T abort r s y ys tr s', dec_root T abort r s = (tr, s', More) ->
    exists tr2 s2 o2, dec_root T abort r (ext s (y :: ys)) = (tr ++ Rd y :: tr2, s2, o2).
Proof. exact (fun T abort r => proj2 (asks_dec_root T abort r)). Qed.
Print Assumptions C05_suspended_decoder_reads_next.

(** a well-formed message cut short: the events of exactly the complete fields, then depleted with the command code *)
Theorem C05_cut_message_is_depleted_after_the_complete_fields :
  forall T r bs y ys vs, msg_tables_ok T = true -> is_stream_root r = false ->
    sp_root T r (bs ++ y :: ys) = Some vs -> forallb all_valid vs = true ->
    let n := Z.of_nat (List.length bs) in
    let seen := items_within n (flat_map items_of vs) 0 in
    decode T true r bs = (stamp_items n seen 0, ODepleted (items_cc seen None)).
Proof. intros T r bs y ys vs Hok Hr. exact (cut_is_depleted T Hok r Hr bs y ys vs). Qed.
Print Assumptions C05_cut_message_is_depleted_after_the_complete_fields.

(** a well-formed message followed by more bytes: all its events, then superfluous with exactly the surplus *)
Theorem C05_surplus_is_superfluous :
  forall T r w x xs vs, msg_tables_ok T = true -> is_stream_root r = false ->
    sp_root T r w = Some vs -> forallb all_valid vs = true ->
    let n := Z.of_nat (List.length (w ++ x :: xs)) in
    decode T true r (w ++ x :: xs) =
      (stamp_items n (flat_map items_of vs) 0, OSuperfluous (x :: xs) (items_cc (flat_map items_of vs) None)).
Proof. intros T r w x xs vs Hok Hr. exact (surplus_is_superfluous T Hok r Hr w x xs vs). Qed.
Print Assumptions C05_surplus_is_superfluous.

(** streams: whole messages end cleanly ... *)
Theorem C05_stream_of_whole_messages_ends_cleanly :
  forall T bs vs, msg_tables_ok T = true -> sp_stream T (List.length bs) root_path bs = Some vs -> forallb all_valid vs = true ->
    Z.of_nat (List.length bs) < Z.pos stream_bound -> snd (decode T true RStream bs) = OAccepted.
Proof.
  intros T bs vs Hok Hs AV Hb.
  rewrite (stream_decodes_in_mode T true Hok bs vs Hs ltac:(rewrite ok_leaves_true_all; exact AV) Hb). reflexivity.
Qed.
Print Assumptions C05_stream_of_whole_messages_ends_cleanly.

(** ... and only there: cut at an offset where no message starts, a stream of whole messages is depleted after the
    events of the fields complete within the cut ([root_at n items 0]: some message's root event sits at offset n) *)
Theorem C05_stream_cut_inside_a_message_is_depleted :
  forall T bs y ys vs, msg_tables_ok T = true ->
    sp_stream T (List.length (bs ++ y :: ys)) root_path (bs ++ y :: ys) = Some vs -> forallb all_valid vs = true ->
    Z.of_nat (List.length (bs ++ y :: ys)) < Z.pos stream_bound ->
    let n := Z.of_nat (List.length bs) in
    let seen := items_within n (flat_map items_of vs) 0 in
    root_at n (flat_map items_of vs) 0 = false ->
    decode T true RStream bs = (stamp_items n seen 0, ODepleted (items_cc seen None)).
Proof. intros T bs y ys vs Hok. exact (stream_cut_inside_is_depleted T Hok bs y ys vs). Qed.
Print Assumptions C05_stream_cut_inside_a_message_is_depleted.

(** the table premise holds of the regenerated tables; the empty input is the cut at 0 *)
Theorem C05_tables_ok : msg_tables_ok Tables.T = true.
Proof. vm_compute. reflexivity. Qed.
Print Assumptions C05_tables_ok.

(** non-vacuity: TPM2_GetRandom(32) is well-formed; cut after its command code it is depleted with that code, cut
    inside the code without one; with a byte appended it is superfluous with that byte *)
Example C05_example :
  well_formed Tables.T RCommand [128;1;0;0;0;12;0;0;1;123;0;32] = true /\
  snd (decode Tables.T true RCommand [128;1;0;0;0;12;0;0;1;123]) = ODepleted (Some 379) /\
  snd (decode Tables.T true RCommand [128;1;0;0;0;12;0;0;1]) = ODepleted None /\
  snd (decode Tables.T true RCommand [128;1;0;0;0;12;0;0;1;123;0;32;7]) = OSuperfluous [7] (Some 379) /\
  snd (decode Tables.T true RStream [128;1;0;0;0;12;0;0;1;123;0;32]) = OAccepted /\
  snd (decode Tables.T true RStream [128;1;0;0;0;12;0;0;1;123;0]) = ODepleted (Some 379) /\
  root_at 11 (match sp_root Tables.T RStream [128;1;0;0;0;12;0;0;1;123;0;32] with Some vs => flat_map items_of vs | None => [] end) 0 = false /\
  root_at 0 (match sp_root Tables.T RStream [128;1;0;0;0;12;0;0;1;123;0;32] with Some vs => flat_map items_of vs | None => [] end) 0 = true.
Proof. vm_compute. repeat split. Qed.
