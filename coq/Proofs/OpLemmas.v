(** Operation-level facts about the decoder's building blocks in strict mode: what each error means
    (C03, C04) and the complete behaviour on a primitive root (C01 for the primitive types). *)
From Coq Require Import ZArith List String Bool Lia ZifyBool.
From TV Require Import Layout.Types Base.Bytes Model.Monad Model.Constraints Model.Ints Model.Decoder Model.Message
  Model.Pump Spec.Value Spec.Message Proofs.Tiling.
Import ListNotations.
Open Scope list_scope.
Open Scope Z_scope.

(** ---- exceeded: raised by the first live listed region that the field would cross *)
Lemma exceeds_spec c size by_ : exceeds c size = Some by_ ->
  exists mx, sc_max c = Some mx /\ by_ = sc_already c + size - mx /\ 0 < by_.
Proof.
  unfold exceeds. destruct (sc_max c) as [mx|]; [|discriminate].
  destruct (mx <? sc_already c + size) eqn:E; [|discriminate]. intros [= <-]. exists mx. repeat split; lia.
Qed.

Lemma take_bytes_len l n t rest : take_bytes l n = (t, rest, true) -> List.length t = Z.to_nat n.
Proof.
  revert t rest n. induction l as [|x l IHl]; intros t rest n Et; cbn [take_bytes] in Et.
  - destruct (n <=? 0) eqn:En; [|discriminate]. injection Et as <- _. cbn [List.length]. lia.
  - destruct (n <=? 0) eqn:En; [injection Et as <- _; cbn [List.length]; lia|].
    destruct (take_bytes l (n - 1)) as [[t' r'] d'] eqn:E'. injection Et as <- _ ->.
    cbn [List.length]. rewrite (IHl _ _ _ E'). lia.
Qed.

Lemma find_violated_spec s ids size pre before i by_ after :
  find_violated s ids size pre = Some (before, i, by_, after) ->
  exists mid, before = rev pre ++ mid /\ ids = mid ++ i :: after /\
              exceeds (get_sc s i) size = Some by_ /\
              forall j, In j mid -> exceeds (get_sc s j) size = None.
Proof.
  revert pre. induction ids as [|x r IH]; intros pre H; cbn [find_violated] in H; [discriminate|].
  destruct (exceeds (get_sc s x) size) as [b|] eqn:E.
  - injection H as <- <- <- <-. exists []. rewrite app_nil_r. repeat split; [exact E|intros j []].
  - destruct (IH _ H) as (mid & -> & -> & X & N). exists (x :: mid). cbn [rev]. rewrite <- app_assoc. cbn [app].
    repeat split; [exact X|]. intros j [<-|Hj]; [exact E|apply N, Hj].
Qed.

(** computations that only touch the constraint store: no trace, input untouched, always return *)
Definition silent {A} (m : M A) : Prop :=
  forall s tr s' o, m s = (tr, s', o) -> tr = [] /\ inp s' = inp s /\ exists a, o = Ok a.

Lemma silent_bind A B (m : M A) (f : A -> M B) : silent m -> (forall a, silent (f a)) -> silent (bind m f).
Proof.
  intros Hm Hf s tr s' o H. unfold bind in H. destruct (m s) as [[tr1 s1] o1] eqn:E1.
  destruct (Hm _ _ _ _ E1) as (-> & I1 & a & ->).
  destruct (f a s1) as [[tr2 s2] o2] eqn:E2. destruct (Hf _ _ _ _ _ E2) as (-> & I2 & b & ->).
  injection H as <- <- <-. repeat split; [congruence|eexists; reflexivity].
Qed.
Lemma silent_get : silent get.
Proof. intros s tr s' o H. injection H as <- <- <-. repeat split. eexists; reflexivity. Qed.
Lemma silent_ret A (x : A) : silent (ret x).
Proof. intros s tr s' o H. injection H as <- <- <-. repeat split. eexists; reflexivity. Qed.
Lemma silent_set_sc i c : silent (set_sc i c).
Proof. intros s tr s' o H. injection H as <- <- <-. repeat split. eexists; reflexivity. Qed.
Lemma silent_set_lst l : silent (set_lst l).
Proof. intros s tr s' o H. injection H as <- <- <-. repeat split. eexists; reflexivity. Qed.
Lemma silent_bump_all ids n : silent (bump_all ids n).
Proof.
  induction ids as [|i r IH]; cbn [bump_all]; [apply silent_ret|].
  apply silent_bind; [apply silent_get|]. intros s. apply silent_bind; [apply silent_set_sc|]. intros _. exact IH.
Qed.
Lemma silent_retire_all ids : silent (retire_all ids).
Proof.
  induction ids as [|i r IH]; cbn [retire_all]; [apply silent_ret|].
  apply silent_bind; [apply silent_get|]. intros s. apply silent_bind; [apply silent_set_sc|]. intros _. exact IH.
Qed.
Lemma silent_purge : silent purge.
Proof. unfold purge. apply silent_bind; [apply silent_get|]. intros s. apply silent_set_lst. Qed.

(** ---- the list-level size check: either every listed region is charged, or Exceeded is raised for the
    outermost region the field would cross, after skipping exactly the rest of that region *)
Theorem bytes_parsed_outcome p size s tr s' o :
  bytes_parsed p size s = (tr, s', o) ->
  match o with
  | Ok _ => tr = [] /\ inp s' = inp s
  | Fail e =>
      exists ci by_ mx, e = EExceeded ci p by_ /\ si_max ci = Some mx /\
                        by_ = si_already ci + size - mx /\ 0 < by_ /\
                        List.length (Proofs.Account.bytes_of tr) = Z.to_nat (mx - si_already ci)
  | More => True
  | Internal _ | Fuel => False
  end.
Proof.
  unfold bytes_parsed. intros H. unfold bind at 1 in H.
  destruct (purge s) as [[t0 s0] o0] eqn:E0. destruct (silent_purge _ _ _ _ E0) as (-> & I0 & u & ->).
  unfold bind at 1 in H. cbn [get app] in H.
  destruct (find_violated _ _ size []) as [[[[before i] by_] after]|] eqn:F.
  - destruct (find_violated_spec _ _ _ _ _ _ _ _ F) as (mid & _ & _ & X & _).
    destruct (exceeds_spec _ _ _ X) as (mx & Hmx & Hb & Hpos).
    unfold bind at 1 in H.
    match type of H with context [bump_all ?a ?b ?c] => destruct (bump_all a b c) as [[t1 s1] o1] eqn:E1 end.
    destruct (silent_bump_all _ _ _ _ _ _ E1) as (-> & I1 & u1 & ->).
    unfold bind at 1 in H.
    destruct (retire_all after s1) as [[t2 s2] o2] eqn:E2.
    destruct (silent_retire_all _ _ _ _ _ E2) as (-> & I2 & u2 & ->).
    unfold bind at 1 in H. cbn [set_lst] in H. unfold bind at 1 in H. cbn [set_sc] in H.
    unfold bind in H. unfold consume in H. cbn [inp store lst] in H.
    destruct (take_bytes (inp s2) _) as [[t rest] d] eqn:Et.
    destruct d; cbn in H; injection H as <- _ <-; [|exact I].
    eexists _, by_, mx. split; [reflexivity|]. cbn [info si_max si_already].
    unfold get_sc in *. cbn [store] in *. rewrite Hmx in *.
    split; [reflexivity|]. split; [exact Hb|]. split; [exact Hpos|].
    rewrite app_nil_r, Proofs.Account.bytes_of_map_Rd. exact (take_bytes_len _ _ _ _ Et).
  - match type of H with context [bump_all ?a ?b ?c] => destruct (bump_all a b c) as [[t1 s1] o1] eqn:E1 end.
    destruct (silent_bump_all _ _ _ _ _ _ E1) as (-> & I1 & u1 & ->).
    injection H as <- <- <-. split; [reflexivity|congruence].
Qed.

(** ---- anticipated: raised when a size is read that cannot fit in an enclosing live region *)
Theorem anticipate_spec s ids self size ci by_ :
  anticipate s ids self size = Some (ci, by_) ->
  exists mx, In (si_id ci) ids /\ si_id ci <> self /\ si_max ci = Some mx /\
             by_ = si_already ci + size - mx /\ 0 < by_ /\ sc_obs (get_sc s (si_id ci)) = false.
Proof.
  induction ids as [|i r IH]; cbn [anticipate]; [discriminate|].
  destruct (Nat.eqb i self) eqn:Es.
  - intros H. destruct (IH H) as (mx & Hin & R). exists mx. split; [right; exact Hin|exact R].
  - destruct (sc_obs (get_sc s i)) eqn:Ob.
    + intros H. destruct (IH H) as (mx & Hin & R). exists mx. split; [right; exact Hin|exact R].
    + destruct (exceeds (get_sc s i) size) as [b|] eqn:X.
      * intros [= <- <-]. destruct (exceeds_spec _ _ _ X) as (mx & Hmx & Hb & Hpos).
        exists mx. cbn [info si_id si_max si_already]. apply Nat.eqb_neq in Es.
        repeat split; try assumption. left. reflexivity.
      * intros H. destruct (IH H) as (mx & Hin & R). exists mx. split; [right; exact Hin|exact R].
Qed.

(** ---- subceeded / exact: a sized region closes normally only when exactly filled (or had been abandoned
    after a reported overrun, which in strict mode cannot have happened without raising) *)
Theorem assert_done_strict i s tr s' o :
  assert_done true i s = (tr, s', o) ->
  tr = [] /\
  match o with
  | Ok _ => sc_obs (get_sc s i) = true \/ sc_max (get_sc s i) = Some (sc_already (get_sc s i))
  | Fail e => exists mx, sc_max (get_sc s i) = Some mx /\ sc_already (get_sc s i) <> mx /\
                         e = ESubceeded (info i (get_sc s i))
  | Internal _ => sc_max (get_sc s i) = None
  | _ => False
  end.
Proof.
  unfold assert_done. unfold bind at 1. cbn [get].
  change (get_sc {| inp := []; store := store s; lst := lst s |} i) with (get_sc s i).
  destruct (sc_max (get_sc s i)) as [mx|] eqn:M.
  - destruct (sc_obs (get_sc s i)) eqn:Ob.
    + cbn. intros [= <- _ <-]. split; [reflexivity|left; reflexivity].
    + unfold bind. cbn [set_sc]. destruct (sc_already (get_sc s i) =? mx) eqn:E.
      * cbn. intros [= <- _ <-]. split; [reflexivity|]. right. apply Z.eqb_eq in E. subst. reflexivity.
      * cbn. intros [= <- _ <-]. split; [reflexivity|]. exists mx. apply Z.eqb_neq in E. split; [reflexivity|]. split; [exact E|].
        unfold info. rewrite M. reflexivity.
  - cbn. intros [= <- _ <-]. split; reflexivity.
Qed.

Lemma readn_outcome n s tr s' o :
  readn n s = (tr, s', o) -> match o with Ok _ | More => True | _ => False end.
Proof.
  revert s tr s' o. induction n as [|n IH]; intros s tr s' o H; cbn [readn] in H.
  - injection H as _ _ <-. exact I.
  - unfold bind at 1 in H. unfold read1 at 1 in H. destruct (inp s); [injection H as _ _ <-; exact I|].
    unfold bind in H. destruct (readn n _) as [[t3 s3] o3] eqn:E3. pose proof (IH _ _ _ _ E3) as Ho.
    destruct o3; injection H as _ _ <-; exact Ho || exact I.
Qed.

(** ---- C04: a strict primitive decode raises a value error exactly for an out-of-range value, after reading
    exactly the field's bytes and without emitting the offending event; and completes exactly for a valid one *)
Theorem dec_prim_strict p pa s tr s' o :
  dec_prim true p pa s = (tr, s', o) ->
  match o with
  | Ok r => exists bs, tr = map Rd bs ++ [Ev (mkEvent pa (TyN (pname p)) (Some (from_bytes (psigned p) bs)))] /\
                       List.length bs = Z.to_nat (pwidth p) /\ valid p (from_bytes (psigned p) bs) = true /\
                       r = Some (VInt_ (pname p) (from_bytes (psigned p) bs))
  | Fail (EValue pa' tn v src) =>
      exists bs, tr = map Rd bs /\ List.length bs = Z.to_nat (pwidth p) /\ v = from_bytes (psigned p) bs /\
                 valid p v = false /\ pa' = pa /\ tn = pname p /\ src = VSType
  | Fail (EExceeded _ viol _) => viol = pa
  | Fail _ => False
  | More => True
  | Internal _ | Fuel => False
  end.
Proof.
  unfold dec_prim. intros H. unfold bind at 1 in H.
  destruct (bytes_parsed pa (pwidth p) s) as [[tr1 s1] o1] eqn:E1.
  pose proof (bytes_parsed_outcome _ _ _ _ _ _ E1) as Ho1.
  destruct o1 as [u|e| |k|]; try contradiction.
  - destruct Ho1 as [-> _]. cbn [app] in H. unfold bind at 1 in H.
    destruct (readn _ s1) as [[tr2 s2] o2] eqn:E2. pose proof (readn_outcome _ _ _ _ _ E2) as Ho2.
    destruct o2 as [bs|e2| |k2|]; try contradiction.
    + destruct (readn_ok _ _ _ _ _ E2) as [-> L].
      destruct (valid p (from_bytes (psigned p) bs)) eqn:V.
      * cbn in H. injection H as <- _ <-. exists bs. repeat split; assumption.
      * cbn in H. injection H as <- _ <-. exists bs. rewrite app_nil_r. repeat split; assumption.
    + injection H as _ _ <-. exact I.
  - injection H as _ _ <-. destruct Ho1 as (ci & b & mx & -> & _). reflexivity.
  - injection H as _ _ <-. exact I.
Qed.

(** ---- C01 for the primitive types: complete behaviour on a primitive root *)
Lemma readn_exact bs st_ l rest :
  readn (List.length bs) (mkSt (bs ++ rest) st_ l) = (map Rd bs, mkSt rest st_ l, Ok bs).
Proof.
  revert st_ l. induction bs as [|b r IH]; intros st_ l; cbn [List.length readn app map].
  - reflexivity.
  - unfold bind at 1. unfold read1 at 1. cbn [inp store lst].
    unfold bind, ret. rewrite IH. cbn [app]. rewrite app_nil_r. reflexivity.
Qed.

Lemma dec_prim_forward p pa bs rest st_ :
  List.length bs = Z.to_nat (pwidth p) -> valid p (from_bytes (psigned p) bs) = true ->
  dec_prim true p pa (mkSt (bs ++ rest) st_ []) =
  (map Rd bs ++ [Ev (mkEvent pa (TyN (pname p)) (Some (from_bytes (psigned p) bs)))], mkSt rest st_ [],
   Ok (Some (VInt_ (pname p) (from_bytes (psigned p) bs)))).
Proof.
  intros L V. unfold dec_prim. unfold bind at 1. unfold bytes_parsed, purge. cbn.
  unfold bind at 1. rewrite <- L, readn_exact. rewrite V. cbn. reflexivity.
Qed.

Lemma pump_go_reads is_stream len bs ps tr :
  pump_go is_stream len (map Rd bs ++ tr) ps =
  pump_go is_stream len tr (mkP (ps_nrd ps + Z.of_nat (List.length bs)) (ps_cc ps) (ps_out ps)).
Proof.
  revert ps. induction bs as [|b r IH]; intros ps; cbn [map app pump_go List.length].
  - replace (ps_nrd ps + Z.of_nat 0) with (ps_nrd ps) by lia. destruct ps; reflexivity.
  - rewrite IH. cbn [ps_nrd ps_cc ps_out]. f_equal. f_equal. lia.
Qed.

Lemma skipZ_all (l : list Z) : skipZ l (Z.of_nat (List.length l)) = [].
Proof. rewrite <- (app_nil_r l) at 1. apply Proofs.Account.skipZ_app. Qed.

Theorem prim_root_decodes_as_specified T p bs :
  0 < pwidth p -> List.length bs = Z.to_nat (pwidth p) -> valid p (from_bytes (psigned p) bs) = true ->
  exists evs, decode T true (RType (TPrim p)) bs = (evs, OAccepted) /\
              spec_events T (RType (TPrim p)) bs = Some evs.
Proof.
  intros Hw L V.
  assert (Hlen : Z.of_nat (List.length bs) = pwidth p) by lia.
  eexists. split.
  - unfold decode, pump. cbn [dec_root is_stream_root dec_ty init_st].
    unfold bind at 1. cbn [set_lst].
    cbn [init_st inp store lst].
    pose proof (dec_prim_forward p root_path bs [] [] L V) as F. rewrite app_nil_r in F. rewrite F. cbn [app].
    rewrite pump_go_reads. cbn [pump_go andb ps_nrd ps_cc ps_out].
    replace (path_eqb (epath _) cc_path) with false by reflexivity.
    cbn [ps_nrd ps_out rev app]. rewrite Z.add_0_l, skipZ_all. reflexivity.
  - unfold spec_events, sp_root. cbn [sp_ty]. unfold sp_prim, split_at.
    replace ((pwidth p <? 0) || (Z.of_nat (List.length bs) <? pwidth p)) with false by lia.
    rewrite <- L, firstn_all, skipn_all.
    cbn [forallb all_valid andb flat_map items_of app stamp_items item_event]. rewrite V. cbn [andb].
    rewrite Hlen. reflexivity.
Qed.
