(** C06, part 1: strict decoding of ARBITRARY input as any structure type never ends in an internal error (nor in the
    loop bound): for tables passing the [safe_ty] check, every run of [dec_ty] in strict mode - any input, any
    constraint state - ends completed, with a documented error, or asking for more input. *)
From Coq Require Import ZArith List String Bool Lia ZifyBool.
From TV Require Import Layout.Types Base.Bytes Model.Monad Model.Constraints Model.Ints Model.Decoder Model.Message Model.Pump
  Spec.Value Proofs.Closure Proofs.LowClosure Proofs.Account Proofs.Agree Proofs.Sim1 Proofs.Sim3 Proofs.Sim4 Proofs.Sim7.
Import ListNotations.
Open Scope list_scope.
Open Scope Z_scope.

Definition good {A} (o : out A) : Prop := match o with Internal _ | Fuel => False | _ => True end.

(** the limits of the constraint objects that exist are never changed; the store only grows *)
Definition mxf (s s' : st) : Prop :=
  (List.length (store s) <= List.length (store s'))%nat /\
  forall i, (i < List.length (store s))%nat -> sc_max (get_sc s' i) = sc_max (get_sc s i).

Lemma mxf_refl s : mxf s s.
Proof. split; [lia|reflexivity]. Qed.
Lemma mxf_trans a b c : mxf a b -> mxf b c -> mxf a c.
Proof. intros [L1 H1] [L2 H2]. split; [lia|]. intros i Hi. rewrite H2 by lia. apply H1, Hi. Qed.

(** inversion of a sequenced run *)
Lemma bind_inv A B (m : M A) (f : A -> M B) s tr s' o : bind m f s = (tr, s', o) ->
  exists tr1 s1 o1, m s = (tr1, s1, o1) /\
    match o1 with
    | Ok a => exists tr2, f a s1 = (tr2, s', o) /\ tr = tr1 ++ tr2
    | Fail e => o = Fail e /\ s' = s1
    | More => o = More /\ s' = s1
    | Internal k => o = Internal k /\ s' = s1
    | Fuel => o = Fuel /\ s' = s1
    end.
Proof.
  unfold bind. destruct (m s) as [[tr1 s1] o1]. intros H. exists tr1, s1, o1. split; [reflexivity|].
  destruct o1 as [a|e| |k|]; try (injection H as _ <- <-; split; reflexivity).
  destruct (f a s1) as [[tr2 s2] o2]. injection H as <- <- <-. exists tr2. split; reflexivity.
Qed.

(** a triple: from states satisfying [pre], every run is good, and a completed one satisfies [post] *)
Definition triple {A} (pre : st -> Prop) (m : M A) (post : st -> A -> st -> Prop) : Prop :=
  forall s tr s' o, pre s -> m s = (tr, s', o) -> good o /\ forall a, o = Ok a -> post s a s'.

Lemma triple_bind A B (pre : st -> Prop) (m : M A) (f : A -> M B) (P : st -> A -> st -> Prop) (Q : st -> B -> st -> Prop) :
  triple pre m P ->
  (forall s0 a, pre s0 -> triple (fun s1 => P s0 a s1) (f a) (fun s1 b s2 => Q s0 b s2)) ->
  triple pre (bind m f) Q.
Proof.
  intros Hm Hf s tr s' o Hp H. destruct (bind_inv _ _ _ _ _ _ _ _ H) as (tr1 & s1 & o1 & E1 & R).
  destruct (Hm _ _ _ _ Hp E1) as [G1 P1].
  destruct o1 as [a|e| |k|].
  - destruct R as (tr2 & E2 & _). apply (Hf s a Hp s1 tr2 s' o (P1 a eq_refl) E2).
  - destruct R as [-> _]. split; [exact Logic.I|discriminate].
  - destruct R as [-> _]. split; [exact Logic.I|discriminate].
  - contradiction.
  - contradiction.
Qed.

Lemma triple_weaken A (pre pre' : st -> Prop) (m : M A) (P Q : st -> A -> st -> Prop) :
  (forall s, pre' s -> pre s) -> (forall s a s', pre' s -> P s a s' -> Q s a s') -> triple pre m P -> triple pre' m Q.
Proof. intros Hp Hq H s tr s' o Hs E. destruct (H _ _ _ _ (Hp _ Hs) E) as [G P1]. split; [exact G|]. intros a ->. apply Hq; [exact Hs|apply P1; reflexivity]. Qed.

Lemma triple_ret A (a : A) (pre : st -> Prop) (P : st -> A -> st -> Prop) : (forall s, pre s -> P s a s) -> triple pre (ret a) P.
Proof. intros H s tr s' o Hs E. injection E as _ <- <-. split; [exact Logic.I|]. intros a' [= <-]. apply H, Hs. Qed.

Lemma triple_fail A e (pre : st -> Prop) (P : st -> A -> st -> Prop) : triple pre (@fail A e) P.
Proof. intros s tr s' o _ E. injection E as _ _ <-. split; [exact Logic.I|discriminate]. Qed.

Lemma triple_silent A (m : M A) (pre : st -> Prop) (P : st -> A -> st -> Prop) :
  (forall s, pre s -> exists s' a, m s = ([], s', Ok a) /\ P s a s') -> triple pre m P.
Proof.
  intros H s tr s' o Hs E. destruct (H s Hs) as (s1 & a & E1 & Pa). rewrite E1 in E. injection E as _ <- <-.
  split; [exact Logic.I|]. intros a' [= <-]. exact Pa.
Qed.

Lemma triple_emit a (pre : st -> Prop) : triple pre (emit a) (fun s _ s' => s' = s).
Proof. intros s tr s' o _ E. injection E as _ <- <-. split; [exact Logic.I|]. intros; reflexivity. Qed.

(** ---- the constraint operations in strict mode, in any state *)
Lemma get_sc_upd l i j c : sc_max (nth j (upd l i c) sc_dummy) = if Nat.eqb i j && Nat.ltb j (List.length l) then sc_max c else sc_max (nth j l sc_dummy).
Proof.
  revert i j. induction l as [|x l IH]; intros i j; [destruct i, j; cbn; rewrite ?andb_false_r; reflexivity|].
  destruct i, j; cbn [upd nth Nat.eqb List.length]; try reflexivity.
  rewrite IH. reflexivity.
Qed.

Lemma set_sc_same_max s i c : sc_max c = sc_max (get_sc s i) ->
  exists s', set_sc i c s = ([], s', Ok tt) /\ inp s' = inp s /\ lst s' = lst s /\ List.length (store s') = List.length (store s) /\
             forall j, sc_max (get_sc s' j) = sc_max (get_sc s j).
Proof.
  intros H. eexists. split; [reflexivity|]. cbn [inp lst store]. split; [reflexivity|]. split; [reflexivity|].
  split; [apply upd_length|]. intros j. unfold get_sc. cbn [store]. rewrite get_sc_upd.
  destruct (Nat.eqb i j && Nat.ltb j (List.length (store s))) eqn:E; [|reflexivity].
  apply andb_prop in E as [E _]. apply Nat.eqb_eq in E. subst j. exact H.
Qed.

Definition same_max (s s' : st) : Prop :=
  List.length (store s') = List.length (store s) /\ forall j, sc_max (get_sc s' j) = sc_max (get_sc s j).

Lemma same_max_mxf s s' : same_max s s' -> mxf s s'.
Proof. intros [L H]. split; [lia|]. intros i _. apply H. Qed.
Lemma same_max_trans a b c : same_max a b -> same_max b c -> same_max a c.
Proof. intros [L1 H1] [L2 H2]. split; [congruence|]. intros j. rewrite H2. apply H1. Qed.

Lemma bump_all_max ids n : forall s, exists s', bump_all ids n s = ([], s', Ok tt) /\ same_max s s' /\ inp s' = inp s.
Proof.
  induction ids as [|i r IH]; intros s; [exists s; split; [reflexivity|split; [split; reflexivity|reflexivity]]|].
  cbn [bump_all]. rewrite bind_get. change (get_sc (mkSt [] (store s) (lst s)) i) with (get_sc s i).
  destruct (set_sc_same_max s i (mkSc (sc_path (get_sc s i)) (sc_max (get_sc s i)) (sc_already (get_sc s i) + n) (sc_obs (get_sc s i))) eq_refl)
    as (s1 & E1 & I1 & _ & L1 & H1).
  destruct (IH s1) as (s2 & E2 & [L2 H2] & I2).
  exists s2. unfold bind. rewrite E1, E2. split; [reflexivity|]. split; [|congruence].
  split; [congruence|]. intros j. rewrite H2. apply H1.
Qed.

Lemma retire_all_max ids : forall s, exists s', retire_all ids s = ([], s', Ok tt) /\ same_max s s' /\ inp s' = inp s.
Proof.
  induction ids as [|i r IH]; intros s; [exists s; split; [reflexivity|split; [split; reflexivity|reflexivity]]|].
  cbn [retire_all]. rewrite bind_get. change (get_sc (mkSt [] (store s) (lst s)) i) with (get_sc s i).
  destruct (set_sc_same_max s i (mkSc (sc_path (get_sc s i)) (sc_max (get_sc s i)) (sc_already (get_sc s i)) true) eq_refl)
    as (s1 & E1 & I1 & _ & L1 & H1).
  destruct (IH s1) as (s2 & E2 & [L2 H2] & I2).
  exists s2. unfold bind. rewrite E1, E2. split; [reflexivity|]. split; [|congruence].
  split; [congruence|]. intros j. rewrite H2. apply H1.
Qed.

Lemma consume_out n s : exists tr s', (consume n s = (tr, s', Ok tt) \/ consume n s = (tr, s', More)) /\ store s' = store s.
Proof.
  unfold consume. destruct (take_bytes (inp s) n) as [[t rest] done].
  exists (map Rd t), (mkSt rest (store s) (lst s)). split; [|reflexivity]. destruct done; [left|right]; reflexivity.
Qed.

Lemma triple_consume n (pre : st -> Prop) : triple pre (consume n) (fun _ _ _ => True).
Proof.
  intros s tr s' o _ H. destruct (consume_out n s) as (tr1 & s1 & [E|E] & _); rewrite E in H; injection H as _ _ <-.
  - split; [exact Logic.I|]. intros; exact Logic.I.
  - split; [exact Logic.I|discriminate].
Qed.

Lemma triple_get B (pre : st -> Prop) (k : st -> M B) (Q : st -> B -> st -> Prop) :
  (forall s0, pre s0 -> triple (fun s => s = s0) (k (mkSt [] (store s0) (lst s0))) Q) -> triple pre (bind get k) Q.
Proof. intros H s tr s' o Hs E. rewrite bind_get in E. apply (H s Hs s tr s' o eq_refl E). Qed.

(** the list-level size check: completes (limits untouched) or raises / asks for input *)
Lemma bytes_parsed_safe p n : triple (fun _ => True) (bytes_parsed p n) (fun s _ s' => same_max s s').
Proof.
  unfold bytes_parsed.
  eapply triple_bind with (P := fun s _ s1 => same_max s s1).
  - apply triple_silent. intros s _. eexists _, tt. split; [unfold purge; rewrite bind_get; reflexivity|]. split; reflexivity.
  - intros s0 _ _. apply triple_get. intros s1 Hs1.
    destruct (find_violated _ _ n []) as [[[[before i] by_] after]|].
    + (* a region would be crossed: never completes *)
      eapply triple_weaken with (pre := fun s => True) (P := fun _ _ _ => False); [intros; exact Logic.I|intros ? ? ? _ []|].
      eapply triple_bind with (P := fun _ _ _ => True).
      { apply triple_silent. intros s _. destruct (bump_all_max before (Z.max (match sc_max (get_sc (mkSt [] (store s1) (lst s1)) i) with Some mx => mx - sc_already (get_sc (mkSt [] (store s1) (lst s1)) i) | None => 0 end) 0) s) as (s' & E & _). eexists _, _. split; [exact E|exact Logic.I]. }
      intros ? ? _. eapply triple_bind with (P := fun _ _ _ => True).
      { apply triple_silent. intros s _. destruct (retire_all_max after s) as (s' & E & _). eexists _, _. split; [exact E|exact Logic.I]. }
      intros ? ? _. eapply triple_bind with (P := fun _ _ _ => True).
      { apply triple_silent. intros s _. eexists _, _. split; [reflexivity|exact Logic.I]. }
      intros ? ? _. eapply triple_bind with (P := fun _ _ _ => True).
      { apply triple_silent. intros s _. eexists _, _. split; [reflexivity|exact Logic.I]. }
      intros ? ? _. eapply triple_bind with (P := fun _ _ _ => True); [apply triple_consume|].
      intros ? ? _. apply triple_fail.
    + apply triple_silent. intros s ->. destruct (bump_all_max (lst (mkSt [] (store s1) (lst s1))) n s1) as (s' & E & SM & _).
      eexists _, _. split; [exact E|]. eapply same_max_trans; [|exact SM]. exact Hs1.
Qed.

Lemma same_store_max s s' : store s' = store s -> same_max s s'.
Proof. intros H. split; [rewrite H; reflexivity|]. intros j. unfold get_sc. rewrite H. reflexivity. Qed.

Lemma readn_safe n : triple (fun _ => True) (readn n) (fun s _ s' => store s' = store s).
Proof.
  induction n as [|n IH]; cbn [readn]; [apply triple_ret; reflexivity|].
  eapply triple_bind with (P := fun s _ s1 => store s1 = store s).
  - intros s tr s' o _ H. unfold read1 in H. destruct (inp s); injection H as _ <- <-; (split; [exact Logic.I|]); [discriminate|intros; reflexivity].
  - intros s0 b _. eapply triple_bind with (P := fun s _ s1 => store s1 = store s).
    + eapply triple_weaken; [| |exact IH]; [intros; exact Logic.I|intros s a s' _ H; exact H].
    + intros s1 bs Hs1. apply triple_ret. intros s Hs. congruence.
Qed.

Lemma dec_prim_safe p pa : triple (fun _ => True) (dec_prim true p pa) (fun s a s' => same_max s s' /\ exists z, a = Some (VInt_ (pname p) z)).
Proof.
  unfold dec_prim.
  eapply triple_bind with (P := fun s _ s1 => same_max s s1); [apply bytes_parsed_safe|].
  intros s0 _ _. eapply triple_bind with (P := fun s _ s1 => store s1 = store s).
  - eapply triple_weaken; [| |apply readn_safe]; [intros; exact Logic.I|intros s a s' _ H; exact H].
  - intros s1 bs Hs1. cbv zeta. destruct (valid p _).
    + eapply triple_bind with (P := fun s _ s2 => s2 = s).
      * apply triple_emit.
      * intros s2 _ Hs2. apply triple_ret. intros s ->. split; [|eexists; reflexivity].
        eapply same_max_trans; [exact Hs1|]. apply same_store_max. exact Hs2.
    + apply triple_fail.
Qed.

Lemma set_constraint_safe cid pa n : 0 <= n ->
  triple (fun s => (cid < List.length (store s))%nat) (set_constraint true cid pa n)
    (fun s _ s' => List.length (store s') = List.length (store s) /\ sc_max (get_sc s' cid) = Some n /\
                   (forall j, j <> cid -> sc_max (get_sc s' j) = sc_max (get_sc s j)) /\ inp s' = inp s).
Proof.
  intros Hn. unfold set_constraint. replace (n <? 0) with false by lia.
  apply triple_get. intros s0 Hc.
  eapply triple_bind with (P := fun s _ s1 => s1 = mkSt (inp s0) (upd (store s0) cid (mkSc (Some pa) (Some n) (sc_already (get_sc s0 cid)) (sc_obs (get_sc s0 cid)))) (lst s0)).
  - apply triple_silent. intros s ->. eexists _, _. split; reflexivity.
  - intros s1 _ ->. apply triple_get. intros s2 ->.
    assert (Post : forall s, s = mkSt (inp s0) (upd (store s0) cid (mkSc (Some pa) (Some n) (sc_already (get_sc s0 cid)) (sc_obs (get_sc s0 cid)))) (lst s0) ->
                   List.length (store s) = List.length (store s0) /\ sc_max (get_sc s cid) = Some n /\
                   (forall j, j <> cid -> sc_max (get_sc s j) = sc_max (get_sc s0 j)) /\ inp s = inp s0).
    { intros s ->. cbn [store]. split; [apply upd_length|]. unfold get_sc. cbn [store]. split; [|split; [|reflexivity]].
      - rewrite get_sc_upd, Nat.eqb_refl. replace (Nat.ltb cid (List.length (store s0))) with true by (symmetry; apply Nat.ltb_lt; exact Hc). reflexivity.
      - intros j Hj. rewrite get_sc_upd. replace (Nat.eqb cid j) with false by (symmetry; apply Nat.eqb_neq; congruence). reflexivity. }
    destruct (anticipate _ _ cid n) as [[ci b]|].
    + apply triple_fail.
    + apply triple_ret. intros s Hs. subst s. apply Post. reflexivity.
Qed.

Lemma assert_done_safe cid :
  triple (fun s => sc_max (get_sc s cid) <> None) (assert_done true cid) (fun s _ s' => same_max s s').
Proof.
  unfold assert_done. apply triple_get. intros s0 Hm.
  change (get_sc (mkSt [] (store s0) (lst s0)) cid) with (get_sc s0 cid).
  destruct (sc_max (get_sc s0 cid)) as [mx|] eqn:E; [|contradiction].
  destruct (sc_obs (get_sc s0 cid)).
  - apply triple_ret. intros s ->. split; reflexivity.
  - eapply triple_bind with (P := fun s _ s1 => same_max s s1).
    + apply triple_silent. intros s ->.
      destruct (set_sc_same_max s0 cid (mkSc (sc_path (get_sc s0 cid)) (Some mx) (sc_already (get_sc s0 cid)) true) ltac:(rewrite E; reflexivity))
        as (s1 & E1 & _ & _ & L1 & H1).
      eexists _, _. split; [exact E1|]. split; assumption.
    + intros s1 _ Hs1. destruct (_ =? mx); [|apply triple_fail].
      apply triple_ret. intros s Hs. subst s1. exact Hs.
Qed.

(** bounded iteration *)
Lemma triple_rep A (f : A -> M A) : (forall x, triple (fun _ => True) (f x) (fun s _ s' => mxf s s')) ->
  forall p x, triple (fun _ => True) (rep p f x) (fun s _ s' => mxf s s').
Proof.
  intros Hf p. induction p as [q IH|q IH|]; intros x; cbn [rep].
  - eapply triple_bind with (P := fun s _ s1 => mxf s s1); [apply Hf|]. intros s0 y _.
    eapply triple_bind with (P := fun s _ s1 => mxf s0 s1).
    + eapply triple_weaken; [| |apply (IH y)]; [intros; exact Logic.I|]. intros s a s' Hs H. eapply mxf_trans; eassumption.
    + intros s1 z Hs1. eapply triple_weaken; [| |apply (IH z)]; [intros; exact Logic.I|]. intros s a s' Hs H.
      eapply mxf_trans; [|exact H]. exact Hs.
  - eapply triple_bind with (P := fun s _ s1 => mxf s s1); [apply IH|]. intros s0 y _.
    eapply triple_weaken; [| |apply (IH y)]; [intros; exact Logic.I|]. intros s a s' Hs H. eapply mxf_trans; eassumption.
  - apply Hf.
Qed.

(** ---- the check on layout tables *)
Definition is_union (t : ty) : bool := match t with TUnion _ _ => true | _ => false end.
Definition nonunion (t : ty) : bool := negb (is_union t).

Fixpoint nodupb (l : list string) : bool :=
  match l with [] => true | x :: r => negb (existsb (String.eqb x) r) && nodupb r end.

Fixpoint safe_ty (t : ty) : bool :=
  match t with
  | TPrim p => 0 <=? pwidth p
  | TStruct _ _ fs => safe_fields fs []
  | TTpm2bList _ _ _ szp e => negb (psigned szp) && (0 <=? pwidth szp) && nonunion e && safe_ty e
  | TTpm2bStruct _ _ _ szp i => negb (psigned szp) && (0 <=? pwidth szp) && nonunion i && safe_ty i
  | TUnion _ ar => nodupb (arm_names ar) && safe_arms ar
  end
with safe_fields (fs : fields) (prev : list (string * option prim)) : bool :=
  match fs with
  | FNil => true
  | FPlain n t r => nonunion t && safe_ty t && safe_fields r ((n, match t with TPrim p => Some p | _ => None end) :: prev)
  | FList n e r =>
      match prev with
      | (_, Some _) :: _ => nonunion e && safe_ty e && safe_fields r ((n, None) :: prev)
      | _ => false
      end
  | FUnion n sel u r =>
      match lookupS sel prev with
      | Some (Some _) => is_union u && safe_ty u && safe_fields r ((n, None) :: prev)
      | _ => false
      end
  end
with safe_arms (ar : arms) : bool :=
  match ar with
  | ANil => true
  | ACons _ k p r =>
      match k with
      | KNever => true
      | _ => match p with
             | PNone => true
             | PTy t => nonunion t && safe_ty t
             | PList e (Some _) => nonunion e && safe_ty e
             | PList _ None => false
             end
      end && safe_arms r
  end.

Definition armp_safe (p : armp) : bool :=
  match p with
  | PNone => true
  | PTy t => nonunion t && safe_ty t
  | PList e (Some _) => nonunion e && safe_ty e
  | PList _ None => false
  end.

Fixpoint arm_at (ar : arms) (target : string) : option armp :=
  match ar with ANil => None | ACons n _ p r => if String.eqb n target then Some p else arm_at r target end.

Lemma arm_at_in ar n p : arm_at ar n = Some p -> In n (arm_names ar).
Proof.
  induction ar as [|n0 k p0 r IH]; cbn [arm_at arm_names]; [discriminate|].
  destruct (String.eqb n0 n) eqn:E; [apply String.eqb_eq in E; left; exact E|right; apply IH; assumption].
Qed.

Lemma nodupb_notin x r : existsb (String.eqb x) r = false -> ~ In x r.
Proof.
  intros H Hin. assert (existsb (String.eqb x) r = true) by (apply existsb_exists; exists x; split; [exact Hin|apply String.eqb_refl]). congruence.
Qed.

Lemma find_arm_safe ar z n p : nodupb (arm_names ar) = true -> safe_arms ar = true -> find_arm ar z = Some (n, p) ->
  arm_at ar n = Some p /\ armp_safe p = true.
Proof.
  induction ar as [|n0 k p0 r IH]; cbn [find_arm arm_names nodupb safe_arms arm_at]; [discriminate|].
  intros Hd Hs Hf. apply andb_prop in Hd as [Hd1 Hd2]. apply andb_prop in Hs as [Hs1 Hs2].
  assert (Rec : find_arm r z = Some (n, p) -> (if String.eqb n0 n then Some p0 else arm_at r n) = Some p /\ armp_safe p = true).
  { intros Hr. destruct (IH Hd2 Hs2 Hr) as [Ha Hp]. split; [|exact Hp].
    destruct (String.eqb n0 n) eqn:E; [|exact Ha]. apply String.eqb_eq in E. subst n0. exfalso.
    apply (nodupb_notin n (arm_names r)); [destruct (existsb _ _); [discriminate|reflexivity]|]. eapply arm_at_in. exact Ha. }
  destruct k as [kz| |]; try (apply Rec; exact Hf).
  destruct (z =? kz); [|apply Rec; exact Hf]. injection Hf as <- <-. rewrite String.eqb_refl. split; [reflexivity|]. exact Hs1.
Qed.

Lemma find_fallback_safe ar n p : nodupb (arm_names ar) = true -> safe_arms ar = true -> find_fallback ar = Some (n, p) ->
  arm_at ar n = Some p /\ armp_safe p = true.
Proof.
  induction ar as [|n0 k p0 r IH]; cbn [find_fallback arm_names nodupb safe_arms arm_at]; [discriminate|].
  intros Hd Hs Hf. apply andb_prop in Hd as [Hd1 Hd2]. apply andb_prop in Hs as [Hs1 Hs2].
  assert (Rec : find_fallback r = Some (n, p) -> (if String.eqb n0 n then Some p0 else arm_at r n) = Some p /\ armp_safe p = true).
  { intros Hr. destruct (IH Hd2 Hs2 Hr) as [Ha Hp]. split; [|exact Hp].
    destruct (String.eqb n0 n) eqn:E; [|exact Ha]. apply String.eqb_eq in E. subst n0. exfalso.
    apply (nodupb_notin n (arm_names r)); [destruct (existsb _ _); [discriminate|reflexivity]|]. eapply arm_at_in. exact Ha. }
  destruct k as [kz| |]; try (apply Rec; exact Hf).
  injection Hf as <- <-. rewrite String.eqb_refl. split; [reflexivity|]. exact Hs1.
Qed.

Lemma select_arm_safe ar sel n p : nodupb (arm_names ar) = true -> safe_arms ar = true -> select_arm ar sel = Some (n, p) ->
  arm_at ar n = Some p /\ armp_safe p = true.
Proof.
  intros Hd Hs. unfold select_arm. destruct sel as [[tn z]|]; [|apply find_fallback_safe; assumption].
  destruct (find_arm ar z) as [[n1 p1]|] eqn:E; [intros [= <- <-]; eapply find_arm_safe; eassumption|apply find_fallback_safe; assumption].
Qed.

Lemma readn_val n : forall s tr s' bs, readn n s = (tr, s', Ok bs) -> inp s = bs ++ inp s'.
Proof.
  induction n as [|n IH]; intros s tr s' bs H; cbn [readn] in H; [injection H as _ <- <-; reflexivity|].
  destruct (bind_inv _ _ _ _ _ _ _ _ H) as (tr1 & s1 & o1 & E1 & R1).
  destruct o1 as [b|e| |k|]; try (destruct R1 as [R1 _]; discriminate). destruct R1 as (tr2 & E2 & _).
  destruct (bind_inv _ _ _ _ _ _ _ _ E2) as (tr3 & s3 & o3 & E3 & R3).
  destruct o3 as [bs0|e| |k|]; try (destruct R3 as [R3 _]; discriminate). destruct R3 as (tr4 & E4 & _).
  injection E4 as _ <- <-. unfold read1 in E1. destruct (inp s) as [|b0 r] eqn:Ei; [discriminate|]. injection E1 as _ <- <-.
  pose proof (IH _ _ _ _ E3) as Hr. cbn [inp] in Hr. rewrite Hr. reflexivity.
Qed.

Lemma bytes_kept0 A (m : M A) s tr s' o : accounts m -> m s = (tr, s', o) -> Forall isbyte (inp s) -> Forall isbyte (inp s').
Proof. intros Ha E Hb. rewrite (Ha _ _ _ _ E) in Hb. apply Forall_app in Hb as [_ Hb]. exact Hb. Qed.

(** ---- runs from one state *)
Definition runs_ok {A} (m : M A) (s : st) (Q : A -> st -> Prop) : Prop :=
  forall tr s' o, m s = (tr, s', o) -> good o /\ forall a, o = Ok a -> Q a s'.

Lemma ro_of_triple A (pre : st -> Prop) (m : M A) post s : triple pre m post -> pre s -> runs_ok m s (post s).
Proof. intros H Hs tr s' o E. apply (H s tr s' o Hs E). Qed.

Lemma ro_bind A B (m : M A) (f : A -> M B) s (P : A -> st -> Prop) (Q : B -> st -> Prop) :
  runs_ok m s P -> (forall a s1, P a s1 -> runs_ok (f a) s1 Q) -> runs_ok (bind m f) s Q.
Proof.
  intros Hm Hf tr s' o H. destruct (bind_inv _ _ _ _ _ _ _ _ H) as (tr1 & s1 & o1 & E1 & R).
  destruct (Hm _ _ _ E1) as [G1 P1].
  destruct o1 as [a|e| |k|].
  - destruct R as (tr2 & E2 & _). apply (Hf a s1 (P1 a eq_refl) _ _ _ E2).
  - destruct R as [-> _]. split; [exact Logic.I|discriminate].
  - destruct R as [-> _]. split; [exact Logic.I|discriminate].
  - contradiction.
  - contradiction.
Qed.

Lemma ro_weaken A (m : M A) s (P Q : A -> st -> Prop) : (forall a s', P a s' -> Q a s') -> runs_ok m s P -> runs_ok m s Q.
Proof. intros H Hm tr s' o E. destruct (Hm _ _ _ E) as [G P1]. split; [exact G|]. intros a ->. apply H, P1. reflexivity. Qed.

Lemma ro_ret A (a : A) s (Q : A -> st -> Prop) : Q a s -> runs_ok (ret a) s Q.
Proof. intros H tr s' o E. injection E as _ <- <-. split; [exact Logic.I|]. intros a' [= <-]. exact H. Qed.

Lemma ro_emit a s (Q : unit -> st -> Prop) : Q tt s -> runs_ok (emit a) s Q.
Proof. intros H tr s' o E. injection E as _ <- <-. split; [exact Logic.I|]. intros [] _. exact H. Qed.

Lemma ro_fail A e s (Q : A -> st -> Prop) : runs_ok (@fail A e) s Q.
Proof. intros tr s' o E. injection E as _ _ <-. split; [exact Logic.I|discriminate]. Qed.

Lemma ro_eq A (m1 m2 : M A) s Q : m1 s = m2 s -> runs_ok m2 s Q -> runs_ok m1 s Q.
Proof. intros H Hm tr s' o E. rewrite H in E. apply (Hm _ _ _ E). Qed.

(** prefixes of the store's limits: [mxf] relative to the objects that existed in an earlier state *)
Definition mxu (n : nat) (a b : st) : Prop :=
  (List.length (store a) <= List.length (store b))%nat /\ forall i, (i < n)%nat -> sc_max (get_sc b i) = sc_max (get_sc a i).
Lemma mxu_trans n a b c : mxu n a b -> mxu n b c -> mxu n a c.
Proof. intros [L1 H1] [L2 H2]. split; [lia|]. intros i Hi. rewrite H2 by exact Hi. apply H1, Hi. Qed.
Lemma mxf_mxu n a b : (n <= List.length (store a))%nat -> mxf a b -> mxu n a b.
Proof. intros Hn [L H]. split; [exact L|]. intros i Hi. apply H. lia. Qed.
Lemma same_max_mxu n a b : same_max a b -> mxu n a b.
Proof. intros [L H]. split; [lia|]. intros i _. apply H. Qed.

Lemma ro_rep A (f : A -> M A) : (forall x s, runs_ok (f x) s (fun _ s' => mxf s s')) ->
  forall p x s, runs_ok (rep p f x) s (fun _ s' => mxf s s').
Proof.
  intros Hf p x s. apply (ro_of_triple _ (fun _ => True) _ (fun s _ s' => mxf s s')); [|exact Logic.I].
  apply triple_rep. intros y s0 tr s' o _ E. apply (Hf y s0 _ _ _ E).
Qed.

Section Safe.
  Variable T : tables.

  Definition prim_val (t : ty) (a : option value) : Prop :=
    match t with TPrim p => exists z, a = Some (VInt_ (pname p) z) | _ => True end.

  (** the decoded field values seen so far against the field declarations seen so far *)
  Definition relp (prev : list (string * option prim)) (rd : list (string * option value)) : Prop :=
    Forall2 (fun a b => fst a = fst b /\ match snd a with Some p => exists z, snd b = Some (VInt_ (pname p) z) | None => True end) prev rd.

  Lemma relp_lookup sel prev rd p : relp prev rd -> lookupS sel prev = Some (Some p) ->
    exists z, lookupS sel rd = Some (Some (VInt_ (pname p) z)).
  Proof.
    induction 1 as [|[n1 o1] [n2 v2] prev rd [Hn Hv] HR IH]; cbn [lookupS]; [discriminate|].
    cbn [fst snd] in *. subst n2. destruct (String.eqb sel n1); [|exact IH].
    intros [= ->]. destruct Hv as [z ->]. exists z. reflexivity.
  Qed.

  Lemma dec_array_safe lid pa count body s :
    (forall p s0, runs_ok (body p) s0 (fun _ s' => mxf s0 s')) ->
    runs_ok (dec_array lid pa count body) s (fun _ s' => mxf s s').
  Proof.
    intros Hb. unfold dec_array.
    apply ro_bind with (P := fun _ s1 => s1 = s); [apply ro_emit; reflexivity|]. intros _ s1 ->.
    apply ro_bind with (P := fun _ s1 => mxf s s1).
    - destruct count as [|p|p]; cbn [repZ]; [apply ro_ret, mxf_refl| |apply ro_ret, mxf_refl].
      apply ro_rep. intros x s0. apply ro_bind with (P := fun _ s1 => mxf s0 s1); [apply Hb|].
      intros v s1 H1. apply ro_ret. exact H1.
    - intros r s1 H1. apply ro_ret. exact H1.
  Qed.

  (** closing a region after its payload *)
  Lemma close_safe A (body : M A) (g : A -> option value) cid s4 :
    (cid < List.length (store s4))%nat -> sc_max (get_sc s4 cid) <> None ->
    runs_ok body s4 (fun _ s5 => mxf s4 s5) ->
    runs_ok (bind body (fun bv => bind (assert_done true cid) (fun _ => ret (g bv)))) s4 (fun _ s6 => mxf s4 s6).
  Proof.
    intros L4 M4 Hb.
    apply ro_bind with (P := fun _ s5 => mxf s4 s5); [exact Hb|]. intros bv s5 F5.
    assert (M5 : sc_max (get_sc s5 cid) <> None) by (destruct F5 as [_ H5]; rewrite (H5 cid L4); exact M4).
    apply ro_bind with (P := fun _ s6 => same_max s5 s6).
    { apply (ro_of_triple _ _ _ _ s5 (assert_done_safe cid)). exact M5. }
    intros _ s6 SM6. apply ro_ret. eapply mxf_trans; [exact F5|apply same_max_mxf, SM6].
  Qed.

  (** the size-prefixed region of a TPM2B: size field (unsigned), fresh constraint announced and listed, then [k] *)
  Lemma tpm2b_frame_safe (szp : prim) (size_path : path) (k : option value -> nat -> M (option value)) s :
    psigned szp = false -> Forall isbyte (inp s) ->
    (forall szv cid s4, (cid < List.length (store s4))%nat -> sc_max (get_sc s4 cid) <> None -> Forall isbyte (inp s4) ->
                        runs_ok (k szv cid) s4 (fun _ s6 => mxf s4 s6)) ->
    runs_ok (bind (dec_prim true szp size_path) (fun szv =>
             let size := match as_int szv with Some z => z | None => 0 end in
             bind new_sc (fun cid =>
             bind (set_constraint true cid size_path size) (fun _ =>
             bind (append_lst cid) (fun _ => k szv cid))))) s (fun _ s' => mxf s s').
  Proof.
    intros Hu Hb Hp.
    apply ro_bind with (P := fun a s1 => same_max s s1 /\ Forall isbyte (inp s1) /\ exists z, a = Some (VInt_ (pname szp) z) /\ 0 <= z).
    - intros tr s1 o E.
      destruct (dec_prim_safe szp size_path s tr s1 o Logic.I E) as [G P]. split; [exact G|]. intros a ->.
      destruct (P a eq_refl) as [SM _]. split; [exact SM|].
      split; [apply (bytes_kept0 _ _ _ _ _ _ (L_dec_prim (@accounts) accounts_lclosed true szp size_path) E Hb)|].
      (* the value is the unsigned reading of the bytes read *)
      unfold dec_prim in E. destruct (bind_inv _ _ _ _ _ _ _ _ E) as (tr1 & s2 & o1 & E1 & R1).
      destruct o1 as [u|e| |k0|]; try (destruct R1 as [R1 _]; discriminate). destruct R1 as (tr2 & E2 & _).
      destruct (bind_inv _ _ _ _ _ _ _ _ E2) as (tr3 & s3 & o3 & E3 & R3).
      destruct o3 as [bs|e| |k0|]; try (destruct R3 as [R3 _]; discriminate). destruct R3 as (tr4 & E4 & _). cbv zeta in E4.
      assert (Hbs : Forall isbyte bs).
      { pose proof (L_bytes_parsed (@accounts) true accounts_lclosed size_path (pwidth szp) s tr1 s2 (Ok u) E1) as I1.
        pose proof (readn_val _ _ _ _ _ E3) as I3.
        rewrite I1 in Hb. apply Forall_app in Hb as [_ Hb]. rewrite I3 in Hb. apply Forall_app in Hb as [Hb _]. exact Hb. }
      destruct (valid szp (from_bytes (psigned szp) bs)).
      + unfold bind, emit, ret in E4. injection E4 as _ _ <-. eexists. split; [reflexivity|]. rewrite Hu.
        destruct bs as [|b0 bs']; [cbv; discriminate|].
        apply (from_bytes_range false (b0 :: bs') Hbs ltac:(discriminate)). reflexivity.
      + discriminate.
    - intros szv s1 (SM1 & Hb1 & z & -> & Hz). cbn [as_int]. cbv zeta.
      apply ro_bind with (P := fun cid s2 => cid = List.length (store s1) /\ s2 = mkSt (inp s1) (store s1 ++ [sc_new]) (lst s1)).
      { intros tr s2 o E. injection E as _ <- <-. split; [exact Logic.I|]. intros a [= <-]. split; reflexivity. }
      intros cid s2 (-> & ->). set (cid := List.length (store s1)). set (s2 := mkSt (inp s1) (store s1 ++ [sc_new]) (lst s1)).
      set (n0 := List.length (store s)).
      assert (Hn0 : (n0 <= cid)%nat) by (destruct SM1 as [L _]; unfold n0, cid; lia).
      assert (U2 : mxu n0 s s2).
      { apply (mxu_trans _ _ s1); [apply same_max_mxu, SM1|]. split; [cbn [s2 store]; rewrite app_length; lia|].
        intros i Hi. unfold get_sc. cbn [s2 store]. rewrite app_nth1 by (fold cid; lia). reflexivity. }
      apply ro_bind with (P := fun _ s3 => List.length (store s3) = List.length (store s2) /\ sc_max (get_sc s3 cid) = Some z /\
                                           (forall j, j <> cid -> sc_max (get_sc s3 j) = sc_max (get_sc s2 j)) /\ inp s3 = inp s2).
      { apply (ro_of_triple _ _ _ _ s2 (set_constraint_safe cid size_path z Hz)). cbn [s2 store]. rewrite app_length. cbn. fold cid. lia. }
      intros _ s3 (L3 & M3 & O3 & I3).
      assert (U3 : mxu n0 s s3).
      { apply (mxu_trans _ _ s2 _ U2). split; [lia|]. intros i Hi. apply O3. lia. }
      apply ro_bind with (P := fun _ s4 => store s4 = store s3 /\ inp s4 = inp s3).
      { intros tr s4 o E. injection E as _ <- <-. split; [exact Logic.I|]. intros; split; reflexivity. }
      intros _ s4 [St4 I4].
      assert (Hb4 : Forall isbyte (inp s4)) by (rewrite I4, I3; exact Hb1).
      assert (M4 : sc_max (get_sc s4 cid) <> None) by (unfold get_sc; rewrite St4; fold (get_sc s3 cid); rewrite M3; discriminate).
      assert (L4 : (cid < List.length (store s4))%nat) by (rewrite St4, L3; cbn [s2 store]; rewrite app_length; cbn; fold cid; lia).
      eapply ro_weaken; [|apply (Hp _ cid s4 L4 M4 Hb4)]. cbv beta. intros _ s6 F6.
      assert (U : mxu n0 s s6).
      { apply (mxu_trans _ _ s3 _ U3). apply (mxu_trans _ _ s4); [apply same_max_mxu, same_store_max, St4|].
        apply mxf_mxu; [lia|exact F6]. }
      exact U.
  Qed.
End Safe.

Section SafeTy.
  Variable T : tables.

  (** a run's input is a suffix of the input it started with *)
  Lemma bytes_kept A (m : M A) s tr s' o : accounts m -> m s = (tr, s', o) -> Forall isbyte (inp s) -> Forall isbyte (inp s').
  Proof. intros Ha E Hb. rewrite (Ha _ _ _ _ E) in Hb. apply Forall_app in Hb as [_ Hb]. exact Hb. Qed.

  Lemma ro_bytes A (m : M A) s (Q : A -> st -> Prop) : accounts m -> runs_ok m s Q ->
    runs_ok m s (fun a s' => Q a s' /\ (Forall isbyte (inp s) -> Forall isbyte (inp s'))).
  Proof.
    intros Ha Hm tr s' o E. destruct (Hm _ _ _ E) as [G P]. split; [exact G|]. intros a ->. split; [apply P; reflexivity|].
    apply (bytes_kept _ _ _ _ _ _ Ha E).
  Qed.

  Lemma acc_ty t pa sel enc : accounts (dec_ty T true t pa sel enc).
  Proof. apply (P_dec_ty T true (@accounts) (lclosed_closed _ accounts_lclosed true)). Qed.

  Definition S_ty (t : ty) : Prop := safe_ty t = true -> forall pa sel s, (is_union t = true -> sel <> None) -> Forall isbyte (inp s) ->
    runs_ok (dec_ty T true t pa sel false) s (fun a s' => mxf s s' /\ prim_val t a).
  Definition S_fields (fs : fields) : Prop := forall prev, safe_fields fs prev = true -> forall pa rd s, relp prev rd -> Forall isbyte (inp s) ->
    runs_ok (dec_fields T true fs pa rd) s (fun _ s' => mxf s s').
  Definition S_armp (p : armp) : Prop := match p with PNone => True | PTy t => S_ty t | PList e _ => S_ty e end.
  Definition S_arms (ar : arms) : Prop := forall uname pa target p s, arm_at ar target = Some p -> armp_safe p = true -> Forall isbyte (inp s) ->
    runs_ok (dec_arms T true ar uname pa target) s (fun _ s' => mxf s s').

  Lemma nonunion_sel t (sel : option (string * Z)) : nonunion t = true -> is_union t = true -> sel <> None.
  Proof. unfold nonunion. intros H1 H2. rewrite H2 in H1. discriminate. Qed.

  (** a list of elements of a safe non-union type *)
  Lemma array_of_safe lid pa count e s : S_ty e -> nonunion e = true -> safe_ty e = true -> Forall isbyte (inp s) ->
    runs_ok (dec_array lid pa count (fun p => dec_ty T true e p None false)) s (fun _ s' => mxf s s').
  Proof.
    intros IH Hn Hs Hb.
    (* the element decoder is only ever started on byte input: carry that through the loop *)
    assert (Hloop : forall (f : Z * list (option value) -> M (Z * list (option value))),
              (forall x s0, Forall isbyte (inp s0) -> runs_ok (f x) s0 (fun _ s' => mxf s0 s' /\ Forall isbyte (inp s'))) ->
              forall p x s0, Forall isbyte (inp s0) -> runs_ok (rep p f x) s0 (fun _ s' => mxf s0 s' /\ Forall isbyte (inp s'))).
    { intros f Hf p. induction p as [q IHq|q IHq|]; intros x s0 Hb0; cbn [rep].
      - apply ro_bind with (P := fun _ s1 => mxf s0 s1 /\ Forall isbyte (inp s1)); [apply Hf, Hb0|]. intros y s1 [F1 B1].
        apply ro_bind with (P := fun _ s2 => mxf s0 s2 /\ Forall isbyte (inp s2)).
        + eapply ro_weaken; [|apply (IHq y s1 B1)]. intros _ s2 [F2 B2]. split; [eapply mxf_trans; eassumption|exact B2].
        + intros z s2 [F2 B2]. eapply ro_weaken; [|apply (IHq z s2 B2)]. intros _ s3 [F3 B3]. split; [eapply mxf_trans; eassumption|exact B3].
      - apply ro_bind with (P := fun _ s1 => mxf s0 s1 /\ Forall isbyte (inp s1)); [apply IHq, Hb0|]. intros y s1 [F1 B1].
        eapply ro_weaken; [|apply (IHq y s1 B1)]. intros _ s2 [F2 B2]. split; [eapply mxf_trans; eassumption|exact B2].
      - apply Hf, Hb0. }
    unfold dec_array.
    apply ro_bind with (P := fun _ s1 => s1 = s); [apply ro_emit; reflexivity|]. intros _ s1 ->.
    apply ro_bind with (P := fun _ s1 => mxf s s1).
    - destruct count as [|p|p]; cbn [repZ]; [apply ro_ret, mxf_refl| |apply ro_ret, mxf_refl].
      apply ro_weaken with (P := fun _ s' => mxf s s' /\ Forall isbyte (inp s')); [intros ? s' [F _]; exact F|]. apply Hloop; [|exact Hb].
      intros x s0 Hb0. apply ro_bind with (P := fun _ s1 => mxf s0 s1 /\ Forall isbyte (inp s1)).
      + eapply ro_weaken; [|apply (ro_bytes _ _ _ _ (acc_ty e _ None false) (IH Hs (pindex pa (fst x)) None s0 (nonunion_sel e None Hn) Hb0))].
        cbv beta. intros a s' [[F _] B]. split; [exact F|apply B, Hb0].
      + intros v s1 H1. apply ro_ret. exact H1.
    - intros r s1 H1. apply ro_ret. exact H1.
  Qed.

  Lemma acc_array lid pa count e : accounts (dec_array lid pa count (fun p => dec_ty T true e p None false)).
  Proof. apply (P_dec_array true (@accounts) (lclosed_closed _ accounts_lclosed true)). intros p. apply acc_ty. Qed.

  Theorem safe_all : (forall t, S_ty t) /\ (forall fs, S_fields fs) /\ (forall ar, S_arms ar) /\ (forall p, S_armp p).
  Proof.
    apply ty_mutind.
    - (* TPrim *)
      intros p _ pa sel s _ _. change (dec_ty T true (TPrim p) pa sel false) with (dec_prim true p pa).
      eapply ro_weaken; [|apply (ro_of_triple _ _ _ _ s (dec_prim_safe p pa) Logic.I)].
      cbv beta. intros a s' [SM Hv]. split; [apply same_max_mxf, SM|exact Hv].
    - (* TStruct *)
      intros name isp fs IH Hs pa sel s _ Hb. cbn [safe_ty] in Hs. rewrite dec_ty_struct. cbn [andb]. cbv zeta.
      apply ro_bind with (P := fun _ s1 => s1 = s); [apply ro_emit; reflexivity|]. intros _ s1 ->.
      apply ro_bind with (P := fun _ s1 => mxf s s1); [apply (IH [] Hs pa [] s ltac:(constructor) Hb)|].
      intros vals s1 F1. apply ro_ret. split; [exact F1|exact Logic.I].
    - (* TTpm2bList *)
      intros name szf buf szp e IH Hs pa sel s _ Hb. cbn [safe_ty] in Hs. apply andb_prop in Hs as [Hs He]. apply andb_prop in Hs as [Hu Hn]. apply andb_prop in Hu as [Hu _].
      rewrite dec_ty_tpm2b_list. unfold dec_tpm2b_list.
      apply ro_bind with (P := fun _ s1 => s1 = s); [apply ro_emit; reflexivity|]. intros _ s1 ->.
      eapply ro_weaken; [|apply (tpm2b_frame_safe szp (pchild pa szf)
        (fun szv cid => bind (dec_array (list_id e) (pchild pa buf) (match as_int szv with Some z => z | None => 0 end) (fun p => dec_ty T true e p None false))
                          (fun bv => bind (assert_done true cid) (fun _ => ret (Some (VStruct_ (TyN name) [(szf, szv); (buf, bv)])))))
        s ltac:(destruct (psigned szp); [discriminate|reflexivity]) Hb)].
      + cbv beta. intros a s' F. split; [exact F|exact Logic.I].
      + intros szv cid s4 L4 M4 Hb4. apply (close_safe _ _ (fun bv => Some (VStruct_ (TyN name) [(szf, szv); (buf, bv)])) cid s4 L4 M4).
        apply (array_of_safe _ _ _ e s4 IH Hn He Hb4).
    - (* TTpm2bStruct *)
      intros name szf buf szp inner IH Hs pa sel s _ Hb. cbn [safe_ty] in Hs. apply andb_prop in Hs as [Hs He]. apply andb_prop in Hs as [Hu Hn]. apply andb_prop in Hu as [Hu _].
      rewrite dec_ty_tpm2b_struct.
      apply ro_bind with (P := fun _ s1 => s1 = s); [apply ro_emit; reflexivity|]. intros _ s1 ->. cbv zeta.
      eapply ro_weaken; [|apply (tpm2b_frame_safe szp (pchild pa szf)
        (fun szv cid => if (match as_int szv with Some z => z | None => 0 end) =? 0
                        then bind (emit (sev (pchild pa buf) (ty_id inner))) (fun _ => bind (assert_done true cid) (fun _ => ret (Some (VStruct_ (TyN name) [(szf, szv); (buf, None)]))))
                        else catch_exceeded true [cid]
                               (bind (dec_ty T true inner (pchild pa buf) None false) (fun bv => bind (assert_done true cid) (fun _ => ret (Some (VStruct_ (TyN name) [(szf, szv); (buf, bv)])))))
                               (ret None))
        s ltac:(destruct (psigned szp); [discriminate|reflexivity]) Hb)].
      + cbv beta. intros a s' F. split; [exact F|exact Logic.I].
      + intros szv cid s4 L4 M4 Hb4. destruct (_ =? 0).
        * apply (close_safe _ (emit (sev (pchild pa buf) (ty_id inner))) (fun _ => Some (VStruct_ (TyN name) [(szf, szv); (buf, None)])) cid s4 L4 M4).
          apply ro_emit. apply mxf_refl.
        * eapply ro_eq; [apply catch_true|].
          apply (close_safe _ _ (fun bv => Some (VStruct_ (TyN name) [(szf, szv); (buf, bv)])) cid s4 L4 M4).
          eapply ro_weaken; [|apply (IH He (pchild pa buf) None s4 (nonunion_sel inner None Hn) Hb4)]. cbv beta. intros a s' [F _]. exact F.
    - (* TUnion *)
      intros name ar IH Hs pa sel s Hsel Hb. cbn [safe_ty] in Hs. apply andb_prop in Hs as [Hd Ha]. rewrite dec_ty_union.
      apply ro_bind with (P := fun _ s1 => s1 = s); [apply ro_emit; reflexivity|]. intros _ s1 ->.
      destruct (select_arm ar sel) as [[n p]|] eqn:Es.
      + destruct (select_arm_safe ar sel n p Hd Ha Es) as [Hat Hp].
        eapply ro_weaken; [|apply (IH name pa n p s Hat Hp Hb)]. cbv beta. intros a s' F. split; [exact F|exact Logic.I].
      + destruct sel as [[tn z]|]; [apply ro_fail|]. exfalso. apply (Hsel eq_refl). reflexivity.
    - (* FNil *)
      intros prev _ pa rd s _ _. cbn [dec_fields]. apply ro_ret, mxf_refl.
    - (* FPlain *)
      intros n t IHt r IHr prev Hs pa rd s HR Hb. cbn [safe_fields] in Hs. apply andb_prop in Hs as [Hs Hr]. apply andb_prop in Hs as [Hn Ht].
      rewrite dec_fields_plain.
      apply ro_bind with (P := fun a s1 => (mxf s s1 /\ prim_val t a) /\ (Forall isbyte (inp s) -> Forall isbyte (inp s1))).
      + apply ro_bytes; [apply acc_ty|]. apply (IHt Ht (pchild pa n) None s (nonunion_sel t None Hn) Hb).
      + intros v s1 [[F1 Hv] B1]. eapply ro_weaken; [|apply (IHr _ Hr pa ((n, v) :: rd) s1)].
        * cbv beta. intros _ s2 F2. eapply mxf_trans; eassumption.
        * constructor; [|exact HR]. cbn [fst snd]. split; [reflexivity|]. destruct t; try exact Logic.I. exact Hv.
        * apply B1, Hb.
    - (* FList *)
      intros n e IHe r IHr prev Hs pa rd s HR Hb. cbn [safe_fields] in Hs.
      destruct prev as [|[cn [p0|]] prev']; try discriminate.
      apply andb_prop in Hs as [Hs Hr]. apply andb_prop in Hs as [Hn He].
      inversion HR as [|a [cn' v] ? rd' [Hcn Hv] HR']; subst. cbn [fst snd] in *. destruct Hv as [z ->].
      rewrite dec_fields_list. cbn [last_nonlist is_list_value as_int].
      apply ro_bind with (P := fun _ s1 => mxf s s1 /\ (Forall isbyte (inp s) -> Forall isbyte (inp s1))).
      + apply ro_bytes; [apply acc_array|]. apply (array_of_safe _ _ _ e s IHe Hn He Hb).
      + intros v s1 [F1 B1]. eapply ro_weaken; [|apply (IHr _ Hr pa ((n, v) :: (cn', Some (VInt_ (pname p0) z)) :: rd') s1)].
        * cbv beta. intros _ s2 F2. eapply mxf_trans; eassumption.
        * constructor; [split; [reflexivity|exact Logic.I]|exact HR].
        * apply B1, Hb.
    - (* FUnion *)
      intros n seln u IHu r IHr prev Hs pa rd s HR Hb. cbn [safe_fields] in Hs.
      destruct (lookupS seln prev) as [[p0|]|] eqn:Lk; try discriminate.
      apply andb_prop in Hs as [Hs Hr]. apply andb_prop in Hs as [Hun Hu].
      destruct (relp_lookup seln prev rd p0 HR Lk) as [z Lz].
      rewrite dec_fields_union, Lz. cbn [as_typed_int].
      apply ro_bind with (P := fun a s1 => (mxf s s1 /\ prim_val u a) /\ (Forall isbyte (inp s) -> Forall isbyte (inp s1))).
      + apply ro_bytes; [apply acc_ty|]. apply (IHu Hu (pchild pa n) (Some (pname p0, z)) s ltac:(intros _; discriminate) Hb).
      + intros v s1 [[F1 _] B1]. eapply ro_weaken; [|apply (IHr _ Hr pa ((n, v) :: rd) s1)].
        * cbv beta. intros _ s2 F2. eapply mxf_trans; eassumption.
        * constructor; [split; [reflexivity|exact Logic.I]|exact HR].
        * apply B1, Hb.
    - (* ANil *) intros uname pa target p s H. discriminate.
    - (* ACons *)
      intros n key p IHp r IHr uname pa target p1 s Hat Hp Hb. rewrite dec_arms_cons. cbn [arm_at] in Hat.
      destruct (String.eqb n target); [|apply (IHr uname pa target p1 s Hat Hp Hb)].
      injection Hat as ->. destruct p1 as [|t|e [cnt|]]; cbn [armp_safe] in Hp; try discriminate.
      + apply ro_ret, mxf_refl.
      + apply andb_prop in Hp as [Hn Ht].
        apply ro_bind with (P := fun _ s1 => mxf s s1).
        * eapply ro_weaken; [|apply (IHp Ht (pchild pa n) None s (nonunion_sel t None Hn) Hb)]. cbv beta. intros a s' [F _]. exact F.
        * intros v s1 F1. apply ro_ret. exact F1.
      + apply andb_prop in Hp as [Hn He].
        apply ro_bind with (P := fun _ s1 => mxf s s1); [apply (array_of_safe _ _ _ e s IHp Hn He Hb)|].
        intros v s1 F1. apply ro_ret. exact F1.
    - exact Logic.I.
    - intros t IH. exact IH.
    - intros e IH n. exact IH.
  Qed.
End SafeTy.

(** ---- through the byte pump *)
Definition documented (o : outcome) : Prop := match o with OCrash _ | OFuel => False | _ => True end.

Lemma pump_documented {A} abort is_stream input (run : list action * st * out A) :
  good (snd run) -> documented (snd (pump abort is_stream input run)).
Proof.
  destruct run as [[tr s'] o]. cbn [snd]. intros G. unfold pump.
  destruct (pump_go is_stream _ tr _) as [ps stp]. destruct stp; [exact Logic.I|].
  destruct o as [v|e| |k|]; cbn [good] in G; try contradiction.
  - destruct (skipZ input (ps_nrd ps)); [exact Logic.I|]. destruct abort; exact Logic.I.
  - exact Logic.I.
  - destruct abort; exact Logic.I.
Qed.

(** C06 for structure types: strict decoding of ANY byte string as a non-union type passing the check ends with a
    documented outcome (accepted, a constraint error, depleted, superfluous) - never an internal error, never the
    loop bound *)
Theorem types_never_crash T t bs : safe_ty t = true -> nonunion t = true -> Forall isbyte bs ->
  documented (snd (decode T true (RType t) bs)).
Proof.
  intros Hs Hn Hb. unfold decode. apply pump_documented.
  destruct (dec_root T true (RType t) (init_st bs)) as [[tr s'] o] eqn:E. cbn [snd]. cbn [dec_root] in E.
  unfold bind in E. cbn [set_lst init_st inp store lst] in E.
  destruct (dec_ty T true t root_path None false (mkSt bs [] [])) as [[tr1 s1] o1] eqn:E1.
  destruct (proj1 (safe_all T) t Hs root_path None (mkSt bs [] []) (nonunion_sel t None Hn) Hb tr1 s1 o1 E1) as [G _].
  destruct o1; injection E as _ _ <-; exact G.
Qed.

(** every decodable (non-union) type of the tables, and every area type of every command *)
Definition safe_types (T : tables) : bool :=
  forallb (fun nt => is_union (snd nt) || safe_ty (snd nt)) (types T) &&
  forallb (fun kt => nonunion (snd kt) && safe_ty (snd kt)) (cmd_handles T ++ cmd_params T ++ rsp_handles T ++ rsp_params T).
