(** Completeness, part 1: runs can be restricted to the bytes they consume.
    If a run on the input [inp s ++ ys] reads no more than [inp s], the same run happens on [inp s] alone. *)
From Coq Require Import ZArith List String Bool Lia.
From TV Require Import Layout.Types Base.Bytes Model.Monad Model.Constraints Model.Ints Model.Decoder Model.Message
  Proofs.Closure Proofs.LowClosure Proofs.Account Proofs.Incremental.
Import ListNotations.
Open Scope list_scope.

Definition restr {A} (m : M A) : Prop :=
  accounts m /\
  forall s ys tr s1 o, m (ext s ys) = (tr, s1, o) -> (List.length (bytes_of tr) <= List.length (inp s))%nat -> (o = More -> ys = []) ->
    exists s', s1 = ext s' ys /\ m s = (tr, s', o).

Lemma ext_nil s : ext s [] = s.
Proof. unfold ext. rewrite app_nil_r. destruct s; reflexivity. Qed.

Lemma restr_pure A (m : M A) : accounts m ->
  (forall s, exists tr o f, o <> More /\ forall ys, m (ext s ys) = (tr, mkSt (inp s ++ ys) (fst (f (store s) (lst s))) (snd (f (store s) (lst s))), o)) ->
  restr m.
Proof.
  intros Ha Hm. split; [exact Ha|]. intros s ys tr s1 o H _ _. destruct (Hm s) as (tr0 & o0 & f & Hne & E).
  rewrite E in H. injection H as <- <- <-.
  exists (mkSt (inp s) (fst (f (store s) (lst s))) (snd (f (store s) (lst s)))). split; [reflexivity|].
  pose proof (E []) as E0. rewrite ext_nil in E0. rewrite E0. rewrite app_nil_r. reflexivity.
Qed.

Ltac pure_op f := apply restr_pure; [|intros s; eexists _, _, f; split; [|intros ys; unfold ext, get, ret, fail, internal_, fuel_, emit, set_sc, new_sc, set_lst, append_lst, remove_lst; cbn [store lst inp fst snd]; reflexivity]; discriminate].

Lemma restr_ret A (a : A) : restr (ret a).
Proof. pure_op (fun (st_ : list sc) (l : list nat) => (st_, l)). apply acc_ret. Qed.
Lemma restr_get : restr get.
Proof. pure_op (fun (st_ : list sc) (l : list nat) => (st_, l)). apply acc_get. Qed.
Lemma restr_fail A e : restr (@fail A e).
Proof. pure_op (fun (st_ : list sc) (l : list nat) => (st_, l)). apply acc_fail. Qed.
Lemma restr_internal A k : restr (@internal_ A k).
Proof. pure_op (fun (st_ : list sc) (l : list nat) => (st_, l)). apply acc_internal. Qed.
Lemma restr_fuel A : restr (@fuel_ A).
Proof. pure_op (fun (st_ : list sc) (l : list nat) => (st_, l)). apply acc_fuel. Qed.
Lemma restr_set_sc i c : restr (set_sc i c).
Proof. pure_op (fun (st_ : list sc) (l : list nat) => (upd st_ i c, l)). apply acc_set_sc. Qed.
Lemma restr_new_sc : restr new_sc.
Proof. pure_op (fun (st_ : list sc) (l : list nat) => (st_ ++ [sc_new], l)). apply acc_new_sc. Qed.
Lemma restr_set_lst l0 : restr (set_lst l0).
Proof. pure_op (fun (st_ : list sc) (l : list nat) => (st_, l0)). apply acc_set_lst. Qed.
Lemma restr_append_lst i : restr (append_lst i).
Proof. pure_op (fun (st_ : list sc) (l : list nat) => (st_, l ++ [i])). apply acc_append_lst. Qed.
Lemma restr_remove_lst i : restr (remove_lst i).
Proof. pure_op (fun (st_ : list sc) (l : list nat) => (st_, remove1 i l)). apply acc_remove_lst. Qed.

Lemma restr_emit a : (match a with Rd _ => False | _ => True end) -> restr (emit a).
Proof.
  intros Ha. pure_op (fun (st_ : list sc) (l : list nat) => (st_, l)).
  destruct a as [b|e|w]; [contradiction|apply acc_emit_ev|apply acc_emit_wn].
Qed.

Lemma restr_read1 : restr read1.
Proof.
  split; [apply acc_read1|]. intros s ys tr s1 o H Hl Hm. unfold read1, ext in H. cbn [inp store lst] in H.
  destruct (inp s) as [|b r] eqn:E; cbn [app] in H.
  - destruct ys as [|y ys'].
    + injection H as <- <- <-. exists s. split; [unfold ext; rewrite E; destruct s; cbn in *; subst; reflexivity|]. unfold read1. rewrite E. reflexivity.
    + injection H as <- <- <-. cbn in Hl. lia.
  - injection H as <- <- <-. exists (mkSt r (store s) (lst s)). split; [reflexivity|]. unfold read1. rewrite E. reflexivity.
Qed.

Lemma take_bytes_len l n : forall t rest d, take_bytes l n = (t, rest, d) -> l = t ++ rest.
Proof.
  revert n. induction l as [|b r IH]; intros n t rest d H; cbn [take_bytes] in H.
  - destruct (Z.leb n 0); injection H as <- <- _; reflexivity.
  - destruct (Z.leb n 0); [injection H as <- <- _; reflexivity|].
    destruct (take_bytes r (n - 1)) as [[t' rest'] d'] eqn:E. injection H as <- <- _. cbn [app]. f_equal. eapply IH. exact E.
Qed.

Lemma take_bytes_restrict l ys n : forall t rest d, take_bytes (l ++ ys) n = (t, rest, d) -> (List.length t <= List.length l)%nat -> (d = false -> ys = []) ->
  exists rest', rest = rest' ++ ys /\ take_bytes l n = (t, rest', d).
Proof.
  revert n. induction l as [|b r IH]; intros n t rest d H Hl Hd; cbn [app] in H.
  - destruct ys as [|y ys'].
    + exists rest. rewrite app_nil_r. split; [reflexivity|exact H].
    + cbn [take_bytes] in H. destruct (Z.leb n 0) eqn:En.
      * injection H as <- <- <-. exists []. split; [reflexivity|]. cbn [take_bytes]. rewrite En. reflexivity.
      * destruct (take_bytes ys' (n - 1)) as [[t' rest'] d']. injection H as <- _ _. cbn in Hl. lia.
  - cbn [take_bytes] in H |- *. destruct (Z.leb n 0).
    + injection H as <- <- <-. exists (b :: r). split; reflexivity.
    + destruct (take_bytes (r ++ ys) (n - 1)) as [[t' rest'] d'] eqn:E. injection H as <- <- <-.
      cbn [List.length] in Hl. destruct (IH _ _ _ _ E ltac:(lia) Hd) as (rest0 & -> & E0). exists rest0. rewrite E0. split; reflexivity.
Qed.

Lemma restr_consume n : restr (consume n).
Proof.
  split; [apply acc_consume|]. intros s ys tr s1 o H Hl Hm. unfold consume, ext in H. cbn [inp store lst] in H.
  destruct (take_bytes (inp s ++ ys) n) as [[t rest] d] eqn:E. injection H as <- <- <-.
  rewrite bytes_of_map_Rd in Hl.
  destruct (take_bytes_restrict _ _ _ _ _ _ E Hl ltac:(intros ->; apply Hm; reflexivity)) as (rest' & -> & E').
  exists (mkSt rest' (store s) (lst s)). split; [reflexivity|]. unfold consume. rewrite E'. reflexivity.
Qed.

Lemma restr_bind A B (m : M A) (f : A -> M B) : restr m -> (forall a, restr (f a)) -> restr (bind m f).
Proof.
  intros [Ham Hm] Hf. split; [apply acc_bind; [exact Ham|intros a; apply (Hf a)]|].
  intros s ys tr s2 o H Hl Hmo. unfold bind in H.
  destruct (m (ext s ys)) as [[tr1 s1] o1] eqn:E1.
  destruct o1 as [a|e| |k|].
  - destruct (f a s1) as [[tr2 s2'] o2] eqn:E2. injection H as <- <- <-.
    rewrite bytes_of_app, app_length in Hl.
    destruct (Hm _ _ _ _ _ E1 ltac:(lia) ltac:(discriminate)) as (s1' & -> & E1').
    pose proof (Ham _ _ _ _ E1') as Acc. apply (f_equal (@List.length Z)) in Acc. rewrite app_length in Acc.
    destruct (proj2 (Hf a) _ _ _ _ _ E2 ltac:(lia) Hmo) as (s2'' & -> & E2').
    exists s2''. split; [reflexivity|]. unfold bind. rewrite E1', E2'. reflexivity.
  - injection H as <- <- <-. destruct (Hm _ _ _ _ _ E1 Hl ltac:(discriminate)) as (s1' & -> & E1').
    exists s1'. split; [reflexivity|]. unfold bind. rewrite E1'. reflexivity.
  - injection H as <- <- <-. destruct (Hm _ _ _ _ _ E1 Hl ltac:(intros _; apply Hmo; reflexivity)) as (s1' & -> & E1').
    exists s1'. split; [reflexivity|]. unfold bind. rewrite E1'. reflexivity.
  - injection H as <- <- <-. destruct (Hm _ _ _ _ _ E1 Hl ltac:(discriminate)) as (s1' & -> & E1').
    exists s1'. split; [reflexivity|]. unfold bind. rewrite E1'. reflexivity.
  - injection H as <- <- <-. destruct (Hm _ _ _ _ _ E1 Hl ltac:(discriminate)) as (s1' & -> & E1').
    exists s1'. split; [reflexivity|]. unfold bind. rewrite E1'. reflexivity.
Qed.

Lemma restr_catch A abort ids (m h : M A) : restr m -> restr h -> restr (catch_exceeded abort ids m h).
Proof.
  intros [Ham Hm] [Hah Hh]. split; [apply acc_catch; assumption|].
  intros s ys tr s2 o H Hl Hmo. unfold catch_exceeded in H.
  destruct (m (ext s ys)) as [[tr1 s1] o1] eqn:E1.
  destruct o1 as [a|e| |k|].
  - injection H as <- <- <-. destruct (Hm _ _ _ _ _ E1 Hl ltac:(discriminate)) as (s1' & -> & E1').
    exists s1'. split; [reflexivity|]. unfold catch_exceeded. rewrite E1'. reflexivity.
  - destruct e as [p0 tn v src|c v b|c v val b|c|cc|rest cc|mp me mf];
      try (injection H as <- <- <-; destruct (Hm _ _ _ _ _ E1 Hl ltac:(discriminate)) as (s1' & -> & E1');
           exists s1'; split; [reflexivity|]; unfold catch_exceeded; rewrite E1'; reflexivity).
    destruct (abort || negb (existsb (Nat.eqb (si_id c)) ids)) eqn:G.
    + injection H as <- <- <-. destruct (Hm _ _ _ _ _ E1 Hl ltac:(discriminate)) as (s1' & -> & E1').
      exists s1'. split; [reflexivity|]. unfold catch_exceeded. rewrite E1', G. reflexivity.
    + destruct (h s1) as [[tr2 s2'] o2] eqn:E2. injection H as <- <- <-.
      rewrite bytes_of_app, app_length in Hl. cbn [bytes_of] in Hl.
      destruct (Hm _ _ _ _ _ E1 ltac:(lia) ltac:(discriminate)) as (s1' & -> & E1').
      pose proof (Ham _ _ _ _ E1') as Acc. apply (f_equal (@List.length Z)) in Acc. rewrite app_length in Acc.
      destruct (Hh _ _ _ _ _ E2 ltac:(lia) Hmo) as (s2'' & -> & E2').
      exists s2''. split; [reflexivity|]. unfold catch_exceeded. rewrite E1', G, E2'. reflexivity.
  - injection H as <- <- <-. destruct (Hm _ _ _ _ _ E1 Hl Hmo) as (s1' & -> & E1').
    exists s1'. split; [reflexivity|]. unfold catch_exceeded. rewrite E1'. reflexivity.
  - injection H as <- <- <-. destruct (Hm _ _ _ _ _ E1 Hl ltac:(discriminate)) as (s1' & -> & E1').
    exists s1'. split; [reflexivity|]. unfold catch_exceeded. rewrite E1'. reflexivity.
  - injection H as <- <- <-. destruct (Hm _ _ _ _ _ E1 Hl ltac:(discriminate)) as (s1' & -> & E1').
    exists s1'. split; [reflexivity|]. unfold catch_exceeded. rewrite E1'. reflexivity.
Qed.

Lemma restr_lclosed : lclosed (@restr).
Proof.
  constructor; intros.
  - apply restr_ret.
  - apply restr_bind; assumption.
  - apply restr_get.
  - apply restr_fail.
  - apply restr_internal.
  - apply restr_fuel.
  - apply restr_emit. destruct a; [contradiction|exact I|exact I].
  - apply restr_read1.
  - apply restr_consume.
  - apply restr_set_sc.
  - apply restr_new_sc.
  - apply restr_set_lst.
  - apply restr_append_lst.
  - apply restr_remove_lst.
  - apply restr_catch; assumption.
Qed.

(** every decoder function, both modes, all tables *)
Theorem restr_dec_root T abort r : restr (dec_root T abort r).
Proof. apply L_dec_root. apply restr_lclosed. Qed.
Lemma restr_dec_ty T abort t pa sel enc : restr (dec_ty T abort t pa sel enc).
Proof. apply (P_dec_ty T abort (@restr) (lclosed_closed _ restr_lclosed abort)). Qed.
