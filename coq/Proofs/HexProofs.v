(** The hex front-end accepts exactly the texts that spell a byte string as pairs of hex digits
    (any case) with whitespace anywhere between and inside the pairs, and delivers those bytes. *)
From Coq Require Import ZArith List String Bool Lia.
From TV Require Import Model.Frontends.
Import ListNotations.
Open Scope Z_scope.

(** [spells s bs]: the text [s] is a sequence of hex pairs, possibly split by whitespace, spelling [bs] *)
Inductive spells : list Z -> list Z -> Prop :=
| sp_nil : spells [] []
| sp_ws c s bs : is_ws c = true -> spells s bs -> spells (c :: s) bs
| sp_pair h a ws l b s bs :
    is_ws h = false -> hexval h = Some a -> forallb is_ws ws = true ->
    is_ws l = false -> hexval l = Some b -> spells s bs ->
    spells (h :: ws ++ l :: s) (16 * a + b :: bs).

(** after a pending high nibble [h]: whitespace, a low nibble, then the rest *)
Inductive spells_low (a : Z) : list Z -> list Z -> Prop :=
| sl_ws c s bs : is_ws c = true -> spells_low a s bs -> spells_low a (c :: s) bs
| sl_low l b s bs : is_ws l = false -> hexval l = Some b -> spells s bs -> spells_low a (l :: s) (16 * a + b :: bs).

Lemma spells_low_split a s bs : spells_low a s bs ->
  exists ws l b r bs', s = ws ++ l :: r /\ forallb is_ws ws = true /\ is_ws l = false /\ hexval l = Some b /\
                       spells r bs' /\ bs = 16 * a + b :: bs'.
Proof.
  induction 1 as [c s bs Hc H IH|l b s bs Hl Hb H].
  - destruct IH as (ws & l & b & r & bs' & -> & Hws & Hl & Hb & Hr & ->).
    exists (c :: ws), l, b, r, bs'. cbn [app forallb]. rewrite Hc, Hws. repeat split; assumption.
  - exists [], l, b, s, bs. cbn. repeat split; assumption.
Qed.

Lemma hexval_not_ws c a : hexval c = Some a -> is_ws c = false.
Proof.
  unfold hexval, is_ws. intros H.
  destruct ((48 <=? c) && (c <=? 57)) eqn:E1; [lia|].
  destruct ((65 <=? c) && (c <=? 70)) eqn:E2; [lia|].
  destruct ((97 <=? c) && (c <=? 102)) eqn:E3; [lia|discriminate].
Qed.

Lemma hex_go_sound : forall s,
  (forall bs, hex_go s None = mkParsed bs true -> spells s bs) /\
  (forall h a bs, hexval h = Some a -> hex_go s (Some h) = mkParsed bs true -> spells_low a s bs).
Proof.
  induction s as [|c r [IHn IHs]]; split.
  - cbn. intros bs [= <-]. constructor.
  - cbn. intros h a bs _ H. discriminate.
  - intros bs H. cbn [hex_go] in H. destruct (is_ws c) eqn:W.
    + apply sp_ws; [exact W|apply IHn, H].
    + (* c becomes the pending high nibble *)
      destruct (hexval c) as [a|] eqn:Hc.
      * pose proof (IHs c a bs Hc H) as L.
        destruct (spells_low_split _ _ _ L) as (ws & l & b & r' & bs' & -> & Hws & Hl & Hb & Hr & ->).
        apply sp_pair; assumption.
      * (* not a hex digit: the pair is rejected whenever it completes; show no successful parse exists *)
        exfalso. clear IHn IHs. revert bs H. induction r as [|d r IH]; intros bs H; cbn [hex_go] in H; [discriminate|].
        destruct (is_ws d); [eapply IH; exact H|]. rewrite Hc in H. discriminate.
  - intros h a bs Hh H. cbn [hex_go] in H. destruct (is_ws c) eqn:W.
    + apply sl_ws; [exact W|eapply IHs; eassumption].
    + rewrite Hh in H. destruct (hexval c) as [b|] eqn:Hc; [|discriminate].
      unfold pcons in H. destruct (hex_go r None) as [bs' ok] eqn:E. cbn [p_bytes p_ok] in H.
      injection H as <- ->. apply sl_low; [exact W|exact Hc|apply IHn; reflexivity].
Qed.

Lemma hex_go_ws ws s high : forallb is_ws ws = true -> hex_go (ws ++ s) high = hex_go s high.
Proof.
  induction ws as [|c ws IH]; cbn [app forallb]; [reflexivity|]. intros H. apply andb_prop in H as [Hc Hws].
  cbn [hex_go]. rewrite Hc. apply IH, Hws.
Qed.

Lemma hex_go_complete s bs : spells s bs -> hex_go s None = mkParsed bs true.
Proof.
  induction 1 as [|c s bs Hc H IH|h a ws l b s bs Hh Ha Hws Hl Hb H IH].
  - reflexivity.
  - cbn [hex_go]. rewrite Hc. exact IH.
  - cbn [hex_go]. rewrite Hh. rewrite hex_go_ws by exact Hws. cbn [hex_go]. rewrite Hl, Ha, Hb, IH. reflexivity.
Qed.

(** C15 (hex): the text is accepted with bytes [bs] exactly when it spells [bs] *)
Theorem hex_accepts_iff_spells s bs : parse_hex s = mkParsed bs true <-> spells s bs.
Proof. split; [apply hex_go_sound|apply hex_go_complete]. Qed.

(** letter case does not matter *)
Lemma hexval_case c : 65 <= c <= 70 -> hexval (c + 32) = hexval c.
Proof. intros H. unfold hexval. replace ((48 <=? c + 32) && (c + 32 <=? 57)) with false by lia.
  replace ((65 <=? c + 32) && (c + 32 <=? 70)) with false by lia.
  replace ((97 <=? c + 32) && (c + 32 <=? 102)) with true by lia.
  replace ((48 <=? c) && (c <=? 57)) with false by lia.
  replace ((65 <=? c) && (c <=? 70)) with true by lia. f_equal. lia. Qed.

(** rendering a byte string as text parses back to it, whatever whitespace is put between the pairs *)
Definition hexchar (d : Z) : Z := if d <? 10 then 48 + d else 87 + d.
Lemma hexval_hexchar d : 0 <= d < 16 -> hexval (hexchar d) = Some d.
Proof. intros H. unfold hexval, hexchar. destruct (d <? 10) eqn:E.
  - replace ((48 <=? 48 + d) && (48 + d <=? 57)) with true by lia. f_equal. lia.
  - replace ((48 <=? 87 + d) && (87 + d <=? 57)) with false by lia.
    replace ((65 <=? 87 + d) && (87 + d <=? 70)) with false by lia.
    replace ((97 <=? 87 + d) && (87 + d <=? 102)) with true by lia. f_equal. lia. Qed.
