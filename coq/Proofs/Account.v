(** Byte accounting: in every run of every decoder function, the input at the start is the bytes
    the processor received ([Rd] actions of the trace, in order) followed by the input left. *)
From Coq Require Import ZArith List String Bool Lia.
From TV Require Import Layout.Types Base.Bytes Model.Monad Model.Constraints Model.Ints Model.Decoder Model.Message
  Model.Pump Proofs.Closure Proofs.LowClosure.
Import ListNotations.
Open Scope Z_scope.

Fixpoint bytes_of (tr : list action) : list Z :=
  match tr with
  | [] => []
  | Rd b :: r => b :: bytes_of r
  | _ :: r => bytes_of r
  end.

Lemma bytes_of_app a b : bytes_of (a ++ b) = bytes_of a ++ bytes_of b.
Proof. induction a as [|[x|e|w] a IH]; cbn [bytes_of app]; rewrite ?IH; reflexivity. Qed.

Lemma bytes_of_map_Rd l : bytes_of (map Rd l) = l.
Proof. induction l as [|x l IH]; cbn; rewrite ?IH; reflexivity. Qed.

Definition accounts {A} (m : M A) : Prop :=
  forall s tr s' o, m s = (tr, s', o) -> inp s = bytes_of tr ++ inp s'.

Ltac inv_run H := cbv beta in H; injection H as <- <- <-.

Lemma acc_ret A (a : A) : accounts (ret a).
Proof. intros s tr s' o H. inv_run H. reflexivity. Qed.

Lemma acc_bind A B (m : M A) (f : A -> M B) : accounts m -> (forall a, accounts (f a)) -> accounts (bind m f).
Proof.
  intros Hm Hf s tr s' o H. unfold bind in H.
  destruct (m s) as [[tr1 s1] o1] eqn:E1. specialize (Hm _ _ _ _ E1).
  destruct o1 as [a|e| |k|].
  - destruct (f a s1) as [[tr2 s2] o2] eqn:E2. specialize (Hf a _ _ _ _ E2).
    inv_run H. rewrite bytes_of_app, <- app_assoc, <- Hf. exact Hm.
  - inv_run H. exact Hm.
  - inv_run H. exact Hm.
  - inv_run H. exact Hm.
  - inv_run H. exact Hm.
Qed.

Lemma acc_nostate A (m : M A) :
  (forall s, exists tr o, m s = (tr, s, o) /\ bytes_of tr = []) -> accounts m.
Proof. intros Hm s tr s' o H. destruct (Hm s) as (tr0 & o0 & E & B). rewrite E in H. inv_run H. rewrite B. reflexivity. Qed.

Lemma acc_get : accounts get.
Proof. apply acc_nostate. intros s. eexists _, _. split; reflexivity. Qed.
Lemma acc_fail A e : accounts (@fail A e).
Proof. apply acc_nostate. intros s. eexists _, _. split; reflexivity. Qed.
Lemma acc_internal A k : accounts (@internal_ A k).
Proof. apply acc_nostate. intros s. eexists _, _. split; reflexivity. Qed.
Lemma acc_fuel A : accounts (@fuel_ A).
Proof. apply acc_nostate. intros s. eexists _, _. split; reflexivity. Qed.
Lemma acc_emit_ev e : accounts (emit (Ev e)).
Proof. apply acc_nostate. intros s. eexists _, _. split; reflexivity. Qed.
Lemma acc_emit_wn w : accounts (emit (Wn w)).
Proof. apply acc_nostate. intros s. eexists _, _. split; reflexivity. Qed.

Lemma acc_sameinp A (m : M A) :
  (forall s tr s' o, m s = (tr, s', o) -> bytes_of tr = [] /\ inp s' = inp s) -> accounts m.
Proof. intros Hm s tr s' o H. destruct (Hm _ _ _ _ H) as [B I]. rewrite B, I. reflexivity. Qed.

Lemma acc_set_sc i c : accounts (set_sc i c).
Proof. apply acc_sameinp. intros s tr s' o H. inv_run H. split; reflexivity. Qed.
Lemma acc_new_sc : accounts new_sc.
Proof. apply acc_sameinp. intros s tr s' o H. inv_run H. split; reflexivity. Qed.
Lemma acc_set_lst l : accounts (set_lst l).
Proof. apply acc_sameinp. intros s tr s' o H. inv_run H. split; reflexivity. Qed.
Lemma acc_append_lst i : accounts (append_lst i).
Proof. apply acc_sameinp. intros s tr s' o H. inv_run H. split; reflexivity. Qed.
Lemma acc_remove_lst i : accounts (remove_lst i).
Proof. apply acc_sameinp. intros s tr s' o H. inv_run H. split; reflexivity. Qed.

Lemma acc_read1 : accounts read1.
Proof.
  intros s tr s' o H. unfold read1 in H. destruct (inp s) as [|b r] eqn:E.
  - inv_run H. rewrite E. reflexivity.
  - inv_run H. reflexivity.
Qed.

Lemma acc_readn n : accounts (readn n).
Proof.
  induction n as [|n IH]; cbn [readn]; [apply acc_ret|].
  apply acc_bind; [apply acc_read1|]. intros b. apply acc_bind; [apply IH|]. intros bs. apply acc_ret.
Qed.

Lemma take_bytes_app l n t rest d : take_bytes l n = (t, rest, d) -> l = t ++ rest.
Proof.
  revert n t rest d. induction l as [|b r IH]; intros n t rest d H; cbn [take_bytes] in H.
  - destruct (n <=? 0); injection H as <- <- <-; reflexivity.
  - destruct (n <=? 0); [injection H as <- <- <-; reflexivity|].
    destruct (take_bytes r (n - 1)) as [[t' rest'] d'] eqn:E. injection H as <- <- <-.
    cbn [app]. f_equal. eapply IH. exact E.
Qed.

Lemma acc_consume n : accounts (consume n).
Proof.
  intros s tr s' o H. unfold consume in H.
  destruct (take_bytes (inp s) n) as [[t rest] d] eqn:E. inv_run H.
  rewrite bytes_of_map_Rd. cbn [inp]. eapply take_bytes_app. exact E.
Qed.

Lemma acc_catch A abort ids (m h : M A) : accounts m -> accounts h -> accounts (catch_exceeded abort ids m h).
Proof.
  intros Hm Hh s tr s' o H. unfold catch_exceeded in H.
  destruct (m s) as [[tr1 s1] o1] eqn:E1. specialize (Hm _ _ _ _ E1).
  destruct o1 as [a|e| |k|]; try (inv_run H; exact Hm).
  destruct e as [| c v b | | | | |]; try (inv_run H; exact Hm).
  destruct (abort || negb (existsb (Nat.eqb (si_id c)) ids)); [inv_run H; exact Hm|].
  destruct (h s1) as [[tr2 s2] o2] eqn:E2. specialize (Hh _ _ _ _ E2). inv_run H.
  rewrite bytes_of_app. cbn [bytes_of]. rewrite <- app_assoc, <- Hh. exact Hm.
Qed.

Lemma accounts_lclosed : lclosed (@accounts).
Proof.
  constructor.
  - apply acc_ret.
  - intros. apply acc_bind; assumption.
  - apply acc_get.
  - apply acc_fail.
  - apply acc_internal.
  - apply acc_fuel.
  - intros [b|e|w] H; [contradiction|apply acc_emit_ev|apply acc_emit_wn].
  - apply acc_read1.
  - apply acc_consume.
  - apply acc_set_sc.
  - apply acc_new_sc.
  - apply acc_set_lst.
  - apply acc_append_lst.
  - apply acc_remove_lst.
  - intros. apply acc_catch; assumption.
Qed.

Theorem accounts_dec_root T abort r : accounts (dec_root T abort r).
Proof. apply L_dec_root. apply accounts_lclosed. Qed.

(** the pump: number of bytes sent = number of [Rd] actions seen *)
Lemma pump_go_nrd is_stream len tr ps ps' stopped :
  pump_go is_stream len tr ps = (ps', stopped) ->
  exists tr1 tr2, tr = tr1 ++ tr2 /\ ps_nrd ps' = ps_nrd ps + Z.of_nat (List.length (bytes_of tr1)) /\
                  (stopped = false -> tr2 = []).
Proof.
  revert ps. induction tr as [|a tr IH]; intros ps H; cbn [pump_go] in H.
  - injection H as <- <-. exists [], []. cbn. repeat split; lia.
  - destruct a as [b|e|w].
    + destruct (IH _ H) as (t1 & t2 & -> & N & S). exists (Rd b :: t1), t2. cbn [app bytes_of List.length ps_nrd] in *.
      repeat split; [lia|exact S].
    + destruct (is_stream && (len <=? ps_nrd ps) && is_root_event e).
      * injection H as <- <-. exists [], (Ev e :: tr). cbn. repeat split; [lia|discriminate].
      * destruct (IH _ H) as (t1 & t2 & -> & N & S). exists (Ev e :: t1), t2. cbn [app bytes_of List.length ps_nrd] in *.
        repeat split; [exact N|exact S].
    + destruct (IH _ H) as (t1 & t2 & -> & N & S). exists (Wn w :: t1), t2. cbn [app bytes_of List.length ps_nrd] in *.
      repeat split; [exact N|exact S].
Qed.

Lemma skipZ_app (a b : list Z) : skipZ (a ++ b) (Z.of_nat (List.length a)) = b.
Proof.
  induction a as [|x a IH]; cbn [List.length app].
  - destruct b; cbn [skipZ]; reflexivity.
  - cbn [skipZ]. replace (Z.of_nat (S (List.length a)) <=? 0) with false by lia.
    replace (Z.of_nat (S (List.length a)) - 1) with (Z.of_nat (List.length a)) by lia. exact IH.
Qed.

(** C13: whenever decoding raises a constraint error, the reported remainder is exactly the input the
    processor had not received: input = received ++ remaining, nothing duplicated or dropped. *)
Theorem raised_accounts_for_input T abort r input evs e rem :
  decode T abort r input = (evs, ORaised e rem) ->
  exists tr s', fst (fst (dec_root T abort r (init_st input))) = tr /\
                input = bytes_of tr ++ rem /\ rem = inp s'.
Proof.
  unfold decode, pump. intros H.
  destruct (dec_root T abort r (init_st input)) as [[tr s'] o] eqn:E.
  pose proof (accounts_dec_root T abort r _ _ _ _ E) as A. cbn [init_st inp] in A.
  destruct (pump_go _ _ tr _) as [ps stopped] eqn:G.
  destruct stopped; [discriminate|].
  destruct (pump_go_nrd _ _ _ _ _ _ G) as (t1 & t2 & -> & N & S). rewrite (S eq_refl), app_nil_r in *.
  cbn [ps_nrd] in N. rewrite N, Z.add_0_l in H.
  exists t1, s'. cbn [fst]. split; [reflexivity|].
  assert (R : skipZ input (Z.of_nat (List.length (bytes_of t1))) = inp s').
  { rewrite A at 1. apply skipZ_app. }
  rewrite R in H.
  destruct o as [a|e0| |k|].
  - destruct (inp s'); [discriminate|destruct abort; discriminate].
  - injection H as _ <- <-. split; [exact A|reflexivity].
  - destruct abort; discriminate.
  - discriminate.
  - discriminate.
Qed.
