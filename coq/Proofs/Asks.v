(** A decoder that stopped for lack of input was asking for the next byte: given more input its run continues with
    reading exactly that byte - nothing is emitted between the events already produced and the read.  With
    incrementality this pins the run on a prefix down to THE maximal part of the run on the whole input that needs no
    byte beyond the prefix (C05: every field complete in the prefix has been emitted before "depleted"). *)
From Coq Require Import ZArith List String Bool Lia.
From TV Require Import Layout.Types Base.Bytes Model.Monad Model.Constraints Model.Ints Model.Decoder Model.Message
  Proofs.Closure Proofs.LowClosure Proofs.Incremental.
Import ListNotations.
Open Scope list_scope.

Definition asks {A} (m : M A) : Prop :=
  incr m /\
  forall s y ys tr s', m s = (tr, s', More) -> exists tr2 s2 o2, m (ext s (y :: ys)) = (tr ++ Rd y :: tr2, s2, o2).

Lemma asks_nomore A (m : M A) : incr m -> (forall s tr s', m s <> (tr, s', More)) -> asks m.
Proof. intros Hi Hn. split; [exact Hi|]. intros s y ys tr s' H. exfalso. exact (Hn _ _ _ H). Qed.

Ltac nomore := apply asks_nomore; [|let Hx := fresh "Hx" in intros ? ? ? Hx; unfold get, ret, fail, internal_, fuel_, emit, set_sc, new_sc, set_lst, append_lst, remove_lst in Hx; discriminate].

Lemma asks_read1 : asks read1.
Proof.
  split; [apply incr_read1|]. intros s y ys tr s' H. unfold read1 in H. destruct (inp s) as [|b r] eqn:E; [|discriminate].
  injection H as <- <-. unfold read1, ext. cbn [inp]. rewrite E. cbn [app]. eexists _, _, _. reflexivity.
Qed.

Lemma take_bytes_short1 l n t rest y ys :
  take_bytes l n = (t, rest, false) -> exists t2 rest2 d, take_bytes (l ++ y :: ys) n = (t ++ y :: t2, rest2, d).
Proof.
  revert n t rest. induction l as [|b r IH]; intros n t rest H.
  - cbn [take_bytes] in H. destruct (Z.leb n 0) eqn:En; [discriminate|]. injection H as <- <-.
    cbn [app take_bytes]. rewrite En. destruct (take_bytes ys (n - 1)) as [[t2 r2] d]. eexists _, _, _. reflexivity.
  - cbn [take_bytes app] in *. destruct (Z.leb n 0); [discriminate|].
    destruct (take_bytes r (n - 1)) as [[t' rest'] d] eqn:E. injection H as <- <- ->.
    destruct (IH _ _ _ E) as (t2 & r2 & d2 & E2). rewrite E2. eexists _, _, _. reflexivity.
Qed.

Lemma asks_consume n : asks (consume n).
Proof.
  split; [apply incr_consume|]. intros s y ys tr s' H. unfold consume in H.
  destruct (take_bytes (inp s) n) as [[t rest] d] eqn:E. destruct d; [discriminate|]. injection H as <- <-.
  unfold consume, ext. cbn [inp store lst].
  destruct (take_bytes_short1 _ _ _ _ y ys E) as (t2 & r2 & d2 & E2). rewrite E2.
  rewrite map_app. cbn [map]. eexists _, _, _. reflexivity.
Qed.

Lemma asks_bind A B (m : M A) (f : A -> M B) : asks m -> (forall a, asks (f a)) -> asks (bind m f).
Proof.
  intros [Im Am] Hf. split; [apply incr_bind; [exact Im|intros a; apply Hf]|].
  intros s y ys tr s' H. unfold bind in H.
  destruct (m s) as [[tr1 s1] o1] eqn:E1. destruct o1 as [a|e| |k|]; try discriminate.
  - destruct (f a s1) as [[tr2 s2] o2] eqn:E2. injection H as <- <- ->.
    destruct (Im _ (y :: ys) _ _ _ E1) as [Hne _]. unfold bind. rewrite Hne by discriminate.
    destruct (proj2 (Hf a) _ y ys _ _ E2) as (t3 & s3 & o3 & E3). rewrite E3. rewrite app_assoc. eexists _, _, _. reflexivity.
  - injection H as <- <-. destruct (Am _ y ys _ _ E1) as (t2 & s2 & o2 & E2). unfold bind. rewrite E2.
    destruct o2 as [a|e| |k|]; try (eexists _, _, _; reflexivity).
    destruct (f a s2) as [[t3 s3] o3]. rewrite <- app_assoc. cbn [app]. eexists _, _, _. reflexivity.
Qed.

Lemma asks_catch A abort ids (m h : M A) : asks m -> asks h -> asks (catch_exceeded abort ids m h).
Proof.
  intros [Im Am] [Ih Ah]. split; [apply incr_catch; assumption|].
  intros s y ys tr s' H. unfold catch_exceeded in H.
  destruct (m s) as [[tr1 s1] o1] eqn:E1. destruct o1 as [a|e| |k|]; try discriminate.
  - destruct (Im _ (y :: ys) _ _ _ E1) as [Hne _].
    assert (Hrun : m (ext s (y :: ys)) = (tr1, ext s1 (y :: ys), Fail e)) by (apply Hne; discriminate).
    destruct e as [p0 tn v src|c v b|c v val b|c|cc|rest cc|mp me mf]; try discriminate.
    destruct (abort || negb (existsb (Nat.eqb (si_id c)) ids)) eqn:G; [discriminate|].
    destruct (h s1) as [[tr2 s2] o2] eqn:E2. injection H as <- <- ->.
    unfold catch_exceeded. rewrite Hrun, G.
    destruct (Ah _ y ys _ _ E2) as (t3 & s3 & o3 & E3). rewrite E3.
    eexists _, _, _. rewrite <- app_assoc. cbn [app]. reflexivity.
  - injection H as <- <-. destruct (Am _ y ys _ _ E1) as (t2 & s2 & o2 & E2). unfold catch_exceeded. rewrite E2.
    destruct o2 as [a|e| |k|]; try (eexists _, _, _; reflexivity).
    destruct e as [p0 tn v src|c v b|c v val b|c|cc|rest cc|mp me mf]; try (eexists _, _, _; reflexivity).
    destruct (abort || negb (existsb (Nat.eqb (si_id c)) ids)); [eexists _, _, _; reflexivity|].
    destruct (h s2) as [[t3 s3] o3]. rewrite <- app_assoc. cbn [app]. eexists _, _, _. reflexivity.
Qed.

Lemma asks_lclosed : lclosed (@asks).
Proof.
  constructor; intros.
  - nomore. apply incr_ret.
  - apply asks_bind; assumption.
  - nomore. apply incr_get.
  - nomore. apply incr_fail.
  - nomore. apply incr_internal.
  - nomore. apply incr_fuel.
  - nomore. apply incr_emit.
  - apply asks_read1.
  - apply asks_consume.
  - nomore. apply incr_set_sc.
  - nomore. apply incr_new_sc.
  - nomore. apply incr_set_lst.
  - nomore. apply incr_append_lst.
  - nomore. apply incr_remove_lst.
  - apply asks_catch; assumption.
Qed.

(** every decoder function, both modes, all tables *)
Theorem asks_dec_root T abort r : asks (dec_root T abort r).
Proof. apply L_dec_root. apply asks_lclosed. Qed.
