From Coq Require Import ZArith List String Bool Lia.
From TV Require Import Layout.Types Model.Attr.
Import ListNotations.
Open Scope Z_scope.

Lemma lor_fold_testbit ms i : 0 <= i ->
  Z.testbit (fold_right Z.lor 0 ms) i = existsb (fun m => Z.testbit m i) ms.
Proof.
  intros Hi. induction ms as [|m r IH]; cbn [fold_right existsb].
  - apply Z.testbit_0_l.
  - rewrite Z.lor_spec, IH. reflexivity.
Qed.

Lemma disjoint_count ms i : 0 <= i -> disjoint_list ms = true ->
  (List.length (filter (fun m => Z.testbit m i) ms) <= 1)%nat.
Proof.
  intros Hi. induction ms as [|m r IH]; cbn [disjoint_list filter]; [cbn; lia|].
  intros H. apply andb_prop in H as [Hd Hr]. specialize (IH Hr).
  destruct (Z.testbit m i) eqn:E; [|exact IH].
  assert (F : filter (fun x => Z.testbit x i) r = []).
  { clear IH Hr. induction r as [|x r IHr]; [reflexivity|].
    cbn [forallb] in Hd. apply andb_prop in Hd as [Hx Hd']. cbn [filter].
    apply Z.eqb_eq in Hx.
    assert (Z.testbit x i = false).
    { pose proof (Z.land_spec m x i) as L. rewrite Hx, Z.testbit_0_l, E in L. cbn in L. symmetry. exact L. }
    rewrite H. apply IHr, Hd'. }
  cbn [List.length]. rewrite F. cbn. lia.
Qed.

(** every bit position of the word belongs to exactly one field *)
Theorem attr_partition n ms i : attr_ok n ms = true -> 0 <= i < n ->
  List.length (filter (fun m => Z.testbit m i) ms) = 1%nat.
Proof.
  unfold attr_ok. intros H Hi. apply andb_prop in H as [H Hc]. apply andb_prop in H as [_ Hd].
  apply Z.eqb_eq in Hc.
  pose proof (disjoint_count ms i (proj1 Hi) Hd) as Hle.
  assert (Hex : existsb (fun m => Z.testbit m i) ms = true).
  { rewrite <- lor_fold_testbit by lia. rewrite Hc. apply Z.ones_spec_low. lia. }
  assert (Hge : (1 <= List.length (filter (fun m => Z.testbit m i) ms))%nat).
  { apply existsb_exists in Hex as (m & Hin & Hm).
    assert (In m (filter (fun m => Z.testbit m i) ms)) by (apply filter_In; split; assumption).
    destruct (filter (fun m => Z.testbit m i) ms); [contradiction|cbn; lia]. }
  lia.
Qed.

(** no field has a bit outside the word *)
Theorem attr_inside n ms m i : attr_ok n ms = true -> 0 <= n -> In m ms -> n <= i -> Z.testbit m i = false.
Proof.
  unfold attr_ok. intros H Hn Hin Hi. apply andb_prop in H as [_ Hc]. apply Z.eqb_eq in Hc.
  destruct (Z.testbit m i) eqn:E; [|reflexivity].
  assert (existsb (fun m => Z.testbit m i) ms = true) by (apply existsb_exists; exists m; split; assumption).
  rewrite <- lor_fold_testbit in H by lia. rewrite Hc, Z.ones_spec_high in H by lia. discriminate.
Qed.

(** the value is the disjoint union of its fields *)
Theorem attr_decompose n ms v : attr_ok n ms = true -> 0 <= n -> 0 <= v < 2 ^ n ->
  fold_right Z.lor 0 (map (Z.land v) ms) = v.
Proof.
  unfold attr_ok. intros H Hn Hv. apply andb_prop in H as [_ Hc]. apply Z.eqb_eq in Hc.
  assert (G : forall l, fold_right Z.lor 0 (map (Z.land v) l) = Z.land v (fold_right Z.lor 0 l)).
  { induction l as [|m r IH]; cbn [map fold_right]; [rewrite Z.land_0_r; reflexivity|].
    rewrite IH, Z.land_lor_distr_r. reflexivity. }
  rewrite G, Hc, Z.land_ones by lia. apply Z.mod_small. lia.
Qed.

Lemma nth_map_seq {A} (f : nat -> A) n j d : (j < n)%nat -> nth j (map f (seq 0 n)) d = f j.
Proof.
  intros Hj. rewrite nth_indep with (d' := f O) by (rewrite map_length, seq_length; exact Hj).
  rewrite map_nth, seq_nth by exact Hj. reflexivity.
Qed.

(** a printed row shows exactly the field's bits at their positions *)
Theorem bit_row_spec n mask v j : (j < n)%nat ->
  nth j (bit_row n mask v) None =
  if Z.testbit mask (Z.of_nat (n - 1 - j)) then Some (Z.testbit v (Z.of_nat (n - 1 - j))) else None.
Proof. intros Hj. unfold bit_row. rewrite nth_map_seq by exact Hj. reflexivity. Qed.

Lemma bit_row_length n mask v : List.length (bit_row n mask v) = n.
Proof. unfold bit_row. rewrite map_length, seq_length. reflexivity. Qed.

(** the accessor loop: right-aligns the field *)
Lemma acc_loop_spec fuel : forall bits mask k,
  0 <= k -> (Z.to_nat k < fuel)%nat ->
  (forall j, 0 <= j < k -> Z.testbit mask j = false) -> Z.testbit mask k = true ->
  acc_loop fuel bits mask = Some (Z.shiftr bits k).
Proof.
  induction fuel as [|f IH]; intros bits mask k Hk Hf Hlow Hbit; [lia|].
  cbn [acc_loop].
  assert (B0 : Z.land mask 1 = if Z.testbit mask 0 then 1 else 0).
  { change 1 with (Z.ones 1) at 1. rewrite Z.land_ones by lia. change (2 ^ 1) with 2.
    rewrite <- Z.bit0_mod. destruct (Z.testbit mask 0); reflexivity. }
  destruct (Z.eq_dec k 0) as [->|Hne].
  - rewrite B0, Hbit. cbn [Z.eqb]. rewrite Z.shiftr_0_r. reflexivity.
  - rewrite B0, (Hlow 0) by lia. cbn [Z.eqb].
    rewrite (IH (Z.shiftr bits 1) (Z.shiftr mask 1) (k - 1)).
    + rewrite Z.shiftr_shiftr by lia. f_equal. f_equal. lia.
    + lia.
    + lia.
    + intros j Hj. rewrite Z.shiftr_spec by lia. apply Hlow. lia.
    + rewrite Z.shiftr_spec by lia. replace (k - 1 + 1) with k by lia. exact Hbit.
Qed.

Theorem accessor_spec nbits mask v k :
  0 <= k -> (Z.to_nat k <= nbits)%nat ->
  (forall j, 0 <= j < k -> Z.testbit mask j = false) -> Z.testbit mask k = true ->
  accessor nbits mask v = Some (Z.shiftr (Z.land v mask) k).
Proof. intros. unfold accessor. apply acc_loop_spec; try assumption. lia. Qed.

(** every positive mask inside an n-bit word has such a lowest set bit, so the accessor terminates *)
Lemma lowest_bit mask n : 0 < mask < 2 ^ n -> 0 <= n ->
  exists k, 0 <= k < n /\ (forall j, 0 <= j < k -> Z.testbit mask j = false) /\ Z.testbit mask k = true.
Proof.
  intros Hm Hn.
  assert (G : forall fuel lo, 0 <= lo -> lo + Z.of_nat fuel = n ->
             (forall j, 0 <= j < lo -> Z.testbit mask j = false) ->
             (exists k, 0 <= k < n /\ (forall j, 0 <= j < k -> Z.testbit mask j = false) /\ Z.testbit mask k = true)
             \/ (forall j, 0 <= j < n -> Z.testbit mask j = false)).
  { induction fuel as [|f IH]; intros lo Hlo Hs Hz.
    - right. intros j Hj. apply Hz. lia.
    - destruct (Z.testbit mask lo) eqn:E.
      + left. exists lo. repeat split; try lia; assumption.
      + apply (IH (lo + 1)); [lia|lia|]. intros j Hj. destruct (Z.eq_dec j lo) as [->|]; [exact E|apply Hz; lia]. }
  destruct (G (Z.to_nat n) 0) as [H|H]; [lia|lia|intros; lia|exact H|].
  exfalso. assert (mask = 0); [|lia].
  apply Z.bits_inj'. intros j Hj. rewrite Z.testbit_0_l.
  destruct (Z.lt_ge_cases j n) as [Hlt|Hge]; [apply H; lia|].
  apply Z.bits_above_log2; [lia|]. apply Z.lt_le_trans with n; [|exact Hge].
  apply Z.log2_lt_pow2; lia.
Qed.
