(** C11 / C09: the events of a decoded stream, run through [events_to_objs], give the objects the decoder returns for
    the messages decoded one by one. *)
From Coq Require Import ZArith List String Bool Lia.
From TV Require Import Layout.Types Base.Bytes Model.Monad Model.Constraints Model.Ints Model.Decoder Model.Message Model.Pump Model.Object
  Spec.Value Spec.Message Proofs.Sim4 Proofs.Sim7 Proofs.Sim8 Proofs.Sim10 Proofs.Sim11 Proofs.Sim12 Proofs.Safe1 Proofs.ObjectProofs
  Proofs.ObjEv Proofs.EvObj Proofs.EvDict Proofs.EvObj2.
Import ListNotations.
Open Scope string_scope.
Open Scope list_scope.
Open Scope Z_scope.

(** ---- the events of an object lie at or below the path they are asked for *)
Definition deep (k : nat) (evs : list event) : Prop := Forall (fun e => (k <= List.length (epath e))%nat) evs.

Lemma deep_app k a b : deep k a -> deep k b -> deep k (a ++ b).
Proof. intros Ha Hb. apply Forall_app. split; assumption. Qed.
Lemma deep_weaken k k' evs : (k' <= k)%nat -> deep k evs -> deep k' evs.
Proof. intros H. apply Forall_impl. intros e He. lia. Qed.

Lemma pchild_len pa n : List.length (pchild pa n) = S (List.length pa).
Proof. unfold pchild. rewrite app_length. cbn. lia. Qed.
Lemma pindex_len pa i : pa <> [] -> List.length (pindex pa i) = List.length pa.
Proof. intros H. destruct (exists_last H) as (p & l & ->). rewrite pindex_snoc, !app_length. reflexivity. Qed.

Definition dp (g : path -> list event) : Prop := forall pa, pa <> [] -> deep (List.length pa) (g pa).

Lemma dp_leaf v : dp (oe_leaf v).
Proof. intros pa _. destruct v as [tn z|tid vals|l]; cbn [oe_leaf]; [constructor; [cbn; lia|constructor]|constructor|]. rewrite elems_nothing. constructor. Qed.
Lemma dp_elems f : (forall x, dp (f x)) -> forall l i pa, pa <> [] -> deep (List.length pa) (oe_elems f pa l i).
Proof.
  intros Hf. induction l as [|x l IH]; intros i pa Hp; cbn [oe_elems]; [constructor|]. apply deep_app; [|apply IH, Hp].
  rewrite <- (pindex_len pa i Hp). apply Hf. apply pindex_nonempty.
Qed.
Lemma dp_list lid f v : (forall x, dp (f x)) -> dp (fun pa => oe_list lid f pa v).
Proof.
  intros Hf pa Hp. unfold oe_list. constructor; [cbn; lia|]. destruct v as [tn z|tid vals|l]; [apply Hf, Hp|apply Hf, Hp|apply dp_elems; assumption].
Qed.
Lemma dp_child g n : dp g -> forall pa, deep (S (List.length pa)) (g (pchild pa n)).
Proof. intros Hg pa. rewrite <- (pchild_len pa n). apply Hg, pchild_nonempty. Qed.
Lemma dp_node_child pa n t : deep (S (List.length pa)) [ev_node (pchild pa n) t].
Proof. constructor; [cbn [ev_node epath]; rewrite pchild_len; lia|constructor]. Qed.

Section Deep.
  Variable T : tables.

  Lemma dp_enc v : dp (oe_enc_param T v).
  Proof.
    intros pa Hp. unfold oe_enc_param. destruct (t_enc_param T) as [| |ename eszf ebuf eszp [ep| | | |]| |]; try constructor.
    destruct v as [tn z|tid vals|l]; try constructor; [cbn; lia|]. apply deep_app.
    - destruct (lookupS eszf vals) as [[x|]|]; [|apply (deep_weaken (S (List.length pa))); [lia|apply dp_node_child]|apply (deep_weaken (S (List.length pa))); [lia|apply dp_node_child]].
      apply (deep_weaken (S (List.length pa))); [lia|]. apply (dp_child (oe_leaf x)), dp_leaf.
    - destruct (lookupS ebuf vals) as [[x|]|]; [|apply (deep_weaken (S (List.length pa))); [lia|apply dp_node_child]|apply (deep_weaken (S (List.length pa))); [lia|apply dp_node_child]].
      apply (deep_weaken (S (List.length pa))); [lia|]. apply (dp_child (fun p => oe_list _ oe_leaf p x)), dp_list. intros y. apply dp_leaf.
  Qed.

  Definition D_ty (t : ty) : Prop := forall v, dp (oe_ty T t v).
  Definition D_fields (fs : fields) : Prop :=
    (forall V pa, deep (S (List.length pa)) (oe_fields T fs V pa)) /\ match fs with FPlain _ _ r => forall V pa, deep (S (List.length pa)) (oe_fields T r V pa) | _ => True end.
  Definition D_arms (ar : arms) : Prop := forall V pa, deep (S (List.length pa)) (oe_arms T ar V pa).
  Definition D_armp (p : armp) : Prop := match p with PNone => True | PTy t => D_ty t | PList e _ => D_ty e end.

  Lemma deep_opt (g : value -> path -> list event) n tid (o : option (option value)) pa : (forall x, dp (g x)) ->
    deep (S (List.length pa)) (match o with Some (Some x) => g x (pchild pa n) | _ => [ev_node (pchild pa n) tid] end).
  Proof. intros Hg. destruct o as [[x|]|]; [apply (dp_child (g x)), Hg|apply dp_node_child|apply dp_node_child]. Qed.

  Theorem deep_all : (forall t, D_ty t) /\ (forall fs, D_fields fs) /\ (forall ar, D_arms ar) /\ (forall p, D_armp p).
  Proof.
    apply ty_mutind.
    - intros p v. cbn [oe_ty]. apply dp_leaf.
    - intros name isp fs [IH IHtl] v pa Hp. destruct v as [tn z|tid vals|l]; try (cbn [oe_ty]; apply dp_leaf, Hp).
      change (oe_ty T (TStruct name isp fs) (VStruct_ tid vals) pa) with (ev_node pa tid :: match tid, fs with
                | TyEnc _, FPlain n _ r => (match lookupS n vals with Some (Some x) => oe_enc_param T x (pchild pa n) | _ => [ev_node (pchild pa n) (ty_id (t_enc_param T))] end) ++ oe_fields T r vals pa
                | _, _ => oe_fields T fs vals pa end).
      constructor; [cbn; lia|]. apply (deep_weaken (S (List.length pa))); [lia|].
      destruct tid as [nm|nm|nm]; try apply IH. destruct fs as [|n t r|n e r|n sl u r]; try apply IH.
      apply deep_app; [apply (deep_opt (oe_enc_param T)), dp_enc|apply IHtl].
    - intros name szf buf szp e IH v pa Hp. destruct v as [tn z|tid vals|l]; try (cbn [oe_ty]; apply dp_leaf, Hp).
      cbn [oe_ty]. constructor; [cbn; lia|]. apply (deep_weaken (S (List.length pa))); [lia|]. apply deep_app; [apply (deep_opt oe_leaf), dp_leaf|].
      apply (deep_opt (fun x p => oe_list (list_id e) (oe_ty T e) p x)). intros x. apply dp_list, IH.
    - intros name szf buf szp i IH v pa Hp. destruct v as [tn z|tid vals|l]; try (cbn [oe_ty]; apply dp_leaf, Hp).
      cbn [oe_ty]. constructor; [cbn; lia|]. apply (deep_weaken (S (List.length pa))); [lia|]. apply deep_app; [apply (deep_opt oe_leaf), dp_leaf|].
      apply (deep_opt (oe_ty T i)), IH.
    - intros name ar IH v pa Hp. destruct v as [tn z|tid vals|l]; try (cbn [oe_ty]; apply dp_leaf, Hp).
      cbn [oe_ty]. constructor; [cbn; lia|]. apply (deep_weaken (S (List.length pa))); [lia|]. apply IH.
    - split; [|exact Logic.I]. intros V pa. constructor.
    - intros n t IHt r [IHr _]. split; [|exact IHr]. intros V pa. rewrite oe_fields_plain. apply deep_app; [apply (deep_opt (oe_ty T t)), IHt|apply IHr].
    - intros n e IHe r [IHr _]. split; [|exact Logic.I]. intros V pa. rewrite oe_fields_list. apply deep_app; [|apply IHr].
      apply (deep_opt (fun x p => oe_list (list_id e) (oe_ty T e) p x)). intros x. apply dp_list, IHe.
    - intros n sl u IHu r [IHr _]. split; [|exact Logic.I]. intros V pa. rewrite oe_fields_union. apply deep_app; [apply (deep_opt (oe_ty T u)), IHu|apply IHr].
    - intros V pa. constructor.
    - intros n k p IHp r IHr V pa. rewrite oe_arms_cons. apply deep_app; [|apply IHr].
      destruct (lookupS n V) as [[x|]|]; try constructor.
      destruct p as [|t|e cnt]; [apply (dp_child (oe_leaf x)), dp_leaf|apply (dp_child (oe_ty T t x)), IHp|].
      apply (dp_child (fun p => oe_list (list_id e) (oe_ty T e) p x)), dp_list, IHp.
    - exact Logic.I.
    - intros t IH. exact IH.
    - intros e IH n. exact IH.
  Qed.

  (** ---- the events of a message object: the root event, then events below the root only *)
  Lemma deep2_nonroot evs : deep 2 evs -> forallb (fun x => negb (is_root x)) evs = true.
  Proof.
    intros H. apply forallb_forall. intros e He. unfold deep in H. rewrite Forall_forall in H. specialize (H e He). unfold is_root.
    destruct (path_eqb (epath e) root_path) eqn:E; [|reflexivity]. apply path_eqb_root in E. rewrite E in H. cbn in H. lia.
  Qed.

  Lemma req_deep vals n pa p : deep (S (List.length pa)) (oe_req vals n pa p).
  Proof. unfold oe_req. destruct (lookupS n vals) as [[x|]|]; [apply (dp_child (oe_leaf x)), dp_leaf|apply dp_node_child|apply dp_node_child]. Qed.
  Lemma opt_deep vals n k (f : value -> list event) : (forall x, deep k (f x)) -> deep k (oe_opt vals n f).
  Proof. intros H. unfold oe_opt. destruct (lookupS n vals) as [[x|]|]; [apply H|constructor|constructor]. Qed.

  Lemma command_is_message tid vals : message (oe_command T (VStruct_ tid vals) root_path).
  Proof.
    destruct (deep_all) as (DT & _).
    unfold oe_command. split; [reflexivity|]. apply deep2_nonroot.
    repeat (apply deep_app); try apply (req_deep vals _ root_path); apply opt_deep; intros x.
    - destruct (match lookupS "commandCode" vals with Some y => as_int y | None => None end) as [c|]; [|constructor].
      destruct (lookupZ c (cmd_handles T)) as [t|]; [|constructor]. apply (dp_child (oe_ty T t x) "handles" (DT t x) root_path).
    - apply (dp_child (oe_leaf x) "authSize" (dp_leaf x) root_path).
    - apply (dp_child (fun p => oe_list _ (oe_ty T (t_auth_cmd T)) p x) "authorizationArea" (dp_list _ _ x (fun y => DT _ y)) root_path).
    - destruct (match lookupS "commandCode" vals with Some y => as_int y | None => None end) as [c|]; [|constructor].
      destruct (lookupZ c (cmd_params T)) as [t|]; [|constructor]. apply (dp_child (oe_ty T t x) "parameters" (DT t x) root_path).
  Qed.

  Lemma response_is_message cc tid vals : message (oe_response T cc (VStruct_ tid vals) root_path).
  Proof.
    destruct (deep_all) as (DT & _).
    unfold oe_response. split; [reflexivity|]. apply deep2_nonroot.
    repeat (apply deep_app); try apply (req_deep vals _ root_path); apply opt_deep; intros x.
    - destruct cc as [c|]; [|constructor]. destruct (lookupZ c (rsp_handles T)) as [t|]; [|constructor]. apply (dp_child (oe_ty T t x) "handles" (DT t x) root_path).
    - apply (dp_child (oe_leaf x) "parameterSize" (dp_leaf x) root_path).
    - destruct cc as [c|]; [|constructor]. destruct (lookupZ c (rsp_params T)) as [t|]; [|constructor]. apply (dp_child (oe_ty T t x) "parameters" (DT t x) root_path).
    - apply (dp_child (fun p => oe_list _ (oe_ty T (t_auth_rsp T)) p x) "authorizationArea" (dp_list _ _ x (fun y => DT _ y)) root_path).
  Qed.
End Deep.

Lemma evs_of_map_Ev l : evs_of (map Ev l) = l.
Proof. induction l as [|e l IH]; [reflexivity|]. cbn [map evs_of]. rewrite IH. reflexivity. Qed.

Section Stream.
  Variable T : tables.
  Hypothesis Hok : msg_tables_ok T = true.
  Hypothesis Hnm : msg_named T = true.
  Hypothesis Hpl : msg_plain T = true.

  Lemma command_facts cb c ci : sp_command T root_path cb = Some (c, ci, []) -> ok_leaves true c = true ->
    exists v, decode_obj T true RCommand cb = Some v /\
              evs_of (map fst (fst (decode T true RCommand cb))) = oe_command T v root_path /\ cmd_shape_cc T (ci_cc ci) v.
  Proof.
    intros Es AV.
    assert (Hroot : sp_root T RCommand cb = Some [c]) by (cbn [sp_root]; rewrite Es; reflexivity).
    assert (AVs : forallb (ok_leaves true) [c] = true) by (cbn [forallb]; rewrite AV; reflexivity).
    pose proof (any_root_in_mode T true RCommand cb [c] Hok ltac:(intros H; discriminate) Hroot AVs) as D.
    destruct (decoded_object_shape T RCommand cb _ Hnm Logic.I eq_refl D) as (v & Hv & He & _).
    exists v. split; [exact Hv|]. rewrite D in *. cbn [fst] in *. split; [rewrite He; apply evs_of_map_Ev|].
    pose proof Hok as Ht. unfold msg_tables_ok in Ht. apply andb_prop in Ht as [Ht _]. apply andb_prop in Ht as [Hc _].
    destruct (cmd_sim T true Hc root_path cb c ci [] (init_st cb) Es AV (wf_init cb) eq_refl) as (tr & s' & res & c0 & E & _ & _ & _ & _ & _ & Hcc & _).
    destruct (command_obj_cc T Hnm root_path _ _ _ _ E) as (_ & cc & Hcc' & Hsh).
    assert (Hv' : decode_obj T true RCommand cb = Some (cr_obj res)).
    { unfold decode_obj. cbn [dec_root]. unfold bind. rewrite E. reflexivity. }
    rewrite Hv in Hv'. injection Hv' as ->. rewrite Hcc in Hcc'. injection Hcc' as <-. exact Hsh.
  Qed.

  Lemma response_facts cc enc rb rv : sp_response T root_path cc enc rb = Some (rv, []) -> ok_leaves true rv = true ->
    exists v, decode_obj T true (RResponse (Some cc) enc) rb = Some v /\
              evs_of (map fst (fst (decode T true (RResponse (Some cc) enc) rb))) = oe_response T (Some cc) v root_path /\ rsp_shape T (Some cc) v.
  Proof.
    intros Es AV.
    assert (Hroot : sp_root T (RResponse (Some cc) enc) rb = Some [rv]) by (cbn [sp_root]; rewrite Es; reflexivity).
    assert (AVs : forallb (ok_leaves true) [rv] = true) by (cbn [forallb]; rewrite AV; reflexivity).
    pose proof (any_root_in_mode T true (RResponse (Some cc) enc) rb [rv] Hok ltac:(intros H; discriminate) Hroot AVs) as D.
    destruct (decoded_object_shape T (RResponse (Some cc) enc) rb _ Hnm Logic.I eq_refl D) as (v & Hv & He & Hsh).
    exists v. split; [exact Hv|]. rewrite D in *. cbn [fst] in *. split; [rewrite He; apply evs_of_map_Ev|exact Hsh].
  Qed.

  (** the command code recorded in the events of a command object *)
  Lemma command_code_of_command cc v : cmd_shape_cc T cc v -> command_code_of (oe_command T v root_path) = Some cc.
  Proof.
    intros (tagn & tagz & szn & szz & ccn & hty & hx & pty & pv & Lh & Lp & Wh & Wp & Hv).
    destruct Hv as [->|(asn & asz & l & Wl & ->)]; unfold command_code_of, oe_command, oe_req, oe_opt;
      cbn [lookupS String.eqb Ascii.eqb Bool.eqb as_int oe_leaf app filter epath ev_node]; reflexivity.
  Qed.

  Lemma shape_is_struct_c cc v : cmd_shape_cc T cc v -> exists tid vals, v = VStruct_ tid vals.
  Proof. intros (tagn & tagz & szn & szz & ccn & hty & hx & pty & pv & _ & _ & _ & _ & [->|(asn & asz & l & _ & ->)]); eexists _, _; reflexivity. Qed.
  Lemma shape_is_struct_r cc v : rsp_shape T cc v -> exists tid vals, v = VStruct_ tid vals.
  Proof.
    intros (tagn & tagz & szn & szz & rcn & rc & [->|(c & hty & hx & pty & px & _ & _ & _ & _ & _ & [->|(psn & psz & l & _ & ->)])]); eexists _, _; reflexivity.
  Qed.

  Definition msg_events (p : root * list Z * sv) : list event := evs_of (map fst (fst (decode T true (fst (fst p)) (snd (fst p))))).

  Lemma evs_of_flat_map {A} (f : A -> list action) l : evs_of (flat_map f l) = List.concat (map (fun x => evs_of (f x)) l).
  Proof. induction l as [|x l IH]; [reflexivity|]. cbn [flat_map map List.concat]. rewrite evs_app, IH. reflexivity. Qed.

  (** messages and objects of a well-formed stream, one by one *)
  Lemma split_objects bs ps : split_as T bs ps -> forallb (fun p => ok_leaves true (snd p)) ps = true ->
    Forall message (map msg_events ps) /\
    zip_objs T (map msg_events ps) (roles (map msg_events ps) None) = map (fun p => decode_obj T true (fst (fst p)) (snd (fst p))) ps /\
    Forall (fun o => o <> None) (map (fun p => decode_obj T true (fst (fst p)) (snd (fst p))) ps).
  Proof.
    induction 1 as [|cb c ci Hc Hn|cb c ci rb rv rest ps Hc Hn Hr Hrn Hs IH]; intros AV.
    - split; [constructor|]. split; [reflexivity|constructor].
    - cbn [forallb snd] in AV. rewrite andb_true_r in AV.
      destruct (command_facts cb c ci Hc AV) as (v & Hv & He & Hsh).
      destruct (shape_is_struct_c _ _ Hsh) as (tid & vals & Ev_).
      cbn [map msg_events fst snd roles zip_objs role_root]. unfold msg_events. cbn [fst snd]. rewrite He, Hv.
      split; [constructor; [rewrite Ev_; apply command_is_message|constructor]|].
      split; [|constructor; [discriminate|constructor]].
      rewrite (command_back T Hnm Hpl v (ex_intro (fun cc0 => cmd_shape_cc T cc0 v) _ Hsh)). reflexivity.
    - cbn [forallb snd] in AV. apply andb_prop in AV as [AVc AV]. apply andb_prop in AV as [AVr AV].
      destruct (IH AV) as (IHm & IHz & IHn).
      destruct (command_facts cb c ci Hc AVc) as (v & Hv & He & Hsh).
      destruct (response_facts (ci_cc ci) (ci_rsp_enc ci) rb rv Hr AVr) as (w & Hw & Hew & Hshw).
      destruct (shape_is_struct_c _ _ Hsh) as (tid & vals & Ev_). destruct (shape_is_struct_r _ _ Hshw) as (tidw & valsw & Ew_).
      cbn [map]. unfold msg_events at 1 2 4 5 7 8. cbn [fst snd]. rewrite He, Hew.
      split; [constructor; [rewrite Ev_; apply command_is_message|constructor; [rewrite Ew_; apply response_is_message|exact IHm]]|].
      split; [|rewrite Hv, Hw; constructor; [discriminate|constructor; [discriminate|exact IHn]]].
      rewrite roles_alternate. cbn [zip_objs role_root]. rewrite (command_code_of_command _ _ Hsh).
      rewrite (command_back T Hnm Hpl v (ex_intro (fun cc0 => cmd_shape_cc T cc0 v) _ Hsh)), (response_back T Hnm Hpl (Some (ci_cc ci)) false w Hshw), IHz, Hv, Hw. reflexivity.
  Qed.

  (** C11 for the stream root: the events of a well-formed stream (strict mode), run through [events_to_objs], give
      exactly the objects the decoder returns for the messages decoded one by one - one object per message, also for a
      last command without its response *)
  Theorem stream_events_rebuild_the_objects bs ps :
    split_as T bs ps -> forallb (fun p => ok_leaves true (snd p)) ps = true -> Z.of_nat (List.length bs) < Z.pos stream_bound ->
    events_to_objs T (evs_of (map fst (fst (decode T true RStream bs)))) = map (fun p => decode_obj T true (fst (fst p)) (snd (fst p))) ps /\
    Forall (fun o => o <> None) (map (fun p => decode_obj T true (fst (fst p)) (snd (fst p))) ps).
  Proof.
    intros Hs AV Hb. rewrite (stream_is_its_messages T true bs ps Hok Hs AV Hb), evs_of_flat_map.
    destruct (split_objects bs ps Hs AV) as (Hm & Hz & Hn). split; [|exact Hn].
    unfold events_to_objs. change (map (fun x => evs_of (map fst (fst (decode T true (fst (fst x)) (snd (fst x)))))) ps) with (map msg_events ps).
    rewrite (separate_messages _ Hm). exact Hz.
  Qed.

  (** C09, object side, without the premise of [separate_messages]: the events of a well-formed stream split at the
      message roots into exactly the per-message event lists *)
  Theorem stream_events_split_into_its_messages bs ps :
    split_as T bs ps -> forallb (fun p => ok_leaves true (snd p)) ps = true -> Z.of_nat (List.length bs) < Z.pos stream_bound ->
    separate_events (evs_of (map fst (fst (decode T true RStream bs)))) = map msg_events ps.
  Proof.
    intros Hs AV Hb. rewrite (stream_is_its_messages T true bs ps Hok Hs AV Hb), evs_of_flat_map.
    destruct (split_objects bs ps Hs AV) as (Hm & _ & _).
    change (map (fun x => evs_of (map fst (fst (decode T true (fst (fst x)) (snd (fst x)))))) ps) with (map msg_events ps).
    apply (separate_messages _ Hm).
  Qed.
End Stream.
