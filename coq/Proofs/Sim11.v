(** Simulation, part 11: command / response streams.
    1. every item of a specified value below its root sits at a path other than the message root;
    2. the byte pump on a trace of whole messages followed by the root event of the next one;
    3. the stream loop against [sp_stream]. *)
From Coq Require Import ZArith List String Bool Lia ZifyBool.
From TV Require Import Layout.Types Base.Bytes Model.Monad Model.Constraints Model.Ints Model.Decoder Model.Message Model.Pump
  Spec.Value Spec.Message Proofs.Closure Proofs.LowClosure Proofs.Account Proofs.Tiling Proofs.PumpProofs Proofs.Agree
  Proofs.Sim1 Proofs.Sim2 Proofs.Sim3 Proofs.Sim4 Proofs.Sim5 Proofs.Sim6 Proofs.Sim7 Proofs.Sim8 Proofs.Sim9 Proofs.Sim10.
Import ListNotations.
Open Scope string_scope.
Open Scope list_scope.
Open Scope Z_scope.

(** ---- 1. paths *)
Definition ipath (i : item) : path := match i with IPrim pa _ _ => pa | INode pa _ => pa end.
Definition nonroot (i : item) : Prop := ipath i <> root_path.
(** a path below which everything is off the root: not empty, not the root itself *)
Definition below (pa : path) : Prop := pa <> [] /\ pa <> root_path.

Lemma pchild_below pa n : pa <> [] -> below (pchild pa n).
Proof.
  intros H. unfold below, pchild. split; [destruct pa; discriminate|].
  destruct pa as [|x [|y r]]; [contradiction|discriminate|discriminate].
Qed.

Lemma pindex_below pa i : below (pindex pa i).
Proof.
  unfold below, pindex. destruct (rev pa) as [|l r]; [split; discriminate|].
  split; [destruct (rev r); discriminate|].
  intros H. apply (f_equal (@rev pnode)) in H. rewrite rev_app_distr in H. cbn in H. destruct (rev (rev r)); discriminate.
Qed.

Definition all_below (v : sv) : Prop := Forall nonroot (items_of v).

Lemma Forall_flat_map {A B} (P : B -> Prop) (f : A -> list B) l : Forall (fun a => Forall P (f a)) l -> Forall P (flat_map f l).
Proof. induction 1 as [|a l Ha _ IH]; [constructor|]. cbn [flat_map]. apply Forall_app. split; assumption. Qed.

Section Below.
  Variable f : path -> list Z -> option (sv * list Z).
  Hypothesis Hf : forall p b v r, f p b = Some (v, r) -> below p -> all_below v.

  Lemma elems_below pa n : forall i bs vs r, sp_elems f pa n i bs = Some (vs, r) -> Forall all_below vs.
  Proof.
    induction n as [|n IH]; intros i bs vs r H; cbn [sp_elems] in H; [injection H as <- _; constructor|].
    destruct (chk bs _) as [[v r1]|] eqn:C; [|discriminate]. destruct (chk_some _ _ _ _ C) as [Hs _].
    destruct (sp_elems f pa n (i + 1) r1) as [[vs' r']|] eqn:E; [|discriminate]. injection H as <- _.
    constructor; [apply (Hf _ _ _ _ Hs), pindex_below|eapply IH; exact E].
  Qed.

  Lemma counted_below lid pa count bs v r : sp_counted f lid pa count bs = Some (v, r) -> below pa -> all_below v.
  Proof.
    unfold sp_counted. destruct (_ <? count); [discriminate|].
    destruct (sp_elems f pa (Z.to_nat count) 0 bs) as [[vs r']|] eqn:E; [|discriminate]. intros [= <- _] [_ Hb].
    unfold all_below. cbn [items_of]. constructor; [exact Hb|]. apply Forall_flat_map. eapply elems_below. exact E.
  Qed.

  Lemma until_empty_below pa fuel : forall i bs vs, sp_until_empty f pa fuel i bs = Some vs -> Forall all_below vs.
  Proof.
    induction fuel as [|fuel IH]; intros i bs vs H; destruct bs as [|b0 bs']; cbn [sp_until_empty] in H;
      try (injection H as <-; constructor); try discriminate.
    destruct (chk (b0 :: bs') _) as [[v r1]|] eqn:C; [|discriminate]. destruct (chk_some _ _ _ _ C) as [Hs _].
    destruct (sp_until_empty f pa fuel (i + 1) r1) as [vs'|] eqn:E; [|discriminate]. injection H as <-.
    constructor; [apply (Hf _ _ _ _ Hs), pindex_below|eapply IH; exact E].
  Qed.

  Lemma tpm2b_list_below name szf buf szp lid pa bs v r :
    sp_tpm2b_list name szf buf szp lid f pa bs = Some (v, r) -> pa <> [] ->
    Forall nonroot (tl (items_of v)).
  Proof.
    unfold sp_tpm2b_list. intros H Hp.
    destruct (sp_prim szp _ bs) as [[[szv n] r1]|] eqn:Ep; [|discriminate].
    destruct (split_at n r1) as [[region rest']|]; [|discriminate].
    destruct (sp_counted f lid (pchild pa buf) n region) as [[lv [|x xs]]|] eqn:Ec; try discriminate. injection H as <- _.
    destruct (sp_prim_some _ _ _ _ _ _ Ep) as (h & _ & _ & _ & _ & ->).
    cbn [items_of flat_map tl]. rewrite app_nil_r. apply Forall_app. split.
    - constructor; [apply (proj2 (pchild_below pa szf Hp))|constructor].
    - apply (counted_below _ _ _ _ _ _ Ec). apply pchild_below, Hp.
  Qed.
End Below.

Section BelowTy.
  Variable T : tables.

  Definition B_ty (t : ty) : Prop := forall pa sel enc bs v r, sp_ty T t pa sel enc bs = Some (v, r) -> pa <> [] ->
    Forall nonroot (tl (items_of v)).
  Definition B_fields_at (fs : fields) : Prop := forall pa rs bs kids r, sp_fields T fs pa rs bs = Some (kids, r) -> pa <> [] ->
    Forall all_below kids.
  Definition B_fields (fs : fields) : Prop := B_fields_at fs /\ match fs with FPlain _ _ r => B_fields_at r | _ => True end.
  Definition B_arms (ar : arms) : Prop := forall pa target bs kids r, sp_arms T ar pa target bs = Some (kids, r) -> pa <> [] ->
    Forall all_below kids.
  Definition B_armp (p : armp) : Prop := match p with PNone => True | PTy t => B_ty t | PList elem _ => B_ty elem end.

  (** a value read at a path below the root is entirely off the root *)
  Lemma B_ty_all t : B_ty t -> forall pa sel enc bs v r, sp_ty T t pa sel enc bs = Some (v, r) -> below pa -> all_below v.
  Proof.
    intros H pa sel enc bs v r Hs [Hp Hr]. pose proof (H _ _ _ _ _ _ Hs Hp) as Ht.
    pose proof (sp_ty_path T _ _ _ _ _ _ _ Hs) as Hpath. unfold all_below.
    destruct v as [pa0 p z|pa0 tid kids]; cbn [items_of tl sv_path] in *; subst pa0; constructor; try exact Hr; try exact Ht.
  Qed.

  Lemma prim_elem_below ep p b v0 r0 :
    match sp_prim ep p b with Some (v, _, r) => Some (v, r) | None => None end = Some (v0, r0) -> below p -> all_below v0.
  Proof.
    destruct (sp_prim ep p b) as [[[v1 z1] r1]|] eqn:Ep; [|discriminate]. intros [= <- _] Hb.
    destruct (sp_prim_some _ _ _ _ _ _ Ep) as (h & _ & _ & _ & _ & ->). constructor; [exact (proj2 Hb)|constructor].
  Qed.

  Lemma enc_param_below pa bs v r : sp_enc_param T pa bs = Some (v, r) -> below pa -> all_below v.
  Proof.
    unfold sp_enc_param. destruct (t_enc_param T) as [| |name szf buf szp [ep| | | |]| |]; try discriminate.
    intros H [Hp Hr].
    pose proof (tpm2b_list_below _ (prim_elem_below ep) _ _ _ _ _ _ _ _ _ H Hp) as Ht.
    destruct (sp_tpm2b_list_path _ _ _ _ _ _ _ _ _ _ H) as [kids ->]. unfold all_below. cbn [items_of tl] in *.
    constructor; [exact Hr|exact Ht].
  Qed.

  Theorem below_all : (forall t, B_ty t) /\ (forall fs, B_fields fs) /\ (forall ar, B_arms ar) /\ (forall p, B_armp p).
  Proof.
    apply ty_mutind.
    - intros p pa sel enc bs v r H Hp. rewrite sp_ty_prim in H.
      destruct (sp_prim p pa bs) as [[[v0 z] r0]|] eqn:Ep; [|discriminate]. injection H as <- _.
      destruct (sp_prim_some _ _ _ _ _ _ Ep) as (h & _ & _ & _ & _ & ->). constructor.
    - intros name isparams fs [IHf IHt] pa sel enc bs v r H Hp. rewrite sp_ty_struct in H.
      destruct (enc && isparams && first_is_tpm2b fs).
      + destruct fs as [|n t r0|n e r0|n sl u r0]; try discriminate.
        destruct (sp_enc_param T (pchild pa n) bs) as [[v0 r1]|] eqn:Ee; [|discriminate].
        destruct (sp_fields T r0 pa _ r1) as [[kids r2]|] eqn:Ef; [|discriminate]. injection H as <- _.
        cbn [items_of tl flat_map]. apply Forall_app. split.
        * apply (enc_param_below _ _ _ _ Ee). apply pchild_below, Hp.
        * apply Forall_flat_map. apply (IHt _ _ _ _ _ Ef Hp).
      + destruct (sp_fields T fs pa [] bs) as [[kids r0]|] eqn:Ef; [|discriminate]. injection H as <- _.
        cbn [items_of tl]. apply Forall_flat_map. apply (IHf _ _ _ _ _ Ef Hp).
    - intros name szf buf szp elem IH pa sel enc bs v r H Hp. rewrite sp_ty_tpm2b_list in H.
      apply (tpm2b_list_below (fun p b => sp_ty T elem p None false b)
               (fun p b v0 r0 Hf Hb => B_ty_all elem IH _ _ _ _ _ _ Hf Hb) _ _ _ _ _ _ _ _ _ H Hp).
    - intros name szf buf szp inner IH pa sel enc bs v r H Hp. rewrite sp_ty_tpm2b_struct in H.
      destruct (sp_prim szp _ bs) as [[[szv n] r1]|] eqn:Ep; [|discriminate].
      destruct (sp_prim_some _ _ _ _ _ _ Ep) as (h & _ & _ & _ & _ & ->).
      destruct (n =? 0).
      + injection H as <- _. cbn [items_of tl flat_map app].
        constructor; [apply (proj2 (pchild_below pa szf Hp))|]. constructor; [apply (proj2 (pchild_below pa buf Hp))|constructor].
      + destruct (split_at n r1) as [[region rest']|]; [|discriminate].
        destruct (sp_ty T inner _ None false region) as [[iv [|x xs]]|] eqn:Ei; try discriminate. injection H as <- _.
        cbn [items_of tl flat_map app]. rewrite app_nil_r.
        constructor; [apply (proj2 (pchild_below pa szf Hp))|]. apply (B_ty_all inner IH _ _ _ _ _ _ Ei). apply pchild_below, Hp.
    - intros name ar IH pa sel enc bs v r H Hp. rewrite sp_ty_union in H.
      destruct (select_arm ar sel) as [[n ap]|]; [|discriminate].
      destruct (sp_arms T ar pa n bs) as [[kids r0]|] eqn:Ea; [|discriminate]. injection H as <- _.
      cbn [items_of tl]. apply Forall_flat_map. apply (IH _ _ _ _ _ Ea Hp).
    - split; [|exact Logic.I]. intros pa rs bs kids r H Hp. cbn [sp_fields] in H. injection H as <- _. constructor.
    - intros n t IHt r0 [IHr _]. split; [|exact IHr]. intros pa rs bs kids r H Hp. rewrite sp_fields_plain in H.
      destruct (chk bs _) as [[v r1]|] eqn:C; [|discriminate]. destruct (chk_some _ _ _ _ C) as [Hs _]. cbv zeta in H.
      destruct (sp_fields T r0 pa _ r1) as [[vs r2]|] eqn:Ef; [|discriminate]. injection H as <- _.
      constructor; [apply (B_ty_all t IHt _ _ _ _ _ _ Hs), pchild_below, Hp|apply (IHr _ _ _ _ _ Ef Hp)].
    - intros n elem IHe r0 [IHr _]. split; [|exact Logic.I]. intros pa rs bs kids r H Hp. rewrite sp_fields_list in H.
      destruct rs as [|[cn [[tn c]|]] rs']; try discriminate.
      destruct (chk bs _) as [[v r1]|] eqn:C; [|discriminate]. destruct (chk_some _ _ _ _ C) as [Hs _].
      destruct (sp_fields T r0 pa _ r1) as [[vs r2]|] eqn:Ef; [|discriminate]. injection H as <- _.
      constructor; [|apply (IHr _ _ _ _ _ Ef Hp)].
      apply (counted_below (fun p b => sp_ty T elem p None false b)
               (fun p b v0 r3 Hf Hb => B_ty_all elem IHe _ _ _ _ _ _ Hf Hb) _ _ _ _ _ _ Hs). apply pchild_below, Hp.
    - intros n seln u IHu r0 [IHr _]. split; [|exact Logic.I]. intros pa rs bs kids r H Hp. rewrite sp_fields_union in H.
      destruct (lookupS seln rs) as [[tz|]|]; try discriminate.
      destruct (chk bs _) as [[v r1]|] eqn:C; [|discriminate]. destruct (chk_some _ _ _ _ C) as [Hs _]. cbv zeta in H.
      destruct (sp_fields T r0 pa _ r1) as [[vs r2]|] eqn:Ef; [|discriminate]. injection H as <- _.
      constructor; [apply (B_ty_all u IHu _ _ _ _ _ _ Hs), pchild_below, Hp|apply (IHr _ _ _ _ _ Ef Hp)].
    - intros pa target bs kids r H. discriminate.
    - intros n key p IHp r0 IHr pa target bs kids r H Hp. rewrite sp_arms_cons in H.
      destruct (String.eqb n target); [|apply (IHr _ _ _ _ _ H Hp)].
      destruct p as [|t|elem [cnt|]]; try discriminate.
      + injection H as <- _. constructor.
      + destruct (chk bs _) as [[v r1]|] eqn:C; [|discriminate]. destruct (chk_some _ _ _ _ C) as [Hs _]. injection H as <- _.
        constructor; [apply (B_ty_all t IHp _ _ _ _ _ _ Hs), pchild_below, Hp|constructor].
      + destruct (chk bs _) as [[v r1]|] eqn:C; [|discriminate]. destruct (chk_some _ _ _ _ C) as [Hs _]. injection H as <- _.
        constructor; [|constructor].
        apply (counted_below (fun p b => sp_ty T elem p None false b)
                 (fun p b v0 r3 Hf Hb => B_ty_all elem IHp _ _ _ _ _ _ Hf Hb) _ _ _ _ _ _ Hs). apply pchild_below, Hp.
    - exact Logic.I.
    - intros t IH. exact IH.
    - intros elem IH n. exact IH.
  Qed.

  Lemma ty_below t pa sel enc bs v r : sp_ty T t pa sel enc bs = Some (v, r) -> below pa -> all_below v.
  Proof. apply B_ty_all. apply below_all. Qed.
End BelowTy.

(** ---- messages: everything below the root node of the message is off the root *)
Lemma Forall_all_below_items kids : Forall all_below kids -> Forall nonroot (flat_map items_of kids).
Proof. intros H. apply Forall_flat_map. exact H. Qed.

Lemma prim_below p pa bs v z r : sp_prim p pa bs = Some (v, z, r) -> pa <> root_path -> all_below v.
Proof. intros H Hp. destruct (sp_prim_some _ _ _ _ _ _ H) as (h & _ & _ & _ & _ & ->). constructor; [exact Hp|constructor]. Qed.

Section MsgBelow.
  Variable T : tables.

  Lemma sessions_below (t : ty) pa n i bs vs : pa <> [] ->
    sp_until_empty (fun p b => sp_ty T t p None false b) (pchild pa n) (List.length bs) i bs = Some vs ->
    all_below (SNode (pchild pa n) (list_id t) vs).
  Proof.
    intros Hp H. unfold all_below. cbn [items_of]. constructor; [exact (proj2 (pchild_below pa n Hp))|].
    apply Forall_all_below_items.
    apply (until_empty_below (fun p b => sp_ty T t p None false b) (fun p b v r Hf Hb => ty_below T t p None false b v r Hf Hb) _ _ _ _ _ H).
  Qed.

  Lemma cmd_below pa bs v ci rest : sp_command T pa bs = Some (v, ci, rest) -> pa <> [] ->
    exists t kids, v = SNode pa t kids /\ Forall nonroot (flat_map items_of kids).
  Proof.
    unfold sp_command. intros H Hp.
    destruct (sp_prim (p_cmd_tag T) _ bs) as [[[tagv tag] r1]|] eqn:Ep1; [|discriminate].
    destruct (sp_prim (p_size32 T) _ r1) as [[[szv total] r2]|] eqn:Ep2; [|discriminate].
    destruct (split_at _ r2) as [[body rest0]|]; [|discriminate].
    destruct (sp_prim (p_cc T) _ body) as [[[ccv cc] r3]|] eqn:Ep3; [|discriminate].
    destruct (lookupZ cc (cmd_handles T)) as [hty|]; [|discriminate].
    destruct (lookupZ cc (cmd_params T)) as [pty|]; [|discriminate].
    destruct (sp_ty T hty _ None false r3) as [[hv r4]|] eqn:Eh; [|discriminate].
    pose proof (prim_below _ _ _ _ _ _ Ep1 (proj2 (pchild_below pa _ Hp))) as B1.
    pose proof (prim_below _ _ _ _ _ _ Ep2 (proj2 (pchild_below pa _ Hp))) as B2.
    pose proof (prim_below _ _ _ _ _ _ Ep3 (proj2 (pchild_below pa _ Hp))) as B3.
    pose proof (ty_below T _ _ _ _ _ _ _ Eh (pchild_below pa _ Hp)) as B4.
    destruct (tag =? st_sessions T).
    - destruct (sp_prim (p_size32 T) _ r4) as [[[asv asz] r5]|] eqn:Ep4; [|discriminate].
      destruct (split_at asz r5) as [[aregion r6]|]; [|discriminate].
      destruct (sp_until_empty _ _ _ _ _) as [sessions|] eqn:Eu; [|discriminate].
      destruct (sp_ty T pty _ None _ r6) as [[pv [|x xs]]|] eqn:Epp; try discriminate. injection H as <- _ _.
      eexists _, _. split; [reflexivity|]. apply Forall_all_below_items.
      constructor; [exact B1|]. constructor; [exact B2|]. constructor; [exact B3|]. constructor; [exact B4|].
      constructor; [apply (prim_below _ _ _ _ _ _ Ep4 (proj2 (pchild_below pa _ Hp)))|].
      constructor; [apply (sessions_below _ pa _ _ _ _ Hp Eu)|].
      constructor; [apply (ty_below T _ _ _ _ _ _ _ Epp (pchild_below pa _ Hp))|constructor].
    - destruct (sp_ty T pty _ None _ r4) as [[pv [|x xs]]|] eqn:Epp; try discriminate. injection H as <- _ _.
      eexists _, _. split; [reflexivity|]. apply Forall_all_below_items.
      constructor; [exact B1|]. constructor; [exact B2|]. constructor; [exact B3|]. constructor; [exact B4|].
      constructor; [apply (ty_below T _ _ _ _ _ _ _ Epp (pchild_below pa _ Hp))|constructor].
  Qed.

  Lemma rsp_below pa cc enc bs v rest : sp_response T pa cc enc bs = Some (v, rest) -> pa <> [] ->
    exists t kids, v = SNode pa t kids /\ Forall nonroot (flat_map items_of kids).
  Proof.
    unfold sp_response. intros H Hp.
    destruct (sp_prim (p_rsp_tag T) _ bs) as [[[tagv tag] r1]|] eqn:Ep1; [|discriminate].
    destruct (sp_prim (p_size32 T) _ r1) as [[[szv total] r2]|] eqn:Ep2; [|discriminate].
    destruct (split_at _ r2) as [[body rest0]|]; [|discriminate].
    destruct (sp_prim (p_rc T) _ body) as [[[rcv rc] r3]|] eqn:Ep3; [|discriminate].
    pose proof (prim_below _ _ _ _ _ _ Ep1 (proj2 (pchild_below pa _ Hp))) as B1.
    pose proof (prim_below _ _ _ _ _ _ Ep2 (proj2 (pchild_below pa _ Hp))) as B2.
    pose proof (prim_below _ _ _ _ _ _ Ep3 (proj2 (pchild_below pa _ Hp))) as B3.
    destruct (negb (rc =? rc_success T)).
    - destruct r3; [|discriminate]. injection H as <- _. eexists _, _. split; [reflexivity|]. apply Forall_all_below_items.
      constructor; [exact B1|]. constructor; [exact B2|]. constructor; [exact B3|constructor].
    - destruct (lookupZ cc (rsp_handles T)) as [hty|]; [|discriminate].
      destruct (lookupZ cc (rsp_params T)) as [pty|]; [|discriminate].
      destruct (sp_ty T hty _ None false r3) as [[hv r4]|] eqn:Eh; [|discriminate].
      pose proof (ty_below T _ _ _ _ _ _ _ Eh (pchild_below pa _ Hp)) as B4.
      destruct (tag =? st_sessions T).
      + destruct (sp_prim (p_size32 T) _ r4) as [[[psv psz] r5]|] eqn:Ep4; [|discriminate].
        destruct (split_at psz r5) as [[pregion aregion]|]; [|discriminate].
        destruct (sp_ty T pty _ None enc pregion) as [[pv [|x xs]]|] eqn:Epp; try discriminate.
        destruct (sp_until_empty _ _ _ _ _) as [sessions|] eqn:Eu; [|discriminate].
        destruct (Bool.eqb enc _); [|discriminate]. injection H as <- _.
        eexists _, _. split; [reflexivity|]. apply Forall_all_below_items.
        constructor; [exact B1|]. constructor; [exact B2|]. constructor; [exact B3|]. constructor; [exact B4|].
        constructor; [apply (prim_below _ _ _ _ _ _ Ep4 (proj2 (pchild_below pa _ Hp)))|].
        constructor; [apply (ty_below T _ _ _ _ _ _ _ Epp (pchild_below pa _ Hp))|].
        constructor; [apply (sessions_below _ pa _ _ _ _ Hp Eu)|constructor].
      + destruct enc; [discriminate|]. destruct (sp_ty T pty _ None false r4) as [[pv [|x xs]]|] eqn:Epp; try discriminate.
        injection H as <- _. eexists _, _. split; [reflexivity|]. apply Forall_all_below_items.
        constructor; [exact B1|]. constructor; [exact B2|]. constructor; [exact B3|]. constructor; [exact B4|].
        constructor; [apply (ty_below T _ _ _ _ _ _ _ Epp (pchild_below pa _ Hp))|constructor].
  Qed.
End MsgBelow.

(** ---- 2. the byte pump on whole messages *)
Lemma path_eqb_root p : path_eqb p root_path = true -> p = root_path.
Proof.
  destruct p as [|[n i] [|b r]]; cbn; try discriminate.
  - intros H. apply andb_prop in H as [H _]. apply andb_prop in H as [Hn Hi].
    apply String.eqb_eq in Hn. subst n. destruct i; [discriminate|reflexivity].
  - intros H. apply andb_prop in H as [_ H]. discriminate.
Qed.

Lemma nonroot_event i : nonroot i -> is_root_event (item_event i) = false.
Proof.
  intros H. destruct i as [pa p z|pa t]; unfold is_root_event; cbn [item_event evalue epath]; [apply andb_false_r|].
  rewrite andb_true_r. destruct (path_eqb pa root_path) eqn:E; [|reflexivity]. exfalso. apply H. apply path_eqb_root, E.
Qed.

(** in stream mode the pump behaves on [tr] as in plain mode when started after [nrd] bytes *)
Definition clean (len : Z) (tr : list action) (nrd : Z) : Prop :=
  forall ps, ps_nrd ps = nrd -> pump_go true len tr ps = pump_go false len tr ps.

Lemma clean_nil len nrd : clean len [] nrd.
Proof. intros ps _. reflexivity. Qed.

Lemma clean_app len a b nrd : clean len a nrd -> clean len b (nrd + blen (bytes_of a)) -> clean len (a ++ b) nrd.
Proof.
  intros Ha Hb ps Hn. destruct (pump_go_nostream len a ps) as (ps1 & G & _ & N).
  rewrite (pump_go_app_cont false len a b ps ps1 G).
  rewrite <- (Ha ps Hn) in G. rewrite (pump_go_app_cont true len a b ps ps1 G).
  apply Hb. rewrite N, Hn. reflexivity.
Qed.

Lemma clean_reads len bs tr nrd : clean len tr (nrd + blen bs) -> clean len (map Rd bs ++ tr) nrd.
Proof.
  revert nrd. induction bs as [|b r IH]; intros nrd H; cbn [map app].
  - unfold blen in H. cbn in H. rewrite Z.add_0_r in H. exact H.
  - intros ps Hn. cbn [pump_go]. apply (IH (nrd + 1)); [|cbn [ps_nrd]; lia].
    replace (nrd + 1 + blen r) with (nrd + blen (b :: r)) by (unfold blen; cbn [List.length]; lia). exact H.
Qed.

Lemma clean_off_root len tr items : shape tr items -> Forall nonroot items -> forall nrd, clean len tr nrd.
Proof.
  induction 1 as [|pa t tr r H IH|pa p z bs tr r L Hw H IH]; intros Hn nrd.
  - apply clean_nil.
  - inversion Hn as [|? ? H1 H2]; subst. intros ps Hp. cbn [pump_go]. rewrite (nonroot_event _ H1), andb_false_r. cbn [andb].
    apply (IH H2 (ps_nrd ps)). reflexivity.
  - inversion Hn as [|? ? H1 H2]; subst. apply clean_reads. intros ps Hp. cbn [pump_go].
    rewrite (nonroot_event _ H1), andb_false_r. cbn [andb].
    unfold vwarn. destruct (valid p z); cbn [app pump_go]; apply (IH H2 (ps_nrd ps)); reflexivity.
Qed.

(** a whole message starting before the end of the input *)
Lemma clean_msg len tr pa t rest nrd : shape tr (INode pa t :: rest) -> Forall nonroot rest -> nrd < len -> clean len tr nrd.
Proof.
  intros Sh Hn Hlt. inversion Sh as [|? ? tr' ? Sh'|]; subst. intros ps Hp. cbn [pump_go].
  replace (len <=? ps_nrd ps) with false by lia. cbn [andb].
  apply (clean_off_root len tr' rest Sh' Hn (ps_nrd ps)). reflexivity.
Qed.

(** ---- 3. the stream loop *)
Lemma bind_prefix A B (m : M A) (f : A -> M B) s p tl s1 o :
  m s = (p ++ tl, s1, o) -> exists tl' s' o', bind m f s = (p ++ tl', s', o').
Proof.
  intros E. unfold bind. rewrite E. destruct o as [a|e| |k|]; try (eexists _, _, _; reflexivity).
  destruct (f a s1) as [[tr2 s2] o2]. rewrite <- app_assoc. eexists _, _, _. reflexivity.
Qed.

Lemma bind_silent_prefix A B (m : M A) (f : A -> M B) s s1 a p :
  m s = ([], s1, Ok a) -> (exists tl s' o, f a s1 = (p ++ tl, s', o)) -> exists tl s' o, bind m f s = (p ++ tl, s', o).
Proof. intros E (tl & s' & o & Ef). unfold bind. rewrite E, Ef. eexists _, _, _. reflexivity. Qed.

Lemma cmd_head T abort pa s : exists tl s' o, dec_command T abort pa s = ([sev pa (TyN "Command")] ++ tl, s', o).
Proof.
  unfold dec_command.
  eapply bind_silent_prefix; [reflexivity|]. eapply bind_silent_prefix; [reflexivity|]. eapply bind_silent_prefix; [reflexivity|].
  eapply bind_prefix with (tl := []). reflexivity.
Qed.

Lemma rsp_head T abort pa cc enc s : exists tl s' o, dec_response T abort pa cc enc s = ([sev pa (TyN "Response")] ++ tl, s', o).
Proof.
  unfold dec_response.
  eapply bind_silent_prefix; [reflexivity|]. eapply bind_silent_prefix; [reflexivity|]. eapply bind_silent_prefix; [reflexivity|].
  eapply bind_prefix with (tl := []). reflexivity.
Qed.

Section Stream.
  Variable T : tables.
  Variable abort : bool.
  Hypothesis Hok : msg_tables_ok T = true.

  Definition sbody (_ : unit) : M unit :=
    bind (dec_command T abort root_path) (fun c =>
      match is_param_enc (sess_attr_field T) (mask_encrypt T) (cr_area c) with
      | Some enc => bind (dec_response T abort root_path (cr_cc c) enc) (fun _ => ret tt)
      | None => internal_ IAuthNone
      end).

  Lemma accounts_cmd : accounts (dec_command T abort root_path).
  Proof. apply (P_dec_command T abort (@accounts) (lclosed_closed _ accounts_lclosed abort)). Qed.
  Lemma accounts_rsp cc enc : accounts (dec_response T abort root_path cc enc).
  Proof. apply (P_dec_response T abort (@accounts) (lclosed_closed _ accounts_lclosed abort)). Qed.

  Lemma root_nonempty : root_path <> [].
  Proof. discriminate. Qed.

  Lemma stream_iter : forall fuel N bs vs s,
    sp_stream T fuel root_path bs = Some vs -> forallb (ok_leaves abort) vs = true -> (fuel < N)%nat -> wf_st s -> inp s = bs ->
    exists tr_m e tl s' o, iter N sbody tt s = (tr_m ++ Ev e :: tl, s', o) /\ is_root_event e = true /\
      shape tr_m (flat_map items_of vs) /\ bytes_of tr_m = bs /\ (forall len nrd, nrd + blen bs = len -> clean len tr_m nrd).
  Proof.
    unfold msg_tables_ok in Hok. apply andb_prop in Hok as [Hok' Hp]. apply andb_prop in Hok' as [Hc Hrs].
    induction fuel as [|fuel IH]; intros N bs vs s H AV HN W I; (destruct N as [|N']; [lia|]).
    - (* no fuel: the input must be empty *)
      destruct bs as [|b0 bs']; cbn [sp_stream] in H; [|discriminate]. injection H as <-.
      destruct (cmd_head T abort root_path s) as (tl & s1 & o1 & E1).
      destruct (bind_prefix _ _ (dec_command T abort root_path)
                  (fun c => match is_param_enc (sess_attr_field T) (mask_encrypt T) (cr_area c) with
                            | Some enc => bind (dec_response T abort root_path (cr_cc c) enc) (fun _ => ret tt)
                            | None => internal_ IAuthNone end) s _ _ _ _ E1) as (tl2 & s2 & o2 & E2).
      destruct (bind_prefix _ _ (sbody tt) (iter N' sbody) s _ _ _ _ E2) as (tl3 & s3 & o3 & E3).
      exists [], (mkEvent root_path (TyN "Command") None), tl3, s3, o3. cbn [iter].
      split; [exact E3|]. split; [reflexivity|]. split; [constructor|]. split; [reflexivity|]. intros len nrd _. apply clean_nil.
    - destruct bs as [|b0 bs'].
      + cbn [sp_stream] in H. injection H as <-.
        destruct (cmd_head T abort root_path s) as (tl & s1 & o1 & E1).
        destruct (bind_prefix _ _ (dec_command T abort root_path)
                    (fun c => match is_param_enc (sess_attr_field T) (mask_encrypt T) (cr_area c) with
                              | Some enc => bind (dec_response T abort root_path (cr_cc c) enc) (fun _ => ret tt)
                              | None => internal_ IAuthNone end) s _ _ _ _ E1) as (tl2 & s2 & o2 & E2).
        destruct (bind_prefix _ _ (sbody tt) (iter N' sbody) s _ _ _ _ E2) as (tl3 & s3 & o3 & E3).
        exists [], (mkEvent root_path (TyN "Command") None), tl3, s3, o3. cbn [iter].
        split; [exact E3|]. split; [reflexivity|]. split; [constructor|]. split; [reflexivity|]. intros len nrd _. apply clean_nil.
      + remember (b0 :: bs') as bs eqn:Hbs.
        assert (Hpos : 0 < blen bs) by (subst bs; unfold blen; cbn; lia).
        assert (H' : match sp_command T root_path bs with
                     | Some (c, ci, r) =>
                         match r with
                         | [] => Some [c]
                         | _ => match sp_response T root_path (ci_cc ci) (ci_rsp_enc ci) r with
                                | Some (rv, r') => match sp_stream T fuel root_path r' with Some vs0 => Some (c :: rv :: vs0) | None => None end
                                | None => None end
                         end
                     | None => None end = Some vs) by (subst bs; exact H).
        clear H. destruct (sp_command T root_path bs) as [[[c ci] r]|] eqn:Ec; [|discriminate].
        destruct (cmd_below T _ _ _ _ _ Ec root_nonempty) as (ct & ckids & Hcv & Hcb).
        assert (AVc : ok_leaves abort c = true) by (destruct r; [injection H' as <-|
          destruct (sp_response _ _ _ _ _) as [[rv r']|]; [|discriminate]; destruct (sp_stream _ _ _ r') as [vs0|]; [|discriminate]; injection H' as <-];
          cbn [forallb] in AV; apply andb_prop in AV as [AV1 _]; exact AV1).
        destruct (cmd_sim T abort Hc root_path bs c ci r s Ec AVc W I) as (tr_c & s_c & res & cb & E_c & Sh_c & I_c & Ir_c & W_c & _ & Hcc & Henc).
        pose proof (accounts_cmd s tr_c s_c (Ok res) E_c) as Ac. rewrite Ir_c, I_c in Ac. apply app_inv_tail in Ac.
        assert (Bc : blen bs = blen cb + blen r) by (rewrite <- I, I_c; unfold blen; rewrite app_length; lia).
        assert (Cc : forall len nrd, nrd < len -> clean len tr_c nrd).
        { intros len nrd Hlt. rewrite Hcv in Sh_c. cbn [items_of] in Sh_c. apply (clean_msg len tr_c _ _ _ nrd Sh_c Hcb Hlt). }
        destruct r as [|x xs].
        * (* the stream ends after this command *)
          injection H' as <-.
          destruct (rsp_head T abort root_path (cr_cc res) (ci_rsp_enc ci) s_c) as (tl & s1 & o1 & E1).
          destruct (bind_prefix _ _ (dec_response T abort root_path (cr_cc res) (ci_rsp_enc ci)) (fun _ => ret tt) s_c _ _ _ _ E1) as (tl2 & s2 & o2 & E2).
          assert (Eb : exists tl3 s3 o3, sbody tt s = ((tr_c ++ [sev root_path (TyN "Response")]) ++ tl3, s3, o3)).
          { unfold sbody, bind at 1. rewrite E_c, Henc, E2. eexists _, _, _. rewrite <- app_assoc. reflexivity. }
          destruct Eb as (tl3 & s3 & o3 & E3).
          destruct (bind_prefix _ _ (sbody tt) (iter N' sbody) s _ _ _ _ E3) as (tl4 & s4 & o4 & E4).
          exists tr_c, (mkEvent root_path (TyN "Response") None), tl4, s4, o4. cbn [iter].
          split; [rewrite E4, <- app_assoc; reflexivity|]. split; [reflexivity|].
          split; [cbn [flat_map]; rewrite app_nil_r; exact Sh_c|]. split; [rewrite <- Ac, <- I, I_c, app_nil_r; reflexivity|].
          intros len nrd Hl. apply Cc. lia.
        * (* a response follows *)
          destruct (sp_response T root_path (ci_cc ci) (ci_rsp_enc ci) (x :: xs)) as [[rv r']|] eqn:Er; [|discriminate].
          destruct (sp_stream T fuel root_path r') as [vs0|] eqn:Es; [|discriminate]. injection H' as <-.
          cbn [forallb] in AV. apply andb_prop in AV as [_ AV]. apply andb_prop in AV as [AVr AV0].
          destruct (rsp_below T _ _ _ _ _ _ Er root_nonempty) as (rt & rkids & Hrv & Hrb).
          destruct (rsp_sim T abort Hrs Hp root_path (ci_cc ci) (ci_rsp_enc ci) (x :: xs) rv r' s_c Er AVr W_c Ir_c)
            as (tr_r & s_r & a_r & rb & E_r & Sh_r & I_r & Ir_r & W_r & _).
          pose proof (accounts_rsp _ _ s_c tr_r s_r (Ok a_r) E_r) as Ar. rewrite Ir_r, I_r in Ar. apply app_inv_tail in Ar.
          assert (Hxs : x :: xs = rb ++ r') by (rewrite <- Ir_c; exact I_r).
          assert (Br : blen (x :: xs) = blen rb + blen r') by (rewrite Hxs; unfold blen; rewrite app_length; lia).
          destruct (IH N' r' vs0 s_r Es AV0 ltac:(lia) W_r Ir_r) as (tr_m & e & tl & s' & o & E_m & He & Sh_m & B_m & C_m).
          exists (tr_c ++ tr_r ++ tr_m), e, tl, s', o. cbn [iter].
          split.
          { unfold bind at 1. unfold sbody, bind at 1. rewrite E_c, Henc, Hcc. unfold bind at 1. rewrite E_r. cbn [ret].
            fold sbody. rewrite E_m. rewrite app_nil_r, <- !app_assoc. reflexivity. }
          split; [exact He|].
          split; [cbn [flat_map]; apply shape_app; [exact Sh_c|apply shape_app; assumption]|].
          split; [rewrite !bytes_of_app, <- Ac, <- Ar, B_m, <- I, I_c, Hxs; reflexivity|].
          intros len nrd Hl. apply clean_app; [apply Cc; lia|]. rewrite <- Ac.
          apply clean_app.
          -- rewrite Hrv in Sh_r. cbn [items_of] in Sh_r. apply (clean_msg len tr_r _ _ _ _ Sh_r Hrb). unfold blen in *. cbn [List.length] in *. lia.
          -- rewrite <- Ar. apply C_m. lia.
  Qed.

  (** a stream of whole messages: the events of all of them, then the pump stops silently at the next message root *)
  Theorem stream_decodes_in_mode bs vs :
    sp_stream T (List.length bs) root_path bs = Some vs -> forallb (ok_leaves abort) vs = true ->
    Z.of_nat (List.length bs) < Z.pos stream_bound ->
    decode T abort RStream bs = (stamp_lenient (Z.of_nat (List.length bs)) (flat_map items_of vs) 0, OAccepted).
  Proof.
    intros H AV Hb.
    assert (HN : (List.length bs < Pos.to_nat stream_bound)%nat) by (apply Nat2Z.inj_lt; rewrite positive_nat_Z; exact Hb).
    destruct (stream_iter (List.length bs) (Pos.to_nat stream_bound) bs vs (init_st bs) H AV HN (wf_init bs) eq_refl)
      as (tr_m & e & tl & s' & o & E & He & Sh & Bm & Cm).
    assert (Er : exists tl' s'' o'', dec_root T abort RStream (init_st bs) = ((tr_m ++ [Ev e]) ++ tl', s'', o'')).
    { cbn [dec_root]. unfold dec_stream.
      assert (E0 : rep stream_bound sbody tt (init_st bs) = ((tr_m ++ [Ev e]) ++ tl, s', o)).
      { rewrite (rep_iter _ sbody stream_bound tt (init_st bs)), E, <- app_assoc. reflexivity. }
      destruct (bind_prefix _ _ (rep stream_bound sbody tt) (fun _ => @fuel_ unit) (init_st bs) _ _ _ _ E0) as (tl1 & s1 & o1 & E1).
      exact (bind_prefix _ _ _ (fun _ => ret None) (init_st bs) _ _ _ _ E1). }
    destruct Er as (tl' & s'' & o'' & Er).
    unfold decode, pump. rewrite Er. cbn [is_stream_root].
    set (len := Z.of_nat (List.length bs)).
    destruct (pump_go_nostream len tr_m (mkP 0 None [])) as (ps1 & G & _ & N).
    pose proof (pump_go_stamps _ _ _ _ _ _ G) as O. cbn [ps_out ps_nrd rev app] in O, N.
    rewrite <- (Cm len 0 ltac:(unfold blen, len; lia) (mkP 0 None []) eq_refl) in G.
    rewrite <- app_assoc. rewrite (pump_go_app_cont true len tr_m _ _ ps1 G). cbn [app pump_go].
    replace (len <=? ps_nrd ps1) with true by (rewrite N, Bm; unfold len; lia). rewrite He. cbn [andb ps_out].
    rewrite O, (shape_stamps _ _ _ Sh). reflexivity.
  Qed.
End Stream.

(** ---- every root *)
Definition within_bound (r : root) (bs : list Z) : Prop :=
  is_stream_root r = true -> Z.of_nat (List.length bs) < Z.pos stream_bound.

Theorem any_root_in_mode T abort r bs vs :
  msg_tables_ok T = true -> within_bound r bs -> sp_root T r bs = Some vs -> forallb (ok_leaves abort) vs = true ->
  decode T abort r bs = (stamp_lenient (Z.of_nat (List.length bs)) (flat_map items_of vs) 0, OAccepted).
Proof.
  intros Ht Hb Hs AV. destruct (is_stream_root r) eqn:Hr.
  - destruct r; try discriminate. cbn [sp_root] in Hs. apply (stream_decodes_in_mode T abort Ht bs vs Hs AV (Hb eq_refl)).
  - destruct (root_run T abort r bs vs Ht Hr Hs AV) as (tr & s' & a & E & Sh & I').
    apply (accepted_of_run T abort r bs tr s' a _ Hr E Sh I').
Qed.

(** C01 for every root *)
Theorem any_root_decodes_as_specified T r bs evs :
  msg_tables_ok T = true -> within_bound r bs -> spec_events T r bs = Some evs -> decode T true r bs = (evs, OAccepted).
Proof.
  intros Ht Hb. unfold spec_events. destruct (sp_root T r bs) as [vs|] eqn:Es; [|discriminate].
  destruct (forallb all_valid vs) eqn:AV; [|discriminate]. intros [= <-].
  rewrite (any_root_in_mode T true r bs vs Ht Hb Es ltac:(rewrite ok_leaves_true_all; exact AV)).
  rewrite stamp_lenient_valid by (rewrite <- all_valid_items; exact AV). reflexivity.
Qed.

(** C08, values only, for every root *)
Theorem any_root_decodes_lenient T r bs evs :
  msg_tables_ok T = true -> within_bound r bs -> spec_lenient T r bs = Some evs -> decode T false r bs = (evs, OAccepted).
Proof.
  intros Ht Hb. unfold spec_lenient. destruct (sp_root T r bs) as [vs|] eqn:Es; [|discriminate]. intros [= <-].
  apply (any_root_in_mode T false r bs vs Ht Hb Es (ok_leaves_false_all vs)).
Qed.
