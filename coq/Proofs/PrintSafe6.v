(** C14: the pretty printer never fails on decoder output - part 6: streams, every root, the byte pump. *)
From Coq Require Import ZArith List String Bool Lia.
From TV Require Import Layout.Types Base.Bytes Model.Monad Model.Constraints Model.Ints Model.Decoder Model.Message Model.Pump Model.Pretty
  Proofs.Sim3 Proofs.Sim4 Proofs.Sim11 Proofs.Safe1 Proofs.Warn1 Proofs.Tiling Proofs.PrettyProofs
  Proofs.PrintSafe1 Proofs.PrintSafe2 Proofs.PrintSafe3 Proofs.PrintSafe4 Proofs.PrintSafe5.
Import ListNotations.
Open Scope string_scope.
Open Scope list_scope.
Open Scope Z_scope.

(** between two messages of a stream the printer may still hold an open byte buffer of the previous message; the root
    event of the next message closes it *)
Definition okst (st : ast) : Prop := match st with AInB pl => Below root_path pl | _ => True end.
Definition SafeFrom (ts : list tok) : Prop := forall st, okst st -> exists st', arun st ts = Some st' /\ okst st'.

Lemma SafeFrom_nil : SafeFrom [].
Proof. intros st H. exists st. split; [reflexivity|exact H]. Qed.
Lemma SafeFrom_app a b : SafeFrom a -> SafeFrom b -> SafeFrom (a ++ b).
Proof. intros Ha Hb st H. rewrite arun_app. destruct (Ha st H) as (st1 & E1 & H1). rewrite E1. apply (Hb st1 H1). Qed.
Lemma SafeFrom_warnings ts : Forall (fun t => t = TW) ts -> SafeFrom ts.
Proof. intros H st Hs. exists st. split; [|exact Hs]. induction H as [|t r -> _ IH]; [reflexivity|exact IH]. Qed.

Lemma msg_safe rest : G (Ext root_path) (Below root_path) (TS root_path :: rest) -> SafeFrom (TS root_path :: rest).
Proof.
  intros [_ Hr] st Hs.
  assert (Hst : arun st (TS root_path :: rest) = arun ATop (TS root_path :: rest) \/ foreign (Ext root_path) st).
  { destruct st as [|pl|pe]; [right; exact I| |right; exact I]. left. cbn [arun astep].
    destruct Hs as (a & u & ->). rewrite (child_longer root_path a u); [reflexivity|discriminate]. }
  destruct Hst as [-> | Hf].
  - destruct (Hr ATop I) as (st' & E & H). exists st'. split; [exact E|]. destruct H as [->|H]; [exact I|].
    destruct st' as [|pl'|pe']; cbn [okst belongs] in *; auto.
  - destruct (Hr st Hf) as (st' & E & H). exists st'. split; [exact E|]. destruct H as [->|H]; [exact Hs|].
    destruct st' as [|pl'|pe']; cbn [okst belongs] in *; auto.
Qed.

Section Roots.
  Variable T : tables.
  Variable ps : list prim.
  Variable abort : bool.
  Hypothesis Hok : msg_pok T ps = true.

  Definition TrS {A} (m : M A) : Prop := forall s tr s' o, m s = (tr, s', o) -> SafeFrom (toks ps tr).

  Lemma TrS_bind {A B} (m : M A) (f : A -> M B) : TrS m -> (forall a, TrS (f a)) -> TrS (bind m f).
  Proof.
    intros Hm Hf s tr s' o E. destruct (bind_inv' _ _ _ _ _ _ _ _ E) as (tr1 & s1 & o1 & E1 & R). pose proof (Hm _ _ _ _ E1) as H1.
    destruct o1 as [a|e| |k|]; try (destruct R as (_ & _ & ->); exact H1).
    destruct R as (tr2 & E2 & ->). rewrite toks_app. apply SafeFrom_app; [exact H1|apply (Hf a _ _ _ _ E2)].
  Qed.
  Lemma TrS_silent {A} (m : M A) : silent ps m -> TrS m.
  Proof. intros H s tr s' o E. apply SafeFrom_warnings, (H _ _ _ _ E). Qed.
  Lemma TrS_eq {A} (m m' : M A) : meq m m' -> TrS m' -> TrS m.
  Proof. intros He H s tr s' o E. rewrite He in E. apply (H _ _ _ _ E). Qed.
  Lemma TrS_iter {A} (f : A -> M A) : (forall x, TrS (f x)) -> forall n x, TrS (iter n f x).
  Proof. intros Hf. induction n as [|n IH]; intros x; cbn [iter]; [apply TrS_silent, AllT_ret|apply TrS_bind; [apply Hf|apply IH]]. Qed.

  Lemma TrS_command : TrS (dec_command T abort root_path).
  Proof.
    intros s tr s' o E. destruct (cmd_head T abort root_path s) as (tl & s1 & o1 & Eh). rewrite Eh in E. injection E as <- _ _.
    pose proof (GM_command T ps abort Hok root_path _ _ _ _ Eh) as Gc.
    change (toks ps ([sev root_path (TyN "Command")] ++ tl)) with (TS root_path :: toks ps tl) in *. apply msg_safe, Gc.
  Qed.
  Lemma TrS_response cc enc : TrS (dec_response T abort root_path cc enc).
  Proof.
    intros s tr s' o E. destruct (rsp_head T abort root_path cc enc s) as (tl & s1 & o1 & Eh). rewrite Eh in E. injection E as <- _ _.
    pose proof (GM_response T ps abort Hok root_path cc enc _ _ _ _ Eh) as Gc.
    change (toks ps ([sev root_path (TyN "Response")] ++ tl)) with (TS root_path :: toks ps tl) in *. apply msg_safe, Gc.
  Qed.

  Lemma TrS_stream : TrS (dec_stream T abort root_path).
  Proof.
    unfold dec_stream. apply TrS_bind; [|intros _; apply TrS_silent, s_fuel].
    eapply TrS_eq; [apply rep_iter|]. apply TrS_iter. intros _.
    apply TrS_bind; [apply TrS_command|]. intros c. destruct (is_param_enc _ _ _) as [enc|]; [|apply TrS_silent, s_internal].
    apply TrS_bind; [apply TrS_response|]. intros _. apply TrS_silent, AllT_ret.
  Qed.

  (** which roots: structure types passing the table condition, commands, responses, streams *)
  Definition root_pok (r : root) : Prop := match r with RType t => pok_ty ps t = true | _ => True end.

  Lemma G_from_top Sv Sx ts : G Sv Sx ts -> arun ATop ts <> None.
  Proof. intros [_ H]. destruct (H ATop I) as (st' & E & _). rewrite E. discriminate. Qed.

  Lemma dec_root_type t s : dec_root T abort (RType t) s = bind (set_lst []) (fun _ => dec_ty T abort t root_path None false) s.
  Proof. reflexivity. Qed.
  Lemma dec_root_command s : dec_root T abort RCommand s = bind (dec_command T abort root_path) (fun c => ret (Some (cr_obj c))) s.
  Proof. reflexivity. Qed.
  Lemma dec_root_response cc enc s : dec_root T abort (RResponse cc enc) s = bind (dec_response T abort root_path cc enc) (fun v => ret (Some v)) s.
  Proof. reflexivity. Qed.
  Lemma dec_root_stream s : dec_root T abort RStream s = bind (dec_stream T abort root_path) (fun _ => ret (@None value)) s.
  Proof. reflexivity. Qed.

  Lemma stream_run_safe s tr s' o : dec_root T abort RStream s = (tr, s', o) -> arun ATop (toks ps tr) <> None.
  Proof.
    intros E. rewrite dec_root_stream in E.
    assert (Hs : SafeFrom (toks ps tr)).
    { revert E. apply TrS_bind; [apply TrS_stream|]. intros _. apply TrS_silent, AllT_ret. }
    destruct (Hs ATop Logic.I) as (st' & E' & _). rewrite E'. discriminate.
  Qed.

  Theorem root_run_safe r s tr s' o : root_pok r -> dec_root T abort r s = (tr, s', o) -> arun ATop (toks ps tr) <> None.
  Proof.
    intros Hr E. destruct r as [t| |cc enc|].
    - rewrite dec_root_type in E. apply (G_from_top (Ext root_path) (Below root_path)). revert E. apply GM_pre; [apply s_set_lst|]. intros _.
      apply (proj1 (printsafe_all T ps abort (Henc T ps Hok)) t Hr).
    - rewrite dec_root_command in E. apply (G_from_top (Ext root_path) (Below root_path)). revert E.
      apply GM_post; [apply (GM_command T ps abort Hok)|]. intros c. apply AllT_ret.
    - rewrite dec_root_response in E. apply (G_from_top (Ext root_path) (Below root_path)). revert E.
      apply GM_post; [apply (GM_response T ps abort Hok)|]. intros c. apply AllT_ret.
    - apply (stream_run_safe _ _ _ _ E).
  Qed.
End Roots.

(** ---- the byte pump shows a prefix of the trace (without the reads), possibly followed by one more warning *)
Lemma pump_go_out is_stream len tr : forall p0 p1 stopped, pump_go is_stream len tr p0 = (p1, stopped) ->
  exists tr0 rest, tr = tr0 ++ rest /\ map fst (rev (ps_out p1)) = map fst (rev (ps_out p0)) ++ filter not_rd tr0.
Proof.
  induction tr as [|a tr IH]; intros p0 p1 stopped H; cbn [pump_go] in H.
  - injection H as <- _. exists [], []. split; [reflexivity|]. rewrite app_nil_r. reflexivity.
  - destruct a as [b|e|w].
    + destruct (IH _ _ _ H) as (tr0 & rest & -> & Ho). exists (Rd b :: tr0), rest. split; [reflexivity|]. cbn [filter not_rd ps_out] in *. exact Ho.
    + destruct (is_stream && _ && _).
      * injection H as <- _. exists [], (Ev e :: tr). split; [reflexivity|]. cbn [ps_out filter]. rewrite app_nil_r. reflexivity.
      * destruct (IH _ _ _ H) as (tr0 & rest & -> & Ho). exists (Ev e :: tr0), rest. split; [reflexivity|].
        cbn [filter not_rd ps_out rev map fst] in *. rewrite Ho, map_app. cbn [map fst]. rewrite <- app_assoc. reflexivity.
    + destruct (IH _ _ _ H) as (tr0 & rest & -> & Ho). exists (Wn w :: tr0), rest. split; [reflexivity|].
      cbn [filter not_rd ps_out rev map fst] in *. rewrite Ho, map_app. cbn [map fst]. rewrite <- app_assoc. reflexivity.
Qed.

Lemma arun_filter ps st tr : arun st (toks ps (filter not_rd tr)) = arun st (toks ps tr).
Proof.
  revert st. induction tr as [|a tr IH]; intros st; [reflexivity|]. destruct a as [b|e|w]; cbn [filter not_rd].
  - cbn [toks map to_pev tok_of arun astep]. apply IH.
  - change (toks ps (Ev e :: filter not_rd tr)) with (tok_of (to_pev ps (Ev e)) :: toks ps (filter not_rd tr)).
    change (toks ps (Ev e :: tr)) with (tok_of (to_pev ps (Ev e)) :: toks ps tr). cbn [arun]. destruct (astep st _); [apply IH|reflexivity].
  - cbn [toks map to_pev tok_of arun astep]. apply IH.
Qed.

(** C14: printing the events of ANY decode - any root passing the table condition, any input, either mode - never
    fails *)
Theorem printer_never_fails_on_decoder_output T ps d abort r bs :
  msg_pok T ps = true -> root_pok ps r ->
  ~ In RCrashRow (pretty T d (map (fun e => to_pev ps (fst e)) (fst (decode T abort r bs)))).
Proof.
  intros Hok Hr. unfold pretty. apply (printer_sound T d _ Top I). cbn [abs].
  rewrite map_map. change (map (fun x => tok_of (to_pev ps (fst x))) (fst (decode T abort r bs))) with (toks ps (map fst (fst (decode T abort r bs)))) || rewrite <- (map_map fst (fun a => tok_of (to_pev ps a))).
  unfold decode, pump. destruct (dec_root T abort r (init_st bs)) as [[tr s'] o] eqn:E.
  pose proof (root_run_safe T ps abort Hok r _ _ _ _ Hr E) as Hsafe.
  destruct (pump_go (is_stream_root r) (Z.of_nat (List.length bs)) tr (mkP 0 None [])) as [p1 stopped] eqn:Eg.
  destruct (pump_go_out _ _ _ _ _ _ Eg) as (tr0 & rest & -> & Ho). cbn [ps_out rev map app] in Ho.
  assert (Hpre : arun ATop (toks ps (map fst (rev (ps_out p1)))) <> None).
  { fold (toks ps (map fst (rev (ps_out p1)))). rewrite Ho, arun_filter. rewrite toks_app in Hsafe. apply (arun_prefix _ _ _ Hsafe). }
  assert (Hsnoc : forall w n, arun ATop (toks ps (map fst (rev ((Wn w, n) :: ps_out p1)))) <> None).
  { intros w n. cbn [rev]. rewrite map_app, toks_app, arun_app. cbn [toks map fst to_pev tok_of arun astep]. match goal with |- context [match ?x with _ => _ end] => destruct x as [st1|] eqn:Ea end; [discriminate|]. exfalso. apply Hpre. exact Ea. }
  destruct stopped; [exact Hpre|].
  destruct o as [a|e| |k|]; cbn [fst]; try exact Hpre.
  - destruct (skipZ bs (ps_nrd p1)); [exact Hpre|]. destruct abort; [exact Hpre|apply Hsnoc].
  - destruct abort; [exact Hpre|apply Hsnoc].
Qed.
