(** Simulation, part 10: every root but a stream, through the byte pump - C01, C04, C08 (values only) for structure
    types, commands and responses alike. *)
From Coq Require Import ZArith List String Bool Lia ZifyBool.
From TV Require Import Layout.Types Base.Bytes Model.Monad Model.Constraints Model.Ints Model.Decoder Model.Message Model.Pump
  Spec.Value Spec.Message Proofs.Sim1 Proofs.Sim2 Proofs.Sim3 Proofs.Sim4 Proofs.Sim5 Proofs.Sim6 Proofs.Sim7 Proofs.Sim8 Proofs.Sim9.
Import ListNotations.
Open Scope list_scope.
Open Scope Z_scope.

(** what the message-level theorems need of the layout tables (checked by computation on the regenerated ones):
    both session structures carry the attribute word as a plain primitive field, and no response handle area is a
    parameter structure (so that the encryption flag cannot make its first field opaque) *)
Definition msg_tables_ok (T : tables) : bool :=
  session_type_ok (sess_attr_field T) (t_auth_cmd T) && session_type_ok (sess_attr_field T) (t_auth_rsp T) &&
  forallb (fun ct => plain_ty (snd ct)) (rsp_handles T).

Lemma wf_init bs : wf_st (init_st bs).
Proof. split; constructor. Qed.

(** the processor's run on a structurally consistent input, any root but a stream, either mode *)
Theorem root_run T abort r bs vs :
  msg_tables_ok T = true -> is_stream_root r = false -> sp_root T r bs = Some vs -> forallb (ok_leaves abort) vs = true ->
  exists tr s' a, dec_root T abort r (init_st bs) = (tr, s', Ok a) /\ shape tr (flat_map items_of vs) /\ inp s' = [].
Proof.
  intros Ht Hr Hs AV. unfold msg_tables_ok in Ht. apply andb_prop in Ht as [Ht Hp]. apply andb_prop in Ht as [Hc Hrs].
  destruct r as [t| |[cc|] enc|]; try discriminate; cbn [sp_root] in Hs.
  - destruct (sp_ty T t root_path None false bs) as [[v [|x xs]]|] eqn:Es; try discriminate. injection Hs as <-.
    cbn [forallb flat_map] in *. rewrite andb_true_r in AV. rewrite app_nil_r.
    destruct (sim_all T abort) as (St & _).
    assert (W0 : wf_st (mkSt bs [] [])) by (split; constructor).
    destruct (St t root_path None false bs v [] (mkSt bs [] []) Es AV W0 eq_refl ltac:(unfold blen; cbn; lia) ltac:(constructor))
      as (tr & s' & a & c & E & Sh & Ic & I' & _).
    exists tr, s', a. split; [|split; assumption].
    cbn [dec_root]. unfold bind. cbn [set_lst init_st inp store lst]. rewrite E. reflexivity.
  - destruct (sp_command T root_path bs) as [[[v ci] [|x xs]]|] eqn:Es; try discriminate. injection Hs as <-.
    cbn [forallb flat_map] in *. rewrite andb_true_r in AV. rewrite app_nil_r.
    destruct (cmd_sim T abort Hc root_path bs v ci [] (init_st bs) Es AV (wf_init bs) eq_refl) as (tr & s' & res & c & E & Sh & Ic & I' & _).
    exists tr, s', (Some (cr_obj res)). split; [|split; assumption].
    cbn [dec_root]. unfold bind. rewrite E. cbn [ret]. rewrite app_nil_r. reflexivity.
  - destruct (sp_response T root_path cc enc bs) as [[v [|x xs]]|] eqn:Es; try discriminate. injection Hs as <-.
    cbn [forallb flat_map] in *. rewrite andb_true_r in AV. rewrite app_nil_r.
    destruct (rsp_sim T abort Hrs Hp root_path cc enc bs v [] (init_st bs) Es AV (wf_init bs) eq_refl) as (tr & s' & res & c & E & Sh & Ic & I' & _).
    exists tr, s', (Some res). split; [|split; assumption].
    cbn [dec_root]. unfold bind. rewrite E. cbn [ret]. rewrite app_nil_r. reflexivity.
Qed.

Lemma all_valid_items vs : forallb all_valid vs = forallb item_valid (flat_map items_of vs).
Proof. induction vs as [|v r IH]; [reflexivity|]. cbn [forallb flat_map]. rewrite forallb_app, IH, items_of_valid. reflexivity. Qed.

Lemma ok_leaves_true_all vs : forallb (ok_leaves true) vs = forallb all_valid vs.
Proof. induction vs as [|v r IH]; [reflexivity|]. cbn [forallb]. rewrite IH, ok_leaves_true. reflexivity. Qed.
Lemma ok_leaves_false_all vs : forallb (ok_leaves false) vs = true.
Proof. induction vs as [|v r IH]; [reflexivity|]. cbn [forallb]. rewrite IH, ok_leaves_false. reflexivity. Qed.

(** C01: a well-formed encoding decodes, in strict mode, to exactly the specified events, and is accepted *)
Theorem root_decodes_as_specified T r bs evs :
  msg_tables_ok T = true -> is_stream_root r = false ->
  spec_events T r bs = Some evs -> decode T true r bs = (evs, OAccepted).
Proof.
  intros Ht Hr. unfold spec_events. destruct (sp_root T r bs) as [vs|] eqn:Es; [|discriminate].
  destruct (forallb all_valid vs) eqn:AV; [|discriminate]. intros [= <-].
  destruct (root_run T true r bs vs Ht Hr Es ltac:(rewrite ok_leaves_true_all; exact AV)) as (tr & s' & a & E & Sh & I').
  rewrite (accepted_of_run T true r bs tr s' a _ Hr E Sh I').
  rewrite stamp_lenient_valid by (rewrite <- all_valid_items; exact AV). reflexivity.
Qed.

(** C08, values only: a structurally consistent input decodes, in warn mode, to the lenient reading with one warning
    directly after each out-of-range leaf, and is accepted *)
Theorem root_decodes_lenient T r bs evs :
  msg_tables_ok T = true -> is_stream_root r = false ->
  spec_lenient T r bs = Some evs -> decode T false r bs = (evs, OAccepted).
Proof.
  intros Ht Hr. unfold spec_lenient. destruct (sp_root T r bs) as [vs|] eqn:Es; [|discriminate]. intros [= <-].
  destruct (root_run T false r bs vs Ht Hr Es (ok_leaves_false_all vs)) as (tr & s' & a & E & Sh & I').
  apply (accepted_of_run T false r bs tr s' a _ Hr E Sh I').
Qed.

(** C04: a structurally consistent input with an out-of-range leaf is rejected, in strict mode, at the first such
    leaf: the events before it, the value error naming it, the bytes after it remaining *)
Theorem root_first_bad T r bs evs o :
  msg_tables_ok T = true -> is_stream_root r = false ->
  spec_value_error T r bs = Some (evs, o) -> decode T true r bs = (evs, o).
Proof.
  intros Ht Hr. unfold spec_value_error. destruct (sp_root T r bs) as [vs|] eqn:Es; [|discriminate].
  destruct (until_bad (Z.of_nat (List.length bs)) (flat_map items_of vs) 0) as [evs0 [[[[pa p] z] off]|]] eqn:U; [|discriminate].
  intros [= <- <-].
  destruct (root_run T false r bs vs Ht Hr Es (ok_leaves_false_all vs)) as (tw & sw & a & E & Sh & _).
  apply (first_bad_of_run T r bs tw sw a _ evs0 pa p z off Hr E Sh U).
Qed.

(** "if and only if" for every such root *)
Theorem root_raises_iff_bad_leaf T r bs vs :
  msg_tables_ok T = true -> is_stream_root r = false -> sp_root T r bs = Some vs ->
  ((exists evs e rem, decode T true r bs = (evs, ORaised e rem)) <-> forallb all_valid vs = false).
Proof.
  intros Ht Hr Es. split.
  - intros (evs & e & rem & D). destruct (forallb all_valid vs) eqn:AV; [|reflexivity].
    rewrite (root_decodes_as_specified T r bs (stamp_items (Z.of_nat (List.length bs)) (flat_map items_of vs) 0) Ht Hr) in D; [discriminate|].
    unfold spec_events. rewrite Es, AV. reflexivity.
  - intros AV. rewrite all_valid_items in AV.
    destruct (until_bad_some (Z.of_nat (List.length bs)) (flat_map items_of vs) 0 AV) as (evs & [[[pa p] z] off] & U).
    eexists evs, _, _. apply (root_first_bad T r bs _ _ Ht Hr). unfold spec_value_error. rewrite Es, U. reflexivity.
Qed.
