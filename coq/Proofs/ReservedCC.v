(** C04: a command whose command code is not a TPM_CC (reserved) - strict decoding raises the value error naming the
    commandCode field, after the events of the root, the tag and the size, leaving exactly the bytes after the code. *)
From Coq Require Import ZArith List String Bool Lia.
From TV Require Import Layout.Types Base.Bytes Model.Monad Model.Constraints Model.Ints Model.Decoder Model.Message Model.Pump
  Proofs.Account Proofs.OpLemmas Proofs.Safe3.
Import ListNotations.
Open Scope string_scope.
Open Scope list_scope.
Open Scope Z_scope.

(** a primitive read while one region (constraint 0, room left) is listed; constraint 1 exists and is not listed *)
Lemma dec_prim_one p pa bs rest pth mx a c1 :
  List.length bs = Z.to_nat (pwidth p) -> match mx with None => True | Some m => a + pwidth p <= m end ->
  dec_prim true p pa (mkSt (bs ++ rest) [mkSc pth mx a false; c1] [0%nat]) =
  (if valid p (from_bytes (psigned p) bs)
   then (map Rd bs ++ [Ev (mkEvent pa (TyN (pname p)) (Some (from_bytes (psigned p) bs)))],
         mkSt rest [mkSc pth mx (a + pwidth p) false; c1] [0%nat], Ok (Some (VInt_ (pname p) (from_bytes (psigned p) bs))))
   else (map Rd bs, mkSt rest [mkSc pth mx (a + pwidth p) false; c1] [0%nat], Fail (EValue pa (pname p) (from_bytes (psigned p) bs) VSType))).
Proof.
  intros L Hroom. unfold dec_prim. unfold bind at 1. unfold bytes_parsed, purge.
  cbn [bind get set_lst ret inp store lst filter get_sc nth sc_obs negb app find_violated exceeds sc_max sc_already].
  assert (Hx : exceeds (mkSc pth mx a false) (pwidth p) = None).
  { unfold exceeds. cbn [sc_max sc_already]. destruct mx as [m|]; [|reflexivity]. replace (m <? a + pwidth p) with false; [reflexivity|]. symmetry. apply Z.ltb_ge. lia. }
  unfold bind. cbn [get set_lst ret inp store lst filter get_sc nth sc_obs negb app find_violated rev].
  rewrite Hx. cbn [bump_all bind get set_sc ret inp store lst get_sc nth upd app sc_path sc_max sc_already sc_obs].
  unfold bind. cbn [get set_sc ret inp store lst get_sc nth upd app sc_path sc_max sc_already sc_obs].
  rewrite <- L, readn_exact. destruct (valid p (from_bytes (psigned p) bs)); cbn [emit ret fail app]; rewrite ?app_nil_r; reflexivity.
Qed.

Section Cmd.
  Variable T : tables.

  Definition cc_path_ : path := pchild root_path "commandCode".

  (** the run of the command decoder on: a valid tag, a size field announcing at least the header, a reserved code *)
  Lemma command_run_reserved_cc tagb szb ccb rest :
    List.length tagb = Z.to_nat (pwidth (p_cmd_tag T)) -> List.length szb = Z.to_nat (pwidth (p_size32 T)) ->
    List.length ccb = Z.to_nat (pwidth (p_cc T)) ->
    valid (p_cmd_tag T) (from_bytes (psigned (p_cmd_tag T)) tagb) = true ->
    valid (p_size32 T) (from_bytes (psigned (p_size32 T)) szb) = true ->
    valid (p_cc T) (from_bytes (psigned (p_cc T)) ccb) = false ->
    0 <= from_bytes (psigned (p_size32 T)) szb ->
    pwidth (p_cmd_tag T) + pwidth (p_size32 T) + pwidth (p_cc T) <= from_bytes (psigned (p_size32 T)) szb ->
    exists s',
      dec_command T true root_path (init_st (tagb ++ szb ++ ccb ++ rest)) =
      (sev root_path (TyN "Command") ::
       map Rd tagb ++ Ev (mkEvent (pchild root_path "tag") (TyN (pname (p_cmd_tag T))) (Some (from_bytes (psigned (p_cmd_tag T)) tagb))) ::
       map Rd szb ++ Ev (mkEvent (pchild root_path "commandSize") (TyN (pname (p_size32 T))) (Some (from_bytes (psigned (p_size32 T)) szb))) ::
       map Rd ccb,
       s', Fail (EValue cc_path_ (pname (p_cc T)) (from_bytes (psigned (p_cc T)) ccb) VSType)).
  Proof.
    intros Lt Ls Lc Vt Vs Vc Hn0 Hn.
    unfold dec_command, init_st.
    unfold bind at 1. cbn [new_sc inp store lst List.length app]. unfold bind at 1. cbn [new_sc inp store lst List.length app].
    unfold bind at 1. cbn [set_lst inp store lst app]. unfold bind at 1. cbn [emit app]. cbv zeta.
    (* tag *)
    rewrite try_field_strict. unfold bind at 1. unfold sc_new at 1.
    rewrite (dec_prim_one (p_cmd_tag T) (pchild root_path "tag") tagb (szb ++ ccb ++ rest) None None 0 sc_new Lt Logic.I), Vt.
    (* size *)
    rewrite try_field_strict. unfold bind at 1.
    rewrite (dec_prim_one (p_size32 T) (pchild root_path "commandSize") szb (ccb ++ rest) None None _ sc_new Ls Logic.I), Vs. cbn [as_int].
    set (n := from_bytes (psigned (p_size32 T)) szb) in *.
    (* the message region is announced *)
    unfold bind at 1. unfold set_constraint.
    replace (n <? 0) with false by (symmetry; apply Z.ltb_ge; exact Hn0).
    cbn [bind get set_sc ret inp store lst get_sc nth upd app sc_path sc_max sc_already sc_obs anticipate Nat.eqb].
    unfold bind at 1. cbn [get]. unfold bind at 1. cbn [set_sc inp store lst get_sc nth upd sc_already sc_obs app].
    unfold bind at 1. cbn [get inp store lst anticipate Nat.eqb ret app].
    (* the code *)
    rewrite try_field_strict. unfold bind at 1.
    rewrite (dec_prim_one (p_cc T) (pchild root_path "commandCode") ccb rest (Some (pchild root_path "commandSize")) (Some n) (0 + pwidth (p_cmd_tag T) + pwidth (p_size32 T)) sc_new Lc), Vc by (cbv beta; lia).
    eexists. rewrite <- ?app_assoc. cbn [app]. rewrite ?app_nil_r. reflexivity.
  Qed.
End Cmd.

(** C04 for reserved command codes, through the byte pump *)
Theorem reserved_command_code_is_rejected T tagb szb ccb rest :
  List.length tagb = Z.to_nat (pwidth (p_cmd_tag T)) -> List.length szb = Z.to_nat (pwidth (p_size32 T)) ->
  List.length ccb = Z.to_nat (pwidth (p_cc T)) ->
  valid (p_cmd_tag T) (from_bytes (psigned (p_cmd_tag T)) tagb) = true ->
  valid (p_size32 T) (from_bytes (psigned (p_size32 T)) szb) = true ->
  valid (p_cc T) (from_bytes (psigned (p_cc T)) ccb) = false ->
  0 <= from_bytes (psigned (p_size32 T)) szb ->
  pwidth (p_cmd_tag T) + pwidth (p_size32 T) + pwidth (p_cc T) <= from_bytes (psigned (p_size32 T)) szb ->
  exists evs,
    decode T true RCommand (tagb ++ szb ++ ccb ++ rest) =
      (evs, ORaised (EValue (pchild root_path "commandCode") (pname (p_cc T)) (from_bytes (psigned (p_cc T)) ccb) VSType) rest) /\
    map fst evs = [sev root_path (TyN "Command");
                   Ev (mkEvent (pchild root_path "tag") (TyN (pname (p_cmd_tag T))) (Some (from_bytes (psigned (p_cmd_tag T)) tagb)));
                   Ev (mkEvent (pchild root_path "commandSize") (TyN (pname (p_size32 T))) (Some (from_bytes (psigned (p_size32 T)) szb)))].
Proof.
  intros Lt Ls Lc Vt Vs Vc Hn0 Hn.
  destruct (command_run_reserved_cc T tagb szb ccb rest Lt Ls Lc Vt Vs Vc Hn0 Hn) as (s' & E).
  unfold decode, pump. cbn [is_stream_root dec_root]. unfold bind at 1. rewrite E.
  set (len := Z.of_nat (List.length (tagb ++ szb ++ ccb ++ rest))).
  cbn [pump_go andb]. unfold sev. cbn [pump_go andb].
  rewrite pump_go_reads. cbn [pump_go andb ps_nrd ps_cc ps_out].
  rewrite pump_go_reads. cbn [pump_go andb ps_nrd ps_cc ps_out].
  rewrite <- (app_nil_r (map Rd ccb)), pump_go_reads. cbn [pump_go ps_nrd ps_cc ps_out].
  eexists. split.
  - f_equal. f_equal.
    replace (0 + Z.of_nat (List.length tagb) + Z.of_nat (List.length szb) + Z.of_nat (List.length ccb)) with (Z.of_nat (List.length (tagb ++ szb ++ ccb))) by (rewrite !app_length; lia).
    replace (tagb ++ szb ++ ccb ++ rest) with ((tagb ++ szb ++ ccb) ++ rest) by (rewrite <- !app_assoc; reflexivity).
    apply skipZ_app.
  - reflexivity.
Qed.
