(** Simulation, part 7: tools for the message level - runs with an explicit post-state, the error-catching field
    wrapper, the size-governed session list, the session-attribute test on by-product values. *)
From Coq Require Import ZArith List String Bool Lia ZifyBool.
From TV Require Import Layout.Types Base.Bytes Model.Monad Model.Constraints Model.Ints Model.Decoder Model.Message
  Spec.Value Spec.Message Proofs.Closure Proofs.LowClosure Proofs.Incremental Proofs.Sim1 Proofs.Sim2 Proofs.Sim3 Proofs.Sim4.
Import ListNotations.
Open Scope list_scope.
Open Scope Z_scope.

(** ---- runs with an explicit post-condition on value and final state *)
Definition run_to {A} (m : M A) (s : st) (items : list item) (rest : list Z) (post : A -> st -> Prop) : Prop :=
  exists tr s' a c, m s = (tr, s', Ok a) /\ shape tr items /\ inp s = c ++ rest /\ inp s' = rest /\ wf_st s' /\ post a s'.

Lemma run_bind A B (m : M A) (f : A -> M B) s i1 i2 mid rest (P : A -> st -> Prop) (Q : B -> st -> Prop) :
  run_to m s i1 mid P ->
  (forall s1 a, wf_st s1 -> inp s1 = mid -> P a s1 -> run_to (f a) s1 i2 rest Q) ->
  run_to (bind m f) s (i1 ++ i2) rest Q.
Proof.
  intros (tr1 & s1 & a & c1 & E1 & Sh1 & I1 & R1 & W1 & Pa) Hf.
  destruct (Hf s1 a W1 R1 Pa) as (tr2 & s2 & b & c2 & E2 & Sh2 & I2 & R2 & W2 & Qb).
  exists (tr1 ++ tr2), s2, b, (c1 ++ c2). unfold bind. rewrite E1, E2.
  split; [reflexivity|]. split; [apply shape_app; assumption|].
  split; [rewrite I1, <- R1, I2, app_assoc; reflexivity|]. split; [exact R2|]. split; [exact W2|exact Qb].
Qed.

Lemma run_weaken A (m : M A) s items rest (P Q : A -> st -> Prop) :
  (forall a s', P a s' -> Q a s') -> run_to m s items rest P -> run_to m s items rest Q.
Proof. intros H (tr & s' & a & c & E & Sh & I & R & W & Pa). exists tr, s', a, c.
  split; [exact E|]. split; [exact Sh|]. split; [exact I|]. split; [exact R|]. split; [exact W|apply H, Pa]. Qed.

Lemma run_of_ok A (m : M A) s items rest (P : A -> Prop) :
  ok_run m s items rest P ->
  run_to m s items rest (fun a s' => view s' = bump (blen (inp s) - blen rest) (view s) /\ frame s s' /\ P a).
Proof.
  intros (tr & s' & a & c & E & Sh & I & R & V & W & Fr & Pa). exists tr, s', a, c.
  split; [exact E|]. split; [exact Sh|]. split; [exact I|]. split; [exact R|]. split; [exact W|].
  split; [|split; assumption]. rewrite V. f_equal. rewrite I. unfold blen. rewrite app_length. lia.
Qed.

(** a step that emits nothing and reads nothing *)
Lemma run_silent A (m : M A) s s' a : m s = ([], s', Ok a) -> inp s' = inp s -> wf_st s' ->
  run_to m s [] (inp s) (fun a' s'' => a' = a /\ s'' = s').
Proof.
  intros E I W. exists [], s', a, []. split; [exact E|]. split; [constructor|]. split; [reflexivity|].
  split; [exact I|]. split; [exact W|split; reflexivity].
Qed.

Lemma run_ret A (a : A) s (P : A -> st -> Prop) : wf_st s -> P a s -> run_to (ret a) s [] (inp s) P.
Proof.
  intros W Pa. exists [], s, a, []. split; [reflexivity|]. split; [constructor|]. split; [reflexivity|].
  split; [reflexivity|]. split; [exact W|exact Pa].
Qed.

Lemma run_sev pa t s : wf_st s -> run_to (emit (sev pa t)) s [INode pa t] (inp s) (fun _ s' => s' = s).
Proof.
  intros W. exists [sev pa t], s, tt, []. split; [reflexivity|]. split; [repeat constructor|].
  split; [reflexivity|]. split; [reflexivity|]. split; [exact W|reflexivity].
Qed.

Lemma run_eq A (m1 m2 : M A) s items rest P : m1 s = m2 s -> run_to m2 s items rest P -> run_to m1 s items rest P.
Proof. intros H (tr & s' & a & c & E & R). exists tr, s', a, c. rewrite H. split; [exact E|exact R]. Qed.

(** [get] hands out the constraint store and list *)
Lemma bind_get A (k : st -> M A) s : bind get k s = k (mkSt [] (store s) (lst s)) s.
Proof. unfold bind, get. destruct (k _ s) as [[tr s'] o]. reflexivity. Qed.

(** the field wrapper of commands and responses: transparent for a field that decodes *)
Lemma run_try_field A R abort ids (m : M A) (ab : M R) (k : A -> M R) s i1 i2 mid rest
      (P : A -> st -> Prop) (Q : R -> st -> Prop) :
  run_to m s i1 mid P ->
  (forall s1 a, wf_st s1 -> inp s1 = mid -> P a s1 -> run_to (k a) s1 i2 rest Q) ->
  run_to (try_field abort ids m ab k) s (i1 ++ i2) rest Q.
Proof.
  intros Hm Hk. unfold try_field.
  apply run_bind with (mid := mid) (P := fun r s1 => exists a, r = Some a /\ P a s1).
  - destruct Hm as (tr & s' & a & c & E & Sh & I & R0 & W & Pa). exists tr, s', (Some a), c.
    split.
    + apply catch_ok. unfold bind. rewrite E. cbn [ret]. rewrite app_nil_r. reflexivity.
    + split; [exact Sh|]. split; [exact I|]. split; [exact R0|]. split; [exact W|]. exists a. split; [reflexivity|exact Pa].
  - intros s1 r W1 I1 (a & -> & Pa). apply (Hk s1 a W1 I1 Pa).
Qed.

(** ---- reading the bookkeeping of a listed constraint off the view *)
Lemma view_entry s i m al : In (i, m, al) (view s) -> sc_max (get_sc s i) = m /\ sc_already (get_sc s i) = al /\ In i (lst s).
Proof.
  unfold view. intros H. apply in_map_iff in H as (j & Hj & Hf). unfold entry_of in Hj. injection Hj as -> <- <-.
  apply filter_In in Hf as [Hl _]. repeat split. exact Hl.
Qed.

Lemma view_last s V i m al : view s = V ++ [(i, m, al)] -> sc_max (get_sc s i) = m /\ sc_already (get_sc s i) = al /\ In i (lst s).
Proof. intros H. apply view_entry. rewrite H. apply in_or_app. right. left. reflexivity. Qed.

(** ---- the size-governed list (session areas): elements until the governing region is used up *)
Section Sized.
  Variable abort : bool.
  Variable f : path -> list Z -> option (sv * list Z).
  Variable body : path -> M (option value).
  Variable Pe : sv -> option value -> Prop.
  Hypothesis Hbody : forall p b v r s, f p b = Some (v, r) -> ok_leaves abort v = true -> wf_st s -> inp s = b ->
                       blen r <= blen b -> fits (view s) (blen b - blen r) -> ok_run (body p) s (items_of v) r (Pe v).
  Hypothesis Hincr : forall p, incr (body p).
  Variable cid : nat.
  Variable mx : Z.
  Variable pa : path.

  Definition sstep (st_ : Z * list (option value)) : M (Z * list (option value)) :=
    bind get (fun s => if sc_already (get_sc s cid) <? mx
                       then bind (body (pindex pa (fst st_))) (fun v => ret (fst st_ + 1, v :: snd st_))
                       else ret st_).

  Lemma until_sim : forall fuel i acc bs vs s V,
    sp_until_empty f pa fuel i bs = Some vs -> forallb (ok_leaves abort) vs = true ->
    wf_st s -> inp s = bs -> view s = V ++ [(cid, Some mx, mx - blen bs)] -> ~ In cid (ids_of V) -> fits V (blen bs) ->
    exists tr s' accs, iter fuel sstep (i, acc) s = (tr, s', Ok (i + Z.of_nat (List.length vs), accs ++ acc)) /\
      shape tr (flat_map items_of vs) /\ inp s' = [] /\ view s' = bump (blen bs) V ++ [(cid, Some mx, mx)] /\
      wf_st s' /\ frame s s' /\ Forall2 Pe vs (rev accs).
  Proof.
    induction fuel as [|fuel IH]; intros i acc bs vs s V H AV W I Vw Hn F.
    - destruct bs as [|b0 bs']; cbn [sp_until_empty] in H; [|discriminate]. injection H as <-.
      exists [], s, []. cbn [iter ret List.length app flat_map rev]. rewrite Z.add_0_r.
      split; [reflexivity|]. split; [constructor|]. split; [exact I|].
      split; [rewrite Vw; unfold blen; cbn; rewrite bump_0, Z.sub_0_r; reflexivity|].
      split; [exact W|]. split; [apply frame_refl|constructor].
    - destruct bs as [|b0 bs'].
      + cbn [sp_until_empty] in H. injection H as <-.
        destruct (view_last _ _ _ _ _ Vw) as (Hm & Ha & _).
        destruct (IH i acc [] [] s V ltac:(destruct fuel; reflexivity) eq_refl W I Vw Hn F) as (tr & s' & accs & E & R).
        exists tr, s', accs. split; [|exact R].
        cbn [iter]. unfold bind at 1. unfold sstep at 1. rewrite bind_get.
        change (get_sc (mkSt [] (store s) (lst s)) cid) with (get_sc s cid). rewrite Ha.
        replace (mx - blen [] <? mx) with false by (unfold blen; cbn; lia). cbn [ret]. rewrite E. reflexivity.
      + remember (b0 :: bs') as bs eqn:Hbs.
        assert (Hpos : 0 < blen bs) by (subst bs; unfold blen; cbn; lia).
        assert (H' : match chk bs (f (pindex pa i) bs) with
                     | Some (v, r) => match sp_until_empty f pa fuel (i + 1) r with Some vs0 => Some (v :: vs0) | None => None end
                     | None => None end = Some vs) by (subst bs; exact H).
        clear H. destruct (chk bs (f (pindex pa i) bs)) as [[v r]|] eqn:C; [|discriminate].
        destruct (chk_some _ _ _ _ C) as [Hf L1].
        destruct (sp_until_empty f pa fuel (i + 1) r) as [vs0|] eqn:Eu; [|discriminate]. injection H' as <-.
        cbn [forallb] in AV. apply andb_prop in AV as [AV1 AV2].
        destruct (view_last _ _ _ _ _ Vw) as (Hm & Ha & _).
        set (k := blen bs - blen r).
        assert (Fk : fits (view s) k).
        { rewrite Vw. apply Forall_app. split; [apply (fits_le V k (blen bs)); [unfold k; unfold blen in *; lia|exact F]|].
          constructor; [cbn; unfold k; unfold blen in *; lia|constructor]. }
        destruct (Hbody _ _ _ _ s Hf AV1 W I L1 Fk) as (tr1 & s1 & a & c1 & E1 & Sh1 & Ic1 & I1 & V1 & W1 & Fr1 & Pa).
        assert (Lc1 : blen c1 = k).
        { rewrite I in Ic1. apply (f_equal (@List.length Z)) in Ic1. rewrite app_length in Ic1. unfold k, blen. lia. }
        rewrite Lc1, Vw, bump_app in V1. cbn [bump map bump_entry] in V1.
        replace (mx - blen bs + k) with (mx - blen r) in V1 by (unfold k; lia).
        destruct (fits_split V k (blen r) ltac:(unfold k; unfold blen in *; lia) ltac:(unfold blen; lia)
                             ltac:(replace (k + blen r) with (blen bs) by (unfold k; lia); exact F)) as [_ F2].
        destruct (IH (i + 1) (a :: acc) r vs0 s1 (bump k V) Eu AV2 W1 I1 V1 ltac:(rewrite ids_bump; exact Hn) F2)
          as (tr2 & s2 & accs & E2 & Sh2 & I2 & V2 & W2 & Fr2 & Pa2).
        exists (tr1 ++ tr2), s2, (accs ++ [a]).
        split.
        * cbn [iter]. unfold bind at 1. unfold sstep at 1. rewrite bind_get.
          change (get_sc (mkSt [] (store s) (lst s)) cid) with (get_sc s cid). rewrite Ha.
          replace (mx - blen bs <? mx) with true by lia. cbn [fst snd].
          unfold bind at 1. rewrite E1. cbn [ret]. rewrite app_nil_r, E2. cbn [List.length].
          rewrite <- app_assoc. cbn [app].
          replace (i + 1 + Z.of_nat (List.length vs0)) with (i + Z.of_nat (S (List.length vs0))) by lia. reflexivity.
        * split; [cbn [flat_map]; apply shape_app; assumption|]. split; [exact I2|].
          split; [rewrite V2, bump_bump; replace (k + blen r) with (blen bs) by (unfold k; lia); reflexivity|].
          split; [exact W2|]. split; [exact (frame_trans _ _ _ Fr1 Fr2)|].
          rewrite rev_app_distr. cbn [rev app]. constructor; assumption.
  Qed.

  Lemma incr_sized_array lid : incr (dec_sized_array abort lid pa cid body).
  Proof. apply (P_dec_sized_array abort (@incr) (lclosed_closed _ incr_lclosed abort)). exact Hincr. Qed.

  (** [process_byte_sized_array] against [sp_until_empty]: the region [bs] governed by [cid] is the innermost live one *)
  Lemma sized_array_sim lid bs vs rest' s V :
    sp_until_empty f pa (List.length bs) 0 bs = Some vs -> forallb (ok_leaves abort) vs = true ->
    wf_st s -> inp s = bs ++ rest' -> view s = V ++ [(cid, Some mx, mx - blen bs)] -> ~ In cid (ids_of V) -> fits V (blen bs) ->
    run_to (dec_sized_array abort lid pa cid body) s (INode pa lid :: flat_map items_of vs) rest'
      (fun a s' => view s' = bump (blen bs) V /\ frame s s' /\ sc_obs (get_sc s' cid) = true /\ sc_max (get_sc s' cid) = Some mx /\
                   exists accs, a = Some (listval accs) /\ Forall2 Pe vs accs).
  Proof.
    intros H AV W I Vw Hn F.
    set (sr := mkSt bs (store s) (lst s)).
    assert (Wr : wf_st sr) by exact W.
    destruct (view_last _ _ _ _ _ Vw) as (Hm & Ha & _).
    destruct (until_sim (List.length bs) 0 [] bs vs sr V H AV Wr eq_refl Vw Hn F) as (tr & s1 & accs & E & Sh & I1 & V1 & W1 & Fr1 & Pa).
    destruct (view_last _ _ _ _ _ V1) as (Hm1 & Ha1 & _).
    destruct (assert_done_spec abort cid mx (bump (blen bs) V) s1 W1 V1 ltac:(rewrite ids_bump; exact Hn))
      as (s2 & E2 & I2 & L2 & V2 & W2 & _ & _ & Ob2 & Mx2 & Fr2).
    assert (Er : dec_sized_array abort lid pa cid body sr = (sev pa lid :: tr, s2, Ok (Some (listval (rev accs))))).
    { unfold dec_sized_array. unfold bind at 1. cbn [emit]. rewrite bind_get.
      change (get_sc (mkSt [] (store sr) (lst sr)) cid) with (get_sc s cid). rewrite Hm.
      erewrite catch_ok; [reflexivity|].
      unfold bind at 1. rewrite Ha. replace (mx - (mx - blen bs)) with (blen bs) by lia.
      rewrite (repZ_iter _ _ (blen bs) (0, []) ltac:(unfold blen; lia) sr).
      replace (Z.to_nat (blen bs)) with (List.length bs) by (unfold blen; lia).
      change (fun st_ : Z * list (option value) => bind get _) with sstep. rewrite E. rewrite app_nil_r.
      rewrite bind_get. change (get_sc (mkSt [] (store s1) (lst s1)) cid) with (get_sc s1 cid). rewrite Ha1.
      replace (mx <? mx) with false by lia.
      unfold bind at 1. rewrite E2. cbn [ret snd app]. rewrite ?app_nil_r. reflexivity. }
    destruct (incr_sized_array lid _ rest' _ _ _ Er) as [Hne _]. specialize (Hne ltac:(discriminate)).
    assert (Es : ext sr rest' = s).
    { unfold ext, sr. cbn [inp store lst]. destruct s as [i0 st0 l0]. cbn [inp store lst] in *. f_equal. symmetry. exact I. }
    rewrite Es in Hne.
    exists (sev pa lid :: tr), (ext s2 rest'), (Some (listval (rev accs))), bs.
    split; [exact Hne|]. split; [apply (sh_node pa lid); exact Sh|]. split; [exact I|].
    split; [unfold ext; cbn [inp]; rewrite I2, I1; reflexivity|]. split; [exact W2|].
    split; [exact V2|]. split; [exact (frame_trans sr s1 s2 Fr1 Fr2)|]. split; [exact Ob2|]. split; [exact Mx2|].
    exists (rev accs). split; [reflexivity|exact Pa].
  Qed.
End Sized.

(** ---- the session-attribute test: by-product values against the specification's reading *)
Lemma Forall2_rev {A B} (Rl : A -> B -> Prop) l1 l2 : Forall2 Rl l1 l2 -> Forall2 Rl (rev l1) (rev l2).
Proof.
  induction 1 as [|a b l1 l2 H H2 IH]; [constructor|]. cbn [rev]. apply Forall2_app; [exact IH|]. constructor; [exact H|constructor].
Qed.

Definition unwrap (o : option value) : value := match o with Some x => x | None => VList_ [] end.

Definition sess_elem_ok (attr : string) (v : sv) (a : option value) : Prop :=
  struct_post v a /\ match v with
                     | SNode _ _ kids => exists tz, lookupS attr (map kid_info kids) = Some (Some tz)
                     | SPrim _ _ _ => False
                     end.

Lemma any_attr_sess attr mask svs accs : Forall2 (sess_elem_ok attr) svs accs ->
  any_attr attr mask (map unwrap accs) = Some (sess_bit attr mask svs).
Proof.
  induction 1 as [|v a svs accs [Hs Ha] H2 IH]; [reflexivity|].
  destruct v as [? ? ?|pa tid kids]; [contradiction|]. cbn [struct_post] in Hs.
  destruct Hs as (vals & -> & HR). destruct Ha as ([tn z] & Hl).
  apply Forall2_rev in HR. rewrite rev_involutive in HR.
  destruct (R_lookup _ _ _ _ HR Hl) as (fv & Hfv & Hti).
  destruct fv as [[tn' z'|? ?|?]|]; try discriminate. injection Hti as -> ->.
  cbn [map unwrap any_attr field_of]. rewrite Hfv.
  unfold sess_bit. cbn [existsb]. rewrite Hl. fold (sess_bit attr mask svs).
  destruct (negb (Z.land z mask =? 0)); [reflexivity|]. rewrite IH. reflexivity.
Qed.

(** the first field named [attr] is a plain primitive *)
Fixpoint field_is_prim (attr : string) (fs : fields) : bool :=
  match fs with
  | FNil => false
  | FPlain n t r => if String.eqb attr n then match t with TPrim _ => true | _ => false end else field_is_prim attr r
  | FList n _ r => if String.eqb attr n then false else field_is_prim attr r
  | FUnion n _ _ r => if String.eqb attr n then false else field_is_prim attr r
  end.

Definition session_type_ok (attr : string) (t : ty) : bool :=
  match t with TStruct _ _ fs => field_is_prim attr fs | _ => false end.

Section Attr.
  Variable T : tables.
  Variable attr : string.

  Lemma fields_have_attr fs : forall pa rs bs kids r, sp_fields T fs pa rs bs = Some (kids, r) -> field_is_prim attr fs = true ->
    exists tz, lookupS attr (map kid_info kids) = Some (Some tz).
  Proof.
    induction fs as [|n t r0 IH|n e r0 IH|n sl u r0 IH]; intros pa rs bs kids r H Hp; cbn [field_is_prim] in Hp; [discriminate| | |].
    - rewrite sp_fields_plain in H. destruct (chk bs _) as [[v r1]|] eqn:C; [|discriminate].
      destruct (chk_some _ _ _ _ C) as [Hs _]. cbv zeta in H.
      destruct (sp_fields T r0 pa _ r1) as [[vs r2]|] eqn:Ef; [|discriminate]. injection H as <- <-.
      cbn [map]. rewrite (kid_info_at v pa n (sp_ty_path T _ _ _ _ _ _ _ Hs)). cbn [lookupS].
      destruct (String.eqb attr n).
      + destruct t as [p| | | |]; try discriminate. rewrite sp_ty_prim in Hs.
        destruct (sp_prim p _ bs) as [[[v0 z] rr]|] eqn:Ep; [|discriminate]. injection Hs as <- _.
        destruct (sp_prim_some _ _ _ _ _ _ Ep) as (h & _ & _ & _ & _ & ->). eexists. reflexivity.
      + eapply IH; [exact Ef|exact Hp].
    - rewrite sp_fields_list in H. destruct rs as [|[cn [[tn c]|]] rs']; try discriminate.
      destruct (chk bs _) as [[v r1]|] eqn:C; [|discriminate]. destruct (chk_some _ _ _ _ C) as [Hs _].
      destruct (sp_fields T r0 pa _ r1) as [[vs r2]|] eqn:Ef; [|discriminate]. injection H as <- <-.
      assert (Hk : kid_info v = (n, None)).
      { unfold sp_counted in Hs. destruct (Z.of_nat (List.length bs) <? c); [discriminate|].
        destruct (sp_elems _ _ _ _ _) as [[es re]|]; [|discriminate]. injection Hs as <- _.
        unfold kid_info. cbn [sv_path]. rewrite last_name_child. reflexivity. }
      cbn [map]. rewrite Hk. cbn [lookupS]. destruct (String.eqb attr n); [discriminate|]. eapply IH; [exact Ef|exact Hp].
    - rewrite sp_fields_union in H. destruct (lookupS sl rs) as [[tz|]|]; try discriminate.
      destruct (chk bs _) as [[v r1]|] eqn:C; [|discriminate]. destruct (chk_some _ _ _ _ C) as [Hs _]. cbv zeta in H.
      destruct (sp_fields T r0 pa _ r1) as [[vs r2]|] eqn:Ef; [|discriminate]. injection H as <- <-.
      cbn [map]. rewrite (kid_info_at v pa n (sp_ty_path T _ _ _ _ _ _ _ Hs)). cbn [lookupS].
      destruct (String.eqb attr n); [discriminate|]. eapply IH; [exact Ef|exact Hp].
  Qed.

  (** a session element: decoded as a structure whose [attr] field carries the specified value *)
  Lemma session_elem_sim abort t p b v r s :
    session_type_ok attr t = true -> sp_ty T t p None false b = Some (v, r) -> ok_leaves abort v = true -> wf_st s -> inp s = b ->
    blen r <= blen b -> fits (view s) (blen b - blen r) ->
    ok_run (dec_ty T abort t p None false) s (items_of v) r (sess_elem_ok attr v).
  Proof.
    intros Ht H AV W I L F. destruct t as [|name isp fs| | |]; try discriminate. cbn [session_type_ok] in Ht.
    pose proof (struct_value_sim T abort name isp fs p None false b v r s H AV W I L F) as Hr.
    eapply ok_weaken; [|exact Hr]. intros a Ha. split; [exact Ha|].
    rewrite sp_ty_struct in H. cbn [andb] in H.
    destruct (sp_fields T fs p [] b) as [[kids r0]|] eqn:Ef; [|discriminate]. injection H as <- _.
    eapply fields_have_attr; [exact Ef|exact Ht].
  Qed.
End Attr.
