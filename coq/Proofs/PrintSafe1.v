(** C14: the pretty printer never fails on decoder output - part 1: the printer's control state as a small machine
    over tokens (kind of event + path), and a compositional safety judgement over scopes of paths. *)
From Coq Require Import ZArith List String Bool Lia.
From TV Require Import Layout.Types Model.Monad Model.Ints Model.Pretty Proofs.PrettyProofs.
Import ListNotations.
Open Scope list_scope.

(** ---- tokens: what the printer's control flow looks at *)
Inductive tok :=
| TW                       (* a warning *)
| TP (q : path)            (* a primitive event *)
| TS (q : path)            (* a structure event *)
| TL (q : path)            (* the parent of a byte buffer: list[BYTE] *)
| TN (q : path).           (* the parent of any other list *)

Definition tok_of (e : pev) : tok :=
  match e with
  | PStruct pa _ => TS pa
  | PList pa _ true => TL pa
  | PList pa _ false => TN pa
  | PPrim pa _ _ => TP pa
  | PWarn _ => TW
  end.

Inductive ast := ATop | AInB (pl : path) | AInE (pe : path).

Definition abs (st : pstate) : ast :=
  match st with
  | Top => ATop
  | InBytes pa _ _ _ _ => AInB pa
  | InElems parent _ _ => AInE (pev_path parent)
  end.

(** one step; [None] = the printer fails (an element of a byte buffer that is not a primitive) *)
Definition astep (st : ast) (t : tok) : option ast :=
  match t with
  | TW => Some st
  | TP q =>
      match st with
      | ATop => Some ATop
      | AInB pl => if is_child pl q then Some (AInB pl) else Some ATop
      | AInE pe => if is_child pe q then Some (AInE pe) else Some ATop
      end
  | TS q | TL q | TN q =>
      match st with
      | ATop => Some (match t with TL _ => AInB q | TN _ => AInE q | _ => ATop end)
      | AInB pl => if is_child pl q then None else Some ATop
      | AInE pe => if is_child pe q then Some (AInE pe) else Some ATop
      end
  end.

Fixpoint arun (st : ast) (ts : list tok) : option ast :=
  match ts with
  | [] => Some st
  | t :: r => match astep st t with Some st' => arun st' r | None => None end
  end.

Lemma arun_app a b st : arun st (a ++ b) = match arun st a with Some st' => arun st' b | None => None end.
Proof. revert st. induction a as [|t a IH]; intros st; [reflexivity|]. cbn [app arun]. destruct (astep st t); [apply IH|reflexivity]. Qed.

Lemma arun_prefix a b st : arun st (a ++ b) <> None -> arun st a <> None.
Proof. rewrite arun_app. destruct (arun st a); [discriminate|intros H; exact H]. Qed.

(** ---- soundness: if the token machine does not fail, the printer prints no failure row *)
Section Sound.
  Variable T : tables.
  Variable d : string.

  Lemma in_app_3 {A} (x : A) a b c : In x (a ++ b ++ c) -> In x a \/ In x b \/ In x c.
  Proof. intros H. apply in_app_or in H as [H|H]; [left; exact H|]. apply in_app_or in H as [H|H]; [right; left; exact H|right; right; exact H]. Qed.

  Lemma warn_rows_nocrash ws : ~ In RCrashRow (warn_rows T d ws).
  Proof. unfold warn_rows. intros H. apply in_map_iff in H as (x & Hx & _). destruct x; discriminate. Qed.

  Lemma plain_row_nocrash e : plain_row T d e <> RCrashRow.
  Proof. destruct e; discriminate. Qed.

  Lemma full_rows_nocrash e : ~ In RCrashRow (full_rows T d e).
  Proof.
    unfold full_rows. intros [H|H]; [apply (plain_row_nocrash e H)|]. destruct e; try contradiction. apply (attr_rows_nocrash T d _ _ _ H).
  Qed.

  (** the parent recorded in an element state is a non-byte list parent (so that its path is what [abs] says) *)
  Definition st_wf (st : pstate) : Prop := match st with InElems (PWarn _) _ _ => False | _ => True end.

  Theorem printer_sound evs : forall st, st_wf st -> arun (abs st) (map tok_of evs) <> None -> ~ In RCrashRow (pp T d evs st).
  Proof.
    induction evs as [|e r IH]; intros st WF HR.
    - destruct st as [|pa en buf cover dw|parent empty dw]; cbn [pp].
      + intros [].
      + intros [H|H]; [discriminate|apply (warn_rows_nocrash _ H)].
      + intros H. apply in_app_or in H as [H|H]; [|apply (warn_rows_nocrash _ H)].
        destruct empty; [|contradiction]. destruct H as [H|[]]. apply (plain_row_nocrash _ H).
    - cbn [map arun] in HR. destruct (astep (abs st) (tok_of e)) as [st1|] eqn:Es; [|contradiction].
      destruct st as [|pa en buf cover dw|parent empty dw]; cbn [pp abs] in *.
      + destruct e as [pa' tn|pa' en' b|pa' p z|t]; cbn [tok_of astep] in Es.
        * injection Es as <-. intros H. apply in_app_or in H as [H|H]; [apply (full_rows_nocrash _ H)|]. apply (IH Top I HR H).
        * destruct b; injection Es as <-; [apply (IH (InBytes pa' en' [] [PList pa' en' true] []) I HR)|apply (IH (InElems (PList pa' en' false) true []) I HR)].
        * injection Es as <-. intros H. apply in_app_or in H as [H|H]; [apply (full_rows_nocrash _ H)|]. apply (IH Top I HR H).
        * injection Es as <-. intros H. apply in_app_or in H as [H|H]; [apply (full_rows_nocrash _ H)|]. apply (IH Top I HR H).
      + assert (Hout : forall x, arun ATop (map tok_of r) <> None ->
                  ~ In RCrashRow (bytes_row pa en buf cover :: warn_rows T d dw ++ full_rows T d x ++ pp T d r Top)).
        { intros x HR' [H|H]; [discriminate|]. apply in_app_3 in H as [H|[H|H]];
            [apply (warn_rows_nocrash _ H)|apply (full_rows_nocrash _ H)|apply (IH Top I HR' H)]. }
        destruct e as [pa' tn|pa' en' b|pa' p z|t]; cbn [tok_of astep pev_path] in *.
        * destruct (is_child pa pa'); [discriminate|]. injection Es as <-. apply (Hout _ HR).
        * destruct b; cbn [tok_of astep] in Es; (destruct (is_child pa pa'); [discriminate|]); injection Es as <-; apply (Hout _ HR).
        * destruct (is_child pa pa'); injection Es as <-; [apply (IH (InBytes pa en (buf ++ prim_hex p z) (cover ++ [PPrim pa' p z]) dw) I HR)|apply (Hout _ HR)].
        * injection Es as <-. apply (IH (InBytes pa en buf cover (dw ++ [PWarn t])) I HR).
      + destruct parent as [ppa ptn|ppa pen pb|ppa pp0 pz|]; try contradiction; cbn [pev_path] in *.
        all: destruct e as [pa' tn|pa' en' b|pa' p z|t]; cbn [tok_of astep pev_path] in *.
        all: try (destruct b; cbn [tok_of astep] in Es).
        all: try (destruct (is_child ppa pa'); injection Es as <-;
                  [intros H; apply in_app_or in H as [H|H]; [apply (warn_rows_nocrash _ H)|];
                   destruct H as [H|H]; [apply (plain_row_nocrash _ H)|]; revert H; apply IH; [exact I|exact HR]
                  |intros H; apply in_app_or in H as [H|H];
                   [destruct empty; [destruct H as [H|[]]; apply (plain_row_nocrash _ H)|contradiction]|];
                   apply in_app_3 in H as [H|[H|H]]; [apply (warn_rows_nocrash _ H)|apply (full_rows_nocrash _ H)|apply (IH Top I HR H)]]).
        all: injection Es as <-; destruct empty; [apply IH; [exact I|exact HR]|intros [H|H]; [discriminate|]; revert H; apply IH; [exact I|exact HR]].
  Qed.
End Sound.
