(** C06, part 4: every root, through the byte pump. *)
From Coq Require Import ZArith List String Bool Lia ZifyBool.
From TV Require Import Layout.Types Base.Bytes Model.Monad Model.Constraints Model.Ints Model.Decoder Model.Message Model.Pump
  Spec.Value Proofs.Closure Proofs.LowClosure Proofs.Account Proofs.Agree Proofs.Sim1 Proofs.Sim2 Proofs.Sim3 Proofs.Sim4 Proofs.Sim7
  Proofs.Sim8 Proofs.Sim9 Proofs.Sim10 Proofs.Sim11 Proofs.Safe1 Proofs.Safe2 Proofs.Safe3.
Import ListNotations.
Open Scope list_scope.
Open Scope Z_scope.

Section Roots.
  Variable T : tables.
  Hypothesis Hsafe : msg_safe T = true.

  Lemma acc_cmd pa : accounts (dec_command T true pa).
  Proof. apply (P_dec_command T true (@accounts) (lclosed_closed _ accounts_lclosed true)). Qed.
  Lemma acc_rsp pa cc enc : accounts (dec_response T true pa cc enc).
  Proof. apply (P_dec_response T true (@accounts) (lclosed_closed _ accounts_lclosed true)). Qed.

  Lemma oki_acc A (m : M A) s : accounts m -> okinv m s (fun _ tr s' => inp s = bytes_of tr ++ inp s').
  Proof. intros Ha tr s' a E. apply (Ha _ _ _ _ E). Qed.

  (** the stream loop: with more iterations than input bytes it never runs to completion - every message takes at
      least a byte - and it never fails internally *)
  Lemma stream_loop : forall n s, wf_st s -> Forall isbyte (inp s) -> (List.length (inp s) < n)%nat ->
    runs2 (iter n (sbody T true) tt) s (fun _ _ _ => False).
  Proof.
    destruct (msg_facts T Hsafe) as (_ & _ & _ & _ & _ & _ & _ & _ & _ & _ & Hmap & _).
    induction n as [|n IH]; intros s W Hb Hl; [lia|]. cbn [iter].
    apply r2_bind with (P := fun _ _ s1 => wf_st s1 /\ Forall isbyte (inp s1) /\ (List.length (inp s1) < n)%nat).
    - unfold sbody.
      apply r2_bind with (P := fun res tr s1 => cmd_post T res tr s1 /\ inp s = bytes_of tr ++ inp s1).
      + apply r2_and_oki; [apply (cmd_r2 T Hsafe root_path s W Hb)|apply oki_acc, acc_cmd].
      + intros res tr1 s1 ((W1 & B1 & V1 & Hr1 & cc & Hcc & Hh & Henc) & Ha1).
        destruct (is_param_enc (sess_attr_field T) (mask_encrypt T) (cr_area res)) as [enc|]; [|exfalso; apply Henc; reflexivity].
        rewrite Hcc.
        assert (Hrh : lookupZ cc (rsp_handles T) <> None).
        { destruct (lookupZ cc (cmd_handles T)) as [hty|] eqn:Lh; [|exfalso; apply Hh; reflexivity].
          destruct (lookupZ_in _ _ _ Lh) as (c' & Hin & ->). rewrite forallb_forall in Hmap. specialize (Hmap _ Hin). cbn [fst] in Hmap.
          apply andb_prop in Hmap as [Hm1 _]. destruct (lookupZ c' (rsp_handles T)); [discriminate|discriminate]. }
        apply r2_bind with (P := fun _ tr s2 => rsp_core s2 /\ inp s1 = bytes_of tr ++ inp s2).
        * apply r2_and_oki; [|apply oki_acc, acc_rsp]. eapply r2_weaken; [|apply (rsp_r2 T Hsafe root_path cc enc s1 W1 B1 Hrh)].
          cbv beta. intros _ tr s2 H. exact H.
        * intros u2 tr2 s2 ((W2 & B2 & _) & Ha2). apply r2_ret. split; [exact W2|]. split; [exact B2|].
          apply (f_equal (@List.length Z)) in Ha1, Ha2. rewrite app_length in Ha1, Ha2. unfold blen in Hr1. lia.
    - intros [] tr1 s1 (W1 & B1 & L1). eapply r2_weaken; [|apply (IH s1 W1 B1 L1)]. cbv beta. intros ? ? ? [].
  Qed.

  Lemma dec_root_stream s : dec_root T true RStream s = bind (dec_stream T true root_path) (fun _ => ret (@None value)) s.
  Proof. reflexivity. Qed.

  (** the stream decoder, folded *)
  Lemma dec_stream_fold s : dec_stream T true root_path s = bind (rep stream_bound (sbody T true) tt) (fun _ => @fuel_ unit) s.
  Proof. reflexivity. Qed.

  Lemma stream_good bs : Forall isbyte bs -> Z.of_nat (List.length bs) < Z.pos stream_bound ->
    forall tr s' o, dec_root T true RStream (init_st bs) = (tr, s', o) -> good o.
  Proof.
    intros Hb Hw tr s' o E. rewrite dec_root_stream in E.
    assert (HN : (List.length bs < Pos.to_nat stream_bound)%nat) by (apply Nat2Z.inj_lt; rewrite positive_nat_Z; exact Hw).
    assert (R : runs2 (bind (dec_stream T true root_path) (fun _ => ret (@None value))) (init_st bs) (fun _ _ _ => True)).
    { apply r2_bind with (P := fun _ _ _ => False).
      - eapply r2_eq; [apply dec_stream_fold|]. apply r2_bind with (P := fun _ _ _ => False).
        + eapply r2_eq; [apply (rep_iter _ (sbody T true) stream_bound tt)|]. apply (stream_loop _ (init_st bs) (wf_init bs) Hb HN).
        + intros ? ? ? [].
      - intros ? ? ? []. }
    apply (proj1 (R _ _ _ E)).
  Qed.

  (** which roots the theorem speaks about *)
  Definition root_safe (r : root) : Prop :=
    match r with
    | RType t => safe_ty t = true /\ nonunion t = true
    | RCommand => True
    | RResponse (Some cc) _ => lookupZ cc (rsp_handles T) <> None
    | RResponse None _ => False
    | RStream => True
    end.

  Lemma type_good t bs : safe_ty t = true -> nonunion t = true -> Forall isbyte bs ->
    forall tr s' o, dec_root T true (RType t) (init_st bs) = (tr, s', o) -> good o.
  Proof.
    intros Hs Hn Hb tr s' o E. cbn [dec_root] in E. unfold bind in E. cbn [set_lst init_st inp store lst] in E.
    destruct (dec_ty T true t root_path None false (mkSt bs [] [])) as [[tr1 s1] o1] eqn:E1.
    destruct (proj1 (safe_all T) t Hs root_path None (mkSt bs [] []) (nonunion_sel t None Hn) Hb tr1 s1 o1 E1) as [G _].
    destruct o1; injection E as _ _ <-; exact G.
  Qed.

  Lemma command_good bs : Forall isbyte bs ->
    forall tr s' o, dec_root T true RCommand (init_st bs) = (tr, s', o) -> good o.
  Proof.
    intros Hb tr s' o E. cbn [dec_root] in E.
    assert (R : runs2 (bind (dec_command T true root_path) (fun c => ret (Some (cr_obj c)))) (init_st bs) (fun _ _ _ => True)).
    { apply r2_bind with (P := fun _ _ _ => True); [eapply r2_weaken; [|apply (cmd_r2 T Hsafe root_path (init_st bs) (wf_init bs) Hb)]; intros; exact Logic.I|].
      intros c tr1 s1 _. apply r2_ret. exact Logic.I. }
    apply (proj1 (R _ _ _ E)).
  Qed.

  Lemma response_good cc enc bs : lookupZ cc (rsp_handles T) <> None -> Forall isbyte bs ->
    forall tr s' o, dec_root T true (RResponse (Some cc) enc) (init_st bs) = (tr, s', o) -> good o.
  Proof.
    intros Hr Hb tr s' o E. cbn [dec_root] in E.
    assert (R : runs2 (bind (dec_response T true root_path (Some cc) enc) (fun v => ret (Some v))) (init_st bs) (fun _ _ _ => True)).
    { apply r2_bind with (P := fun _ _ _ => True); [eapply r2_weaken; [|apply (rsp_r2 T Hsafe root_path cc enc (init_st bs) (wf_init bs) Hb Hr)]; intros; exact Logic.I|].
      intros c tr1 s1 _. apply r2_ret. exact Logic.I. }
    apply (proj1 (R _ _ _ E)).
  Qed.

  Theorem root_good r bs : root_safe r -> Forall isbyte bs -> within_bound r bs ->
    forall tr s' o, dec_root T true r (init_st bs) = (tr, s', o) -> good o.
  Proof.
    intros Hr Hb Hw tr s' o E. destruct r as [t| |[cc|] enc|].
    - destruct Hr as [Hs Hn]. exact (type_good t bs Hs Hn Hb tr s' o E).
    - exact (command_good bs Hb tr s' o E).
    - exact (response_good cc enc bs Hr Hb tr s' o E).
    - destruct Hr.
    - exact (stream_good bs Hb (Hw eq_refl) tr s' o E).
  Qed.

  (** C06: strict decoding of any byte string under any such root ends with a documented outcome *)
  Theorem any_root_documented r bs : root_safe r -> Forall isbyte bs -> within_bound r bs ->
    documented (snd (decode T true r bs)).
  Proof.
    intros Hr Hb Hw. unfold decode. apply pump_documented.
    destruct (dec_root T true r (init_st bs)) as [[tr s'] o] eqn:E. cbn [snd]. apply (root_good r bs Hr Hb Hw tr s' o E).
  Qed.
End Roots.
