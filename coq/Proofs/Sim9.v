(** Simulation, part 9: responses. *)
From Coq Require Import ZArith List String Bool Lia ZifyBool.
From TV Require Import Layout.Types Base.Bytes Model.Monad Model.Constraints Model.Ints Model.Decoder Model.Message
  Spec.Value Spec.Message Proofs.Closure Proofs.LowClosure Proofs.Incremental Proofs.Sim1 Proofs.Sim2 Proofs.Sim3 Proofs.Sim4
  Proofs.Sim7 Proofs.Sim8.
Import ListNotations.
Open Scope string_scope.
Open Scope list_scope.
Open Scope Z_scope.

(** a type whose decoding does not look at the encryption flag *)
Definition plain_ty (t : ty) : bool := match t with TStruct _ isp _ => negb isp | _ => true end.

Lemma dec_ty_plain T abort t pa sel enc : plain_ty t = true -> dec_ty T abort t pa sel enc = dec_ty T abort t pa sel false.
Proof.
  destruct t as [p|name isp fs|name szf buf szp elem|name szf buf szp inner|name ar]; intros H; try reflexivity.
  cbn [plain_ty] in H. destruct isp; [discriminate|]. rewrite !dec_ty_struct. rewrite !andb_false_r. reflexivity.
Qed.

Lemma lookupZ_forallb {A} (P : A -> bool) c l t : lookupZ c l = Some t -> forallb (fun ct => P (snd ct)) l = true -> P t = true.
Proof.
  induction l as [|[k a] l IH]; cbn [lookupZ forallb]; [discriminate|]. intros H F. apply andb_prop in F as [F1 F2].
  destruct (c =? k); [injection H as <-; exact F1|exact (IH H F2)].
Qed.

Lemma view_nil_all_obs s : view s = [] -> forallb (fun i => sc_obs (get_sc s i)) (lst s) = true.
Proof.
  unfold view. intros H. apply map_eq_nil in H. apply forallb_forall. intros i Hi.
  destruct (sc_obs (get_sc s i)) eqn:E; [reflexivity|]. exfalso.
  assert (Hin : In i (filter (live s) (lst s))) by (apply filter_In; split; [exact Hi|unfold live; rewrite E; reflexivity]).
  rewrite H in Hin. exact Hin.
Qed.

Lemma assert_done_obsolete abort cid mx s : sc_max (get_sc s cid) = Some mx -> sc_obs (get_sc s cid) = true ->
  assert_done abort cid s = ([], s, Ok tt).
Proof.
  intros Hm Ho. unfold assert_done. rewrite bind_get. change (get_sc (mkSt [] (store s) (lst s)) cid) with (get_sc s cid).
  rewrite Hm, Ho. reflexivity.
Qed.

Lemma list_assert_done_ok s : view s = [] -> list_assert_done s = ([], s, Ok tt).
Proof.
  intros H. unfold list_assert_done. rewrite bind_get.
  change (forallb (fun i => sc_obs (get_sc (mkSt [] (store s) (lst s)) i)) (lst (mkSt [] (store s) (lst s))))
    with (forallb (fun i => sc_obs (get_sc s i)) (lst s)).
  rewrite (view_nil_all_obs s H). reflexivity.
Qed.

Lemma two_entry_eq (i j : nat) (m n : option Z) (x y x' y' : Z) : x = x' -> y = y' -> [(i, m, x); (j, n, y)] = [(i, m, x'); (j, n, y')].
Proof. intros -> ->. reflexivity. Qed.

Section Rsp.
  Variable T : tables.
  Variable abort : bool.
  Hypothesis Hauth : session_type_ok (sess_attr_field T) (t_auth_rsp T) = true.
  Hypothesis Hplain : forallb (fun ct => plain_ty (snd ct)) (rsp_handles T) = true.

  (** the end of a response whose region is exactly filled *)
  Lemma rsp_finish_sim rid v total rest s : wf_st s -> inp s = rest -> view s = [(rid, Some total, total)] ->
    run_to (rsp_finish abort rid v) s [] rest (fun _ s' => view s' = []).
  Proof.
    intros W I Vw. unfold rsp_finish.
    destruct (assert_done_spec abort rid total [] s W Vw ltac:(intros [])) as (s2 & E2 & I2 & L2 & V2 & W2 & _).
    apply run_bind with (i1 := []) (i2 := []) (mid := rest) (P := fun a' s'' => a' = tt /\ s'' = s2).
    { apply run_silent'; [exact E2|exact I|congruence|exact W2]. }
    intros s3 u W3 I3 (-> & ->).
    apply run_bind with (i1 := []) (i2 := []) (mid := rest) (P := fun a' s'' => a' = tt /\ s'' = s2).
    { apply run_silent'; [apply list_assert_done_ok; exact V2|exact I3|exact I3|exact W2]. }
    intros s4 u' W4 I4 (-> & ->). apply run_ret'; [exact W2|exact I4|exact V2].
  Qed.

  (** ... and when the governing list of sessions has already closed it *)
  Lemma rsp_finish_done_sim rid v total rest s : wf_st s -> inp s = rest -> view s = [] ->
    sc_obs (get_sc s rid) = true -> sc_max (get_sc s rid) = Some total ->
    run_to (rsp_finish abort rid v) s [] rest (fun _ s' => view s' = []).
  Proof.
    intros W I Vw Ho Hm. unfold rsp_finish.
    apply run_bind with (i1 := []) (i2 := []) (mid := rest) (P := fun a' s'' => a' = tt /\ s'' = s).
    { apply run_silent'; [apply (assert_done_obsolete abort rid total s Hm Ho)|exact I|exact I|exact W]. }
    intros s3 u W3 I3 (-> & ->).
    apply run_bind with (i1 := []) (i2 := []) (mid := rest) (P := fun a' s'' => a' = tt /\ s'' = s).
    { apply run_silent'; [apply list_assert_done_ok; exact Vw|exact I|exact I|exact W]. }
    intros s4 u' W4 I4 (-> & ->). apply run_ret'; [exact W|exact I|exact Vw].
  Qed.

  Lemma is_param_enc_sess_rsp mask sessions accs : Forall2 (sess_elem_ok (sess_attr_field T)) sessions accs ->
    is_param_enc (sess_attr_field T) mask (Some (listval accs)) = Some (sess_bit (sess_attr_field T) mask sessions).
  Proof. intros H. unfold is_param_enc, listval. apply (any_attr_sess _ mask _ _ H). Qed.

  (** parameters up to the end of the response (tag = NO_SESSIONS) *)
  Lemma rsp_rest_plain_sim pa rid pid cc v4 pty pv r4 rest total s :
    lookupZ cc (rsp_params T) = Some pty ->
    sp_ty T pty (pchild pa "parameters") None false r4 = Some (pv, []) -> ok_leaves abort pv = true ->
    wf_st s -> inp s = r4 ++ rest -> view s = [(rid, Some total, total - blen r4)] ->
    run_to (rsp_rest T abort pa rid pid (Some cc) false false v4 false) s (items_of pv) rest (fun _ s' => view s' = []).
  Proof.
    intros Lp Ep AV W I Vw. unfold rsp_rest. rewrite Lp.
    rewrite <- (app_nil_r (items_of pv)).
    eapply run_try_field with (mid := rest).
    - apply run_of_ok. apply (sim_ty_region T abort _ _ _ _ r4 pv [] rest s Ep AV W I).
      rewrite Vw. constructor; [cbn; unfold blen; cbn; lia|constructor].
    - cbv beta zeta. intros s1 a W1 I1 (V1 & Fr1 & Pa).
      assert (V1' : view s1 = [(rid, Some total, total)]).
      { rewrite V1, Vw, I. cbn [bump map bump_entry app]. apply one_entry_eq. unfold blen. rewrite app_length. cbn. lia. }
      apply run_bind with (i1 := []) (i2 := []) (mid := rest) (P := fun a' s'' => a' = tt /\ s'' = s1).
      { apply run_silent'; [reflexivity|exact I1|exact I1|exact W1]. }
      intros s2 u W2 I2 (-> & ->). apply (rsp_finish_sim rid _ total rest s1 W1 I1 V1').
  Qed.

  (** parameters in their announced region, then the sessions up to the end of the response (tag = SESSIONS) *)
  Lemma rsp_rest_sess_sim pa rid pid cc enc v4 pty pv psz pregion aregion sessions rest total s :
    rid <> pid ->
    lookupZ cc (rsp_params T) = Some pty ->
    sp_ty T pty (pchild pa "parameters") None enc pregion = Some (pv, []) ->
    sp_until_empty (fun p b => sp_ty T (t_auth_rsp T) p None false b) (pchild pa "authorizationArea")
                   (List.length aregion) 0 aregion = Some sessions ->
    Bool.eqb enc (sess_bit (sess_attr_field T) (mask_encrypt T) sessions) = true ->
    ok_leaves abort pv = true -> forallb (ok_leaves abort) sessions = true -> blen pregion = psz ->
    wf_st s -> inp s = pregion ++ aregion ++ rest ->
    view s = [(rid, Some total, total - (psz + blen aregion)); (pid, Some psz, 0)] ->
    run_to (rsp_rest T abort pa rid pid (Some cc) enc true v4 true) s
      (items_of pv ++ (INode (pchild pa "authorizationArea") (list_id (t_auth_rsp T)) :: flat_map items_of sessions)) rest
      (fun _ s' => view s' = []).
  Proof.
    intros Hne Lp Ep Eu Heq AVp AVs Hpl W I Vw. unfold rsp_rest. rewrite Lp.
    eapply run_try_field with (mid := aregion ++ rest)
      (P := fun _ s1 => view s1 = [(rid, Some total, total - blen aregion)] ++ [(pid, Some psz, psz)]).
    - eapply run_weaken; [|apply run_of_ok; apply (sim_ty_region T abort _ _ _ _ pregion pv [] (aregion ++ rest) s Ep AVp W I)].
      + cbv beta. intros a s1 (V1 & _ & _). rewrite V1, Vw, I. cbn [bump map bump_entry app].
        replace (blen (pregion ++ aregion ++ rest) - blen (aregion ++ rest)) with psz by (unfold blen in *; rewrite !app_length; lia).
        apply two_entry_eq; lia.
      + rewrite Vw. constructor; [cbn; unfold blen in *; cbn; lia|]. constructor; [cbn; unfold blen in *; cbn; lia|constructor].
    - cbv beta zeta. intros s1 a W1 I1 V1.
      destruct (assert_done_spec abort pid psz [(rid, Some total, total - blen aregion)] s1 W1 V1
                  ltac:(cbn; intros [Hx|[]]; apply Hne; exact Hx)) as (s2 & E2 & I2 & L2 & V2 & W2 & _).
      apply run_bind with (i1 := []) (mid := aregion ++ rest) (P := fun a' s'' => a' = tt /\ s'' = s2).
      { apply run_silent'; [exact E2|exact I1|congruence|exact W2]. }
      intros s2' u W2' I2' (-> & ->).
      rewrite <- (app_nil_r (INode _ _ :: flat_map items_of sessions)).
      eapply run_try_field with (mid := rest).
      + apply (sized_array_sim abort (fun p b => sp_ty T (t_auth_rsp T) p None false b) (fun p => dec_ty T abort (t_auth_rsp T) p None false)
                 (sess_elem_ok (sess_attr_field T))) with (mx := total) (bs := aregion) (V := []) (vs := sessions).
        * intros p b v r s0 Hf AV0 W0 I0 L0 F0. apply (session_elem_sim T (sess_attr_field T) abort _ _ _ _ _ _ Hauth Hf AV0 W0 I0 L0 F0).
        * intros p. apply incr_dec_ty.
        * exact Eu.
        * exact AVs.
        * exact W2.
        * exact I2'.
        * rewrite V2. reflexivity.
        * intros [].
        * constructor.
      + cbv beta zeta. intros s4 area W4 I4 (V4 & Fr4 & Ob4 & Mx4 & accs & -> & Facc).
        rewrite (is_param_enc_sess_rsp (mask_encrypt T) sessions accs Facc).
        apply eqb_prop in Heq. rewrite <- Heq, eqb_reflx.
        apply run_bind with (i1 := []) (i2 := []) (mid := rest) (P := fun a' s'' => a' = tt /\ s'' = s4).
        { apply run_silent'; [reflexivity|exact I4|exact I4|exact W4]. }
        intros s5 u5 W5 I5 (-> & ->).
        apply (rsp_finish_done_sim rid _ total rest s4 W4 I4 V4 Ob4 Mx4).
  Qed.

  (** the whole response *)
  Theorem rsp_sim pa cc enc bs v rest s :
    sp_response T pa cc enc bs = Some (v, rest) -> ok_leaves abort v = true -> wf_st s -> inp s = bs ->
    run_to (dec_response T abort pa (Some cc) enc) s (items_of v) rest (fun _ s' => view s' = []).
  Proof.
    unfold sp_response. intros H AV W I.
    destruct (sp_prim (p_rsp_tag T) (pchild pa "tag") bs) as [[[tagv tag] r1]|] eqn:Ep1; [|discriminate].
    destruct (sp_prim (p_size32 T) (pchild pa "responseSize") r1) as [[[szv total] r2]|] eqn:Ep2; [|discriminate].
    destruct (split_at (total - (pwidth (p_rsp_tag T) + pwidth (p_size32 T))) r2) as [[body rest0]|] eqn:Es; [|discriminate].
    destruct (sp_prim (p_rc T) (pchild pa "responseCode") body) as [[[rcv rc] r3]|] eqn:Ep3; [|discriminate].
    destruct (sp_prim_some _ _ _ _ _ _ Ep1) as (h1 & Hbs & Hl1 & Hw1 & Hz1 & Htagv).
    destruct (sp_prim_some _ _ _ _ _ _ Ep2) as (h2 & Hr1 & Hl2 & Hw2 & Hz2 & Hszv).
    destruct (split_at_some _ _ _ _ Es) as (Hr2 & Hlb & Hn0).
    destruct (sp_prim_some _ _ _ _ _ _ Ep3) as (h3 & Hbody & Hl3 & Hw3 & Hz3 & Hrcv).
    set (wt := pwidth (p_rsp_tag T)) in *. set (ws := pwidth (p_size32 T)) in *. set (wc := pwidth (p_rc T)) in *.
    assert (B3 : blen body = wc + blen r3) by (rewrite Hbody; unfold blen in *; rewrite app_length; lia).
    set (rid := List.length (store s)).
    destruct (new_sc_spec s W) as (s1 & E1 & I1 & L1 & V1 & W1 & Len1 & G1 & Fr1).
    destruct (new_sc_spec s1 W1) as (s2 & E2 & I2 & L2 & V2 & W2 & Len2 & G2 & Fr2).
    set (pid := List.length (store s1)) in *.
    assert (Hpid : pid = S rid) by (unfold pid, rid; exact Len1).
    assert (Nrid : ~ In rid (lst s1)).
    { rewrite L1. intros Hx. destruct W as [_ AL]. rewrite Forall_forall in AL. specialize (AL _ Hx). unfold rid in AL. lia. }
    assert (Gc2 : get_sc s2 rid = sc_new).
    { destruct Fr2 as [_ Hf]. destruct (Hf rid ltac:(lia) Nrid) as [Hg _]. rewrite Hg. exact G1. }
    set (s3 := mkSt (inp s2) (store s2) [rid]).
    assert (W3 : wf_st s3).
    { split; cbn [s3 lst store]; [constructor; [intros []|constructor]|constructor; [lia|constructor]]. }
    assert (V3 : view s3 = [(rid, None, 0)]).
    { unfold view. cbn [s3 lst filter]. unfold live. change (get_sc s3 rid) with (get_sc s2 rid). rewrite Gc2. cbn [sc_obs sc_new negb map].
      unfold entry_of. change (get_sc s3 rid) with (get_sc s2 rid). rewrite Gc2. reflexivity. }
    assert (A3 : aid_ok pid s3).
    { split; [cbn [s3 store]; lia|]. split; [cbn [s3 lst]; intros [Hx|[]]; lia|]. exact G2. }
    assert (I3 : inp s3 = bs) by (cbn [s3 inp]; congruence).
    assert (Hitems : exists more, v = SNode pa (TyN "Response") ([tagv; szv; rcv] ++ more)).
    { destruct (negb (rc =? rc_success T)).
      - destruct r3; [|discriminate]. injection H as <- _. exists []. reflexivity.
      - destruct (lookupZ cc (rsp_handles T)); [|discriminate]. destruct (lookupZ cc (rsp_params T)); [|discriminate].
        destruct (sp_ty T _ _ None false r3) as [[hv r4]|]; [|discriminate].
        destruct (tag =? st_sessions T).
        + destruct (sp_prim _ _ r4) as [[[psv psz] r5]|]; [|discriminate].
          destruct (split_at psz r5) as [[pregion aregion]|]; [|discriminate].
          destruct (sp_ty T _ _ None enc pregion) as [[pv [|x xs]]|]; try discriminate.
          destruct (sp_until_empty _ _ _ _ _) as [sessions|]; [|discriminate].
          destruct (Bool.eqb enc _); [|discriminate]. injection H as <- _. eexists. reflexivity.
        + destruct enc; [discriminate|]. destruct (sp_ty T _ _ None false r4) as [[pv [|x xs]]|]; try discriminate.
          injection H as <- _. eexists. reflexivity. }
    destruct Hitems as (more & Hv).
    assert (AVs : ok_leaves abort tagv = true /\ ok_leaves abort szv = true /\ ok_leaves abort rcv = true /\ forallb (ok_leaves abort) more = true).
    { rewrite Hv in AV. cbn [ok_leaves app forallb] in AV.
      apply andb_prop in AV as [At A1]. apply andb_prop in A1 as [As A1]. apply andb_prop in A1 as [Ac A1]. repeat split; assumption. }
    destruct AVs as (AVt & AVz & AVc & AVm).
    replace (items_of v) with ([] ++ [] ++ [] ++ [INode pa (TyN "Response")] ++ items_of tagv ++ items_of szv ++ [] ++ items_of rcv ++ flat_map items_of more)
      by (rewrite Hv; cbn [items_of flat_map app]; rewrite ?app_nil_r, <- ?app_assoc; reflexivity).
    unfold dec_response.
    apply run_bind with (mid := bs) (P := fun a s' => a = rid /\ s' = s1).
    { apply run_silent'; [exact E1|exact I|congruence|exact W1]. }
    intros s1' rid' W1' I1' (-> & ->).
    apply run_bind with (mid := bs) (P := fun a s' => a = pid /\ s' = s2).
    { apply run_silent'; [exact E2|exact I1'|congruence|exact W2]. }
    intros s2' pid' W2' I2' (-> & ->).
    apply run_bind with (mid := bs) (P := fun a s' => a = tt /\ s' = s3).
    { apply run_silent'; [reflexivity|exact I2'|exact I3|exact W3]. }
    intros s3' u W3' I3' (-> & ->).
    apply run_bind with (mid := bs) (P := fun _ s' => s' = s3).
    { rewrite <- I3. apply run_sev. exact W3. }
    intros s3' u' W3'' I3'' ->. cbv zeta.
    (* tag *)
    eapply run_try_field with (mid := r1)
      (P := fun a s4 => a = Some (VInt_ (pname (p_rsp_tag T)) tag) /\ view s4 = [(rid, None, wt)] /\ aid_ok pid s4).
    { eapply run_weaken; [|apply run_of_ok; apply (sim_prim abort (p_rsp_tag T) (pchild pa "tag") bs tagv tag r1 s3 Ep1)].
      - cbv beta. intros a s4 (V4 & Fr4 & ->). split; [reflexivity|]. split; [|exact (aid_ok_frame _ _ _ A3 Fr4)].
        rewrite V4, V3, I3, Hbs. cbn [bump map bump_entry]. apply one_entry_eq. unfold blen in *. rewrite app_length. fold wt. lia.
      - subst tagv. exact AVt.
      - exact W3.
      - exact I3.
      - rewrite V3. constructor; [exact Logic.I|constructor]. }
    cbv beta. intros s4 a W4 I4 (-> & V4 & A4).
    (* responseSize *)
    eapply run_try_field with (mid := r2)
      (P := fun a s5 => a = Some (VInt_ (pname (p_size32 T)) total) /\ view s5 = [(rid, None, wt + ws)] /\ aid_ok pid s5).
    { eapply run_weaken; [|apply run_of_ok; apply (sim_prim abort (p_size32 T) (pchild pa "responseSize") r1 szv total r2 s4 Ep2)].
      - cbv beta. intros a s5 (V5 & Fr5 & ->). split; [reflexivity|]. split; [|exact (aid_ok_frame _ _ _ A4 Fr5)].
        rewrite V5, V4, I4, Hr1. cbn [bump map bump_entry]. apply one_entry_eq. unfold blen in *. rewrite app_length. fold ws. lia.
      - subst szv. exact AVz.
      - exact W4.
      - exact I4.
      - rewrite V4. constructor; [exact Logic.I|constructor]. }
    cbv beta. intros s5 a W5 I5 (-> & V5 & A5). cbn [as_int].
    destruct (view_entry s5 rid None (wt + ws) ltac:(rewrite V5; left; reflexivity)) as (_ & _ & Hin5).
    assert (Hc5 : (rid < List.length (store s5))%nat) by (destruct W5 as [_ AL]; rewrite Forall_forall in AL; apply AL, Hin5).
    destruct (set_constraint_spec abort rid (pchild pa "responseSize") total s5 W5 ltac:(lia) Hc5)
      as (s6 & E6 & I6 & L6 & V6 & W6 & Len6 & G6 & G6' & _).
    { rewrite V5. constructor; [left; reflexivity|constructor]. }
    assert (V6' : view s6 = [(rid, Some total, wt + ws)]).
    { rewrite V6, V5. cbn [map set_entry]. rewrite Nat.eqb_refl. reflexivity. }
    assert (A6 : aid_ok pid s6).
    { destruct A5 as (Al & An & Ag). split; [lia|]. split; [rewrite L6; exact An|]. rewrite G6' by lia. exact Ag. }
    apply run_bind with (mid := r2) (P := fun a s' => a = tt /\ s' = s6).
    { apply run_silent'; [exact E6|exact I5|congruence|exact W6]. }
    intros s6' u6 W6' I6' (-> & ->).
    (* responseCode *)
    eapply run_try_field with (mid := r3 ++ rest0)
      (P := fun a s7 => a = Some (VInt_ (pname (p_rc T)) rc) /\ view s7 = [(rid, Some total, total - blen r3)] /\ aid_ok pid s7).
    { eapply run_weaken; [|apply run_of_ok; apply (sim_prim abort (p_rc T) (pchild pa "responseCode") (body ++ rest0) rcv rc (r3 ++ rest0) s6)].
      - cbv beta. intros a s7 (V7 & Fr7 & ->). split; [reflexivity|]. split; [|exact (aid_ok_frame _ _ _ A6 Fr7)].
        rewrite V7, V6', I6', Hr2. cbn [bump map bump_entry]. apply one_entry_eq. unfold blen in *. rewrite !app_length. lia.
      - rewrite Hrcv, Hz3, Hbody, <- app_assoc. apply sp_prim_here. exact Hl3.
      - subst rcv. exact AVc.
      - exact W6.
      - rewrite I6', Hr2. reflexivity.
      - rewrite V6'. constructor; [cbn; unfold blen in *; rewrite !app_length; lia|constructor]. }
    cbv beta. intros s7 a W7 I7 (-> & V7 & A7). cbn [as_int].
    assert (Hne : rid <> pid) by lia.
    destruct (negb (rc =? rc_success T)) eqn:Erc.
    - (* failed: header only *)
      destruct r3 as [|x xs]; [|discriminate]. injection H as Hv' <-. rewrite Hv in Hv'. injection Hv' as <-. cbn [flat_map].
      apply (rsp_finish_sim rid _ total rest0 s7 W7 I7). rewrite V7. apply one_entry_eq. unfold blen. cbn. lia.
    - destruct (lookupZ cc (rsp_handles T)) as [hty|] eqn:Lh; [|discriminate].
      destruct (lookupZ cc (rsp_params T)) as [pty|] eqn:Lp; [|discriminate].
      destruct (sp_ty T hty (pchild pa "handles") None false r3) as [[hv r4]|] eqn:Eh; [|discriminate].
      pose proof (sp_ty_len T _ _ _ _ _ _ _ Eh) as L4.
      rewrite (dec_ty_plain T abort hty _ None enc (lookupZ_forallb plain_ty cc _ hty Lh Hplain)).
      destruct (tag =? st_sessions T) eqn:Etag.
      + (* parameterSize, parameters, sessions *)
        destruct (sp_prim (p_size32 T) (pchild pa "parameterSize") r4) as [[[psv psz] r5]|] eqn:Ep4; [|discriminate].
        destruct (split_at psz r5) as [[pregion aregion]|] eqn:Es2; [|discriminate].
        destruct (sp_ty T pty (pchild pa "parameters") None enc pregion) as [[pv [|x xs]]|] eqn:Epp; try discriminate.
        destruct (sp_until_empty _ _ _ _ _) as [sessions|] eqn:Eu; [|discriminate].
        destruct (Bool.eqb enc (sess_bit (sess_attr_field T) (mask_encrypt T) sessions)) eqn:Heq; [|discriminate].
        injection H as Hv' <-. rewrite Hv in Hv'. injection Hv' as <-.
        cbn [forallb] in AVm. apply andb_prop in AVm as [AVh AVm]. apply andb_prop in AVm as [AVps AVm].
        apply andb_prop in AVm as [AVpv AVm]. apply andb_prop in AVm as [AVss _]. cbn [ok_leaves] in AVss.
        destruct (sp_prim_some _ _ _ _ _ _ Ep4) as (h4 & Hr4 & Hl4 & Hw4 & Hz4 & Hpsv).
        destruct (split_at_some _ _ _ _ Es2) as (Hr5 & Hpl & Hpn0).
        assert (B4 : blen r4 = ws + blen r5) by (rewrite Hr4; unfold blen in *; rewrite app_length; lia).
        assert (B5 : blen r5 = psz + blen aregion) by (rewrite Hr5; unfold blen in *; rewrite app_length; lia).
        replace (flat_map items_of [hv; psv; pv; SNode (pchild pa "authorizationArea") (list_id (t_auth_rsp T)) sessions])
          with (items_of hv ++ items_of psv ++ [] ++ [] ++ (items_of pv ++ (INode (pchild pa "authorizationArea") (list_id (t_auth_rsp T)) :: flat_map items_of sessions)))
          by (cbn [flat_map items_of app]; rewrite ?app_nil_r, <- ?app_assoc; reflexivity).
        eapply run_try_field with (mid := r4 ++ rest0)
          (P := fun a s8 => view s8 = [(rid, Some total, total - blen r4)] /\ aid_ok pid s8).
        { eapply run_weaken; [|apply run_of_ok; apply (sim_ty_region T abort hty (pchild pa "handles") None false r3 hv r4 rest0 s7 Eh AVh W7 I7)].
          - cbv beta. intros a s8 (V8 & Fr8 & _). split; [|exact (aid_ok_frame _ _ _ A7 Fr8)].
            rewrite V8, V7, I7. cbn [bump map bump_entry]. apply one_entry_eq. unfold blen in *. rewrite !app_length. lia.
          - rewrite V7. constructor; [cbn; unfold blen in *; lia|constructor]. }
        cbv beta zeta. intros s8 hval W8 I8 (V8 & A8).
        eapply run_try_field with (mid := r5 ++ rest0)
          (P := fun a s9 => a = Some (VInt_ (pname (p_size32 T)) psz) /\ view s9 = [(rid, Some total, total - blen r5)] /\ aid_ok pid s9).
        { eapply run_weaken; [|apply run_of_ok; apply (sim_prim abort (p_size32 T) (pchild pa "parameterSize") (r4 ++ rest0) psv psz (r5 ++ rest0) s8)].
          - cbv beta. intros a s9 (V9 & Fr9 & ->). split; [reflexivity|]. split; [|exact (aid_ok_frame _ _ _ A8 Fr9)].
            rewrite V9, V8, I8. cbn [bump map bump_entry]. apply one_entry_eq. unfold blen in *. rewrite !app_length. lia.
          - rewrite Hpsv, Hz4, Hr4, <- app_assoc. apply sp_prim_here. exact Hl4.
          - subst psv. exact AVps.
          - exact W8.
          - exact I8.
          - rewrite V8. constructor; [cbn; unfold blen in *; rewrite !app_length; lia|constructor]. }
        cbv beta. intros s9 a W9 I9 (-> & V9 & A9). cbn [as_int].
        destruct A9 as (Al9 & An9 & Ag9).
        destruct (set_constraint_spec abort pid (pchild pa "parameterSize") psz s9 W9 Hpn0 Al9)
          as (s10 & E10 & I10 & L10 & V10 & W10 & Len10 & G10 & G10' & _).
        { rewrite V9. constructor; [right; cbn; unfold blen in *; lia|constructor]. }
        assert (V10' : view s10 = [(rid, Some total, total - blen r5)]).
        { rewrite V10, V9. cbn [map set_entry]. replace (Nat.eqb rid pid) with false by (symmetry; apply Nat.eqb_neq; exact Hne). reflexivity. }
        destruct (append_lst_spec pid s10 W10 ltac:(rewrite L10; exact An9) ltac:(lia) ltac:(rewrite G10, Ag9; reflexivity))
          as (s11 & E11 & I11 & St11 & V11 & W11 & _).
        assert (V11' : view s11 = [(rid, Some total, total - (psz + blen aregion)); (pid, Some psz, 0)]).
        { rewrite V11, V10'. unfold entry_of. rewrite G10, Ag9. cbn [sc_max sc_already sc_new app]. apply two_entry_eq; lia. }
        apply run_bind with (mid := r5 ++ rest0) (P := fun a' s'' => a' = tt /\ s'' = s10).
        { apply run_silent'; [exact E10|exact I9|congruence|exact W10]. }
        intros s10' u10 W10' I10' (-> & ->).
        apply run_bind with (mid := r5 ++ rest0) (P := fun a' s'' => a' = tt /\ s'' = s11).
        { apply run_silent'; [exact E11|congruence|congruence|exact W11]. }
        intros s11' u11 W11' I11' (-> & ->).
        apply (rsp_rest_sess_sim pa rid pid cc enc _ pty pv psz pregion aregion sessions rest0 total s11 Hne Lp Epp Eu Heq AVpv AVss Hpl W11).
        * rewrite I11', Hr5, <- app_assoc. reflexivity.
        * exact V11'.
      + (* parameters up to the end *)
        destruct enc; [discriminate|].
        destruct (sp_ty T pty (pchild pa "parameters") None false r4) as [[pv [|x xs]]|] eqn:Epp; try discriminate.
        injection H as Hv' <-. rewrite Hv in Hv'. injection Hv' as <-.
        cbn [forallb] in AVm. apply andb_prop in AVm as [AVh AVm]. apply andb_prop in AVm as [AVpv _].
        replace (flat_map items_of [hv; pv]) with (items_of hv ++ items_of pv) by (cbn [flat_map app]; rewrite app_nil_r; reflexivity).
        eapply run_try_field with (mid := r4 ++ rest0)
          (P := fun a s8 => view s8 = [(rid, Some total, total - blen r4)] /\ aid_ok pid s8).
        { eapply run_weaken; [|apply run_of_ok; apply (sim_ty_region T abort hty (pchild pa "handles") None false r3 hv r4 rest0 s7 Eh AVh W7 I7)].
          - cbv beta. intros a s8 (V8 & Fr8 & _). split; [|exact (aid_ok_frame _ _ _ A7 Fr8)].
            rewrite V8, V7, I7. cbn [bump map bump_entry]. apply one_entry_eq. unfold blen in *. rewrite !app_length. lia.
          - rewrite V7. constructor; [cbn; unfold blen in *; lia|constructor]. }
        cbv beta zeta. intros s8 hval W8 I8 (V8 & A8).
        apply (rsp_rest_plain_sim pa rid pid cc _ pty pv r4 rest0 total s8 Lp Epp AVpv W8 I8 V8).
  Qed.
End Rsp.
