(** C14: the pretty printer never fails on decoder output - part 4: lists and the induction over the layout
    descriptors. *)
From Coq Require Import ZArith List String Bool Lia.
From TV Require Import Layout.Types Base.Bytes Model.Monad Model.Constraints Model.Ints Model.Decoder Model.Message Model.Pretty
  Proofs.Sim3 Proofs.Sim4 Proofs.Safe1 Proofs.Warn1 Proofs.ObjEv Proofs.PrintSafe1 Proofs.PrintSafe2 Proofs.PrintSafe3.
Import ListNotations.
Open Scope string_scope.
Open Scope list_scope.
Open Scope Z_scope.

Lemma pindex_child pa n i : pindex (pchild pa n) i = pa ++ [mkNode n (Some i)].
Proof. unfold pindex, pchild. rewrite rev_app_distr. cbn [rev app]. rewrite rev_involutive. reflexivity. Qed.

(** elements [i], [i+1], ... of the list at [pa.n] *)
Definition ElemsFrom (pa : path) (n : string) (i : Z) : scope :=
  fun q => exists j, i <= j /\ Ext (pa ++ [mkNode n (Some j)]) q.
Definition BelowElemsFrom (pa : path) (n : string) (i : Z) : scope :=
  fun q => exists j, i <= j /\ Below (pa ++ [mkNode n (Some j)]) q.

Lemma ElemsFrom_Field pa n i : sub (ElemsFrom pa n i) (Field pa n).
Proof. intros q (j & _ & H). apply (Ext_index_Field pa n j q H). Qed.
Lemma BelowElemsFrom_Field pa n i : sub (BelowElemsFrom pa n i) (Field pa n).
Proof. intros q (j & _ & H). apply (Ext_index_Field pa n j q), Below_Ext, H. Qed.

Section Lists.
  Variable ps : list prim.
  Variable abort : bool.

  Lemma GM_bind_dep {A B} Cv Cx (m : M A) (f : A -> M B) :
    (forall s tr1 s1 o1, m s = (tr1, s1, o1) ->
       match o1 with
       | Ok a => exists Av Ax Bv Bx, sub Av Cv /\ sub Bv Cv /\ sub Ax Cx /\ sub Bx Cx /\ sep Ax Bv /\ G Av Ax (toks ps tr1) /\ GM ps Bv Bx (f a)
       | _ => G Cv Cx (toks ps tr1)
       end) -> GM ps Cv Cx (bind m f).
  Proof.
    intros H s tr s' o E. destruct (bind_inv' _ _ _ _ _ _ _ _ E) as (tr1 & s1 & o1 & E1 & R). specialize (H _ _ _ _ E1).
    destruct o1 as [a|e| |k|].
    - destruct R as (tr2 & E2 & ->). destruct H as (Av & Ax & Bv & Bx & HA & HB & HAx & HBx & Hs & G1 & Hf).
      rewrite toks_app. apply (G_seq Av Ax Bv Bx Cv Cx _ _ HA HB HAx HBx Hs G1 (Hf _ _ _ _ E2)).
    - destruct R as (_ & _ & ->). exact H.
    - destruct R as (_ & _ & ->). exact H.
    - destruct R as (_ & _ & ->). exact H.
    - destruct R as (_ & _ & ->). exact H.
  Qed.

  Lemma sep_elem_rest pa n i : sep (Below (pa ++ [mkNode n (Some i)])) (ElemsFrom pa n (i + 1)).
  Proof. intros pl q Hp (j & Hj & Hq). apply (sep_elems pa n i j); [lia|exact Hp|exact Hq]. Qed.

  (** one step of a list loop: the next element, or (a size-governed list that is used up) nothing *)
  Definition lstep pa n (body : path -> M (option value)) (guard : Z * list (option value) -> M bool) (st_ : Z * list (option value)) :=
    bind (guard st_) (fun go => if go : bool then bind (body (pindex (pchild pa n) (fst st_))) (fun v => ret (fst st_ + 1, v :: snd st_)) else ret st_).

  Lemma lstep_cases pa n body guard i acc :
    GM ps (Ext (pa ++ [mkNode n (Some i)])) (Below (pa ++ [mkNode n (Some i)])) (body (pa ++ [mkNode n (Some i)])) ->
    silent ps (guard (i, acc)) ->
    forall s tr1 s1 o1, lstep pa n body guard (i, acc) s = (tr1, s1, o1) ->
      match o1 with
      | Ok a => (fst a = i + 1 /\ G (Ext (pa ++ [mkNode n (Some i)])) (Below (pa ++ [mkNode n (Some i)])) (toks ps tr1)) \/
                (a = (i, acc) /\ Forall isw (toks ps tr1))
      | _ => G (Ext (pa ++ [mkNode n (Some i)])) (Below (pa ++ [mkNode n (Some i)])) (toks ps tr1)
      end.
  Proof.
    intros Hb Hg s tr1 s1 o1 E. unfold lstep in E. destruct (bind_inv' _ _ _ _ _ _ _ _ E) as (trg & sg & og & Eg & R).
    pose proof (Hg _ _ _ _ Eg) as Wg.
    destruct og as [go|e| |k|]; try (destruct R as (-> & _ & ->); apply G_warnings, Wg).
    destruct R as (tr2 & E2 & ->). rewrite toks_app. destruct go.
    - cbn [fst snd] in E2. rewrite pindex_child in E2.
      destruct (bind_inv' _ _ _ _ _ _ _ _ E2) as (trb & sb & ob & Eb & Rb). pose proof (Hb _ _ _ _ Eb) as Gb.
      assert (Gall : G (Ext (pa ++ [mkNode n (Some i)])) (Below (pa ++ [mkNode n (Some i)])) (toks ps trg ++ toks ps trb)).
      { apply (G_seq none none _ _ _ _ _ _ (sub_none _) (sub_refl _) (sub_none _) (sub_refl _) (sep_none _) (G_warnings _ _ _ Wg) Gb). }
      destruct ob as [v|e| |k|]; try (destruct Rb as (-> & _ & ->); exact Gall).
      destruct Rb as (tr3 & E3 & ->). injection E3 as <- _ <-. rewrite app_nil_r. left. split; [reflexivity|exact Gall].
    - injection E2 as <- _ <-. rewrite app_nil_r. right. split; [reflexivity|exact Wg].
  Qed.

  Lemma GM_elems pa n body guard :
    (forall j, GM ps (Ext (pa ++ [mkNode n (Some j)])) (Below (pa ++ [mkNode n (Some j)])) (body (pa ++ [mkNode n (Some j)]))) ->
    (forall x, silent ps (guard x)) ->
    forall k i acc, GM ps (ElemsFrom pa n i) (BelowElemsFrom pa n i) (iter k (lstep pa n body guard) (i, acc)).
  Proof.
    intros Hb Hg. induction k as [|k IH]; intros i acc; cbn [iter]; [apply GM_ret|].
    apply GM_bind_dep. intros s tr1 s1 o1 E1. pose proof (lstep_cases pa n body guard i acc (Hb i) (Hg (i, acc)) s tr1 s1 o1 E1) as C.
    assert (Hsub1 : sub (Ext (pa ++ [mkNode n (Some i)])) (ElemsFrom pa n i)) by (intros q H; exists i; split; [lia|exact H]).
    assert (Hsub2 : sub (Below (pa ++ [mkNode n (Some i)])) (BelowElemsFrom pa n i)) by (intros q H; exists i; split; [lia|exact H]).
    destruct o1 as [[i' acc']|e| |kk|]; try (apply (G_weaken _ _ _ _ _ Hsub1 Hsub2 C)).
    destruct C as [[Hi C]|[Ha C]].
    - cbn [fst] in Hi. subst i'.
      exists (Ext (pa ++ [mkNode n (Some i)])), (Below (pa ++ [mkNode n (Some i)])), (ElemsFrom pa n (i + 1)), (BelowElemsFrom pa n (i + 1)).
      split; [exact Hsub1|]. split; [intros q (j & Hj & H); exists j; split; [lia|exact H]|]. split; [exact Hsub2|].
      split; [intros q (j & Hj & H); exists j; split; [lia|exact H]|]. split; [apply sep_elem_rest|]. split; [exact C|apply IH].
    - injection Ha as -> ->. exists none, none, (ElemsFrom pa n i), (BelowElemsFrom pa n i).
      split; [apply sub_none|]. split; [apply sub_refl|]. split; [apply sub_none|]. split; [apply sub_refl|]. split; [apply sep_none|].
      split; [apply G_warnings, C|apply IH].
  Qed.

  Lemma GM_elems_repZ pa n body guard :
    (forall j, GM ps (Ext (pa ++ [mkNode n (Some j)])) (Below (pa ++ [mkNode n (Some j)])) (body (pa ++ [mkNode n (Some j)]))) ->
    (forall x, silent ps (guard x)) ->
    forall count, GM ps (ElemsFrom pa n 0) (BelowElemsFrom pa n 0) (repZ count (lstep pa n body guard) (0, [])).
  Proof.
    intros Hb Hg count. destruct count as [|p|p]; cbn [repZ]; [apply GM_ret| |apply GM_ret].
    eapply GM_eq; [apply rep_iter|]. apply GM_elems; assumption.
  Qed.

  (** ---- [dec_array] *)
  Definition always (_ : Z * list (option value)) : M bool := ret true.

  Lemma array_step_eq pa n body x :
    meq (bind (body (pindex (pchild pa n) (fst x))) (fun v => ret (fst x + 1, v :: snd x))) (lstep pa n body always x).
  Proof. intros s. unfold lstep, always, bind at 2, ret at 2. cbn [app]. destruct (bind _ _ s) as [[tr s1] o]. reflexivity. Qed.

  Lemma rep_cong {A} (f g : A -> M A) : (forall x, meq (f x) (g x)) -> forall p x, meq (rep p f x) (rep p g x).
  Proof.
    intros H p. induction p as [q IH|q IH|]; intros x; cbn [rep].
    - apply bind_cong; [apply H|]. intros y. apply bind_cong; [apply IH|]. intros z. apply IH.
    - apply bind_cong; [apply IH|]. intros y. apply IH.
    - apply H.
  Qed.

  Lemma GM_array_other lid pa n count body : byte_list lid = false ->
    (forall j, GM ps (Ext (pa ++ [mkNode n (Some j)])) (Below (pa ++ [mkNode n (Some j)])) (body (pa ++ [mkNode n (Some j)]))) ->
    GM ps (Field pa n) (Field pa n) (dec_array lid (pchild pa n) count body).
  Proof.
    intros Hl Hb. unfold dec_array.
    apply (GM_bind ps (only (pchild pa n)) none (ElemsFrom pa n 0) (BelowElemsFrom pa n 0)).
    - intros q ->. exists None, []. reflexivity.
    - apply ElemsFrom_Field.
    - apply sub_none.
    - apply BelowElemsFrom_Field.
    - apply sep_none.
    - apply GM_sev, Hl.
    - intros _. apply GM_post; [|intros r; apply AllT_ret].
      destruct count as [|p|p]; cbn [repZ]; [apply GM_ret| |apply GM_ret].
      eapply GM_eq; [apply (rep_cong _ _ (array_step_eq pa n body))|].
      eapply GM_eq; [apply rep_iter|]. apply GM_elems; [exact Hb|]. intros x. apply AllT_ret.
  Qed.

  Lemma GM_array_bytes en pa n count p : String.eqb en "BYTE" = true -> find_prim ps (pname p) <> None ->
    GM ps (Field pa n) (Field pa n) (dec_array (TyList en) (pchild pa n) count (dec_prim abort p)).
  Proof.
    intros Hen Hf s tr s' o E. unfold dec_array in E.
    destruct (bind_inv' _ _ _ _ _ _ _ _ E) as (tr1 & s1 & o1 & E1 & R). injection E1 as <- <- <-. destruct R as (tr2 & E2 & ->).
    assert (Hrest : Forall (buffer_elem (pa ++ [mkNode n None])) (toks ps tr2)).
    { revert E2. apply (AllT_bind ps (buffer_elem (pa ++ [mkNode n None]))).
      - apply AllT_repZ. intros x. apply AllT_bind; [rewrite pindex_child; apply prim_buffer_elem, Hf|].
        intros v. apply AllT_ret.
      - intros r. apply AllT_ret. }
    cbn [app]. unfold toks at 1. cbn [map to_pev sev ety evalue epath]. rewrite Hen. cbn [tok_of]. fold (toks ps tr2).
    eapply G_weaken; [apply sub_refl| |apply (G_buffer pa n _ Hrest)].
    intros q ->. exists None, []. reflexivity.
  Qed.
End Lists.

(** ---- the induction over the layout descriptors *)
Section Types.
  Variable T : tables.
  Variable ps : list prim.
  Variable abort : bool.

  (** the table condition: the elements of a list[BYTE] are primitives the printers know *)
  Definition elem_ok (e : ty) : bool :=
    if String.eqb (ty_name e) "BYTE"
    then match e with TPrim p => match find_prim ps (pname p) with Some _ => true | None => false end | _ => false end
    else true.

  Fixpoint pok_ty (t : ty) : bool :=
    match t with
    | TPrim _ => true
    | TStruct _ _ fs => nodupb (field_names fs) && pok_fields fs
    | TTpm2bList _ _ _ _ e => elem_ok e && pok_ty e
    | TTpm2bStruct _ _ _ _ i => pok_ty i
    | TUnion _ ar => pok_arms ar
    end
  with pok_fields (fs : fields) : bool :=
    match fs with
    | FNil => true
    | FPlain _ t r => pok_ty t && pok_fields r
    | FList _ e r => elem_ok e && pok_ty e && pok_fields r
    | FUnion _ _ u r => pok_ty u && pok_fields r
    end
  with pok_arms (ar : arms) : bool :=
    match ar with
    | ANil => true
    | ACons _ _ p r => match p with PNone => true | PTy t => pok_ty t | Types.PList e _ => elem_ok e && pok_ty e end && pok_arms r
    end.

  Definition enc_ok : bool :=
    match t_enc_param T with
    | TTpm2bList _ _ _ _ (TPrim ep) => if String.eqb (pname ep) "BYTE" then match find_prim ps (pname ep) with Some _ => true | None => false end else true
    | _ => true
    end.
  Hypothesis Henc : enc_ok = true.

  Lemma sub_child_below pa n : sub (only (pchild pa n)) (Below pa).
  Proof. intros q ->. exists (mkNode n None), []. reflexivity. Qed.
  Lemma Ext_child_below pa n : sub (Ext (pchild pa n)) (Below pa).
  Proof. apply (sub_trans _ _ _ (Ext_child_Field pa n) (Field_Below pa n)). Qed.
  Lemma Below_child_below pa n : sub (Below (pchild pa n)) (Below pa).
  Proof. apply (sub_trans _ _ _ (Below_Ext _) (Ext_child_below pa n)). Qed.

  Lemma GM_array_ty e pa n count : elem_ok e = true ->
    (forall q, GM ps (Ext q) (Below q) (dec_ty T abort e q None false)) ->
    GM ps (Field pa n) (Field pa n) (dec_array (list_id e) (pchild pa n) count (fun p => dec_ty T abort e p None false)).
  Proof.
    intros He Hb. unfold elem_ok in He. destruct (String.eqb (ty_name e) "BYTE") eqn:Eb.
    - destruct e as [p| | | |]; try discriminate. destruct (find_prim ps (pname p)) eqn:Ef; [|discriminate].
      change (fun p0 => dec_ty T abort (TPrim p) p0 None false) with (dec_prim abort p).
      apply (GM_array_bytes ps abort (pname p) pa n count p Eb). rewrite Ef. discriminate.
    - apply GM_array_other; [exact Eb|]. intros j. apply Hb.
  Qed.

  Lemma GM_tpm2b_list name szf buf szp lid body pa :
    (forall count, GM ps (Field pa buf) (Field pa buf) (dec_array lid (pchild pa buf) count body)) ->
    GM ps (Ext pa) (Below pa) (dec_tpm2b_list abort name szf buf szp lid body pa).
  Proof.
    intros Ha. unfold dec_tpm2b_list.
    apply (GM_bind ps (only pa) none (Below pa) (Below pa)); [apply only_Ext|apply Below_Ext|apply sub_none|apply sub_refl|apply sep_none|apply GM_sev; reflexivity|].
    intros _. cbv zeta.
    apply (GM_bind ps (only (pchild pa szf)) none (Below pa) (Below pa)); [apply sub_child_below|apply sub_refl|apply sub_none|apply sub_refl|apply sep_none|apply GM_prim|].
    intros szv. apply GM_pre; [apply s_new_sc|]. intros cid. apply GM_pre; [apply s_set_constraint|]. intros _.
    apply GM_pre; [apply s_append_lst|]. intros _.
    apply GM_post; [apply (GM_weaken ps _ _ _ _ _ (Field_Below pa buf) (Field_Below pa buf)), Ha|].
    intros bv. apply AllT_bind; [apply s_assert_done|]. intros _. apply AllT_ret.
  Qed.

  Lemma GM_enc_param pa : GM ps (Ext pa) (Below pa) (dec_enc_param T abort pa).
  Proof.
    unfold dec_enc_param. unfold enc_ok in Henc.
    destruct (t_enc_param T) as [| |name szf buf szp [ep| | | |]| |]; try (apply GM_silent, s_internal).
    apply GM_tpm2b_list. intros count. destruct (String.eqb (pname ep) "BYTE") eqn:Eb.
    - destruct (find_prim ps (pname ep)) eqn:Ef; [|discriminate]. apply (GM_array_bytes ps abort (pname ep) pa buf count ep Eb). rewrite Ef. discriminate.
    - apply GM_array_other; [exact Eb|]. intros j. apply (GM_weaken ps _ _ _ _ _ (only_Ext _) (sub_none _)), GM_prim.
  Qed.

  Definition PT (t : ty) : Prop := pok_ty t = true -> forall pa sel enc, GM ps (Ext pa) (Below pa) (dec_ty T abort t pa sel enc).
  Definition PF1 (fs : fields) : Prop := pok_fields fs = true -> NoDup (field_names fs) ->
    forall pa rvals, GM ps (Fields pa (field_names fs)) (Fields pa (field_names fs)) (dec_fields T abort fs pa rvals).
  Definition PF (fs : fields) : Prop := PF1 fs /\ match fs with FPlain _ _ r => PF1 r | _ => True end.
  Definition PA (ar : arms) : Prop := pok_arms ar = true -> forall uname pa target, GM ps (Below pa) (Below pa) (dec_arms T abort ar uname pa target).
  Definition PAp (p : armp) : Prop := match p with PNone => True | PTy t => PT t | Types.PList e _ => PT e end.

  Lemma field_then_rest {A B} pa n ns (m : M A) (f : A -> M B) Av Ax : ~ In n ns ->
    sub Av (Field pa n) -> sub Ax (Field pa n) -> GM ps Av Ax m -> (forall a, GM ps (Fields pa ns) (Fields pa ns) (f a)) ->
    GM ps (Fields pa (n :: ns)) (Fields pa (n :: ns)) (bind m f).
  Proof.
    intros Hn HA HAx Hm Hf.
    apply (GM_bind ps Av Ax (Fields pa ns) (Fields pa ns)); [| | | | |exact Hm|exact Hf].
    - apply (sub_trans _ _ _ HA), Field_Fields. left. reflexivity.
    - apply Fields_mono. intros k Hk. right. exact Hk.
    - apply (sub_trans _ _ _ HAx), Field_Fields. left. reflexivity.
    - apply Fields_mono. intros k Hk. right. exact Hk.
    - apply (sep_sub _ _ _ _ HAx (sub_refl _) (sep_Field_Fields pa n ns Hn)).
  Qed.

  Theorem printsafe_all : (forall t, PT t) /\ (forall fs, PF fs) /\ (forall ar, PA ar) /\ (forall p, PAp p).
  Proof.
    apply ty_mutind.
    - (* TPrim *) intros p _ pa sel enc. cbn [dec_ty]. apply (GM_weaken ps _ _ _ _ _ (only_Ext _) (sub_none _)), GM_prim.
    - (* TStruct *)
      intros name isp fs [IH IHt] Hp pa sel enc. cbn [pok_ty] in Hp. apply andb_prop in Hp as [Hd Hp]. apply nodupb_NoDup in Hd.
      rewrite dec_ty_struct. cbv zeta.
      apply (GM_bind ps (only pa) none (Below pa) (Below pa)); [apply only_Ext|apply Below_Ext|apply sub_none|apply sub_refl|apply sep_none| |].
      { apply GM_sev. destruct (_ && _ && _); reflexivity. }
      intros _. apply GM_post; [|intros vals; apply AllT_ret].
      apply (GM_weaken ps _ _ _ _ _ (Fields_Below pa (field_names fs)) (Fields_Below pa (field_names fs))).
      destruct (enc && isp && first_is_tpm2b fs); [|apply (IH Hp Hd)].
      destruct fs as [|n t r|n e r|n sl u r]; try apply (IH Hp Hd).
      cbn [pok_fields field_names] in *. apply andb_prop in Hp as [_ Hpr]. inversion Hd as [|? ? Hni Hdr]; subst.
      apply (field_then_rest pa n (field_names r) _ _ (Ext (pchild pa n)) (Below (pchild pa n)) Hni);
        [apply Ext_child_Field|apply (sub_trans _ _ _ (Below_Ext _) (Ext_child_Field pa n))|apply GM_enc_param|].
      intros v. apply (IHt Hpr Hdr).
    - (* TTpm2bList *)
      intros name szf buf szp e IH Hp pa sel enc. cbn [pok_ty] in Hp. apply andb_prop in Hp as [He Hp].
      rewrite dec_ty_tpm2b_list. apply GM_tpm2b_list. intros count. apply (GM_array_ty e pa buf count He). intros q. apply (IH Hp).
    - (* TTpm2bStruct *)
      intros name szf buf szp inner IH Hp pa sel enc. cbn [pok_ty] in Hp. rewrite dec_ty_tpm2b_struct. cbv zeta.
      apply (GM_bind ps (only pa) none (Below pa) (Below pa)); [apply only_Ext|apply Below_Ext|apply sub_none|apply sub_refl|apply sep_none|apply GM_sev; reflexivity|].
      intros _.
      apply (GM_bind ps (only (pchild pa szf)) none (Below pa) (Below pa)); [apply sub_child_below|apply sub_refl|apply sub_none|apply sub_refl|apply sep_none|apply GM_prim|].
      intros szv. apply GM_pre; [apply s_new_sc|]. intros cid. apply GM_pre; [apply s_set_constraint|]. intros _.
      apply GM_pre; [apply s_append_lst|]. intros _.
      destruct (_ =? 0).
      + apply GM_post; [apply (GM_weaken ps _ _ _ _ _ (sub_child_below pa buf) (sub_none _)), GM_sev; reflexivity|].
        intros _. apply AllT_bind; [apply s_assert_done|]. intros _. apply AllT_ret.
      + apply GM_catch; [|apply AllT_ret].
        apply GM_post; [apply (GM_weaken ps _ _ _ _ _ (Ext_child_below pa buf) (Below_child_below pa buf)), (IH Hp)|].
        intros bv. apply AllT_bind; [apply s_assert_done|]. intros _. apply AllT_ret.
    - (* TUnion *)
      intros name ar IH Hp pa sel enc. cbn [pok_ty] in Hp. rewrite dec_ty_union.
      apply (GM_bind ps (only pa) none (Below pa) (Below pa)); [apply only_Ext|apply Below_Ext|apply sub_none|apply sub_refl|apply sep_none|apply GM_sev; reflexivity|].
      intros _. destruct (select_arm ar sel) as [[n ?]|]; [apply (IH Hp)|].
      destruct sel as [[tn z]|]; [apply GM_silent, s_fail|apply GM_silent, s_internal].
    - (* FNil *) split; [|exact Logic.I]. intros _ _ pa rvals. cbn [dec_fields]. apply GM_ret.
    - (* FPlain *)
      intros n t IHt r [IHr _]. split; [|exact IHr]. intros Hp Hd pa rvals. cbn [pok_fields field_names] in *.
      apply andb_prop in Hp as [Hpt Hpr]. inversion Hd as [|? ? Hni Hdr]; subst. rewrite dec_fields_plain.
      apply (field_then_rest pa n (field_names r) _ _ (Ext (pchild pa n)) (Below (pchild pa n)) Hni);
        [apply Ext_child_Field|apply (sub_trans _ _ _ (Below_Ext _) (Ext_child_Field pa n))|apply (IHt Hpt)|].
      intros v. apply (IHr Hpr Hdr).
    - (* FList *)
      intros n e IHe r [IHr _]. split; [|exact Logic.I]. intros Hp Hd pa rvals. cbn [pok_fields field_names] in *.
      apply andb_prop in Hp as [Hp Hpr]. apply andb_prop in Hp as [Heo Hpe]. inversion Hd as [|? ? Hni Hdr]; subst. rewrite dec_fields_list.
      destruct (last_nonlist rvals) as [cv|]; [|apply GM_silent, s_internal]. destruct (as_int cv) as [count|]; [|apply GM_silent, s_internal].
      apply (field_then_rest pa n (field_names r) _ _ (Field pa n) (Field pa n) Hni); [apply sub_refl|apply sub_refl| |].
      + apply (GM_array_ty e pa n count Heo). intros q. apply (IHe Hpe).
      + intros v. apply (IHr Hpr Hdr).
    - (* FUnion *)
      intros n sl u IHu r [IHr _]. split; [|exact Logic.I]. intros Hp Hd pa rvals. cbn [pok_fields field_names] in *.
      apply andb_prop in Hp as [Hpu Hpr]. inversion Hd as [|? ? Hni Hdr]; subst. rewrite dec_fields_union.
      destruct (lookupS sl rvals) as [sv|]; [|apply GM_silent, s_internal]. destruct (as_typed_int sv) as [tz|]; [|apply GM_silent, s_internal].
      apply (field_then_rest pa n (field_names r) _ _ (Ext (pchild pa n)) (Below (pchild pa n)) Hni);
        [apply Ext_child_Field|apply (sub_trans _ _ _ (Below_Ext _) (Ext_child_Field pa n))|apply (IHu Hpu)|].
      intros v. apply (IHr Hpr Hdr).
    - (* ANil *) intros _ uname pa target. cbn [dec_arms]. apply GM_silent, s_internal.
    - (* ACons *)
      intros n k p IHp r IHr Hp uname pa target. cbn [pok_arms] in Hp. apply andb_prop in Hp as [Hpp Hpr]. cbn [dec_arms].
      destruct (String.eqb n target); [|apply (IHr Hpr)].
      destruct p as [|t|e [cnt|]]; cbn [PAp] in IHp.
      + apply GM_ret.
      + apply GM_post; [apply (GM_weaken ps _ _ _ _ _ (Ext_child_below pa n) (Below_child_below pa n)), (IHp Hpp)|]. intros v. apply AllT_ret.
      + apply andb_prop in Hpp as [Heo Hpe].
        apply GM_post; [apply (GM_weaken ps _ _ _ _ _ (Field_Below pa n) (Field_Below pa n)), (GM_array_ty e pa n cnt Heo); intros q; apply (IHp Hpe)|].
        intros v. apply AllT_ret.
      + apply GM_silent, s_internal.
    - exact Logic.I.
    - intros t IH. exact IH.
    - intros e IH n. exact IH.
  Qed.
End Types.
