(** C02 for the stream root: an accepted stream is tiled by its events. *)
From Coq Require Import ZArith List String Bool Lia.
From TV Require Import Layout.Types Base.Bytes Model.Monad Model.Constraints Model.Ints Model.Decoder Model.Message
  Model.Pump Proofs.Closure Proofs.LowClosure Proofs.Account Proofs.OpLemmas Proofs.Tiling Proofs.PumpProofs Proofs.Sim11 Proofs.Safe1 Proofs.Warn1 Proofs.WTiling.
Import ListNotations.
Open Scope list_scope.
Open Scope Z_scope.

(** ---- C02 for the stream root: an accepted stream is tiled by its events *)
Lemma reads_then_split (bs : list Z) (X : action) (T0 a : list action) e b :
  map Rd bs ++ X :: T0 = a ++ Ev e :: b ->
  (a = map Rd bs /\ X = Ev e /\ T0 = b) \/ (exists a', a = map Rd bs ++ X :: a' /\ T0 = a' ++ Ev e :: b).
Proof.
  revert a. induction bs as [|x bs IH]; intros a H; cbn [map app] in H.
  - destruct a as [|y a']; cbn [app] in H.
    + injection H as -> ->. left. repeat split.
    + injection H as -> H. right. exists a'. split; [reflexivity|exact H].
  - destruct a as [|y a']; cbn [app] in H; [discriminate|]. injection H as <- H.
    destruct (IH a' H) as [(-> & -> & ->)|(a'' & -> & ->)]; [left; repeat split|right; exists a''; split; reflexivity].
Qed.

Lemma reads_split_inside (bs : list Z) (T0 a : list action) e b : map Rd bs ++ T0 = a ++ Ev e :: b -> exists a', a = map Rd bs ++ a' /\ T0 = a' ++ Ev e :: b.
Proof.
  revert a. induction bs as [|x bs IH]; intros a H; cbn [map app] in H; [exists a; split; [reflexivity|exact H]|].
  destruct a as [|y a']; cbn [app] in H; [discriminate|]. injection H as <- H. destruct (IH a' H) as (a'' & -> & ->). exists a''. split; reflexivity.
Qed.

Lemma wt_cut tr : wt tr -> forall a e b, tr = a ++ Ev e :: b -> evalue e = None -> wt a.
Proof.
  induction 1 as [|pa t tr H IH|p pa bs tr L H IH|e0 tr He H IH|bs c v b0 tr Ht H IH|bs c tr Ht H IH]; intros a e b E Hn.
  - destruct a; discriminate.
  - destruct a as [|y a']; cbn [app] in E; [constructor|]. injection E as <- E. apply w_struct. apply (IH _ _ _ E Hn).
  - destruct (reads_then_split _ _ _ _ _ _ E) as [(_ & Hx & _)|(a' & -> & E')].
    + injection Hx as <-. discriminate.
    + apply w_prim; [exact L|]. apply (IH _ _ _ E' Hn).
  - destruct a as [|y a']; cbn [app] in E; [discriminate|]. injection E as <- E. apply w_note; [exact He|]. apply (IH _ _ _ E Hn).
  - destruct (reads_then_split _ _ _ _ _ _ E) as [(_ & Hx & _)|(a' & -> & E')]; [discriminate|].
    apply w_over; [exact Ht|]. apply (IH _ _ _ E' Hn).
  - destruct a as [|y a']; cbn [app] in E; [discriminate|]. injection E as <- E.
    destruct (reads_split_inside _ _ _ _ _ E) as (a'' & -> & E'). apply w_short; [exact Ht|]. apply (IH _ _ _ E' Hn).
Qed.

Lemma partial_cut tr : partial tr -> forall a e b, tr = a ++ Ev e :: b -> evalue e = None -> wt a.
Proof.
  intros (pre & mid & bs & -> & Hp & Hmid) a e b E Hn.
  (* the event lies in [pre]: neither the Subceeded warning nor the trailing reads are events *)
  assert (Hin : exists b', pre = a ++ Ev e :: b').
  { clear Hp. revert a E. induction pre as [|x pre IH]; intros a E; cbn [app] in E.
    - exfalso. destruct Hmid as [->|(c & ->)]; cbn [app] in E.
      + clear - E. revert a E. induction bs as [|y bs IH]; intros a E; cbn [map] in E; [destruct a; discriminate|].
        destruct a as [|z a']; cbn [app] in E; [discriminate|]. injection E as _ E. apply (IH _ E).
      + destruct a as [|z a']; cbn [app] in E; [discriminate|]. injection E as _ E.
        clear - E. revert a' E. induction bs as [|y bs IH]; intros a E; cbn [map] in E; [destruct a; discriminate|].
        destruct a as [|z a']; cbn [app] in E; [discriminate|]. injection E as _ E. apply (IH _ E).
    - destruct a as [|y a']; cbn [app] in E.
      + injection E as -> E. exists pre. reflexivity.
      + injection E as <- E. destruct (IH _ E) as (b' & ->). exists b'. reflexivity. }
  destruct Hin as (b' & ->). apply (wt_cut _ Hp _ _ _ eq_refl Hn).
Qed.

Lemma wt_tiled tr : wt tr -> existsb is_size_warning tr = false -> exists cs, tiled tr cs.
Proof.
  induction 1 as [|pa t tr H IH|p pa bs tr L H IH|e0 tr He H IH|bs c v b0 tr Ht H IH|bs c tr Ht H IH]; intros NW.
  - exists []. constructor.
  - cbn [existsb is_size_warning orb] in NW. destruct (IH NW) as (cs & Hc). eexists. apply t_struct. exact Hc.
  - rewrite existsb_app in NW. apply orb_false_elim in NW as [_ NW]. cbn [existsb is_size_warning orb] in NW.
    destruct (IH NW) as (cs & Hc). eexists. apply t_prim; [exact L|exact Hc].
  - cbn [existsb] in NW. apply orb_false_elim in NW as [N1 NW]. destruct e0; cbn [is_size_warning] in N1; try discriminate.
    destruct (IH NW) as (cs & Hc). eexists. apply t_vwarn. exact Hc.
  - rewrite existsb_app in NW. apply orb_false_elim in NW as [_ NW]. cbn [existsb is_size_warning orb] in NW. discriminate.
  - cbn [existsb is_size_warning orb] in NW. discriminate.
Qed.

(** where the pump stops silently in stream mode *)
Lemma pump_go_stopped len tr : forall ps ps', pump_go true len tr ps = (ps', true) ->
  exists tr0 e rest, tr = tr0 ++ Ev e :: rest /\ is_root_event e = true /\ len <= ps_nrd ps + Z.of_nat (List.length (bytes_of tr0)) /\
                     map fst (rev (ps_out ps')) = map fst (rev (ps_out ps)) ++ filter not_rd tr0.
Proof.
  induction tr as [|a tr IH]; intros ps ps' H; cbn [pump_go] in H; [discriminate|].
  destruct a as [b|e|w].
  - destruct (IH _ _ H) as (tr0 & e & rest & -> & He & Hl & Ho). exists (Rd b :: tr0), e, rest.
    split; [reflexivity|]. split; [exact He|]. cbn [bytes_of List.length ps_nrd ps_out filter not_rd] in *. split; [lia|exact Ho].
  - cbn [andb] in H. destruct ((len <=? ps_nrd ps) && is_root_event e) eqn:Es.
    + injection H as <-. apply andb_prop in Es as [E1 E2]. exists [], e, tr. split; [reflexivity|]. split; [exact E2|].
      cbn [bytes_of List.length ps_out filter app]. rewrite app_nil_r. split; [lia|reflexivity].
    + destruct (IH _ _ H) as (tr0 & e' & rest & -> & He & Hl & Ho). exists (Ev e :: tr0), e', rest.
      split; [reflexivity|]. split; [exact He|]. cbn [bytes_of ps_nrd ps_out filter not_rd rev map] in *. split; [exact Hl|].
      rewrite Ho, map_app. cbn [map fst]. rewrite <- app_assoc. reflexivity.
  - destruct (IH _ _ H) as (tr0 & e' & rest & -> & He & Hl & Ho). exists (Wn w :: tr0), e', rest.
    split; [reflexivity|]. split; [exact He|]. cbn [bytes_of ps_nrd ps_out filter not_rd rev map] in *. split; [exact Hl|].
    rewrite Ho, map_app. cbn [map fst]. rewrite <- app_assoc. reflexivity.
Qed.

Lemma filter_size_warning tr : existsb is_size_warning (filter not_rd tr) = existsb is_size_warning tr.
Proof. induction tr as [|[b|e|w] tr IH]; cbn [filter not_rd existsb is_size_warning orb]; rewrite ?IH; reflexivity. Qed.

(** a stream run never completes: the loop only ends at its bound *)
Lemma dec_root_stream_g T abort s : dec_root T abort RStream s = bind (dec_stream T abort root_path) (fun _ => ret (@None value)) s.
Proof. reflexivity. Qed.
Lemma dec_stream_fold_g T abort s : dec_stream T abort root_path s = bind (rep stream_bound (Sim11.sbody T abort) tt) (fun _ => @fuel_ unit) s.
Proof. reflexivity. Qed.

Lemma stream_never_completes T abort s tr s' a : dec_root T abort RStream s = (tr, s', Ok a) -> False.
Proof.
  intros E. rewrite dec_root_stream_g in E. destruct (bind_inv' _ _ _ _ _ _ _ _ E) as (t1 & x1 & o1 & X1 & R1).
  destruct o1 as [u|e1| |k1|]; try (destruct R1 as (R1 & _); discriminate).
  rewrite dec_stream_fold_g in X1. destruct (bind_inv' _ _ _ _ _ _ _ _ X1) as (t2 & x2 & o2 & X2 & R2).
  destruct o2 as [u2|e2| |k2|]; try (destruct R2 as (R2 & _); discriminate). destruct R2 as (t3 & E3 & _). discriminate.
Qed.

Lemma decode_stream_unfold T abort input : decode T abort RStream input = pump abort true input (dec_root T abort RStream (init_st input)).
Proof. reflexivity. Qed.

(** C02, stream root: an accepted stream whose reported problems are value warnings only is the concatenation of the
    per-event chunks of the part of the trace before the message root at which it ended; the emitted events are
    exactly that part's events *)
Theorem accepted_stream_is_tiled T abort input evs :
  decode T abort RStream input = (evs, OAccepted) ->
  existsb is_size_warning (map fst evs) = false ->
  exists tr0 cs, tiled tr0 cs /\ List.concat cs = input /\ map fst evs = filter not_rd tr0 /\
                 exists e rest, fst (fst (dec_root T abort RStream (init_st input))) = tr0 ++ Ev e :: rest /\ is_root_event e = true.
Proof.
  intros H NW. rewrite decode_stream_unfold in H.
  destruct (dec_root T abort RStream (init_st input)) as [[tr s'] o] eqn:E. unfold pump in H.
  pose proof (accounts_dec_root T abort RStream _ _ _ _ E) as A. cbn [init_st inp] in A.
  pose proof (wtiles_dec_root T abort RStream _ _ _ _ E) as Hw.
  destruct (pump_go true (Z.of_nat (List.length input)) tr (mkP 0 None [])) as [ps stopped] eqn:G.
  destruct stopped.
  - injection H as <-.
    destruct (pump_go_stopped _ _ _ _ G) as (tr0 & e & rest & -> & He & Hl & Ho). cbn [ps_nrd ps_out rev map app] in Hl, Ho.
    assert (Hn : evalue e = None).
    { unfold is_root_event in He. apply andb_prop in He as [_ He']. destruct (evalue e); [discriminate|reflexivity]. }
    assert (Hwt : wt tr0).
    { destruct o as [a|er| |k|]; try (apply (partial_cut _ Hw _ _ _ eq_refl Hn)).
      - apply (wt_cut _ Hw _ _ _ eq_refl Hn).
      - destruct er as [p0 tn v src|c v b|c v val b|c|cc|rst cc|mp me mf]; try (apply (partial_cut _ Hw _ _ _ eq_refl Hn)).
        destruct Hw as (pre & bs & Htr & Hp & _). apply (partial_cut (tr0 ++ Ev e :: rest)) with (e := e) (b := rest); [|reflexivity|exact Hn].
        exists pre, [], bs. split; [exact Htr|]. split; [exact Hp|left; reflexivity]. }
    rewrite Ho in NW. rewrite filter_size_warning in NW.
    destruct (wt_tiled _ Hwt NW) as (cs & Hc).
    exists tr0, cs. split; [exact Hc|]. split; [|split; [exact Ho|exists e, rest; split; [reflexivity|exact He]]].
    rewrite (tiled_bytes _ _ Hc).
    (* all of the input has been read before the stop *)
    rewrite bytes_of_app in A. cbn [bytes_of] in A.
    apply (f_equal (@List.length Z)) in A as HL. rewrite !app_length in HL.
    assert (Hz : (List.length (bytes_of rest) + List.length (inp s') = 0)%nat) by lia.
    assert (Hr : bytes_of rest = []) by (destruct (bytes_of rest); [reflexivity|cbn [List.length] in Hz; lia]).
    assert (Hi : inp s' = []) by (destruct (inp s'); [reflexivity|cbn [List.length] in Hz; lia]).
    rewrite A, Hr, Hi, !app_nil_r. reflexivity.
  - (* not stopped: a stream run never completes; every other accepted outcome carries a depleted / superfluous warning *)
    destruct o as [a|er| |k|]; try discriminate.
    + exfalso. apply (stream_never_completes T abort _ _ _ _ E).
    + destruct abort; [discriminate|]. injection H as <-.
      exfalso. cbn [rev] in NW. rewrite map_app, existsb_app in NW. cbn [map fst existsb is_size_warning] in NW. rewrite !orb_true_r in NW. discriminate.
Qed.
