(** Simulation, part 6: strict mode on a structurally consistent input with an out-of-range leaf (C04).
    Route: the warn-mode run is known (Sim4, mode [false]); strict and warn agree up to the first problem
    (Agree); a strict run never emits a warning (here).  Hence the strict run is the warn run cut just before the
    event of the first out-of-range leaf, ending with the value error that names it. *)
From Coq Require Import ZArith List String Bool Lia ZifyBool.
From TV Require Import Layout.Types Base.Bytes Model.Monad Model.Constraints Model.Ints Model.Decoder Model.Message Model.Pump
  Spec.Value Spec.Message Proofs.Closure Proofs.LowClosure Proofs.Account Proofs.Tiling Proofs.PumpProofs Proofs.Agree
  Proofs.Sim1 Proofs.Sim2 Proofs.Sim3 Proofs.Sim4 Proofs.Sim5.
Import ListNotations.
Open Scope list_scope.
Open Scope Z_scope.

(** ---- the strict decoder never emits a warning *)
Definition quiet {A} (m : M A) : Prop :=
  forall s tr s' o, m s = (tr, s', o) -> existsb is_warning tr = false.

Lemma reads_quiet bs : existsb is_warning (map Rd bs) = false.
Proof. induction bs as [|b r IH]; [reflexivity|exact IH]. Qed.

Lemma quiet_lclosed : lclosedW (@quiet) false.
Proof.
  constructor.
  - intros A a s tr s' o H. injection H as <- _ _. reflexivity.
  - intros A B m f Hm Hf s tr s' o H. unfold bind in H. destruct (m s) as [[tr1 s1] o1] eqn:E1.
    destruct o1 as [a|e| |k|]; try (injection H as <- _ _; eapply Hm; exact E1).
    destruct (f a s1) as [[tr2 s2] o2] eqn:E2. injection H as <- _ _.
    rewrite existsb_app, (Hm _ _ _ _ E1), (Hf _ _ _ _ _ E2). reflexivity.
  - intros s tr s' o H. injection H as <- _ _. reflexivity.
  - intros A e s tr s' o H. injection H as <- _ _. reflexivity.
  - intros A k s tr s' o H. injection H as <- _ _. reflexivity.
  - intros A s tr s' o H. injection H as <- _ _. reflexivity.
  - intros [b|e|w] Ha; [contradiction| |discriminate]. intros s tr s' o H. injection H as <- _ _. reflexivity.
  - intros s tr s' o H. unfold read1 in H. destruct (inp s); injection H as <- _ _; reflexivity.
  - intros n s tr s' o H. unfold consume in H. destruct (take_bytes (inp s) n) as [[t rest] done].
    injection H as <- _ _. apply reads_quiet.
  - intros i c s tr s' o H. injection H as <- _ _. reflexivity.
  - intros s tr s' o H. injection H as <- _ _. reflexivity.
  - intros l s tr s' o H. injection H as <- _ _. reflexivity.
  - intros i s tr s' o H. injection H as <- _ _. reflexivity.
  - intros i s tr s' o H. injection H as <- _ _. reflexivity.
  - intros A abort ids m h Hab Hm Hh s tr s' o H.
    destruct abort; [|specialize (Hab eq_refl); discriminate].
    rewrite catch_true in H. eapply Hm. exact H.
Qed.

Theorem strict_is_quiet T r : quiet (dec_root T true r).
Proof. apply (strict_dec_root (@quiet) quiet_lclosed). Qed.

(** ---- cutting a well-shaped warn-mode trace at its first warning *)
Lemma shape_head_not_wn tr items w rest : shape tr items -> tr <> Wn w :: rest.
Proof. destruct 1 as [|pa t tr' r H|pa p z bs tr' r L Hw H]; [discriminate|discriminate|]. destruct bs; discriminate. Qed.

Lemma problem_head e pre rest : offending e pre -> forall b r, pre ++ Wn e :: rest <> Rd b :: r.
Proof. intros O b r. apply offending_cases in O. destruct O as [->|(pa & tn & v & src & -> & ->)]; discriminate. Qed.

Lemma reads_split bs X tr Y : map Rd bs ++ X = tr ++ Y -> (forall b r, Y <> Rd b :: r) ->
  exists tr', tr = map Rd bs ++ tr' /\ X = tr' ++ Y.
Proof.
  revert tr. induction bs as [|b bs IH]; intros tr H NY; cbn [map app] in *.
  - exists tr. split; [reflexivity|exact H].
  - destruct tr as [|a tr1]; cbn [app] in H.
    + exfalso. eapply NY. symmetry. exact H.
    + injection H as <- H. destruct (IH tr1 H NY) as (tr' & -> & HX). exists tr'. split; [reflexivity|exact HX].
Qed.

Lemma shape_has_warning len tw items : shape tw items -> forall off evs b,
  until_bad len items off = (evs, Some b) -> existsb is_warning tw = true.
Proof.
  induction 1 as [|pa t tr r H IH|pa p z bs tr r L Hw H IH]; intros off evs b U; cbn [until_bad] in U.
  - discriminate.
  - destruct (until_bad len r off) as [evs' b'] eqn:U'. injection U as _ ->. cbn [existsb is_warning orb]. eapply IH. exact U'.
  - rewrite existsb_app. cbn [existsb is_warning orb]. rewrite existsb_app. unfold vwarn.
    destruct (valid p z).
    + destruct (until_bad len r (off + pwidth p)) as [evs' b'] eqn:U'. injection U as _ ->.
      cbn [existsb orb]. rewrite (IH _ _ _ U'). apply orb_true_r.
    + cbn [existsb is_warning orb]. apply orb_true_r.
Qed.

Lemma first_bad_trace len tw items : shape tw items -> forall tr pre e rest off evs pa p z off',
  tw = tr ++ pre ++ Wn e :: rest -> existsb is_warning tr = false -> offending e pre ->
  until_bad len items off = (evs, Some (pa, p, z, off')) ->
  stamps false len tr off = evs /\ e = EValue pa (pname p) z VSType /\ off' = off + blen (bytes_of tr).
Proof.
  induction 1 as [|pa0 t tw' r H IH|pa0 p0 z0 bs tw' r L Hw H IH];
    intros tr pre e rest off evs pa p z off' E Q O U; cbn [until_bad] in U.
  - discriminate.
  - destruct (until_bad len r off) as [evs' b'] eqn:U'. injection U as <- ->.
    destruct tr as [|a tr1]; cbn [app] in E.
    + exfalso. apply offending_cases in O. destruct O as [->|(pa' & tn & v & src & -> & ->)]; cbn [app item_event] in E; discriminate.
    + injection E as <- E. cbn [existsb is_warning orb] in Q.
      destruct (IH tr1 pre e rest off evs' pa p z off' E Q O U') as (S1 & S2 & S3).
      cbn [stamps andb bytes_of]. rewrite S1. split; [reflexivity|]. split; [exact S2|exact S3].
  - destruct (reads_split bs _ tr _ E (problem_head e pre rest O)) as (tr' & -> & E').
    rewrite existsb_app in Q. apply orb_false_elim in Q as [_ Q].
    assert (Lb : blen bs = pwidth p0) by (unfold blen; lia).
    destruct tr' as [|a tr1]; cbn [app] in E'.
    + (* the strict run stopped before this leaf's event: this is the out-of-range leaf *)
      pose proof O as O'. apply offending_cases in O'. destruct O' as [->|(pa' & tn & v & src & -> & ->)]; cbn [app] in E'; [discriminate|].
      injection E' as Hpa Hnm Hz Hrest. unfold vwarn in Hrest. destruct (valid p0 z0) eqn:Vd.
      * cbn [app] in Hrest. exfalso. eapply shape_head_not_wn; [exact H|]. exact Hrest.
      * cbn [app] in Hrest. assert (Hsrc : src = VSType) by (inversion Hrest; reflexivity). injection U as <- <- <- <- <-.
        rewrite stamps_reads, bytes_of_app, bytes_of_map_Rd. cbn [stamps bytes_of]. rewrite app_nil_r.
        split; [reflexivity|]. split; [subst; reflexivity|]. lia.
    + injection E' as <- E'. cbn [existsb is_warning orb] in Q. unfold vwarn in E'. destruct (valid p0 z0) eqn:Vd.
      * cbn [app] in E'. destruct (until_bad len r (off + pwidth p0)) as [evs' b'] eqn:U'. injection U as <- ->.
        destruct (IH tr1 pre e rest (off + pwidth p0) evs' pa p z off' E' Q O U') as (S1 & S2 & S3).
        rewrite stamps_reads, bytes_of_app, bytes_of_map_Rd. cbn [stamps andb bytes_of]. rewrite Lb, S1.
        split; [reflexivity|]. split; [exact S2|]. unfold blen in *. rewrite app_length. lia.
      * exfalso. cbn [app] in E'. destruct tr1 as [|a1 tr2]; cbn [app] in E'.
        -- pose proof O as O'. apply offending_cases in O'. destruct O' as [->|(pa' & tn & v & src & -> & ->)]; cbn [app] in E'; [|discriminate].
           injection E' as He _. subst e. cbn [offending] in O. discriminate.
        -- injection E' as <- _. cbn [existsb is_warning orb] in Q. discriminate.
Qed.

(** from a warn-mode run with a well-shaped trace containing an out-of-range leaf to the strict result (any root but a stream) *)
Lemma first_bad_of_run T r bs tw sw a items evs pa p z off :
  is_stream_root r = false -> dec_root T false r (init_st bs) = (tw, sw, Ok a) -> shape tw items ->
  until_bad (Z.of_nat (List.length bs)) items 0 = (evs, Some (pa, p, z, off)) ->
  decode T true r bs = (evs, ORaised (EValue pa (pname p) z VSType) (skipZ bs off)).
Proof.
  intros Hr Ew Sh U.
  pose proof (agree_dec_root T r (init_st bs)) as Ag.
  destruct (dec_root T true r (init_st bs)) as [[tr s'] os] eqn:Er.
  pose proof (strict_is_quiet T r _ _ _ _ Er) as Q.
  destruct os as [a0|e| |k|]; try (rewrite Ew in Ag; discriminate).
  - exfalso. rewrite Ew in Ag. injection Ag as -> _ _. rewrite (shape_has_warning _ _ _ Sh _ _ _ U) in Q. discriminate.
  - destruct Ag as [(pre & rest & s'' & o'' & Ea & O)|Ea]; [|rewrite Ew in Ea; discriminate].
    rewrite Ew in Ea. injection Ea as -> _ _.
    destruct (first_bad_trace _ _ _ Sh tr pre e rest 0 evs pa p z off eq_refl Q O U) as (S1 & -> & ->).
    unfold decode, pump. rewrite Er, Hr.
    destruct (pump_go_nostream (Z.of_nat (List.length bs)) tr (mkP 0 None [])) as (ps & G & _ & N).
    rewrite G. pose proof (pump_go_stamps _ _ _ _ _ _ G) as Out. cbn [ps_out ps_nrd rev app] in Out, N.
    rewrite Out, S1, N. reflexivity.
Qed.

(** C04 for every structure type: whenever the input is structurally consistent for type [t] and some leaf of the
    field-by-field reading is out of range, strict decoding emits exactly the events of the fields before the
    first such leaf (in wire order, with the specified look-ahead), then raises the value error naming that leaf's
    path, declared type and integer, with exactly the bytes after that field remaining *)
Theorem types_first_bad T t bs evs o :
  spec_value_error T (RType t) bs = Some (evs, o) -> decode T true (RType t) bs = (evs, o).
Proof.
  unfold spec_value_error, sp_root. destruct (sp_ty T t root_path None false bs) as [[v [|x xs]]|] eqn:Es; try discriminate.
  cbn [flat_map]. rewrite app_nil_r.
  destruct (until_bad (Z.of_nat (List.length bs)) (items_of v) 0) as [evs0 [[[[pa p] z] off]|]] eqn:U; [|discriminate].
  intros [= <- <-].
  destruct (sim_all T false) as (St & _).
  assert (W0 : wf_st (mkSt bs [] [])) by (split; constructor).
  destruct (St t root_path None false bs v [] (mkSt bs [] []) Es (ok_leaves_false v) W0 eq_refl ltac:(unfold blen; cbn; lia) ltac:(constructor))
    as (tw & sw & a & c & E & Sh & _).
  apply (first_bad_of_run T (RType t) bs tw sw a (items_of v) evs0 pa p z off eq_refl); [|exact Sh|exact U].
  cbn [dec_root]. unfold bind. cbn [set_lst init_st inp store lst]. rewrite E. reflexivity.
Qed.

(** ---- "if and only if" *)
Lemma until_bad_some len items : forall off, forallb item_valid items = false ->
  exists evs b, until_bad len items off = (evs, Some b).
Proof.
  induction items as [|[pa p z|pa t] r IH]; intros off H; cbn [forallb item_valid until_bad] in *; [discriminate| |].
  - destruct (valid p z); [|eexists _, _; reflexivity]. cbn [andb] in H.
    destruct (IH (off + pwidth p) H) as (evs & b & ->). eexists _, _; reflexivity.
  - destruct (IH off H) as (evs & b & ->). eexists _, _; reflexivity.
Qed.

(** strict decoding of a structurally consistent input raises the value error if and only if some leaf of the
    field-by-field reading is out of range *)
Theorem types_raise_iff_bad_leaf T t bs v :
  sp_ty T t root_path None false bs = Some (v, []) ->
  ((exists evs e rem, decode T true (RType t) bs = (evs, ORaised e rem)) <-> all_valid v = false).
Proof.
  intros Es. split.
  - intros (evs & e & rem & D). destruct (all_valid v) eqn:AV; [|reflexivity].
    rewrite (types_decode_as_specified T t bs (stamp_items (Z.of_nat (List.length bs)) (items_of v) 0)) in D; [discriminate|].
    unfold spec_events, sp_root. rewrite Es. cbn [forallb flat_map]. rewrite AV, app_nil_r. reflexivity.
  - intros AV. rewrite items_of_valid in AV.
    destruct (until_bad_some (Z.of_nat (List.length bs)) (items_of v) 0 AV) as (evs & [[[pa p] z] off] & U).
    eexists evs, _, _. apply types_first_bad. unfold spec_value_error, sp_root. rewrite Es. cbn [flat_map].
    rewrite app_nil_r, U. reflexivity.
Qed.
