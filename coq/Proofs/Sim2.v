(** Simulation, part 2: creating, setting, appending and closing a size constraint, and decoding a
    primitive, in terms of the view (strict mode, everything fits). *)
From Coq Require Import ZArith List String Bool Lia ZifyBool.
From TV Require Import Layout.Types Base.Bytes Model.Monad Model.Constraints Model.Ints Model.Decoder Model.Message
  Proofs.Sim1.
Import ListNotations.
Open Scope list_scope.
Open Scope Z_scope.

Definition ids_of (v : list entry) : list nat := map (fun e => fst (fst e)) v.

Lemma view_ids_in s i : In i (ids_of (view s)) -> In i (lst s).
Proof.
  unfold ids_of, view. rewrite map_map. cbn. rewrite map_id. intros H. apply filter_In in H as [H _]. exact H.
Qed.

(** O2: a new constraint object *)
Theorem new_sc_spec s : wf_st s ->
  exists s', new_sc s = ([], s', Ok (List.length (store s))) /\ inp s' = inp s /\ lst s' = lst s /\
             view s' = view s /\ wf_st s' /\ List.length (store s') = S (List.length (store s)) /\
             get_sc s' (List.length (store s)) = sc_new /\ frame s s'.
Proof.
  intros [ND AL]. eexists. unfold new_sc. split; [reflexivity|]. cbn [inp lst store].
  split; [reflexivity|]. split; [reflexivity|]. split.
  - apply view_ext; [reflexivity|]. intros i Hi. unfold get_sc. cbn [store].
    rewrite Forall_forall in AL. rewrite app_nth1 by (apply AL, Hi). reflexivity.
  - split; [split; [exact ND|]|].
    + cbn [lst store]. rewrite app_length. cbn. eapply Forall_impl; [|exact AL]. cbn. intros. lia.
    + split; [rewrite app_length; cbn; lia|]. split.
      * unfold get_sc. cbn [store]. rewrite app_nth2 by lia. rewrite Nat.sub_diag. reflexivity.
      * split; [cbn [store]; rewrite app_length; lia|]. intros i Hi Hn. split; [|exact Hn].
        unfold get_sc. cbn [store]. rewrite app_nth1 by exact Hi. reflexivity.
Qed.

Lemma anticipate_none s ids self size :
  Forall (fun i => i = self \/ sc_obs (get_sc s i) = true \/ exceeds (get_sc s i) size = None) ids ->
  anticipate s ids self size = None.
Proof.
  induction 1 as [|i r Hi _ IH]; cbn [anticipate]; [reflexivity|].
  destruct (Nat.eqb i self) eqn:E; [exact IH|]. apply Nat.eqb_neq in E.
  destruct Hi as [Hi|[Hi|Hi]]; [contradiction|rewrite Hi; exact IH|].
  destruct (sc_obs (get_sc s i)); [exact IH|]. rewrite Hi. exact IH.
Qed.

Definition set_entry (cid : nat) (n : Z) (e : entry) : entry :=
  let '(i, mx, al) := e in if Nat.eqb i cid then (i, Some n, al) else e.

(** O3: announcing the size of a region: silent when it fits every other live region *)
Theorem set_constraint_spec abort cid pa n s : wf_st s -> 0 <= n -> (cid < List.length (store s))%nat ->
  Forall (fun e => fst (fst e) = cid \/ entry_fits n e) (view s) ->
  exists s', set_constraint abort cid pa n s = ([], s', Ok tt) /\ inp s' = inp s /\ lst s' = lst s /\
             view s' = map (set_entry cid n) (view s) /\ wf_st s' /\
             List.length (store s') = List.length (store s) /\
             get_sc s' cid = mkSc (Some pa) (Some n) (sc_already (get_sc s cid)) (sc_obs (get_sc s cid)) /\
             (forall i, i <> cid -> get_sc s' i = get_sc s i) /\ (forall k, (k <= cid)%nat -> frame_from k s s').
Proof.
  intros [ND AL] Hn Hc F. unfold set_constraint. replace (n <? 0) with false by lia.
  unfold bind at 1. cbn [get]. unfold bind at 1. cbn [set_sc app]. unfold bind at 1. cbn [get app].
  set (c' := mkSc (Some pa) (Some n) _ _).
  set (s1 := mkSt (inp s) (upd (store s) cid c') (lst s)).
  assert (G1 : get_sc s1 cid = c') by (unfold get_sc; cbn [s1 store]; apply get_sc_upd_same, Hc).
  assert (G2 : forall i, i <> cid -> get_sc s1 i = get_sc s i).
  { intros i Hi. unfold get_sc. cbn [s1 store]. apply get_sc_upd_other. congruence. }
  assert (A : anticipate (mkSt [] (store s1) (lst s1)) (lst s1) cid n = None).
  { apply anticipate_none. apply Forall_forall. intros i Hi.
    destruct (Nat.eq_dec i cid) as [->|Hne]; [left; reflexivity|]. right.
    change (get_sc (mkSt [] (store s1) (lst s1)) i) with (get_sc s1 i). rewrite (G2 i Hne).
    destruct (sc_obs (get_sc s i)) eqn:Ob; [left; reflexivity|]. right.
    apply exceeds_none_of_fits. rewrite Forall_forall in F.
    assert (Hin : In (entry_of s i) (view s)).
    { unfold view. apply in_map. apply filter_In. split; [exact Hi|]. unfold live. rewrite Ob. reflexivity. }
    destruct (F _ Hin) as [Hx|Hx]; [cbn in Hx; contradiction|exact Hx]. }
  cbn [lst] in A |- *. change (get_sc (mkSt [] (store s) (lst s)) cid) with (get_sc s cid) in *.
  rewrite A. exists s1. split; [reflexivity|]. split; [reflexivity|]. split; [reflexivity|]. split.
  - unfold view. cbn [s1 lst].
    assert (Lv : forall i, live s1 i = live s i).
    { intros i. unfold live. destruct (Nat.eq_dec i cid) as [->|Hne]; [rewrite G1; reflexivity|rewrite G2 by exact Hne; reflexivity]. }
    rewrite (filter_ext _ _ Lv), map_map. apply map_ext. intros i. unfold entry_of, set_entry.
    destruct (Nat.eqb i cid) eqn:E.
    + apply Nat.eqb_eq in E. subst i. rewrite G1. reflexivity.
    + apply Nat.eqb_neq in E. rewrite G2 by exact E. reflexivity.
  - split; [split; [exact ND|cbn [s1 lst store]; rewrite upd_length; exact AL]|].
    split; [cbn [s1 store]; apply upd_length|]. split; [exact G1|]. split; [exact G2|].
    intros k Hk. apply (frame_from_only cid); [exact Hk|cbn [s1 store]; rewrite upd_length; lia|exact G2|].
    intros i Hi. left. exact Hi.
Qed.

Lemma map_set_entry_fresh cid n v : ~ In cid (ids_of v) -> map (set_entry cid n) v = v.
Proof.
  induction v as [|[[i mx] al] v IH]; intros H; [reflexivity|]. cbn [map set_entry].
  destruct (Nat.eqb i cid) eqn:E; [apply Nat.eqb_eq in E; subst; exfalso; apply H; left; reflexivity|].
  rewrite IH; [reflexivity|]. intros Hx. apply H. right. exact Hx.
Qed.

Lemma NoDup_snoc {A} (l : list A) x : NoDup l -> ~ In x l -> NoDup (l ++ [x]).
Proof.
  induction l as [|y l IH]; intros ND Hn; cbn [app]; [constructor; [intros []|constructor]|].
  inversion ND as [|? ? Hy NDl]; subst. constructor.
  - intros Hx. apply in_app_or in Hx as [Hx|[Hx|[]]]; [contradiction|subst; apply Hn; left; reflexivity].
  - apply IH; [exact NDl|intros Hx; apply Hn; right; exact Hx].
Qed.

(** O4: the region becomes the innermost listed one *)
Theorem append_lst_spec cid s : wf_st s -> ~ In cid (lst s) -> (cid < List.length (store s))%nat ->
  sc_obs (get_sc s cid) = false ->
  exists s', append_lst cid s = ([], s', Ok tt) /\ inp s' = inp s /\ store s' = store s /\
             view s' = view s ++ [entry_of s cid] /\ wf_st s' /\ (forall k, (k <= cid)%nat -> frame_from k s s').
Proof.
  intros [ND AL] Hn Hc Ob. eexists. unfold append_lst. split; [reflexivity|]. cbn [inp store lst].
  split; [reflexivity|]. split; [reflexivity|]. split.
  - unfold view. cbn [lst]. rewrite filter_app, map_app. cbn [filter].
    assert (L : live (mkSt (inp s) (store s) (lst s ++ [cid])) cid = true) by (unfold live, get_sc; cbn [store]; fold (get_sc s cid); rewrite Ob; reflexivity).
    rewrite L. reflexivity.
  - split; [split; cbn [lst store]|].
    + apply NoDup_snoc; assumption.
    + apply Forall_app. split; [exact AL|constructor; [exact Hc|constructor]].
    + intros k Hk. apply (frame_from_only cid); [exact Hk|cbn [store]; lia|intros i _; reflexivity|].
      cbn [lst]. intros i Hi. apply in_app_or in Hi as [Hi|[Hi|[]]]; [left; exact Hi|right; symmetry; exact Hi].
Qed.

Lemma filter_map_comm {A B} (f : A -> B) (p : B -> bool) (g : A -> bool) l :
  (forall a, p (f a) = g a) -> filter p (map f l) = map f (filter g l).
Proof. intros H. induction l as [|a l IH]; [reflexivity|]. cbn. rewrite H. destruct (g a); cbn; rewrite IH; reflexivity. Qed.
Lemma filter_and {A} (f g : A -> bool) l : filter g (filter f l) = filter (fun a => f a && g a) l.
Proof. induction l as [|a l IH]; [reflexivity|]. cbn. destruct (f a); cbn; [destruct (g a); cbn; rewrite IH; reflexivity|exact IH]. Qed.

(** O5: closing the innermost region when it is exactly filled *)
Theorem assert_done_spec abort cid mx V s : wf_st s -> view s = V ++ [(cid, Some mx, mx)] -> ~ In cid (ids_of V) ->
  exists s', assert_done abort cid s = ([], s', Ok tt) /\ inp s' = inp s /\ lst s' = lst s /\
             view s' = V /\ wf_st s' /\ List.length (store s') = List.length (store s) /\
             (forall k, (k <= cid)%nat -> frame_from k s s') /\
             sc_obs (get_sc s' cid) = true /\ sc_max (get_sc s' cid) = Some mx /\ frame s s'.
Proof.
  intros [ND AL] Hv Hn.
  assert (Hin : In (cid, Some mx, mx) (view s)) by (rewrite Hv; apply in_or_app; right; left; reflexivity).
  unfold view in Hin. apply in_map_iff in Hin as (i & Hi & Hf). unfold entry_of in Hi. injection Hi as -> Hmax Hal.
  apply filter_In in Hf as [Hl Hlive]. unfold live in Hlive.
  assert (Hc : (cid < List.length (store s))%nat) by (rewrite Forall_forall in AL; apply AL, Hl).
  unfold assert_done. unfold bind at 1. cbn [get].
  change (get_sc (mkSt [] (store s) (lst s)) cid) with (get_sc s cid).
  rewrite Hmax. destruct (sc_obs (get_sc s cid)) eqn:Ob; [discriminate|].
  unfold bind at 1. cbn [set_sc app]. rewrite Hal, Z.eqb_refl.
  set (s1 := mkSt (inp s) (upd (store s) cid _) (lst s)).
  exists s1. split; [reflexivity|]. split; [reflexivity|]. split; [reflexivity|].
  assert (G1 : sc_obs (get_sc s1 cid) = true) by (unfold get_sc; cbn [s1 store]; rewrite get_sc_upd_same by exact Hc; reflexivity).
  assert (G2 : forall i, i <> cid -> get_sc s1 i = get_sc s i).
  { intros i Hi. unfold get_sc. cbn [s1 store]. apply get_sc_upd_other. congruence. }
  split.
  - (* the view loses exactly the entry of cid *)
    assert (Vs : view s1 = filter (fun e => negb (Nat.eqb (fst (fst e)) cid)) (view s)).
    { unfold view. cbn [s1 lst]. rewrite filter_map_comm with (g := fun i => negb (Nat.eqb i cid)) by (intros i; reflexivity).
      rewrite filter_and.
      assert (Lv : forall i, live s1 i = live s i && negb (Nat.eqb i cid)).
      { intros i. unfold live. destruct (Nat.eqb i cid) eqn:E.
        - apply Nat.eqb_eq in E. subst i. rewrite G1. rewrite andb_false_r. reflexivity.
        - apply Nat.eqb_neq in E. rewrite (G2 i E), andb_true_r. reflexivity. }
      rewrite (filter_ext _ _ Lv). apply map_ext_in. intros i Hi. apply filter_In in Hi as [_ Hi].
      apply andb_prop in Hi as [_ Hi]. unfold entry_of. rewrite G2; [reflexivity|].
      intros ->. rewrite Nat.eqb_refl in Hi. discriminate. }
    rewrite Vs, Hv, filter_app. cbn [filter fst]. rewrite Nat.eqb_refl. cbn [negb]. rewrite app_nil_r.
    clear - Hn. induction V as [|[[i m] a] V IH]; [reflexivity|]. cbn [filter fst].
    destruct (Nat.eqb i cid) eqn:E; [apply Nat.eqb_eq in E; subst; exfalso; apply Hn; left; reflexivity|].
    cbn [negb]. f_equal. apply IH. intros Hx. apply Hn. right. exact Hx.
  - split; [split; [exact ND|cbn [s1 lst store]; rewrite upd_length; exact AL]|].
    split; [cbn [s1 store]; apply upd_length|]. split; [|split; [exact G1|]].
    + intros k Hk. apply (frame_from_only cid); [exact Hk|cbn [s1 store]; rewrite upd_length; lia|exact G2|].
      intros i Hi. left. exact Hi.
    + split; [unfold get_sc; cbn [s1 store]; rewrite get_sc_upd_same by exact Hc; reflexivity|].
      split; [cbn [s1 store]; rewrite upd_length; lia|]. intros i _ Hi. split; [|exact Hi].
      apply G2. intros ->. contradiction.
Qed.

(** O6: a primitive whose bytes are there, fit every live region and hold a valid value *)
Lemma readn_exact' bs st_ l rest :
  readn (List.length bs) (mkSt (bs ++ rest) st_ l) = (map Rd bs, mkSt rest st_ l, Ok bs).
Proof.
  revert st_ l. induction bs as [|b r IH]; intros st_ l; cbn [List.length readn app map]; [reflexivity|].
  unfold bind at 1. unfold read1 at 1. cbn [inp store lst].
  unfold bind, ret. rewrite IH. cbn [app]. rewrite app_nil_r. reflexivity.
Qed.

(** the warning that follows the event of an out-of-range primitive in warn mode *)
Definition vwarn (pa : path) (p : prim) (z : Z) : list action :=
  if valid p z then [] else [Wn (EValue pa (pname p) z VSType)].

Theorem dec_prim_spec abort p pa bs rest s : wf_st s -> inp s = bs ++ rest -> List.length bs = Z.to_nat (pwidth p) ->
  0 <= pwidth p -> (abort = true -> valid p (from_bytes (psigned p) bs) = true) -> fits (view s) (pwidth p) ->
  exists s', dec_prim abort p pa s =
               (map Rd bs ++ Ev (mkEvent pa (TyN (pname p)) (Some (from_bytes (psigned p) bs))) ::
                  vwarn pa p (from_bytes (psigned p) bs), s',
                Ok (Some (VInt_ (pname p) (from_bytes (psigned p) bs)))) /\
             inp s' = rest /\ view s' = bump (pwidth p) (view s) /\ wf_st s' /\ frame s s'.
Proof.
  intros W I L Hw V F. unfold dec_prim. unfold bind at 1.
  destruct (bytes_parsed_fits pa (pwidth p) s W F) as (s1 & E1 & I1 & V1 & W1 & Len1 & G1 & Inc1). rewrite E1. cbn [app].
  assert (Fr : frame s (mkSt rest (store s1) (lst s1))).
  { split; [cbn [store]; lia|]. intros i _ Hi. cbn [lst]. split; [apply (G1 i Hi)|intros Hx; apply Hi, Inc1, Hx]. }
  unfold bind at 1. rewrite <- L.
  replace s1 with (mkSt (bs ++ rest) (store s1) (lst s1)) by (destruct s1; cbn in *; congruence).
  rewrite readn_exact'. unfold vwarn.
  destruct (valid p (from_bytes (psigned p) bs)) eqn:Vd.
  - unfold bind, emit, ret. cbn [app].
    eexists. split; [reflexivity|]. cbn [inp]. split; [reflexivity|]. split; [rewrite <- V1; reflexivity|split; [exact W1|exact Fr]].
  - destruct abort; [specialize (V eq_refl); discriminate|].
    unfold bind, emit, ret. cbn [app].
    eexists. split; [reflexivity|]. cbn [inp]. split; [reflexivity|]. split; [rewrite <- V1; reflexivity|split; [exact W1|exact Fr]].
Qed.
