(** Predicates closed under the low-level operations of the monad are closed under the decoder's
    building blocks ([Closure.closed]), hence hold of every decoder function. *)
From Coq Require Import ZArith List String Bool.
From TV Require Import Layout.Types Base.Bytes Model.Monad Model.Constraints Model.Ints Model.Decoder Model.Message Proofs.Closure.
Import ListNotations.
Open Scope Z_scope.

Section Low.
  Variable P : forall A : Type, M A -> Prop.
  Arguments P {A} _.
  (** whether emitting a warning is among the operations ([false]: the strict-mode decoder never does) *)
  Variable wn : bool.

  Record lclosedW : Prop := mkL {
    l_ret : forall A (a : A), P (ret a);
    l_bind : forall A B (m : M A) (f : A -> M B), P m -> (forall a, P (f a)) -> P (bind m f);
    l_get : P get;
    l_fail : forall A e, P (@fail A e);
    l_internal : forall A k, P (@internal_ A k);
    l_fuel : forall A, P (@fuel_ A);
    l_emit : forall a, (match a with Rd _ => False | Ev _ => True | Wn _ => wn = true end) -> P (emit a);
    l_read1 : P read1;
    l_consume : forall n, P (consume n);
    l_set_sc : forall i c, P (set_sc i c);
    l_new_sc : P new_sc;
    l_set_lst : forall l, P (set_lst l);
    l_append_lst : forall i, P (append_lst i);
    l_remove_lst : forall i, P (remove_lst i);
    l_catch : forall A abort ids (m h : M A), (abort = false -> wn = true) -> P m -> P h -> P (catch_exceeded abort ids m h) }.

  Hypothesis L : lclosedW.

  Lemma L_readn n : P (readn n).
  Proof.
    induction n as [|n IH]; cbn [readn]; [apply (l_ret L)|].
    apply (l_bind L); [apply (l_read1 L)|]. intros b. apply (l_bind L); [apply IH|]. intros bs. apply (l_ret L).
  Qed.

  Lemma L_bump_all ids n : P (bump_all ids n).
  Proof.
    induction ids as [|i r IH]; cbn [bump_all]; [apply (l_ret L)|].
    apply (l_bind L); [apply (l_get L)|]. intros s.
    apply (l_bind L); [apply (l_set_sc L)|]. intros _. apply IH.
  Qed.

  Lemma L_retire_all ids : P (retire_all ids).
  Proof.
    induction ids as [|i r IH]; cbn [retire_all]; [apply (l_ret L)|].
    apply (l_bind L); [apply (l_get L)|]. intros s.
    apply (l_bind L); [apply (l_set_sc L)|]. intros _. apply IH.
  Qed.

  Lemma L_bump_others ids self n : P (bump_others ids self n).
  Proof.
    induction ids as [|i r IH]; cbn [bump_others]; [apply (l_ret L)|].
    apply (l_bind L); [apply (l_get L)|]. intros s.
    apply (l_bind L); [|intros _; apply IH].
    destruct (Nat.eqb i self || sc_obs (get_sc s i)); [apply (l_ret L)|apply (l_set_sc L)].
  Qed.

  Lemma L_purge : P purge.
  Proof. unfold purge. apply (l_bind L); [apply (l_get L)|]. intros s. apply (l_set_lst L). Qed.

  Lemma L_bytes_parsed p size : P (bytes_parsed p size).
  Proof.
    unfold bytes_parsed. apply (l_bind L); [apply L_purge|]. intros _.
    apply (l_bind L); [apply (l_get L)|]. intros s.
    destruct (find_violated s (lst s) size []) as [[[[before i] by_] after]|]; [|apply L_bump_all].
    apply (l_bind L); [apply L_bump_all|]. intros _.
    apply (l_bind L); [apply L_retire_all|]. intros _.
    apply (l_bind L); [apply (l_set_lst L)|]. intros _.
    apply (l_bind L); [apply (l_set_sc L)|]. intros _.
    apply (l_bind L); [apply (l_consume L)|]. intros _. apply (l_fail L).
  Qed.

  Lemma L_set_constraint abort i p n : (abort = false -> wn = true) -> P (set_constraint abort i p n).
  Proof.
    intros Hab.
    unfold set_constraint. destruct (n <? 0); [apply (l_internal L)|].
    apply (l_bind L); [apply (l_get L)|]. intros s.
    apply (l_bind L); [apply (l_set_sc L)|]. intros _.
    apply (l_bind L); [apply (l_get L)|]. intros s'.
    destruct (anticipate _ _ _ _) as [[ci b]|]; [|apply (l_ret L)].
    destruct abort; [apply (l_fail L)|apply (l_emit L); apply Hab; reflexivity].
  Qed.

  Lemma L_assert_done abort i : (abort = false -> wn = true) -> P (assert_done abort i).
  Proof.
    intros Hab.
    unfold assert_done. apply (l_bind L); [apply (l_get L)|]. intros s.
    destruct (sc_max (get_sc s i)); [|apply (l_internal L)].
    destruct (sc_obs (get_sc s i)); [apply (l_ret L)|].
    apply (l_bind L); [apply (l_set_sc L)|]. intros _.
    destruct (_ =? _); [apply (l_ret L)|].
    destruct abort; [apply (l_fail L)|].
    apply (l_bind L); [apply (l_emit L); apply Hab; reflexivity|]. intros _.
    apply (l_bind L); [apply L_bump_others|]. intros _. apply (l_consume L).
  Qed.

  Lemma L_dec_prim abort p pa : (abort = false -> wn = true) -> P (dec_prim abort p pa).
  Proof.
    intros Hab.
    unfold dec_prim. apply (l_bind L); [apply L_bytes_parsed|]. intros _.
    apply (l_bind L); [apply L_readn|]. intros bs.
    destruct (valid p _).
    - apply (l_bind L); [apply (l_emit L); exact I|]. intros _. apply (l_ret L).
    - destruct abort; [apply (l_fail L)|].
      apply (l_bind L); [apply (l_emit L); exact I|]. intros _.
      apply (l_bind L); [apply (l_emit L); apply Hab; reflexivity|]. intros _. apply (l_ret L).
  Qed.

  Theorem lclosed_closed abort : (abort = false -> wn = true) -> closed abort (@P).
  Proof.
    intros Hab. constructor; intros.
    - apply (l_ret L).
    - apply (l_bind L); assumption.
    - apply (l_get L).
    - apply (l_fail L).
    - apply (l_internal L).
    - apply (l_fuel L).
    - apply (l_emit L). exact I.
    - apply L_dec_prim. exact Hab.
    - apply (l_new_sc L).
    - apply L_set_constraint. exact Hab.
    - apply (l_append_lst L).
    - apply (l_set_lst L).
    - apply L_assert_done. exact Hab.
    - apply (l_catch L); assumption.
    - destruct abort; [apply (l_fail L)|apply (l_emit L); apply Hab; reflexivity].
  Qed.

  Theorem L_dec_root T abort r : (abort = false -> wn = true) -> P (dec_root T abort r).
  Proof. intros Hab. apply P_dec_root. apply lclosed_closed. exact Hab. Qed.
End Low.

(** the usual case: closed under every operation, warnings included - holds of the decoder in both modes *)
Module Both.
  Notation lclosed P := (lclosedW P true).
  Definition L_dec_prim P (L : lclosed P) abort p pa : P _ (dec_prim abort p pa) := L_dec_prim P true L abort p pa (fun _ => eq_refl).
  Definition lclosed_closed P (L : lclosed P) abort : closed abort P := lclosed_closed P true L abort (fun _ => eq_refl).
  Definition L_dec_root P (L : lclosed P) T abort r : P _ (dec_root T abort r) := L_dec_root P true L T abort r (fun _ => eq_refl).
End Both.

(** closed under every operation but the emission of a warning - holds of the strict-mode decoder *)
Theorem strict_closed P : lclosedW P false -> closed true P.
Proof. intros L. apply (lclosed_closed P false L true). discriminate. Qed.
Theorem strict_dec_root P : lclosedW P false -> forall T r, P _ (dec_root T true r).
Proof. intros L T r. apply (L_dec_root P false L T true r). discriminate. Qed.
Export Both.
