(** Predicates closed under the low-level operations of the monad are closed under the decoder's
    building blocks ([Closure.closed]), hence hold of every decoder function. *)
From Coq Require Import ZArith List String Bool.
From TV Require Import Layout.Types Base.Bytes Model.Monad Model.Constraints Model.Ints Model.Decoder Model.Message Proofs.Closure.
Import ListNotations.
Open Scope Z_scope.

Section Low.
  Variable P : forall A : Type, M A -> Prop.
  Arguments P {A} _.

  Record lclosed : Prop := mkL {
    l_ret : forall A (a : A), P (ret a);
    l_bind : forall A B (m : M A) (f : A -> M B), P m -> (forall a, P (f a)) -> P (bind m f);
    l_get : P get;
    l_fail : forall A e, P (@fail A e);
    l_internal : forall A k, P (@internal_ A k);
    l_fuel : forall A, P (@fuel_ A);
    l_emit : forall a, (match a with Rd _ => False | _ => True end) -> P (emit a);
    l_read1 : P read1;
    l_consume : forall n, P (consume n);
    l_set_sc : forall i c, P (set_sc i c);
    l_new_sc : P new_sc;
    l_set_lst : forall l, P (set_lst l);
    l_append_lst : forall i, P (append_lst i);
    l_remove_lst : forall i, P (remove_lst i);
    l_catch : forall A abort ids (m h : M A), P m -> P h -> P (catch_exceeded abort ids m h) }.

  Hypothesis L : lclosed.

  Lemma L_readn n : P (readn n).
  Proof.
    induction n as [|n IH]; cbn [readn]; [apply (l_ret L)|].
    apply (l_bind L); [apply (l_read1 L)|]. intros b. apply (l_bind L); [apply IH|]. intros bs. apply (l_ret L).
  Qed.

  Lemma L_bump_all ids n : P (bump_all ids n).
  Proof.
    induction ids as [|i r IH]; cbn [bump_all]; [apply (l_ret L)|].
    apply (l_bind L); [apply (l_get L)|]. intros s.
    apply (l_bind L); [apply (l_set_sc L)|]. intros _. apply IH.
  Qed.

  Lemma L_retire_all ids : P (retire_all ids).
  Proof.
    induction ids as [|i r IH]; cbn [retire_all]; [apply (l_ret L)|].
    apply (l_bind L); [apply (l_get L)|]. intros s.
    apply (l_bind L); [apply (l_set_sc L)|]. intros _. apply IH.
  Qed.

  Lemma L_bump_others ids self n : P (bump_others ids self n).
  Proof.
    induction ids as [|i r IH]; cbn [bump_others]; [apply (l_ret L)|].
    apply (l_bind L); [apply (l_get L)|]. intros s.
    apply (l_bind L); [|intros _; apply IH].
    destruct (Nat.eqb i self || sc_obs (get_sc s i)); [apply (l_ret L)|apply (l_set_sc L)].
  Qed.

  Lemma L_purge : P purge.
  Proof. unfold purge. apply (l_bind L); [apply (l_get L)|]. intros s. apply (l_set_lst L). Qed.

  Lemma L_bytes_parsed p size : P (bytes_parsed p size).
  Proof.
    unfold bytes_parsed. apply (l_bind L); [apply L_purge|]. intros _.
    apply (l_bind L); [apply (l_get L)|]. intros s.
    destruct (find_violated s (lst s) size []) as [[[[before i] by_] after]|]; [|apply L_bump_all].
    apply (l_bind L); [apply L_bump_all|]. intros _.
    apply (l_bind L); [apply L_retire_all|]. intros _.
    apply (l_bind L); [apply (l_set_lst L)|]. intros _.
    apply (l_bind L); [apply (l_set_sc L)|]. intros _.
    apply (l_bind L); [apply (l_consume L)|]. intros _. apply (l_fail L).
  Qed.

  Lemma L_set_constraint abort i p n : P (set_constraint abort i p n).
  Proof.
    unfold set_constraint. destruct (n <? 0); [apply (l_internal L)|].
    apply (l_bind L); [apply (l_get L)|]. intros s.
    apply (l_bind L); [apply (l_set_sc L)|]. intros _.
    apply (l_bind L); [apply (l_get L)|]. intros s'.
    destruct (anticipate _ _ _ _) as [[ci b]|]; [|apply (l_ret L)].
    destruct abort; [apply (l_fail L)|apply (l_emit L); exact I].
  Qed.

  Lemma L_assert_done abort i : P (assert_done abort i).
  Proof.
    unfold assert_done. apply (l_bind L); [apply (l_get L)|]. intros s.
    destruct (sc_max (get_sc s i)); [|apply (l_internal L)].
    destruct (sc_obs (get_sc s i)); [apply (l_ret L)|].
    apply (l_bind L); [apply (l_set_sc L)|]. intros _.
    destruct (_ =? _); [apply (l_ret L)|].
    destruct abort; [apply (l_fail L)|].
    apply (l_bind L); [apply (l_emit L); exact I|]. intros _.
    apply (l_bind L); [apply L_bump_others|]. intros _. apply (l_consume L).
  Qed.

  Lemma L_dec_prim abort p pa : P (dec_prim abort p pa).
  Proof.
    unfold dec_prim. apply (l_bind L); [apply L_bytes_parsed|]. intros _.
    apply (l_bind L); [apply L_readn|]. intros bs.
    destruct (valid p _).
    - apply (l_bind L); [apply (l_emit L); exact I|]. intros _. apply (l_ret L).
    - destruct abort; [apply (l_fail L)|].
      apply (l_bind L); [apply (l_emit L); exact I|]. intros _.
      apply (l_bind L); [apply (l_emit L); exact I|]. intros _. apply (l_ret L).
  Qed.

  Theorem lclosed_closed abort : closed abort (@P).
  Proof.
    constructor; intros.
    - apply (l_ret L).
    - apply (l_bind L); assumption.
    - apply (l_get L).
    - apply (l_fail L).
    - apply (l_internal L).
    - apply (l_fuel L).
    - apply (l_emit L). exact I.
    - apply L_dec_prim.
    - apply (l_new_sc L).
    - apply L_set_constraint.
    - apply (l_append_lst L).
    - apply (l_set_lst L).
    - apply L_assert_done.
    - apply (l_catch L); assumption.
    - destruct abort; [apply (l_fail L)|apply (l_emit L); exact I].
  Qed.

  Theorem L_dec_root T abort r : P (dec_root T abort r).
  Proof. apply P_dec_root. apply lclosed_closed. Qed.
End Low.
