(** Simulation, part 5: through the byte pump - C01 for every structure type. *)
From Coq Require Import ZArith List String Bool Lia ZifyBool.
From TV Require Import Layout.Types Base.Bytes Model.Monad Model.Constraints Model.Ints Model.Decoder Model.Message Model.Pump
  Spec.Value Spec.Message Proofs.Account Proofs.Tiling Proofs.PumpProofs Proofs.Sim1 Proofs.Sim2 Proofs.Sim3 Proofs.Sim4.
Import ListNotations.
Open Scope list_scope.
Open Scope Z_scope.

Lemma stamps_reads is_stream len bs tr nrd :
  stamps is_stream len (map Rd bs ++ tr) nrd = stamps is_stream len tr (nrd + blen bs).
Proof.
  revert nrd. induction bs as [|b r IH]; intros nrd; cbn [map app stamps].
  - unfold blen. cbn. rewrite Z.add_0_r. reflexivity.
  - rewrite IH. f_equal. unfold blen. cbn [List.length]. lia.
Qed.

(** a trace of the right shape is stamped exactly like the specification stamps its items *)
Lemma shape_stamps len tr items : shape tr items -> forall nrd,
  stamps false len tr nrd = stamp_lenient len items nrd.
Proof.
  induction 1 as [|pa t tr r H IH|pa p z bs tr r L Hw H IH]; intros nrd.
  - reflexivity.
  - cbn [stamps stamp_lenient andb]. rewrite IH. reflexivity.
  - rewrite stamps_reads. cbn [stamps stamp_lenient andb].
    replace (blen bs) with (pwidth p) by (unfold blen; lia). unfold vwarn.
    destruct (valid p z); cbn [app stamps]; rewrite IH; reflexivity.
Qed.

(** with only valid leaves there are no warnings *)
Definition item_valid (i : item) : bool := match i with IPrim _ p z => valid p z | INode _ _ => true end.

Lemma items_valid_app a b : forallb item_valid (a ++ b) = forallb item_valid a && forallb item_valid b.
Proof. apply forallb_app. Qed.

Lemma items_of_valid v : all_valid v = forallb item_valid (items_of v).
Proof.
  revert v. fix IH 1. intros [pa p z|pa t kids]; cbn [all_valid items_of forallb item_valid].
  - rewrite andb_true_r. reflexivity.
  - induction kids as [|k r IHr]; cbn [forallb flat_map]; [reflexivity|].
    rewrite items_valid_app, IH, IHr. reflexivity.
Qed.

Lemma stamp_lenient_valid len items : forall off, forallb item_valid items = true -> stamp_lenient len items off = stamp_items len items off.
Proof.
  induction items as [|[pa p z|pa t] r IH]; intros off H; cbn [stamp_lenient stamp_items forallb item_valid] in *; [reflexivity| |].
  - apply andb_prop in H as [H1 H2]. rewrite H1. cbn [app]. rewrite IH by exact H2. reflexivity.
  - rewrite IH by exact H. reflexivity.
Qed.

Lemma ok_leaves_true v : ok_leaves true v = all_valid v.
Proof.
  revert v. fix IH 1. intros [pa p z|pa t kids]; cbn [all_valid ok_leaves negb orb]; [reflexivity|].
  induction kids as [|k r IHr]; cbn [forallb]; [reflexivity|]. rewrite IH, IHr. reflexivity.
Qed.
Lemma ok_leaves_false v : ok_leaves false v = true.
Proof.
  revert v. fix IH 1. intros [pa p z|pa t kids]; cbn [ok_leaves negb orb]; [reflexivity|].
  induction kids as [|k r IHr]; cbn [forallb]; [reflexivity|]. rewrite IH, IHr. reflexivity.
Qed.

Lemma shape_bytes tr items : shape tr items -> blen (bytes_of tr) = List.fold_right (fun i acc => match i with IPrim _ p _ => pwidth p + acc | INode _ _ => acc end) 0 items.
Proof.
  induction 1 as [|pa t tr r H IH|pa p z bs tr r L Hw H IH]; cbn [bytes_of fold_right]; [reflexivity|exact IH|].
  rewrite bytes_of_app, bytes_of_map_Rd. unfold vwarn. destruct (valid p z); cbn [app bytes_of]; unfold blen in *; rewrite app_length; lia.
Qed.

(** from a completed run of the processor with a well-shaped trace to the result of the byte pump (any root but a stream) *)
Lemma accepted_of_run T abort r bs tr s' a items :
  is_stream_root r = false -> dec_root T abort r (init_st bs) = (tr, s', Ok a) -> shape tr items -> inp s' = [] ->
  decode T abort r bs = (stamp_lenient (Z.of_nat (List.length bs)) items 0, OAccepted).
Proof.
  intros Hr Er Sh I'. unfold decode, pump. rewrite Er, Hr.
  destruct (pump_go_nostream (Z.of_nat (List.length bs)) tr (mkP 0 None [])) as (ps & G & _ & N).
  rewrite G. pose proof (pump_go_stamps _ _ _ _ _ _ G) as O. cbn [ps_out ps_nrd rev app] in O, N. rewrite Z.add_0_l in N.
  pose proof (accounts_dec_root T abort r (init_st bs) tr s' (Ok a) Er) as A. cbn [init_st inp] in A.
  assert (R : skipZ bs (ps_nrd ps) = inp s') by (rewrite N; rewrite A at 1; apply skipZ_app).
  rewrite R, I'. rewrite O. rewrite (shape_stamps _ _ _ Sh). reflexivity.
Qed.

(** both modes at once: whenever the specification reads the whole input as a value of type [t] (in strict mode:
    with only valid leaves), decoding emits every field's event, out-of-range leaves followed by their warning,
    with the specified look-ahead, and accepts *)
Theorem types_decode_in_mode T abort t bs v :
  sp_ty T t root_path None false bs = Some (v, []) -> ok_leaves abort v = true ->
  decode T abort (RType t) bs = (stamp_lenient (Z.of_nat (List.length bs)) (items_of v) 0, OAccepted).
Proof.
  intros Es AV.
  destruct (sim_all T abort) as (St & _).
  assert (W0 : wf_st (mkSt bs [] [])) by (split; constructor).
  destruct (St t root_path None false bs v [] (mkSt bs [] []) Es AV W0 eq_refl ltac:(unfold blen; cbn; lia) ltac:(constructor))
    as (tr & s' & a & c & E & Sh & Ic & I' & V' & W' & _).
  apply (accepted_of_run T abort (RType t) bs tr s' a (items_of v) eq_refl); [|exact Sh|exact I'].
  cbn [dec_root]. unfold bind. cbn [set_lst init_st inp store lst]. rewrite E. reflexivity.
Qed.

(** C01 for structure types: whenever the specification reads the whole input as a value of type [t] with only
    valid leaves, strict decoding emits exactly the specified events (with the specified look-ahead) and accepts *)
Theorem types_decode_as_specified T t bs evs :
  spec_events T (RType t) bs = Some evs -> decode T true (RType t) bs = (evs, OAccepted).
Proof.
  unfold spec_events, sp_root. destruct (sp_ty T t root_path None false bs) as [[v [|x xs]]|] eqn:Es; try discriminate.
  cbn [forallb flat_map]. rewrite andb_true_r, app_nil_r. destruct (all_valid v) eqn:AV; [|discriminate]. intros [= <-].
  rewrite (types_decode_in_mode T true t bs v Es) by (rewrite ok_leaves_true; exact AV).
  rewrite stamp_lenient_valid by (rewrite <- items_of_valid; exact AV). reflexivity.
Qed.

(** C08, value faults only: whenever the input is structurally consistent for type [t], warn-mode decoding emits the
    event of every field of the field-by-field reading, one warning directly after each out-of-range leaf, and accepts *)
Theorem types_decode_lenient T t bs evs :
  spec_lenient T (RType t) bs = Some evs -> decode T false (RType t) bs = (evs, OAccepted).
Proof.
  unfold spec_lenient, sp_root. destruct (sp_ty T t root_path None false bs) as [[v [|x xs]]|] eqn:Es; try discriminate.
  cbn [flat_map]. rewrite app_nil_r. intros [= <-].
  apply (types_decode_in_mode T false t bs v Es). apply ok_leaves_false.
Qed.
