(** Simulation, part 5: through the byte pump - C01 for every structure type. *)
From Coq Require Import ZArith List String Bool Lia ZifyBool.
From TV Require Import Layout.Types Base.Bytes Model.Monad Model.Constraints Model.Ints Model.Decoder Model.Message Model.Pump
  Spec.Value Spec.Message Proofs.Account Proofs.Tiling Proofs.PumpProofs Proofs.Sim1 Proofs.Sim2 Proofs.Sim3 Proofs.Sim4.
Import ListNotations.
Open Scope list_scope.
Open Scope Z_scope.

Lemma stamps_reads is_stream len bs tr nrd :
  stamps is_stream len (map Rd bs ++ tr) nrd = stamps is_stream len tr (nrd + blen bs).
Proof.
  revert nrd. induction bs as [|b r IH]; intros nrd; cbn [map app stamps].
  - unfold blen. cbn. rewrite Z.add_0_r. reflexivity.
  - rewrite IH. f_equal. unfold blen. cbn [List.length]. lia.
Qed.

(** a trace of the right shape is stamped exactly like the specification stamps its items *)
Lemma shape_stamps len tr items : shape tr items -> forall nrd,
  stamps false len tr nrd = stamp_items len items nrd.
Proof.
  induction 1 as [|pa t tr r H IH|pa p z bs tr r L Hw H IH]; intros nrd.
  - reflexivity.
  - cbn [stamps stamp_items andb]. rewrite IH. reflexivity.
  - rewrite stamps_reads. cbn [stamps stamp_items andb].
    replace (blen bs) with (pwidth p) by (unfold blen; lia). rewrite IH. reflexivity.
Qed.

Lemma shape_bytes tr items : shape tr items -> blen (bytes_of tr) = List.fold_right (fun i acc => match i with IPrim _ p _ => pwidth p + acc | INode _ _ => acc end) 0 items.
Proof.
  induction 1 as [|pa t tr r H IH|pa p z bs tr r L Hw H IH]; cbn [bytes_of fold_right]; [reflexivity|exact IH|].
  rewrite bytes_of_app, bytes_of_map_Rd. cbn [bytes_of]. unfold blen in *. rewrite app_length. lia.
Qed.

(** C01 for structure types: whenever the specification reads the whole input as a value of type [t] with only
    valid leaves, strict decoding emits exactly the specified events (with the specified look-ahead) and accepts *)
Theorem types_decode_as_specified T t bs evs :
  spec_events T (RType t) bs = Some evs -> decode T true (RType t) bs = (evs, OAccepted).
Proof.
  unfold spec_events, sp_root. destruct (sp_ty T t root_path None false bs) as [[v [|x xs]]|] eqn:Es; try discriminate.
  cbn [forallb flat_map]. rewrite andb_true_r, app_nil_r. destruct (all_valid v) eqn:AV; [|discriminate]. intros [= <-].
  destruct (sim_all T) as (St & _).
  (* the run of the processor *)
  assert (W0 : wf_st (mkSt bs [] [])) by (split; constructor).
  destruct (St t root_path None false bs v [] (mkSt bs [] []) Es AV W0 eq_refl ltac:(unfold blen; cbn; lia) ltac:(constructor))
    as (tr & s' & a & c & E & Sh & Ic & I' & V' & W' & _).
  unfold decode, pump. cbn [is_stream_root dec_root].
  assert (Er : (bind (set_lst []) (fun _ => dec_ty T true t root_path None false)) (init_st bs) = (tr, s', Ok a)).
  { unfold bind. cbn [set_lst init_st inp store lst]. rewrite E. reflexivity. }
  rewrite Er.
  destruct (pump_go_nostream (Z.of_nat (List.length bs)) tr (mkP 0 None [])) as (ps & G & _ & N).
  rewrite G. pose proof (pump_go_stamps _ _ _ _ _ _ G) as O. cbn [ps_out ps_nrd rev app] in O, N. rewrite Z.add_0_l in N.
  pose proof (accounts_dec_root T true (RType t) (init_st bs) tr s' (Ok a)) as A. cbn [dec_root] in A. specialize (A Er). cbn [init_st inp] in A.
  assert (R : skipZ bs (ps_nrd ps) = inp s') by (rewrite N; rewrite A at 1; apply skipZ_app).
  rewrite R, I'. rewrite O. rewrite (shape_stamps _ _ _ Sh). reflexivity.
Qed.
