(** C06, part 3: commands, responses and streams - strict decoding of arbitrary input never ends in an internal
    error (nor at a loop bound below the stream bound).  Tools: strict field wrapper, areas, the session list. *)
From Coq Require Import ZArith List String Bool Lia ZifyBool.
From TV Require Import Layout.Types Base.Bytes Model.Monad Model.Constraints Model.Ints Model.Decoder Model.Message Model.Pump
  Spec.Value Proofs.Closure Proofs.LowClosure Proofs.Account Proofs.Agree Proofs.Sim1 Proofs.Sim2 Proofs.Sim3 Proofs.Sim4 Proofs.Sim7
  Proofs.Sim8 Proofs.Sim9 Proofs.Safe1 Proofs.Safe2.
Import ListNotations.
Open Scope string_scope.
Open Scope list_scope.
Open Scope Z_scope.

(** in strict mode the field wrapper is plain sequencing *)
Lemma try_field_strict A R ids (m : M A) (ab : M R) (k : A -> M R) s : try_field true ids m ab k s = bind m k s.
Proof.
  unfold try_field. unfold bind at 1. rewrite catch_true. unfold bind.
  destruct (m s) as [[tr s1] o]. destruct o as [a|e| |kk|]; cbn [ret]; try reflexivity.
  rewrite app_nil_r. destruct (k a s1) as [[tr2 s2] o2]. reflexivity.
Qed.

Lemma r2_try_field A R ids (m : M A) (ab : M R) (k : A -> M R) s (P : A -> list action -> st -> Prop) (Q : R -> list action -> st -> Prop) :
  runs2 m s P -> (forall a tr1 s1, P a tr1 s1 -> runs2 (k a) s1 (fun b tr2 s2 => Q b (tr1 ++ tr2) s2)) ->
  runs2 (try_field true ids m ab k) s Q.
Proof. intros Hm Hk. eapply r2_eq; [apply try_field_strict|]. eapply r2_bind; eassumption. Qed.

Section Areas.
  Variable T : tables.

  (** an area / element type passing the check: good, and when completed it charged what it read *)
  Lemma ty_r2 t pa s : safe_ty t = true -> nonunion t = true -> wf_st s -> Forall isbyte (inp s) ->
    runs2 (dec_ty T true t pa None false) s (fun a tr s' => chb s tr s' /\ shape_val t a).
  Proof.
    intros Hs Hn W Hb. apply r2_of.
    - intros tr s' o E. apply (proj1 (safe_all T) t Hs pa None s (nonunion_sel t None Hn) Hb tr s' o E).
    - intros tr s' a E. apply (proj1 (inv_all T) t Hs pa None s W Hb tr s' a E).
  Qed.

  Lemma prim_r2 p pa s : 0 <= pwidth p -> wf_st s -> Forall isbyte (inp s) ->
    runs2 (dec_prim true p pa) s (fun a tr s' => chb s tr s' /\ exists bs, a = Some (VInt_ (pname p) (from_bytes (psigned p) bs)) /\
                                               bytes_of tr = bs /\ blen bs = pwidth p /\ Forall isbyte bs).
  Proof.
    intros Hw W Hb tr s' o E. destruct (dec_prim_done p pa s W Hw tr s' o E) as [G P]. split; [exact G|]. intros a ->.
    destruct (P a eq_refl) as (C & bs & -> & Hbt & Hbl & Hi).
    split; [apply (chb_of_acc _ _ _ _ _ _ (L_dec_prim (@accounts) accounts_lclosed true p pa) E C)|].
    exists bs. repeat split; try assumption. rewrite Hi in Hb. apply Forall_app in Hb as [Hb _]. exact Hb.
  Qed.

  Lemma unsigned_nonneg bs : Forall isbyte bs -> 0 <= from_bytes false bs.
  Proof.
    intros H. destruct bs as [|b0 bs']; [cbv; discriminate|].
    apply (from_bytes_range false (b0 :: bs') H ltac:(discriminate)). reflexivity.
  Qed.
End Areas.

Lemma r2_and_oki A (m : M A) s (P Q : A -> list action -> st -> Prop) :
  runs2 m s P -> okinv m s Q -> runs2 m s (fun a tr s' => P a tr s' /\ Q a tr s').
Proof.
  intros Hp Hq tr s' o E. destruct (Hp _ _ _ E) as [G P1]. split; [exact G|]. intros a ->. split; [apply P1; reflexivity|apply (Hq _ _ _ E)].
Qed.

(** ---- the session list, for arbitrary input *)
Definition first_reads (t : ty) : bool :=
  match t with
  | TPrim p => 1 <=? pwidth p
  | TTpm2bList _ _ _ szp _ => 1 <=? pwidth szp
  | TTpm2bStruct _ _ _ szp _ => 1 <=? pwidth szp
  | _ => false
  end.
Definition reads_one (t : ty) : bool :=
  match t with TStruct _ _ (FPlain _ t1 _) => first_reads t1 | _ => false end.

Lemma prim_reads p pa s : okinv (dec_prim true p pa) s (fun _ tr _ => pwidth p <= blen (bytes_of tr)).
Proof.
  intros tr s' a E. unfold dec_prim in E.
  destruct (bind_inv _ _ _ _ _ _ _ _ E) as (tr2 & s2 & o2 & E2 & R2).
  destruct o2 as [u|ee| |kk|]; try (destruct R2 as [R2 _]; discriminate). destruct R2 as (tr3 & E3 & ->).
  destruct (bind_inv _ _ _ _ _ _ _ _ E3) as (tr4 & s4 & o4 & E4 & R4).
  destruct o4 as [bs|ee| |kk|]; try (destruct R4 as [R4 _]; discriminate). destruct R4 as (tr5 & E5 & ->).
  destruct (readn_done _ _ _ _ _ E4) as (-> & L4 & _).
  rewrite !bytes_of_app, bytes_of_map_Rd. unfold blen. rewrite !app_length. lia.
Qed.

Lemma reads_bind A B (m : M A) (f : A -> M B) s n : okinv m s (fun _ tr _ => n <= blen (bytes_of tr)) -> okinv (bind m f) s (fun _ tr _ => n <= blen (bytes_of tr)).
Proof.
  intros H. apply oki_bind with (P := fun _ tr _ => n <= blen (bytes_of tr)); [exact H|].
  intros a tr1 s1 H1 tr s' b _. rewrite bytes_of_app. unfold blen in *. rewrite app_length. lia.
Qed.

Lemma reads_after A B (m : M A) (f : A -> M B) s n : (forall a s1, okinv (f a) s1 (fun _ tr _ => n <= blen (bytes_of tr))) -> okinv (bind m f) s (fun _ tr _ => n <= blen (bytes_of tr)).
Proof.
  intros H. apply oki_bind with (P := fun _ _ _ => True); [intros ? ? ? _; exact Logic.I|].
  intros a tr1 s1 _ tr s' b E. rewrite bytes_of_app. pose proof (H a s1 _ _ _ E). unfold blen in *. rewrite app_length. lia.
Qed.

Lemma decls_app fs : forall prev, decls fs prev = decls fs [] ++ prev.
Proof.
  induction fs as [|n t r IH|n e r IH|n sl u r IH]; intros prev; cbn [decls]; [reflexivity| | |];
    rewrite IH, (IH [_]), <- app_assoc; reflexivity.
Qed.

Lemma decls_lookup attr fs : field_is_prim attr fs = true -> exists p, lookupS attr (rev (decls fs [])) = Some (Some p).
Proof.
  induction fs as [|n t r IH|n e r IH|n sl u r IH]; cbn [field_is_prim decls]; [discriminate| | |];
    rewrite decls_app, rev_app_distr; cbn [rev app lookupS]; destruct (String.eqb attr n); try discriminate; try exact IH.
  destruct t; try discriminate. intros _. eexists. reflexivity.
Qed.

Definition has_attr (attr : string) (a : option value) : Prop :=
  exists tid fields tn z, a = Some (VStruct_ tid fields) /\ lookupS attr fields = Some (Some (VInt_ tn z)).

Lemma shape_has_attr attr name isp fs a : field_is_prim attr fs = true -> shape_val (TStruct name isp fs) a -> has_attr attr a.
Proof.
  intros Hf (vals & -> & HR). destruct (decls_lookup attr fs Hf) as [p Hl].
  apply Forall2_rev in HR. destruct (relp_lookup attr _ _ p HR Hl) as [z Hz]. eexists _, _, _, z. split; [reflexivity|exact Hz].
Qed.

Lemma any_attr_total attr mask accs : Forall (has_attr attr) accs -> exists b, any_attr attr mask (map unwrap accs) = Some b.
Proof.
  induction 1 as [|a accs (tid & fields & tn & z & -> & Hl) _ IH]; [eexists; reflexivity|].
  cbn [map unwrap any_attr field_of]. rewrite Hl. destruct (negb (Z.land z mask =? 0)); [eexists; reflexivity|exact IH].
Qed.

Section FirstReads.
  Variable T : tables.

  Lemma first_reads_ok t1 p s : first_reads t1 = true -> okinv (dec_ty T true t1 p None false) s (fun _ tr _ => 1 <= blen (bytes_of tr)).
  Proof.
    destruct t1 as [pp|? ? ?|name szf buf szp el|name szf buf szp inner|? ?]; try discriminate; cbn [first_reads]; intros Hw.
    - change (dec_ty T true (TPrim pp) p None false) with (dec_prim true pp p).
      eapply oki_weaken; [|apply prim_reads]. cbv beta. intros _ tr _ H. lia.
    - rewrite dec_ty_tpm2b_list. unfold dec_tpm2b_list. apply reads_after. intros _ s1. apply reads_bind.
      eapply oki_weaken; [|apply prim_reads]. cbv beta. intros _ tr _ H. lia.
    - rewrite dec_ty_tpm2b_struct. apply reads_after. intros _ s1. cbv zeta. apply reads_bind.
      eapply oki_weaken; [|apply prim_reads]. cbv beta. intros _ tr _ H. lia.
  Qed.

End FirstReads.

Section Sized.
  Variable T : tables.
  Variable e : ty.
  Variable attr : string.
  Hypothesis He : safe_ty e = true.
  Hypothesis Hne : nonunion e = true.
  Hypothesis Hre : reads_one e = true.
  Hypothesis Hae : session_type_ok attr e = true.
  Variable cid : nat.
  Variable mx : Z.
  Variable pa : path.

  Definition ebody (p : path) : M (option value) := dec_ty T true e p None false.

  Lemma elem_reads p s : okinv (ebody p) s (fun _ tr _ => 1 <= blen (bytes_of tr)).
  Proof.
    unfold ebody. destruct e as [|name isp [|n t1 r| |]| | |]; try discriminate. cbn [reads_one] in Hre.
    rewrite dec_ty_struct. cbn [andb]. cbv zeta.
    apply reads_after. intros _ s1. apply reads_bind. rewrite dec_fields_plain. apply reads_bind. apply (first_reads_ok T). exact Hre.
  Qed.

  Lemma elem_r2 p s : wf_st s -> Forall isbyte (inp s) ->
    runs2 (ebody p) s (fun a tr s' => (chb s tr s' /\ has_attr attr a) /\ 1 <= blen (bytes_of tr)).
  Proof.
    intros W Hb. apply r2_and_oki; [|apply elem_reads].
    eapply r2_weaken; [|apply (ty_r2 T e p s He Hne W Hb)]. cbv beta. intros a tr s' [C Hv]. split; [exact C|].
    destruct e as [|name isp fs| | |]; try discriminate. apply (shape_has_attr attr name isp fs a Hae Hv).
  Qed.

  Definition linv (V : list entry) (al : Z) (s : st) : Prop :=
    wf_st s /\ Forall isbyte (inp s) /\ view s = V ++ [(cid, Some mx, al)] /\ ~ In cid (ids_of V).

  Lemma loop_r2 : forall n i acc s V al, linv V al s -> Forall (has_attr attr) acc ->
    runs2 (iter n (sstep ebody cid mx pa) (i, acc)) s (fun r tr s' =>
      linv (bump (blen (bytes_of tr)) V) (al + blen (bytes_of tr)) s' /\ frame s s' /\ Forall (has_attr attr) (snd r) /\
      (Z.of_nat n <= blen (bytes_of tr) \/ mx <= al + blen (bytes_of tr))).
  Proof.
    induction n as [|n IH]; intros i acc s V al (W & Hb & Vw & Hn) Hacc.
    - cbn [iter]. apply r2_ret. cbn [bytes_of]. unfold blen. cbn [List.length]. rewrite bump_0, Z.add_0_r.
      split; [split; [exact W|split; [exact Hb|split; [exact Vw|exact Hn]]]|]. split; [apply frame_refl|]. split; [exact Hacc|left; lia].
    - cbn [iter]. destruct (view_last _ _ _ _ _ Vw) as (Hm & Ha & _).
      apply r2_bind with (P := fun r tr s1 => linv (bump (blen (bytes_of tr)) V) (al + blen (bytes_of tr)) s1 /\ frame s s1 /\ Forall (has_attr attr) (snd r) /\
                                             (1 <= blen (bytes_of tr) \/ mx <= al + blen (bytes_of tr))).
      + unfold sstep. eapply r2_eq; [apply bind_get|]. change (get_sc (mkSt [] (store s) (lst s)) cid) with (get_sc s cid). rewrite Ha.
        destruct (al <? mx) eqn:Hlt.
        * cbn [fst snd].
          apply r2_bind with (P := fun a tr s1 => (chb s tr s1 /\ has_attr attr a) /\ 1 <= blen (bytes_of tr)); [apply elem_r2; assumption|].
          intros v tr1 s1 [[[(V1 & W1 & F1) B1] Hv] Hr]. apply r2_ret. rewrite app_nil_r. cbn [snd].
          split; [split; [exact W1|split; [apply B1, Hb|split; [|rewrite ids_bump; exact Hn]]]|].
          { rewrite V1, Vw, bump_app. reflexivity. }
          split; [exact F1|]. split; [constructor; assumption|left; exact Hr].
        * apply r2_ret. cbn [bytes_of snd]. unfold blen. cbn [List.length]. rewrite bump_0, Z.add_0_r.
          split; [split; [exact W|split; [exact Hb|split; [exact Vw|exact Hn]]]|]. split; [apply frame_refl|]. split; [exact Hacc|right; lia].
      + intros [i1 acc1] tr1 s1 (L1 & F1 & Hacc1 & Hp1). cbn [snd] in Hacc1.
        eapply r2_weaken; [|apply (IH i1 acc1 s1 _ _ L1 Hacc1)]. cbv beta. intros r tr2 s2 (L2 & F2 & Hacc2 & Hp2).
        rewrite bytes_of_app. unfold blen in *. rewrite app_length, Nat2Z.inj_add, bump_bump, <- Z.add_assoc in *.
        split; [exact L2|]. split; [exact (frame_trans _ _ _ F1 F2)|]. split; [exact Hacc2|]. lia.
  Qed.

  (** the whole size-governed list *)
  Lemma sized_r2 lid s V al : linv V al s ->
    runs2 (dec_sized_array true lid pa cid ebody) s (fun a tr s' =>
      view s' = bump (blen (bytes_of tr)) V /\ wf_st s' /\ Forall isbyte (inp s') /\ frame s s' /\
      sc_obs (get_sc s' cid) = true /\ sc_max (get_sc s' cid) = Some mx /\ exists accs, a = Some (listval accs) /\ Forall (has_attr attr) accs).
  Proof.
    intros (W & Hb & Vw & Hn). destruct (view_last _ _ _ _ _ Vw) as (Hm & Ha & _).
    unfold dec_sized_array.
    apply r2_bind with (P := fun _ tr s1 => tr = [sev pa lid] /\ s1 = s); [apply r2_emit; split; reflexivity|]. intros _ tr0 s0 (-> & ->).
    eapply r2_eq; [apply bind_get|]. change (get_sc (mkSt [] (store s) (lst s)) cid) with (get_sc s cid). rewrite Hm.
    eapply r2_eq; [apply catch_true|]. rewrite Ha.
    apply r2_bind with (P := fun r tr s1 => linv (bump (blen (bytes_of tr)) V) (al + blen (bytes_of tr)) s1 /\ frame s s1 /\ Forall (has_attr attr) (snd r) /\
                                           mx <= al + blen (bytes_of tr)).
    - destruct (Z_le_gt_dec (mx - al) 0) as [Hle|Hgt].
      + destruct (mx - al) as [|q|q] eqn:Eq; cbn [repZ]; try lia;
          (apply r2_ret; cbn [bytes_of snd]; unfold blen; cbn [List.length]; rewrite bump_0, Z.add_0_r;
           split; [split; [exact W|split; [exact Hb|split; [exact Vw|exact Hn]]]|]; split; [apply frame_refl|]; split; [constructor|lia]).
      + eapply r2_eq; [apply (repZ_iter _ _ (mx - al) (0, []) ltac:(lia))|].
        eapply r2_weaken; [|apply (loop_r2 (Z.to_nat (mx - al)) 0 [] s V al ltac:(split; [exact W|split; [exact Hb|split; [exact Vw|exact Hn]]]) ltac:(constructor))].
        cbv beta. intros r tr s' (L & F & Hacc & Hp). split; [exact L|]. split; [exact F|]. split; [exact Hacc|]. lia.
    - intros r tr1 s1 ((W1 & B1 & V1 & Hn1) & F1 & Hacc & Hge).
      destruct (view_last _ _ _ _ _ V1) as (Hm1 & Ha1 & _).
      eapply r2_eq; [apply bind_get|]. change (get_sc (mkSt [] (store s1) (lst s1)) cid) with (get_sc s1 cid). rewrite Ha1.
      replace (al + blen (bytes_of tr1) <? mx) with false by lia.
      apply r2_bind with (P := fun _ tr s2 => tr = [] /\ inp s2 = inp s1 /\ view s2 = bump (blen (bytes_of tr1)) V /\ wf_st s2 /\ frame s1 s2 /\
                                             sc_obs (get_sc s2 cid) = true /\ sc_max (get_sc s2 cid) = Some mx).
      + eapply r2_weaken; [|apply (assert_done_done cid mx (al + blen (bytes_of tr1)) _ s1 W1 V1 Hn1)].
        cbv beta. intros _ tr s2 (-> & _ & I2 & _ & V2 & W2 & _ & F2 & Ob2 & Mx2).
        split; [reflexivity|]. split; [exact I2|]. split; [exact V2|]. split; [exact W2|]. split; [exact F2|]. split; [exact Ob2|exact Mx2].
      + intros _ tr2 s2 (-> & I2 & V2 & W2 & F2 & Ob2 & Mx2). apply r2_ret. rewrite !app_nil_r. cbn [bytes_of app].
        split; [exact V2|]. split; [exact W2|]. split; [rewrite I2; exact B1|]. split; [exact (frame_trans _ _ _ F1 F2)|].
        split; [exact Ob2|]. split; [exact Mx2|]. exists (rev (snd r)). split; [reflexivity|]. apply Forall_rev. exact Hacc.
  Qed.
End Sized.

(** ---- table conditions for the message level *)
Definition is_some {A} (o : option A) : bool := match o with Some _ => true | None => false end.

Definition session_ok (attr : string) (t : ty) : bool :=
  safe_ty t && nonunion t && reads_one t && session_type_ok attr t.

Definition enc_ok (T : tables) : bool :=
  match t_enc_param T with TTpm2bList _ _ _ _ (TPrim _) => safe_ty (t_enc_param T) | _ => false end.

Definition msg_safe (T : tables) : bool :=
  (1 <=? pwidth (p_cmd_tag T)) && (0 <=? pwidth (p_rsp_tag T)) && (0 <=? pwidth (p_cc T)) && (0 <=? pwidth (p_rc T)) &&
  (0 <=? pwidth (p_size32 T)) && negb (psigned (p_size32 T)) &&
  safe_types T && session_ok (sess_attr_field T) (t_auth_cmd T) && session_ok (sess_attr_field T) (t_auth_rsp T) && enc_ok T &&
  forallb (fun kt => is_some (lookupZ (fst kt) (rsp_handles T)) && is_some (lookupZ (fst kt) (rsp_params T))) (cmd_handles T) &&
  forallb (fun kt => is_some (lookupZ (fst kt) (rsp_params T))) (rsp_handles T).

Lemma lookupZ_in {A} c (l : list (Z * A)) t : lookupZ c l = Some t -> exists c', In (c', t) l /\ c = c'.
Proof.
  induction l as [|[k a] l IH]; cbn [lookupZ]; [discriminate|]. destruct (c =? k) eqn:E.
  - intros [= ->]. exists k. split; [left; reflexivity|lia].
  - intros H. destruct (IH H) as (c' & Hin & ->). exists c'. split; [right; exact Hin|reflexivity].
Qed.

Section Msg.
  Variable T : tables.
  Hypothesis Hsafe : msg_safe T = true.

  Let attr := sess_attr_field T.

  Lemma msg_facts :
    1 <= pwidth (p_cmd_tag T) /\ 0 <= pwidth (p_rsp_tag T) /\ 0 <= pwidth (p_cc T) /\ 0 <= pwidth (p_rc T) /\ 0 <= pwidth (p_size32 T) /\
    psigned (p_size32 T) = false /\ safe_types T = true /\ session_ok attr (t_auth_cmd T) = true /\ session_ok attr (t_auth_rsp T) = true /\ enc_ok T = true /\
    forallb (fun kt => is_some (lookupZ (fst kt) (rsp_handles T)) && is_some (lookupZ (fst kt) (rsp_params T))) (cmd_handles T) = true /\
    forallb (fun kt => is_some (lookupZ (fst kt) (rsp_params T))) (rsp_handles T) = true.
  Proof.
    unfold msg_safe in Hsafe. repeat (apply andb_prop in Hsafe as [Hsafe ?]).
    repeat split; try assumption; try lia. destruct (psigned (p_size32 T)); [discriminate|reflexivity].
  Qed.

  Lemma area_safe cc t : lookupZ cc (cmd_handles T) = Some t \/ lookupZ cc (cmd_params T) = Some t \/
                         lookupZ cc (rsp_handles T) = Some t \/ lookupZ cc (rsp_params T) = Some t ->
    nonunion t = true /\ safe_ty t = true.
  Proof.
    intros H. destruct msg_facts as (_ & _ & _ & _ & _ & _ & Hst & _). unfold safe_types in Hst. apply andb_prop in Hst as [_ Hst].
    rewrite forallb_forall in Hst.
    assert (Hin : exists c', In (c', t) (cmd_handles T ++ cmd_params T ++ rsp_handles T ++ rsp_params T)).
    { destruct H as [H|[H|[H|H]]]; destruct (lookupZ_in _ _ _ H) as (c' & Hi & _); exists c'; rewrite !in_app_iff; tauto. }
    destruct Hin as (c' & Hin). specialize (Hst _ Hin). cbn [snd] in Hst. apply andb_prop in Hst. exact Hst.
  Qed.

  (** a parameter area, with or without an opaque first parameter *)
  Lemma fields_r2 fs prev pa rd s : safe_fields fs prev = true -> relp prev rd -> wf_st s -> Forall isbyte (inp s) ->
    runs2 (dec_fields T true fs pa rd) s (fun _ tr s' => chb s tr s').
  Proof.
    intros Hs HR W Hb. apply r2_of.
    - intros tr s' o E. apply (proj1 (proj2 (safe_all T)) fs prev Hs pa rd s HR Hb tr s' o E).
    - intros tr s' a E. apply (proj1 (proj2 (inv_all T)) fs prev Hs pa rd s HR W Hb tr s' a E).
  Qed.

  Lemma params_r2 pty pa enc s : safe_ty pty = true -> nonunion pty = true -> wf_st s -> Forall isbyte (inp s) ->
    runs2 (dec_ty T true pty pa None enc) s (fun _ tr s' => chb s tr s').
  Proof.
    intros Hs Hn W Hb.
    assert (Plain : runs2 (dec_ty T true pty pa None false) s (fun _ tr s' => chb s tr s')).
    { eapply r2_weaken; [|apply (ty_r2 T pty pa s Hs Hn W Hb)]. cbv beta. intros a tr s' [C _]. exact C. }
    destruct pty as [p|name isp fs|name szf buf szp el|name szf buf szp inner|name ar]; try exact Plain.
    destruct (enc && isp && first_is_tpm2b fs) eqn:UE.
    - destruct fs as [|n t r|n el r|n sl u r]; try (cbn [first_is_tpm2b] in UE; rewrite andb_false_r in UE; discriminate).
      rewrite dec_ty_struct, UE. cbv zeta.
      cbn [safe_ty safe_fields] in Hs. apply andb_prop in Hs as [Hs Hr]. 
      assert (Ht : match t with TPrim p => Some p | _ => @None prim end = None).
      { apply andb_prop in UE as [_ UE]. destruct t; try discriminate; reflexivity. }
      rewrite Ht in Hr.
      destruct msg_facts as (_ & _ & _ & _ & _ & _ & _ & _ & _ & Henc & _). unfold enc_ok in Henc.
      apply r2_bind with (P := fun _ tr s1 => tr = [sev pa (TyEnc name)] /\ s1 = s); [apply r2_emit; split; reflexivity|]. intros _ tr0 s0 (-> & ->).
      apply r2_bind with (P := fun _ tr s1 => chb s tr s1).
      + apply r2_bind with (P := fun _ tr s1 => chb s tr s1).
        * unfold dec_enc_param. destruct (t_enc_param T) as [| |ename eszf ebuf eszp [ep| | | |]| |] eqn:Et; try discriminate.
          eapply r2_weaken; [|apply (ty_r2 T (TTpm2bList ename eszf ebuf eszp (TPrim ep)) (pchild pa n) s Henc eq_refl W Hb)].
          cbv beta. intros a tr s' [C _]. exact C.
        * intros v tr1 s1 C1. eapply r2_weaken; [|apply (fields_r2 r [(n, None)] pa [(n, v)] s1 Hr)].
          -- cbv beta. intros _ tr2 s2 C2. eapply chb_trans; eassumption.
          -- constructor; [split; [reflexivity|exact Logic.I]|constructor].
          -- exact (chb_wf _ _ _ C1).
          -- apply (proj2 C1), Hb.
      + intros vals tr1 s1 C1. apply r2_ret. rewrite app_nil_r. eapply (chb_trans s [sev pa (TyEnc name)] s); [apply chb_ev, W|exact C1].
    - eapply r2_eq; [|exact Plain]. rewrite !dec_ty_struct, UE. cbn [andb]. reflexivity.
  Qed.

  (** the bookkeeping of a message in progress: its own region is the only live one, the second object untouched *)
  Definition cst (cid aid : nat) (mxo : option Z) (al : Z) (s : st) : Prop :=
    wf_st s /\ Forall isbyte (inp s) /\ view s = [(cid, mxo, al)] /\ aid_ok aid s.

  Lemma cst_step cid aid mxo al s tr s1 : cst cid aid mxo al s -> chb s tr s1 -> cst cid aid mxo (al + blen (bytes_of tr)) s1.
  Proof.
    intros (W & Hb & Vw & Aid) [(V1 & W1 & F1) B1]. split; [exact W1|]. split; [apply B1, Hb|]. split; [rewrite V1, Vw; reflexivity|].
    exact (aid_ok_frame _ _ _ Aid F1).
  Qed.

  Lemma is_param_enc_total mask accs : Forall (has_attr attr) accs -> is_param_enc attr mask (Some (listval accs)) <> None.
  Proof. intros H. unfold is_param_enc, listval. destruct (any_attr_total attr mask accs H) as [b Hb]. unfold unwrap in Hb. rewrite Hb. discriminate. Qed.

  Definition cmd_core (res : cmdres) (s' : st) : Prop :=
    wf_st s' /\ Forall isbyte (inp s') /\ view s' = [] /\
    exists cc, cr_cc res = Some cc /\ lookupZ cc (cmd_handles T) <> None /\ is_param_enc attr (mask_encrypt T) (cr_area res) <> None.
  Definition cmd_post (res : cmdres) (tr : list action) (s' : st) : Prop :=
    wf_st s' /\ Forall isbyte (inp s') /\ view s' = [] /\ 1 <= blen (bytes_of tr) /\
    exists cc, cr_cc res = Some cc /\ lookupZ cc (cmd_handles T) <> None /\ is_param_enc attr (mask_encrypt T) (cr_area res) <> None.

  (** parameters and the end of the command *)
  Lemma cmd_params_r2 pa cid aid cc vl area enc total al s : lookupZ cc (cmd_handles T) <> None ->
    is_param_enc attr (mask_encrypt T) area <> None ->
    wf_st s -> Forall isbyte (inp s) -> view s = [(cid, Some total, al)] ->
    runs2 (cmd_params_step T true pa cid aid cc vl area enc) s (fun res tr s' =>
      wf_st s' /\ Forall isbyte (inp s') /\ view s' = [] /\ cr_cc res = Some cc /\ cr_area res = area).
  Proof.
    intros Hh Ha W Hb Vw. unfold cmd_params_step.
    destruct (lookupZ cc (cmd_params T)) as [pty|] eqn:Lp; [|apply r2_fail].
    destruct (area_safe cc pty ltac:(right; left; exact Lp)) as [Hn Hs].
    apply r2_try_field with (P := fun _ tr s1 => chb s tr s1); [apply (params_r2 pty _ enc s Hs Hn W Hb)|].
    intros pv tr1 s1 [(V1 & W1 & _) B1]. rewrite Vw in V1. cbn [bump map bump_entry] in V1. apply B1 in Hb as B1'. clear B1. rename B1' into B1.
    apply r2_bind with (P := fun _ tr s2 => tr = [] /\ inp s2 = inp s1 /\ view s2 = [] /\ wf_st s2).
    - eapply r2_weaken; [|apply (assert_done_done cid total _ [] s1 W1 V1 ltac:(intros []))].
      cbv beta. intros _ tr s2 (-> & _ & I2 & _ & V2 & W2 & _). split; [reflexivity|]. split; [exact I2|]. split; [exact V2|exact W2].
    - intros _ tr2 s2 (-> & I2 & V2 & W2). apply r2_ret. cbn [cr_cc cr_area]. split; [exact W2|]. split; [rewrite I2; exact B1|]. split; [exact V2|]. split; reflexivity.
  Qed.

  Theorem cmd_r2 pa s : wf_st s -> Forall isbyte (inp s) -> runs2 (dec_command T true pa) s cmd_post.
  Proof.
    intros W Hb. destruct msg_facts as (Hwt & _ & Hwc & _ & Hws & Hus & _ & Hsc & _).
    unfold session_ok in Hsc. apply andb_prop in Hsc as [Hsc Hsa]. apply andb_prop in Hsc as [Hsc Hsr]. apply andb_prop in Hsc as [Hss Hsn].
    unfold dec_command.
    set (cid := List.length (store s)).
    destruct (new_sc_spec s W) as (s1 & E1 & I1 & L1 & V1 & W1 & Len1 & G1 & Fr1).
    destruct (new_sc_spec s1 W1) as (s2 & E2 & I2 & L2 & V2 & W2 & Len2 & G2 & Fr2).
    set (aid := List.length (store s1)) in *.
    assert (Haid : aid = S cid) by (unfold aid, cid; exact Len1).
    assert (Ncid : ~ In cid (lst s1)).
    { rewrite L1. intros Hx. destruct W as [_ AL]. rewrite Forall_forall in AL. specialize (AL _ Hx). unfold cid in AL. lia. }
    assert (Gc2 : get_sc s2 cid = sc_new).
    { destruct Fr2 as [_ Hf]. destruct (Hf cid ltac:(lia) Ncid) as [Hg _]. rewrite Hg. exact G1. }
    set (s3 := mkSt (inp s2) (store s2) [cid]).
    assert (C3 : cst cid aid None 0 s3).
    { split; [split; cbn [s3 lst store]; [constructor; [intros []|constructor]|constructor; [lia|constructor]]|].
      split; [cbn [s3 inp]; rewrite I2, I1; exact Hb|]. split.
      - unfold view. cbn [s3 lst filter]. unfold live. change (get_sc s3 cid) with (get_sc s2 cid). rewrite Gc2. cbn [sc_obs sc_new negb map].
        unfold entry_of. change (get_sc s3 cid) with (get_sc s2 cid). rewrite Gc2. reflexivity.
      - split; [cbn [s3 store]; lia|]. split; [cbn [s3 lst]; intros [Hx|[]]; lia|]. exact G2. }
    apply r2_bind with (P := fun a tr s' => a = cid /\ tr = [] /\ s' = s1).
    { intros tr s' o E. rewrite E1 in E. injection E as <- <- <-. split; [exact Logic.I|]. intros a [= <-]. repeat split. }
    intros cid' tr1 s1' (-> & -> & ->).
    apply r2_bind with (P := fun a tr s' => a = aid /\ tr = [] /\ s' = s2).
    { intros tr s' o E. rewrite E2 in E. injection E as <- <- <-. split; [exact Logic.I|]. intros a [= <-]. repeat split. }
    intros aid' tr2 s2' (-> & -> & ->).
    apply r2_bind with (P := fun _ tr s' => tr = [] /\ s' = s3).
    { intros tr s' o E. injection E as <- <- <-. split; [exact Logic.I|]. intros; split; reflexivity. }
    intros _ tr3 s3' (-> & ->).
    apply r2_bind with (P := fun _ tr s' => tr = [sev pa (TyN "Command")] /\ s' = s3); [apply r2_emit; split; reflexivity|].
    intros _ tr4 s4' (-> & ->). cbv zeta. cbn [app].
    (* tag *)
    destruct C3 as (W3 & B3 & V3 & A3).
    apply r2_try_field with (P := fun a tr s4 => cst cid aid None (blen (bytes_of tr)) s4 /\ 1 <= blen (bytes_of tr) /\ exists z, a = Some (VInt_ (pname (p_cmd_tag T)) z)).
    { eapply r2_weaken; [|apply (prim_r2 (p_cmd_tag T) (pchild pa "tag") s3 ltac:(lia) W3 B3)].
      cbv beta. intros a tr s4 (C & bs & -> & Hbt & Hbl & _).
      split; [apply (cst_step cid aid None 0 s3 tr s4 (conj W3 (conj B3 (conj V3 A3))) C)|]. split; [rewrite Hbt, Hbl; lia|eexists; reflexivity]. }
    intros tagv tr5 s5 (C5 & Hr5 & tagz & ->). destruct C5 as (W5 & B5 & V5 & A5).
    (* from here on only the final state matters: at least the tag has been read *)
    apply r2_weaken with (P := fun res _ s' => cmd_core res s').
    { cbv beta. intros res tr s' (Wf & Bf & Vf & Hx). split; [exact Wf|]. split; [exact Bf|]. split; [exact Vf|]. split; [|exact Hx].
      unfold sev. cbn [app bytes_of]. rewrite ?bytes_of_app. unfold blen in *. rewrite ?app_length. lia. }
    (* commandSize *)
    apply r2_try_field with (P := fun a tr s6 => (exists al, cst cid aid None al s6) /\ exists z, a = Some (VInt_ (pname (p_size32 T)) z) /\ 0 <= z).
    { eapply r2_weaken; [|apply (prim_r2 (p_size32 T) (pchild pa "commandSize") s5 Hws W5 B5)].
      cbv beta. intros a tr s6 (C & bs & -> & Hbt & Hbl & Hbb).
      split; [eexists; apply (cst_step cid aid None _ s5 tr s6 (conj W5 (conj B5 (conj V5 A5))) C)|]. eexists. split; [reflexivity|]. rewrite Hus. apply unsigned_nonneg, Hbb. }
    intros szv tr6 s6 ((al6 & C6) & total & -> & Htot). destruct C6 as (W6 & B6 & V6 & A6). cbn [as_int].
    (* the region is announced *)
    destruct (view_entry s6 cid None _ ltac:(rewrite V6; left; reflexivity)) as (_ & _ & Hin6).
    assert (Hc6 : (cid < List.length (store s6))%nat) by (destruct W6 as [_ AL]; rewrite Forall_forall in AL; apply AL, Hin6).
    apply r2_bind with (P := fun _ tr s' => tr = [] /\ s' = announced cid (pchild pa "commandSize") total s6).
    { apply (set_constraint_done cid (pchild pa "commandSize") total s6 Htot Hc6). }
    intros _ tr7 s7 (-> & ->).
    destruct (announced_facts cid (pchild pa "commandSize") total s6 W6 Hc6) as (V7 & W7 & Len7 & G7 & G7' & _).
    set (s7 := announced cid (pchild pa "commandSize") total s6) in *.
    assert (C7 : cst cid aid (Some total) al6 s7).
    { split; [exact W7|]. split; [exact B6|]. split; [rewrite V7, V6; cbn [map set_entry]; rewrite Nat.eqb_refl; reflexivity|].
      destruct A6 as (Al & An & Ag). split; [lia|]. split; [exact An|]. rewrite G7' by lia. exact Ag. }
    (* commandCode *)
    destruct C7 as (W7' & B7 & V7' & A7).
    apply r2_try_field with (P := fun a tr s8 => (exists al, cst cid aid (Some total) al s8) /\ exists z, a = Some (VInt_ (pname (p_cc T)) z)).
    { eapply r2_weaken; [|apply (prim_r2 (p_cc T) (pchild pa "commandCode") s7 Hwc W7' B7)].
      cbv beta. intros a tr s8 (C & bs & -> & _).
      split; [eexists; apply (cst_step cid aid (Some total) _ s7 tr s8 (conj W7' (conj B7 (conj V7' A7))) C)|eexists; reflexivity]. }
    intros ccv tr8 s8 ((al8 & C8) & cc & ->). cbn [as_int].
    destruct (lookupZ cc (cmd_handles T)) as [hty|] eqn:Lh; [|apply r2_fail].
    destruct (area_safe cc hty ltac:(left; exact Lh)) as [Hhn Hhs].
    (* handles *)
    destruct C8 as (W8 & B8 & V8 & A8).
    apply r2_try_field with (P := fun _ tr s9 => exists al, cst cid aid (Some total) al s9).
    { eapply r2_weaken; [|apply (ty_r2 T hty (pchild pa "handles") s8 Hhs Hhn W8 B8)].
      cbv beta. intros a tr s9 [C _]. eexists. apply (cst_step cid aid (Some total) _ s8 tr s9 (conj W8 (conj B8 (conj V8 A8))) C). }
    intros hv tr9 s9 (al9 & C9).
    assert (Hhh : lookupZ cc (cmd_handles T) <> None) by (rewrite Lh; discriminate).
    destruct (tagz =? st_sessions T).
    - (* authSize, the session area, the parameters *)
      destruct C9 as (W9 & B9 & V9 & A9).
      apply r2_try_field with (P := fun a tr s10 => (exists al, cst cid aid (Some total) al s10) /\ exists z, a = Some (VInt_ (pname (p_size32 T)) z) /\ 0 <= z).
      { eapply r2_weaken; [|apply (prim_r2 (p_size32 T) (pchild pa "authSize") s9 Hws W9 B9)].
        cbv beta. intros a tr s10 (C & bs & -> & Hbt & Hbl & Hbb).
        split; [eexists; apply (cst_step cid aid (Some total) _ s9 tr s10 (conj W9 (conj B9 (conj V9 A9))) C)|]. eexists. split; [reflexivity|]. rewrite Hus. apply unsigned_nonneg, Hbb. }
      intros asv tr10 s10 ((al10 & C10) & asz & -> & Hasz). cbv zeta. cbn [as_int].
      destruct C10 as (W10 & B10 & V10 & (Al10 & An10 & Ag10)).
      apply r2_bind with (P := fun _ tr s' => tr = [] /\ s' = announced aid (pchild pa "authSize") asz s10).
      { apply (set_constraint_done aid (pchild pa "authSize") asz s10 Hasz Al10). }
      intros _ tr11 s11 (-> & ->).
      destruct (announced_facts aid (pchild pa "authSize") asz s10 W10 Al10) as (V11 & W11 & Len11 & G11 & G11' & _).
      set (s11 := announced aid (pchild pa "authSize") asz s10) in *.
      assert (Hne : cid <> aid) by lia.
      assert (V11' : view s11 = view s10).
      { rewrite V11, V10. cbn [map set_entry]. replace (Nat.eqb cid aid) with false by (symmetry; apply Nat.eqb_neq; exact Hne). reflexivity. }
      destruct (append_facts aid s11 W11 ltac:(exact An10) ltac:(lia) ltac:(rewrite G11, Ag10; reflexivity)) as (V12 & W12 & _).
      set (s12 := mkSt (inp s11) (store s11) (lst s11 ++ [aid])) in *.
      apply r2_bind with (P := fun _ tr s' => tr = [] /\ s' = s12).
      { intros tr s' o E. injection E as <- <- <-. split; [exact Logic.I|]. intros; split; reflexivity. }
      intros _ tr12 s12' (-> & ->).
      assert (L12 : linv aid asz (view s10) 0 s12).
      { split; [exact W12|]. split; [exact B10|]. split; [rewrite V12, V11'; unfold entry_of; rewrite G11, Ag10; reflexivity|].
        rewrite V10. cbn. intros [Hx|[]]. apply Hne. exact Hx. }
      apply r2_try_field with (P := fun a tr s13 => (exists al, view s13 = [(cid, Some total, al)]) /\ wf_st s13 /\ Forall isbyte (inp s13) /\
                                                     exists accs, a = Some (listval accs) /\ Forall (has_attr attr) accs).
      { eapply r2_weaken; [|apply (sized_r2 T (t_auth_cmd T) attr Hss Hsn Hsr Hsa aid asz (pchild pa "authorizationArea") _ s12 (view s10) 0 L12)].
        cbv beta. intros a tr s13 (V13 & W13 & B13 & _ & _ & _ & Hacc).
        split; [rewrite V13, V10; cbn [bump map bump_entry]; eexists; reflexivity|]. split; [exact W13|]. split; [exact B13|exact Hacc]. }
      intros area tr13 s13 ((al13 & V13) & W13 & B13 & accs & -> & Hacc). cbv zeta.
      destruct (is_param_enc (sess_attr_field T) (mask_decrypt T) (Some (listval accs))) as [enc|] eqn:Ed; [|exfalso; apply (is_param_enc_total (mask_decrypt T) accs Hacc Ed)].
      eapply r2_weaken; [|apply (cmd_params_r2 pa cid aid cc _ (Some (listval accs)) enc total _ s13 Hhh (is_param_enc_total _ accs Hacc) W13 B13 V13)].
      cbv beta. intros res tr s' (Wf & Bf & Vf & Hcc & Har). split; [exact Wf|]. split; [exact Bf|]. split; [exact Vf|].
      exists cc. split; [exact Hcc|]. split; [exact Hhh|]. rewrite Har. apply is_param_enc_total, Hacc.
    - destruct C9 as (W9 & B9 & V9 & _).
      eapply r2_weaken; [|apply (cmd_params_r2 pa cid aid cc _ None false total _ s9 Hhh ltac:(discriminate) W9 B9 V9)].
      cbv beta. intros res tr s' (Wf & Bf & Vf & Hcc & Har). split; [exact Wf|]. split; [exact Bf|]. split; [exact Vf|].
      exists cc. split; [exact Hcc|]. split; [exact Hhh|]. rewrite Har. discriminate.
  Qed.

  (** ---- responses *)
  Definition rsp_core (s' : st) : Prop := wf_st s' /\ Forall isbyte (inp s') /\ view s' = [].

  Lemma rsp_finish_r2 rid v total al s : wf_st s -> Forall isbyte (inp s) -> view s = [(rid, Some total, al)] ->
    runs2 (rsp_finish true rid v) s (fun _ _ s' => rsp_core s').
  Proof.
    intros W Hb Vw. unfold rsp_finish.
    apply r2_bind with (P := fun _ tr s2 => tr = [] /\ inp s2 = inp s /\ view s2 = [] /\ wf_st s2).
    - eapply r2_weaken; [|apply (assert_done_done rid total _ [] s W Vw ltac:(intros []))].
      cbv beta. intros _ tr s2 (-> & _ & I2 & _ & V2 & W2 & _). split; [reflexivity|]. split; [exact I2|]. split; [exact V2|exact W2].
    - intros _ tr2 s2 (-> & I2 & V2 & W2).
      apply r2_bind with (P := fun _ tr s3 => tr = [] /\ s3 = s2).
      + intros tr s3 o E. rewrite (list_assert_done_ok s2 V2) in E. injection E as <- <- <-. split; [exact Logic.I|]. intros; split; reflexivity.
      + intros _ tr3 s3 (-> & ->). apply r2_ret. split; [exact W2|]. split; [rewrite I2; exact Hb|exact V2].
  Qed.

  Lemma rsp_finish_done_r2 rid v total s : wf_st s -> Forall isbyte (inp s) -> view s = [] ->
    sc_obs (get_sc s rid) = true -> sc_max (get_sc s rid) = Some total ->
    runs2 (rsp_finish true rid v) s (fun _ _ s' => rsp_core s').
  Proof.
    intros W Hb Vw Ho Hm. unfold rsp_finish.
    apply r2_bind with (P := fun _ tr s2 => tr = [] /\ s2 = s).
    - intros tr s2 o E. rewrite (assert_done_obsolete true rid total s Hm Ho) in E. injection E as <- <- <-. split; [exact Logic.I|]. intros; split; reflexivity.
    - intros _ tr2 s2 (-> & ->).
      apply r2_bind with (P := fun _ tr s3 => tr = [] /\ s3 = s).
      + intros tr s3 o E. rewrite (list_assert_done_ok s Vw) in E. injection E as <- <- <-. split; [exact Logic.I|]. intros; split; reflexivity.
      + intros _ tr3 s3 (-> & ->). apply r2_ret. split; [exact W|]. split; [exact Hb|exact Vw].
  Qed.

  (** parameters (in their announced region when [have_psize]), sessions, end of the response *)
  Lemma rsp_rest_r2 pa rid pid cc enc sessions v (have_psize : bool) total al psz s :
    lookupZ cc (rsp_handles T) <> None -> rid <> pid ->
    wf_st s -> Forall isbyte (inp s) ->
    view s = (if have_psize then [(rid, Some total, al); (pid, Some psz, 0)] else [(rid, Some total, al)]) ->
    runs2 (rsp_rest T true pa rid pid (Some cc) enc sessions v have_psize) s (fun _ _ s' => rsp_core s').
  Proof.
    intros Hh Hne W Hb Vw. destruct msg_facts as (_ & _ & _ & _ & _ & _ & _ & _ & Hsr & _ & _ & Hmap).
    unfold session_ok in Hsr. apply andb_prop in Hsr as [Hsr Hsa]. apply andb_prop in Hsr as [Hsr Hsro]. apply andb_prop in Hsr as [Hss Hsn].
    unfold rsp_rest.
    destruct (lookupZ cc (rsp_params T)) as [pty|] eqn:Lp.
    2:{ exfalso. destruct (lookupZ cc (rsp_handles T)) as [hty|] eqn:Lh; [|apply Hh; reflexivity].
        destruct (lookupZ_in _ _ _ Lh) as (c' & Hin & ->). rewrite forallb_forall in Hmap. specialize (Hmap _ Hin). cbn [fst] in Hmap. rewrite Lp in Hmap. discriminate. }
    destruct (area_safe cc pty ltac:(right; right; right; exact Lp)) as [Hn Hs].
    apply r2_try_field with (P := fun _ tr s1 => chb s tr s1); [apply (params_r2 pty _ enc s Hs Hn W Hb)|].
    intros pv tr1 s1 [(V1 & W1 & _) B1]. apply B1 in Hb as B1'. cbv zeta.
    (* close the parameter region if there is one *)
    apply r2_bind with (P := fun _ tr s2 => tr = [] /\ wf_st s2 /\ Forall isbyte (inp s2) /\ exists al2, view s2 = [(rid, Some total, al2)]).
    { destruct have_psize.
      - rewrite Vw in V1. cbn [bump map bump_entry] in V1.
        eapply r2_weaken; [|apply (assert_done_done pid psz _ [(rid, Some total, al + blen (bytes_of tr1))] s1 W1 V1 ltac:(cbn; intros [Hx|[]]; apply Hne; exact Hx))].
        cbv beta. intros _ tr s2 (-> & _ & I2 & _ & V2 & W2 & _). split; [reflexivity|]. split; [exact W2|]. split; [rewrite I2; exact B1'|]. eexists. exact V2.
      - apply r2_ret. split; [reflexivity|]. split; [exact W1|]. split; [exact B1'|]. rewrite V1, Vw. cbn [bump map bump_entry]. eexists. reflexivity. }
    intros _ tr2 s2 (-> & W2 & B2 & al2 & V2).
    destruct sessions.
    - assert (L2 : linv rid total [] al2 s2) by (split; [exact W2|]; split; [exact B2|]; split; [exact V2|intros []]).
      apply r2_try_field with (P := fun a tr s3 => view s3 = [] /\ wf_st s3 /\ Forall isbyte (inp s3) /\ sc_obs (get_sc s3 rid) = true /\ sc_max (get_sc s3 rid) = Some total /\
                                                   exists accs, a = Some (listval accs) /\ Forall (has_attr attr) accs).
      { eapply r2_weaken; [|apply (sized_r2 T (t_auth_rsp T) attr Hss Hsn Hsro Hsa rid total (pchild pa "authorizationArea") _ s2 [] al2 L2)].
        cbv beta. intros a tr s3 (V3 & W3 & B3 & _ & Ob3 & Mx3 & Hacc). repeat (split; [assumption|]). exact Hacc. }
      intros area tr3 s3 (V3 & W3 & B3 & Ob3 & Mx3 & accs & -> & Hacc).
      destruct (is_param_enc (sess_attr_field T) (mask_encrypt T) (Some (listval accs))) as [e|] eqn:Ee; [|exfalso; apply (is_param_enc_total (mask_encrypt T) accs Hacc Ee)].
      apply r2_bind with (P := fun _ tr s4 => tr = [] /\ s4 = s3).
      { destruct (Bool.eqb e enc); [apply r2_ret; split; reflexivity|apply r2_fail]. }
      intros _ tr4 s4 (-> & ->). apply (rsp_finish_done_r2 rid _ total s3 W3 B3 V3 Ob3 Mx3).
    - apply (rsp_finish_r2 rid _ total al2 s2 W2 B2 V2).
  Qed.

  Theorem rsp_r2 pa cc enc s : wf_st s -> Forall isbyte (inp s) -> lookupZ cc (rsp_handles T) <> None ->
    runs2 (dec_response T true pa (Some cc) enc) s (fun _ _ s' => rsp_core s').
  Proof.
    intros W Hb Hh. destruct msg_facts as (_ & Hwt & _ & Hwc & Hws & Hus & _).
    unfold dec_response.
    set (rid := List.length (store s)).
    destruct (new_sc_spec s W) as (s1 & E1 & I1 & L1 & V1 & W1 & Len1 & G1 & Fr1).
    destruct (new_sc_spec s1 W1) as (s2 & E2 & I2 & L2 & V2 & W2 & Len2 & G2 & Fr2).
    set (pid := List.length (store s1)) in *.
    assert (Hpid : pid = S rid) by (unfold pid, rid; exact Len1).
    assert (Nrid : ~ In rid (lst s1)).
    { rewrite L1. intros Hx. destruct W as [_ AL]. rewrite Forall_forall in AL. specialize (AL _ Hx). unfold rid in AL. lia. }
    assert (Gc2 : get_sc s2 rid = sc_new).
    { destruct Fr2 as [_ Hf]. destruct (Hf rid ltac:(lia) Nrid) as [Hg _]. rewrite Hg. exact G1. }
    set (s3 := mkSt (inp s2) (store s2) [rid]).
    assert (C3 : cst rid pid None 0 s3).
    { split; [split; cbn [s3 lst store]; [constructor; [intros []|constructor]|constructor; [lia|constructor]]|].
      split; [cbn [s3 inp]; rewrite I2, I1; exact Hb|]. split.
      - unfold view. cbn [s3 lst filter]. unfold live. change (get_sc s3 rid) with (get_sc s2 rid). rewrite Gc2. cbn [sc_obs sc_new negb map].
        unfold entry_of. change (get_sc s3 rid) with (get_sc s2 rid). rewrite Gc2. reflexivity.
      - split; [cbn [s3 store]; lia|]. split; [cbn [s3 lst]; intros [Hx|[]]; lia|]. exact G2. }
    apply r2_bind with (P := fun a tr s' => a = rid /\ tr = [] /\ s' = s1).
    { intros tr s' o E. rewrite E1 in E. injection E as <- <- <-. split; [exact Logic.I|]. intros a [= <-]. repeat split. }
    intros rid' tr1 s1' (-> & -> & ->).
    apply r2_bind with (P := fun a tr s' => a = pid /\ tr = [] /\ s' = s2).
    { intros tr s' o E. rewrite E2 in E. injection E as <- <- <-. split; [exact Logic.I|]. intros a [= <-]. repeat split. }
    intros pid' tr2 s2' (-> & -> & ->).
    apply r2_bind with (P := fun _ tr s' => tr = [] /\ s' = s3).
    { intros tr s' o E. injection E as <- <- <-. split; [exact Logic.I|]. intros; split; reflexivity. }
    intros _ tr3 s3' (-> & ->).
    apply r2_bind with (P := fun _ tr s' => s' = s3); [apply r2_emit; reflexivity|].
    intros _ tr4 s4' ->. cbv zeta.
    destruct C3 as (W3 & B3 & V3 & A3).
    (* tag *)
    apply r2_try_field with (P := fun a tr s4 => (exists al, cst rid pid None al s4) /\ exists z, a = Some (VInt_ (pname (p_rsp_tag T)) z)).
    { eapply r2_weaken; [|apply (prim_r2 (p_rsp_tag T) (pchild pa "tag") s3 Hwt W3 B3)].
      cbv beta. intros a tr s4 (C & bs & -> & _).
      split; [eexists; apply (cst_step rid pid None 0 s3 tr s4 (conj W3 (conj B3 (conj V3 A3))) C)|eexists; reflexivity]. }
    intros tagv tr5 s5 ((al5 & C5) & tagz & ->). destruct C5 as (W5 & B5 & V5 & A5).
    (* responseSize *)
    apply r2_try_field with (P := fun a tr s6 => (exists al, cst rid pid None al s6) /\ exists z, a = Some (VInt_ (pname (p_size32 T)) z) /\ 0 <= z).
    { eapply r2_weaken; [|apply (prim_r2 (p_size32 T) (pchild pa "responseSize") s5 Hws W5 B5)].
      cbv beta. intros a tr s6 (C & bs & -> & Hbt & Hbl & Hbb).
      split; [eexists; apply (cst_step rid pid None _ s5 tr s6 (conj W5 (conj B5 (conj V5 A5))) C)|]. eexists. split; [reflexivity|]. rewrite Hus. apply unsigned_nonneg, Hbb. }
    intros szv tr6 s6 ((al6 & C6) & total & -> & Htot). destruct C6 as (W6 & B6 & V6 & A6). cbn [as_int].
    destruct (view_entry s6 rid None _ ltac:(rewrite V6; left; reflexivity)) as (_ & _ & Hin6).
    assert (Hc6 : (rid < List.length (store s6))%nat) by (destruct W6 as [_ AL]; rewrite Forall_forall in AL; apply AL, Hin6).
    apply r2_bind with (P := fun _ tr s' => tr = [] /\ s' = announced rid (pchild pa "responseSize") total s6).
    { apply (set_constraint_done rid (pchild pa "responseSize") total s6 Htot Hc6). }
    intros _ tr7 s7 (-> & ->).
    destruct (announced_facts rid (pchild pa "responseSize") total s6 W6 Hc6) as (V7 & W7 & Len7 & G7 & G7' & _).
    set (s7 := announced rid (pchild pa "responseSize") total s6) in *.
    assert (C7 : cst rid pid (Some total) al6 s7).
    { split; [exact W7|]. split; [exact B6|]. split; [rewrite V7, V6; cbn [map set_entry]; rewrite Nat.eqb_refl; reflexivity|].
      destruct A6 as (Al & An & Ag). split; [lia|]. split; [exact An|]. rewrite G7' by lia. exact Ag. }
    destruct C7 as (W7' & B7 & V7' & A7).
    (* responseCode *)
    apply r2_try_field with (P := fun a tr s8 => (exists al, cst rid pid (Some total) al s8) /\ exists z, a = Some (VInt_ (pname (p_rc T)) z)).
    { eapply r2_weaken; [|apply (prim_r2 (p_rc T) (pchild pa "responseCode") s7 Hwc W7' B7)].
      cbv beta. intros a tr s8 (C & bs & -> & _).
      split; [eexists; apply (cst_step rid pid (Some total) _ s7 tr s8 (conj W7' (conj B7 (conj V7' A7))) C)|eexists; reflexivity]. }
    intros rcv tr8 s8 ((al8 & C8) & rc & ->). cbn [as_int]. destruct C8 as (W8 & B8 & V8 & A8).
    destruct (negb (rc =? rc_success T)).
    { apply (rsp_finish_r2 rid _ total al8 s8 W8 B8 V8). }
    destruct (lookupZ cc (rsp_handles T)) as [hty|] eqn:Lh; [|exfalso; apply Hh; reflexivity].
    destruct (area_safe cc hty ltac:(right; right; left; exact Lh)) as [Hhn Hhs].
    assert (Hne : rid <> pid) by lia.
    apply r2_try_field with (P := fun _ tr s9 => exists al, cst rid pid (Some total) al s9).
    { eapply r2_weaken; [|apply (params_r2 hty (pchild pa "handles") enc s8 Hhs Hhn W8 B8)].
      cbv beta. intros a tr s9 C. eexists. apply (cst_step rid pid (Some total) _ s8 tr s9 (conj W8 (conj B8 (conj V8 A8))) C). }
    intros hv tr9 s9 (al9 & C9). cbv zeta. destruct C9 as (W9 & B9 & V9 & A9).
    destruct (tagz =? st_sessions T).
    - apply r2_try_field with (P := fun a tr s10 => (exists al, cst rid pid (Some total) al s10) /\ exists z, a = Some (VInt_ (pname (p_size32 T)) z) /\ 0 <= z).
      { eapply r2_weaken; [|apply (prim_r2 (p_size32 T) (pchild pa "parameterSize") s9 Hws W9 B9)].
        cbv beta. intros a tr s10 (C & bs & -> & Hbt & Hbl & Hbb).
        split; [eexists; apply (cst_step rid pid (Some total) _ s9 tr s10 (conj W9 (conj B9 (conj V9 A9))) C)|]. eexists. split; [reflexivity|]. rewrite Hus. apply unsigned_nonneg, Hbb. }
      intros psv tr10 s10 ((al10 & C10) & psz & -> & Hpsz). cbn [as_int].
      destruct C10 as (W10 & B10 & V10 & (Al10 & An10 & Ag10)).
      apply r2_bind with (P := fun _ tr s' => tr = [] /\ s' = announced pid (pchild pa "parameterSize") psz s10).
      { apply (set_constraint_done pid (pchild pa "parameterSize") psz s10 Hpsz Al10). }
      intros _ tr11 s11 (-> & ->).
      destruct (announced_facts pid (pchild pa "parameterSize") psz s10 W10 Al10) as (V11 & W11 & Len11 & G11 & G11' & _).
      set (s11 := announced pid (pchild pa "parameterSize") psz s10) in *.
      assert (V11' : view s11 = view s10).
      { rewrite V11, V10. cbn [map set_entry]. replace (Nat.eqb rid pid) with false by (symmetry; apply Nat.eqb_neq; exact Hne). reflexivity. }
      destruct (append_facts pid s11 W11 ltac:(exact An10) ltac:(lia) ltac:(rewrite G11, Ag10; reflexivity)) as (V12 & W12 & _).
      set (s12 := mkSt (inp s11) (store s11) (lst s11 ++ [pid])) in *.
      apply r2_bind with (P := fun _ tr s' => tr = [] /\ s' = s12).
      { intros tr s' o E. injection E as <- <- <-. split; [exact Logic.I|]. intros; split; reflexivity. }
      intros _ tr12 s12' (-> & ->).
      apply (rsp_rest_r2 pa rid pid cc enc true _ true total al10 psz s12 ltac:(rewrite Lh; discriminate) Hne W12 B10).
      rewrite V12, V11', V10. unfold entry_of. rewrite G11, Ag10. reflexivity.
    - apply (rsp_rest_r2 pa rid pid cc enc false _ false total al9 0 s9 ltac:(rewrite Lh; discriminate) Hne W9 B9 V9).
  Qed.
End Msg.
