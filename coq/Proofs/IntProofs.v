(** Protocol integers: validity reflection, naming, hexadecimal offsets parse back. *)
From Coq Require Import ZArith List String Ascii Bool Lia.
From TV Require Import Layout.Types Base.Bytes Model.Ints.
Import ListNotations.
Open Scope Z_scope.

(** membership in a declared set, in the property's words *)
Inductive In_member (z : Z) : emember -> Prop :=
| im_const n : In_member z (EMConst n z)
| im_range n lo hi nib : lo <= z < hi -> In_member z (EMRange n lo hi nib).

Inductive In_vitem (z : Z) : vitem -> Prop :=
| iv_range lo hi : lo <= z < hi -> In_vitem z (VRange lo hi)
| iv_named c b lo hi nib : lo <= z < hi -> In_vitem z (VNamed c b lo hi nib)
| iv_member c n : In_vitem z (VMember c n z)
| iv_int : In_vitem z (VInt z)
| iv_enum c ms m : In m ms -> In_member z m -> In_vitem z (VEnum c ms).

Lemma in_member_reflect z m : in_member z m = true <-> In_member z m.
Proof.
  destruct m as [n v|n lo hi nib]; cbn [in_member]; split; intros H.
  - apply Z.eqb_eq in H. subst. constructor.
  - inversion H. apply Z.eqb_refl.
  - constructor. lia.
  - inversion H. lia.
Qed.

Lemma in_vitem_reflect z it : in_vitem z it = true <-> In_vitem z it.
Proof.
  destruct it as [lo hi|c b lo hi nib|c n v|v|c ms]; cbn [in_vitem]; split; intros H.
  - constructor. lia.
  - inversion H. lia.
  - constructor. lia.
  - inversion H. lia.
  - apply Z.eqb_eq in H. subst. constructor.
  - inversion H. apply Z.eqb_refl.
  - apply Z.eqb_eq in H. subst. constructor.
  - inversion H. apply Z.eqb_refl.
  - apply existsb_exists in H as (m & Hin & Hm). econstructor; [exact Hin|]. apply in_member_reflect, Hm.
  - inversion H as [| | | |? ? m Hin Hm]. apply existsb_exists. exists m. split; [exact Hin|]. apply in_member_reflect, Hm.
Qed.

(** a typed value is reported valid exactly when the integer belongs to the declared set *)
Theorem valid_reflect p z : valid p z = true <-> exists it, In it (pvalid p) /\ In_vitem z it.
Proof.
  unfold valid. rewrite existsb_exists. split; intros (it & Hin & H); exists it; (split; [exact Hin|]); apply in_vitem_reflect, H.
Qed.

(** the name found for a value is a declared member's: the constant of that value, or range name + padded hex offset *)
Theorem member_name_sound z ms n : member_name z ms = Some n ->
  (In (EMConst n z) ms) \/
  (exists base lo hi nib, In (EMRange base lo hi nib) ms /\ lo <= z < hi /\
                          n = append base (append "." (hexpad nib (z - lo)))).
Proof.
  induction ms as [|m r IH]; cbn [member_name]; [discriminate|].
  destruct m as [n' v|base lo hi nib].
  - destruct (z =? v) eqn:E.
    + intros [= <-]. apply Z.eqb_eq in E. subst. left. left. reflexivity.
    + intros H. destruct (IH H) as [H1|(b & l & h & nb & Hin & R & N)]; [left; right; exact H1|].
      right. exists b, l, h, nb. split; [right; exact Hin|split; assumption].
  - destruct ((lo <=? z) && (z <? hi)) eqn:E.
    + intros [= <-]. right. exists base, lo, hi, nib. split; [left; reflexivity|]. split; [lia|reflexivity].
    + intros H. destruct (IH H) as [H1|(b & l & h & nb & Hin & R & N)]; [left; right; exact H1|].
      right. exists b, l, h, nb. split; [right; exact Hin|split; assumption].
Qed.

(** every value of the declared set has a name *)
Theorem member_name_complete z ms : existsb (in_member z) ms = true -> member_name z ms <> None.
Proof.
  induction ms as [|m r IH]; cbn [existsb member_name]; [discriminate|].
  destruct m as [n v|base lo hi nib]; cbn [in_member].
  - destruct (z =? v); [discriminate|]. cbn [orb]. exact IH.
  - destruct ((lo <=? z) && (z <? hi)); [discriminate|]. cbn [orb]. exact IH.
Qed.

(** ---- digits parse back: the hexadecimal offset identifies the value *)
Definition char_digit (c : ascii) : Z :=
  let n := Z.of_nat (nat_of_ascii c) in
  if n <? 58 then n - 48 else n - 87.

Fixpoint str_val (base : Z) (s : string) (acc : Z) : Z :=
  match s with
  | EmptyString => acc
  | String c r => str_val base r (acc * base + char_digit c)
  end.

Lemma char_digit_inv d : 0 <= d < 16 -> char_digit (digit_char d) = d.
Proof.
  intros Hd. assert (H : forallb (fun k => char_digit (digit_char (Z.of_nat k)) =? Z.of_nat k) (seq 0 16) = true)
    by (vm_compute; reflexivity).
  rewrite forallb_forall in H. specialize (H (Z.to_nat d)). rewrite Z2Nat.id in H by lia.
  apply Z.eqb_eq, H. apply in_seq. lia.
Qed.

Lemma str_val_app base a b acc : str_val base (append a b) acc = str_val base b (str_val base a acc).
Proof. revert acc. induction a as [|c a IH]; intros acc; cbn [append str_val]; [reflexivity|apply IH]. Qed.

Lemma str_val_shift base s acc : 0 <= base ->
  str_val base s acc = acc * base ^ Z.of_nat (String.length s) + str_val base s 0.
Proof.
  intros Hb. revert acc. induction s as [|c s IH]; intros acc; cbn [str_val String.length].
  - change (Z.of_nat 0) with 0. rewrite Z.pow_0_r. lia.
  - rewrite IH. rewrite (IH (0 * base + char_digit c)). rewrite Nat2Z.inj_succ, Z.pow_succ_r by lia. lia.
Qed.

Lemma digits_fuel_val fuel base : 2 <= base <= 16 -> forall z acc,
  0 <= z < base ^ Z.of_nat fuel -> (0 < fuel)%nat ->
  str_val base (digits_fuel fuel base z acc) 0 = z * base ^ Z.of_nat (String.length acc) + str_val base acc 0.
Proof.
  intros Hb. induction fuel as [|f IH]; intros z acc Hz Hf; [lia|].
  cbn [digits_fuel].
  assert (Hm : 0 <= z mod base < base) by (apply Z.mod_pos_bound; lia).
  assert (Hq : 0 <= z / base) by (apply Z.div_pos; lia).
  assert (Hzz : z = base * (z / base) + z mod base) by (apply Z.div_mod; lia).
  assert (Hstep : str_val base (String (digit_char (z mod base)) acc) 0 =
                  (z mod base) * base ^ Z.of_nat (String.length acc) + str_val base acc 0).
  { cbn [str_val]. rewrite str_val_shift by lia. rewrite char_digit_inv by lia. lia. }
  destruct (z / base =? 0) eqn:E.
  - apply Z.eqb_eq in E. rewrite Hstep. rewrite Hzz at 2. rewrite E. f_equal. f_equal. lia.
  - apply Z.eqb_neq in E.
    destruct f as [|f'].
    + exfalso. change (Z.of_nat 1) with 1 in Hz. rewrite Z.pow_1_r in Hz.
      apply E. apply Z.div_small. lia.
    + rewrite IH.
      * cbn [String.length]. rewrite Hstep. rewrite Nat2Z.inj_succ, Z.pow_succ_r by lia.
        rewrite Hzz at 3. lia.
      * split; [exact Hq|]. apply Z.div_lt_upper_bound; [lia|].
        rewrite Nat2Z.inj_succ, Z.pow_succ_r in Hz by lia. lia.
      * lia.
Qed.

Lemma nat_digits_val base z : 2 <= base <= 16 -> 0 <= z -> str_val base (nat_digits base z) 0 = z.
Proof.
  intros Hb Hz. unfold nat_digits. rewrite digits_fuel_val; try lia.
  - cbn [String.length str_val]. change (Z.of_nat 0) with 0. rewrite Z.pow_0_r. lia.
  - split; [exact Hz|].
    destruct (Z.eq_dec z 0) as [->|Hne]; [apply Z.pow_pos_nonneg; lia|].
    rewrite Nat2Z.inj_succ, Z2Nat.id by (apply Z.log2_nonneg).
    apply Z.lt_le_trans with (2 ^ Z.succ (Z.log2 z)).
    + apply Z.log2_spec. lia.
    + apply Z.pow_le_mono_l. pose proof (Z.log2_nonneg z). lia.
Qed.

Lemma zeros_val base k s acc : str_val base (append (zeros k) s) acc = str_val base s (acc * base ^ Z.of_nat k) \/ True.
Proof. right. exact I. Qed.

Lemma str_val_zeros base k s : str_val base (append (zeros k) s) 0 = str_val base s 0.
Proof.
  induction k as [|k IH]; cbn [zeros append str_val]; [reflexivity|].
  replace (0 * base + char_digit "0") with 0 by (vm_compute; lia). exact IH.
Qed.

(** the zero-padded hexadecimal offset determines the offset: named-range text forms are injective *)
Theorem hexpad_parses_back nib z : 0 <= z -> str_val 16 (hexpad nib z) 0 = z.
Proof. intros Hz. unfold hexpad. rewrite str_val_zeros. apply nat_digits_val; lia. Qed.

Theorem hexpad_injective nib z1 z2 : 0 <= z1 -> 0 <= z2 -> hexpad nib z1 = hexpad nib z2 -> z1 = z2.
Proof. intros H1 H2 E. rewrite <- (hexpad_parses_back nib z1 H1), <- (hexpad_parses_back nib z2 H2), E. reflexivity. Qed.

Theorem dec_string_parses_back z : 0 <= z -> str_val 10 (dec_string z) 0 = z.
Proof. intros Hz. unfold dec_string. replace (z <? 0) with false by lia. apply nat_digits_val; lia. Qed.

(** ---- every valid value of an enumeration-kind type has a declared name (any width) *)
Definition range_in (ms : list emember) (lo hi : Z) : bool :=
  (hi <=? lo) ||
  existsb (fun m => match m with EMRange _ lo' hi' _ => (lo' <=? lo) && (hi <=? hi') | _ => false end) ms.
Definition member_covered (ms : list emember) (m : emember) : bool :=
  match m with
  | EMConst _ v => existsb (in_member v) ms
  | EMRange _ lo hi _ => range_in ms lo hi
  end.
Definition vitem_covered (ms : list emember) (it : vitem) : bool :=
  match it with
  | VMember _ _ v | VInt v => existsb (in_member v) ms
  | VEnum _ ms' => forallb (member_covered ms) ms'
  | VRange lo hi | VNamed _ _ lo hi _ => range_in ms lo hi
  end.

Lemma range_in_sound ms lo hi z : range_in ms lo hi = true -> lo <= z < hi -> existsb (in_member z) ms = true.
Proof.
  unfold range_in. intros H Hz. apply orb_prop in H as [H|H]; [lia|].
  apply existsb_exists in H as (m & Hin & Hm). apply existsb_exists. exists m. split; [exact Hin|].
  destruct m as [|n lo' hi' nib]; [discriminate|]. cbn [in_member]. lia.
Qed.

Lemma member_covered_sound ms m z : member_covered ms m = true -> in_member z m = true -> existsb (in_member z) ms = true.
Proof.
  destruct m as [n v|n lo hi nib]; cbn [member_covered in_member]; intros H Hz.
  - apply Z.eqb_eq in Hz. subst. exact H.
  - eapply range_in_sound; [exact H|lia].
Qed.

Lemma vitem_covered_sound ms it z : vitem_covered ms it = true -> in_vitem z it = true -> existsb (in_member z) ms = true.
Proof.
  destruct it as [lo hi|c b lo hi nib|c n v|v|c ms']; cbn [vitem_covered in_vitem]; intros H Hz.
  - eapply range_in_sound; [exact H|lia].
  - eapply range_in_sound; [exact H|lia].
  - apply Z.eqb_eq in Hz. subst. exact H.
  - apply Z.eqb_eq in Hz. subst. exact H.
  - apply existsb_exists in Hz as (m & Hin & Hm). rewrite forallb_forall in H.
    eapply member_covered_sound; [apply H, Hin|exact Hm].
Qed.

Definition enum_named (p : prim) : bool :=
  match pkind_ p with
  | KEnum ms => forallb (vitem_covered ms) (pvalid p)
  | _ => true
  end.

Theorem valid_enum_value_is_named p ms z :
  pkind_ p = KEnum ms -> enum_named p = true -> valid p z = true ->
  exists n, member_name z ms = Some n /\ prim_text p z = append (pname p) (append "." n).
Proof.
  intros K H V. unfold enum_named in H. rewrite K in H. unfold valid in V.
  apply existsb_exists in V as (it & Hin & Hz). rewrite forallb_forall in H.
  pose proof (vitem_covered_sound ms it z (H _ Hin) Hz) as C.
  pose proof (member_name_complete z ms C) as N.
  destruct (member_name z ms) as [n|] eqn:E; [|congruence].
  exists n. split; [reflexivity|]. unfold prim_text, enum_text. rewrite K, E. reflexivity.
Qed.
