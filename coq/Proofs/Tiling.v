(** Tiling: on every run that completes, the trace is a sequence of blocks - a structural
    event, or the [w] bytes of a primitive followed by its event whose value is exactly the
    big-endian reading of those bytes (or a value warning) - unless a size problem was reported.
    Hence the bytes consumed are the concatenation of the per-event chunks (C02). *)
From Coq Require Import ZArith List String Bool Lia.
From TV Require Import Layout.Types Base.Bytes Model.Monad Model.Constraints Model.Ints Model.Decoder Model.Message
  Model.Pump Proofs.Closure Proofs.Account.
Import ListNotations.
Open Scope list_scope.
Open Scope Z_scope.

(** [tiled tr chunks]: one chunk per event/warning of [tr] (empty for structural events and warnings) *)
Inductive tiled : list action -> list (list Z) -> Prop :=
| t_nil : tiled [] []
| t_struct pa t tr cs : tiled tr cs -> tiled (Ev (mkEvent pa t None) :: tr) ([] :: cs)
| t_prim p pa bs tr cs :
    List.length bs = Z.to_nat (pwidth p) -> tiled tr cs ->
    tiled (map Rd bs ++ Ev (mkEvent pa (TyN (pname p)) (Some (from_bytes (psigned p) bs))) :: tr) (bs :: cs)
| t_vwarn pa tn v src tr cs : tiled tr cs -> tiled (Wn (EValue pa tn v src) :: tr) ([] :: cs).

Lemma tiled_app a ca b cb : tiled a ca -> tiled b cb -> tiled (a ++ b) (ca ++ cb).
Proof.
  induction 1 as [|pa t tr cs H IH|p pa bs tr cs L H IH|pa tn v src tr cs H IH]; intros Hb; cbn [app].
  - exact Hb.
  - constructor. apply IH, Hb.
  - rewrite <- app_assoc. cbn [app]. constructor; [exact L|]. apply IH, Hb.
  - constructor. apply IH, Hb.
Qed.

Lemma tiled_bytes tr cs : tiled tr cs -> List.concat cs = bytes_of tr.
Proof.
  induction 1 as [|pa t tr cs H IH|p pa bs tr cs L H IH|pa tn v src tr cs H IH]; cbn [List.concat bytes_of app].
  - reflexivity.
  - exact IH.
  - rewrite bytes_of_app, bytes_of_map_Rd. cbn [bytes_of]. rewrite IH. reflexivity.
  - exact IH.
Qed.

(** a size problem was reported in the trace *)
Definition is_size_warning (a : action) : bool :=
  match a with
  | Wn (EValue _ _ _ _) => false
  | Wn _ => true
  | _ => false
  end.
Definition sizewarn (tr : list action) : Prop := existsb is_size_warning tr = true.

Lemma sizewarn_app_l a b : sizewarn a -> sizewarn (a ++ b).
Proof. unfold sizewarn. rewrite existsb_app. intros ->. reflexivity. Qed.
Lemma sizewarn_app_r a b : sizewarn b -> sizewarn (a ++ b).
Proof. unfold sizewarn. rewrite existsb_app. intros ->. apply orb_true_r. Qed.

Definition good (tr : list action) : Prop := (exists cs, tiled tr cs) \/ sizewarn tr.

Lemma good_app a b : good a -> good b -> good (a ++ b).
Proof.
  intros [[ca Ha]|Ha] [[cb Hb]|Hb].
  - left. eexists. eapply tiled_app; eassumption.
  - right. apply sizewarn_app_r, Hb.
  - right. apply sizewarn_app_l, Ha.
  - right. apply sizewarn_app_l, Ha.
Qed.

Lemma good_nil : good [].
Proof. left. exists []. constructor. Qed.

(** the invariant: a run that returns normally has a good trace *)
Definition tiles {A} (m : M A) : Prop :=
  forall s tr s' a, m s = (tr, s', Ok a) -> good tr.

Lemma til_ret A (a : A) : tiles (ret a).
Proof. intros s tr s' a' H. injection H as <- <- <-. apply good_nil. Qed.

Lemma til_bind A B (m : M A) (f : A -> M B) : tiles m -> (forall a, tiles (f a)) -> tiles (bind m f).
Proof.
  intros Hm Hf s tr s' b H. unfold bind in H.
  destruct (m s) as [[tr1 s1] o1] eqn:E1. destruct o1 as [a|e| |k|]; try discriminate.
  destruct (f a s1) as [[tr2 s2] o2] eqn:E2. injection H as <- <- ->.
  apply good_app; [eapply Hm; exact E1|eapply Hf; exact E2].
Qed.

Lemma til_quiet A (m : M A) : (forall s tr s' a, m s = (tr, s', Ok a) -> tr = []) -> tiles m.
Proof. intros Hm s tr s' a H. rewrite (Hm _ _ _ _ H). apply good_nil. Qed.

Lemma til_never A (m : M A) : (forall s tr s' a, m s <> (tr, s', Ok a)) -> tiles m.
Proof. intros Hm s tr s' a H. exfalso. eapply Hm. exact H. Qed.

(** computations that never read or emit when they return normally *)
Definition quiet {A} (m : M A) : Prop := forall s tr s' a, m s = (tr, s', Ok a) -> tr = [].
Definition never_ok {A} (m : M A) : Prop := forall s tr s' a, m s <> (tr, s', Ok a).

Lemma quiet_of_never A (m : M A) : never_ok m -> quiet m.
Proof. intros H s tr s' a E. exfalso. eapply H. exact E. Qed.

Lemma quiet_bind A B (m : M A) (f : A -> M B) : quiet m -> (forall a, quiet (f a)) -> quiet (bind m f).
Proof.
  intros Hm Hf s tr s' b H. unfold bind in H. destruct (m s) as [[tr1 s1] o1] eqn:E1.
  destruct o1 as [a|e| |k|]; try discriminate.
  destruct (f a s1) as [[tr2 s2] o2] eqn:E2. injection H as <- _ ->.
  rewrite (Hm _ _ _ _ E1), (Hf _ _ _ _ _ E2). reflexivity.
Qed.

Lemma never_bind_r A B (m : M A) (f : A -> M B) : (forall a, never_ok (f a)) -> never_ok (bind m f).
Proof.
  intros Hf s tr s' b H. unfold bind in H. destruct (m s) as [[tr1 s1] o1] eqn:E1.
  destruct o1 as [a|e| |k|]; try discriminate.
  destruct (f a s1) as [[tr2 s2] o2] eqn:E2. injection H as _ _ ->. eapply Hf. exact E2.
Qed.

Lemma quiet_get : quiet get.
Proof. intros s tr s' a H. injection H as <- _ _. reflexivity. Qed.
Lemma quiet_ret A (x : A) : quiet (ret x).
Proof. intros s tr s' a H. injection H as <- _ _. reflexivity. Qed.
Lemma quiet_set_sc i c : quiet (set_sc i c).
Proof. intros s tr s' a H. injection H as <- _ _. reflexivity. Qed.
Lemma quiet_set_lst l : quiet (set_lst l).
Proof. intros s tr s' a H. injection H as <- _ _. reflexivity. Qed.

Lemma quiet_bump_all ids n : quiet (bump_all ids n).
Proof.
  induction ids as [|i r IH]; cbn [bump_all]; [apply quiet_ret|].
  apply quiet_bind; [apply quiet_get|]. intros s. apply quiet_bind; [apply quiet_set_sc|]. intros _. exact IH.
Qed.

Lemma quiet_bytes_parsed p size : quiet (bytes_parsed p size).
Proof.
  unfold bytes_parsed, purge. apply quiet_bind.
  - apply quiet_bind; [apply quiet_get|]. intros s. apply quiet_set_lst.
  - intros _. apply quiet_bind; [apply quiet_get|]. intros s.
    destruct (find_violated s (lst s) size []) as [[[[before i] by_] after]|]; [|apply quiet_bump_all].
    apply quiet_of_never. do 5 (apply never_bind_r; intros _). intros s0 tr s' a H. discriminate.
Qed.

Lemma readn_ok n s tr s' bs : readn n s = (tr, s', Ok bs) -> tr = map Rd bs /\ List.length bs = n.
Proof.
  revert s tr s' bs. induction n as [|n IH]; intros s tr s' bs H; cbn [readn] in H.
  - injection H as <- <- <-. split; reflexivity.
  - unfold bind at 1 in H. unfold read1 at 1 in H. destruct (inp s) as [|b r]; [discriminate|].
    unfold bind in H. destruct (readn n _) as [[tr2 s2] o2] eqn:E. destruct o2 as [bs2| | | |]; try discriminate.
    injection H as <- <- <-. destruct (IH _ _ _ _ E) as [-> <-]. cbn [map app]. rewrite app_nil_r. split; reflexivity.
Qed.

Lemma til_dec_prim abort p pa : tiles (dec_prim abort p pa).
Proof.
  intros s tr s' a H. unfold dec_prim in H.
  unfold bind at 1 in H.
  destruct (bytes_parsed pa (pwidth p) s) as [[tr1 s1] o1] eqn:E1.
  destruct o1 as [u|e| |k|]; try discriminate.
  pose proof (quiet_bytes_parsed _ _ _ _ _ _ E1) as ->. cbn [app] in H.
  unfold bind at 1 in H.
  destruct (readn _ s1) as [[tr2 s2] o2] eqn:E2. destruct o2 as [bs| | | |]; try discriminate.
  destruct (readn_ok _ _ _ _ _ E2) as [-> L].
  destruct (valid p _).
  - cbn in H. injection H as <- _ _. left. eexists.
    replace (map Rd bs ++ [Ev (mkEvent pa (TyN (pname p)) (Some (from_bytes (psigned p) bs)))])
      with (map Rd bs ++ Ev (mkEvent pa (TyN (pname p)) (Some (from_bytes (psigned p) bs))) :: []) by reflexivity.
    apply t_prim; [exact L|constructor].
  - destruct abort; [discriminate|]. cbn in H. injection H as <- _ _. left. eexists.
    replace (map Rd bs ++ [Ev (mkEvent pa (TyN (pname p)) (Some (from_bytes (psigned p) bs)));
                           Wn (EValue pa (pname p) (from_bytes (psigned p) bs) VSType)])
      with (map Rd bs ++ Ev (mkEvent pa (TyN (pname p)) (Some (from_bytes (psigned p) bs))) ::
              [Wn (EValue pa (pname p) (from_bytes (psigned p) bs) VSType)]) by reflexivity.
    apply t_prim; [exact L|]. apply t_vwarn. constructor.
Qed.

Lemma til_set_constraint abort i p n : tiles (set_constraint abort i p n).
Proof.
  intros s tr s' a H. unfold set_constraint in H.
  destruct (n <? 0); [discriminate|].
  cbn [bind get set_sc] in H.
  match type of H with context [anticipate ?a ?b ?c ?d] => destruct (anticipate a b c d) as [[ci b_]|] end.
  - destruct abort; [discriminate|]. cbn in H. injection H as <- _ _. right. reflexivity.
  - cbn in H. injection H as <- _ _. apply good_nil.
Qed.

Lemma til_assert_done abort i : tiles (assert_done abort i).
Proof.
  intros s tr s' a H. unfold assert_done in H. unfold bind at 1 in H. cbn [get] in H.
  destruct (sc_max (get_sc _ i)) as [mx|]; [|discriminate].
  destruct (sc_obs (get_sc _ i)); [injection H as <- _ _; apply good_nil|].
  unfold bind at 1 in H. cbn [set_sc] in H.
  destruct (sc_already (get_sc _ i) =? mx).
  - cbn in H. injection H as <- _ _. apply good_nil.
  - destruct abort; [discriminate|].
    unfold bind at 1 in H. cbn [emit] in H.
    match type of H with context [bind ?m ?f ?st] => destruct (bind m f st) as [[trc sc_] oc] end.
    destruct oc; try discriminate. injection H as <- _ _. right. reflexivity.
Qed.

Lemma til_catch A abort ids (m h : M A) : tiles m -> tiles h -> tiles (catch_exceeded abort ids m h).
Proof.
  intros Hm Hh s tr s' a H. unfold catch_exceeded in H.
  destruct (m s) as [[tr1 s1] o1] eqn:E1.
  destruct o1 as [a1|e| |k|]; try discriminate.
  - injection H as <- <- <-. eapply Hm. exact E1.
  - destruct e as [| c v b | | | | |]; try discriminate.
    destruct (abort || negb (existsb (Nat.eqb (si_id c)) ids)); [discriminate|].
    destruct (h s1) as [[tr2 s2] o2] eqn:E2. injection H as <- _ _.
    right. apply sizewarn_app_r. reflexivity.
Qed.

Lemma tiles_closed abort : closed abort (@tiles).
Proof.
  constructor; intros.
  - apply til_ret.
  - apply til_bind; assumption.
  - apply til_quiet. intros s tr s' a H. injection H as <- _ _. reflexivity.
  - apply til_never. intros s tr s' a H. discriminate.
  - apply til_never. intros s tr s' a H. discriminate.
  - apply til_never. intros s tr s' a H. discriminate.
  - intros s tr s' a H. injection H as <- _ _. left. eexists. apply t_struct. constructor.
  - apply til_dec_prim.
  - apply til_quiet. intros s tr s' a H. injection H as <- _ _. reflexivity.
  - apply til_set_constraint.
  - apply til_quiet. intros s tr s' a H. injection H as <- _ _. reflexivity.
  - apply til_quiet. intros s tr s' a H. injection H as <- _ _. reflexivity.
  - apply til_assert_done.
  - apply til_catch; assumption.
  - destruct abort; [apply til_never; intros s tr s' a H; discriminate|].
    intros s tr s' a H. injection H as <- _ _. right. reflexivity.
Qed.

Theorem tiles_dec_root T abort r : tiles (dec_root T abort r).
Proof. apply P_dec_root. apply tiles_closed. Qed.

(** strict mode never emits a warning: a good strict trace is tiled *)
Definition nowarn {A} (m : M A) : Prop :=
  forall s tr s' o, m s = (tr, s', o) -> existsb (fun a => match a with Wn _ => true | _ => false end) tr = false.

(** re-encoding a primitive event's value gives back exactly its chunk *)
Lemma chunk_reencodes p bs :
  0 < pwidth p -> List.length bs = Z.to_nat (pwidth p) -> Forall isbyte bs ->
  prim_bytes p (from_bytes (psigned p) bs) = Some bs.
Proof.
  intros Hw L Hb. unfold prim_bytes. rewrite <- L. apply to_from_bytes; [exact Hb|].
  destruct bs; [cbn in L; lia|discriminate].
Qed.

(** ------------------------------------------------------------------ through the pump *)

Definition not_rd (a : action) : bool := match a with Rd _ => false | _ => true end.

Lemma pump_go_nostream len tr ps :
  exists ps', pump_go false len tr ps = (ps', false) /\
              map fst (rev (ps_out ps')) = map fst (rev (ps_out ps)) ++ filter not_rd tr /\
              ps_nrd ps' = ps_nrd ps + Z.of_nat (List.length (bytes_of tr)).
Proof.
  revert ps. induction tr as [|a tr IH]; intros ps; cbn [pump_go].
  - exists ps. cbn. rewrite app_nil_r. repeat split; lia.
  - destruct a as [b|e|w]; cbn [andb].
    + destruct (IH (mkP (ps_nrd ps + 1) (ps_cc ps) (ps_out ps))) as (ps' & E & O & N).
      exists ps'. split; [exact E|]. cbn [filter not_rd bytes_of List.length ps_out ps_nrd] in *. split; [exact O|lia].
    + match goal with |- context [pump_go false len tr ?q] => destruct (IH q) as (ps' & E & O & N) end.
      exists ps'. split; [exact E|]. cbn [filter not_rd bytes_of ps_out ps_nrd rev map] in *.
      rewrite O, map_app. cbn [map fst]. rewrite <- app_assoc. split; [reflexivity|exact N].
    + match goal with |- context [pump_go false len tr ?q] => destruct (IH q) as (ps' & E & O & N) end.
      exists ps'. split; [exact E|]. cbn [filter not_rd bytes_of ps_out ps_nrd rev map] in *.
      rewrite O, map_app. cbn [map fst]. rewrite <- app_assoc. split; [reflexivity|exact N].
Qed.

Lemma sizewarn_filter tr : sizewarn tr -> existsb is_size_warning (filter not_rd tr) = true.
Proof.
  unfold sizewarn. induction tr as [|a tr IH]; cbn [existsb filter]; [discriminate|].
  destruct a as [b|e|w]; cbn [is_size_warning not_rd orb existsb].
  - exact IH.
  - exact IH.
  - destruct w; cbn [orb]; try reflexivity. exact IH.
Qed.

(** C02 for every root other than a stream, both modes: an accepted input whose reported problems (if any)
    are value warnings only is the concatenation of the per-event chunks of its trace, and the emitted
    events are exactly the trace's events. *)
Theorem accepted_is_tiled T abort r input evs :
  is_stream_root r = false ->
  decode T abort r input = (evs, OAccepted) ->
  existsb is_size_warning (map fst evs) = false ->
  exists tr cs, fst (fst (dec_root T abort r (init_st input))) = tr /\
                tiled tr cs /\ List.concat cs = input /\ map fst evs = filter not_rd tr.
Proof.
  intros NS H NW. unfold decode, pump in H. rewrite NS in H.
  destruct (dec_root T abort r (init_st input)) as [[tr s'] o] eqn:E.
  pose proof (accounts_dec_root T abort r _ _ _ _ E) as A. cbn [init_st inp] in A.
  destruct (pump_go_nostream (Z.of_nat (List.length input)) tr (mkP 0 None [])) as (ps & G & O & N).
  rewrite G in H. cbn [ps_nrd ps_out rev map app] in O, N. rewrite Z.add_0_l in N.
  assert (R : skipZ input (ps_nrd ps) = inp s').
  { rewrite N. rewrite A at 1. apply skipZ_app. }
  rewrite R in H.
  exists tr. cbn [fst].
  destruct o as [a|e| |k|]; try discriminate.
  - destruct (inp s') as [|x rest] eqn:I.
    + injection H as <-. pose proof (tiles_dec_root T abort r _ _ _ _ E) as [[cs Ht]|SW].
      * exists cs. repeat split; [exact Ht| |exact O].
        rewrite (tiled_bytes _ _ Ht). rewrite A, app_nil_r. reflexivity.
      * exfalso. rewrite O in NW. rewrite (sizewarn_filter _ SW) in NW. discriminate.
    + destruct abort; [discriminate|]. injection H as <-.
      exfalso. cbn [rev] in NW. rewrite map_app, existsb_app in NW.
      cbn [map fst existsb is_size_warning] in NW. rewrite !orb_true_r in NW. discriminate.
  - destruct abort; [discriminate|]. injection H as <-.
    exfalso. cbn [rev] in NW. rewrite map_app, existsb_app in NW.
    cbn [map fst existsb is_size_warning] in NW. rewrite !orb_true_r in NW. discriminate.
Qed.
