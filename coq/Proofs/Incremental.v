(** Incrementality: the decoder learns about its input only through [read1].  Appending bytes to the
    input leaves every run that did not stop for lack of input unchanged, and extends the others. *)
From Coq Require Import ZArith List String Bool Lia.
From TV Require Import Layout.Types Base.Bytes Model.Monad Model.Constraints Model.Ints Model.Decoder Model.Message
  Model.Pump Proofs.Closure Proofs.LowClosure.
Import ListNotations.
Open Scope list_scope.
Open Scope Z_scope.

Definition ext (s : st) (ys : list Z) : st := mkSt (inp s ++ ys) (store s) (lst s).

Definition incr {A} (m : M A) : Prop :=
  forall s ys tr s' o, m s = (tr, s', o) ->
    (o <> More -> m (ext s ys) = (tr, ext s' ys, o)) /\
    (o = More -> exists tr2 s2 o2, m (ext s ys) = (tr ++ tr2, s2, o2)).

(** operations that neither read input nor depend on it *)
Lemma incr_pure A (m : M A) :
  (forall s, exists tr o f, o <> More /\ forall ys, m (ext s ys) = (tr, mkSt (inp s ++ ys) (fst (f (store s) (lst s))) (snd (f (store s) (lst s))), o)) ->
  incr m.
Proof.
  intros Hm s ys tr s' o H. destruct (Hm s) as (tr0 & o0 & f & Hne & E).
  pose proof (E []) as E0. unfold ext in E0. rewrite app_nil_r in E0.
  replace (mkSt (inp s) (store s) (lst s)) with s in E0 by (destruct s; reflexivity).
  rewrite H in E0. injection E0 as -> -> ->.
  split; [|intros; contradiction]. intros _. rewrite E. unfold ext. cbn [inp store lst]. reflexivity.
Qed.

Ltac pure_op f := apply incr_pure; intros s; eexists _, _, f; split; [|intros ys; unfold ext, get, ret, fail, internal_, fuel_, emit, set_sc, new_sc, set_lst, append_lst, remove_lst; cbn [store lst inp fst snd]; reflexivity]; discriminate.

Lemma incr_ret A (a : A) : incr (ret a).
Proof. pure_op (fun (st_ : list sc) (l : list nat) => (st_, l)). Qed.
Lemma incr_get : incr get.
Proof. pure_op (fun (st_ : list sc) (l : list nat) => (st_, l)). Qed.
Lemma incr_fail A e : incr (@fail A e).
Proof. pure_op (fun (st_ : list sc) (l : list nat) => (st_, l)). Qed.
Lemma incr_internal A k : incr (@internal_ A k).
Proof. pure_op (fun (st_ : list sc) (l : list nat) => (st_, l)). Qed.
Lemma incr_fuel A : incr (@fuel_ A).
Proof. pure_op (fun (st_ : list sc) (l : list nat) => (st_, l)). Qed.
Lemma incr_emit a : incr (emit a).
Proof. pure_op (fun (st_ : list sc) (l : list nat) => (st_, l)). Qed.
Lemma incr_set_sc i c : incr (set_sc i c).
Proof. pure_op (fun (st_ : list sc) (l : list nat) => (upd st_ i c, l)). Qed.
Lemma incr_new_sc : incr new_sc.
Proof. pure_op (fun (st_ : list sc) (l : list nat) => (st_ ++ [sc_new], l)). Qed.
Lemma incr_set_lst l0 : incr (set_lst l0).
Proof. pure_op (fun (st_ : list sc) (l : list nat) => (st_, l0)). Qed.
Lemma incr_append_lst i : incr (append_lst i).
Proof. pure_op (fun (st_ : list sc) (l : list nat) => (st_, l ++ [i])). Qed.
Lemma incr_remove_lst i : incr (remove_lst i).
Proof. pure_op (fun (st_ : list sc) (l : list nat) => (st_, remove1 i l)). Qed.

Lemma incr_read1 : incr read1.
Proof.
  intros s ys tr s' o H. unfold read1 in H. destruct (inp s) as [|b r] eqn:E.
  - injection H as <- <- <-. split; [intros C; contradiction|]. intros _.
    unfold read1, ext. cbn [inp]. rewrite E. cbn [app]. destruct ys as [|y ys]; eexists _, _, _; reflexivity.
  - injection H as <- <- <-. split; [|discriminate]. intros _.
    unfold read1, ext. cbn [inp store lst]. rewrite E. reflexivity.
Qed.

Lemma take_bytes_enough l n t rest ys :
  take_bytes l n = (t, rest, true) -> take_bytes (l ++ ys) n = (t, rest ++ ys, true).
Proof.
  revert n t rest. induction l as [|b r IH]; intros n t rest H.
  - cbn [take_bytes] in H. destruct (n <=? 0) eqn:E; [|discriminate]. injection H as <- <-.
    cbn [app]. destruct ys; cbn [take_bytes]; rewrite E; reflexivity.
  - cbn [take_bytes app] in *. destruct (n <=? 0); [injection H as <- <-; reflexivity|].
    destruct (take_bytes r (n - 1)) as [[t' rest'] d] eqn:E. injection H as <- <- ->.
    rewrite (IH _ _ _ E). reflexivity.
Qed.

Lemma take_bytes_short l n t rest ys :
  take_bytes l n = (t, rest, false) -> exists t2 rest2 d, take_bytes (l ++ ys) n = (t ++ t2, rest2, d).
Proof.
  revert n t rest. induction l as [|b r IH]; intros n t rest H.
  - cbn [take_bytes] in H. destruct (n <=? 0); [discriminate|]. injection H as <- <-.
    cbn [app]. destruct (take_bytes ys n) as [[t2 r2] d]. eexists _, _, _. reflexivity.
  - cbn [take_bytes app] in *. destruct (n <=? 0); [discriminate|].
    destruct (take_bytes r (n - 1)) as [[t' rest'] d] eqn:E. injection H as <- <- ->.
    destruct (IH _ _ _ E) as (t2 & r2 & d2 & E2). rewrite E2. eexists _, _, _. reflexivity.
Qed.

Lemma incr_consume n : incr (consume n).
Proof.
  intros s ys tr s' o H. unfold consume in H.
  destruct (take_bytes (inp s) n) as [[t rest] d] eqn:E. injection H as <- <- <-.
  destruct d.
  - split; [|discriminate]. intros _. unfold consume, ext. cbn [inp store lst].
    rewrite (take_bytes_enough _ _ _ _ ys E). reflexivity.
  - split; [intros C; contradiction|]. intros _. unfold consume, ext. cbn [inp store lst].
    destruct (take_bytes_short _ _ _ _ ys E) as (t2 & r2 & d2 & E2). rewrite E2.
    rewrite map_app. eexists _, _, _. reflexivity.
Qed.

Lemma incr_bind A B (m : M A) (f : A -> M B) : incr m -> (forall a, incr (f a)) -> incr (bind m f).
Proof.
  intros Hm Hf s ys tr s' o H. unfold bind in H.
  destruct (m s) as [[tr1 s1] o1] eqn:E1. destruct (Hm _ ys _ _ _ E1) as [Hne Hmore].
  destruct o1 as [a|e| |k|].
  - destruct (f a s1) as [[tr2 s2] o2] eqn:E2. injection H as <- <- <-.
    destruct (Hf a _ ys _ _ _ E2) as [Hne2 Hmore2].
    split.
    + intros N. unfold bind. rewrite Hne by discriminate. rewrite (Hne2 N). reflexivity.
    + intros ->. unfold bind. rewrite Hne by discriminate.
      destruct (Hmore2 eq_refl) as (t3 & s3 & o3 & E3). rewrite E3. rewrite app_assoc. eexists _, _, _. reflexivity.
  - injection H as <- <- <-. split; [|discriminate]. intros _. unfold bind. rewrite Hne by discriminate. reflexivity.
  - injection H as <- <- <-. split; [intros C; contradiction|]. intros _.
    destruct (Hmore eq_refl) as (t2 & s2 & o2 & E2). unfold bind. rewrite E2.
    destruct o2 as [a|e| |k|]; try (eexists _, _, _; reflexivity).
    destruct (f a s2) as [[t3 s3] o3]. rewrite <- app_assoc. eexists _, _, _. reflexivity.
  - injection H as <- <- <-. split; [|discriminate]. intros _. unfold bind. rewrite Hne by discriminate. reflexivity.
  - injection H as <- <- <-. split; [|discriminate]. intros _. unfold bind. rewrite Hne by discriminate. reflexivity.
Qed.

Lemma incr_catch A abort ids (m h : M A) : incr m -> incr h -> incr (catch_exceeded abort ids m h).
Proof.
  intros Hm Hh s ys tr s' o H. unfold catch_exceeded in H.
  destruct (m s) as [[tr1 s1] o1] eqn:E1. destruct (Hm _ ys _ _ _ E1) as [Hne Hmore].
  destruct o1 as [a|e| |k|].
  - injection H as <- <- <-. split; [|discriminate]. intros _. unfold catch_exceeded. rewrite Hne by discriminate. reflexivity.
  - assert (Hrun : m (ext s ys) = (tr1, ext s1 ys, Fail e)) by (apply Hne; discriminate).
    destruct e as [p0 tn v src|c v b|c v val b|c|cc|rest cc|mp me mf];
      try (injection H as <- <- <-; split; [|discriminate]; intros _; unfold catch_exceeded; rewrite Hrun; reflexivity).
    destruct (abort || negb (existsb (Nat.eqb (si_id c)) ids)) eqn:G.
    + injection H as <- <- <-. split; [|discriminate]. intros _. unfold catch_exceeded. rewrite Hrun, G. reflexivity.
    + destruct (h s1) as [[tr2 s2] o2] eqn:E2. injection H as <- <- <-.
      destruct (Hh _ ys _ _ _ E2) as [Hne2 Hmore2]. split.
      * intros N. unfold catch_exceeded. rewrite Hrun, G, (Hne2 N). reflexivity.
      * intros ->. unfold catch_exceeded. rewrite Hrun, G.
        destruct (Hmore2 eq_refl) as (t3 & s3 & o3 & E3). rewrite E3.
        eexists _, _, _. rewrite <- app_assoc. cbn [app]. reflexivity.
  - injection H as <- <- <-. split; [intros C; contradiction|]. intros _.
    destruct (Hmore eq_refl) as (t2 & s2 & o2 & E2). unfold catch_exceeded. rewrite E2.
    destruct o2 as [a|e| |k|]; try (eexists _, _, _; reflexivity).
    destruct e as [p0 tn v src|c v b|c v val b|c|cc|rest cc|mp me mf]; try (eexists _, _, _; reflexivity).
    destruct (abort || negb (existsb (Nat.eqb (si_id c)) ids)); [eexists _, _, _; reflexivity|].
    destruct (h s2) as [[t3 s3] o3]. rewrite <- app_assoc. eexists _, _, _. reflexivity.
  - injection H as <- <- <-. split; [|discriminate]. intros _. unfold catch_exceeded. rewrite Hne by discriminate. reflexivity.
  - injection H as <- <- <-. split; [|discriminate]. intros _. unfold catch_exceeded. rewrite Hne by discriminate. reflexivity.
Qed.

Lemma incr_lclosed : lclosed (@incr).
Proof.
  constructor; intros.
  - apply incr_ret.
  - apply incr_bind; assumption.
  - apply incr_get.
  - apply incr_fail.
  - apply incr_internal.
  - apply incr_fuel.
  - apply incr_emit.
  - apply incr_read1.
  - apply incr_consume.
  - apply incr_set_sc.
  - apply incr_new_sc.
  - apply incr_set_lst.
  - apply incr_append_lst.
  - apply incr_remove_lst.
  - apply incr_catch; assumption.
Qed.

(** every decoder function, both modes, all tables *)
Theorem incr_dec_root T abort r : incr (dec_root T abort r).
Proof. apply L_dec_root. apply incr_lclosed. Qed.
