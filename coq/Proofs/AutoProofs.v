(** C15: which front-end auto-detection picks, and which bytes the pcapng front-end delivers. *)
From Coq Require Import ZArith List Bool Lia.
From TV Require Import Model.Frontends Proofs.HexProofs.
Import ListNotations.
Open Scope Z_scope.

Definition nonws (s : list Z) : list Z := filter (fun c => negb (is_ws c)) s.

Lemma nonws_app a b : nonws (a ++ b) = nonws a ++ nonws b.
Proof. apply filter_app. Qed.
Lemma nonws_all_ws ws : forallb is_ws ws = true -> nonws ws = [].
Proof.
  induction ws as [|c r IH]; cbn [forallb nonws filter]; intros H; [reflexivity|]. apply andb_prop in H as [Hc Hr].
  rewrite Hc. cbn [negb]. apply IH, Hr.
Qed.

(** a hex text that spells at least one byte: its first two non-blank characters are hex digits *)
Lemma spells_nonws s bs : spells s bs -> bs <> [] -> exists x y a b r, nonws s = x :: y :: r /\ hexval x = Some a /\ hexval y = Some b.
Proof.
  induction 1 as [|c s bs Hc H IH|h a ws l b s bs Hh Ha Hws Hl Hb H IH]; intros Hn.
  - contradiction.
  - destruct (IH Hn) as (x & y & a & b & r & E & Hx & Hy). exists x, y, a, b, r. split; [|split; assumption].
    cbn [nonws filter]. rewrite Hc. exact E.
  - exists h, l, a, b, (nonws s). split; [|split; assumption].
    change (h :: ws ++ l :: s) with ([h] ++ ws ++ [l] ++ s). rewrite !nonws_app, (nonws_all_ws ws Hws).
    cbn [nonws filter app]. rewrite Hh, Hl. reflexivity.
Qed.

Lemma spells_length s bs : spells s bs -> bs <> [] -> exists a b r, s = a :: b :: r.
Proof.
  intros H Hn. destruct (spells_nonws s bs H Hn) as (x & y & _ & _ & r & E & _).
  destruct s as [|a [|b r0]].
  - discriminate.
  - cbn [nonws filter] in E. destruct (negb (is_ws a)); discriminate.
  - exists a, b, r0. reflexivity.
Qed.

(** auto-detection takes a hex text for hex - unless it starts with LF CR, the two-byte pcapng magic *)
Theorem auto_picks_hex s bs : spells s bs -> bs <> [] ->
  (forall r, s <> 10 :: 13 :: r) -> detect s = FHex.
Proof.
  intros H Hn Hm. destruct (spells_length s bs H Hn) as (a & b & r & ->).
  destruct (spells_nonws _ bs H Hn) as (x & y & va & vb & r' & E & Hx & Hy).
  unfold detect. destruct ((a =? 10) && (b =? 13)) eqn:Em.
  - apply andb_prop in Em as [Ea Eb]. apply Z.eqb_eq in Ea, Eb. subst. exfalso. apply (Hm r). reflexivity.
  - fold (nonws (a :: b :: r)). rewrite E, Hx, Hy. reflexivity.
Qed.

(** ... an input that starts with LF CR for a capture ... *)
Theorem auto_picks_pcapng r : detect (10 :: 13 :: r) = FPcapng.
Proof. reflexivity. Qed.

Theorem auto_pcapng_only_for_magic s : detect s = FPcapng -> exists r, s = 10 :: 13 :: r.
Proof.
  unfold detect. destruct s as [|a [|b r]]; try discriminate. destruct ((a =? 10) && (b =? 13)) eqn:Em.
  - apply andb_prop in Em as [Ea Eb]. apply Z.eqb_eq in Ea, Eb. subst. intros _. exists r. reflexivity.
  - destruct (filter _ _) as [|x [|y r']]; try discriminate. destruct (hexval x), (hexval y); discriminate.
Qed.

(** ... and anything whose first byte is neither blank nor a hex digit - every TPM message: the tags start with 0x80 or
    0x00 - for binary *)
Theorem auto_picks_binary a b r : is_ws a = false -> hexval a = None -> detect (a :: b :: r) = FBinary.
Proof.
  intros Hw Hh. unfold detect.
  assert (Ha : (a =? 10) = false).
  { destruct (a =? 10) eqn:E; [|reflexivity]. apply Z.eqb_eq in E. subst. discriminate. }
  rewrite Ha. cbn [andb filter]. rewrite Hw. cbn [negb].
  destruct (if negb (is_ws b) then b :: filter _ r else filter _ r) as [|y r']; [reflexivity|]. rewrite Hh. reflexivity.
Qed.

Example tag_bytes_are_binary : (is_ws 128 = false /\ hexval 128 = None) /\ (is_ws 0 = false /\ hexval 0 = None).
Proof. repeat split; reflexivity. Qed.

(** ---- pcapng: a TPM packet is trimmed to its own size field, runts are skipped *)
Lemma be4 a b c d : be [a; b; c; d] 0 = ((a * 256 + b) * 256 + c) * 256 + d.
Proof. cbn [be]. lia. Qed.

(** a packet: a message whose size field (bytes 2..5, big endian) is its length, followed by a trailer (the mssim
    acknowledgement) *)
Definition sized_message (m : list Z) : Prop :=
  (10 <= List.length m)%nat /\ be (firstn 4 (skipn 2 m)) 0 = Z.of_nat (List.length m).

Lemma firstn_skipn_app {A} (m t : list A) n k : (k + n <= List.length m)%nat -> firstn n (skipn k (m ++ t)) = firstn n (skipn k m).
Proof.
  intros H. rewrite skipn_app, firstn_app. replace (n - List.length (skipn k m))%nat with 0%nat by (rewrite skipn_length; lia).
  cbn [firstn]. rewrite app_nil_r. reflexivity.
Qed.

Theorem packet_is_trimmed_to_its_message m t : sized_message m -> trim_payload (m ++ t) = m.
Proof.
  intros [Hl Hs]. unfold trim_payload. rewrite (firstn_skipn_app m t 4 2) by lia. rewrite Hs, app_length.
  destruct t as [|x t].
  - rewrite app_nil_r, Nat.add_0_r, Z.ltb_irrefl. reflexivity.
  - replace (Z.of_nat (List.length m) <? Z.of_nat (List.length m + List.length (x :: t))) with true
      by (symmetry; apply Z.ltb_lt; cbn [List.length]; lia).
    rewrite Nat2Z.id, firstn_app, Nat.sub_diag, firstn_all. cbn [firstn]. apply app_nil_r.
Qed.

(** packets of whole messages (with or without trailer) interleaved with runts: exactly the messages are delivered *)
Inductive capture : list (list Z) -> list Z -> Prop :=
| cap_nil : capture [] []
| cap_runt p ps bs : (List.length p < 10)%nat -> capture ps bs -> capture (p :: ps) bs
| cap_msg m t ps bs : sized_message m -> capture ps bs -> capture ((m ++ t) :: ps) (m ++ bs).

Theorem capture_delivers_its_messages ps bs : capture ps bs -> pcap_bytes ps = bs.
Proof.
  unfold pcap_bytes. induction 1 as [|p ps bs Hp H IH|m t ps bs Hm H IH]; [reflexivity| |]; cbn [filter].
  - replace (10 <=? Z.of_nat (List.length p)) with false by (symmetry; apply Z.leb_gt; lia). exact IH.
  - replace (10 <=? Z.of_nat (List.length (m ++ t))) with true by (symmetry; apply Z.leb_le; rewrite app_length; destruct Hm; lia).
    cbn [flat_map]. rewrite (packet_is_trimmed_to_its_message m t Hm), IH. reflexivity.
Qed.

(** a packet that is cut short - at least a header, its size field announcing at least as many bytes as are there
    (the rest in a later segment, or lost to the snap length) - is delivered whole: nothing is held back or dropped *)
Definition cut_packet (p : list Z) : Prop :=
  (10 <= List.length p)%nat /\ Z.of_nat (List.length p) <= be (firstn 4 (skipn 2 p)) 0.

Theorem cut_packet_is_delivered_whole p : cut_packet p -> trim_payload p = p.
Proof.
  intros [_ Hs]. unfold trim_payload.
  replace (be (firstn 4 (skipn 2 p)) 0 <? Z.of_nat (List.length p)) with false by (symmetry; apply Z.ltb_ge; exact Hs).
  reflexivity.
Qed.

Inductive capture_cut : list (list Z) -> list Z -> Prop :=
| cc_nil : capture_cut [] []
| cc_runt p ps bs : (List.length p < 10)%nat -> capture_cut ps bs -> capture_cut (p :: ps) bs
| cc_msg m t ps bs : sized_message m -> capture_cut ps bs -> capture_cut ((m ++ t) :: ps) (m ++ bs)
| cc_cut p ps bs : cut_packet p -> capture_cut ps bs -> capture_cut (p :: ps) (p ++ bs).

Theorem capture_with_cut_packets_delivers_every_carried_byte ps bs : capture_cut ps bs -> pcap_bytes ps = bs.
Proof.
  unfold pcap_bytes. induction 1 as [|p ps bs Hp H IH|m t ps bs Hm H IH|p ps bs Hc H IH]; [reflexivity| | |]; cbn [filter].
  - replace (10 <=? Z.of_nat (List.length p)) with false by (symmetry; apply Z.leb_gt; lia). exact IH.
  - replace (10 <=? Z.of_nat (List.length (m ++ t))) with true by (symmetry; apply Z.leb_le; rewrite app_length; destruct Hm; lia).
    cbn [flat_map]. rewrite (packet_is_trimmed_to_its_message m t Hm), IH. reflexivity.
  - replace (10 <=? Z.of_nat (List.length p)) with true by (symmetry; apply Z.leb_le; destruct Hc; lia).
    cbn [flat_map]. rewrite (cut_packet_is_delivered_whole p Hc), IH. reflexivity.
Qed.
