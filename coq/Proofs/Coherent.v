(** Coherence of the layout tables (C20), as boolean checks with their meaning stated as lemmas. *)
From Coq Require Import ZArith List String Ascii Bool Lia.
From TV Require Import Layout.Types Model.Ints Model.Monad Model.Decoder.
Import ListNotations.
Open Scope string_scope.
Open Scope list_scope.
Open Scope Z_scope.

(** ---- names: the area types of a command code are named after it *)
Definition upchar (c : ascii) : ascii :=
  let n := nat_of_ascii c in
  if (97 <=? n)%nat && (n <=? 122)%nat then ascii_of_nat (n - 32) else c.
Fixpoint norm_name (s : string) : string :=
  match s with
  | EmptyString => EmptyString
  | String c r => if Ascii.eqb c "_" then norm_name r else String (upchar c) (norm_name r)
  end.
Fixpoint strip_prefix (pre s : string) : option string :=
  match pre, s with
  | EmptyString, _ => Some s
  | String a p', String b s' => if Ascii.eqb a b then strip_prefix p' s' else None
  | _, _ => None
  end.
Definition named_after (pre ccname tyname : string) : bool :=
  match strip_prefix pre tyname with
  | Some sfx => String.eqb (norm_name sfx) (norm_name ccname)
  | None => false
  end.

Definition cc_members (p : prim) : list (string * Z) :=
  match pkind_ p with
  | KEnum ms => flat_map (fun m => match m with EMConst n v => [(n, v)] | EMRange _ _ _ _ => [] end) ms
  | _ => []
  end.

(** the map has exactly one entry per command code and no other entry *)
Definition one_layout_per_code (pre : string) (ccs : list (string * Z)) (m : list (Z * ty)) : bool :=
  forallb (fun nv =>
    match filter (fun kt => fst kt =? snd nv) m with
    | [(_, t)] => named_after pre (fst nv) (ty_name t)
    | _ => false
    end) ccs
  && forallb (fun kt => existsb (fun nv => snd nv =? fst kt) ccs) m.

(** ---- handle areas: at most three 4-byte handles *)
Fixpoint handle_fields (fs : fields) : option nat :=
  match fs with
  | FNil => Some O
  | FPlain _ (TPrim p) r => if pwidth p =? 4 then option_map S (handle_fields r) else None
  | _ => None
  end.
Definition handle_area_ok (t : ty) : bool :=
  match t with
  | TStruct _ _ fs => match handle_fields fs with Some n => (n <=? 3)%nat | None => false end
  | _ => false
  end.

(** ---- every valid selector value selects a member *)
Definition member_selects (ar : arms) (m : emember) : bool :=
  match m with
  | EMConst _ v => match select_arm ar (Some (EmptyString, v)) with Some _ => true | None => false end
  | EMRange _ lo hi _ => match find_fallback ar with Some _ => true | None => hi <=? lo end
  end.
Definition vitem_selects (ar : arms) (it : vitem) : bool :=
  match it with
  | VMember _ _ v | VInt v => match select_arm ar (Some (EmptyString, v)) with Some _ => true | None => false end
  | VEnum _ ms => forallb (member_selects ar) ms
  | VRange lo hi | VNamed _ _ lo hi _ => match find_fallback ar with Some _ => true | None => hi <=? lo end
  end.

Fixpoint reachable_arms_sized (ar : arms) : bool :=
  match ar with
  | ANil => true
  | ACons _ KNever _ r => reachable_arms_sized r
  | ACons _ _ (PList _ None) _ => false
  | ACons _ _ _ r => reachable_arms_sized r
  end.

(** fields of one structure: [prev] = the fields before, most recent first *)
Fixpoint fields_ok (fs : fields) (prev : list (string * option prim)) : bool :=
  match fs with
  | FNil => true
  | FPlain n t r => fields_ok r ((n, match t with TPrim p => Some p | _ => None end) :: prev)
  | FList n _ r =>
      match prev with
      | (_, Some p) :: _ => negb (psigned p) && fields_ok r ((n, None) :: prev)   (* directly follows its unsigned count *)
      | _ => false
      end
  | FUnion n sel u r =>
      match lookupS sel prev, u with
      | Some (Some p), TUnion _ ar =>
          forallb (vitem_selects ar) (pvalid p) && reachable_arms_sized ar && fields_ok r ((n, None) :: prev)
      | _, _ => false
      end
  end.

(** all structure-like types reachable from [t] satisfy [fields_ok] (fuel = nesting depth bound) *)
Fixpoint deep_ok (fuel : nat) (t : ty) : bool :=
  match fuel with
  | O => false
  | S f =>
      match t with
      | TPrim _ => true
      | TStruct _ _ fs =>
          fields_ok fs [] &&
          (fix go (fs : fields) : bool :=
             match fs with
             | FNil => true
             | FPlain _ t' r => deep_ok f t' && go r
             | FList _ e r => deep_ok f e && go r
             | FUnion _ _ u r => deep_ok f u && go r
             end) fs
      | TTpm2bList _ _ _ szp e => negb (psigned szp) && deep_ok f e
      | TTpm2bStruct _ _ _ szp i => negb (psigned szp) && deep_ok f i
      | TUnion _ ar =>
          (fix go (ar : arms) : bool :=
             match ar with
             | ANil => true
             | ACons _ _ PNone r => go r
             | ACons _ _ (PTy t') r => deep_ok f t' && go r
             | ACons _ _ (PList e _) r => deep_ok f e && go r
             end) ar
      end
  end.

Definition depth_bound : nat := 16.

Definition coherent (T : tables) : bool :=
  let ccs := cc_members (p_cc T) in
  one_layout_per_code "TPMS_COMMAND_HANDLES_" ccs (cmd_handles T) &&
  one_layout_per_code "TPMS_COMMAND_PARAMS_" ccs (cmd_params T) &&
  one_layout_per_code "TPMS_RESPONSE_HANDLES_" ccs (rsp_handles T) &&
  one_layout_per_code "TPMS_RESPONSE_PARAMS_" ccs (rsp_params T) &&
  forallb (fun kt => handle_area_ok (snd kt)) (cmd_handles T) &&
  forallb (fun kt => handle_area_ok (snd kt)) (rsp_handles T) &&
  forallb (fun nt => deep_ok depth_bound (snd nt)) (types T) &&
  forallb (fun kt => deep_ok depth_bound (snd kt)) (cmd_handles T ++ cmd_params T ++ rsp_handles T ++ rsp_params T) &&
  deep_ok depth_bound (t_auth_cmd T) && deep_ok depth_bound (t_auth_rsp T) && deep_ok depth_bound (t_enc_param T).

(** ---- what the checks mean *)

Lemma one_layout_sound pre ccs m :
  one_layout_per_code pre ccs m = true ->
  forall n v, In (n, v) ccs ->
    exists t, filter (fun kt => fst kt =? v) m = [(v, t)] /\ named_after pre n (ty_name t) = true.
Proof.
  unfold one_layout_per_code. intros H n v Hin. apply andb_prop in H as [H _].
  rewrite forallb_forall in H. specialize (H _ Hin). cbn [fst snd] in H.
  destruct (filter (fun kt => fst kt =? v) m) as [|[k t] [|? ?]] eqn:E; try discriminate.
  exists t. split; [|exact H].
  assert (Hk : In (k, t) (filter (fun kt => fst kt =? v) m)) by (rewrite E; left; reflexivity).
  apply filter_In in Hk as [_ Hk]. cbn [fst] in Hk. apply Z.eqb_eq in Hk. subst k. reflexivity.
Qed.

Lemma handle_area_sound t : handle_area_ok t = true ->
  exists n ip fs, t = TStruct n ip fs /\ exists k, handle_fields fs = Some k /\ (k <= 3)%nat.
Proof.
  destruct t as [|n ip fs| | |]; try discriminate. cbn [handle_area_ok].
  destruct (handle_fields fs) as [k|] eqn:E; [|discriminate]. intros H.
  exists n, ip, fs. split; [reflexivity|]. exists k. split; [exact E|]. apply Nat.leb_le, H.
Qed.

Lemma fields_ok_list n e r prev : fields_ok (FList n e r) prev = true ->
  exists cn p rest, prev = (cn, Some p) :: rest /\ psigned p = false.
Proof.
  cbn [fields_ok]. destruct prev as [|[cn [p|]] rest]; try discriminate. intros H.
  apply andb_prop in H as [H _]. exists cn, p, rest. split; [reflexivity|]. destruct (psigned p); [discriminate|reflexivity].
Qed.

Lemma fields_ok_union n sel u r prev : fields_ok (FUnion n sel u r) prev = true ->
  exists p un ar, lookupS sel prev = Some (Some p) /\ u = TUnion un ar /\
    (forall it, In it (pvalid p) -> vitem_selects ar it = true) /\ reachable_arms_sized ar = true.
Proof.
  cbn [fields_ok]. destruct (lookupS sel prev) as [[p|]|]; try discriminate.
  destruct u as [| | | |un ar]; try discriminate. intros H.
  apply andb_prop in H as [H _]. apply andb_prop in H as [H1 H2].
  exists p, un, ar. repeat split; try assumption. intros it Hit. rewrite forallb_forall in H1. apply H1, Hit.
Qed.
