(** C11: [_events_to_dict] applied to the events of an object builds the nested dict/list image of that object. *)
From Coq Require Import ZArith List String Bool Lia.
From TV Require Import Layout.Types Base.Bytes Model.Monad Model.Constraints Model.Ints Model.Decoder Model.Message Model.Pump Model.Object
  Proofs.ObjEv Proofs.EvObj.
Import ListNotations.
Open Scope string_scope.
Open Scope list_scope.
Open Scope Z_scope.

(** ---- the dict builder over (path, placeholder) pairs *)
Definition pe (e : event) : path * tree := (epath e, leaf_of e).

Fixpoint build (qs : list (path * tree)) (t : tree) : option tree :=
  match qs with
  | [] => Some t
  | ql :: r => match ins (fst ql) (snd ql) t with Some t' => build r t' | None => None end
  end.

Lemma events_to_dict_build evs : forall t, events_to_dict evs t = build (map pe evs) t.
Proof. induction evs as [|e r IH]; intros t; [reflexivity|]. cbn [events_to_dict map build pe fst snd]. destruct (ins _ _ t); [apply IH|reflexivity]. Qed.

Lemma build_app a b : forall t, build (a ++ b) t = match build a t with Some t' => build b t' | None => None end.
Proof. induction a as [|x a IH]; intros t; [reflexivity|]. cbn [app build]. destruct (ins _ _ t); [apply IH|reflexivity]. Qed.

Definition prefix (pa : path) (ql : path * tree) : path * tree := (pa ++ fst ql, snd ql).

Lemma prefix_prefix a b l : map (prefix a) (map (prefix b) l) = map (prefix (a ++ b)) l.
Proof. rewrite map_map. apply map_ext. intros [q x]. unfold prefix. cbn [fst snd]. rewrite app_assoc. reflexivity. Qed.

(** ---- dict_set / lookupS *)
Lemma dict_set_fresh {A} k (v : A) kvs : lookupS k kvs = None -> dict_set k v kvs = kvs ++ [(k, v)].
Proof.
  induction kvs as [|[k' a] r IH]; cbn [lookupS dict_set app]; intros H; [reflexivity|].
  destruct (String.eqb k k'); [discriminate|]. rewrite (IH H). reflexivity.
Qed.

Lemma lookupS_dict_set {A} k (v : A) kvs : lookupS k (dict_set k v kvs) = Some v.
Proof.
  induction kvs as [|[k' a] r IH]; cbn [lookupS dict_set]; [rewrite String.eqb_refl; reflexivity|].
  destruct (String.eqb k k') eqn:E; cbn [lookupS]; [rewrite String.eqb_refl; reflexivity|]. rewrite E. exact IH.
Qed.

Lemma dict_set_twice {A} k (v1 v2 : A) kvs : dict_set k v2 (dict_set k v1 kvs) = dict_set k v2 kvs.
Proof.
  induction kvs as [|[k' a] r IH]; cbn [dict_set]; [rewrite String.eqb_refl; reflexivity|].
  destruct (String.eqb k k') eqn:E; cbn [dict_set]; [rewrite String.eqb_refl; reflexivity|]. rewrite E, IH. reflexivity.
Qed.

Lemma dict_set_same {A} k (v : A) kvs : lookupS k kvs = Some v -> dict_set k v kvs = kvs.
Proof.
  induction kvs as [|[k' a] r IH]; cbn [lookupS dict_set]; intros H; [discriminate|].
  destruct (String.eqb k k') eqn:E; [apply String.eqb_eq in E; subst k'; injection H as ->; reflexivity|]. rewrite (IH H). reflexivity.
Qed.

Lemma lookupS_app_fresh {A} k k' (v : A) kvs : lookupS k kvs = None -> String.eqb k k' = false -> lookupS k (kvs ++ [(k', v)]) = None.
Proof.
  induction kvs as [|[k0 a] r IH]; cbn [lookupS app]; intros H Hk; [rewrite Hk; reflexivity|].
  destruct (String.eqb k k0); [discriminate|]. apply IH; assumption.
Qed.

(** ---- single steps of [ins] *)
Lemma ins_enter name q leaf kvs child : lookupS name kvs = Some child ->
  ins (mkNode name None :: q) leaf (TDict kvs) =
  match ins q leaf child with Some c' => Some (TDict (dict_set name c' kvs)) | None => None end.
Proof. intros H. cbn [ins pn_idx pn_name]. rewrite H. reflexivity. Qed.

Lemma ins_create name leaf kvs : lookupS name kvs = None ->
  ins [mkNode name None] leaf (TDict kvs) = Some (TDict (kvs ++ [(name, leaf)])).
Proof. intros H. cbn [ins pn_idx pn_name]. rewrite H. rewrite (dict_set_fresh _ _ _ H). reflexivity. Qed.

Lemma ins_enter_idx name i q leaf kvs l child : lookupS name kvs = Some (TList l) -> 0 <= i < Z.of_nat (List.length l) ->
  nth (Z.to_nat i) l None = Some child ->
  ins (mkNode name (Some i) :: q) leaf (TDict kvs) =
  match ins q leaf child with Some c' => Some (TDict (dict_set name (TList (list_set (Z.to_nat i) (Some c') l)) kvs)) | None => None end.
Proof.
  intros H Hi Hn. cbn [ins pn_idx pn_name]. rewrite H.
  replace (i <? 0) with false by (symmetry; apply Z.ltb_ge; lia).
  replace (i =? Z.of_nat (List.length l)) with false by (symmetry; apply Z.eqb_neq; lia).
  replace (i <? Z.of_nat (List.length l)) with true by (symmetry; apply Z.ltb_lt; lia).
  rewrite Hn. reflexivity.
Qed.

Lemma ins_create_idx name leaf kvs l : lookupS name kvs = Some (TList l) ->
  ins [mkNode name (Some (Z.of_nat (List.length l)))] leaf (TDict kvs) = Some (TDict (dict_set name (TList (l ++ [Some leaf])) kvs)).
Proof.
  intros H. cbn [ins pn_idx pn_name]. rewrite H.
  replace (Z.of_nat (List.length l) <? 0) with false by (symmetry; apply Z.ltb_ge; lia).
  rewrite Z.eqb_refl. reflexivity.
Qed.

Lemma nth_last {A} (l : list A) x d : nth (List.length l) (l ++ [x]) d = x.
Proof. rewrite app_nth2 by lia. rewrite Nat.sub_diag. reflexivity. Qed.

Lemma list_set_last {A} (l : list A) x y : list_set (List.length l) y (l ++ [x]) = l ++ [y].
Proof. induction l as [|a l IH]; cbn [List.length list_set app]; [reflexivity|]. rewrite IH. reflexivity. Qed.

(** ---- whole groups of events below one child *)
Lemma build_enter name inner : forall kvs child, lookupS name kvs = Some child ->
  build (map (prefix [mkNode name None]) inner) (TDict kvs) =
  match build inner child with Some c' => Some (TDict (dict_set name c' kvs)) | None => None end.
Proof.
  induction inner as [|[q leaf] inner IH]; intros kvs child H.
  - cbn [map build]. rewrite (dict_set_same _ _ _ H). reflexivity.
  - cbn [map build prefix fst snd app]. rewrite (ins_enter name q leaf kvs child H).
    destruct (ins q leaf child) as [c'|]; [|reflexivity].
    rewrite (IH (dict_set name c' kvs) c' (lookupS_dict_set _ _ _)).
    destruct (build inner c') as [c''|]; [|reflexivity]. rewrite dict_set_twice. reflexivity.
Qed.

(** a child created by its first event and completed by the events below it *)
Lemma blk_enter name init inner final kvs : lookupS name kvs = None -> build inner init = Some final ->
  build (([mkNode name None], init) :: map (prefix [mkNode name None]) inner) (TDict kvs) = Some (TDict (kvs ++ [(name, final)])).
Proof.
  intros H Hb. cbn [build fst snd]. rewrite (ins_create name init kvs H).
  rewrite (build_enter name inner (kvs ++ [(name, init)]) init).
  - rewrite Hb. rewrite <- (dict_set_fresh name init kvs H), dict_set_twice, (dict_set_fresh name final kvs H). reflexivity.
  - rewrite <- (dict_set_fresh name init kvs H). apply lookupS_dict_set.
Qed.

Lemma build_enter_idx name inner : forall kvs l child, lookupS name kvs = Some (TList (l ++ [Some child])) ->
  build (map (prefix [mkNode name (Some (Z.of_nat (List.length l)))]) inner) (TDict kvs) =
  match build inner child with Some c' => Some (TDict (dict_set name (TList (l ++ [Some c'])) kvs)) | None => None end.
Proof.
  induction inner as [|[q leaf] inner IH]; intros kvs l child H.
  - cbn [map build]. rewrite (dict_set_same _ _ _ H). reflexivity.
  - cbn [map build prefix fst snd app].
    rewrite (ins_enter_idx name _ q leaf kvs (l ++ [Some child]) child H).
    + destruct (ins q leaf child) as [c'|]; [|reflexivity].
      rewrite Nat2Z.id, list_set_last.
      rewrite (IH (dict_set name (TList (l ++ [Some c'])) kvs) l c' (lookupS_dict_set _ _ _)).
      destruct (build inner c') as [c''|]; [|reflexivity]. rewrite dict_set_twice. reflexivity.
    + rewrite app_length. cbn [List.length]. lia.
    + rewrite Nat2Z.id. apply nth_last.
Qed.

Lemma iblk_enter name init inner final kvs l : lookupS name kvs = Some (TList l) -> build inner init = Some final ->
  build (([mkNode name (Some (Z.of_nat (List.length l)))], init) :: map (prefix [mkNode name (Some (Z.of_nat (List.length l)))]) inner) (TDict kvs)
  = Some (TDict (dict_set name (TList (l ++ [Some final])) kvs)).
Proof.
  intros H Hb. cbn [build fst snd]. rewrite (ins_create_idx name init kvs l H).
  rewrite (build_enter_idx name inner _ l init (lookupS_dict_set _ _ _)). rewrite Hb, dict_set_twice. reflexivity.
Qed.

(** ---- the events of an object are placed relative to the path they are asked for *)
Lemma pchild_app pa q n : pchild (pa ++ q) n = pa ++ pchild q n.
Proof. unfold pchild. rewrite app_assoc. reflexivity. Qed.

Lemma pindex_snoc p l i : pindex (p ++ [l]) i = p ++ [mkNode (pn_name l) (Some i)].
Proof. unfold pindex. rewrite rev_app_distr. cbn [rev app]. rewrite rev_involutive. reflexivity. Qed.

Lemma pindex_app pa q i : q <> [] -> pindex (pa ++ q) i = pa ++ pindex q i.
Proof.
  intros Hq. destruct (exists_last Hq) as (q' & l & ->). rewrite app_assoc, !pindex_snoc, app_assoc. reflexivity.
Qed.

Lemma pchild_nonempty q n : pchild q n <> [].
Proof. unfold pchild. destruct q; discriminate. Qed.

Lemma pindex_nonempty q i : pindex q i <> [].
Proof. unfold pindex. destruct (rev q) as [|l r]; [discriminate|]. destruct (rev r); discriminate. Qed.

Definition nat1 (g : path -> list event) : Prop :=
  forall pa q, q <> [] -> map pe (g (pa ++ q)) = map (prefix pa) (map pe (g q)).

Lemma nat1_node t : nat1 (fun pa => [ev_node pa t]).
Proof. intros pa q _. reflexivity. Qed.

Lemma nat1_app g h : nat1 g -> nat1 h -> nat1 (fun pa => g pa ++ h pa).
Proof. intros Hg Hh pa q Hq. rewrite !map_app, (Hg pa q Hq), (Hh pa q Hq). reflexivity. Qed.

Lemma nat1_cons (e : path -> event) g : (forall pa q, pe (e (pa ++ q)) = prefix pa (pe (e q))) -> nat1 g -> nat1 (fun pa => e pa :: g pa).
Proof. intros He Hg pa q Hq. cbn [map]. rewrite (He pa q), (Hg pa q Hq). reflexivity. Qed.

Definition nat0 (g : path -> list event) : Prop :=
  forall pa q, map pe (g (pa ++ q)) = map (prefix pa) (map pe (g q)).

Lemma nat0_nat1 g : nat0 g -> nat1 g.
Proof. intros H pa q _. apply H. Qed.

Lemma nat0_app g h : nat0 g -> nat0 h -> nat0 (fun pa => g pa ++ h pa).
Proof. intros Hg Hh pa q. rewrite !map_app, (Hg pa q), (Hh pa q). reflexivity. Qed.

Lemma nat0_child g n : nat1 g -> nat0 (fun pa => g (pchild pa n)).
Proof. intros Hg pa q. rewrite pchild_app. apply Hg, pchild_nonempty. Qed.

Lemma nat1_child g n : nat1 g -> nat1 (fun pa => g (pchild pa n)).
Proof. intros Hg. apply nat0_nat1, nat0_child, Hg. Qed.

Lemma nat1_elems f : (forall x, nat1 (f x)) -> forall l i, nat1 (fun pa => oe_elems f pa l i).
Proof.
  intros Hf. induction l as [|x l IH]; intros i pa q Hq; [reflexivity|]. cbn [oe_elems]. rewrite !map_app.
  rewrite (pindex_app pa q i Hq), (Hf x pa (pindex q i) (pindex_nonempty q i)), (IH (i + 1) pa q Hq). reflexivity.
Qed.

Lemma elems_nothing pa l : forall i, oe_elems (fun _ _ => []) pa l i = [].
Proof. induction l as [|x l IH]; intros i; [reflexivity|]. cbn [oe_elems app]. apply IH. Qed.

Lemma nat1_leaf v : nat1 (oe_leaf v).
Proof. intros pa q _. destruct v as [tn z|tid vals|l]; cbn [oe_leaf]; [reflexivity|reflexivity|]. rewrite !elems_nothing. reflexivity. Qed.

Lemma nat1_list lid f v : (forall x, nat1 (f x)) -> nat1 (fun pa => oe_list lid f pa v).
Proof.
  intros Hf. unfold oe_list. apply nat1_cons; [reflexivity|]. destruct v as [tn z|tid vals|l]; [apply Hf|apply Hf|]. apply nat1_elems, Hf.
Qed.

Section Natural.
  Variable T : tables.

  Lemma nat1_enc v : nat1 (oe_enc_param T v).
  Proof.
    unfold oe_enc_param. destruct (t_enc_param T) as [| |ename eszf ebuf eszp [ep| | | |]| |]; try (intros pa q _; reflexivity).
    destruct v as [tn z|tid vals|l]; try (intros pa q _; reflexivity).
    apply nat1_cons; [reflexivity|]. apply nat1_app.
    - destruct (lookupS eszf vals) as [[x|]|]; [apply nat1_child, nat1_leaf|apply (nat1_child (fun p => [ev_node p _])), nat1_node|apply (nat1_child (fun p => [ev_node p _])), nat1_node].
    - destruct (lookupS ebuf vals) as [[x|]|]; [apply (nat1_child (fun p => oe_list _ oe_leaf p x)), nat1_list; intros; apply nat1_leaf
        |apply (nat1_child (fun p => [ev_node p _])), nat1_node|apply (nat1_child (fun p => [ev_node p _])), nat1_node].
  Qed.

  Definition N_ty (t : ty) : Prop := forall v, nat1 (oe_ty T t v).
  Definition N_fields (fs : fields) : Prop :=
    (forall V, nat0 (oe_fields T fs V)) /\ match fs with FPlain _ _ r => forall V, nat0 (oe_fields T r V) | _ => True end.
  Definition N_arms (ar : arms) : Prop := forall V, nat0 (oe_arms T ar V).
  Definition N_armp (p : armp) : Prop := match p with PNone => True | PTy t => N_ty t | PList e _ => N_ty e end.

  Lemma nat1_opt_ty (g : value -> path -> list event) n tid (o : option (option value)) :
    (forall x, nat1 (g x)) -> nat0 (fun pa => match o with Some (Some x) => g x (pchild pa n) | _ => [ev_node (pchild pa n) tid] end).
  Proof.
    intros Hg. destruct o as [[x|]|]; [apply (nat0_child (g x)), Hg|apply (nat0_child (fun p => [ev_node p tid])), nat1_node|apply (nat0_child (fun p => [ev_node p tid])), nat1_node].
  Qed.

  Theorem natural_all : (forall t, N_ty t) /\ (forall fs, N_fields fs) /\ (forall ar, N_arms ar) /\ (forall p, N_armp p).
  Proof.
    apply ty_mutind.
    - intros p v. cbn [oe_ty]. apply nat1_leaf.
    - intros name isp fs [IH IHtl] v. destruct v as [tn z|tid vals|l]; try (cbn [oe_ty]; apply nat1_leaf).
      change (nat1 (fun pa => ev_node pa tid :: match tid, fs with
                | TyEnc _, FPlain n _ r => (match lookupS n vals with Some (Some x) => oe_enc_param T x (pchild pa n) | _ => [ev_node (pchild pa n) (ty_id (t_enc_param T))] end) ++ oe_fields T r vals pa
                | _, _ => oe_fields T fs vals pa end)).
      apply nat1_cons; [reflexivity|].
      apply nat0_nat1. destruct tid as [nm|nm|nm]; try apply IH.
      destruct fs as [|n t r|n e r|n sl u r]; try apply IH.
      apply nat0_app; [apply (nat1_opt_ty (oe_enc_param T)), nat1_enc|apply IHtl].
    - intros name szf buf szp e IH v. destruct v as [tn z|tid vals|l]; try (cbn [oe_ty]; apply nat1_leaf).
      cbn [oe_ty]. apply nat1_cons; [reflexivity|]. apply nat0_nat1, nat0_app; [apply (nat1_opt_ty oe_leaf), nat1_leaf|].
      apply (nat1_opt_ty (fun x p => oe_list (list_id e) (oe_ty T e) p x)). intros x. apply nat1_list, IH.
    - intros name szf buf szp i IH v. destruct v as [tn z|tid vals|l]; try (cbn [oe_ty]; apply nat1_leaf).
      cbn [oe_ty]. apply nat1_cons; [reflexivity|]. apply nat0_nat1, nat0_app; [apply (nat1_opt_ty oe_leaf), nat1_leaf|].
      apply (nat1_opt_ty (oe_ty T i)), IH.
    - intros name ar IH v. destruct v as [tn z|tid vals|l]; try (cbn [oe_ty]; apply nat1_leaf).
      cbn [oe_ty]. apply nat1_cons; [reflexivity|]. apply nat0_nat1, IH.
    - split; [|exact Logic.I]. intros V pa q. reflexivity.
    - intros n t IHt r [IHr _]. split; [|exact IHr]. intros V. cbn [oe_fields]. apply nat0_app; [apply (nat1_opt_ty (oe_ty T t)), IHt|apply IHr].
    - intros n e IHe r [IHr _]. split; [|exact Logic.I]. intros V. cbn [oe_fields]. apply nat0_app; [|apply IHr].
      apply (nat1_opt_ty (fun x p => oe_list (list_id e) (oe_ty T e) p x)). intros x. apply nat1_list, IHe.
    - intros n sl u IHu r [IHr _]. split; [|exact Logic.I]. intros V. cbn [oe_fields]. apply nat0_app; [apply (nat1_opt_ty (oe_ty T u)), IHu|apply IHr].
    - intros V pa q. reflexivity.
    - intros n k p IHp r IHr V. cbn [oe_arms]. apply nat0_app; [|apply IHr].
      destruct (lookupS n V) as [[x|]|]; try (intros pa q; reflexivity).
      destruct p as [|t|e cnt]; [apply nat0_child, nat1_leaf|apply (nat0_child (oe_ty T t x)), IHp|].
      apply (nat0_child (fun p => oe_list (list_id e) (oe_ty T e) p x)), nat1_list, IHp.
    - exact Logic.I.
    - intros t IH. exact IH.
    - intros e IH n. exact IH.
  Qed.
End Natural.

(** ---- E1: the dict built from the events of an object is the image of the object *)
Section Dict.
  Variable T : tables.

  (** asked for at a single node, the events create that node and then work below it *)
  Definition placed (g : path -> list event) (final : tree) : Prop :=
    forall nd, exists init inner, map pe (g [nd]) = ([nd], init) :: map (prefix [nd]) inner /\ build inner init = Some final.

  Lemma placed_blk g final name kvs : placed g final -> lookupS name kvs = None ->
    build (map pe (g [mkNode name None])) (TDict kvs) = Some (TDict (kvs ++ [(name, final)])).
  Proof. intros Hp H. destruct (Hp (mkNode name None)) as (init & inner & -> & Hb). apply blk_enter; assumption. Qed.

  Lemma placed_iblk g final name kvs l : placed g final -> lookupS name kvs = Some (TList l) ->
    build (map pe (g [mkNode name (Some (Z.of_nat (List.length l)))])) (TDict kvs) = Some (TDict (dict_set name (TList (l ++ [Some final])) kvs)).
  Proof. intros Hp H. destruct (Hp (mkNode name (Some (Z.of_nat (List.length l))))) as (init & inner & -> & Hb). apply iblk_enter; assumption. Qed.

  Lemma placed_leaf tn z : placed (oe_leaf (VInt_ tn z)) (TLeaf tn z).
  Proof. intros nd. exists (TLeaf tn z), []. split; reflexivity. Qed.

  Lemma placed_node tid (body : path -> list event) final : is_list_tyid tid = false -> nat0 body ->
    build (map pe (body [])) (TDict []) = Some final -> placed (fun pa => ev_node pa tid :: body pa) final.
  Proof.
    intros Ht Hn Hb nd. exists (TDict []), (map pe (body [])). split; [|exact Hb].
    cbn [map]. f_equal; [unfold pe, leaf_of; cbn [ev_node epath evalue ety]; rewrite Ht; reflexivity|]. apply (Hn [nd] []).
  Qed.

  Lemma elems_dict f name : forall l, (forall x, In x l -> placed (f x) (tree_of x)) -> forall l0 kvs, lookupS name kvs = Some (TList l0) ->
    build (map pe (oe_elems f [mkNode name None] l (Z.of_nat (List.length l0)))) (TDict kvs)
    = Some (TDict (dict_set name (TList (l0 ++ map (fun x => Some (tree_of x)) l)) kvs)).
  Proof.
    induction l as [|x l IH]; intros Hp l0 kvs H.
    - cbn [oe_elems map build]. rewrite app_nil_r, (dict_set_same _ _ _ H). reflexivity.
    - cbn [oe_elems]. rewrite map_app, build_app.
      change (pindex [mkNode name None] (Z.of_nat (List.length l0))) with [mkNode name (Some (Z.of_nat (List.length l0)))].
      rewrite (placed_iblk (f x) (tree_of x) name kvs l0 (Hp x (or_introl eq_refl)) H).
      replace (Z.of_nat (List.length l0) + 1) with (Z.of_nat (List.length (l0 ++ [Some (tree_of x)]))) by (rewrite app_length; cbn [List.length]; lia).
      rewrite (IH (fun y Hy => Hp y (or_intror Hy)) (l0 ++ [Some (tree_of x)]) _ (lookupS_dict_set _ _ _)).
      rewrite dict_set_twice, <- app_assoc. reflexivity.
  Qed.

  Lemma list_blk lid f name l kvs : is_list_tyid lid = true -> (forall x, In x l -> placed (f x) (tree_of x)) -> lookupS name kvs = None ->
    build (map pe (oe_list lid f [mkNode name None] (VList_ l))) (TDict kvs) = Some (TDict (kvs ++ [(name, tree_of (VList_ l))])).
  Proof.
    intros Hl Hp H. unfold oe_list. cbn [map build]. unfold pe at 1 2, leaf_of. cbn [ev_node epath evalue ety fst snd]. rewrite Hl.
    rewrite (ins_create name (TList []) kvs H).
    assert (H0 : lookupS name (kvs ++ [(name, TList [])]) = Some (TList [])) by (rewrite <- (dict_set_fresh name (TList []) kvs H); apply lookupS_dict_set).
    pose proof (elems_dict f name l Hp [] _ H0) as He. cbn [List.length Z.of_nat app] in He. rewrite He. cbn [tree_of].
    rewrite <- (dict_set_fresh name (TList []) kvs H), dict_set_twice, (dict_set_fresh name _ kvs H). reflexivity.
  Qed.

  Lemma all_of_placed (P : value -> Prop) l (g : value -> path -> list event) :
    (forall x, P x -> placed (g x) (tree_of x)) -> all_of P l -> forall x, In x l -> placed (g x) (tree_of x).
  Proof. intros H Hl x Hx. apply H. apply (all_of_in _ _ Hl _ Hx). Qed.

  Definition E1_ty (t : ty) : Prop := named_ty t = true -> forall v, wsh t v -> placed (oe_ty T t v) (tree_of v).
  Definition E1_fields (fs : fields) : Prop := named_fields fs = true -> NoDup (field_names fs) ->
    forall vals, wsh_fields fs vals -> forall V, (forall k o, In (k, o) vals -> lookupS k V = Some o) ->
    forall kvs, (forall k, In k (field_names fs) -> lookupS k kvs = None) ->
    build (map pe (oe_fields T fs V [])) (TDict kvs) = Some (TDict (kvs ++ map img vals)).
  Definition E1_arms (ar : arms) : Prop := named_arms ar = true -> NoDup (arm_names ar) -> forall n x, wsh_arm ar n x ->
    build (map pe (oe_arms T ar [(n, Some x)] [])) (TDict []) = Some (TDict [(n, tree_of x)]).
  Definition E1_armp (p : armp) : Prop := match p with PNone => True | PTy t => E1_ty t | PList e _ => E1_ty e end.

  Lemma list_id_is_list e : is_list_tyid (list_id e) = true.
  Proof. reflexivity. Qed.

  Lemma field_step n (g : path -> list event) final (rest : path -> list event) kvs out :
    placed g final -> lookupS n kvs = None ->
    build (map pe (rest [])) (TDict (kvs ++ [(n, final)])) = Some out ->
    build (map pe (g (pchild [] n) ++ rest [])) (TDict kvs) = Some out.
  Proof.
    intros Hp H Hr. rewrite map_app, build_app. change (pchild [] n) with [mkNode n None]. rewrite (placed_blk g final n kvs Hp H). exact Hr.
  Qed.

  Lemma oe_fields_plain n t r V pa : oe_fields T (FPlain n t r) V pa =
    (match lookupS n V with Some (Some x) => oe_ty T t x (pchild pa n) | _ => [ev_node (pchild pa n) (ty_id t)] end) ++ oe_fields T r V pa.
  Proof. reflexivity. Qed.
  Lemma oe_fields_list n e r V pa : oe_fields T (FList n e r) V pa =
    (match lookupS n V with Some (Some x) => oe_list (list_id e) (oe_ty T e) (pchild pa n) x | _ => [ev_node (pchild pa n) (list_id e)] end) ++ oe_fields T r V pa.
  Proof. reflexivity. Qed.
  Lemma oe_fields_union n sl u r V pa : oe_fields T (FUnion n sl u r) V pa =
    (match lookupS n V with Some (Some x) => oe_ty T u x (pchild pa n) | _ => [ev_node (pchild pa n) (ty_id u)] end) ++ oe_fields T r V pa.
  Proof. reflexivity. Qed.
  Lemma oe_arms_cons n k p r V pa : oe_arms T (ACons n k p r) V pa =
    (match lookupS n V with
     | Some (Some x) => match p with PNone => oe_leaf x (pchild pa n) | PTy t => oe_ty T t x (pchild pa n) | PList e _ => oe_list (list_id e) (oe_ty T e) (pchild pa n) x end
     | _ => [] end) ++ oe_arms T r V pa.
  Proof. reflexivity. Qed.

  Theorem dict_all : (forall t, E1_ty t) /\ (forall fs, E1_fields fs) /\ (forall ar, E1_arms ar) /\ (forall p, E1_armp p).
  Proof.
    destruct (natural_all T) as (NT & NF & NA & _).
    apply ty_mutind.
    - (* TPrim *) intros p _ v (z & ->). cbn [oe_ty tree_of]. apply placed_leaf.
    - (* TStruct *)
      intros name isp fs IH Hn v (vals & -> & Hf). cbn [named_ty] in Hn. apply andb_prop in Hn as [Hd Hn]. apply nodupb_NoDup in Hd.
      change (oe_ty T (TStruct name isp fs) (VStruct_ (TyN name) vals)) with (fun pa => ev_node pa (TyN name) :: oe_fields T fs vals pa).
      apply placed_node; [reflexivity|apply NF|].
      rewrite (IH Hn Hd vals Hf vals); [reflexivity| |intros; reflexivity].
      intros k o Hin. apply lookup_nodup; [rewrite (wsh_fields_names _ _ Hf); exact Hd|exact Hin].
    - (* TTpm2bList *)
      intros name szf buf szp e IH Hn v (z & l & -> & Hl). cbn [named_ty] in Hn. apply andb_prop in Hn as [Hne Hn].
      assert (Hsb : String.eqb szf buf = false) by (destruct (String.eqb szf buf); [discriminate|reflexivity]).
      assert (Hbs : String.eqb buf szf = false) by (rewrite String.eqb_sym; exact Hsb).
      assert (Eq : oe_ty T (TTpm2bList name szf buf szp e) (VStruct_ (TyN name) [(szf, Some (VInt_ (pname szp) z)); (buf, Some (VList_ l))])
                   = fun pa => ev_node pa (TyN name) :: oe_leaf (VInt_ (pname szp) z) (pchild pa szf) ++ oe_list (list_id e) (oe_ty T e) (pchild pa buf) (VList_ l)).
      { cbn [oe_ty lookupS]. rewrite String.eqb_refl, Hbs, String.eqb_refl. reflexivity. }
      rewrite Eq. apply placed_node; [reflexivity| |].
      + apply nat0_app; [apply nat0_child, nat1_leaf|apply (nat0_child (fun p => oe_list _ _ p _)), nat1_list; intros x; apply NT].
      + apply (field_step szf (oe_leaf (VInt_ (pname szp) z)) (TLeaf (pname szp) z) (fun pa => oe_list (list_id e) (oe_ty T e) (pchild pa buf) (VList_ l)) []);
          [apply placed_leaf|reflexivity|].
        change (pchild [] buf) with [mkNode buf None]. cbn [app].
        rewrite (list_blk (list_id e) (oe_ty T e) buf l); [reflexivity|reflexivity| |cbn [lookupS]; rewrite Hbs; reflexivity].
        apply (all_of_placed (wsh e)); [intros x Hx; apply (IH Hn x Hx)|exact Hl].
    - (* TTpm2bStruct *)
      intros name szf buf szp inner IH Hn v (z & Hv). cbn [named_ty] in Hn. apply andb_prop in Hn as [Hne Hn].
      assert (Hsb : String.eqb szf buf = false) by (destruct (String.eqb szf buf); [discriminate|reflexivity]).
      assert (Hbs : String.eqb buf szf = false) by (rewrite String.eqb_sym; exact Hsb).
      destruct Hv as [(-> & ->)|(x & -> & Hz & Hx)].
      + assert (Eq : oe_ty T (TTpm2bStruct name szf buf szp inner) (VStruct_ (TyN name) [(szf, Some (VInt_ (pname szp) 0)); (buf, None)])
                     = fun pa => ev_node pa (TyN name) :: oe_leaf (VInt_ (pname szp) 0) (pchild pa szf) ++ [ev_node (pchild pa buf) (ty_id inner)]).
        { cbn [oe_ty lookupS]. rewrite String.eqb_refl, Hbs, String.eqb_refl. reflexivity. }
        rewrite Eq. apply placed_node; [reflexivity| |].
        * apply nat0_app; [apply nat0_child, nat1_leaf|apply (nat0_child (fun p => [ev_node p _])), nat1_node].
        * apply (field_step szf (oe_leaf (VInt_ (pname szp) 0)) (TLeaf (pname szp) 0) (fun pa => [ev_node (pchild pa buf) (ty_id inner)]) []);
            [apply placed_leaf|reflexivity|].
          change (pchild [] buf) with [mkNode buf None]. cbn [app map build]. unfold pe, leaf_of. cbn [ev_node epath evalue ety fst snd ty_id is_list_tyid].
          rewrite ins_create; [reflexivity|cbn [lookupS]; rewrite Hbs; reflexivity].
      + assert (Eq : oe_ty T (TTpm2bStruct name szf buf szp inner) (VStruct_ (TyN name) [(szf, Some (VInt_ (pname szp) z)); (buf, Some x)])
                     = fun pa => ev_node pa (TyN name) :: oe_leaf (VInt_ (pname szp) z) (pchild pa szf) ++ oe_ty T inner x (pchild pa buf)).
        { cbn [oe_ty lookupS]. rewrite String.eqb_refl, Hbs, String.eqb_refl. reflexivity. }
        rewrite Eq. apply placed_node; [reflexivity| |].
        * apply nat0_app; [apply nat0_child, nat1_leaf|apply (nat0_child (oe_ty T inner x)), NT].
        * apply (field_step szf (oe_leaf (VInt_ (pname szp) z)) (TLeaf (pname szp) z) (fun pa => oe_ty T inner x (pchild pa buf)) []);
            [apply placed_leaf|reflexivity|].
          change (pchild [] buf) with [mkNode buf None]. cbn [app].
          rewrite (placed_blk (oe_ty T inner x) (tree_of x) buf); [reflexivity|apply (IH Hn x Hx)|cbn [lookupS]; rewrite Hbs; reflexivity].
    - (* TUnion *)
      intros name ar IH Hn v Hv. cbn [named_ty] in Hn. apply andb_prop in Hn as [Hd Hn]. apply nodupb_NoDup in Hd.
      destruct Hv as [->|(n & x & -> & Ha)].
      + change (oe_ty T (TUnion name ar) (VStruct_ (TyN name) [])) with (fun pa => ev_node pa (TyN name) :: oe_arms T ar [] pa).
        apply placed_node; [reflexivity|apply NA|]. rewrite oe_arms_nil. reflexivity.
      + change (oe_ty T (TUnion name ar) (VStruct_ (TyN name) [(n, Some x)])) with (fun pa => ev_node pa (TyN name) :: oe_arms T ar [(n, Some x)] pa).
        apply placed_node; [reflexivity|apply NA|]. rewrite (IH Hn Hd n x Ha). reflexivity.
    - (* FNil *) intros _ _ vals Hv V _ kvs _. cbn [wsh_fields] in Hv. subst. cbn [oe_fields map build]. rewrite app_nil_r. reflexivity.
    - (* FPlain *)
      intros n t IHt r IHr Hn Hd vals Hv V HV kvs Hk. cbn [named_fields field_names wsh_fields] in *.
      apply andb_prop in Hn as [Hnt Hnr]. inversion Hd as [|? ? Hni Hdr]; subst.
      destruct Hv as (x & rest & -> & Hx & Hr). rewrite oe_fields_plain. rewrite (HV n (Some x) (or_introl eq_refl)).
      apply (field_step n (oe_ty T t x) (tree_of x) (oe_fields T r V)); [apply (IHt Hnt x Hx)|apply Hk; left; reflexivity|].
      rewrite (IHr Hnr Hdr rest Hr V (fun k o Hin => HV k o (or_intror Hin))).
      * rewrite <- app_assoc. reflexivity.
      * intros k Hin. apply lookupS_app_fresh; [apply Hk; right; exact Hin|]. apply String.eqb_neq. intros ->. contradiction.
    - (* FList *)
      intros n e IHe r IHr Hn Hd vals Hv V HV kvs Hk. cbn [named_fields field_names wsh_fields] in *.
      apply andb_prop in Hn as [Hne Hnr]. inversion Hd as [|? ? Hni Hdr]; subst.
      destruct Hv as (l & rest & -> & Hl & Hr). rewrite oe_fields_list. rewrite (HV n (Some (VList_ l)) (or_introl eq_refl)).
      rewrite map_app, build_app. change (pchild [] n) with [mkNode n None].
      rewrite (list_blk (list_id e) (oe_ty T e) n l kvs); [|reflexivity|apply (all_of_placed (wsh e)); [intros x Hx; apply (IHe Hne x Hx)|exact Hl]|apply Hk; left; reflexivity].
      rewrite (IHr Hnr Hdr rest Hr V (fun k o Hin => HV k o (or_intror Hin))).
      * rewrite <- app_assoc. reflexivity.
      * intros k Hin. apply lookupS_app_fresh; [apply Hk; right; exact Hin|]. apply String.eqb_neq. intros ->. contradiction.
    - (* FUnion *)
      intros n sl u IHu r IHr Hn Hd vals Hv V HV kvs Hk. cbn [named_fields field_names wsh_fields] in *.
      apply andb_prop in Hn as [Hnu Hnr]. inversion Hd as [|? ? Hni Hdr]; subst.
      destruct Hv as (x & rest & -> & Hx & Hr). rewrite oe_fields_union. rewrite (HV n (Some x) (or_introl eq_refl)).
      apply (field_step n (oe_ty T u x) (tree_of x) (oe_fields T r V)); [apply (IHu Hnu x Hx)|apply Hk; left; reflexivity|].
      rewrite (IHr Hnr Hdr rest Hr V (fun k o Hin => HV k o (or_intror Hin))).
      * rewrite <- app_assoc. reflexivity.
      * intros k Hin. apply lookupS_app_fresh; [apply Hk; right; exact Hin|]. apply String.eqb_neq. intros ->. contradiction.
    - (* ANil *) intros _ _ n x H. contradiction.
    - (* ACons *)
      intros m k p IHp r IHr Hn Hd n x Ha. cbn [named_arms arm_names wsh_arm] in *.
      apply andb_prop in Hn as [Hnp Hnr]. inversion Hd as [|? ? Hni Hdr]; subst. rewrite oe_arms_cons. cbn [lookupS].
      destruct (String.eqb m n) eqn:Emn.
      + apply String.eqb_eq in Emn. subst m. rewrite (oe_arms_other T r n _ [] Hni), app_nil_r.
        destruct p as [|t|e cnt]; [contradiction| |].
        * change (pchild [] n) with [mkNode n None]. rewrite (placed_blk (oe_ty T t x) (tree_of x) n []); [reflexivity|apply (IHp Hnp x Ha)|reflexivity].
        * destruct Ha as (l & -> & Hl). change (pchild [] n) with [mkNode n None].
          rewrite (list_blk (list_id e) (oe_ty T e) n l []); [reflexivity|reflexivity| |reflexivity].
          apply (all_of_placed (wsh e)); [intros y Hy; apply (IHp Hnp y Hy)|exact Hl].
      + cbn [app]. apply (IHr Hnr Hdr n x Ha).
    - exact Logic.I.
    - intros t IH. exact IH.
    - intros e IH n. exact IH.
  Qed.
End Dict.
