(** Completeness, part 4: the session list and commands. *)
From Coq Require Import ZArith List String Bool Lia ZifyBool.
From TV Require Import Layout.Types Base.Bytes Model.Monad Model.Constraints Model.Ints Model.Decoder Model.Message Model.Pump
  Spec.Value Spec.Message Proofs.Closure Proofs.LowClosure Proofs.Account Proofs.Incremental Proofs.Agree
  Proofs.Sim1 Proofs.Sim2 Proofs.Sim3 Proofs.Sim4 Proofs.Sim7 Proofs.Sim8 Proofs.Sim9 Proofs.Sim12 Proofs.Safe1 Proofs.Safe2 Proofs.Safe3
  Proofs.Comp1 Proofs.Comp2.
Import ListNotations.
Open Scope string_scope.
Open Scope list_scope.
Open Scope Z_scope.

Section SessComp.
  Variable T : tables.
  Variable e : ty.
  Variable attr : string.
  Hypothesis He : safe_ty e = true.
  Hypothesis Hle : lp_ty e = true.
  Hypothesis Hae : session_type_ok attr e = true.
  Hypothesis Hne : nonunion e = true.
  Hypothesis Hre : reads_one e = true.
  Variable cid : nat.
  Variable mx : Z.
  Variable pa : path.

  Let f := fun (p : path) (b : list Z) => sp_ty T e p None false b.

  (** one session element, completed *)
  Lemma elem_complete p s tr s' a : wf_st s -> Forall isbyte (inp s) -> ebody T e p s = (tr, s', Ok a) ->
    exists v, f p (inp s) = Some (v, inp s') /\ shape tr (items_of v) /\ all_valid v = true /\ sess_elem_ok attr v a /\ chb s tr s'.
  Proof.
    intros W Hb E. unfold ebody in E. destruct e as [|name isp fs| | |] eqn:Ee; try discriminate.
    destruct (struct_complete T name isp fs p None s tr s' a He Hle W Hb E) as (v & Hv & Sh & AV & Hp).
    pose proof (proj1 (inv_all T) (TStruct name isp fs) He p None s W Hb _ _ _ E) as [C _].
    exists v. unfold f. split; [exact Hv|]. split; [exact Sh|]. split; [exact AV|]. split; [|exact C]. split; [exact Hp|].
    rewrite sp_ty_struct in Hv. cbn [andb] in Hv. destruct (sp_fields T fs p [] (inp s)) as [[kids r0]|] eqn:Ef; [|discriminate]. injection Hv as <- _.
    cbn [session_type_ok] in Hae. apply (fields_have_attr T attr fs _ _ _ _ _ Ef Hae).
  Qed.

  (** the loop, when the remaining input is exactly the remaining region *)
  Lemma until_complete : forall n i acc s tr s' r V,
    wf_st s -> Forall isbyte (inp s) -> view s = V ++ [(cid, Some mx, mx - blen (inp s))] -> ~ In cid (ids_of V) ->
    iter n (sstep (ebody T e) cid mx pa) (i, acc) s = (tr, s', Ok r) -> inp s' = [] ->
    exists vs accs, sp_until_empty f pa n i (inp s) = Some vs /\ shape tr (flat_map items_of vs) /\ forallb all_valid vs = true /\
                    snd r = accs ++ acc /\ Forall2 (sess_elem_ok attr) vs (rev accs) /\
                    view s' = bump (blen (inp s)) V ++ [(cid, Some mx, mx)] /\ wf_st s'.
  Proof.
    induction n as [|n IH]; intros i acc s tr s' r V W Hb Vw Hn E I'.
    - cbn [iter] in E. injection E as <- <- <-. rewrite I'. exists [], []. cbn [sp_until_empty snd app flat_map rev forallb].
      split; [reflexivity|]. split; [constructor|]. split; [reflexivity|]. split; [reflexivity|]. split; [constructor|].
      rewrite I' in Vw. unfold blen in *. cbn [List.length] in *. rewrite bump_0. rewrite Z.sub_0_r in Vw. split; [exact Vw|exact W].
    - cbn [iter] in E. destruct (bind_inv _ _ _ _ _ _ _ _ E) as (tr1 & s1 & o1 & E1 & R1).
      destruct o1 as [[i1 acc1]|ee| |kk|]; try (destruct R1 as [R1 _]; discriminate). destruct R1 as (tr2 & E2 & ->).
      destruct (view_last _ _ _ _ _ Vw) as (Hm & Ha & _).
      unfold sstep in E1. rewrite bind_get in E1. change (get_sc (mkSt [] (store s) (lst s)) cid) with (get_sc s cid) in E1. rewrite Ha in E1.
      destruct (inp s) as [|b0 bs'] eqn:Ei.
      + (* the region is used up: the remaining iterations do nothing *)
        replace (mx - blen [] <? mx) with false in E1 by (unfold blen; cbn; lia). injection E1 as <- <- <- <-.
        destruct (IH i acc s tr2 s' r V W ltac:(rewrite Ei; exact Hb) ltac:(rewrite Ei; exact Vw) Hn E2 I') as (vs & accs & Hvs & R).
        rewrite Ei in Hvs. assert (vs = []) by (destruct n; cbn [sp_until_empty] in Hvs; congruence). subst vs.
        exists [], accs. cbn [sp_until_empty app]. split; [reflexivity|]. rewrite Ei in R. exact R.
      + replace (mx - blen (b0 :: bs') <? mx) with true in E1 by (unfold blen; cbn [List.length]; lia). cbn [fst snd] in E1.
        destruct (bind_inv _ _ _ _ _ _ _ _ E1) as (tr3 & s3 & o3 & E3 & R3).
        destruct o3 as [v|ee| |kk|]; try (destruct R3 as [R3 _]; discriminate). destruct R3 as (tr4 & E4 & ->).
        injection E4 as Htr4 Hs3 Hi1 Hacc1. subst tr4 s3 i1 acc1.
        destruct (elem_complete (pindex pa i) s tr3 s1 v W ltac:(rewrite Ei; exact Hb) E3) as (sv & Hsv & Sh & AV & Hse & [(V1 & W1 & F1) B1]).
        rewrite Ei in Hsv.
        pose proof (acc_ty' T e (pindex pa i) None false s _ _ _ E3) as Ac. rewrite Ei in Ac.
        assert (Hk : blen (bytes_of tr3) = blen (b0 :: bs') - blen (inp s1)).
        { apply (f_equal (@List.length Z)) in Ac. rewrite app_length in Ac. unfold blen. lia. }
        rewrite Vw, bump_app in V1. cbn [bump map bump_entry] in V1.
        replace (mx - blen (b0 :: bs') + blen (bytes_of tr3)) with (mx - blen (inp s1)) in V1 by lia.
        destruct (IH (i + 1) (v :: acc) s1 tr2 s' r _ W1 (B1 ltac:(rewrite Ei; exact Hb)) V1 ltac:(rewrite ids_bump; exact Hn) E2 I')
          as (vs & accs & Hvs & Shs & AVs & Hr & Hf2 & V' & W').
        exists (sv :: vs), (accs ++ [v]). cbn [sp_until_empty]. rewrite Hsv.
        assert (Hle1 : (List.length (inp s1) <= List.length (b0 :: bs'))%nat) by (apply (f_equal (@List.length Z)) in Ac; rewrite app_length in Ac; lia).
        rewrite (chk_ok _ _ _ Hle1). rewrite Hvs.
        split; [reflexivity|]. rewrite app_nil_r. split; [cbn [flat_map]; apply shape_app; assumption|].
        split; [cbn [forallb]; rewrite AV, AVs; reflexivity|]. split; [rewrite Hr, <- app_assoc; reflexivity|].
        split; [rewrite rev_app_distr; cbn [rev app]; constructor; assumption|].
        split; [|exact W']. rewrite V', bump_bump. f_equal. f_equal. lia.
  Qed.

  Lemma acc_sized lid : accounts (dec_sized_array true lid pa cid (ebody T e)).
  Proof. apply (P_dec_sized_array true (@accounts) (lclosed_closed _ accounts_lclosed true)). intros p. apply (P_dec_ty T true (@accounts) (lclosed_closed _ accounts_lclosed true)). Qed.
  Lemma restr_sized lid : restr (dec_sized_array true lid pa cid (ebody T e)).
  Proof. apply (P_dec_sized_array true (@restr) (lclosed_closed _ restr_lclosed true)). intros p. apply restr_dec_ty. Qed.

  (** the whole size-governed list, completed: its region was exactly the [mx - al] bytes it consumed, and the
      specification reads them as the same elements *)
  Lemma sized_complete lid s V al tr s' a :
    wf_st s -> Forall isbyte (inp s) -> view s = V ++ [(cid, Some mx, al)] -> ~ In cid (ids_of V) ->
    dec_sized_array true lid pa cid (ebody T e) s = (tr, s', Ok a) ->
    exists c vs accs, inp s = c ++ inp s' /\ blen c = mx - al /\
      sp_until_empty f pa (List.length c) 0 c = Some vs /\ shape tr (INode pa lid :: flat_map items_of vs) /\ forallb all_valid vs = true /\
      a = Some (listval accs) /\ Forall2 (sess_elem_ok attr) vs accs /\
      view s' = bump (blen c) V /\ wf_st s' /\ Forall isbyte (inp s').
  Proof.
    intros W Hb Vw Hn E.
    pose proof (acc_sized lid _ _ _ _ E) as Hacc.
    set (c := bytes_of tr) in *.
    set (sr := mkSt c (store s) (lst s)).
    assert (Es : ext sr (inp s') = s).
    { unfold ext, sr. cbn [inp store lst]. destruct s as [i0 st0 l0]. cbn [inp store lst] in *. f_equal. symmetry. exact Hacc. }
    destruct (restr_sized lid) as [_ Hr].
    destruct (Hr sr (inp s') tr s' (Ok a) ltac:(rewrite Es; exact E) ltac:(cbn [sr inp]; unfold c; lia) ltac:(discriminate)) as (s1' & Hs' & Er).
    assert (Wr : wf_st sr) by exact W.
    assert (Hbr : Forall isbyte (inp sr)).
    { cbn [sr inp]. rewrite Hacc in Hb. apply Forall_app in Hb as [Hb _]. exact Hb. }
    assert (Vr : view sr = V ++ [(cid, Some mx, al)]) by exact Vw.
    destruct (view_last _ _ _ _ _ Vr) as (Hm & Ha & _).
    pose proof (acc_sized lid _ _ _ _ Er) as Haccr. cbn [sr inp] in Haccr. fold c in Haccr.
    assert (I1' : inp s1' = []).
    { apply (f_equal (@List.length Z)) in Haccr. rewrite app_length in Haccr. destruct (inp s1'); [reflexivity|cbn [List.length] in Haccr; lia]. }
    unfold dec_sized_array in Er.
    destruct (bind_inv _ _ _ _ _ _ _ _ Er) as (tr0 & s0 & o0 & E0 & R0). injection E0 as <- <- <-. destruct R0 as (tr2 & E2 & Htr).
    rewrite bind_get in E2. change (get_sc (mkSt [] (store sr) (lst sr)) cid) with (get_sc sr cid) in E2. rewrite Hm in E2.
    rewrite catch_true in E2. rewrite Ha in E2.
    destruct (bind_inv _ _ _ _ _ _ _ _ E2) as (tr3 & s3 & o3 & E3 & R3).
    destruct o3 as [r|ee| |kk|]; try (destruct R3 as [R3 _]; discriminate). destruct R3 as (tr4 & E4 & ->).
    assert (E3' : iter (Z.to_nat (mx - al)) (sstep (ebody T e) cid mx pa) (0, []) sr = (tr3, s3, Ok r)).
    { destruct (Z_le_gt_dec (mx - al) 0) as [Hle0|Hgt].
      - replace (Z.to_nat (mx - al)) with 0%nat by lia. cbn [iter]. destruct (mx - al) as [|q|q]; cbn [repZ] in E3; try lia; exact E3.
      - rewrite (repZ_iter _ _ (mx - al) (0, []) ltac:(lia) sr) in E3. exact E3. }
    destruct (oki_of_r2 _ _ _ _ (loop_r2 T e attr He Hne Hre Hae cid mx pa (Z.to_nat (mx - al)) 0 [] sr V al
                ltac:(split; [exact Wr|split; [exact Hbr|split; [exact Vr|exact Hn]]]) ltac:(constructor)) _ _ _ E3')
      as ((W3 & B3 & V3 & Hn3) & F3 & _ & _).
    destruct (view_last _ _ _ _ _ V3) as (Hm3 & Ha3 & _).
    rewrite bind_get in E4. change (get_sc (mkSt [] (store s3) (lst s3)) cid) with (get_sc s3 cid) in E4. rewrite Ha3 in E4.
    destruct (al + blen (bytes_of tr3) <? mx) eqn:Hlt; [discriminate|].
    destruct (bind_inv _ _ _ _ _ _ _ _ E4) as (tr5 & s5 & o5 & E5 & R5).
    destruct o5 as [u|ee| |kk|]; try (destruct R5 as [R5 _]; discriminate). destruct R5 as (tr6 & E6 & ->). injection E6 as <- <- <-.
    destruct (oki_of_r2 _ _ _ _ (assert_done_done cid mx _ _ s3 W3 V3 Hn3) _ _ _ E5) as (-> & Hal & I5 & _ & V5 & W5 & _).
    assert (Hc : c = bytes_of tr3).
    { unfold c. rewrite Htr. unfold sev. cbn [app bytes_of]. rewrite !bytes_of_app. cbn [bytes_of]. rewrite !app_nil_r. reflexivity. }
    assert (I3 : inp s3 = []) by (rewrite <- I5; exact I1').
    assert (Vr' : view sr = V ++ [(cid, Some mx, mx - blen (inp sr))]).
    { rewrite Vr. cbn [sr inp]. rewrite Hc. do 3 f_equal. lia. }
    destruct (until_complete (Z.to_nat (mx - al)) 0 [] sr tr3 s3 r V Wr Hbr Vr' Hn E3' I3)
      as (vs & accs & Hvs & Shs & AVs & Hr' & Hf2 & _).
    exists c, vs, (rev (snd r)). split; [exact Hacc|]. split; [rewrite Hc; lia|].
    cbn [sr inp] in Hvs.
    replace (List.length c) with (Z.to_nat (mx - al)) by (rewrite Hc; unfold blen in *; lia).
    split; [exact Hvs|]. split; [rewrite Htr; apply (sh_node pa lid); rewrite !app_nil_r; exact Shs|]. split; [exact AVs|].
    split; [reflexivity|]. split; [rewrite Hr', app_nil_r; exact Hf2|].
    assert (Vs : view s' = view s5) by (rewrite Hs'; reflexivity).
    assert (Ws : wf_st s' <-> wf_st s5) by (rewrite Hs'; reflexivity).
    split; [rewrite Vs, Hc; exact V5|]. split; [apply Ws; exact W5|].
    rewrite Hacc in Hb. apply Forall_app in Hb as [_ Hb]. exact Hb.
  Qed.
End SessComp.

(** ---- the message level *)
Definition msg_lp (T : tables) : bool :=
  forallb (fun kt => lp_ty (snd kt)) (cmd_handles T ++ cmd_params T ++ rsp_handles T ++ rsp_params T) &&
  lp_ty (t_auth_cmd T) && lp_ty (t_auth_rsp T) && lp_ty (t_enc_param T).

Section MsgComp.
  Variable T : tables.
  Hypothesis Hsafe : msg_safe T = true.
  Hypothesis Hlp : msg_lp T = true.

  Let attr := sess_attr_field T.

  Lemma area_lp cc t : lookupZ cc (cmd_handles T) = Some t \/ lookupZ cc (cmd_params T) = Some t \/
                       lookupZ cc (rsp_handles T) = Some t \/ lookupZ cc (rsp_params T) = Some t -> lp_ty t = true.
  Proof.
    intros H. unfold msg_lp in Hlp. apply andb_prop in Hlp as [Hl _]. apply andb_prop in Hl as [Hl _]. apply andb_prop in Hl as [Hl _].
    rewrite forallb_forall in Hl.
    assert (Hin : exists c', In (c', t) (cmd_handles T ++ cmd_params T ++ rsp_handles T ++ rsp_params T)).
    { destruct H as [H|[H|[H|H]]]; destruct (lookupZ_in _ _ _ H) as (c' & Hi & _); exists c'; rewrite !in_app_iff; tauto. }
    destruct Hin as (c' & Hin). apply (Hl _ Hin).
  Qed.

  (** a parameter area, with or without an opaque first parameter, completed *)
  Lemma params_complete pty pa enc s tr s' a : safe_ty pty = true -> nonunion pty = true -> lp_ty pty = true ->
    wf_st s -> Forall isbyte (inp s) -> dec_ty T true pty pa None enc s = (tr, s', Ok a) ->
    exists v, sp_ty T pty pa None enc (inp s) = Some (v, inp s') /\ shape tr (items_of v) /\ all_valid v = true.
  Proof.
    intros Hs Hn Hl W Hb E.
    assert (Plain : forall tr s' a, dec_ty T true pty pa None false s = (tr, s', Ok a) ->
              exists v, sp_ty T pty pa None false (inp s) = Some (v, inp s') /\ shape tr (items_of v) /\ all_valid v = true).
    { intros tr0 s0 a0 E0. destruct (proj1 (comp_all T) pty Hs Hl pa None s tr0 s0 a0 W Hb E0) as (v & Hv & Sh & AV & _).
      exists v. split; [exact Hv|]. split; [exact Sh|exact AV]. }
    destruct pty as [p|name isp fs|name szf buf szp el|name szf buf szp inner|name ar]; try exact (Plain _ _ _ E).
    destruct (enc && isp && first_is_tpm2b fs) eqn:UE.
    - destruct fs as [|n t r|n el r|n sl u r]; try (cbn [first_is_tpm2b] in UE; rewrite andb_false_r in UE; discriminate).
      rewrite dec_ty_struct, UE in E. cbv zeta in E. rewrite sp_ty_struct, UE.
      cbn [safe_ty safe_fields lp_ty lp_fields] in Hs, Hl. apply andb_prop in Hs as [Hs Hr]. apply andb_prop in Hl as [_ Hlr].
      assert (Ht : match t with TPrim p => Some p | _ => @None prim end = None).
      { apply andb_prop in UE as [_ UE]. destruct t; try discriminate; reflexivity. }
      rewrite Ht in Hr.
      destruct (msg_facts T Hsafe) as (_ & _ & _ & _ & _ & _ & _ & _ & _ & Henc & _). unfold enc_ok in Henc.
      assert (Hle : lp_ty (t_enc_param T) = true) by (unfold msg_lp in Hlp; apply andb_prop in Hlp as [_ Hl]; exact Hl).
      destruct (bind_inv _ _ _ _ _ _ _ _ E) as (tr0 & s0 & o0 & E0 & R0). injection E0 as <- <- <-. destruct R0 as (tr2 & E2 & ->).
      destruct (bind_inv _ _ _ _ _ _ _ _ E2) as (tr3 & s3 & o3 & E3 & R3).
      destruct o3 as [vals|ee| |kk|]; try (destruct R3 as [R3 _]; discriminate). destruct R3 as (tr4 & E4 & ->). injection E4 as <- <- <-.
      destruct (bind_inv _ _ _ _ _ _ _ _ E3) as (tr5 & s5 & o5 & E5 & R5).
      destruct o5 as [ev|ee| |kk|]; try (destruct R5 as [R5 _]; discriminate). destruct R5 as (tr6 & E6 & ->).
      unfold dec_enc_param in E5. unfold sp_enc_param.
      destruct (t_enc_param T) as [| |ename eszf ebuf eszp [ep| | | |]| |] eqn:Et; try discriminate.
      destruct (proj1 (comp_all T) (TTpm2bList ename eszf ebuf eszp (TPrim ep)) Henc Hle (pchild pa n) None s tr5 s5 ev W Hb E5)
        as (v0 & Hv0 & Sh0 & AV0 & Hok0).
      pose proof (proj1 (inv_all T) (TTpm2bList ename eszf ebuf eszp (TPrim ep)) Henc (pchild pa n) None s W Hb _ _ _ E5) as [C5 _].
      rewrite sp_ty_tpm2b_list in Hv0.
      change (sp_tpm2b_list ename eszf ebuf eszp (TyList (pname ep))
                (fun p b => match sp_prim ep p b with Some (v, _, r) => Some (v, r) | None => None end) (pchild pa n) (inp s) = Some (v0, inp s5)) in Hv0.
      rewrite Hv0.
      assert (Hnode : as_typed_int ev = None).
      { destruct (sp_tpm2b_list_path _ _ _ _ _ _ _ _ _ _ Hv0) as [ks Hks]. rewrite Hks in Hok0. exact Hok0. }
      destruct (proj1 (proj2 (comp_all T)) r [(n, None)] Hr Hlr pa [(n, None)] [(n, ev)] s5 tr6 s3 vals
                  ltac:(constructor; [split; [reflexivity|exact Hnode]|constructor])
                  ltac:(constructor; [split; [reflexivity|exact Logic.I]|constructor])
                  (chb_wf _ _ _ C5) (proj2 C5 Hb) E6) as (kids & Hk & Shk & AVk & _).
      rewrite Hk. eexists. split; [reflexivity|]. rewrite app_nil_r.
      split; [cbn [items_of flat_map]; apply (sh_node pa (TyEnc name)); apply shape_app; assumption|].
      cbn [all_valid forallb]. rewrite AV0, AVk. reflexivity.
    - assert (Eq : dec_ty T true (TStruct name isp fs) pa None enc s = dec_ty T true (TStruct name isp fs) pa None false s).
      { rewrite !dec_ty_struct, UE. cbn [andb]. reflexivity. }
      rewrite Eq in E. destruct (Plain _ _ _ E) as (v & Hv & R). exists v. split; [|exact R].
      rewrite sp_ty_struct, UE. rewrite sp_ty_struct in Hv. cbn [andb] in Hv. exact Hv.
  Qed.

  (** bookkeeping: the message's own region has been charged every byte consumed so far ([L] = the input length at the start) *)
  Lemma cst_adv cid aid mxo L s tr s1 : cst cid aid mxo (L - blen (inp s)) s -> chb s tr s1 -> inp s = bytes_of tr ++ inp s1 ->
    cst cid aid mxo (L - blen (inp s1)) s1.
  Proof.
    intros C Cb Hacc. pose proof (cst_step cid aid mxo _ s tr s1 C Cb) as C'.
    replace (L - blen (inp s) + blen (bytes_of tr)) with (L - blen (inp s1)) in C'; [exact C'|].
    rewrite Hacc. unfold blen. rewrite app_length. lia.
  Qed.

  Lemma prim_step p pa cid aid mxo L s tr s' a : 0 <= pwidth p -> cst cid aid mxo (L - blen (inp s)) s -> dec_prim true p pa s = (tr, s', Ok a) ->
    exists z, sp_prim p pa (inp s) = Some (SPrim pa p z, z, inp s') /\ a = Some (VInt_ (pname p) z) /\ valid p z = true /\
              shape tr (items_of (SPrim pa p z)) /\ cst cid aid mxo (L - blen (inp s')) s' /\ blen (inp s) = pwidth p + blen (inp s') /\
              (psigned p = false -> 0 <= z).
  Proof.
    intros Hw C E. pose proof C as (W & Hb & Vw & Aid).
    destruct (dec_prim_complete p pa s tr s' a W Hw E) as (v & z & Hsp & -> & -> & Vd & Sh & Cb).
    destruct (sp_prim_some _ _ _ _ _ _ Hsp) as (h & Hi & Hl & _ & Hz & _).
    pose proof (L_dec_prim (@accounts) accounts_lclosed true p pa _ _ _ _ E) as Hacc.
    exists z. split; [exact Hsp|]. split; [reflexivity|]. split; [exact Vd|]. split; [exact Sh|].
    split; [exact (cst_adv cid aid mxo L s tr s' C Cb Hacc)|].
    split; [rewrite Hi; unfold blen in *; rewrite app_length; lia|].
    intros Hu. rewrite Hz, Hu. apply unsigned_nonneg. rewrite Hi in Hb. apply Forall_app in Hb as [Hb _]. exact Hb.
  Qed.

  Lemma ty_step t pa cid aid mxo L s tr s' a : safe_ty t = true -> lp_ty t = true -> cst cid aid mxo (L - blen (inp s)) s ->
    dec_ty T true t pa None false s = (tr, s', Ok a) ->
    exists v, sp_ty T t pa None false (inp s) = Some (v, inp s') /\ shape tr (items_of v) /\ all_valid v = true /\
              cst cid aid mxo (L - blen (inp s')) s'.
  Proof.
    intros Hs Hl C E. pose proof C as (W & Hb & Vw & Aid).
    destruct (proj1 (comp_all T) t Hs Hl pa None s tr s' a W Hb E) as (v & Hv & Sh & AV & _).
    pose proof (proj1 (inv_all T) t Hs pa None s W Hb _ _ _ E) as [Cb _].
    pose proof (acc_ty' T t pa None false s _ _ _ E) as Hacc.
    exists v. split; [exact Hv|]. split; [exact Sh|]. split; [exact AV|]. exact (cst_adv cid aid mxo L s tr s' C Cb Hacc).
  Qed.

  (** the parameter area and the end of the command: the region is exactly used up *)
  Lemma cmd_params_complete pa cid aid cc vl area enc total L s tr s' res :
    wf_st s -> Forall isbyte (inp s) -> view s = [(cid, Some total, L - blen (inp s))] ->
    cmd_params_step T true pa cid aid cc vl area enc s = (tr, s', Ok res) ->
    exists pty pv, lookupZ cc (cmd_params T) = Some pty /\ sp_ty T pty (pchild pa "parameters") None enc (inp s) = Some (pv, inp s') /\
                   shape tr (items_of pv) /\ all_valid pv = true /\ total = L - blen (inp s') /\ cr_cc res = Some cc /\ cr_area res = area.
  Proof.
    intros W Hb Vw E. unfold cmd_params_step in E.
    destruct (lookupZ cc (cmd_params T)) as [pty|] eqn:Lp; [|unfold bad_cc, fail in E; discriminate].
    destruct (area_safe T Hsafe cc pty ltac:(right; left; exact Lp)) as [Hn Hs].
    pose proof (area_lp cc pty ltac:(right; left; exact Lp)) as Hl.
    rewrite try_field_strict in E.
    destruct (bind_inv _ _ _ _ _ _ _ _ E) as (tr1 & s1 & o1 & E1 & R1).
    destruct o1 as [pv|ee| |kk|]; try (destruct R1 as [R1 _]; discriminate). destruct R1 as (tr2 & E2 & ->).
    destruct (params_complete pty _ enc s tr1 s1 pv Hs Hn Hl W Hb E1) as (v & Hv & Sh & AV).
    destruct (oki_of_r2 _ _ _ _ (params_r2 T Hsafe pty _ enc s Hs Hn W Hb) _ _ _ E1) as [(V1 & W1 & _) B1].
    pose proof (P_dec_ty T true (@accounts) (lclosed_closed _ accounts_lclosed true) pty (pchild pa "parameters") None enc _ _ _ _ E1) as Hacc.
    rewrite Vw in V1. cbn [bump map bump_entry] in V1.
    destruct (bind_inv _ _ _ _ _ _ _ _ E2) as (tr3 & s3 & o3 & E3 & R3).
    destruct o3 as [u|ee| |kk|]; try (destruct R3 as [R3 _]; discriminate). destruct R3 as (tr4 & E4 & ->). injection E4 as <- <- <-.
    destruct (oki_of_r2 _ _ _ _ (assert_done_done cid total _ [] s1 W1 V1 ltac:(intros [])) _ _ _ E3) as (-> & Hal & I3 & _).
    exists pty, v. split; [reflexivity|]. rewrite I3. split; [exact Hv|]. rewrite !app_nil_r. split; [exact Sh|]. split; [exact AV|].
    split; [|split; reflexivity]. rewrite <- Hal. rewrite Hacc. unfold blen. rewrite app_length. lia.
  Qed.

  Lemma items_node pa t kids : items_of (SNode pa t kids) = INode pa t :: flat_map items_of kids.
  Proof. reflexivity. Qed.

  Ltac binv E tr1 s1 a E1 :=
    let o := fresh "o" in let R := fresh "R" in let E2 := fresh "E" in let tr2 := fresh "tr" in
    destruct (bind_inv _ _ _ _ _ _ _ _ E) as (tr1 & s1 & o & E1 & R);
    destruct o as [a| | | |]; try (destruct R as [R _]; discriminate);
    destruct R as (tr2 & E2 & ->); clear E; rename E2 into E.

  (** C03 for commands: a command that strict decoding completes, leaving nothing, is what the specification reads -
      commandSize is the length of the whole message, authSize the length of the session area *)
  Theorem cmd_complete pa s tr s' res : wf_st s -> Forall isbyte (inp s) ->
    dec_command T true pa s = (tr, s', Ok res) -> inp s' = [] ->
    exists v ci, sp_command T pa (inp s) = Some (v, ci, []) /\ shape tr (items_of v) /\ all_valid v = true /\
                 cr_cc res = Some (ci_cc ci) /\ is_param_enc attr (mask_encrypt T) (cr_area res) = Some (ci_rsp_enc ci).
  Proof.
    intros W Hb E I'. destruct (msg_facts T Hsafe) as (Hwt & _ & Hwc & _ & Hws & Hus & _ & Hsc & _).
    unfold session_ok in Hsc. apply andb_prop in Hsc as [Hsc Hsa]. apply andb_prop in Hsc as [Hsc Hsr]. apply andb_prop in Hsc as [Hss Hsn].
    assert (Hlc : lp_ty (t_auth_cmd T) = true).
    { unfold msg_lp in Hlp. apply andb_prop in Hlp as [Hl _]. apply andb_prop in Hl as [Hl _]. apply andb_prop in Hl as [_ Hl]. exact Hl. }
    unfold dec_command in E.
    set (cid := List.length (store s)) in *.
    destruct (new_sc_spec s W) as (s1 & E1 & I1 & L1 & V1 & W1 & Len1 & G1 & Fr1).
    destruct (new_sc_spec s1 W1) as (s2 & E2 & I2 & L2 & V2 & W2 & Len2 & G2 & Fr2).
    set (aid := List.length (store s1)) in *.
    assert (Haid : aid = S cid) by (unfold aid, cid; exact Len1).
    assert (Ncid : ~ In cid (lst s1)).
    { rewrite L1. intros Hx. destruct W as [_ AL]. rewrite Forall_forall in AL. specialize (AL _ Hx). unfold cid in AL. lia. }
    assert (Gc2 : get_sc s2 cid = sc_new).
    { destruct Fr2 as [_ Hf]. destruct (Hf cid ltac:(lia) Ncid) as [Hg _]. rewrite Hg. exact G1. }
    set (s3 := mkSt (inp s2) (store s2) [cid]).
    set (L := blen (inp s)).
    assert (I3 : inp s3 = inp s) by (cbn [s3 inp]; rewrite I2, I1; reflexivity).
    assert (C3 : cst cid aid None (L - blen (inp s3)) s3).
    { rewrite I3. unfold L. rewrite Z.sub_diag.
      split; [split; cbn [s3 lst store]; [constructor; [intros []|constructor]|constructor; [lia|constructor]]|].
      split; [rewrite I3; exact Hb|]. split.
      - unfold view. cbn [s3 lst filter]. unfold live. change (get_sc s3 cid) with (get_sc s2 cid). rewrite Gc2. cbn [sc_obs sc_new negb map].
        unfold entry_of. change (get_sc s3 cid) with (get_sc s2 cid). rewrite Gc2. reflexivity.
      - split; [cbn [s3 store]; lia|]. split; [cbn [s3 lst]; intros [Hx|[]]; lia|]. exact G2. }
    destruct (bind_inv _ _ _ _ _ _ _ _ E) as (t1 & x1 & o1 & X1 & R1). rewrite E1 in X1. injection X1 as <- <- <-. destruct R1 as (tr1 & Ea & ->).
    destruct (bind_inv _ _ _ _ _ _ _ _ Ea) as (t2 & x2 & o2 & X2 & R2). rewrite E2 in X2. injection X2 as <- <- <-. destruct R2 as (tr2 & Eb & ->).
    destruct (bind_inv _ _ _ _ _ _ _ _ Eb) as (t3 & x3 & o3 & X3 & R3). injection X3 as <- <- <-. destruct R3 as (tr3 & Ec & ->).
    destruct (bind_inv _ _ _ _ _ _ _ _ Ec) as (t4 & x4 & o4 & X4 & R4). injection X4 as <- <- <-. destruct R4 as (tr4 & Ed & ->).
    fold s3 in Ed. cbv zeta in Ed. clear E Ea Eb Ec. rename Ed into E. cbn [app].
    (* tag *)
    rewrite try_field_strict in E. binv E tr5 s5 tagv X5.
    destruct (prim_step (p_cmd_tag T) _ cid aid None L s3 tr5 s5 tagv ltac:(lia) C3 X5) as (tagz & Sp5 & -> & Vd5 & Sh5 & C5 & Ln5 & _).
    (* commandSize *)
    rewrite try_field_strict in E. binv E tr6 s6 szv X6.
    destruct (prim_step _ _ cid aid None L s5 tr6 s6 szv Hws C5 X6) as (total & Sp6 & -> & Vd6 & Sh6 & C6 & Ln6 & Htot).
    specialize (Htot Hus). cbn [as_int] in E.
    pose proof C6 as (W6 & B6 & V6 & A6).
    destruct (view_entry s6 cid None _ ltac:(rewrite V6; left; reflexivity)) as (_ & _ & Hin6).
    assert (Hc6 : (cid < List.length (store s6))%nat) by (destruct W6 as [_ AL]; rewrite Forall_forall in AL; apply AL, Hin6).
    binv E tr7 s7 u7 X7.
    destruct (oki_of_r2 _ _ _ _ (set_constraint_done cid (pchild pa "commandSize") total s6 Htot Hc6) _ _ _ X7) as (-> & ->).
    destruct (announced_facts cid (pchild pa "commandSize") total s6 W6 Hc6) as (V7 & W7 & Len7 & G7 & G7' & _).
    set (s7 := announced cid (pchild pa "commandSize") total s6) in *.
    assert (C7 : cst cid aid (Some total) (L - blen (inp s7)) s7).
    { split; [exact W7|]. split; [exact B6|]. split; [rewrite V7, V6; cbn [map set_entry]; rewrite Nat.eqb_refl; reflexivity|].
      destruct A6 as (Al & An & Ag). split; [lia|]. split; [exact An|]. rewrite G7' by lia. exact Ag. }
    assert (I7 : inp s7 = inp s6) by reflexivity.
    (* commandCode *)
    rewrite try_field_strict in E. binv E tr8 s8 ccv X8.
    destruct (prim_step _ _ cid aid (Some total) L s7 tr8 s8 ccv Hwc C7 X8) as (cc & Sp8 & -> & Vd8 & Sh8 & C8 & Ln8 & _).
    cbn [as_int] in E.
    destruct (lookupZ cc (cmd_handles T)) as [hty|] eqn:Lh; [|unfold bad_cc, fail in E; discriminate].
    destruct (area_safe T Hsafe cc hty ltac:(left; exact Lh)) as [Hhn Hhs].
    pose proof (area_lp cc hty ltac:(left; exact Lh)) as Hhl.
    (* handles *)
    rewrite try_field_strict in E. binv E tr9 s9 hv X9.
    destruct (ty_step hty _ cid aid (Some total) L s8 tr9 s9 hv Hhs Hhl C8 X9) as (hsv & Sp9 & Sh9 & AV9 & C9).
    unfold sp_command. rewrite <- I3, Sp5, Sp6.
    destruct (tagz =? st_sessions T) eqn:Etag.
    - (* authSize, the session area, the parameters *)
      rewrite try_field_strict in E. binv E tr10 s10 asv X10.
      destruct (prim_step _ _ cid aid (Some total) L s9 tr10 s10 asv Hws C9 X10) as (asz & Sp10 & -> & Vd10 & Sh10 & C10 & Ln10 & Hasz).
      specialize (Hasz Hus). cbv zeta in E. cbn [as_int] in E.
      destruct C10 as (W10 & B10 & V10 & (Al10 & An10 & Ag10)).
      binv E tr11 s11 u11 X11.
      destruct (oki_of_r2 _ _ _ _ (set_constraint_done aid (pchild pa "authSize") asz s10 Hasz Al10) _ _ _ X11) as (-> & ->).
      destruct (announced_facts aid (pchild pa "authSize") asz s10 W10 Al10) as (V11 & W11 & Len11 & G11 & G11' & _).
      set (s11 := announced aid (pchild pa "authSize") asz s10) in *.
      assert (Hne : cid <> aid) by lia.
      assert (V11' : view s11 = view s10).
      { rewrite V11, V10. cbn [map set_entry]. replace (Nat.eqb cid aid) with false by (symmetry; apply Nat.eqb_neq; exact Hne). reflexivity. }
      destruct (append_facts aid s11 W11 ltac:(exact An10) ltac:(lia) ltac:(rewrite G11, Ag10; reflexivity)) as (V12 & W12 & _).
      set (s12 := mkSt (inp s11) (store s11) (lst s11 ++ [aid])) in *.
      binv E tr12 s12' u12 X12. injection X12 as <- <- <-. fold s12 in E.
      assert (Vw12 : view s12 = view s10 ++ [(aid, Some asz, 0)]).
      { rewrite V12, V11'. unfold entry_of. rewrite G11, Ag10. reflexivity. }
      rewrite try_field_strict in E. binv E tr13 s13 area X13.
      destruct (sized_complete T (t_auth_cmd T) attr Hss Hlc Hsa Hsn Hsr aid asz (pchild pa "authorizationArea") _ s12 (view s10) 0 tr13 s13 area
                  W12 B10 Vw12 ltac:(rewrite V10; cbn; intros [Hx|[]]; apply Hne; exact Hx) X13)
        as (c & vs & accs & I13 & Lc & Hvs & Sh13 & AV13 & -> & Hf2 & V13 & W13 & B13).
      cbv zeta in E.
      pose proof (any_attr_sess attr (mask_decrypt T) vs accs Hf2) as Hd.
      pose proof (any_attr_sess attr (mask_encrypt T) vs accs Hf2) as He.
      assert (Ed : is_param_enc (sess_attr_field T) (mask_decrypt T) (Some (listval accs)) = Some (sess_bit attr (mask_decrypt T) vs)) by exact Hd.
      rewrite Ed in E.
      assert (I12 : inp s12 = inp s10) by reflexivity.
      rewrite V10 in V13. cbn [bump map bump_entry] in V13.
      replace (L - blen (inp s10) + blen c) with (L - blen (inp s13)) in V13
        by (rewrite <- I12, I13; unfold blen; rewrite app_length; lia).
      destruct (cmd_params_complete pa cid aid cc _ (Some (listval accs)) _ total L s13 _ s' res W13 B13 V13 E)
        as (pty & pv & Lp & Spp & Shp & AVp & Htotal & Hcc & Har).
      rewrite I' in Spp, Htotal.
      (* the body is everything after the two header fields *)
      assert (Hbody : split_at (total - (pwidth (p_cmd_tag T) + pwidth (p_size32 T))) (inp s6) = Some (inp s6, [])).
      { rewrite <- (app_nil_r (inp s6)) at 1. apply split_at_exact. unfold L in Htotal. rewrite <- I3 in Htotal. unfold blen in *. cbn [List.length] in Htotal. lia. }
      rewrite Hbody. rewrite <- I7, Sp8, Lh, Lp, Sp9, Sp10.
      rewrite <- I12, I13. rewrite (split_at_exact asz c (inp s13) ltac:(lia)). fold attr. rewrite Hvs, Spp.
      eexists _, _. split; [reflexivity|]. cbn [ci_cc ci_rsp_enc].
      split.
      { cbn [app]. rewrite items_node. apply (sh_node pa (TyN "Command")). rewrite ?flat_map_app. cbn [flat_map]. rewrite ?app_nil_r, <- ?app_assoc.
        repeat (apply shape_app; [assumption|]). exact Shp. }
      split; [cbn [all_valid forallb app]; cbn [all_valid] in Vd5, Vd6, Vd8, Vd10; rewrite Vd5, Vd6, Vd8, AV9, Vd10, AV13, AVp; reflexivity|].
      split; [exact Hcc|]. rewrite Har. exact He.
    - destruct C9 as (W9 & B9 & V9 & _).
      destruct (cmd_params_complete pa cid aid cc _ None false total L s9 _ s' res W9 B9 V9 E)
        as (pty & pv & Lp & Spp & Shp & AVp & Htotal & Hcc & Har).
      rewrite I' in Spp, Htotal.
      assert (Hbody : split_at (total - (pwidth (p_cmd_tag T) + pwidth (p_size32 T))) (inp s6) = Some (inp s6, [])).
      { rewrite <- (app_nil_r (inp s6)) at 1. apply split_at_exact. unfold L in Htotal. rewrite <- I3 in Htotal. unfold blen in *. cbn [List.length] in Htotal. lia. }
      rewrite Hbody. rewrite <- I7, Sp8, Lh, Lp, Sp9. cbn [sess_bit existsb]. 
      change (sess_bit (sess_attr_field T) (mask_decrypt T) []) with false. rewrite Spp.
      eexists _, _. split; [reflexivity|]. cbn [ci_cc ci_rsp_enc].
      split.
      { cbn [app]. rewrite items_node. apply (sh_node pa (TyN "Command")). rewrite ?flat_map_app. cbn [flat_map]. rewrite ?app_nil_r, <- ?app_assoc.
        repeat (apply shape_app; [assumption|]). exact Shp. }
      split; [cbn [all_valid forallb app]; cbn [all_valid] in Vd5, Vd6, Vd8; rewrite Vd5, Vd6, Vd8, AV9, AVp; reflexivity|].
      split; [exact Hcc|]. rewrite Har. reflexivity.
  Qed.
End MsgComp.
