(** Strict mode and warn mode agree up to the first problem (C07), for every decoder function. *)
From Coq Require Import ZArith List String Bool Lia.
From TV Require Import Layout.Types Base.Bytes Model.Monad Model.Constraints Model.Ints Model.Decoder Model.Message
  Model.Pump Proofs.Closure2 Proofs.PumpProofs.
Import ListNotations.
Open Scope list_scope.
Open Scope Z_scope.

(** what warn mode emits between the common trace and the warning for error [e]: nothing, or - for an
    out-of-range value - the offending event *)
Definition offending (e : err) (pre : list action) : Prop :=
  match e with
  | EValue pa tn v VSType => pre = [Ev (mkEvent pa (TyN tn) (Some v))]
  | _ => pre = []
  end.

Lemma offending_cases e pre : offending e pre ->
  pre = [] \/ exists pa tn v src, e = EValue pa tn v src /\ pre = [Ev (mkEvent pa (TyN tn) (Some v))].
Proof.
  destruct e as [pa tn v [| | |]| | | | | |]; cbn [offending]; intros H; try (left; exact H).
  right. eexists _, _, _, _. split; [reflexivity|exact H].
Qed.

Definition agree {A} (ms mw : M A) : Prop := forall s,
  match ms s with
  | (tr, s', Fail e) =>
      (exists pre rest s'' o'', mw s = (tr ++ pre ++ Wn e :: rest, s'', o'') /\ offending e pre)
      \/ mw s = (tr, s', Fail e)
  | r => mw s = r
  end.

Lemma agree_refl A (m : M A) : agree m m.
Proof. intros s. destruct (m s) as [[tr s'] o]. destruct o; try reflexivity. right. reflexivity. Qed.

Lemma agree_bind A B (m1 m2 : M A) (f1 f2 : A -> M B) :
  agree m1 m2 -> (forall a, agree (f1 a) (f2 a)) -> agree (bind m1 f1) (bind m2 f2).
Proof.
  intros Hm Hf s. specialize (Hm s). unfold bind.
  destruct (m1 s) as [[tr1 s1] o1]. destruct o1 as [a|e| |k|].
  - rewrite Hm. specialize (Hf a s1). destruct (f1 a s1) as [[tr2 s2] o2].
    destruct o2 as [b|e| |k|]; try (rewrite Hf; reflexivity).
    destruct Hf as [(pre & rest & s'' & o'' & E & O)|E].
    + left. rewrite E. exists pre, rest, s'', o''. split; [rewrite <- ?app_assoc; reflexivity|exact O].
    + right. rewrite E. reflexivity.
  - destruct Hm as [(pre & rest & s'' & o'' & E & O)|E].
    + left. rewrite E. destruct o'' as [a|e2| |k|];
        try (eexists pre, rest, s'', _; split; [reflexivity|exact O]).
      destruct (f2 a s'') as [[tr3 s3] o3].
      exists pre, (rest ++ tr3), s3, o3. split; [|exact O].
      rewrite <- ?app_assoc. cbn [app]. rewrite <- ?app_assoc. reflexivity.
    + right. rewrite E. reflexivity.
  - rewrite Hm. reflexivity.
  - rewrite Hm. reflexivity.
  - rewrite Hm. reflexivity.
Qed.

Lemma agree_dec_prim p pa : agree (dec_prim true p pa) (dec_prim false p pa).
Proof.
  unfold dec_prim. apply agree_bind; [apply agree_refl|]. intros _.
  apply agree_bind; [apply agree_refl|]. intros bs.
  destruct (valid p _); [apply agree_refl|].
  intros s. cbn. left. eexists [Ev (mkEvent pa (TyN (pname p)) (Some (from_bytes (psigned p) bs)))], [], s, _.
  split; reflexivity.
Qed.

Lemma agree_set_constraint i pa n : agree (set_constraint true i pa n) (set_constraint false i pa n).
Proof.
  unfold set_constraint. destruct (n <? 0); [apply agree_refl|].
  apply agree_bind; [apply agree_refl|]. intros s0.
  apply agree_bind; [apply agree_refl|]. intros _.
  apply agree_bind; [apply agree_refl|]. intros s1.
  destruct (anticipate _ _ _ _) as [[ci b]|]; [|apply agree_refl].
  intros s. cbn. left. eexists [], [], s, _. split; reflexivity.
Qed.

Lemma agree_assert_done i : agree (assert_done true i) (assert_done false i).
Proof.
  unfold assert_done. apply agree_bind; [apply agree_refl|]. intros s0.
  destruct (sc_max (get_sc s0 i)) as [mx|]; [|apply agree_refl].
  destruct (sc_obs (get_sc s0 i)); [apply agree_refl|].
  apply agree_bind; [apply agree_refl|]. intros _.
  destruct (_ =? _); [apply agree_refl|].
  intros s. cbn [fail]. left. unfold bind at 1. unfold emit.
  match goal with |- context [bind ?m ?f s] => destruct (bind m f s) as [[trc sc_] oc] end.
  eexists [], trc, sc_, _. split; [|reflexivity].
  destruct oc; reflexivity.
Qed.

Lemma catch_true A ids (m h : M A) s : catch_exceeded true ids m h s = m s.
Proof.
  unfold catch_exceeded. destruct (m s) as [[tr1 s1] o1]. destruct o1 as [a|e| |k|]; try reflexivity.
  destruct e; reflexivity.
Qed.

Lemma agree_catch A ids (m1 m2 h1 h2 : M A) :
  agree m1 m2 -> agree h1 h2 -> agree (catch_exceeded true ids m1 h1) (catch_exceeded false ids m2 h2).
Proof.
  intros Hm Hh. unfold agree. intros s. specialize (Hm s). rewrite catch_true. unfold catch_exceeded.
  destruct (m1 s) as [[tr1 s1] o1]. destruct o1 as [a|e| |k|].
  - rewrite Hm. reflexivity.
  - destruct Hm as [(pre & rest & s'' & o'' & E & O)|E].
    + left. rewrite E.
      destruct o'' as [a|e2| |k|]; try (eexists pre, rest, s'', _; split; [reflexivity|exact O]).
      destruct e2 as [p0 tn v src|c v b|c v val b|c|cc|rs cc|mp me mf]; try (eexists pre, rest, s'', _; split; [reflexivity|exact O]).
      cbn [orb]. destruct (negb (existsb (Nat.eqb (si_id c)) ids)); [eexists pre, rest, s'', _; split; [reflexivity|exact O]|].
      destruct (h2 s'') as [[tr3 s3] o3].
      exists pre, (rest ++ Wn (EExceeded c v b) :: tr3), s3, o3. split; [|exact O].
      rewrite <- ?app_assoc. cbn [app]. rewrite <- ?app_assoc. reflexivity.
    + rewrite E.
      destruct e as [p0 tn v src|c v b|c v val b|c|cc|rs cc|mp me mf]; try (right; reflexivity).
      cbn [orb]. destruct (negb (existsb (Nat.eqb (si_id c)) ids)); [right; reflexivity|].
      left. destruct (h2 s1) as [[tr3 s3] o3]. exists [], tr3, s3, o3. split; reflexivity.
  - rewrite Hm. reflexivity.
  - rewrite Hm. reflexivity.
  - rewrite Hm. reflexivity.
Qed.

Lemma agree_closed2 : closed2 (@agree).
Proof.
  constructor; intros; try apply agree_refl.
  - apply agree_bind; assumption.
  - apply agree_dec_prim.
  - apply agree_set_constraint.
  - apply agree_assert_done.
  - apply agree_catch; assumption.
  - intros s. cbn. left. eexists [], [], s, _. split; reflexivity.
Qed.

(** every decoder function, all tables, all states: strict and warn agree up to the first problem *)
Theorem agree_dec_root T r : agree (dec_root T true r) (dec_root T false r).
Proof. apply P_dec_root. apply agree_closed2. Qed.

(** ------------------------------------------------------------------ through the pump *)

Lemma pump_go_app_stopped is_stream len tr x ps ps' :
  pump_go is_stream len tr ps = (ps', true) -> pump_go is_stream len (tr ++ x) ps = (ps', true).
Proof.
  revert ps. induction tr as [|a tr IH]; intros ps H; cbn [pump_go app] in *; [discriminate|].
  destruct a as [b|e|w]; try (apply IH, H).
  destruct (is_stream && (len <=? ps_nrd ps) && is_root_event e); [exact H|apply IH, H].
Qed.

Lemma pump_go_app_cont is_stream len tr x ps ps' :
  pump_go is_stream len tr ps = (ps', false) -> pump_go is_stream len (tr ++ x) ps = pump_go is_stream len x ps'.
Proof.
  revert ps. induction tr as [|a tr IH]; intros ps H; cbn [pump_go app] in *; [injection H as <-; reflexivity|].
  destruct a as [b|e|w]; try (apply IH, H).
  destruct (is_stream && (len <=? ps_nrd ps) && is_root_event e); [discriminate|apply IH, H].
Qed.

(** C07: if strict mode accepts, warn mode emits the identical events (same pull counts) and no warning *)
Theorem strict_accepts_warn_identical T r input evs :
  decode T true r input = (evs, OAccepted) -> decode T false r input = (evs, OAccepted).
Proof.
  unfold decode, pump. intros H. pose proof (agree_dec_root T r (init_st input)) as Ag.
  destruct (dec_root T true r (init_st input)) as [[tr s'] o] eqn:E.
  destruct (pump_go (is_stream_root r) (Z.of_nat (List.length input)) tr (mkP 0 None [])) as [ps stp] eqn:G.
  destruct o as [v|e| |k|].
  - rewrite Ag, G. destruct stp; [exact H|].
    destruct (skipZ input (ps_nrd ps)); [exact H|discriminate].
  - destruct stp; [|discriminate].
    destruct Ag as [(pre & rest & s'' & o'' & Ew & _)|Ew]; rewrite Ew.
    + rewrite (pump_go_app_stopped _ _ _ _ _ _ G). exact H.
    + rewrite G. exact H.
  - rewrite Ag, G. destruct stp; [exact H|discriminate].
  - rewrite Ag, G. destruct stp; [exact H|discriminate].
  - rewrite Ag, G. destruct stp; [exact H|discriminate].
Qed.

Lemma emitted_after_problem is_stream len e pre rest nrd :
  offending e pre -> exists rest', emitted is_stream len (pre ++ Wn e :: rest) nrd = pre ++ Wn e :: rest'.
Proof.
  intros O. apply offending_cases in O. destruct O as [->|(pa & tn & v & src & -> & ->)]; cbn [app emitted].
  - eexists. reflexivity.
  - unfold is_root_event. cbn [evalue]. rewrite andb_false_r, andb_false_r. eexists. reflexivity.
Qed.

(** C07: if strict mode raises [e], warn mode either raises the same error after the same events, or emits the
    same events, then the offending event if [e] is a value error, then the warning wrapping [e] *)
Theorem strict_raises_warn_warns T r input evs e rem :
  decode T true r input = (evs, ORaised e rem) ->
  (exists evs_w, decode T false r input = (evs_w, ORaised e rem) /\ map fst evs_w = map fst evs) \/
  (exists evs_w o_w pre rest, decode T false r input = (evs_w, o_w) /\ offending e pre /\
                              map fst evs_w = map fst evs ++ pre ++ Wn e :: rest).
Proof.
  unfold decode, pump. intros H. pose proof (agree_dec_root T r (init_st input)) as Ag.
  destruct (dec_root T true r (init_st input)) as [[tr s'] o] eqn:E.
  destruct (pump_go (is_stream_root r) (Z.of_nat (List.length input)) tr (mkP 0 None [])) as [ps stp] eqn:G.
  destruct stp; [discriminate|].
  destruct o as [v|e0| |k|]; try discriminate.
  - destruct (skipZ input (ps_nrd ps)); discriminate.
  - injection H as <- <- <-.
    destruct Ag as [(pre & rest & s'' & o'' & Ew & O)|Ew].
    + right. rewrite Ew. rewrite (pump_go_app_cont _ _ _ _ _ _ G).
      destruct (pump_go (is_stream_root r) (Z.of_nat (List.length input)) (pre ++ Wn e0 :: rest) ps) as [ps2 stp2] eqn:G2.
      pose proof (pump_go_emitted _ _ _ _ _ _ G2) as O2.
      destruct (emitted_after_problem (is_stream_root r) (Z.of_nat (List.length input)) e0 pre rest (ps_nrd ps) O) as (rest' & Em).
      rewrite Em in O2.
      assert (Fin : forall evs_w o_w,
                (exists extra, map fst evs_w = map fst (rev (ps_out ps2)) ++ extra) ->
                exists (evs_w0 : list oevent) (o_w0 : outcome) (pre0 rest0 : list action),
                  (evs_w, o_w) = (evs_w0, o_w0) /\ offending e0 pre0 /\
                  map fst evs_w0 = map fst (rev (ps_out ps)) ++ pre0 ++ Wn e0 :: rest0).
      { intros evs_w o_w (extra & Hx). exists evs_w, o_w, pre, (rest' ++ extra). split; [reflexivity|]. split; [exact O|].
        rewrite Hx, O2. rewrite <- ?app_assoc. cbn [app]. rewrite <- ?app_assoc. reflexivity. }
      destruct stp2; [apply Fin; exists []; rewrite app_nil_r; reflexivity|].
      destruct o'' as [v|e1| |k|]; try (apply Fin; exists []; rewrite app_nil_r; reflexivity).
      * destruct (skipZ input (ps_nrd ps2)); [apply Fin; exists []; rewrite app_nil_r; reflexivity|].
        apply Fin. eexists. cbn [rev]. rewrite map_app. reflexivity.
      * apply Fin. eexists. cbn [rev]. rewrite map_app. reflexivity.
    + left. rewrite Ew, G. eexists. split; reflexivity.
Qed.

Definition is_warning (a : action) : bool := match a with Wn _ => true | _ => false end.

(** C07: if warn mode completes without emitting any warning, strict mode accepts *)
Theorem warn_clean_strict_accepts T r input evs_w :
  decode T false r input = (evs_w, OAccepted) -> existsb is_warning (map fst evs_w) = false ->
  exists evs, decode T true r input = (evs, OAccepted).
Proof.
  unfold decode, pump. intros H NW. pose proof (agree_dec_root T r (init_st input)) as Ag.
  destruct (dec_root T true r (init_st input)) as [[tr s'] o] eqn:E.
  destruct (pump_go (is_stream_root r) (Z.of_nat (List.length input)) tr (mkP 0 None [])) as [ps stp] eqn:G.
  destruct stp; [eexists; reflexivity|].
  assert (Wlast : forall (x : oevent) (l : list oevent), is_warning (fst x) = true -> existsb is_warning (map fst (l ++ [x])) = true).
  { intros x l Hx. rewrite map_app, existsb_app. cbn [map existsb]. rewrite Hx. rewrite orb_true_r. reflexivity. }
  destruct o as [v|e| |k|].
  - rewrite Ag, G in H. destruct (skipZ input (ps_nrd ps)); [eexists; reflexivity|].
    injection H as <-. rewrite Wlast in NW by reflexivity. discriminate.
  - exfalso. destruct Ag as [(pre & rest & s'' & o'' & Ew & O)|Ew]; rewrite Ew in H.
    + rewrite (pump_go_app_cont _ _ _ _ _ _ G) in H.
      destruct (pump_go (is_stream_root r) (Z.of_nat (List.length input)) (pre ++ Wn e :: rest) ps) as [ps2 stp2] eqn:G2.
      pose proof (pump_go_emitted _ _ _ _ _ _ G2) as O2.
      destruct (emitted_after_problem (is_stream_root r) (Z.of_nat (List.length input)) e pre rest (ps_nrd ps) O) as (rest' & Em).
      rewrite Em in O2.
      assert (Has : existsb is_warning (map fst (rev (ps_out ps2))) = true).
      { rewrite O2, !existsb_app. cbn [existsb is_warning]. rewrite !orb_true_r. reflexivity. }
      assert (Has2 : forall x : oevent, existsb is_warning (map fst (rev (ps_out ps2) ++ [x])) = true).
      { intros x. rewrite map_app, existsb_app. apply orb_true_iff. left. exact Has. }
      destruct stp2; [injection H as <-; congruence|].
      destruct o'' as [v|e1| |k|]; try discriminate.
      * destruct (skipZ input (ps_nrd ps2)); injection H as <-; [congruence|rewrite Has2 in NW; discriminate].
      * injection H as <-. rewrite Has2 in NW. discriminate.
    + rewrite G in H. discriminate.
  - exfalso. rewrite Ag, G in H. injection H as <-. rewrite Wlast in NW by reflexivity. discriminate.
  - exfalso. rewrite Ag, G in H. discriminate.
  - exfalso. rewrite Ag, G in H. discriminate.
Qed.
