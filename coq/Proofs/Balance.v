(** C13: the byte balance of a raised constraint error, block by block: complete fields, the offending bytes, the
    remainder. *)
From Coq Require Import ZArith List String Bool Lia.
From TV Require Import Layout.Types Base.Bytes Model.Monad Model.Constraints Model.Message Model.Pump
  Proofs.Account Proofs.Tiling Proofs.Agree Proofs.Sim6 Proofs.Warn1 Proofs.WTiling.
Import ListNotations.
Open Scope list_scope.
Open Scope Z_scope.

Lemma no_warning_in_reads bs : existsb is_warning (map Rd bs) = false.
Proof. induction bs as [|b r IH]; [reflexivity|exact IH]. Qed.

(** strict mode: the trace of a run that raises is a sequence of complete blocks (structure events, primitives with
    exactly their bytes) followed by the bytes consumed for the offending field - for an overrun: the rest of the
    violated region, exactly limit - counted bytes *)
Theorem raised_run_is_fields_then_offending_bytes T r bs tr s' e :
  dec_root T true r (init_st bs) = (tr, s', Fail e) ->
  exists pre off, tr = pre ++ map Rd off /\ wt pre /\ bs = bytes_of pre ++ off ++ inp s' /\
                  match e with EExceeded c _ _ => tail_of c off | _ => True end.
Proof.
  intros E. pose proof (wtiles_dec_root T true r _ _ _ _ E) as H. pose proof (accounts_dec_root T true r _ _ _ _ E) as A.
  pose proof (strict_is_quiet T r _ _ _ _ E) as Q. cbn [init_st inp] in A.
  assert (Hpart : forall pre mid off, tr = pre ++ mid ++ map Rd off -> wt pre -> (mid = [] \/ exists c, mid = [Wn (ESubceeded c)]) ->
                  exists pre' off', tr = pre' ++ map Rd off' /\ wt pre' /\ bs = bytes_of pre' ++ off' ++ inp s').
  { intros pre mid off Ht Hw [->|(c & ->)].
    - exists pre, off. split; [exact Ht|]. split; [exact Hw|]. rewrite A, Ht. cbn [app]. rewrite bytes_of_app, bytes_of_map_Rd, <- app_assoc. reflexivity.
    - exfalso. rewrite Ht in Q. rewrite !existsb_app in Q. cbn [existsb is_warning] in Q. rewrite orb_true_r in Q. discriminate. }
  destruct e as [pa tn v src|c v b|c v z b|c|cc|rest cc|pa ex fo];
    try (destruct H as (pre & mid & off & Ht & Hw & Hm); destruct (Hpart pre mid off Ht Hw Hm) as (pre' & off' & H1 & H2 & H3);
         exists pre', off'; split; [exact H1|]; split; [exact H2|]; split; [exact H3|exact Logic.I]).
  destruct H as (pre & off & Ht & Hw & Htail). exists pre, off. split; [exact Ht|]. split; [exact Hw|]. split; [|exact Htail].
  rewrite A, Ht, bytes_of_app, bytes_of_map_Rd, <- app_assoc. reflexivity.
Qed.

Lemma filter_not_rd_reads bs : filter not_rd (map Rd bs) = [].
Proof. induction bs as [|b r IH]; [reflexivity|exact IH]. Qed.

(** through the byte pump (any root but a stream): the events shown are those of the complete blocks, the remainder
    reported with the error is the unread input - input = bytes of the emitted fields ++ offending bytes ++ remainder *)
Theorem raised_input_is_fields_offending_remainder T r input evs e rem :
  is_stream_root r = false -> decode T true r input = (evs, ORaised e rem) ->
  exists pre off, wt pre /\ input = bytes_of pre ++ off ++ rem /\ map fst evs = filter not_rd pre /\
                  match e with EExceeded c _ _ => tail_of c off | _ => True end.
Proof.
  intros Hs D. unfold decode, pump in D. rewrite Hs in D.
  destruct (dec_root T true r (init_st input)) as [[tr s'] o] eqn:E.
  destruct (pump_go_nostream (Z.of_nat (List.length input)) tr (mkP 0 None [])) as (ps & G & F & N). rewrite G in D.
  cbn [ps_out rev app map ps_nrd] in F, N. rewrite Z.add_0_l in N.
  destruct o as [a|e0| |k|]; try discriminate.
  - destruct (skipZ input (ps_nrd ps)); discriminate.
  - injection D as <- <- <-.
    destruct (raised_run_is_fields_then_offending_bytes T r input tr s' e0 E) as (pre & off & Ht & Hw & Hb & He).
    exists pre, off. split; [exact Hw|]. split; [|split; [|exact He]].
    + assert (Hr : skipZ input (ps_nrd ps) = inp s').
      { rewrite N, Ht, bytes_of_app, bytes_of_map_Rd. rewrite Hb at 1. rewrite app_assoc. apply skipZ_app. }
      rewrite Hr. exact Hb.
    + rewrite F, Ht, filter_app, filter_not_rd_reads, app_nil_r. reflexivity.
Qed.
