(** C08, part 3: warn mode never aborts - the session list, commands and responses, for arbitrary input. *)
From Coq Require Import ZArith List String Bool Lia ZifyBool.
From TV Require Import Layout.Types Base.Bytes Model.Monad Model.Constraints Model.Ints Model.Decoder Model.Message Model.Pump
  Spec.Value Proofs.Closure Proofs.LowClosure Proofs.Account Proofs.OpLemmas Proofs.Agree Proofs.Sim1 Proofs.Sim2 Proofs.Sim3 Proofs.Sim4 Proofs.Sim7
  Proofs.Sim8 Proofs.Sim9 Proofs.Comp1 Proofs.Safe1 Proofs.Safe2 Proofs.Safe3 Proofs.Warn1 Proofs.Warn2.
Import ListNotations.
Open Scope string_scope.
Open Scope list_scope.
Open Scope Z_scope.

(** with no region around it, a run cannot end with Exceeded: plain sequencing *)
Lemma rw0_bind A B (m : M A) (f : A -> M B) s (P : A -> list action -> st -> Prop) (Q : B -> list action -> st -> Prop) :
  rw [] m s P -> (forall a tr1 s1, P a tr1 s1 -> rw [] (f a) s1 (fun b tr2 s2 => Q b (tr1 ++ tr2) s2)) -> rw [] (bind m f) s Q.
Proof.
  intros Hm Hf tr s' o E. destruct (bind_inv' _ _ _ _ _ _ _ _ E) as (tr1 & s1 & o1 & E1 & R).
  destruct (Hm _ _ _ E1) as (G1 & P1 & X1).
  destruct o1 as [a|e| |k|]; try contradiction.
  - destruct R as (tr2 & E2 & ->). destruct (Hf a tr1 s1 (P1 a eq_refl) _ _ _ E2) as (G2 & P2 & X2).
    split; [exact G2|]. split; [exact P2|]. intros c v b ->. cbn [gw okfail] in G2. contradiction.
  - destruct R as (-> & -> & ->). split; [exact G1|]. split; [discriminate|]. intros c v b Ho. injection Ho as ->. cbn [gw okfail] in G1. contradiction.
  - destruct R as (-> & _). split; [exact Logic.I|]. split; discriminate.
Qed.

(** a field of a message: Exceeded of one of the message's own regions abandons the message *)
Lemma rw_try_field A R ids (m : M A) (ab : M R) (k : A -> M R) s (P : A -> list action -> st -> Prop) (Q : R -> list action -> st -> Prop) :
  rw (ids ++ []) m s P ->
  (forall a tr1 s1, P a tr1 s1 -> rw [] (k a) s1 (fun b tr2 s2 => Q b (tr1 ++ tr2) s2)) ->
  (forall c v b tr1 s1, In (si_id c) ids -> xpost s tr1 s1 (si_id c) -> rw [] ab s1 (fun r tr2 s2 => Q r ((tr1 ++ [Wn (EExceeded c v b)]) ++ tr2) s2)) ->
  rw [] (try_field false ids m ab k) s Q.
Proof.
  intros Hm Hk Hab. unfold try_field.
  apply rw0_bind with (P := fun r tr1 s1 => match r with Some a => P a tr1 s1
                                              | None => exists c v b tr0, tr1 = tr0 ++ [Wn (EExceeded c v b)] /\ In (si_id c) ids /\ xpost s tr0 s1 (si_id c) end).
  - apply rw_catch_ret with (Qm := fun r tr1 s1 => match r with Some a => P a tr1 s1 | None => False end).
    + apply rw_bind_ret with (P := P); [exact Hm|]. intros a tr s' H. exact H.
    + intros [a|] tr s' H; [exact H|contradiction].
    + intros c v b tr1 s1 Hin X. exists c, v, b, tr1. split; [reflexivity|]. split; assumption.
  - intros [a|] tr1 s1 H; [apply (Hk a tr1 s1 H)|]. destruct H as (c & v & b & tr0 & -> & Hin & X). apply (Hab c v b tr0 s1 Hin X).
Qed.

Lemma prim_reads_w p pa s : okinv (dec_prim false p pa) s (fun _ tr _ => pwidth p <= blen (bytes_of tr)).
Proof.
  intros tr s' a E. unfold dec_prim in E.
  destruct (bind_inv' _ _ _ _ _ _ _ _ E) as (tr2 & s2 & o2 & E2 & R2).
  destruct o2 as [u|ee| |kk|]; try (destruct R2 as (R2 & _); discriminate). destruct R2 as (tr3 & E3 & ->).
  destruct (bind_inv' _ _ _ _ _ _ _ _ E3) as (tr4 & s4 & o4 & E4 & R4).
  destruct (readn_w _ _ _ _ _ E4) as (_ & _ & _ & [(bs & -> & -> & Lb)| ->]); [|destruct R4 as (R4 & _); discriminate].
  destruct R4 as (tr5 & E5 & ->). rewrite !bytes_of_app, bytes_of_map_Rd. unfold blen. rewrite !app_length. lia.
Qed.

Section FirstReadsW.
  Variable T : tables.
  Lemma first_reads_w t1 p s : first_reads t1 = true -> okinv (dec_ty T false t1 p None false) s (fun _ tr _ => 1 <= blen (bytes_of tr)).
  Proof.
    destruct t1 as [pp|? ? ?|name szf buf szp el|name szf buf szp inner|? ?]; try discriminate; cbn [first_reads]; intros Hw.
    - change (dec_ty T false (TPrim pp) p None false) with (dec_prim false pp p).
      eapply oki_weaken; [|apply prim_reads_w]. cbv beta. intros _ tr _ H. lia.
    - rewrite dec_ty_tpm2b_list. unfold dec_tpm2b_list. apply reads_after. intros _ s1. apply reads_bind.
      eapply oki_weaken; [|apply prim_reads_w]. cbv beta. intros _ tr _ H. lia.
    - rewrite dec_ty_tpm2b_struct. apply reads_after. intros _ s1. cbv zeta. apply reads_bind.
      eapply oki_weaken; [|apply prim_reads_w]. cbv beta. intros _ tr _ H. lia.
  Qed.
End FirstReadsW.

(** ---- the size-governed session list in warn mode *)
Section SizedW.
  Variable T : tables.
  Variable e : ty.
  Variable attr : string.
  Hypothesis He : safe_ty e = true.
  Hypothesis Hb2 : bytes2b e = true.
  Hypothesis Hne : nonunion e = true.
  Hypothesis Hre : reads_one e = true.
  Hypothesis Hae : session_type_ok attr e = true.
  Variable cid : nat.
  Variable mx : Z.
  Variable pa : path.

  Definition ebodyw (p : path) : M (option value) := dec_ty T false e p None false.

  Lemma elem_reads_w p s : okinv (ebodyw p) s (fun _ tr _ => 1 <= blen (bytes_of tr)).
  Proof.
    unfold ebodyw. destruct e as [|name isp [|n t1 r| |]| | |]; try discriminate. cbn [reads_one] in Hre.
    rewrite dec_ty_struct. cbn [andb]. cbv zeta.
    apply reads_after. intros _ s1. apply reads_bind. rewrite dec_fields_plain. apply reads_bind. apply (first_reads_w T). exact Hre.
  Qed.

  Lemma elem_w p s L : wf_st s -> Forall isbyte (inp s) -> Lok s L ->
    rw L (ebodyw p) s (fun a tr s' => cw s tr s' /\ has_attr attr a /\ 1 <= blen (bytes_of tr)).
  Proof.
    intros W Hb K tr s' o E.
    destruct (proj1 (warn_all T) e He Hb2 p None s L ltac:(intros Hx; unfold nonunion in Hne; rewrite Hx in Hne; discriminate) W Hb K _ _ _ E) as (G & P & X).
    split; [exact G|]. split; [|exact X]. intros a ->. destruct (P a eq_refl) as [C Hv]. split; [exact C|]. split.
    - destruct e as [|name isp fs| | |]; try discriminate. apply (shape_has_attr attr name isp fs a Hae Hv).
    - apply (elem_reads_w p s _ _ _ E).
  Qed.

  Lemma linv_cw V al s tr s1 : linv cid mx V al s -> cw s tr s1 -> linv cid mx (bump (blen (bytes_of tr)) V) (al + blen (bytes_of tr)) s1.
  Proof.
    intros (W & Hb & Vw & Hn) ((V1 & W1 & _) & _ & B1). split; [exact W1|]. split; [apply B1, Hb|].
    split; [rewrite V1, Vw, bump_app; reflexivity|rewrite ids_bump; exact Hn].
  Qed.

  Lemma loop_w L : forall n i acc s V al, linv cid mx V al s -> Forall (has_attr attr) acc -> Lok s (cid :: L) ->
    rw (cid :: L) (iter n (sstep ebodyw cid mx pa) (i, acc)) s (fun r tr s' =>
      cw s tr s' /\ Forall (has_attr attr) (snd r) /\ (Z.of_nat n <= blen (bytes_of tr) \/ mx <= al + blen (bytes_of tr))).
  Proof.
    induction n as [|n IH]; intros i acc s V al Li Hacc K.
    - cbn [iter]. apply rw_ret. cbn [bytes_of snd]. unfold blen. cbn [List.length]. destruct Li as (W & _).
      split; [apply cw_nil, W|]. split; [exact Hacc|left; lia].
    - cbn [iter]. pose proof Li as (W & Hb & Vw & Hn). destruct (view_last _ _ _ _ _ Vw) as (Hm & Ha & _).
      apply rw_bind with (P := fun r tr s1 => cw s tr s1 /\ Forall (has_attr attr) (snd r) /\ (1 <= blen (bytes_of tr) \/ mx <= al + blen (bytes_of tr))).
      + unfold sstep. eapply rw_eq; [apply bind_get|]. change (get_sc (mkSt [] (store s) (lst s)) cid) with (get_sc s cid). rewrite Ha.
        destruct (al <? mx) eqn:Hlt.
        * cbn [fst snd].
          apply rw_bind_ret with (P := fun a tr s1 => cw s tr s1 /\ has_attr attr a /\ 1 <= blen (bytes_of tr)); [apply elem_w; assumption|].
          intros v tr1 s1 (C & Hv & Hr). cbn [snd]. split; [exact C|]. split; [constructor; assumption|left; exact Hr].
        * apply rw_ret. cbn [bytes_of snd]. unfold blen. cbn [List.length]. split; [apply cw_nil, W|]. split; [exact Hacc|right; lia].
      + intros r tr1 s1 (C & _). exact C.
      + intros [i1 acc1] tr1 s1 (C1 & Hacc1 & Hp1). cbn [snd] in Hacc1.
        eapply rw_weaken; [|apply (IH i1 acc1 s1 _ _ (linv_cw _ _ _ _ _ Li C1) Hacc1 (Lok_cw _ _ _ _ K C1))].
        cbv beta. intros r tr2 s2 (C2 & Hacc2 & Hp2). split; [eapply cw_trans; eassumption|]. split; [exact Hacc2|].
        rewrite bytes_of_app. unfold blen in *. rewrite app_length. lia.
  Qed.

  (** the whole list: when it completes, the governing region is finished and every enclosing live listed region has
      been charged exactly the bytes read; the list value is absent if the region was overrun *)
  Lemma sized_w lid s V al L : linv cid mx V al s -> incl (ids_of V) L -> Forall (fun i => (i < List.length (store s))%nat) L -> ~ In cid L ->
    rw L (dec_sized_array false lid pa cid ebodyw) s (fun a tr s' =>
      view s' = bump (blen (bytes_of tr)) V /\ wf_st s' /\ frame s s' /\ mxf s s' /\ (Forall isbyte (inp s) -> Forall isbyte (inp s')) /\
      sc_obs (get_sc s' cid) = true /\ (a = None \/ exists accs, a = Some (listval accs) /\ Forall (has_attr attr) accs)).
  Proof.
    intros Li HVL AL HcL. pose proof Li as (W & Hb & Vw & Hn). destruct (view_last _ _ _ _ _ Vw) as (Hm & Ha & Hin).
    assert (K : Lok s (cid :: L)).
    { split; [rewrite Vw; unfold ids_of; rewrite map_app; cbn [map fst]; intros j Hj; apply in_app_or in Hj as [Hj|[<-|[]]]; [right; apply HVL, Hj|left; reflexivity]|].
      constructor; [destruct W as [_ A]; rewrite Forall_forall in A; apply A, Hin|exact AL]. }
    unfold dec_sized_array.
    assert (Main : rw L (bind get (fun s0 => match sc_max (get_sc s0 cid) with
                    | None => internal_ IAssertMaxNone
                    | Some mx0 => catch_exceeded false [cid]
                        (bind (repZ (mx0 - sc_already (get_sc s0 cid)) (fun st_ : Z * list (option value) =>
                                 bind get (fun s1 => if sc_already (get_sc s1 cid) <? mx0
                                                     then bind (ebodyw (pindex pa (fst st_))) (fun v => ret (fst st_ + 1, v :: snd st_)) else ret st_)) (0, []))
                           (fun r => bind get (fun s1 => if sc_already (get_sc s1 cid) <? mx0 then fuel_
                                                         else bind (assert_done false cid) (fun _ => ret (Some (listval (rev (snd r))))))))
                        (ret None) end)) s
              (fun a tr s' => view s' = bump (blen (bytes_of tr)) V /\ wf_st s' /\ frame s s' /\ mxf s s' /\ (Forall isbyte (inp s) -> Forall isbyte (inp s')) /\
                              sc_obs (get_sc s' cid) = true /\ (a = None \/ exists accs, a = Some (listval accs) /\ Forall (has_attr attr) accs))).
    { eapply rw_eq; [apply bind_get|]. change (get_sc (mkSt [] (store s) (lst s)) cid) with (get_sc s cid). rewrite Hm, Ha.
      apply rw_catch_ret with (Qm := fun a tr s' => view s' = bump (blen (bytes_of tr)) V /\ wf_st s' /\ frame s s' /\ mxf s s' /\ (Forall isbyte (inp s) -> Forall isbyte (inp s')) /\
                              sc_obs (get_sc s' cid) = true /\ exists accs, a = Some (listval accs) /\ Forall (has_attr attr) accs).
      - change ([cid] ++ L) with (cid :: L).
        apply rw_bind with (P := fun r tr s1 => cw s tr s1 /\ Forall (has_attr attr) (snd r) /\ mx <= al + blen (bytes_of tr)).
        + destruct (Z_le_gt_dec (mx - al) 0) as [Hle|Hgt].
          * destruct (mx - al) as [|q|q] eqn:Eq; cbn [repZ]; try lia;
              (apply rw_ret; cbn [bytes_of snd]; unfold blen; cbn [List.length]; split; [apply cw_nil, W|split; [constructor|lia]]).
          * eapply rw_eq; [apply (repZ_iter _ _ (mx - al) (0, []) ltac:(lia))|].
            eapply rw_weaken; [|apply (loop_w L (Z.to_nat (mx - al)) 0 [] s V al Li ltac:(constructor) K)].
            cbv beta. intros r tr s' (C & Hacc & Hp). split; [exact C|]. split; [exact Hacc|lia].
        + intros r tr1 s1 (C & _). exact C.
        + intros r tr1 s1 (C1 & Hacc & Hge). pose proof (linv_cw _ _ _ _ _ Li C1) as (W1 & B1 & V1 & Hn1).
          destruct (view_last _ _ _ _ _ V1) as (Hm1 & Ha1 & _).
          eapply rw_eq; [apply bind_get|]. change (get_sc (mkSt [] (store s1) (lst s1)) cid) with (get_sc s1 cid). rewrite Ha1.
          replace (al + blen (bytes_of tr1) <? mx) with false by lia.
          apply rw_bind_ret with (P := fun _ tr s2 => view s2 = bump (blen (bytes_of tr)) (bump (blen (bytes_of tr1)) V) /\ wf_st s2 /\ frame s1 s2 /\ mxf s1 s2 /\
                                                       lst s2 = lst s1 /\ sc_obs (get_sc s2 cid) = true /\ inp s1 = bytes_of tr ++ inp s2).
          * apply (assert_done_w cid mx _ _ s1 (cid :: L) W1 V1 Hn1).
          * intros _ tr2 s2 (V2 & W2 & F2 & M2 & _ & Ob2 & I2). destruct C1 as ((_ & _ & F1) & M1 & Bb1).
            split; [rewrite V2, bump_bump, bytes_of_app; f_equal; unfold blen; rewrite app_length; lia|]. split; [exact W2|].
            split; [exact (frame_trans _ _ _ F1 F2)|]. split; [exact (mxf_trans _ _ _ M1 M2)|].
            split; [intros H; apply Bb1 in H; rewrite I2 in H; apply Forall_app in H as [_ H]; exact H|]. split; [exact Ob2|].
            exists (rev (snd r)). split; [reflexivity|apply Forall_rev, Hacc].
      - intros a tr s' (H1 & H2 & H3 & H4 & H5 & H6 & H7). repeat (split; [assumption|]). right. exact H7.
      - intros c v b tr1 s1 Hc (X & en & Z0 & Hv & Hid & _ & Hv2 & W6 & F6 & M6 & Ob & B6). destruct Hc as [Hc|[]].
        rewrite Vw in Hv. destruct (last_entry_split X en Z0 V cid (Some mx) al (eq_sym Hv) ltac:(rewrite Hid, Hc; reflexivity) Hn) as [-> ->].
        rewrite bytes_of_app. cbn [bytes_of]. rewrite app_nil_r. rewrite <- Hc in *.
        split; [exact Hv2|]. split; [exact W6|]. split; [exact F6|]. split; [exact M6|]. split; [exact B6|]. split; [exact Ob|left; reflexivity]. }
    apply rw_bind with (P := fun _ tr s1 => tr = [sev pa lid] /\ s1 = s); [apply rw_emit; split; reflexivity|intros _ tr1 s1 (-> & ->); apply cw_sev, W|].
    intros _ tr0 s0 (-> & ->). eapply rw_weaken; [|exact Main]. cbv beta. intros a tr s' H. exact H.
  Qed.
End SizedW.

(** ---- table conditions *)
Definition msg_b2 (T : tables) : bool :=
  forallb (fun kt => bytes2b (snd kt)) (cmd_handles T ++ cmd_params T ++ rsp_handles T ++ rsp_params T) &&
  bytes2b (t_auth_cmd T) && bytes2b (t_auth_rsp T) && bytes2b (t_enc_param T).

Section MsgW.
  Variable T : tables.
  Hypothesis Hsafe : msg_safe T = true.
  Hypothesis Hb2m : msg_b2 T = true.

  Let attr := sess_attr_field T.

  Lemma area_b2 cc t : lookupZ cc (cmd_handles T) = Some t \/ lookupZ cc (cmd_params T) = Some t \/
                       lookupZ cc (rsp_handles T) = Some t \/ lookupZ cc (rsp_params T) = Some t -> bytes2b t = true.
  Proof.
    intros H. unfold msg_b2 in Hb2m. apply andb_prop in Hb2m as [Hl _]. apply andb_prop in Hl as [Hl _]. apply andb_prop in Hl as [Hl _].
    rewrite forallb_forall in Hl.
    assert (Hin : exists c', In (c', t) (cmd_handles T ++ cmd_params T ++ rsp_handles T ++ rsp_params T)).
    { destruct H as [H|[H|[H|H]]]; destruct (lookupZ_in _ _ _ H) as (c' & Hi & _); exists c'; rewrite !in_app_iff; tauto. }
    destruct Hin as (c' & Hin). apply (Hl _ Hin).
  Qed.

  (** a parameter area, with or without an opaque first parameter *)
  Lemma params_w pty pa enc s L : safe_ty pty = true -> nonunion pty = true -> bytes2b pty = true -> wf_st s -> Forall isbyte (inp s) -> Lok s L ->
    rw L (dec_ty T false pty pa None enc) s (fun _ tr s' => cw s tr s').
  Proof.
    intros Hs Hn Hb2 W Hb K.
    assert (Plain : rw L (dec_ty T false pty pa None false) s (fun _ tr s' => cw s tr s')).
    { eapply rw_weaken; [|apply (proj1 (warn_all T) pty Hs Hb2 pa None s L ltac:(intros Hx; unfold nonunion in Hn; rewrite Hx in Hn; discriminate) W Hb K)].
      cbv beta. intros a tr s' [C _]. exact C. }
    destruct pty as [p|name isp fs|name szf buf szp el|name szf buf szp inner|name ar]; try exact Plain.
    destruct (enc && isp && first_is_tpm2b fs) eqn:UE.
    - destruct fs as [|n t r|n el r|n sl u r]; try (cbn [first_is_tpm2b] in UE; rewrite andb_false_r in UE; discriminate).
      rewrite dec_ty_struct, UE. cbv zeta.
      cbn [safe_ty safe_fields bytes2b b2_fields] in Hs, Hb2. apply andb_prop in Hs as [Hs Hr]. apply andb_prop in Hb2 as [_ Hbr].
      assert (Ht : match t with TPrim p => Some p | _ => @None prim end = None).
      { apply andb_prop in UE as [_ UE]. destruct t; try discriminate; reflexivity. }
      rewrite Ht in Hr.
      destruct (msg_facts T Hsafe) as (_ & _ & _ & _ & _ & _ & _ & _ & _ & Henc & _). unfold enc_ok in Henc.
      assert (Hbe : bytes2b (t_enc_param T) = true) by (unfold msg_b2 in Hb2m; apply andb_prop in Hb2m as [_ Hl]; exact Hl).
      apply rw_bind with (P := fun _ tr s1 => tr = [sev pa (TyEnc name)] /\ s1 = s); [apply rw_emit; split; reflexivity|intros _ tr1 s1 (-> & ->); apply cw_sev, W|].
      intros _ tr0 s0 (-> & ->).
      apply rw_bind_ret with (P := fun _ tr s1 => cw s tr s1).
      + apply rw_bind with (P := fun _ tr s1 => cw s tr s1).
        * unfold dec_enc_param. destruct (t_enc_param T) as [| |ename eszf ebuf eszp [ep| | | |]| |] eqn:Et; try discriminate.
          eapply rw_weaken; [|apply (proj1 (warn_all T) (TTpm2bList ename eszf ebuf eszp (TPrim ep)) Henc Hbe (pchild pa n) None s L ltac:(discriminate) W Hb K)].
          cbv beta. intros a tr s' [C _]. exact C.
        * intros a tr1 s1 C. exact C.
        * intros v tr1 s1 C1. eapply rw_weaken; [|apply (proj1 (proj2 (warn_all T)) r [(n, None)] Hr Hbr pa [(n, v)] s1 L)].
          -- cbv beta. intros _ tr2 s2 [C2 _]. eapply cw_trans; eassumption.
          -- constructor; [split; [reflexivity|exact Logic.I]|constructor].
          -- exact (cw_wf _ _ _ C1).
          -- apply (proj2 (proj2 C1)), Hb.
          -- exact (Lok_cw _ _ _ _ K C1).
      + intros vals tr1 s1 C1. eapply (cw_trans s [sev pa (TyEnc name)] s); [apply cw_sev, W|exact C1].
    - eapply rw_eq; [|exact Plain]. rewrite !dec_ty_struct, UE. cbn [andb]. reflexivity.
  Qed.

  Lemma cst_stepw cid aid mxo al s tr s1 : cst cid aid mxo al s -> cw s tr s1 -> cst cid aid mxo (al + blen (bytes_of tr)) s1.
  Proof.
    intros (W & Hb & Vw & Aid) ((V1 & W1 & F1) & _ & B1). split; [exact W1|]. split; [apply B1, Hb|]. split; [rewrite V1, Vw; reflexivity|].
    exact (aid_ok_frame _ _ _ Aid F1).
  Qed.

  Lemma cst_Lok cid aid mxo al s : cst cid aid mxo al s -> Lok s ([cid; aid] ++ []).
  Proof.
    intros (W & _ & Vw & (Al & _)). split; [rewrite Vw; cbn; intros j [<-|[]]; left; reflexivity|].
    assert (Hc : In cid (lst s)) by (apply view_ids_in; rewrite Vw; left; reflexivity).
    destruct W as [_ A]. rewrite Forall_forall in A. constructor; [apply A, Hc|]. constructor; [exact Al|constructor].
  Qed.

  (** what is known when a field of the message was abandoned: the state is well-formed, and the region had a limit *)
  Lemma abandoned_facts cid aid mxo al s tr1 s1 i : cst cid aid mxo al s -> xpost s tr1 s1 i -> wf_st s1 /\ Forall isbyte (inp s1) /\ mxo <> None.
  Proof.
    intros (W & Hb & Vw & _) (X & e & Z0 & Hv & Hid & Hmx & _ & W1 & _ & _ & _ & B1). split; [exact W1|]. split; [apply B1, Hb|].
    rewrite Vw in Hv. destruct X as [|x X']; [injection Hv as <- _; exact Hmx|]. injection Hv as _ Hv. destruct X'; discriminate.
  Qed.

  (** a primitive field of a message *)
  Lemma field_prim_w R p pa cid aid mxo al s (ab : M R) (k : option value -> M R) (Q : R -> list action -> st -> Prop) :
    cst cid aid mxo al s -> 0 <= pwidth p ->
    (forall z tr1 s1, cst cid aid mxo (al + pwidth p) s1 -> blen (bytes_of tr1) = pwidth p -> (psigned p = false -> 0 <= z) ->
                      rw [] (k (Some (VInt_ (pname p) z))) s1 (fun b tr2 s2 => Q b (tr1 ++ tr2) s2)) ->
    (forall c v b tr1 s1, mxo <> None -> wf_st s1 -> Forall isbyte (inp s1) -> rw [] ab s1 (fun r tr2 s2 => Q r ((tr1 ++ [Wn (EExceeded c v b)]) ++ tr2) s2)) ->
    rw [] (try_field false [cid; aid] (dec_prim false p pa) ab k) s Q.
  Proof.
    intros C Hw Hk Hab. pose proof C as (W & Hb & Vw & Aid).
    apply rw_try_field with (P := fun a tr s1 => cw s tr s1 /\ exists bs, a = Some (VInt_ (pname p) (from_bytes (psigned p) bs)) /\ bytes_of tr = bs /\ blen bs = pwidth p /\ inp s = bs ++ inp s1).
    - apply (dec_prim_w p pa s _ W Hw (proj1 (cst_Lok _ _ _ _ _ C))).
    - intros a tr1 s1 (C1 & bs & -> & Hbt & Hbl & Hi). apply Hk.
      + replace (al + pwidth p) with (al + blen (bytes_of tr1)) by (rewrite Hbt, Hbl; reflexivity). apply (cst_stepw _ _ _ _ _ _ _ C C1).
      + rewrite Hbt. exact Hbl.
      + intros Hu. rewrite Hu. apply unsigned_nonneg. rewrite Hi in Hb. apply Forall_app in Hb as [Hb' _]. exact Hb'.
    - intros c v b tr1 s1 _ X. destruct (abandoned_facts _ _ _ _ _ _ _ _ C X) as (W1 & B1 & Hm). apply Hab; assumption.
  Qed.

  (** the bookkeeping of a message once its second region may have been used *)
  Definition mst (cid aid : nat) (mxo : option Z) (al : Z) (s : st) : Prop :=
    wf_st s /\ Forall isbyte (inp s) /\ view s = [(cid, mxo, al)] /\ (aid < List.length (store s))%nat.

  Lemma cst_mst cid aid mxo al s : cst cid aid mxo al s -> mst cid aid mxo al s.
  Proof. intros (W & Hb & Vw & (Al & _)). split; [exact W|]. split; [exact Hb|]. split; [exact Vw|exact Al]. Qed.

  Lemma mst_stepw cid aid mxo al s tr s1 : mst cid aid mxo al s -> cw s tr s1 -> mst cid aid mxo (al + blen (bytes_of tr)) s1.
  Proof.
    intros (W & Hb & Vw & Al) ((V1 & W1 & F1) & (Lm & _) & B1). split; [exact W1|]. split; [apply B1, Hb|]. split; [rewrite V1, Vw; reflexivity|lia].
  Qed.

  Lemma mst_Lok cid aid mxo al s : mst cid aid mxo al s -> Lok s ([cid; aid] ++ []).
  Proof.
    intros (W & _ & Vw & Al). split; [rewrite Vw; cbn; intros j [<-|[]]; left; reflexivity|].
    assert (Hc : In cid (lst s)) by (apply view_ids_in; rewrite Vw; left; reflexivity).
    destruct W as [_ A]. rewrite Forall_forall in A. constructor; [apply A, Hc|]. constructor; [exact Al|constructor].
  Qed.

  Lemma abandoned_mst cid aid mxo al s tr1 s1 i : mst cid aid mxo al s -> xpost s tr1 s1 i -> wf_st s1 /\ Forall isbyte (inp s1) /\ mxo <> None.
  Proof.
    intros (W & Hb & Vw & _) (X & e & Z0 & Hv & Hid & Hmx & _ & W1 & _ & _ & _ & B1). split; [exact W1|]. split; [apply B1, Hb|].
    rewrite Vw in Hv. destruct X as [|x X']; [injection Hv as <- _; exact Hmx|]. injection Hv as _ Hv. destruct X'; discriminate.
  Qed.

  (** an area of a message *)
  Lemma field_area_w R pty pa enc cid aid mxo al s (ab : M R) (k : option value -> M R) (Q : R -> list action -> st -> Prop) :
    mst cid aid mxo al s -> safe_ty pty = true -> nonunion pty = true -> bytes2b pty = true ->
    (forall a tr1 s1, cw s tr1 s1 -> rw [] (k a) s1 (fun b tr2 s2 => Q b (tr1 ++ tr2) s2)) ->
    (forall c v b tr1 s1, mxo <> None -> wf_st s1 -> Forall isbyte (inp s1) -> rw [] ab s1 (fun r tr2 s2 => Q r ((tr1 ++ [Wn (EExceeded c v b)]) ++ tr2) s2)) ->
    rw [] (try_field false [cid; aid] (dec_ty T false pty pa None enc) ab k) s Q.
  Proof.
    intros C Hs Hn Hb2 Hk Hab. pose proof C as (W & Hb & Vw & Aid).
    apply rw_try_field with (P := fun _ tr s1 => cw s tr s1).
    - apply (params_w pty pa enc s _ Hs Hn Hb2 W Hb (mst_Lok _ _ _ _ _ C)).
    - intros a tr1 s1 C1. apply Hk. exact C1.
    - intros c v b tr1 s1 _ X. destruct (abandoned_mst _ _ _ _ _ _ _ _ C X) as (W1 & B1 & Hm). apply Hab; assumption.
  Qed.

  Lemma is_param_enc_total_w mask accs : Forall (has_attr attr) accs -> is_param_enc attr mask (Some (listval accs)) <> None.
  Proof. intros H. unfold is_param_enc, listval. destruct (any_attr_total attr mask accs H) as [b Hb]. unfold unwrap in Hb. rewrite Hb. discriminate. Qed.

  (** what a completed command leaves: a well-formed state, remaining input still bytes, at least one byte read, and
      session attributes that can be evaluated *)
  Definition cmd_postw (res : cmdres) (tr : list action) (s' : st) : Prop :=
    wf_st s' /\ Forall isbyte (inp s') /\ 1 <= blen (bytes_of tr) /\ is_param_enc attr (mask_encrypt T) (cr_area res) <> None.

  Lemma cmd_params_w pa cid aid cc vl area enc total al s : is_param_enc attr (mask_encrypt T) area <> None ->
    mst cid aid (Some total) al s ->
    rw [] (cmd_params_step T false pa cid aid cc vl area enc) s (fun res _ s' => wf_st s' /\ Forall isbyte (inp s') /\ cr_area res = area).
  Proof.
    intros Ha C. unfold cmd_params_step.
    destruct (lookupZ cc (cmd_params T)) as [pty|] eqn:Lp; [|unfold bad_cc; apply rw_fail_value; discriminate].
    destruct (area_safe T Hsafe cc pty ltac:(right; left; exact Lp)) as [Hn Hs].
    apply (field_area_w _ pty _ enc cid aid (Some total) al s _ _ _ C Hs Hn (area_b2 cc pty ltac:(right; left; exact Lp))).
    - intros pv tr1 s1 C1. destruct (mst_stepw _ _ _ _ _ _ _ C C1) as (W1 & B1 & V1 & _).
      apply rw_bind_ret with (P := fun _ tr s2 => view s2 = bump (blen (bytes_of tr)) [] /\ wf_st s2 /\ frame s1 s2 /\ mxf s1 s2 /\ lst s2 = lst s1 /\
                                                   sc_obs (get_sc s2 cid) = true /\ inp s1 = bytes_of tr ++ inp s2).
      + apply (assert_done_w cid total _ [] s1 [] W1 V1 ltac:(intros [])).
      + intros _ tr2 s2 (_ & W2 & _ & _ & _ & _ & I2). cbn [cr_area]. split; [exact W2|]. split; [|reflexivity].
        rewrite I2 in B1. apply Forall_app in B1 as [_ B1]. exact B1.
    - intros c v b tr1 s1 _ W1 B1. apply rw_ret. cbn [cr_area]. split; [exact W1|]. split; [exact B1|reflexivity].
  Qed.

  Lemma rw_set_constraint L cid pa n s (Q : unit -> list action -> st -> Prop) : 0 <= n ->
    (forall tr, bytes_of tr = [] -> Q tt tr (announced cid pa n s)) -> rw L (set_constraint false cid pa n) s Q.
  Proof.
    intros Hn Hq tr s' o E. destruct (set_constraint_w cid pa n s Hn) as (trc & Ec & Hbc). rewrite Ec in E. injection E as <- <- <-.
    split; [exact Logic.I|]. split; [intros [] _; apply Hq, Hbc|discriminate].
  Qed.

  Definition cmd_corew (res : cmdres) (s' : st) : Prop :=
    wf_st s' /\ Forall isbyte (inp s') /\ is_param_enc attr (mask_encrypt T) (cr_area res) <> None.

  Theorem cmd_w pa s : wf_st s -> Forall isbyte (inp s) -> rw [] (dec_command T false pa) s cmd_postw.
  Proof.
    intros W Hb. destruct (msg_facts T Hsafe) as (Hwt & _ & Hwc & _ & Hws & Hus & _ & Hsc & _).
    unfold session_ok in Hsc. apply andb_prop in Hsc as [Hsc Hsa]. apply andb_prop in Hsc as [Hsc Hsr]. apply andb_prop in Hsc as [Hss Hsn].
    assert (Hbc : bytes2b (t_auth_cmd T) = true).
    { unfold msg_b2 in Hb2m. apply andb_prop in Hb2m as [Hl _]. apply andb_prop in Hl as [Hl _]. apply andb_prop in Hl as [_ Hl]. exact Hl. }
    unfold dec_command.
    set (cid := List.length (store s)).
    destruct (new_sc_spec s W) as (s1 & E1 & I1 & L1 & V1 & W1 & Len1 & G1 & Fr1).
    destruct (new_sc_spec s1 W1) as (s2 & E2 & I2 & L2 & V2 & W2 & Len2 & G2 & Fr2).
    set (aid := List.length (store s1)) in *.
    assert (Haid : aid = S cid) by (unfold aid, cid; exact Len1).
    assert (Ncid : ~ In cid (lst s1)).
    { rewrite L1. intros Hx. destruct W as [_ AL]. rewrite Forall_forall in AL. specialize (AL _ Hx). unfold cid in AL. lia. }
    assert (Gc2 : get_sc s2 cid = sc_new).
    { destruct Fr2 as [_ Hf]. destruct (Hf cid ltac:(lia) Ncid) as [Hg _]. rewrite Hg. exact G1. }
    set (s3 := mkSt (inp s2) (store s2) [cid]).
    assert (C3 : cst cid aid None 0 s3).
    { split; [split; cbn [s3 lst store]; [constructor; [intros []|constructor]|constructor; [lia|constructor]]|].
      split; [cbn [s3 inp]; rewrite I2, I1; exact Hb|]. split.
      - unfold view. cbn [s3 lst filter]. unfold live. change (get_sc s3 cid) with (get_sc s2 cid). rewrite Gc2. cbn [sc_obs sc_new negb map].
        unfold entry_of. change (get_sc s3 cid) with (get_sc s2 cid). rewrite Gc2. reflexivity.
      - split; [cbn [s3 store]; lia|]. split; [cbn [s3 lst]; intros [Hx|[]]; lia|]. exact G2. }
    apply rw0_bind with (P := fun a tr s' => a = cid /\ tr = [] /\ s' = s1); [apply (rw_silent _ _ _ _ _ _ _ E1); repeat split|].
    intros cid' tr1 s1' (-> & -> & ->).
    apply rw0_bind with (P := fun a tr s' => a = aid /\ tr = [] /\ s' = s2); [apply (rw_silent _ _ _ _ _ _ _ E2); repeat split|].
    intros aid' tr2 s2' (-> & -> & ->).
    apply rw0_bind with (P := fun _ tr s' => tr = [] /\ s' = s3); [apply (rw_silent _ _ (set_lst [cid]) s2 _ s3 tt eq_refl); split; reflexivity|].
    intros _ tr3 s3' (-> & ->).
    apply rw0_bind with (P := fun _ tr s' => tr = [sev pa (TyN "Command")] /\ s' = s3); [apply rw_emit; split; reflexivity|].
    intros _ tr4 s4' (-> & ->). cbv zeta. cbn [app].
    (* tag: its region has no limit yet, so it cannot be abandoned *)
    apply (field_prim_w _ (p_cmd_tag T) _ cid aid None 0 s3 _ _ _ C3 ltac:(lia)); [|intros c v b tr1 s1' Hm; exfalso; apply Hm; reflexivity].
    intros tagz tr5 s5 C5 Hl5 _.
    (* from here on only the final state matters: at least the tag has been read *)
    apply rw_weaken with (P := fun res _ s' => cmd_corew res s').
    { cbv beta. intros res tr s' (Wf & Bf & Hx). split; [exact Wf|]. split; [exact Bf|]. split; [|exact Hx].
      unfold sev. cbn [app bytes_of]. rewrite ?bytes_of_app. unfold blen in *. rewrite ?app_length. lia. }
    (* commandSize *)
    apply (field_prim_w _ (p_size32 T) _ cid aid None (0 + pwidth (p_cmd_tag T)) s5 _ _ _ C5 Hws); [|intros c v b tr1 s1' Hm; exfalso; apply Hm; reflexivity].
    intros total tr6 s6 C6 Hl6 Htot. specialize (Htot Hus). cbn [as_int].
    pose proof C6 as (W6 & B6 & V6 & A6).
    destruct (view_entry s6 cid None _ ltac:(rewrite V6; left; reflexivity)) as (_ & _ & Hin6).
    assert (Hc6 : (cid < List.length (store s6))%nat) by (destruct W6 as [_ AL]; rewrite Forall_forall in AL; apply AL, Hin6).
    apply rw0_bind with (P := fun _ _ s' => s' = announced cid (pchild pa "commandSize") total s6); [apply rw_set_constraint; [exact Htot|reflexivity]|].
    intros _ tr7 s7 ->.
    destruct (announced_facts cid (pchild pa "commandSize") total s6 W6 Hc6) as (V7 & W7 & Len7 & G7 & G7' & _).
    set (s7 := announced cid (pchild pa "commandSize") total s6) in *.
    assert (C7 : cst cid aid (Some total) (0 + pwidth (p_cmd_tag T) + pwidth (p_size32 T)) s7).
    { split; [exact W7|]. split; [exact B6|]. split; [rewrite V7, V6; cbn [map set_entry]; rewrite Nat.eqb_refl; reflexivity|].
      destruct A6 as (Al & An & Ag). split; [cbn [s7 announced store]; rewrite upd_length; exact Al|]. split; [exact An|]. rewrite G7' by lia. exact Ag. }
    (* commandCode *)
    apply (field_prim_w _ (p_cc T) _ cid aid (Some total) (0 + pwidth (p_cmd_tag T) + pwidth (p_size32 T)) s7 _ _ _ C7 Hwc).
    2:{ intros c v b tr1 s1' _ W1' B1'. apply rw_ret. split; [exact W1'|]. split; [exact B1'|]. cbn [cr_area is_param_enc]. discriminate. }
    intros cc tr8 s8 C8 Hl8 _. cbn [as_int].
    destruct (lookupZ cc (cmd_handles T)) as [hty|] eqn:Lh; [|unfold bad_cc; apply rw_fail_value; discriminate].
    destruct (area_safe T Hsafe cc hty ltac:(left; exact Lh)) as [Hhn Hhs].
    (* handles *)
    apply (field_area_w _ hty _ false cid aid (Some total) (0 + pwidth (p_cmd_tag T) + pwidth (p_size32 T) + pwidth (p_cc T)) s8 _ _ _ (cst_mst _ _ _ _ _ C8) Hhs Hhn (area_b2 cc hty ltac:(left; exact Lh))).
    2:{ intros c v b tr1 s1' _ W1' B1'. apply rw_ret. split; [exact W1'|]. split; [exact B1'|]. cbn [cr_area is_param_enc]. discriminate. }
    intros hv tr9 s9 Cw9. pose proof (cst_stepw _ _ _ _ _ _ _ C8 Cw9) as C9.
    destruct (tagz =? st_sessions T).
    - (* authSize, the session area, the parameters *)
      apply (field_prim_w _ (p_size32 T) _ cid aid (Some total) (0 + pwidth (p_cmd_tag T) + pwidth (p_size32 T) + pwidth (p_cc T) + blen (bytes_of tr9)) s9 _ _ _ C9 Hws).
      2:{ intros c v b tr1 s1' _ W1' B1'. apply rw_ret. split; [exact W1'|]. split; [exact B1'|]. cbn [cr_area is_param_enc]. discriminate. }
      intros asz tr10 s10 C10 Hl10 Hasz. specialize (Hasz Hus). cbv zeta. cbn [as_int].
      destruct C10 as (W10 & B10 & V10 & (Al10 & An10 & Ag10)).
      apply rw0_bind with (P := fun _ _ s' => s' = announced aid (pchild pa "authSize") asz s10); [apply rw_set_constraint; [exact Hasz|reflexivity]|].
      intros _ tr11 s11 ->.
      destruct (announced_facts aid (pchild pa "authSize") asz s10 W10 Al10) as (V11 & W11 & Len11 & G11 & G11' & _).
      set (s11 := announced aid (pchild pa "authSize") asz s10) in *.
      assert (Hne : cid <> aid) by lia.
      assert (V11' : view s11 = view s10).
      { rewrite V11, V10. cbn [map set_entry]. replace (Nat.eqb cid aid) with false by (symmetry; apply Nat.eqb_neq; exact Hne). reflexivity. }
      destruct (append_facts aid s11 W11 ltac:(exact An10) ltac:(cbn [s11 announced store]; rewrite upd_length; exact Al10) ltac:(rewrite G11, Ag10; reflexivity)) as (V12 & W12 & _).
      set (s12 := mkSt (inp s11) (store s11) (lst s11 ++ [aid])) in *.
      apply rw0_bind with (P := fun _ tr s' => tr = [] /\ s' = s12); [apply (rw_silent _ _ (append_lst aid) s11 _ s12 tt eq_refl); split; reflexivity|].
      intros _ tr12 s12' (-> & ->).
      assert (L12 : linv aid asz (view s10) 0 s12).
      { split; [exact W12|]. split; [exact B10|]. split; [rewrite V12, V11'; unfold entry_of; rewrite G11, Ag10; reflexivity|].
        rewrite V10. cbn. intros [Hx|[]]. apply Hne. exact Hx. }
      assert (Hcs12 : (cid < List.length (store s12))%nat).
      { assert (Hc : In cid (lst s10)) by (apply view_ids_in; rewrite V10; left; reflexivity).
        destruct W10 as [_ A]. rewrite Forall_forall in A. cbn [s12 s11 announced store]. rewrite upd_length. apply A, Hc. }
      apply rw_try_field with (P := fun a tr s13 => view s13 = bump (blen (bytes_of tr)) (view s10) /\ wf_st s13 /\ frame s12 s13 /\ mxf s12 s13 /\
                                       (Forall isbyte (inp s12) -> Forall isbyte (inp s13)) /\ sc_obs (get_sc s13 aid) = true /\
                                       (a = None \/ exists accs, a = Some (listval accs) /\ Forall (has_attr attr) accs)).
      + apply rw_incl with (L := [cid]); [intros j [<-|[]]; left; reflexivity|].
        apply (sized_w T (t_auth_cmd T) attr Hss Hbc Hsn Hsr Hsa aid asz (pchild pa "authorizationArea") _ s12 (view s10) 0 [cid] L12).
        * rewrite V10. cbn. intros j [<-|[]]. left. reflexivity.
        * constructor; [exact Hcs12|constructor].
        * intros [Hx|[]]. apply Hne. exact Hx.
      + intros area tr13 s13 (V13 & W13 & _ & (Lm13 & _) & B13 & _ & Harea). cbv zeta.
        assert (Henc_ok : forall mask, is_param_enc attr mask area <> None).
        { intros mask. destruct Harea as [->|(accs & -> & Hacc)]; [cbn [is_param_enc]; discriminate|apply is_param_enc_total_w, Hacc]. }
        destruct (is_param_enc (sess_attr_field T) (mask_decrypt T) area) as [enc|] eqn:Ed; [|exfalso; apply (Henc_ok (mask_decrypt T) Ed)].
        eapply rw_weaken; [|eapply (cmd_params_w pa cid aid cc _ area enc total); [apply Henc_ok|]].
        * cbv beta. intros res tr s' (Wf & Bf & Har). split; [exact Wf|]. split; [exact Bf|]. rewrite Har. apply Henc_ok.
        * split; [exact W13|]. split; [apply B13, B10|]. split; [rewrite V13, V10; cbn [bump map bump_entry]; reflexivity|].
          cbn [s12 s11 announced store] in Lm13. rewrite upd_length in Lm13. lia.
      + intros c v b tr1 s1' _ (X & e0 & Z0 & _ & _ & _ & _ & W1' & _ & _ & _ & B1'). apply rw_ret.
        split; [exact W1'|]. split; [apply B1', B10|]. cbn [cr_area is_param_enc]. discriminate.
    - eapply rw_weaken; [|eapply (cmd_params_w pa cid aid cc _ None false total); [discriminate|apply (cst_mst _ _ _ _ _ C9)]].
      cbv beta. intros res tr s' (Wf & Bf & Har). split; [exact Wf|]. split; [exact Bf|]. rewrite Har. discriminate.
  Qed.

  (** ---- responses *)
  Definition rsp_corew (s' : st) : Prop := wf_st s' /\ Forall isbyte (inp s').

  Lemma rsp_finish_open_w rid v total al s : wf_st s -> Forall isbyte (inp s) -> view s = [(rid, Some total, al)] ->
    rw [] (rsp_finish false rid v) s (fun _ _ s' => rsp_corew s').
  Proof.
    intros W Hb Vw. unfold rsp_finish.
    apply rw0_bind with (P := fun _ tr s2 => view s2 = [] /\ wf_st s2 /\ Forall isbyte (inp s2)).
    - eapply rw_weaken; [|apply (assert_done_w rid total al [] s [] W Vw ltac:(intros []))].
      cbv beta. intros _ tr s2 (V2 & W2 & _ & _ & _ & _ & I2). split; [exact V2|]. split; [exact W2|].
      rewrite I2 in Hb. apply Forall_app in Hb as [_ Hb]. exact Hb.
    - intros _ tr2 s2 (V2 & W2 & B2).
      apply rw0_bind with (P := fun _ tr s3 => s3 = s2); [apply (rw_silent _ _ _ _ _ _ _ (list_assert_done_ok s2 V2)); reflexivity|].
      intros _ tr3 s3 ->. apply rw_ret. split; assumption.
  Qed.

  Lemma rsp_finish_closed_w rid v total s : wf_st s -> Forall isbyte (inp s) -> view s = [] ->
    sc_obs (get_sc s rid) = true -> sc_max (get_sc s rid) = Some total ->
    rw [] (rsp_finish false rid v) s (fun _ _ s' => rsp_corew s').
  Proof.
    intros W Hb Vw Ho Hm. unfold rsp_finish.
    apply rw0_bind with (P := fun _ tr s2 => s2 = s); [apply (rw_silent _ _ _ _ _ _ _ (assert_done_obsolete false rid total s Hm Ho)); reflexivity|].
    intros _ tr2 s2 ->.
    apply rw0_bind with (P := fun _ tr s3 => s3 = s); [apply (rw_silent _ _ _ _ _ _ _ (list_assert_done_ok s Vw)); reflexivity|].
    intros _ tr3 s3 ->. apply rw_ret. split; assumption.
  Qed.

  Lemma rw_rsp_no_cc A L pa n cc s (Q : A -> list action -> st -> Prop) : rw L (@rsp_no_cc T A pa n cc) s Q.
  Proof. unfold rsp_no_cc. destruct cc; apply rw_fail_value; discriminate. Qed.

  (** parameters (in their announced region when [have_psize]), sessions, end of the response *)
  Lemma rsp_rest_w pa rid pid cc enc sessions v (have_psize : bool) total al psz s : rid <> pid -> (pid < List.length (store s))%nat ->
    wf_st s -> Forall isbyte (inp s) ->
    view s = (if have_psize then [(rid, Some total, al); (pid, Some psz, 0)] else [(rid, Some total, al)]) ->
    rw [] (rsp_rest T false pa rid pid cc enc sessions v have_psize) s (fun _ _ s' => rsp_corew s').
  Proof.
    intros Hne Hpa W Hb Vw. destruct (msg_facts T Hsafe) as (_ & _ & _ & _ & _ & _ & _ & _ & Hsr & _).
    unfold session_ok in Hsr. apply andb_prop in Hsr as [Hsr Hsa]. apply andb_prop in Hsr as [Hsr Hsro]. apply andb_prop in Hsr as [Hss Hsn].
    assert (Hbr : bytes2b (t_auth_rsp T) = true).
    { unfold msg_b2 in Hb2m. apply andb_prop in Hb2m as [Hl _]. apply andb_prop in Hl as [_ Hl]. exact Hl. }
    unfold rsp_rest.
    destruct (match cc with Some c => lookupZ c (rsp_params T) | None => None end) as [pty|] eqn:Lp; [|apply rw_rsp_no_cc].
    destruct cc as [c|]; [|discriminate].
    destruct (area_safe T Hsafe c pty ltac:(right; right; right; exact Lp)) as [Hn Hs].
    assert (Hrid : (rid < List.length (store s))%nat).
    { assert (Hc : In rid (lst s)) by (apply view_ids_in; rewrite Vw; destruct have_psize; left; reflexivity).
      destruct W as [_ A]. rewrite Forall_forall in A. apply A, Hc. }
    assert (K : Lok s ([rid; pid] ++ [])).
    { split; [rewrite Vw; destruct have_psize; cbn; intros j Hj; [destruct Hj as [<-|[<-|[]]]; [left|right; left]; reflexivity|destruct Hj as [<-|[]]; left; reflexivity]|].
      constructor; [exact Hrid|]. constructor; [exact Hpa|constructor]. }
    apply rw_try_field with (P := fun _ tr s1 => cw s tr s1).
    - apply (params_w pty _ enc s _ Hs Hn (area_b2 c pty ltac:(right; right; right; exact Lp)) W Hb K).
    - intros pv tr1 s1 C1. pose proof C1 as ((V1 & W1 & _) & (Lm1 & Mx1) & B1). apply B1 in Hb as B1'. cbv zeta.
      (* close the parameter region if there is one *)
      apply rw0_bind with (P := fun _ tr s2 => wf_st s2 /\ Forall isbyte (inp s2) /\ (exists al2, view s2 = [(rid, Some total, al2)]) /\ (List.length (store s) <= List.length (store s2))%nat).
      { destruct have_psize.
        - rewrite Vw in V1. cbn [bump map bump_entry] in V1.
          eapply rw_weaken; [|apply (assert_done_w pid psz _ [(rid, Some total, al + blen (bytes_of tr1))] s1 [] W1 V1 ltac:(cbn; intros [Hx|[]]; apply Hne; exact Hx))].
          cbv beta. intros _ tr s2 (V2 & W2 & _ & (Lm2 & _) & _ & _ & I2). split; [exact W2|]. split; [rewrite I2 in B1'; apply Forall_app in B1' as [_ Hx]; exact Hx|].
          split; [eexists; rewrite V2; cbn [bump map bump_entry]; reflexivity|lia].
        - apply rw_ret. split; [exact W1|]. split; [exact B1'|]. split; [rewrite V1, Vw; cbn [bump map bump_entry]; eexists; reflexivity|lia]. }
      intros _ tr2 s2 (W2 & B2 & (al2 & V2) & Len2).
      destruct sessions.
      + assert (L2 : linv rid total [] al2 s2) by (split; [exact W2|]; split; [exact B2|]; split; [exact V2|intros []]).
        destruct (view_entry s2 rid (Some total) al2 ltac:(rewrite V2; left; reflexivity)) as (Hm2 & _ & Hin2).
        assert (Hrid2 : (rid < List.length (store s2))%nat) by (destruct W2 as [_ A]; rewrite Forall_forall in A; apply A, Hin2).
        apply rw_try_field with (P := fun a tr s3 => view s3 = [] /\ wf_st s3 /\ Forall isbyte (inp s3) /\ sc_obs (get_sc s3 rid) = true /\ sc_max (get_sc s3 rid) = Some total /\
                                                     (a = None \/ exists accs, a = Some (listval accs) /\ Forall (has_attr attr) accs)).
        * apply rw_incl with (L := []); [intros j []|].
          eapply rw_weaken; [|apply (sized_w T (t_auth_rsp T) attr Hss Hbr Hsn Hsro Hsa rid total (pchild pa "authorizationArea") _ s2 [] al2 [] L2 ltac:(intros j []) ltac:(constructor) ltac:(intros []))].
          cbv beta. intros a tr s3 (V3 & W3 & _ & (_ & Mx3) & B3 & Ob3 & Ha). split; [exact V3|]. split; [exact W3|]. split; [apply B3, B2|]. split; [exact Ob3|].
          split; [rewrite (Mx3 rid Hrid2); exact Hm2|exact Ha].
        * intros area tr3 s3 (V3 & W3 & B3 & Ob3 & Mx3 & Harea).
          assert (Henc_ok : is_param_enc attr (mask_encrypt T) area <> None).
          { destruct Harea as [->|(accs & -> & Hacc)]; [cbn [is_param_enc]; discriminate|apply is_param_enc_total_w, Hacc]. }
          destruct (is_param_enc (sess_attr_field T) (mask_encrypt T) area) as [e|] eqn:Ee; [|exfalso; apply (Henc_ok Ee)].
          apply rw0_bind with (P := fun _ tr s4 => s4 = s3).
          { destruct (Bool.eqb e enc); [apply rw_ret; reflexivity|apply rw_emit; reflexivity]. }
          intros _ tr4 s4 ->. apply (rsp_finish_closed_w rid _ total s3 W3 B3 V3 Ob3 Mx3).
        * intros c0 v0 b0 tr0 s0 _ (X & e0 & Z0 & _ & _ & _ & _ & W0 & _ & _ & _ & B0). apply rw_ret. split; [exact W0|apply B0, B2].
      + apply (rsp_finish_open_w rid _ total al2 s2 W2 B2 V2).
    - intros c0 v0 b0 tr0 s0 _ (X & e0 & Z0 & _ & _ & _ & _ & W0 & _ & _ & _ & B0). apply rw_ret. split; [exact W0|apply B0, Hb].
  Qed.

  Theorem rsp_w pa cc enc s : wf_st s -> Forall isbyte (inp s) ->
    rw [] (dec_response T false pa cc enc) s (fun _ _ s' => rsp_corew s').
  Proof.
    intros W Hb. destruct (msg_facts T Hsafe) as (_ & Hwt & _ & Hwc & Hws & Hus & _).
    unfold dec_response.
    set (rid := List.length (store s)).
    destruct (new_sc_spec s W) as (s1 & E1 & I1 & L1 & V1 & W1 & Len1 & G1 & Fr1).
    destruct (new_sc_spec s1 W1) as (s2 & E2 & I2 & L2 & V2 & W2 & Len2 & G2 & Fr2).
    set (pid := List.length (store s1)) in *.
    assert (Hpid : pid = S rid) by (unfold pid, rid; exact Len1).
    assert (Nrid : ~ In rid (lst s1)).
    { rewrite L1. intros Hx. destruct W as [_ AL]. rewrite Forall_forall in AL. specialize (AL _ Hx). unfold rid in AL. lia. }
    assert (Gc2 : get_sc s2 rid = sc_new).
    { destruct Fr2 as [_ Hf]. destruct (Hf rid ltac:(lia) Nrid) as [Hg _]. rewrite Hg. exact G1. }
    set (s3 := mkSt (inp s2) (store s2) [rid]).
    assert (C3 : cst rid pid None 0 s3).
    { split; [split; cbn [s3 lst store]; [constructor; [intros []|constructor]|constructor; [lia|constructor]]|].
      split; [cbn [s3 inp]; rewrite I2, I1; exact Hb|]. split.
      - unfold view. cbn [s3 lst filter]. unfold live. change (get_sc s3 rid) with (get_sc s2 rid). rewrite Gc2. cbn [sc_obs sc_new negb map].
        unfold entry_of. change (get_sc s3 rid) with (get_sc s2 rid). rewrite Gc2. reflexivity.
      - split; [cbn [s3 store]; lia|]. split; [cbn [s3 lst]; intros [Hx|[]]; lia|]. exact G2. }
    apply rw0_bind with (P := fun a tr s' => a = rid /\ tr = [] /\ s' = s1); [apply (rw_silent _ _ _ _ _ _ _ E1); repeat split|].
    intros rid' tr1 s1' (-> & -> & ->).
    apply rw0_bind with (P := fun a tr s' => a = pid /\ tr = [] /\ s' = s2); [apply (rw_silent _ _ _ _ _ _ _ E2); repeat split|].
    intros pid' tr2 s2' (-> & -> & ->).
    apply rw0_bind with (P := fun _ tr s' => tr = [] /\ s' = s3); [apply (rw_silent _ _ (set_lst [rid]) s2 _ s3 tt eq_refl); split; reflexivity|].
    intros _ tr3 s3' (-> & ->).
    apply rw0_bind with (P := fun _ tr s' => s' = s3); [apply rw_emit; reflexivity|].
    intros _ tr4 s4' ->. cbv zeta.
    (* tag *)
    apply (field_prim_w _ (p_rsp_tag T) _ rid pid None 0 s3 _ _ _ C3 Hwt); [|intros c v b tr1 s1' Hm; exfalso; apply Hm; reflexivity].
    intros tagz tr5 s5 C5 Hl5 _.
    (* responseSize *)
    apply (field_prim_w _ (p_size32 T) _ rid pid None (0 + pwidth (p_rsp_tag T)) s5 _ _ _ C5 Hws); [|intros c v b tr1 s1' Hm; exfalso; apply Hm; reflexivity].
    intros total tr6 s6 C6 Hl6 Htot. specialize (Htot Hus). cbn [as_int].
    pose proof C6 as (W6 & B6 & V6 & A6).
    destruct (view_entry s6 rid None _ ltac:(rewrite V6; left; reflexivity)) as (_ & _ & Hin6).
    assert (Hc6 : (rid < List.length (store s6))%nat) by (destruct W6 as [_ AL]; rewrite Forall_forall in AL; apply AL, Hin6).
    apply rw0_bind with (P := fun _ _ s' => s' = announced rid (pchild pa "responseSize") total s6); [apply rw_set_constraint; [exact Htot|reflexivity]|].
    intros _ tr7 s7 ->.
    destruct (announced_facts rid (pchild pa "responseSize") total s6 W6 Hc6) as (V7 & W7 & Len7 & G7 & G7' & _).
    set (s7 := announced rid (pchild pa "responseSize") total s6) in *.
    assert (C7 : cst rid pid (Some total) (0 + pwidth (p_rsp_tag T) + pwidth (p_size32 T)) s7).
    { split; [exact W7|]. split; [exact B6|]. split; [rewrite V7, V6; cbn [map set_entry]; rewrite Nat.eqb_refl; reflexivity|].
      destruct A6 as (Al & An & Ag). split; [cbn [s7 announced store]; rewrite upd_length; exact Al|]. split; [exact An|]. rewrite G7' by lia. exact Ag. }
    (* responseCode *)
    apply (field_prim_w _ (p_rc T) _ rid pid (Some total) (0 + pwidth (p_rsp_tag T) + pwidth (p_size32 T)) s7 _ _ _ C7 Hwc).
    2:{ intros c v b tr1 s1' _ W1' B1'. apply rw_ret. split; assumption. }
    intros rc tr8 s8 C8 Hl8 _. cbn [as_int]. pose proof C8 as (W8 & B8 & V8 & A8).
    destruct (negb (rc =? rc_success T)).
    { apply (rsp_finish_open_w rid _ total _ s8 W8 B8 V8). }
    destruct (match cc with Some c => lookupZ c (rsp_handles T) | None => None end) as [hty|] eqn:Lh; [|apply rw_rsp_no_cc].
    destruct cc as [c|]; [|discriminate].
    destruct (area_safe T Hsafe c hty ltac:(right; right; left; exact Lh)) as [Hhn Hhs].
    assert (Hne : rid <> pid) by lia.
    apply (field_area_w _ hty _ enc rid pid (Some total) _ s8 _ _ _ (cst_mst _ _ _ _ _ C8) Hhs Hhn (area_b2 c hty ltac:(right; right; left; exact Lh))).
    2:{ intros c0 v b tr1 s1' _ W1' B1'. apply rw_ret. split; assumption. }
    intros hv tr9 s9 Cw9. pose proof (cst_stepw _ _ _ _ _ _ _ C8 Cw9) as C9. cbv zeta.
    destruct (tagz =? st_sessions T).
    - eapply (field_prim_w _ (p_size32 T) _ rid pid (Some total) _ s9 _ _ _ C9 Hws).
      2:{ intros c0 v b tr1 s1' _ W1' B1'. apply rw_ret. split; assumption. }
      intros psz tr10 s10 C10 Hl10 Hpsz. specialize (Hpsz Hus). cbn [as_int].
      destruct C10 as (W10 & B10 & V10 & (Al10 & An10 & Ag10)).
      apply rw0_bind with (P := fun _ _ s' => s' = announced pid (pchild pa "parameterSize") psz s10); [apply rw_set_constraint; [exact Hpsz|reflexivity]|].
      intros _ tr11 s11 ->.
      destruct (announced_facts pid (pchild pa "parameterSize") psz s10 W10 Al10) as (V11 & W11 & Len11 & G11 & G11' & _).
      set (s11 := announced pid (pchild pa "parameterSize") psz s10) in *.
      assert (V11' : view s11 = view s10).
      { rewrite V11, V10. cbn [map set_entry]. replace (Nat.eqb rid pid) with false by (symmetry; apply Nat.eqb_neq; exact Hne). reflexivity. }
      destruct (append_facts pid s11 W11 ltac:(exact An10) ltac:(cbn [s11 announced store]; rewrite upd_length; exact Al10) ltac:(rewrite G11, Ag10; reflexivity)) as (V12 & W12 & _).
      set (s12 := mkSt (inp s11) (store s11) (lst s11 ++ [pid])) in *.
      apply rw0_bind with (P := fun _ tr s' => tr = [] /\ s' = s12); [apply (rw_silent _ _ (append_lst pid) s11 _ s12 tt eq_refl); split; reflexivity|].
      intros _ tr12 s12' (-> & ->).
      eapply (rsp_rest_w pa rid pid (Some c) enc true _ true total _ psz s12 Hne ltac:(cbn [s12 s11 announced store]; rewrite upd_length; exact Al10) W12 B10).
      rewrite V12, V11', V10. unfold entry_of. rewrite G11, Ag10. reflexivity.
    - destruct C9 as (W9 & B9 & V9 & (Al9 & _)).
      eapply (rsp_rest_w pa rid pid (Some c) enc false _ false total _ 0 s9 Hne Al9 W9 B9 V9).
  Qed.
End MsgW.
