(** C08: tiling in the presence of size problems.  Every run of every decoder function, in either mode, on any
    input, has a trace made of blocks: a structure event; the [w] bytes of a primitive followed by its event, whose
    value is the big-endian reading of exactly those bytes; a warning that carries no bytes (out-of-range value,
    anticipated size, encryption mismatch); an OVERRUN - the skipped rest of the violated region, exactly
    limit - counted bytes, followed by its Exceeded warning; a SHORTFALL - the Subceeded warning followed by the skipped
    padding, exactly limit - counted bytes.  A run that stops for lack of input, or that raises Exceeded to its caller,
    ends with one incomplete block.  With byte accounting (input = bytes of the trace ++ unread rest) this says: every
    input byte is shown in a field, skipped as the reported tail of a region, or left as surplus; and after a reported
    overrun or shortfall decoding resumes exactly at the end the violated size field declares. *)
From Coq Require Import ZArith List String Bool Lia.
From TV Require Import Layout.Types Base.Bytes Model.Monad Model.Constraints Model.Ints Model.Decoder Model.Message
  Model.Pump Proofs.Closure Proofs.LowClosure Proofs.Account Proofs.OpLemmas Proofs.Tiling Proofs.PumpProofs Proofs.Sim11 Proofs.Safe1 Proofs.Warn1.
Import ListNotations.
Open Scope list_scope.
Open Scope Z_scope.

Definition nobytes_warning (e : err) : Prop :=
  match e with EValue _ _ _ _ | EAnticipated _ _ _ _ | EEncMismatch _ _ _ => True | _ => False end.

(** the bytes between the counted ones and the declared end of region [c] *)
Definition tail_of (c : scinfo) (bs : list Z) : Prop :=
  exists mx, si_max c = Some mx /\ List.length bs = Z.to_nat (mx - si_already c).

Inductive wt : list action -> Prop :=
| w_nil : wt []
| w_struct pa t tr : wt tr -> wt (Ev (mkEvent pa t None) :: tr)
| w_prim p pa bs tr : List.length bs = Z.to_nat (pwidth p) -> wt tr ->
    wt (map Rd bs ++ Ev (mkEvent pa (TyN (pname p)) (Some (from_bytes (psigned p) bs))) :: tr)
| w_note e tr : nobytes_warning e -> wt tr -> wt (Wn e :: tr)
| w_over bs c v b tr : tail_of c bs -> wt tr -> wt (map Rd bs ++ Wn (EExceeded c v b) :: tr)
| w_short bs c tr : tail_of c bs -> wt tr -> wt (Wn (ESubceeded c) :: map Rd bs ++ tr).

Lemma wt_app a b : wt a -> wt b -> wt (a ++ b).
Proof.
  induction 1 as [|pa t tr H IH|p pa bs tr L H IH|e tr He H IH|bs c v b0 tr Ht H IH|bs c tr Ht H IH]; intros Hb; cbn [app].
  - exact Hb.
  - constructor. apply IH, Hb.
  - rewrite <- app_assoc. cbn [app]. constructor; [exact L|]. apply IH, Hb.
  - constructor; [exact He|]. apply IH, Hb.
  - rewrite <- app_assoc. cbn [app]. constructor; [exact Ht|]. apply IH, Hb.
  - rewrite <- app_assoc. constructor; [exact Ht|]. apply IH, Hb.
Qed.

(** an incomplete last block: some bytes of a field or of a skipped tail, possibly after the Subceeded warning *)
Definition partial (tr : list action) : Prop :=
  exists pre mid bs, tr = pre ++ mid ++ map Rd bs /\ wt pre /\ (mid = [] \/ exists c, mid = [Wn (ESubceeded c)]).

Definition wtiles {A} (m : M A) : Prop :=
  forall s tr s' o, m s = (tr, s', o) ->
    match o with
    | Ok _ => wt tr
    | Fail (EExceeded c v b) => exists pre bs, tr = pre ++ map Rd bs /\ wt pre /\ tail_of c bs
    | _ => partial tr
    end.

Lemma partial_nil : partial [].
Proof. exists [], [], []. split; [reflexivity|]. split; [constructor|left; reflexivity]. Qed.

Lemma partial_pre a tr : wt a -> partial tr -> partial (a ++ tr).
Proof. intros Ha (pre & mid & bs & -> & Hp & Hmid). exists (a ++ pre), mid, bs. rewrite app_assoc. split; [reflexivity|]. split; [apply wt_app; assumption|exact Hmid]. Qed.

Lemma wti_quiet A (m : M A) : (forall s tr s' o, m s = (tr, s', o) -> tr = [] /\ o <> More /\ forall c v b, o <> Fail (EExceeded c v b)) -> wtiles m.
Proof.
  intros Hm s tr s' o H. destruct (Hm _ _ _ _ H) as (-> & Hn & Hx). destruct o as [a|e| |k|]; try apply partial_nil; [constructor|].
  destruct e; try apply partial_nil. exfalso. eapply Hx. reflexivity.
Qed.

Lemma wti_bind A B (m : M A) (f : A -> M B) : wtiles m -> (forall a, wtiles (f a)) -> wtiles (bind m f).
Proof.
  intros Hm Hf s tr s' o H. destruct (bind_inv' _ _ _ _ _ _ _ _ H) as (tr1 & s1 & o1 & E1 & R). pose proof (Hm _ _ _ _ E1) as H1.
  destruct o1 as [a|e| |k|].
  - destruct R as (tr2 & E2 & ->). pose proof (Hf a _ _ _ _ E2) as H2.
    destruct o as [b|e| |k|]; try (apply partial_pre; assumption).
    + apply wt_app; assumption.
    + destruct e; try (apply partial_pre; assumption). destruct H2 as (pre & bs & -> & Hp & Ht). exists (tr1 ++ pre), bs. rewrite app_assoc. split; [reflexivity|]. split; [apply wt_app; assumption|exact Ht].
  - destruct R as (-> & -> & ->). exact H1.
  - destruct R as (-> & -> & ->). exact H1.
  - destruct R as (-> & -> & ->). exact H1.
  - destruct R as (-> & -> & ->). exact H1.
Qed.

Lemma wti_dec_prim abort p pa : wtiles (dec_prim abort p pa).
Proof.
  intros s tr s' o H. unfold dec_prim in H.
  destruct (bind_inv' _ _ _ _ _ _ _ _ H) as (tr1 & s1 & o1 & E1 & R1). pose proof (bytes_parsed_outcome _ _ _ _ _ _ E1) as Ho1.
  destruct o1 as [u|e| |k|]; try contradiction.
  - destruct Ho1 as [-> _]. destruct R1 as (tr2 & E2 & ->). cbn [app].
    destruct (bind_inv' _ _ _ _ _ _ _ _ E2) as (tr3 & s3 & o3 & E3 & R3).
    destruct (readn_w _ _ _ _ _ E3) as (_ & _ & _ & [(bs & -> & -> & Lb)| ->]).
    + destruct R3 as (tr4 & E4 & ->). cbv zeta in E4. destruct (valid p _).
      * unfold bind, emit, ret in E4. injection E4 as <- _ <-. apply w_prim; [exact Lb|constructor].
      * destruct abort; [unfold fail in E4; injection E4 as <- _ <-; exists [], [], bs; rewrite app_nil_r; split; [reflexivity|split; [constructor|left; reflexivity]]|].
        unfold bind, emit, ret in E4. injection E4 as <- _ <-. apply w_prim; [exact Lb|]. apply w_note; [exact Logic.I|constructor].
    + destruct R3 as (-> & _ & ->). destruct (readn_w _ _ _ _ _ E3) as (_ & _ & Hi & _).
      (* the bytes read so far *)
      assert (Hr : exists bs, tr3 = map Rd bs).
      { clear - E3. revert s1 tr3 s3 E3. generalize (Z.to_nat (pwidth p)). induction n as [|n IH]; intros s1 tr3 s3 E3; cbn [readn] in E3; [discriminate|].
        destruct (bind_inv' _ _ _ _ _ _ _ _ E3) as (t1 & x1 & o1 & X1 & R1). unfold read1 in X1. destruct (inp s1) as [|b0 r].
        - injection X1 as <- <- <-. destruct R1 as (_ & _ & ->). exists []. reflexivity.
        - injection X1 as <- <- <-. destruct R1 as (t2 & E2 & ->). destruct (bind_inv' _ _ _ _ _ _ _ _ E2) as (t3 & x3 & o3 & X3 & R3).
          destruct o3 as [bs|e| |k|]; try (destruct R3 as (R3 & _); discriminate).
          + destruct R3 as (t4 & E4 & _). discriminate.
          + destruct R3 as (_ & _ & ->). destruct (IH _ _ _ X3) as (bs & ->). exists (b0 :: bs). reflexivity. }
      destruct Hr as (bs & ->). exists [], [], bs. split; [reflexivity|]. split; [constructor|left; reflexivity].
  - destruct R1 as (-> & -> & ->). destruct Ho1 as (ci & by_ & mx & -> & Hmx & _ & _ & Hlen).
    exists [], (bytes_of tr1). split; [|split; [constructor|exists mx; split; [exact Hmx|exact Hlen]]].
    (* the trace of a failing size check consists of the skipped bytes only *)
    cbn [app]. clear - E1. unfold bytes_parsed in E1.
    destruct (bind_inv' _ _ _ _ _ _ _ _ E1) as (t0 & s0 & o0 & X0 & R0). destruct (silent_purge _ _ _ _ X0) as (-> & _ & u0 & ->). destruct R0 as (tr0 & E & ->).
    rewrite Sim7.bind_get in E. destruct (find_violated _ _ _ _) as [[[[before i] by0] after]|].
    + destruct (bind_inv' _ _ _ _ _ _ _ _ E) as (t1 & x1 & o1 & X1 & R1). destruct (silent_bump_all _ _ _ _ _ _ X1) as (-> & _ & u1 & ->). destruct R1 as (t2 & E2 & ->).
      destruct (bind_inv' _ _ _ _ _ _ _ _ E2) as (t3 & x3 & o3 & X3 & R3). destruct (silent_retire_all _ _ _ _ _ X3) as (-> & _ & u3 & ->). destruct R3 as (t4 & E4 & ->).
      destruct (bind_inv' _ _ _ _ _ _ _ _ E4) as (t5 & x5 & o5 & X5 & R5). unfold set_lst in X5. injection X5 as <- _ <-. destruct R5 as (t6 & E6 & ->).
      destruct (bind_inv' _ _ _ _ _ _ _ _ E6) as (t7 & x7 & o7 & X7 & R7). unfold set_sc in X7. injection X7 as <- _ <-. destruct R7 as (t8 & E8 & ->).
      destruct (bind_inv' _ _ _ _ _ _ _ _ E8) as (t9 & x9 & o9 & X9 & R9). unfold consume in X9. destruct (take_bytes _ _) as [[t rest] d]. destruct d; injection X9 as <- _ <-.
      * destruct R9 as (t10 & E10 & ->). unfold fail in E10. injection E10 as <- _ _. cbn [app]. rewrite !app_nil_r, bytes_of_map_Rd. reflexivity.
      * destruct R9 as (R9 & _). discriminate.
    + destruct (silent_bump_all _ _ _ _ _ _ E) as (_ & _ & u1 & Hx). discriminate.
  - destruct R1 as (-> & -> & ->). exists [], [], (bytes_of tr1). split; [|split; [constructor|left; reflexivity]]. cbn [app].
    clear - E1. unfold bytes_parsed in E1.
    destruct (bind_inv' _ _ _ _ _ _ _ _ E1) as (t0 & s0 & o0 & X0 & R0). destruct (silent_purge _ _ _ _ X0) as (-> & _ & u0 & ->). destruct R0 as (tr0 & E & ->).
    rewrite Sim7.bind_get in E. destruct (find_violated _ _ _ _) as [[[[before i] by0] after]|].
    + destruct (bind_inv' _ _ _ _ _ _ _ _ E) as (t1 & x1 & o1 & X1 & R1). destruct (silent_bump_all _ _ _ _ _ _ X1) as (-> & _ & u1 & ->). destruct R1 as (t2 & E2 & ->).
      destruct (bind_inv' _ _ _ _ _ _ _ _ E2) as (t3 & x3 & o3 & X3 & R3). destruct (silent_retire_all _ _ _ _ _ X3) as (-> & _ & u3 & ->). destruct R3 as (t4 & E4 & ->).
      destruct (bind_inv' _ _ _ _ _ _ _ _ E4) as (t5 & x5 & o5 & X5 & R5). unfold set_lst in X5. injection X5 as <- _ <-. destruct R5 as (t6 & E6 & ->).
      destruct (bind_inv' _ _ _ _ _ _ _ _ E6) as (t7 & x7 & o7 & X7 & R7). unfold set_sc in X7. injection X7 as <- _ <-. destruct R7 as (t8 & E8 & ->).
      destruct (bind_inv' _ _ _ _ _ _ _ _ E8) as (t9 & x9 & o9 & X9 & R9). unfold consume in X9. destruct (take_bytes _ _) as [[t rest] d]. destruct d; injection X9 as <- _ <-.
      * destruct R9 as (t10 & E10 & _). discriminate.
      * destruct R9 as (_ & _ & ->). cbn [app]. rewrite bytes_of_map_Rd. reflexivity.
    + destruct (silent_bump_all _ _ _ _ _ _ E) as (_ & _ & u1 & Hx). discriminate.
Qed.

Lemma wti_set_constraint abort i p n : wtiles (set_constraint abort i p n).
Proof.
  intros s tr s' o H. unfold set_constraint in H. destruct (n <? 0); [injection H as <- _ <-; apply partial_nil|].
  rewrite Sim7.bind_get in H. destruct (bind_inv' _ _ _ _ _ _ _ _ H) as (t1 & x1 & o1 & X1 & R1). unfold set_sc in X1. injection X1 as <- _ <-.
  destruct R1 as (t2 & E2 & ->). rewrite Sim7.bind_get in E2.
  destruct (anticipate _ _ _ _) as [[ci b_]|].
  - destruct abort; [unfold fail in E2; injection E2 as <- _ <-; apply partial_nil|]. unfold emit in E2. injection E2 as <- _ <-. apply w_note; [exact Logic.I|constructor].
  - injection E2 as <- _ <-. constructor.
Qed.

Lemma wti_assert_done abort i : wtiles (assert_done abort i).
Proof.
  intros s tr s' o H. unfold assert_done in H. rewrite Sim7.bind_get in H.
  destruct (sc_max (get_sc _ i)) as [mx|] eqn:Hm; [|injection H as <- _ <-; apply partial_nil].
  destruct (sc_obs (get_sc _ i)); [injection H as <- _ <-; constructor|].
  destruct (bind_inv' _ _ _ _ _ _ _ _ H) as (t1 & x1 & o1 & X1 & R1). unfold set_sc in X1. injection X1 as <- _ <-. destruct R1 as (t2 & E2 & ->).
  destruct (sc_already (get_sc _ i) =? mx).
  - injection E2 as <- _ <-. constructor.
  - destruct abort; [unfold fail in E2; injection E2 as <- _ <-; apply partial_nil|].
    destruct (bind_inv' _ _ _ _ _ _ _ _ E2) as (t3 & x3 & o3 & X3 & R3). unfold emit in X3. injection X3 as <- _ <-. destruct R3 as (t4 & E4 & ->).
    destruct (bind_inv' _ _ _ _ _ _ _ _ E4) as (t5 & x5 & o5 & X5 & R5).
    assert (Hq : t5 = [] /\ exists u, o5 = Ok u).
    { clear - X5. revert x3 t5 x5 o5 X5. generalize (lst (mkSt [] (store s) (lst s))). intros ids.
      induction ids as [|j r IH]; intros x3 t5 x5 o5 X5; cbn [bump_others] in X5; [injection X5 as <- _ <-; split; [reflexivity|eexists; reflexivity]|].
      rewrite Sim7.bind_get in X5. destruct (bind_inv' _ _ _ _ _ _ _ _ X5) as (ta & xa & oa & Xa & Ra).
      assert (Ha : ta = [] /\ exists u, oa = Ok u) by (destruct (Nat.eqb j i || sc_obs _); [injection Xa as <- _ <-|unfold set_sc in Xa; injection Xa as <- _ <-]; split; try reflexivity; eexists; reflexivity).
      destruct Ha as (-> & ua & ->). destruct Ra as (tb & Eb & ->). apply (IH _ _ _ _ Eb). }
    destruct Hq as (-> & u5 & ->). destruct R5 as (t6 & E6 & ->). cbn [app].
    unfold consume in E6. destruct (take_bytes _ _) as [[t rest] d] eqn:Et. destruct d; injection E6 as <- _ <-.
    + cbn [app]. rewrite <- (app_nil_r (map Rd t)). apply w_short; [|constructor].
      exists mx. cbn [info si_max si_already]. split; [exact Hm|]. pose proof (OpLemmas.take_bytes_len _ _ _ _ Et). lia.
    + exists [], [Wn (ESubceeded (info i (get_sc (mkSt [] (store s) (lst s)) i)))], t. split; [reflexivity|]. split; [constructor|right; eexists; reflexivity].
Qed.

Lemma wti_catch A abort ids (m h : M A) : wtiles m -> wtiles h -> wtiles (catch_exceeded abort ids m h).
Proof.
  intros Hm Hh s tr s' o H. unfold catch_exceeded in H. destruct (m s) as [[tr1 s1] o1] eqn:E1. pose proof (Hm _ _ _ _ E1) as H1.
  destruct o1 as [a|e| |k|]; try (injection H as <- <- <-; exact H1).
  destruct e as [p0 tn v src|c v b|c v val b|c|cc|rest cc|mp me mf]; try (injection H as <- <- <-; exact H1).
  destruct (abort || negb (existsb (Nat.eqb (si_id c)) ids)); [injection H as <- <- <-; exact H1|].
  destruct (h s1) as [[tr2 s2] o2] eqn:E2. injection H as <- <- <-. pose proof (Hh _ _ _ _ E2) as H2.
  destruct H1 as (pre & bs & -> & Hp & Ht).
  assert (Hshape : forall rest, (pre ++ map Rd bs) ++ Wn (EExceeded c v b) :: rest = pre ++ (map Rd bs ++ Wn (EExceeded c v b) :: rest)) by (intros rest; rewrite <- app_assoc; reflexivity).
  assert (Hpart : partial tr2 -> partial ((pre ++ map Rd bs) ++ Wn (EExceeded c v b) :: tr2)).
  { intros Hq. rewrite Hshape. replace (pre ++ map Rd bs ++ Wn (EExceeded c v b) :: tr2) with ((pre ++ map Rd bs ++ [Wn (EExceeded c v b)]) ++ tr2) by (rewrite <- !app_assoc; reflexivity).
    apply partial_pre; [|exact Hq]. apply wt_app; [exact Hp|]. apply w_over; [exact Ht|constructor]. }
  destruct o2 as [a|e| |k|]; try (apply Hpart; exact H2).
  - rewrite Hshape. apply wt_app; [exact Hp|]. apply w_over; assumption.
  - destruct e; try (apply Hpart; exact H2). destruct H2 as (pre2 & bs2 & -> & Hp2 & Ht2).
    exists (pre ++ map Rd bs ++ Wn (EExceeded c v b) :: pre2), bs2. split; [rewrite Hshape, <- !app_assoc; cbn [app]; reflexivity|].
    split; [apply wt_app; [exact Hp|apply w_over; assumption]|exact Ht2].
Qed.

Lemma wtiles_closed abort : closed abort (@wtiles).
Proof.
  constructor; intros.
  - apply wti_quiet. intros s tr s' o H. injection H as <- _ <-. repeat split; discriminate.
  - apply wti_bind; assumption.
  - apply wti_quiet. intros s tr s' o H. injection H as <- _ <-. repeat split; discriminate.
  - intros s tr s' o H. injection H as <- _ <-. apply partial_nil.
  - intros s tr s' o H. injection H as <- _ <-. apply partial_nil.
  - intros s tr s' o H. injection H as <- _ <-. apply partial_nil.
  - intros s tr s' o H. injection H as <- _ <-. apply w_struct. constructor.
  - apply wti_dec_prim.
  - apply wti_quiet. intros s tr s' o H. injection H as <- _ <-. repeat split; discriminate.
  - apply wti_set_constraint.
  - apply wti_quiet. intros s tr s' o H. injection H as <- _ <-. repeat split; discriminate.
  - apply wti_quiet. intros s tr s' o H. injection H as <- _ <-. repeat split; discriminate.
  - apply wti_assert_done.
  - apply wti_catch; assumption.
  - destruct abort; [intros s tr s' o H; injection H as <- _ <-; apply partial_nil|].
    intros s tr s' o H. injection H as <- _ <-. apply w_note; [exact Logic.I|constructor].
Qed.

(** every decoder function, both modes, all tables, every state *)
Theorem wtiles_dec_root T abort r : wtiles (dec_root T abort r).
Proof. apply P_dec_root. apply wtiles_closed. Qed.




(** with accounting: the input is the concatenation of the blocks' bytes and the unread rest *)
Theorem run_is_tiled T abort r bs tr s' o : dec_root T abort r (init_st bs) = (tr, s', o) ->
  bs = bytes_of tr ++ inp s' /\
  match o with
  | Ok _ => wt tr
  | More => partial tr /\ inp s' = []
  | _ => True
  end.
Proof.
  intros E. split; [apply (accounts_dec_root T abort r _ _ _ _ E)|].
  pose proof (wtiles_dec_root T abort r _ _ _ _ E) as H. destruct o as [a|e| |k|]; try exact Logic.I; [exact H|].
  split; [exact H|]. apply (L_dec_root _ more_empty_lclosed T abort r _ _ _ E).
Qed.

