(** C08, part 1: warn mode never aborts - the constraint operations in warn mode, for arbitrary input.
    A run in warn mode ends completed (every live listed region charged exactly the bytes read - skipped bytes
    included), asking for input, with a value error that is not a type range error (unknown command code, unselecting
    selector), or with Exceeded for a region that was live and listed when the run started - and then the regions
    enclosing it have been charged exactly the bytes read, it and the regions inside it are finished. *)
From Coq Require Import ZArith List String Bool Lia ZifyBool.
From TV Require Import Layout.Types Base.Bytes Model.Monad Model.Constraints Model.Ints Model.Decoder Model.Message Model.Pump
  Spec.Value Proofs.Closure Proofs.LowClosure Proofs.Account Proofs.OpLemmas Proofs.Agree Proofs.Sim1 Proofs.Sim2 Proofs.Sim3 Proofs.Sim4 Proofs.Sim7
  Proofs.Comp1 Proofs.Safe1 Proofs.Safe2.
Import ListNotations.
Open Scope list_scope.
Open Scope Z_scope.

(** the failures a warn-mode run may end with, given the regions [L] that are live and listed around it *)
Definition okfail (L : list nat) (e : err) : Prop :=
  match e with
  | EExceeded c _ _ => In (si_id c) L
  | EValue _ _ _ src => src <> VSType
  | _ => False
  end.
Definition gw (L : list nat) {A} (o : out A) : Prop :=
  match o with Internal _ | Fuel => False | Fail e => okfail L e | _ => True end.

(** a completed run: charged, limits untouched, input still bytes *)
Definition cw (s : st) (tr : list action) (s' : st) : Prop :=
  charged s tr s' /\ mxf s s' /\ (Forall isbyte (inp s) -> Forall isbyte (inp s')).

(** a run that ended with Exceeded for region [i] *)
Definition xpost (s : st) (tr : list action) (s' : st) (i : nat) : Prop :=
  exists V1 e V2, view s = V1 ++ e :: V2 /\ fst (fst e) = i /\ snd (fst e) <> None /\ view s' = bump (blen (bytes_of tr)) V1 /\
    wf_st s' /\ frame s s' /\ mxf s s' /\ sc_obs (get_sc s' i) = true /\ (Forall isbyte (inp s) -> Forall isbyte (inp s')).

Definition rw {A} (L : list nat) (m : M A) (s : st) (Q : A -> list action -> st -> Prop) : Prop :=
  forall tr s' o, m s = (tr, s', o) ->
    gw L o /\ (forall a, o = Ok a -> Q a tr s') /\ (forall c v b, o = Fail (EExceeded c v b) -> xpost s tr s' (si_id c)).

Lemma cw_nil s : wf_st s -> cw s [] s.
Proof. intros W. split; [apply charged_nil, W|]. split; [apply mxf_refl|exact (fun H => H)]. Qed.
Lemma cw_trans s tr1 s1 tr2 s2 : cw s tr1 s1 -> cw s1 tr2 s2 -> cw s (tr1 ++ tr2) s2.
Proof.
  intros (C1 & M1 & B1) (C2 & M2 & B2). split; [eapply charged_trans; eassumption|]. split; [eapply mxf_trans; eassumption|].
  intros H. apply B2, B1, H.
Qed.
Lemma cw_wf s tr s' : cw s tr s' -> wf_st s'.
Proof. intros ((_ & W & _) & _). exact W. Qed.
Lemma cw_ev s a : wf_st s -> bytes_of [a] = [] -> cw s [a] s.
Proof.
  intros W Hb. split; [|split; [apply mxf_refl|exact (fun H => H)]].
  split; [rewrite Hb; unfold blen; cbn; rewrite bump_0; reflexivity|]. split; [exact W|apply frame_refl].
Qed.

Lemma map_eq_mid {A B} (f : A -> B) l X y Z0 : map f l = X ++ y :: Z0 ->
  exists X0 y0 Z1, l = X0 ++ y0 :: Z1 /\ map f X0 = X /\ f y0 = y /\ map f Z1 = Z0.
Proof.
  intros H. apply map_eq_app in H as (X0 & R & -> & HX & HR). destruct R as [|y0 Z1]; [discriminate|].
  cbn [map] in HR. injection HR as Hy HZ. exists X0, y0, Z1. repeat split; assumption.
Qed.

(** a failure after a completed part *)
Lemma xpost_cw s tr1 s1 tr2 s2 i : cw s tr1 s1 -> xpost s1 tr2 s2 i -> xpost s (tr1 ++ tr2) s2 i.
Proof.
  intros ((V1 & W1 & F1) & M1 & B1) (X & e & Z0 & Hv & He & Hmx & Hv2 & W2 & F2 & M2 & Ob & B2).
  rewrite V1 in Hv. unfold bump in Hv. destruct (map_eq_mid _ _ _ _ _ Hv) as (X0 & e0 & Z1 & Hs & HX & He0 & HZ).
  exists X0, e0, Z1. split; [exact Hs|]. split; [rewrite <- He, <- He0; destruct e0 as [[j m] a]; reflexivity|].
  split; [rewrite <- He0 in Hmx; destruct e0 as [[j m] a]; exact Hmx|].
  split; [rewrite Hv2, <- HX; fold (bump (blen (bytes_of tr1)) X0); rewrite bump_bump, bytes_of_app; f_equal; unfold blen; rewrite app_length; lia|].
  split; [exact W2|]. split; [exact (frame_trans _ _ _ F1 F2)|]. split; [exact (mxf_trans _ _ _ M1 M2)|]. split; [exact Ob|].
  intros H. apply B2, B1, H.
Qed.

(** ---- combinators *)
Lemma bind_inv' A B (m : M A) (f : A -> M B) s tr s' o : bind m f s = (tr, s', o) ->
  exists tr1 s1 o1, m s = (tr1, s1, o1) /\
    match o1 with
    | Ok a => exists tr2, f a s1 = (tr2, s', o) /\ tr = tr1 ++ tr2
    | Fail e => o = Fail e /\ s' = s1 /\ tr = tr1
    | More => o = More /\ s' = s1 /\ tr = tr1
    | Internal k => o = Internal k /\ s' = s1 /\ tr = tr1
    | Fuel => o = Fuel /\ s' = s1 /\ tr = tr1
    end.
Proof.
  unfold bind. destruct (m s) as [[tr1 s1] o1]. intros H. exists tr1, s1, o1. split; [reflexivity|].
  destruct o1 as [a|e| |k|]; try (injection H as <- <- <-; repeat split; reflexivity).
  destruct (f a s1) as [[tr2 s2] o2]. injection H as <- <- <-. exists tr2. split; reflexivity.
Qed.

Lemma rw_bind A B L (m : M A) (f : A -> M B) s (P : A -> list action -> st -> Prop) (Q : B -> list action -> st -> Prop) :
  rw L m s P -> (forall a tr1 s1, P a tr1 s1 -> cw s tr1 s1) ->
  (forall a tr1 s1, P a tr1 s1 -> rw L (f a) s1 (fun b tr2 s2 => Q b (tr1 ++ tr2) s2)) -> rw L (bind m f) s Q.
Proof.
  intros Hm Hc Hf tr s' o H. destruct (bind_inv' _ _ _ _ _ _ _ _ H) as (tr1 & s1 & o1 & E1 & R).
  destruct (Hm _ _ _ E1) as (G1 & P1 & X1).
  destruct o1 as [a|e| |k|].
  - destruct R as (tr2 & E2 & ->). destruct (Hf a tr1 s1 (P1 a eq_refl) _ _ _ E2) as (G2 & P2 & X2).
    split; [exact G2|]. split; [exact P2|]. intros c v b Ho. apply (xpost_cw s tr1 s1 tr2 s' _ (Hc _ _ _ (P1 a eq_refl)) (X2 c v b Ho)).
  - destruct R as (-> & -> & ->). split; [exact G1|]. split; [discriminate|]. intros c v b Ho. injection Ho as ->. apply (X1 c v b eq_refl).
  - destruct R as (-> & _). split; [exact Logic.I|]. split; discriminate.
  - contradiction.
  - contradiction.
Qed.

Lemma rw_weaken A L (m : M A) s (P Q : A -> list action -> st -> Prop) : (forall a tr s', P a tr s' -> Q a tr s') -> rw L m s P -> rw L m s Q.
Proof. intros H Hm tr s' o E. destruct (Hm _ _ _ E) as (G & P1 & X). split; [exact G|]. split; [intros a Ho; apply H, P1, Ho|exact X]. Qed.

Lemma gw_incl A L L' (o : out A) : incl L L' -> gw L o -> gw L' o.
Proof. intros H. destruct o as [a|e| |k|]; cbn; try tauto. destruct e; cbn; try tauto. intros Hi. apply H, Hi. Qed.

Lemma rw_incl A L L' (m : M A) s Q : incl L L' -> rw L m s Q -> rw L' m s Q.
Proof. intros H Hm tr s' o E. destruct (Hm _ _ _ E) as (G & P1 & X). split; [exact (gw_incl _ _ _ _ H G)|]. split; assumption. Qed.

Lemma rw_ret A L (a : A) s (Q : A -> list action -> st -> Prop) : Q a [] s -> rw L (ret a) s Q.
Proof. intros H tr s' o E. injection E as <- <- <-. split; [exact Logic.I|]. split; [intros a' [= <-]; exact H|discriminate]. Qed.

Lemma rw_emit L a s (Q : unit -> list action -> st -> Prop) : Q tt [a] s -> rw L (emit a) s Q.
Proof. intros H tr s' o E. injection E as <- <- <-. split; [exact Logic.I|]. split; [intros [] _; exact H|discriminate]. Qed.

Lemma rw_fail_value A L pa tn v src s (Q : A -> list action -> st -> Prop) : src <> VSType -> rw L (@fail A (EValue pa tn v src)) s Q.
Proof. intros Hs tr s' o E. injection E as _ _ <-. split; [exact Hs|]. split; discriminate. Qed.

Lemma rw_eq A L (m1 m2 : M A) s Q : m1 s = m2 s -> rw L m2 s Q -> rw L m1 s Q.
Proof. intros H Hm tr s' o E. rewrite H in E. apply (Hm _ _ _ E). Qed.

Lemma rw_silent A L (m : M A) s (Q : A -> list action -> st -> Prop) s1 a : m s = ([], s1, Ok a) -> Q a [] s1 -> rw L m s Q.
Proof. intros Em Hq tr s' o E. rewrite Em in E. injection E as <- <- <-. split; [exact Logic.I|]. split; [intros a' [= <-]; exact Hq|discriminate]. Qed.

(** ---- the store operations, exactly *)
Lemma retire_all_spec ids : forall s, NoDup ids -> Forall (fun i => (i < List.length (store s))%nat) ids ->
  exists s', retire_all ids s = ([], s', Ok tt) /\ inp s' = inp s /\ lst s' = lst s /\
             List.length (store s') = List.length (store s) /\
             (forall i, In i ids -> get_sc s' i = let c := get_sc s i in mkSc (sc_path c) (sc_max c) (sc_already c) true) /\
             (forall i, ~ In i ids -> get_sc s' i = get_sc s i).
Proof.
  induction ids as [|i r IH]; intros s ND AL.
  - exists s. cbn. repeat split; try reflexivity. intros i [].
  - inversion ND as [|? ? Hni NDr]; subst. inversion AL as [|? ? Hi ALr]; subst.
    cbn [retire_all]. unfold bind at 1. cbn [get]. unfold bind at 1. cbn [set_sc app].
    set (s1 := mkSt (inp s) (upd (store s) i _) (lst s)).
    assert (AL1 : Forall (fun j => (j < List.length (store s1))%nat) r) by (cbn [s1 store]; rewrite upd_length; exact ALr).
    destruct (IH s1 NDr AL1) as (s' & E & I1 & L1 & Len & Hin & Hout).
    exists s'. rewrite E. split; [reflexivity|]. split; [exact I1|]. split; [exact L1|].
    split; [rewrite Len; cbn [s1 store]; apply upd_length|]. split.
    + intros j [<-|Hj].
      * rewrite (Hout i Hni). unfold get_sc. cbn [s1 store]. rewrite get_sc_upd_same by exact Hi. reflexivity.
      * rewrite (Hin j Hj). unfold get_sc. cbn [s1 store].
        rewrite get_sc_upd_other by (intros ->; contradiction). reflexivity.
    + intros j Hj. rewrite Hout by (intros Hx; apply Hj; right; exact Hx).
      unfold get_sc. cbn [s1 store]. rewrite get_sc_upd_other by (intros ->; apply Hj; left; reflexivity). reflexivity.
Qed.

(** [bump_others]: every listed live region other than [self] is charged *)
Lemma bump_others_spec ids self n : forall s, NoDup ids -> Forall (fun i => (i < List.length (store s))%nat) ids ->
  exists s', bump_others ids self n s = ([], s', Ok tt) /\ inp s' = inp s /\ lst s' = lst s /\
             List.length (store s') = List.length (store s) /\
             (forall i, In i ids -> i <> self -> sc_obs (get_sc s i) = false ->
                        get_sc s' i = let c := get_sc s i in mkSc (sc_path c) (sc_max c) (sc_already c + n) (sc_obs c)) /\
             (forall i, ~ In i ids \/ i = self \/ sc_obs (get_sc s i) = true -> get_sc s' i = get_sc s i).
Proof.
  induction ids as [|i r IH]; intros s ND AL.
  - exists s. cbn. repeat split; try reflexivity. intros i [].
  - inversion ND as [|? ? Hni NDr]; subst. inversion AL as [|? ? Hi ALr]; subst.
    cbn [bump_others]. unfold bind at 1. cbn [get]. change (get_sc (mkSt [] (store s) (lst s)) i) with (get_sc s i). cbn [app].
    destruct (Nat.eqb i self || sc_obs (get_sc s i)) eqn:Sk.
    + unfold bind at 1. cbn [ret app].
      destruct (IH s NDr ALr) as (s' & E & I1 & L1 & Len & Hin & Hout).
      exists s'. rewrite E. split; [reflexivity|]. split; [exact I1|]. split; [exact L1|]. split; [exact Len|]. split.
      * intros j [<-|Hj] Hs Ho.
        -- exfalso. apply orb_prop in Sk as [Sk|Sk]; [apply Nat.eqb_eq in Sk; contradiction|congruence].
        -- apply Hin; assumption.
      * intros j Hj. apply Hout. destruct Hj as [Hj|Hj]; [|right; exact Hj].
        destruct (Nat.eq_dec j i) as [->|Hne]; [|left; intros Hx; apply Hj; right; exact Hx].
        apply orb_prop in Sk as [Sk|Sk]; [apply Nat.eqb_eq in Sk; right; left; exact Sk|right; right; exact Sk].
    + apply orb_false_elim in Sk as [Sk1 Sk2]. apply Nat.eqb_neq in Sk1.
      unfold bind at 1. cbn [set_sc app].
      set (s1 := mkSt (inp s) (upd (store s) i _) (lst s)).
      assert (AL1 : Forall (fun j => (j < List.length (store s1))%nat) r) by (cbn [s1 store]; rewrite upd_length; exact ALr).
      assert (G1 : forall j, j <> i -> get_sc s1 j = get_sc s j).
      { intros j Hj. unfold get_sc. cbn [s1 store]. apply get_sc_upd_other. congruence. }
      destruct (IH s1 NDr AL1) as (s' & E & I1 & L1 & Len & Hin & Hout).
      exists s'. rewrite E. split; [reflexivity|]. split; [exact I1|]. split; [exact L1|].
      split; [rewrite Len; cbn [s1 store]; apply upd_length|]. split.
      * intros j [<-|Hj] Hs Ho.
        -- rewrite (Hout i (or_introl Hni)). unfold get_sc. cbn [s1 store]. rewrite get_sc_upd_same by exact Hi. reflexivity.
        -- assert (Hji : j <> i) by (intros ->; contradiction).
           rewrite (Hin j Hj Hs) by (rewrite G1 by exact Hji; exact Ho). rewrite G1 by exact Hji. reflexivity.
      * intros j Hj. assert (Hji : j <> i).
        { intros ->. destruct Hj as [Hj|[Hj|Hj]]; [apply Hj; left; reflexivity|contradiction|congruence]. }
        rewrite Hout; [apply G1, Hji|]. destruct Hj as [Hj|[Hj|Hj]]; [left; intros Hx; apply Hj; right; exact Hx|right; left; exact Hj|right; right; rewrite G1 by exact Hji; exact Hj].
Qed.

Lemma take_bytes_split l n t rest d : take_bytes l n = (t, rest, d) -> l = t ++ rest.
Proof. apply take_bytes_len. Qed.

Lemma take_bytes_count l n t rest : take_bytes l n = (t, rest, true) -> blen t = Z.max n 0.
Proof. intros H. pose proof (OpLemmas.take_bytes_len _ _ _ _ H). unfold blen. lia. Qed.

(** [consume]: completes having read exactly max(n, 0) bytes, or asks for input *)
Lemma consume_spec n s tr s' o : consume n s = (tr, s', o) ->
  store s' = store s /\ lst s' = lst s /\ inp s = bytes_of tr ++ inp s' /\ (o = Ok tt /\ blen (bytes_of tr) = Z.max n 0 \/ o = More).
Proof.
  unfold consume. destruct (take_bytes (inp s) n) as [[t rest] d] eqn:E. intros H.
  assert (Hsp : inp s = t ++ rest) by (apply (take_bytes_split _ _ _ _ _ E)).
  destruct d; injection H as <- <- <-; cbn [store lst inp]; rewrite bytes_of_map_Rd; (split; [reflexivity|]); (split; [reflexivity|]); (split; [exact Hsp|]).
  - left. split; [reflexivity|apply (take_bytes_count _ _ _ _ E)].
  - right. reflexivity.
Qed.

Lemma same_max_of_get s s' : List.length (store s') = List.length (store s) -> (forall j, sc_max (get_sc s' j) = sc_max (get_sc s j)) -> mxf s s'.
Proof. intros L H. apply same_max_mxf. split; assumption. Qed.

Lemma filter_all {A} (f : A -> bool) l : (forall x, In x l -> f x = true) -> filter f l = l.
Proof. induction l as [|x l IH]; intros H; [reflexivity|]. cbn [filter]. rewrite (H x (or_introl eq_refl)), IH; [reflexivity|]. intros y Hy. apply H. right. exact Hy. Qed.

Lemma NoDup_app_l {A} (a b : list A) : NoDup (a ++ b) -> NoDup a.
Proof. induction a as [|x a IH]; intros H; [constructor|]. cbn [app] in H. inversion H as [|? ? Hn Hr]; subst. constructor; [intros Hx; apply Hn, in_or_app; left; exact Hx|apply IH, Hr]. Qed.
Lemma NoDup_app_r {A} (a b : list A) : NoDup (a ++ b) -> NoDup b.
Proof. induction a as [|x a IH]; intros H; [exact H|]. cbn [app] in H. inversion H; subst. apply IH; assumption. Qed.
Lemma NoDup_app_disj {A} (a b : list A) : NoDup (a ++ b) -> forall y, In y a -> ~ In y b.
Proof.
  induction a as [|x a IH]; intros H y Hy Hyb; [contradiction|]. cbn [app] in H. inversion H as [|? ? Hn Hr]; subst.
  destruct Hy as [->|Hy]; [apply Hn, in_or_app; right; exact Hyb|apply (IH Hr y Hy Hyb)].
Qed.

Lemma NoDup_app_parts {A} (a : list A) x b : NoDup (a ++ x :: b) -> NoDup a /\ NoDup b /\ ~ In x a /\ ~ In x b /\ (forall y, In y a -> ~ In y b) /\ NoDup (a ++ [x]).
Proof.
  intros H. pose proof (NoDup_remove_1 _ _ _ H) as H1. pose proof (NoDup_remove_2 _ _ _ H) as H2.
  assert (Ha : NoDup a) by (apply NoDup_app_l in H1; exact H1).
  assert (Hb : NoDup b) by (apply NoDup_app_r in H1; exact H1).
  assert (Hxa : ~ In x a) by (intros Hx; apply H2, in_or_app; left; exact Hx).
  assert (Hxb : ~ In x b) by (intros Hx; apply H2, in_or_app; right; exact Hx).
  split; [exact Ha|]. split; [exact Hb|]. split; [exact Hxa|]. split; [exact Hxb|]. split; [apply NoDup_app_disj, H1|apply NoDup_snoc; assumption].
Qed.

(** the list-level size check in any state: completes charging every live listed region, or asks for input while
    skipping, or raises Exceeded for a live listed region - then the enclosing regions have been charged the bytes
    skipped, the region and those inside it are finished *)
Theorem bytes_parsed_w p size s L : wf_st s -> incl (ids_of (view s)) L ->
  rw L (bytes_parsed p size) s (fun _ tr s' => tr = [] /\ inp s' = inp s /\ view s' = bump size (view s) /\ wf_st s' /\ frame s s' /\ mxf s s').
Proof.
  intros W HL tr s' o E.
  destruct (find_violated (mkSt [] (store s) (filter (live s) (lst s))) (filter (live s) (lst s)) size []) as [[[[before i] by_] after]|] eqn:NV.
  - (* a region would be crossed *)
    pose proof W as [ND AL].
    destruct (find_violated_spec _ _ _ _ _ _ _ _ NV) as (mid & Hbm & Hids & Hex & _). cbn [rev app] in Hbm. subst mid.
    unfold bytes_parsed in E. unfold bind at 1 in E.
    destruct (purge_spec s) as (s0 & E0 & I0 & St0 & L0). rewrite E0 in E. unfold bind at 1 in E. cbn [get app] in E.
    cbn [lst] in E. rewrite St0, L0, NV in E.
    assert (G0 : forall j, get_sc s0 j = get_sc s j) by (intros j; unfold get_sc; rewrite St0; reflexivity).
    change (get_sc (mkSt [] (store s) (filter (live s) (lst s))) i) with (get_sc s i) in E.
    assert (ND0 : NoDup (before ++ i :: after)) by (rewrite <- Hids; apply NoDup_filter, ND).
    destruct (NoDup_app_parts _ _ _ ND0) as (NDb & NDa & Hib & Hia & Hba & NDbi).
    assert (Hsub : forall j, In j (before ++ i :: after) -> In j (lst s) /\ live s j = true) by (intros j Hj; rewrite <- Hids in Hj; apply filter_In in Hj; exact Hj).
    assert (ALall : Forall (fun j => (j < List.length (store s))%nat) (before ++ i :: after)).
    { apply Forall_forall. intros j Hj. rewrite Forall_forall in AL. apply AL, (Hsub j Hj). }
    assert (ALb : Forall (fun j => (j < List.length (store s0))%nat) before) by (rewrite St0; apply Forall_app in ALall as [Hx _]; exact Hx).
    set (room := match sc_max (get_sc s i) with Some mx => mx - sc_already (get_sc s i) | None => 0 end) in *.
    destruct (bump_all_spec before (Z.max room 0) s0 NDb ALb) as (s1 & E1 & I1 & L1 & Len1 & Hin1 & Hout1).
    unfold bind at 1 in E. rewrite E1 in E. cbn [app] in E.
    assert (ALa : Forall (fun j => (j < List.length (store s1))%nat) after).
    { rewrite Len1, St0. apply Forall_app in ALall as [_ Hx]. inversion Hx; assumption. }
    destruct (retire_all_spec after s1 NDa ALa) as (s2 & E2 & I2 & L2 & Len2 & Hin2 & Hout2).
    unfold bind at 1 in E. rewrite E2 in E. cbn [app] in E.
    unfold bind at 1 in E. cbn [set_lst app] in E. unfold bind at 1 in E. cbn [set_sc app inp store lst] in E.
    set (ci := mkSc (sc_path (get_sc s i)) (sc_max (get_sc s i)) (sc_already (get_sc s i)) true) in *.
    set (s4 := mkSt (inp s2) (upd (store s2) i ci) (before ++ [i])) in *.
    assert (Hi_alloc : (i < List.length (store s2))%nat).
    { rewrite Len2, Len1, St0. rewrite Forall_forall in ALall. apply ALall, in_or_app. right. left. reflexivity. }
    assert (G4i : get_sc s4 i = ci) by (unfold get_sc; cbn [s4 store]; apply get_sc_upd_same, Hi_alloc).
    assert (G4o : forall j, j <> i -> get_sc s4 j = get_sc s2 j) by (intros j Hj; unfold get_sc; cbn [s4 store]; apply get_sc_upd_other; congruence).
    assert (G4b : forall j, In j before -> get_sc s4 j = let c := get_sc s j in mkSc (sc_path c) (sc_max c) (sc_already c + Z.max room 0) (sc_obs c)).
    { intros j Hj. rewrite G4o by (intros ->; contradiction). rewrite Hout2 by (apply Hba, Hj). rewrite (Hin1 j Hj), G0. reflexivity. }
    assert (Hmax : forall j, sc_max (get_sc s4 j) = sc_max (get_sc s j)).
    { intros j. destruct (Nat.eq_dec j i) as [->|Hji]; [rewrite G4i; reflexivity|]. rewrite G4o by exact Hji.
      destruct (in_dec Nat.eq_dec j after) as [Hja|Hja].
      - rewrite (Hin2 j Hja). cbn [sc_max]. destruct (in_dec Nat.eq_dec j before) as [Hjb|Hjb]; [exfalso; apply (Hba j Hjb Hja)|]. rewrite (Hout1 j Hjb), G0. reflexivity.
      - rewrite (Hout2 j Hja). destruct (in_dec Nat.eq_dec j before) as [Hjb|Hjb]; [rewrite (Hin1 j Hjb), G0; reflexivity|rewrite (Hout1 j Hjb), G0; reflexivity]. }
    assert (Len4 : List.length (store s4) = List.length (store s)) by (cbn [s4 store]; rewrite upd_length, Len2, Len1, St0; reflexivity).
    assert (V4 : view s4 = bump (Z.max room 0) (map (entry_of s) before)).
    { unfold view. cbn [s4 lst]. rewrite filter_app. cbn [filter].
      replace (live s4 i) with false by (unfold live; rewrite G4i; reflexivity). rewrite app_nil_r.
      assert (Fb : filter (live s4) before = before).
      { apply filter_all. intros j Hj. unfold live. rewrite (G4b j Hj). cbn [sc_obs].
        destruct (Hsub j ltac:(apply in_or_app; left; exact Hj)) as [_ Hl]. exact Hl. }
      rewrite Fb. unfold bump. rewrite map_map. apply map_ext_in. intros j Hj. unfold entry_of, bump_entry. rewrite (G4b j Hj). reflexivity. }
    assert (Vs : view s = map (entry_of s) before ++ entry_of s i :: map (entry_of s) after).
    { unfold view. rewrite Hids, map_app. reflexivity. }
    assert (W4 : wf_st s4).
    { split; cbn [s4 lst store]; [exact NDbi|]. rewrite upd_length. apply Forall_forall. intros j Hj. rewrite Len2, Len1, St0.
      rewrite Forall_forall in ALall. apply ALall. apply in_app_or in Hj as [Hj|[<-|[]]]; apply in_or_app; [left; exact Hj|right; left; reflexivity]. }
    assert (F4 : frame s s4).
    { split; [rewrite Len4; lia|]. intros j Hj Hnl. split.
      - assert (Hjn : ~ In j (before ++ i :: after)) by (intros Hx; apply Hnl, (Hsub j Hx)).
        rewrite G4o by (intros ->; apply Hjn, in_or_app; right; left; reflexivity).
        rewrite Hout2 by (intros Hx; apply Hjn, in_or_app; right; right; exact Hx).
        rewrite Hout1 by (intros Hx; apply Hjn, in_or_app; left; exact Hx). apply G0.
      - cbn [s4 lst]. intros Hx. apply Hnl. apply in_app_or in Hx as [Hx|[<-|[]]]; [apply (Hsub j), in_or_app; left; exact Hx|apply (Hsub i), in_or_app; right; left; reflexivity]. }
    unfold bind in E. destruct (consume room s4) as [[tr5 s5] o5] eqn:E5.
    destruct (consume_spec _ _ _ _ _ E5) as (St5 & L5 & I5 & Ho5).
    assert (I4 : inp s4 = inp s) by (cbn [s4 inp]; congruence).
    destruct Ho5 as [[-> Hlen]| ->].
    + unfold fail in E. injection E as <- <- <-. rewrite app_nil_r. split.
      * cbn [gw okfail info si_id]. apply HL. rewrite Vs. unfold ids_of. rewrite map_app. apply in_or_app. right. left. reflexivity.
      * split; [discriminate|]. intros c v b Ho. injection Ho as <- _ _. cbn [info si_id].
        exists (map (entry_of s) before), (entry_of s i), (map (entry_of s) after). split; [exact Vs|]. split; [reflexivity|].
        split; [unfold entry_of; cbn [fst snd]; change (get_sc (mkSt [] (store s) (filter (live s) (lst s))) i) with (get_sc s i) in Hex; destruct (exceeds_spec _ _ _ Hex) as (mx0 & Hmx0 & _); rewrite Hmx0; discriminate|].
        assert (G5 : forall j, get_sc s5 j = get_sc s4 j) by (intros j; unfold get_sc; rewrite St5; reflexivity).
        split; [rewrite Hlen, <- V4; apply view_ext; [exact L5|intros j _; apply G5]|].
        split; [destruct W4 as [N4 A4]; split; [rewrite L5; exact N4|rewrite L5, St5; exact A4]|].
        split; [destruct F4 as [Lf Hf]; split; [rewrite St5; exact Lf|]; intros j Hj Hn; destruct (Hf j Hj Hn) as [Gj Nj]; split; [rewrite G5; exact Gj|rewrite L5; exact Nj]|].
        split; [apply same_max_of_get; [rewrite St5; exact Len4|intros j; rewrite G5; apply Hmax]|].
        split; [rewrite G5, G4i; reflexivity|].
        intros Hb. rewrite <- I4, I5 in Hb. apply Forall_app in Hb as [_ Hb]. exact Hb.
    + injection E as <- <- <-. split; [exact Logic.I|]. split; discriminate.
  - (* no region is crossed *)
    destruct (bytes_parsed_nv p size s W NV) as (s1 & E1 & I1 & V1 & W1 & Len1 & G1 & Inc1).
    rewrite E1 in E. injection E as <- <- <-. split; [exact Logic.I|]. split; [|discriminate]. intros [] _.
    split; [reflexivity|]. split; [exact I1|]. split; [exact V1|]. split; [exact W1|].
    split; [split; [lia|]; intros j _ Hj; split; [apply G1, Hj|intros Hx; apply Hj, Inc1, Hx]|].
    destruct (bytes_parsed_safe p size s [] s1 (Ok tt) Logic.I E1) as [_ Hsm]. apply same_max_mxf, (Hsm tt eq_refl).
Qed.

(** ---- reading: [readn] completes with exactly n bytes or asks for input; it never touches the store *)
Lemma readn_w n : forall s tr s' o, readn n s = (tr, s', o) ->
  store s' = store s /\ lst s' = lst s /\ inp s = bytes_of tr ++ inp s' /\
  ((exists bs, o = Ok bs /\ tr = map Rd bs /\ List.length bs = n) \/ o = More).
Proof.
  induction n as [|n IH]; intros s tr s' o H; cbn [readn] in H.
  - injection H as <- <- <-. repeat split; try reflexivity. left. exists []. repeat split.
  - destruct (bind_inv' _ _ _ _ _ _ _ _ H) as (tr1 & s1 & o1 & E1 & R1).
    unfold read1 in E1. destruct (inp s) as [|b0 r] eqn:Ei.
    + injection E1 as <- <- <-. destruct R1 as (-> & -> & ->). rewrite Ei. repeat split; try reflexivity. right. reflexivity.
    + injection E1 as <- <- <-. destruct R1 as (tr2 & E2 & ->).
      destruct (bind_inv' _ _ _ _ _ _ _ _ E2) as (tr3 & s3 & o3 & E3 & R3).
      destruct (IH _ _ _ _ E3) as (St3 & L3 & I3 & Ho3). cbn [inp store lst] in St3, L3, I3.
      destruct Ho3 as [(bs & -> & -> & Lb)| ->].
      * destruct R3 as (tr4 & E4 & ->). injection E4 as <- <- <-.
        split; [exact St3|]. split; [exact L3|]. split; [cbn [app bytes_of]; rewrite app_nil_r, bytes_of_map_Rd; rewrite I3, bytes_of_map_Rd; reflexivity|].
        left. exists (b0 :: bs). split; [reflexivity|]. split; [cbn [map app]; rewrite app_nil_r; reflexivity|cbn [List.length]; lia].
      * destruct R3 as (-> & -> & ->). split; [exact St3|]. split; [exact L3|]. split; [cbn [app bytes_of]; rewrite I3; reflexivity|right; reflexivity].
Qed.

(** a primitive in warn mode: an out-of-range value is a warning after the event *)
Theorem dec_prim_w p pa s L : wf_st s -> 0 <= pwidth p -> incl (ids_of (view s)) L ->
  rw L (dec_prim false p pa) s (fun a tr s' => cw s tr s' /\
     exists bs, a = Some (VInt_ (pname p) (from_bytes (psigned p) bs)) /\ bytes_of tr = bs /\ blen bs = pwidth p /\ inp s = bs ++ inp s').
Proof.
  intros W Hw HL tr s' o E. unfold dec_prim in E.
  destruct (bind_inv' _ _ _ _ _ _ _ _ E) as (tr1 & s1 & o1 & E1 & R1).
  destruct (bytes_parsed_w pa (pwidth p) s L W HL _ _ _ E1) as (G1 & P1 & X1).
  destruct o1 as [u|e| |k|]; try contradiction.
  - destruct (P1 u eq_refl) as (-> & I1 & V1 & W1 & F1 & M1). destruct R1 as (tr2 & E2 & ->). cbn [app].
    destruct (bind_inv' _ _ _ _ _ _ _ _ E2) as (tr3 & s3 & o3 & E3 & R3).
    destruct (readn_w _ _ _ _ _ E3) as (St3 & L3 & I3 & Ho3).
    destruct Ho3 as [(bs & -> & -> & Lb)| ->].
    + destruct R3 as (tr4 & E4 & ->). cbv zeta in E4.
      assert (Hbl : blen bs = pwidth p) by (unfold blen; lia).
      assert (Hend : exists w, tr4 = Ev (mkEvent pa (TyN (pname p)) (Some (from_bytes (psigned p) bs))) :: w /\ bytes_of w = [] /\ s' = s3 /\ o = Ok (Some (VInt_ (pname p) (from_bytes (psigned p) bs)))).
      { destruct (valid p _); unfold bind, emit, ret in E4; injection E4 as <- <- <-; eexists; repeat split. }
      destruct Hend as (w & -> & Hwb & -> & ->).
      split; [exact Logic.I|]. split; [|discriminate]. intros a [= <-].
      assert (Hbytes : bytes_of (map Rd bs ++ Ev (mkEvent pa (TyN (pname p)) (Some (from_bytes (psigned p) bs))) :: w) = bs).
      { rewrite bytes_of_app, bytes_of_map_Rd. cbn [bytes_of]. rewrite Hwb, app_nil_r. reflexivity. }
      split.
      * split; [|split].
        -- split; [|split].
           ++ rewrite Hbytes, Hbl, <- V1. apply view_ext; [exact L3|]. intros i _. unfold get_sc. rewrite St3. reflexivity.
           ++ destruct W1 as [ND AL]. split; [rewrite L3; exact ND|rewrite L3, St3; exact AL].
           ++ destruct F1 as [Lf Hf]. split; [rewrite St3; exact Lf|]. intros i Hi Hni. destruct (Hf i Hi Hni) as [G N].
              split; [unfold get_sc in *; rewrite St3; exact G|rewrite L3; exact N].
        -- destruct M1 as [Lm Hm]. split; [rewrite St3; exact Lm|]. intros i Hi. unfold get_sc in *. rewrite St3. apply Hm, Hi.
        -- intros Hb. rewrite <- I1, I3 in Hb. apply Forall_app in Hb as [_ Hb]. exact Hb.
      * exists bs. split; [reflexivity|]. split; [exact Hbytes|]. split; [exact Hbl|]. rewrite <- I1, I3, bytes_of_map_Rd. reflexivity.
    + destruct R3 as (-> & _ & _). split; [exact Logic.I|]. split; discriminate.
  - destruct R1 as (-> & -> & ->). split; [exact G1|]. split; [discriminate|]. intros c v b Ho. injection Ho as ->. apply (X1 c v b eq_refl).
  - destruct R1 as (-> & _ & _). split; [exact Logic.I|]. split; discriminate.
Qed.

(** announcing a size in warn mode: always completes, possibly with an Anticipated warning; the state is the same *)
Lemma set_constraint_w cid pa n s : 0 <= n ->
  exists tr, set_constraint false cid pa n s = (tr, announced cid pa n s, Ok tt) /\ bytes_of tr = [].
Proof.
  intros Hn. unfold set_constraint. replace (n <? 0) with false by lia.
  rewrite bind_get. unfold bind at 1. cbn [set_sc]. rewrite bind_get.
  change (get_sc (mkSt [] (store s) (lst s)) cid) with (get_sc s cid). cbn [inp store lst app].
  destruct (anticipate _ _ cid n) as [[ci b]|]; eexists; (split; [reflexivity|reflexivity]).
Qed.

(** closing the innermost live region in warn mode: exactly filled, or Subceeded - then the rest of it is skipped and
    charged to the enclosing regions; either way the region is finished *)
Theorem assert_done_w cid mx al V s L : wf_st s -> view s = V ++ [(cid, Some mx, al)] -> ~ In cid (ids_of V) ->
  rw L (assert_done false cid) s (fun _ tr s' => view s' = bump (blen (bytes_of tr)) V /\ wf_st s' /\ frame s s' /\ mxf s s' /\
      lst s' = lst s /\ sc_obs (get_sc s' cid) = true /\ inp s = bytes_of tr ++ inp s').
Proof.
  intros W Vw Hn tr s' o E. destruct (view_last _ _ _ _ _ Vw) as (Hm & Ha & Hin).
  assert (Hlive : sc_obs (get_sc s cid) = false).
  { assert (Hi : In (cid, Some mx, al) (view s)) by (rewrite Vw; apply in_or_app; right; left; reflexivity).
    unfold view in Hi. apply in_map_iff in Hi as (j & Hj & Hf). unfold entry_of in Hj. injection Hj as -> _ _.
    apply filter_In in Hf as [_ Hl]. unfold live in Hl. destruct (sc_obs (get_sc s cid)); [discriminate|reflexivity]. }
  destruct (Z.eq_dec al mx) as [->|Hne].
  - destruct (assert_done_spec false cid mx V s W Vw Hn) as (s1 & E1 & I1 & L1 & V1 & W1 & Len1 & _ & Ob1 & Mx1 & Fr1).
    rewrite E1 in E. injection E as <- <- <-. split; [exact Logic.I|]. split; [|discriminate]. intros [] _.
    cbn [bytes_of]. unfold blen. cbn [List.length]. rewrite bump_0.
    split; [exact V1|]. split; [exact W1|]. split; [exact Fr1|]. split; [|split; [exact L1|split; [exact Ob1|rewrite I1; reflexivity]]].
    unfold assert_done in E1. rewrite bind_get in E1. change (get_sc (mkSt [] (store s) (lst s)) cid) with (get_sc s cid) in E1.
    rewrite Hm, Hlive in E1. unfold bind at 1 in E1. cbn [set_sc] in E1. rewrite Ha, Z.eqb_refl in E1. injection E1 as <-.
    split; [cbn [store]; rewrite upd_length; lia|]. intros i Hi. unfold get_sc. cbn [store].
    destruct (Nat.eq_dec i cid) as [->|Hic]; [rewrite get_sc_upd_same by exact Hi; cbn [sc_max]; symmetry; exact Hm|].
    rewrite get_sc_upd_other by congruence. reflexivity.
  - pose proof W as [ND AL].
    unfold assert_done in E. rewrite bind_get in E. change (get_sc (mkSt [] (store s) (lst s)) cid) with (get_sc s cid) in E.
    rewrite Hm, Hlive in E. unfold bind at 1 in E. cbn [set_sc app] in E. rewrite Ha in E. replace (al =? mx) with false in E by lia.
    unfold bind at 1 in E. cbn [emit app] in E. cbn [lst] in E.
    set (c1 := mkSc (sc_path (get_sc s cid)) (Some mx) al true) in *.
    set (s1 := mkSt (inp s) (upd (store s) cid c1) (lst s)) in *.
    assert (Hc : (cid < List.length (store s))%nat) by (rewrite Forall_forall in AL; apply AL, Hin).
    assert (G1c : get_sc s1 cid = c1) by (unfold get_sc; cbn [s1 store]; apply get_sc_upd_same, Hc).
    assert (G1o : forall j, j <> cid -> get_sc s1 j = get_sc s j) by (intros j Hj; unfold get_sc; cbn [s1 store]; apply get_sc_upd_other; congruence).
    assert (AL1 : Forall (fun j => (j < List.length (store s1))%nat) (lst s)) by (cbn [s1 store]; rewrite upd_length; exact AL).
    set (skip := Z.max (mx - al) 0) in *.
    destruct (bump_others_spec (lst s) cid skip s1 ND AL1) as (s2 & E2 & I2 & L2 & Len2 & Hin2 & Hout2).
    unfold bind at 1 in E. rewrite E2 in E. cbn [app] in E.
    destruct (consume skip s2) as [[tr3 s3] o3] eqn:E3.
    destruct (consume_spec _ _ _ _ _ E3) as (St3 & L3 & I3 & Ho3).
    assert (G3 : forall j, get_sc s3 j = get_sc s2 j) by (intros j; unfold get_sc; rewrite St3; reflexivity).
    destruct Ho3 as [[-> Hlen]| ->]; injection E as <- <- <-; [|split; [exact Logic.I|split; discriminate]].
    split; [exact Logic.I|]. split; [|discriminate]. intros [] _. cbn [bytes_of app].
    assert (Hskip : blen (bytes_of tr3) = skip) by (rewrite Hlen; unfold skip; lia).
    (* the live listed regions other than cid are those of V *)
    assert (Hfl : filter (live s) (lst s) = ids_of V ++ [cid]).
    { assert (Hx : ids_of (view s) = filter (live s) (lst s)) by (unfold ids_of, view; rewrite map_map; cbn; apply map_id).
      rewrite <- Hx, Vw. unfold ids_of. rewrite map_app. reflexivity. }
    assert (HV : V = map (entry_of s) (ids_of V)).
    { assert (Hx : view s = map (entry_of s) (ids_of V ++ [cid])) by (unfold view; rewrite Hfl; reflexivity).
      rewrite Vw, map_app in Hx. cbn [map] in Hx. apply app_inj_tail in Hx as [Hx _]. exact Hx. }
    assert (G2V : forall j, In j (ids_of V) -> get_sc s2 j = let c := get_sc s j in mkSc (sc_path c) (sc_max c) (sc_already c + skip) (sc_obs c)).
    { intros j Hj. assert (Hjl : In j (filter (live s) (lst s))) by (rewrite Hfl; apply in_or_app; left; exact Hj).
      apply filter_In in Hjl as [Hjl Hlv]. assert (Hjc : j <> cid) by (intros ->; contradiction).
      rewrite (Hin2 j Hjl Hjc) by (rewrite G1o by exact Hjc; unfold live in Hlv; destruct (sc_obs (get_sc s j)); [discriminate|reflexivity]).
      rewrite G1o by exact Hjc. reflexivity. }
    assert (G2c : get_sc s2 cid = c1) by (rewrite (Hout2 cid (or_intror (or_introl eq_refl))); exact G1c).
    assert (G2dead : forall j, In j (lst s) -> live s j = false -> get_sc s2 j = get_sc s j).
    { intros j Hj Hd. assert (Hjc : j <> cid) by (intros ->; unfold live in Hd; rewrite Hlive in Hd; discriminate).
      rewrite (Hout2 j); [apply G1o, Hjc|]. right. right. rewrite G1o by exact Hjc. unfold live in Hd. destruct (sc_obs (get_sc s j)); [reflexivity|discriminate]. }
    assert (V3 : view s3 = bump skip V).
    { unfold view. rewrite L3, L2. cbn [s1 lst].
      assert (Hf3 : filter (live s3) (lst s) = ids_of V).
      { assert (Hl3 : forall j, In j (lst s) -> live s3 j = live s j && negb (Nat.eqb j cid)).
        { intros j Hj. unfold live. rewrite G3. destruct (Nat.eq_dec j cid) as [->|Hjc].
          - rewrite G2c, Nat.eqb_refl, andb_false_r. reflexivity.
          - replace (Nat.eqb j cid) with false by (symmetry; apply Nat.eqb_neq; exact Hjc). rewrite andb_true_r.
            destruct (sc_obs (get_sc s j)) eqn:Ob.
            + rewrite (G2dead j Hj) by (unfold live; rewrite Ob; reflexivity). rewrite Ob. reflexivity.
            + assert (Hjv : In j (ids_of V)).
              { assert (Hjf : In j (filter (live s) (lst s))) by (apply filter_In; split; [exact Hj|unfold live; rewrite Ob; reflexivity]).
                rewrite Hfl in Hjf. apply in_app_or in Hjf as [Hjf|[Hjf|[]]]; [exact Hjf|congruence]. }
              rewrite (G2V j Hjv). cbn [sc_obs]. rewrite Ob. reflexivity. }
        rewrite (filter_ext_in _ _ _ Hl3), <- filter_and, Hfl, filter_app. cbn [filter]. rewrite Nat.eqb_refl. cbn [negb]. rewrite app_nil_r.
        apply filter_all. intros j Hj. destruct (Nat.eqb j cid) eqn:Ej; [apply Nat.eqb_eq in Ej; subst j; contradiction|reflexivity]. }
      rewrite Hf3. rewrite HV at 2. unfold bump. rewrite map_map. apply map_ext_in. intros j Hj.
      unfold entry_of, bump_entry. rewrite G3, (G2V j Hj). reflexivity. }
    split; [rewrite Hskip; exact V3|].
    split; [split; [rewrite L3, L2; exact ND|rewrite L3, L2, St3, Len2; exact AL1]|].
    split; [split; [rewrite St3, Len2; cbn [s1 store]; rewrite upd_length; lia|]; intros j Hj Hnl; split;
            [rewrite G3, (Hout2 j (or_introl Hnl)); apply G1o; intros ->; contradiction|rewrite L3, L2; exact Hnl]|].
    split.
    { split; [rewrite St3, Len2; cbn [s1 store]; rewrite upd_length; lia|]. intros j Hj. rewrite G3.
      destruct (Nat.eq_dec j cid) as [->|Hjc]; [rewrite G2c, Hm; reflexivity|].
      destruct (in_dec Nat.eq_dec j (lst s)) as [Hjl|Hjl]; [|rewrite (Hout2 j (or_introl Hjl)), G1o by exact Hjc; reflexivity].
      destruct (sc_obs (get_sc s j)) eqn:Ob.
      - rewrite (G2dead j Hjl) by (unfold live; rewrite Ob; reflexivity). reflexivity.
      - rewrite (Hin2 j Hjl Hjc) by (rewrite G1o by exact Hjc; exact Ob). rewrite G1o by exact Hjc. reflexivity. }
    split; [rewrite L3, L2; reflexivity|]. split; [rewrite G3, G2c; reflexivity|].
    rewrite <- I3, I2. reflexivity.
Qed.
