(** C06, part 2: what a COMPLETED strict run does to the constraint bookkeeping, for arbitrary input.
    Whenever a strict run of a decoder function completes, every live listed region has been charged exactly the
    bytes read ([view s' = bump (bytes read) (view s)]) - regions opened inside have been closed exactly filled -,
    the state stays well-formed and unlisted objects are untouched; and no run ends in an internal error. *)
From Coq Require Import ZArith List String Bool Lia ZifyBool.
From TV Require Import Layout.Types Base.Bytes Model.Monad Model.Constraints Model.Ints Model.Decoder Model.Message Model.Pump
  Spec.Value Proofs.Closure Proofs.LowClosure Proofs.Account Proofs.Agree Proofs.Sim1 Proofs.Sim2 Proofs.Sim3 Proofs.Sim4 Proofs.Sim7 Proofs.Safe1.
Import ListNotations.
Open Scope list_scope.
Open Scope Z_scope.

(** runs from [s], with the trace in the post-condition *)
Definition runs2 {A} (m : M A) (s : st) (Q : A -> list action -> st -> Prop) : Prop :=
  forall tr s' o, m s = (tr, s', o) -> good o /\ forall a, o = Ok a -> Q a tr s'.

Lemma r2_bind A B (m : M A) (f : A -> M B) s (P : A -> list action -> st -> Prop) (Q : B -> list action -> st -> Prop) :
  runs2 m s P -> (forall a tr1 s1, P a tr1 s1 -> runs2 (f a) s1 (fun b tr2 s2 => Q b (tr1 ++ tr2) s2)) -> runs2 (bind m f) s Q.
Proof.
  intros Hm Hf tr s' o H. destruct (bind_inv _ _ _ _ _ _ _ _ H) as (tr1 & s1 & o1 & E1 & R).
  destruct (Hm _ _ _ E1) as [G1 P1].
  destruct o1 as [a|e| |k|].
  - destruct R as (tr2 & E2 & ->). apply (Hf a tr1 s1 (P1 a eq_refl) _ _ _ E2).
  - destruct R as [-> _]. split; [exact Logic.I|discriminate].
  - destruct R as [-> _]. split; [exact Logic.I|discriminate].
  - contradiction.
  - contradiction.
Qed.

Lemma r2_weaken A (m : M A) s (P Q : A -> list action -> st -> Prop) : (forall a tr s', P a tr s' -> Q a tr s') -> runs2 m s P -> runs2 m s Q.
Proof. intros H Hm tr s' o E. destruct (Hm _ _ _ E) as [G P1]. split; [exact G|]. intros a ->. apply H, P1. reflexivity. Qed.

Lemma r2_ret A (a : A) s (Q : A -> list action -> st -> Prop) : Q a [] s -> runs2 (ret a) s Q.
Proof. intros H tr s' o E. injection E as <- <- <-. split; [exact Logic.I|]. intros a' [= <-]. exact H. Qed.

Lemma r2_emit a s (Q : unit -> list action -> st -> Prop) : Q tt [a] s -> runs2 (emit a) s Q.
Proof. intros H tr s' o E. injection E as <- <- <-. split; [exact Logic.I|]. intros [] _. exact H. Qed.

Lemma r2_fail A e s (Q : A -> list action -> st -> Prop) : runs2 (@fail A e) s Q.
Proof. intros tr s' o E. injection E as _ _ <-. split; [exact Logic.I|discriminate]. Qed.

Lemma r2_eq A (m1 m2 : M A) s Q : m1 s = m2 s -> runs2 m2 s Q -> runs2 m1 s Q.
Proof. intros H Hm tr s' o E. rewrite H in E. apply (Hm _ _ _ E). Qed.

(** goodness from part 1, the rest from an inversion of completed runs *)
Lemma r2_of A (m : M A) s (Q : A -> list action -> st -> Prop) :
  (forall tr s' o, m s = (tr, s', o) -> good o) -> (forall tr s' a, m s = (tr, s', Ok a) -> Q a tr s') -> runs2 m s Q.
Proof. intros G H tr s' o E. split; [apply (G _ _ _ E)|]. intros a ->. apply (H _ _ _ E). Qed.

(** the standard post-condition: the live listed regions are charged the bytes read *)
Definition charged (s : st) (tr : list action) (s' : st) : Prop :=
  view s' = bump (blen (bytes_of tr)) (view s) /\ wf_st s' /\ frame s s'.

Lemma charged_nil s : wf_st s -> charged s [] s.
Proof. intros W. split; [unfold blen; cbn; rewrite bump_0; reflexivity|]. split; [exact W|apply frame_refl]. Qed.

Lemma charged_trans s tr1 s1 tr2 s2 : charged s tr1 s1 -> charged s1 tr2 s2 -> charged s (tr1 ++ tr2) s2.
Proof.
  intros (V1 & W1 & F1) (V2 & W2 & F2). split; [|split; [exact W2|exact (frame_trans _ _ _ F1 F2)]].
  rewrite V2, V1, bump_bump, bytes_of_app. f_equal. unfold blen. rewrite app_length. lia.
Qed.

(** ---- the operations: what a completed strict run did *)
Lemma find_violated_some_not_ok p size s tr s' o :
  bytes_parsed p size s = (tr, s', o) ->
  find_violated (mkSt [] (store s) (filter (live s) (lst s))) (filter (live s) (lst s)) size [] <> None -> forall a, o <> Ok a.
Proof.
  intros H NV a ->. unfold bytes_parsed in H.
  destruct (bind_inv _ _ _ _ _ _ _ _ H) as (tr1 & s0' & o1 & E1 & R1).
  destruct (purge_spec s) as (s0 & E0 & I0 & St0 & L0). rewrite E0 in E1. injection E1 as <- <- <-.
  destruct R1 as (tr2 & H2 & _). rewrite bind_get in H2. cbn [store lst] in H2. rewrite St0, L0 in H2.
  destruct (find_violated _ _ size []) as [[[[before i] by_] after]|]; [|contradiction]. clear NV.
  assert (T : triple (fun _ => True)
                (bind (bump_all before (Z.max (match sc_max (get_sc (mkSt [] (store s) (filter (live s) (lst s))) i) with
                                               | Some mx => mx - sc_already (get_sc (mkSt [] (store s) (filter (live s) (lst s))) i) | None => 0 end) 0)) (fun _ =>
                 bind (retire_all after) (fun _ =>
                 bind (set_lst (before ++ [i])) (fun _ =>
                 bind (set_sc i (mkSc (sc_path (get_sc (mkSt [] (store s) (filter (live s) (lst s))) i)) (sc_max (get_sc (mkSt [] (store s) (filter (live s) (lst s))) i))
                                      (sc_already (get_sc (mkSt [] (store s) (filter (live s) (lst s))) i)) true)) (fun _ =>
                 bind (consume (match sc_max (get_sc (mkSt [] (store s) (filter (live s) (lst s))) i) with
                                | Some mx => mx - sc_already (get_sc (mkSt [] (store s) (filter (live s) (lst s))) i) | None => 0 end)) (fun _ =>
                 fail (EExceeded (info i (get_sc (mkSt [] (store s) (filter (live s) (lst s))) i)) p by_)))))))
                (fun _ (_ : unit) _ => False)).
  { eapply triple_bind with (P := fun _ _ _ => True).
    { apply triple_silent. intros x1 _. destruct (bump_all_max before (Z.max (match sc_max (get_sc (mkSt [] (store s) (filter (live s) (lst s))) i) with
                                               | Some mx => mx - sc_already (get_sc (mkSt [] (store s) (filter (live s) (lst s))) i) | None => 0 end) 0) x1) as (x2 & E & _). eexists _, _. split; [exact E|exact Logic.I]. }
    intros ? ? _. eapply triple_bind with (P := fun _ _ _ => True).
    { apply triple_silent. intros x1 _. destruct (retire_all_max after x1) as (x2 & E & _). eexists _, _. split; [exact E|exact Logic.I]. }
    intros ? ? _. eapply triple_bind with (P := fun _ _ _ => True).
    { apply triple_silent. intros x1 _. eexists _, _. split; [reflexivity|exact Logic.I]. }
    intros ? ? _. eapply triple_bind with (P := fun _ _ _ => True).
    { apply triple_silent. intros x1 _. eexists _, _. split; [reflexivity|exact Logic.I]. }
    intros ? ? _. eapply triple_bind with (P := fun _ _ _ => True); [apply triple_consume|].
    intros ? ? _. apply triple_fail. }
  destruct (T _ _ _ _ Logic.I H2) as [_ F]. exact (F a eq_refl).
Qed.

Lemma bytes_parsed_done p size s : wf_st s ->
  runs2 (bytes_parsed p size) s (fun _ tr s' => tr = [] /\ inp s' = inp s /\ view s' = bump size (view s) /\ wf_st s' /\ frame s s').
Proof.
  intros W. apply r2_of.
  - intros tr s' o E. apply (bytes_parsed_safe p size s tr s' o Logic.I E).
  - intros tr s' [] E.
    destruct (find_violated (mkSt [] (store s) (filter (live s) (lst s))) (filter (live s) (lst s)) size []) eqn:NV.
    + exfalso. eapply (find_violated_some_not_ok p size s tr s' (Ok tt) E); [rewrite NV; discriminate|reflexivity].
    + destruct (bytes_parsed_nv p size s W NV) as (s1 & E1 & I1 & V1 & W1 & Len1 & G1 & Inc1).
      rewrite E1 in E. injection E as <- <-. split; [reflexivity|]. split; [exact I1|]. split; [exact V1|]. split; [exact W1|].
      split; [lia|]. intros i _ Hi. split; [apply G1, Hi|intros Hx; apply Hi, Inc1, Hx].
Qed.

(** the state after [set_constraint] (when it completes) *)
Definition announced (cid : nat) (pa : path) (n : Z) (s : st) : st :=
  mkSt (inp s) (upd (store s) cid (mkSc (Some pa) (Some n) (sc_already (get_sc s cid)) (sc_obs (get_sc s cid)))) (lst s).

Lemma announced_facts cid pa n s : wf_st s -> (cid < List.length (store s))%nat ->
  let s1 := announced cid pa n s in
  view s1 = map (set_entry cid n) (view s) /\ wf_st s1 /\ List.length (store s1) = List.length (store s) /\
  get_sc s1 cid = mkSc (Some pa) (Some n) (sc_already (get_sc s cid)) (sc_obs (get_sc s cid)) /\
  (forall i, i <> cid -> get_sc s1 i = get_sc s i) /\ (forall k, (k <= cid)%nat -> frame_from k s s1).
Proof.
  intros [ND AL] Hc. cbv zeta. unfold announced.
  set (c' := mkSc (Some pa) (Some n) _ _).
  set (s1 := mkSt (inp s) (upd (store s) cid c') (lst s)).
  assert (G1 : get_sc s1 cid = c') by (unfold get_sc; cbn [s1 store]; apply get_sc_upd_same, Hc).
  assert (G2 : forall i, i <> cid -> get_sc s1 i = get_sc s i).
  { intros i Hi. unfold get_sc. cbn [s1 store]. apply get_sc_upd_other. congruence. }
  split.
  - unfold view. cbn [s1 lst].
    assert (Lv : forall i, live s1 i = live s i).
    { intros i. unfold live. destruct (Nat.eq_dec i cid) as [->|Hne]; [rewrite G1; reflexivity|rewrite G2 by exact Hne; reflexivity]. }
    rewrite (filter_ext _ _ Lv), map_map. apply map_ext. intros i. unfold entry_of, set_entry.
    destruct (Nat.eqb i cid) eqn:E.
    + apply Nat.eqb_eq in E. subst i. rewrite G1. reflexivity.
    + apply Nat.eqb_neq in E. rewrite G2 by exact E. reflexivity.
  - split; [split; [exact ND|cbn [s1 lst store]; rewrite upd_length; exact AL]|].
    split; [cbn [s1 store]; apply upd_length|]. split; [exact G1|]. split; [exact G2|].
    intros k Hk. apply (frame_from_only cid); [exact Hk|cbn [s1 store]; rewrite upd_length; lia|exact G2|].
    intros i Hi. left. exact Hi.
Qed.

Lemma set_constraint_done cid pa n s : 0 <= n -> (cid < List.length (store s))%nat ->
  runs2 (set_constraint true cid pa n) s (fun _ tr s' => tr = [] /\ s' = announced cid pa n s).
Proof.
  intros Hn Hc. apply r2_of.
  - intros tr s' o E. apply (set_constraint_safe cid pa n Hn s tr s' o Hc E).
  - intros tr s' a E. unfold set_constraint in E. replace (n <? 0) with false in E by lia.
    rewrite bind_get in E. unfold bind at 1 in E. cbn [set_sc] in E. rewrite bind_get in E.
    change (get_sc (mkSt [] (store s) (lst s)) cid) with (get_sc s cid) in E.
    destruct (anticipate _ _ cid n) as [[ci b]|]; [discriminate|]. injection E as <- <-. split; reflexivity.
Qed.

(** the state after [append_lst] *)
Lemma append_facts cid s : wf_st s -> ~ In cid (lst s) -> (cid < List.length (store s))%nat -> sc_obs (get_sc s cid) = false ->
  let s1 := mkSt (inp s) (store s) (lst s ++ [cid]) in
  view s1 = view s ++ [entry_of s cid] /\ wf_st s1 /\ (forall k, (k <= cid)%nat -> frame_from k s s1).
Proof.
  intros W Hn Hc Ob. cbv zeta. destruct (append_lst_spec cid s W Hn Hc Ob) as (s' & E & _ & _ & V & W' & Fr).
  injection E as <-. split; [exact V|split; [exact W'|exact Fr]].
Qed.

(** closing the innermost region: a completed strict run means it was exactly filled *)
Lemma assert_done_done cid mx al V s : wf_st s -> view s = V ++ [(cid, Some mx, al)] -> ~ In cid (ids_of V) ->
  runs2 (assert_done true cid) s (fun _ tr s' => tr = [] /\ al = mx /\ inp s' = inp s /\ lst s' = lst s /\ view s' = V /\ wf_st s' /\
                                                List.length (store s') = List.length (store s) /\ frame s s' /\
                                                sc_obs (get_sc s' cid) = true /\ sc_max (get_sc s' cid) = Some mx).
Proof.
  intros W Vw Hn. destruct (view_last _ _ _ _ _ Vw) as (Hm & Ha & Hin).
  apply r2_of.
  - intros tr s' o E. apply (assert_done_safe cid s tr s' o ltac:(cbv beta; rewrite Hm; discriminate) E).
  - intros tr s' a E.
    assert (Hlive : sc_obs (get_sc s cid) = false).
    { assert (Hi : In (cid, Some mx, al) (view s)) by (rewrite Vw; apply in_or_app; right; left; reflexivity).
      unfold view in Hi. apply in_map_iff in Hi as (j & Hj & Hf). unfold entry_of in Hj. injection Hj as -> _ _.
      apply filter_In in Hf as [_ Hl]. unfold live in Hl. destruct (sc_obs (get_sc s cid)); [discriminate|reflexivity]. }
    destruct (Z.eq_dec al mx) as [->|Hne].
    + destruct (assert_done_spec true cid mx V s W Vw Hn) as (s1 & E1 & I1 & L1 & V1 & W1 & Len1 & _ & Ob1 & Mx1 & Fr1).
      rewrite E1 in E. injection E as <- <- _. split; [reflexivity|]. split; [reflexivity|]. split; [exact I1|]. split; [exact L1|].
      split; [exact V1|]. split; [exact W1|]. split; [exact Len1|]. split; [exact Fr1|]. split; [exact Ob1|exact Mx1].
    + exfalso. unfold assert_done in E. rewrite bind_get in E.
      change (get_sc (mkSt [] (store s) (lst s)) cid) with (get_sc s cid) in E. rewrite Hm, Hlive, Ha in E.
      unfold bind at 1 in E. cbn [set_sc] in E. replace (al =? mx) with false in E by lia. discriminate.
Qed.

Lemma readn_done n : forall s tr s' bs, readn n s = (tr, s', Ok bs) ->
  tr = map Rd bs /\ List.length bs = n /\ inp s = bs ++ inp s' /\ store s' = store s /\ lst s' = lst s.
Proof.
  induction n as [|n IH]; intros s tr s' bs H; cbn [readn] in H; [injection H as <- <- <-; repeat split|].
  destruct (bind_inv _ _ _ _ _ _ _ _ H) as (tr1 & s1 & o1 & E1 & R1).
  destruct o1 as [b|e| |k|]; try (destruct R1 as [R1 _]; discriminate). destruct R1 as (tr2 & E2 & ->).
  destruct (bind_inv _ _ _ _ _ _ _ _ E2) as (tr3 & s3 & o3 & E3 & R3).
  destruct o3 as [bs0|e| |k|]; try (destruct R3 as [R3 _]; discriminate). destruct R3 as (tr4 & E4 & ->).
  injection E4 as <- <- <-. unfold read1 in E1. destruct (inp s) as [|b0 r] eqn:Ei; [discriminate|]. injection E1 as <- <- <-.
  destruct (IH _ _ _ _ E3) as (-> & L & I & St & Ls). cbn [inp store lst] in *.
  split; [cbn [map app]; rewrite app_nil_r; reflexivity|]. split; [cbn; lia|]. split; [rewrite I; reflexivity|]. split; assumption.
Qed.

(** a primitive *)
Lemma dec_prim_done p pa s : wf_st s -> 0 <= pwidth p ->
  runs2 (dec_prim true p pa) s (fun a tr s' => charged s tr s' /\
     exists bs, a = Some (VInt_ (pname p) (from_bytes (psigned p) bs)) /\ bytes_of tr = bs /\ blen bs = pwidth p /\ inp s = bs ++ inp s').
Proof.
  intros W Hw. unfold dec_prim.
  apply r2_bind with (P := fun _ tr s1 => tr = [] /\ inp s1 = inp s /\ view s1 = bump (pwidth p) (view s) /\ wf_st s1 /\ frame s s1).
  { apply (bytes_parsed_done pa (pwidth p) s W). }
  intros _ tr1 s1 (-> & I1 & V1 & W1 & F1). cbn [app].
  apply r2_of.
  - intros tr s' o E.
    assert (T : triple (fun _ => True) (bind (readn (Z.to_nat (pwidth p))) (fun bs =>
                  let v := from_bytes (psigned p) bs in let ev := Ev (mkEvent pa (TyN (pname p)) (Some v)) in
                  if valid p v then bind (emit ev) (fun _ => ret (Some (VInt_ (pname p) v))) else fail (EValue pa (pname p) v VSType))) (fun _ _ _ => True)).
    { eapply triple_bind with (P := fun _ _ _ => True).
      - eapply triple_weaken; [| |apply readn_safe]; [intros; exact Logic.I|intros; exact Logic.I].
      - intros ? bs _. cbv zeta. destruct (valid p _); [|apply triple_fail].
        eapply triple_bind with (P := fun _ _ _ => True); [eapply triple_weaken; [| |apply triple_emit]; [intros x Hx; exact Hx|intros; exact Logic.I]|].
        intros ? ? _. apply triple_ret. intros; exact Logic.I. }
    apply (T s1 tr s' o Logic.I E).
  - intros tr s' a E. destruct (bind_inv _ _ _ _ _ _ _ _ E) as (tr2 & s2 & o2 & E2 & R2).
    destruct o2 as [bs|e| |k|]; try (destruct R2 as [R2 _]; discriminate). destruct R2 as (tr3 & E3 & ->). cbv zeta in E3.
    destruct (readn_done _ _ _ _ _ E2) as (-> & L2 & I2 & St2 & Ls2).
    destruct (valid p _); [|discriminate]. unfold bind, emit, ret in E3. injection E3 as <- <- <-.
    assert (Hbl : blen bs = pwidth p) by (unfold blen; lia).
    split.
    + split; [|split].
      * rewrite bytes_of_app, bytes_of_map_Rd. cbn [bytes_of]. rewrite app_nil_r, Hbl.
        rewrite <- V1. apply view_ext; [exact Ls2|]. intros i _. unfold get_sc. rewrite St2. reflexivity.
      * destruct W1 as [ND AL]. split; [rewrite Ls2; exact ND|rewrite Ls2, St2; exact AL].
      * destruct F1 as [L1 H1]. split; [rewrite St2; exact L1|]. intros i Hi Hni. destruct (H1 i Hi Hni) as [G N].
        split; [unfold get_sc in *; rewrite St2; exact G|rewrite Ls2; exact N].
    + exists bs. split; [reflexivity|]. split; [rewrite bytes_of_app, bytes_of_map_Rd; cbn [bytes_of]; apply app_nil_r|].
      split; [exact Hbl|]. rewrite <- I1. exact I2.
Qed.

(** ---- completed runs: inversion *)
Definition okinv {A} (m : M A) (s : st) (Q : A -> list action -> st -> Prop) : Prop :=
  forall tr s' a, m s = (tr, s', Ok a) -> Q a tr s'.

Lemma oki_of_r2 A (m : M A) s Q : runs2 m s Q -> okinv m s Q.
Proof. intros H tr s' a E. apply (proj2 (H _ _ _ E) a eq_refl). Qed.

Lemma oki_bind A B (m : M A) (f : A -> M B) s (P : A -> list action -> st -> Prop) (Q : B -> list action -> st -> Prop) :
  okinv m s P -> (forall a tr1 s1, P a tr1 s1 -> okinv (f a) s1 (fun b tr2 s2 => Q b (tr1 ++ tr2) s2)) -> okinv (bind m f) s Q.
Proof.
  intros Hm Hf tr s' b H. destruct (bind_inv _ _ _ _ _ _ _ _ H) as (tr1 & s1 & o1 & E1 & R).
  destruct o1 as [a|e| |k|]; try (destruct R as [R _]; discriminate).
  destruct R as (tr2 & E2 & ->). apply (Hf a tr1 s1 (Hm _ _ _ E1) _ _ _ E2).
Qed.

Lemma oki_weaken A (m : M A) s (P Q : A -> list action -> st -> Prop) : (forall a tr s', P a tr s' -> Q a tr s') -> okinv m s P -> okinv m s Q.
Proof. intros H Hm tr s' a E. apply H, (Hm _ _ _ E). Qed.

Lemma oki_ret A (a : A) s (Q : A -> list action -> st -> Prop) : Q a [] s -> okinv (ret a) s Q.
Proof. intros H tr s' a' E. injection E as <- <- <-. exact H. Qed.

Lemma oki_emit a s (Q : unit -> list action -> st -> Prop) : Q tt [a] s -> okinv (emit a) s Q.
Proof. intros H tr s' [] E. injection E as <- <-. exact H. Qed.

Lemma oki_eq A (m1 m2 : M A) s Q : m1 s = m2 s -> okinv m2 s Q -> okinv m1 s Q.
Proof. intros H Hm tr s' a E. rewrite H in E. apply (Hm _ _ _ E). Qed.

Lemma charged_ev s e : wf_st s -> charged s [Ev e] s.
Proof. intros W. split; [unfold blen; cbn; rewrite bump_0; reflexivity|]. split; [exact W|apply frame_refl]. Qed.

(** the standard post with byte-ness of the remaining input *)
Definition chb (s : st) (tr : list action) (s' : st) : Prop := charged s tr s' /\ (Forall isbyte (inp s) -> Forall isbyte (inp s')).

Lemma chb_trans s tr1 s1 tr2 s2 : chb s tr1 s1 -> chb s1 tr2 s2 -> chb s (tr1 ++ tr2) s2.
Proof. intros [C1 B1] [C2 B2]. split; [eapply charged_trans; eassumption|]. intros H. apply B2, B1, H. Qed.

Lemma chb_nil s : wf_st s -> chb s [] s.
Proof. intros W. split; [apply charged_nil, W|exact (fun H => H)]. Qed.
Lemma chb_ev s e : wf_st s -> chb s [Ev e] s.
Proof. intros W. split; [apply charged_ev, W|exact (fun H => H)]. Qed.

Lemma chb_of_acc A (m : M A) s tr s' o : accounts m -> m s = (tr, s', o) -> charged s tr s' -> chb s tr s'.
Proof. intros Ha E C. split; [exact C|]. apply (bytes_kept0 _ _ _ _ _ _ Ha E). Qed.

Lemma chb_wf s tr s' : chb s tr s' -> wf_st s'.
Proof. intros [[_ [W _]] _]. exact W. Qed.

(** bounded iteration of a step that charges what it reads *)
Lemma oki_rep A (f : A -> M A) :
  (forall x s0, wf_st s0 -> Forall isbyte (inp s0) -> okinv (f x) s0 (fun _ tr s1 => chb s0 tr s1)) ->
  forall p x s0, wf_st s0 -> Forall isbyte (inp s0) -> okinv (rep p f x) s0 (fun _ tr s1 => chb s0 tr s1).
Proof.
  intros Hf p. induction p as [q IH|q IH|]; intros x s0 W0 B0; cbn [rep].
  - apply oki_bind with (P := fun _ tr s1 => chb s0 tr s1); [apply Hf; assumption|]. intros y tr1 s1 C1.
    apply oki_bind with (P := fun _ tr s2 => chb s1 tr s2); [apply IH; [exact (chb_wf _ _ _ C1)|apply (proj2 C1), B0]|].
    intros z tr2 s2 C2. eapply oki_weaken; [|apply IH; [exact (chb_wf _ _ _ C2)|apply (proj2 C2), (proj2 C1), B0]].
    cbv beta. intros _ tr3 s3 C3. eapply chb_trans; [exact C1|eapply chb_trans; eassumption].
  - apply oki_bind with (P := fun _ tr s1 => chb s0 tr s1); [apply IH; assumption|]. intros y tr1 s1 C1.
    eapply oki_weaken; [|apply IH; [exact (chb_wf _ _ _ C1)|apply (proj2 C1), B0]].
    cbv beta. intros _ tr2 s2 C2. eapply chb_trans; eassumption.
  - apply Hf; assumption.
Qed.

Section Inv.
  Variable T : tables.

  (** the by-product value of a completed decode *)
  Fixpoint decls (fs : fields) (prev : list (string * option prim)) : list (string * option prim) :=
    match fs with
    | FNil => prev
    | FPlain n t r => decls r ((n, match t with TPrim p => Some p | _ => None end) :: prev)
    | FList n _ r => decls r ((n, None) :: prev)
    | FUnion n _ _ r => decls r ((n, None) :: prev)
    end.

  Definition shape_val (t : ty) (a : option value) : Prop :=
    match t with
    | TPrim p => exists z, a = Some (VInt_ (pname p) z)
    | TStruct name _ fs => exists vals, a = Some (VStruct_ (TyN name) (rev vals)) /\ relp (decls fs []) vals
    | _ => True
    end.

  Definition D_ty (t : ty) : Prop := safe_ty t = true -> forall pa sel s, wf_st s -> Forall isbyte (inp s) ->
    okinv (dec_ty T true t pa sel false) s (fun a tr s' => chb s tr s' /\ shape_val t a).
  Definition D_fields (fs : fields) : Prop := forall prev, safe_fields fs prev = true -> forall pa rd s, relp prev rd -> wf_st s -> Forall isbyte (inp s) ->
    okinv (dec_fields T true fs pa rd) s (fun vals tr s' => chb s tr s' /\ relp (decls fs prev) vals).
  Definition D_armp (p : armp) : Prop := match p with PNone => True | PTy t => D_ty t | PList e _ => D_ty e end.
  Definition D_arms (ar : arms) : Prop := forall uname pa target p s, arm_at ar target = Some p -> armp_safe p = true -> wf_st s -> Forall isbyte (inp s) ->
    okinv (dec_arms T true ar uname pa target) s (fun _ tr s' => chb s tr s').

  Lemma array_inv lid pa count e s : D_ty e -> safe_ty e = true -> wf_st s -> Forall isbyte (inp s) ->
    okinv (dec_array lid pa count (fun p => dec_ty T true e p None false)) s (fun _ tr s' => chb s tr s').
  Proof.
    intros IH He W Hb. unfold dec_array.
    apply oki_bind with (P := fun _ tr s1 => tr = [sev pa lid] /\ s1 = s); [apply oki_emit; split; reflexivity|]. intros _ tr1 s1 (-> & ->).
    apply oki_bind with (P := fun _ tr s1 => chb s tr s1).
    - destruct count as [|p|p]; cbn [repZ]; [apply oki_ret, chb_nil, W| |apply oki_ret, chb_nil, W].
      apply oki_rep; [|exact W|exact Hb]. intros x s0 W0 B0.
      apply oki_bind with (P := fun _ tr s1 => chb s0 tr s1).
      + eapply oki_weaken; [|apply (IH He (pindex pa (fst x)) None s0 W0 B0)]. cbv beta. intros a tr s' [C _]. exact C.
      + intros v tr2 s2 C2. apply oki_ret. rewrite app_nil_r. exact C2.
    - intros r tr2 s2 C2. apply oki_ret. rewrite app_nil_r. eapply (chb_trans s [sev pa lid] s); [apply chb_ev, W|exact C2].
  Qed.

  (** what closing the innermost region after its payload means for a completed run: the payload filled it exactly *)
  Definition closed_post (s4 : st) (V : list entry) : option value -> list action -> st -> Prop :=
    fun _ tr s6 => view s6 = bump (blen (bytes_of tr)) V /\ wf_st s6 /\ frame s4 s6 /\ (Forall isbyte (inp s4) -> Forall isbyte (inp s6)).

  Lemma close_inv A (payload : M A) (g : A -> option value) cid z s4 V :
    wf_st s4 -> view s4 = V ++ [(cid, Some z, 0)] -> ~ In cid (ids_of V) ->
    okinv payload s4 (fun _ tr s5 => chb s4 tr s5) ->
    okinv (bind payload (fun bv => bind (assert_done true cid) (fun _ => ret (g bv)))) s4 (closed_post s4 V).
  Proof.
    intros W4 V4 Hn Hp.
    apply oki_bind with (P := fun _ tr s5 => chb s4 tr s5); [exact Hp|].
    intros bv tr5 s5 [(V5 & W5 & F5) B5].
    rewrite V4, bump_app in V5. cbn [bump map bump_entry] in V5. rewrite Z.add_0_l in V5.
    apply oki_bind with (P := fun _ tr s6 => tr = [] /\ inp s6 = inp s5 /\ view s6 = bump (blen (bytes_of tr5)) V /\ wf_st s6 /\ frame s5 s6).
    { intros tr s6 a E.
      destruct (oki_of_r2 _ _ _ _ (assert_done_done cid z (blen (bytes_of tr5)) _ s5 W5 V5 ltac:(rewrite ids_bump; exact Hn)) _ _ _ E)
        as (-> & Hk & I6 & _ & V6 & W6 & _ & F6 & _).
      split; [reflexivity|]. split; [exact I6|]. split; [exact V6|]. split; [exact W6|exact F6]. }
    intros _ tr6 s6 (-> & I6 & V6 & W6 & F6). apply oki_ret. rewrite !app_nil_r.
    split; [exact V6|]. split; [exact W6|]. split; [exact (frame_trans _ _ _ F5 F6)|]. intros H. rewrite I6. apply B5, H.
  Qed.

  (** the region of a TPM2B: size field, fresh constraint announced and listed innermost, then [k] which closes it *)
  Lemma tpm2b_inv (szp : prim) (size_path : path) (k : option value -> nat -> M (option value)) s :
    psigned szp = false -> 0 <= pwidth szp -> wf_st s -> Forall isbyte (inp s) ->
    (forall szv cid z s4 V, wf_st s4 -> Forall isbyte (inp s4) -> view s4 = V ++ [(cid, Some z, 0)] -> ~ In cid (ids_of V) ->
                            as_int szv = Some z -> okinv (k szv cid) s4 (closed_post s4 V)) ->
    okinv (bind (dec_prim true szp size_path) (fun szv =>
           let size := match as_int szv with Some z => z | None => 0 end in
           bind new_sc (fun cid =>
           bind (set_constraint true cid size_path size) (fun _ =>
           bind (append_lst cid) (fun _ => k szv cid))))) s (fun _ tr s' => chb s tr s').
  Proof.
    intros Hu Hw W Hb Hp.
    apply oki_bind with (P := fun a tr s1 => chb s tr s1 /\ exists z, a = Some (VInt_ (pname szp) z) /\ 0 <= z).
    { intros tr s1 a E. destruct (oki_of_r2 _ _ _ _ (dec_prim_done szp size_path s W Hw) _ _ _ E) as (C & bs & -> & Hbt & Hbl & Hi).
      split; [apply (chb_of_acc _ _ _ _ _ _ (L_dec_prim (@accounts) accounts_lclosed true szp size_path) E C)|].
      eexists. split; [reflexivity|]. rewrite Hu. destruct bs as [|b0 bs']; [cbv; discriminate|].
      rewrite Hi in Hb. apply Forall_app in Hb as [Hb _].
      apply (from_bytes_range false (b0 :: bs') Hb ltac:(discriminate)). reflexivity. }
    intros szv tr1 s1 (C1 & z & -> & Hz). cbn [as_int]. cbv zeta.
    destruct C1 as [(V1 & W1 & F1) B1].
    destruct (new_sc_spec s1 W1) as (s2 & E2 & I2 & L2 & V2 & W2 & Len2 & G2 & Fr2).
    set (cid := List.length (store s1)) in *.
    apply oki_bind with (P := fun a tr s' => a = cid /\ tr = [] /\ s' = s2).
    { intros tr s' a E. rewrite E2 in E. injection E as <- <- <-. repeat split. }
    intros cid' tr2 s2' (-> & -> & ->).
    assert (Hc2 : (cid < List.length (store s2))%nat) by lia.
    apply oki_bind with (P := fun _ tr s' => tr = [] /\ s' = announced cid size_path z s2).
    { apply oki_of_r2. apply (set_constraint_done cid size_path z s2 Hz Hc2). }
    intros _ tr3 s3 (-> & ->).
    destruct (announced_facts cid size_path z s2 W2 Hc2) as (V3 & W3 & Len3 & G3 & G3' & Fr3).
    set (s3 := announced cid size_path z s2) in *.
    assert (Fresh : ~ In cid (ids_of (view s2))) by (rewrite V2; apply fresh_not_in_view, W1).
    rewrite (map_set_entry_fresh cid z _ Fresh) in V3.
    assert (NotListed : ~ In cid (lst s3)).
    { cbn [s3 announced lst]. rewrite L2. intros Hx. destruct W1 as [_ AL]. rewrite Forall_forall in AL. specialize (AL _ Hx). unfold cid in AL. lia. }
    destruct (append_facts cid s3 W3 NotListed ltac:(lia) ltac:(rewrite G3, G2; reflexivity)) as (V4 & W4 & Fr4).
    set (s4 := mkSt (inp s3) (store s3) (lst s3 ++ [cid])) in *.
    apply oki_bind with (P := fun _ tr s' => tr = [] /\ s' = s4).
    { intros tr s' a E. injection E as <- <- _. split; reflexivity. }
    intros _ tr4 s4' (-> & ->).
    assert (Ent : entry_of s3 cid = (cid, Some z, 0)) by (unfold entry_of; rewrite G3, G2; reflexivity).
    rewrite Ent, V3, V2, V1 in V4.
    assert (B4 : Forall isbyte (inp s4)) by (cbn [s4 s3 announced inp]; rewrite I2; apply B1, Hb).
    assert (Hn4 : ~ In cid (ids_of (bump (blen (bytes_of tr1)) (view s)))) by (rewrite ids_bump; intros Hx; apply Fresh; rewrite V2, V1, ids_bump; exact Hx).
    eapply oki_weaken; [|apply (Hp (Some (VInt_ (pname szp) z)) cid z s4 _ W4 B4 V4 Hn4 eq_refl)].
    cbv beta. unfold closed_post. intros _ tr6 s6 (V6 & W6 & F6 & B6). rewrite !app_nil_l.
    split.
    - split; [rewrite V6, bump_bump, bytes_of_app; f_equal; unfold blen; rewrite app_length; lia|]. split; [exact W6|].
      apply (frame_chain s s1 s2 s3 s4 s6 s6 cid F1 Fr2 eq_refl Fr3 Fr4 F6). intros k0 _. apply frame_from_refl.
    - intros _. apply B6, B4.
  Qed.

  Lemma acc_ty' t pa sel enc : accounts (dec_ty T true t pa sel enc).
  Proof. apply (P_dec_ty T true (@accounts) (lclosed_closed _ accounts_lclosed true)). Qed.

  Theorem inv_all : (forall t, D_ty t) /\ (forall fs, D_fields fs) /\ (forall ar, D_arms ar) /\ (forall p, D_armp p).
  Proof.
    apply ty_mutind.
    - (* TPrim *)
      intros p Hs pa sel s W Hb. cbn [safe_ty] in Hs. change (dec_ty T true (TPrim p) pa sel false) with (dec_prim true p pa).
      intros tr s' a E. destruct (oki_of_r2 _ _ _ _ (dec_prim_done p pa s W ltac:(lia)) _ _ _ E) as (C & bs & -> & _).
      split; [apply (chb_of_acc _ _ _ _ _ _ (L_dec_prim (@accounts) accounts_lclosed true p pa) E C)|eexists; reflexivity].
    - (* TStruct *)
      intros name isp fs IH Hs pa sel s W Hb. cbn [safe_ty] in Hs. rewrite dec_ty_struct. cbn [andb]. cbv zeta.
      apply oki_bind with (P := fun _ tr s1 => tr = [sev pa (TyN name)] /\ s1 = s); [apply oki_emit; split; reflexivity|]. intros _ tr1 s1 (-> & ->).
      apply oki_bind with (P := fun vals tr s1 => chb s tr s1 /\ relp (decls fs []) vals); [apply (IH [] Hs pa [] s ltac:(constructor) W Hb)|].
      intros vals tr2 s2 [C2 HR]. apply oki_ret. rewrite app_nil_r.
      split; [eapply (chb_trans s [sev pa (TyN name)] s); [apply chb_ev, W|exact C2]|]. exists vals. split; [reflexivity|exact HR].
    - (* TTpm2bList *)
      intros name szf buf szp e IH Hs pa sel s W Hb. cbn [safe_ty] in Hs. apply andb_prop in Hs as [Hs He]. apply andb_prop in Hs as [Hu Hn].
      apply andb_prop in Hu as [Hu Hw].
      rewrite dec_ty_tpm2b_list. unfold dec_tpm2b_list.
      apply oki_bind with (P := fun _ tr s1 => tr = [sev pa (TyN name)] /\ s1 = s); [apply oki_emit; split; reflexivity|]. intros _ tr1 s1 (-> & ->).
      eapply oki_weaken; [|apply (tpm2b_inv szp (pchild pa szf)
        (fun szv cid => bind (dec_array (list_id e) (pchild pa buf) (match as_int szv with Some z => z | None => 0 end) (fun p => dec_ty T true e p None false))
                          (fun bv => bind (assert_done true cid) (fun _ => ret (Some (VStruct_ (TyN name) [(szf, szv); (buf, bv)])))))
        s ltac:(destruct (psigned szp); [discriminate|reflexivity]) ltac:(lia) W Hb)].
      + cbv beta. intros a tr s' C. split; [eapply (chb_trans s [sev pa (TyN name)] s); [apply chb_ev, W|exact C]|exact Logic.I].
      + intros szv cid z s4 V W4 B4 V4 Hn4 Hz.
        apply (close_inv _ _ (fun bv => Some (VStruct_ (TyN name) [(szf, szv); (buf, bv)])) cid z s4 V W4 V4 Hn4).
        apply (array_inv _ _ _ e s4 IH He W4 B4).
    - (* TTpm2bStruct *)
      intros name szf buf szp inner IH Hs pa sel s W Hb. cbn [safe_ty] in Hs. apply andb_prop in Hs as [Hs He]. apply andb_prop in Hs as [Hu Hn].
      apply andb_prop in Hu as [Hu Hw].
      rewrite dec_ty_tpm2b_struct.
      apply oki_bind with (P := fun _ tr s1 => tr = [sev pa (TyN name)] /\ s1 = s); [apply oki_emit; split; reflexivity|]. intros _ tr1 s1 (-> & ->). cbv zeta.
      eapply oki_weaken; [|apply (tpm2b_inv szp (pchild pa szf)
        (fun szv cid => if (match as_int szv with Some z => z | None => 0 end) =? 0
                        then bind (emit (sev (pchild pa buf) (ty_id inner))) (fun _ => bind (assert_done true cid) (fun _ => ret (Some (VStruct_ (TyN name) [(szf, szv); (buf, None)]))))
                        else catch_exceeded true [cid]
                               (bind (dec_ty T true inner (pchild pa buf) None false) (fun bv => bind (assert_done true cid) (fun _ => ret (Some (VStruct_ (TyN name) [(szf, szv); (buf, bv)])))))
                               (ret None))
        s ltac:(destruct (psigned szp); [discriminate|reflexivity]) ltac:(lia) W Hb)].
      + cbv beta. intros a tr s' C. split; [eapply (chb_trans s [sev pa (TyN name)] s); [apply chb_ev, W|exact C]|exact Logic.I].
      + intros szv cid z s4 V W4 B4 V4 Hn4 Hz. destruct (_ =? 0).
        * apply (close_inv _ (emit (sev (pchild pa buf) (ty_id inner))) (fun _ => Some (VStruct_ (TyN name) [(szf, szv); (buf, None)])) cid z s4 V W4 V4 Hn4).
          apply oki_emit. apply chb_ev, W4.
        * eapply oki_eq; [apply catch_true|].
          apply (close_inv _ _ (fun bv => Some (VStruct_ (TyN name) [(szf, szv); (buf, bv)])) cid z s4 V W4 V4 Hn4).
          eapply oki_weaken; [|apply (IH He (pchild pa buf) None s4 W4 B4)]. cbv beta. intros a tr s' [C _]. exact C.
    - (* TUnion *)
      intros name ar IH Hs pa sel s W Hb. cbn [safe_ty] in Hs. apply andb_prop in Hs as [Hd Ha]. rewrite dec_ty_union.
      apply oki_bind with (P := fun _ tr s1 => tr = [sev pa (TyN name)] /\ s1 = s); [apply oki_emit; split; reflexivity|]. intros _ tr1 s1 (-> & ->).
      destruct (select_arm ar sel) as [[n p]|] eqn:Es.
      + destruct (select_arm_safe ar sel n p Hd Ha Es) as [Hat Hp].
        eapply oki_weaken; [|apply (IH name pa n p s Hat Hp W Hb)]. cbv beta. intros a tr s' C.
        split; [eapply (chb_trans s [sev pa (TyN name)] s); [apply chb_ev, W|exact C]|exact Logic.I].
      + destruct sel as [[tn z]|]; intros tr s' a E; discriminate.
    - (* FNil *)
      intros prev _ pa rd s HR W _. cbn [dec_fields decls]. apply oki_ret. split; [apply chb_nil, W|exact HR].
    - (* FPlain *)
      intros n t IHt r IHr prev Hs pa rd s HR W Hb. cbn [safe_fields] in Hs. apply andb_prop in Hs as [Hs Hr]. apply andb_prop in Hs as [Hn Ht].
      rewrite dec_fields_plain. cbn [decls].
      apply oki_bind with (P := fun a tr s1 => chb s tr s1 /\ shape_val t a); [apply (IHt Ht (pchild pa n) None s W Hb)|].
      intros v tr1 s1 [C1 Hv]. eapply oki_weaken; [|apply (IHr _ Hr pa ((n, v) :: rd) s1)].
      + cbv beta. intros vals tr2 s2 [C2 HR2]. split; [eapply chb_trans; eassumption|exact HR2].
      + constructor; [|exact HR]. cbn [fst snd]. split; [reflexivity|]. destruct t; try exact Logic.I. exact Hv.
      + exact (chb_wf _ _ _ C1).
      + apply (proj2 C1), Hb.
    - (* FList *)
      intros n e IHe r IHr prev Hs pa rd s HR W Hb. cbn [safe_fields] in Hs.
      destruct prev as [|[cn [p0|]] prev']; try discriminate.
      apply andb_prop in Hs as [Hs Hr]. apply andb_prop in Hs as [Hn He].
      inversion HR as [|a [cn' v] ? rd' [Hcn Hv] HR']; subst. cbn [fst snd] in *. destruct Hv as [z ->].
      rewrite dec_fields_list. cbn [last_nonlist is_list_value as_int decls].
      apply oki_bind with (P := fun _ tr s1 => chb s tr s1); [apply (array_inv _ _ _ e s IHe He W Hb)|].
      intros v tr1 s1 C1. eapply oki_weaken; [|apply (IHr _ Hr pa ((n, v) :: (cn', Some (VInt_ (pname p0) z)) :: rd') s1)].
      + cbv beta. intros vals tr2 s2 [C2 HR2]. split; [eapply chb_trans; eassumption|exact HR2].
      + constructor; [split; [reflexivity|exact Logic.I]|exact HR].
      + exact (chb_wf _ _ _ C1).
      + apply (proj2 C1), Hb.
    - (* FUnion *)
      intros n seln u IHu r IHr prev Hs pa rd s HR W Hb. cbn [safe_fields] in Hs.
      destruct (lookupS seln prev) as [[p0|]|] eqn:Lk; try discriminate.
      apply andb_prop in Hs as [Hs Hr]. apply andb_prop in Hs as [Hun Hu].
      destruct (relp_lookup seln prev rd p0 HR Lk) as [z Lz].
      rewrite dec_fields_union, Lz. cbn [as_typed_int decls].
      apply oki_bind with (P := fun a tr s1 => chb s tr s1 /\ shape_val u a); [apply (IHu Hu (pchild pa n) (Some (pname p0, z)) s W Hb)|].
      intros v tr1 s1 [C1 _]. eapply oki_weaken; [|apply (IHr _ Hr pa ((n, v) :: rd) s1)].
      + cbv beta. intros vals tr2 s2 [C2 HR2]. split; [eapply chb_trans; eassumption|exact HR2].
      + constructor; [split; [reflexivity|exact Logic.I]|exact HR].
      + exact (chb_wf _ _ _ C1).
      + apply (proj2 C1), Hb.
    - (* ANil *) intros uname pa target p s H. discriminate.
    - (* ACons *)
      intros n key p IHp r IHr uname pa target p1 s Hat Hp W Hb. rewrite dec_arms_cons. cbn [arm_at] in Hat.
      destruct (String.eqb n target); [|apply (IHr uname pa target p1 s Hat Hp W Hb)].
      injection Hat as ->. destruct p1 as [|t|e [cnt|]]; cbn [armp_safe] in Hp; try discriminate.
      + apply oki_ret, chb_nil, W.
      + apply andb_prop in Hp as [Hn Ht].
        apply oki_bind with (P := fun _ tr s1 => chb s tr s1).
        * eapply oki_weaken; [|apply (IHp Ht (pchild pa n) None s W Hb)]. cbv beta. intros a tr s' [C _]. exact C.
        * intros v tr1 s1 C1. apply oki_ret. rewrite app_nil_r. exact C1.
      + apply andb_prop in Hp as [Hn He].
        apply oki_bind with (P := fun _ tr s1 => chb s tr s1); [apply (array_inv _ _ _ e s IHp He W Hb)|].
        intros v tr1 s1 C1. apply oki_ret. rewrite app_nil_r. exact C1.
    - exact Logic.I.
    - intros t IH. exact IH.
    - intros e IH n. exact IH.
  Qed.
End Inv.
