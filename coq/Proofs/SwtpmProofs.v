(** The swtpm-log front-end on logs in the documented layout delivers exactly the SWTPM_IO payloads. *)
From Coq Require Import ZArith List String Bool Lia.
From TV Require Import Model.Frontends.
Import ListNotations.
Open Scope Z_scope.

Definition pappend (bs : list Z) (p : parsed) : parsed := mkParsed (bs ++ p_bytes p) (p_ok p).

Lemma pappend_nil p : pappend [] p = p.
Proof. destruct p; reflexivity. Qed.
Lemma pappend_app a b p : pappend (a ++ b) p = pappend a (pappend b p).
Proof. unfold pappend. cbn [p_bytes p_ok]. rewrite app_assoc. reflexivity. Qed.
Lemma pcons_pappend b p : pcons b p = pappend [b] p.
Proof. reflexivity. Qed.

(** payload text: pairs of upper-case hex digits, separated by blanks / line ends *)
Inductive sw_spells : list Z -> list Z -> Prop :=
| ss_nil : sw_spells [] []
| ss_ws c s bs : sw_ws c = true -> sw_spells s bs -> sw_spells (c :: s) bs
| ss_pair h a l b s bs : upper_hex h = Some a -> upper_hex l = Some b -> sw_spells s bs ->
                         sw_spells (h :: l :: s) (16 * a + b :: bs).

Definition no_S (t : list Z) : Prop := Forall (fun c => c <> 83) t.
Definition no_nl (t : list Z) : Prop := Forall (fun c => c <> 10) t.

Lemma skip_free_text t s : no_S t -> sw_go (t ++ s) (WantMarker 0) = sw_go s (WantMarker 0).
Proof.
  induction 1 as [|c t Hc Ht IH]; cbn [app]; [reflexivity|].
  cbn [sw_go nth marker]. replace (c =? 83) with false by lia. exact IH.
Qed.

Lemma match_marker s : sw_go (marker ++ s) (WantMarker 0) = sw_go s WantStart.
Proof. reflexivity. Qed.

Lemma match_marker_tail s : sw_go ([87; 84; 80; 77; 95; 73; 79] ++ s) (WantMarker 1) = sw_go s WantStart.
Proof. reflexivity. Qed.

Lemma skip_marker_line rest s : no_nl rest -> sw_go (rest ++ 10 :: s) WantStart = sw_go s WantHigh.
Proof.
  induction 1 as [|c t Hc Ht IH]; cbn [app sw_go]; [reflexivity|].
  replace (c =? 10) with false by lia. exact IH.
Qed.

Lemma upper_hex_facts h a : upper_hex h = Some a -> sw_ws h = false /\ h <> 83 /\ 0 <= a < 16.
Proof.
  unfold upper_hex, sw_ws. intros H.
  destruct ((48 <=? h) && (h <=? 57)) eqn:E1; [injection H as <-; lia|].
  destruct ((65 <=? h) && (h <=? 70)) eqn:E2; [injection H as <-; lia|discriminate].
Qed.

Lemma payload txt bs s : sw_spells txt bs -> sw_go (txt ++ s) WantHigh = pappend bs (sw_go s WantHigh).
Proof.
  induction 1 as [|c t bs Hc H IH|h a l b t bs Hh Hl H IH]; cbn [app].
  - rewrite pappend_nil. reflexivity.
  - cbn [sw_go]. rewrite Hc. exact IH.
  - destruct (upper_hex_facts _ _ Hh) as (W & S & _). destruct (upper_hex_facts _ _ Hl) as (_ & _ & _).
    cbn [sw_go]. rewrite W. replace (h =? 83) with false by lia. rewrite Hh. cbn [sw_go].
    assert (Hct : (h =? 67) && (l =? 116) = false).
    { destruct (l =? 116) eqn:E; [|apply andb_false_r]. apply Z.eqb_eq in E. subst l. cbv in Hl. discriminate. }
    rewrite Hct, Hl, IH. reflexivity.
Qed.

(** one SWTPM_IO section followed by what is skipped until the next one: nothing, or a control-channel
    section ("Ctrl ..." lines, any text without the letter S) *)
Record section := mkSection { s_rest : list Z; s_text : list Z; s_bytes : list Z; s_ctrl : option (list Z) }.

Definition section_ok (x : section) : Prop :=
  no_nl (s_rest x) /\ sw_spells (s_text x) (s_bytes x) /\
  match s_ctrl x with Some t => no_S t | None => True end.

Definition section_text (x : section) : list Z :=
  marker ++ s_rest x ++ 10 :: s_text x ++ match s_ctrl x with Some t => 67 :: 116 :: t | None => [] end.

(** state in which the scanner is after a section, and how the next section's marker is met from it *)
Lemma after_section x s st0 :
  section_ok x -> (st0 = WantMarker 0 \/ st0 = WantHigh) ->
  (forall k, sw_go (marker ++ k) st0 = sw_go k WantStart) ->
  exists st1, (st1 = WantMarker 0 \/ st1 = WantHigh) /\
    (forall k, sw_go (marker ++ k) st1 = sw_go k WantStart) /\
    sw_go (section_text x ++ s) st0 = pappend (s_bytes x) (sw_go s st1).
Proof.
  intros (Hr & Ht & Hc) _ Hm. unfold section_text.
  rewrite <- !app_assoc. rewrite Hm. rewrite <- app_comm_cons, skip_marker_line by exact Hr.
  rewrite <- app_assoc, (payload _ _ _ Ht).
  destruct (s_ctrl x) as [t|].
  - exists (WantMarker 0). split; [left; reflexivity|]. split; [intros k; reflexivity|].
    f_equal. cbn [app]. cbn [sw_go sw_ws]. cbn. apply skip_free_text. exact Hc.
  - exists WantHigh. split; [right; reflexivity|]. split; [intros k; reflexivity|]. reflexivity.
Qed.

Fixpoint log_text (xs : list section) : list Z :=
  match xs with [] => [] | x :: r => section_text x ++ log_text r end.

Lemma sections_parse xs : Forall section_ok xs -> forall st0,
  (st0 = WantMarker 0 \/ st0 = WantHigh) -> (forall k, sw_go (marker ++ k) st0 = sw_go k WantStart) ->
  sw_go (log_text xs) st0 = mkParsed (flat_map s_bytes xs) true.
Proof.
  induction 1 as [|x r Hx Hr IH]; intros st0 Hst Hm; cbn [log_text flat_map].
  - destruct Hst as [-> | ->]; reflexivity.
  - destruct (after_section x (log_text r) st0 Hx Hst Hm) as (st1 & Hst1 & Hm1 & E).
    rewrite E, (IH st1 Hst1 Hm1). reflexivity.
Qed.

(** C15 (swtpm log): free text (without the letter S) before the first section, then SWTPM_IO sections,
    each optionally followed by control-channel text: the bytes delivered are exactly the SWTPM_IO payloads *)
Theorem swtpm_documented_layout pre xs :
  no_S pre -> Forall section_ok xs ->
  parse_swtpm (pre ++ log_text xs) = mkParsed (flat_map s_bytes xs) true.
Proof.
  intros Hp Hx. unfold parse_swtpm. rewrite skip_free_text by exact Hp.
  apply sections_parse; [exact Hx|left; reflexivity|intros k; reflexivity].
Qed.
