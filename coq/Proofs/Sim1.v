(** Simulation, part 1: the view of the live size constraints, and how each constraint operation acts on
    it when the bytes to come fit every live region (strict mode). *)
From Coq Require Import ZArith List String Bool Lia ZifyBool.
From TV Require Import Layout.Types Base.Bytes Model.Monad Model.Constraints Model.Ints Model.Decoder Model.Message.
Import ListNotations.
Open Scope list_scope.
Open Scope Z_scope.

Definition entry := (nat * option Z * Z)%type.          (* id, limit, bytes counted *)

Definition live (s : st) (i : nat) : bool := negb (sc_obs (get_sc s i)).
Definition entry_of (s : st) (i : nat) : entry := (i, sc_max (get_sc s i), sc_already (get_sc s i)).
Definition view (s : st) : list entry := map (entry_of s) (filter (live s) (lst s)).

Definition bump_entry (n : Z) (e : entry) : entry := let '(i, mx, al) := e in (i, mx, al + n).
Definition bump (n : Z) (v : list entry) : list entry := map (bump_entry n) v.

Definition entry_fits (n : Z) (e : entry) : Prop :=
  let '(_, mx, al) := e in match mx with Some m => al + n <= m | None => True end.
Definition fits (v : list entry) (n : Z) : Prop := Forall (entry_fits n) v.

Definition wf_st (s : st) : Prop :=
  NoDup (lst s) /\ Forall (fun i => (i < List.length (store s))%nat) (lst s).

(** ---- elementary facts *)
Lemma bump_bump a b v : bump b (bump a v) = bump (a + b) v.
Proof. unfold bump. rewrite map_map. apply map_ext. intros [[i mx] al]. cbn. f_equal. lia. Qed.
Lemma bump_0 v : bump 0 v = v.
Proof. unfold bump. rewrite <- (map_id v) at 2. apply map_ext. intros [[i mx] al]. cbn. f_equal. lia. Qed.
Lemma bump_app n a b : bump n (a ++ b) = bump n a ++ bump n b.
Proof. apply map_app. Qed.

Lemma fits_split v a b : 0 <= a -> 0 <= b -> fits v (a + b) -> fits v a /\ fits (bump a v) b.
Proof.
  intros Ha Hb H. split.
  - eapply Forall_impl; [|exact H]. intros [[i [m|]] al]; cbn; lia.
  - unfold bump. apply Forall_map. eapply Forall_impl; [|exact H]. intros [[i [m|]] al]; cbn; lia.
Qed.
Lemma fits_le v a b : 0 <= a <= b -> fits v b -> fits v a.
Proof. intros Hab H. eapply Forall_impl; [|exact H]. intros [[i [m|]] al]; cbn; lia. Qed.

Lemma get_sc_upd_same l i c : (i < List.length l)%nat -> nth i (upd l i c) sc_dummy = c.
Proof. revert i. induction l as [|x l IH]; intros i H; [cbn in H; lia|]. destruct i; cbn; [reflexivity|]. apply IH. cbn in H. lia. Qed.
Lemma get_sc_upd_other l i j c : i <> j -> nth j (upd l i c) sc_dummy = nth j l sc_dummy.
Proof. revert i j. induction l as [|x l IH]; intros i j H; [destruct i, j; reflexivity|]. destruct i, j; cbn; try reflexivity; [congruence|]. apply IH. congruence. Qed.
Lemma upd_length {A} (l : list A) i c : List.length (upd l i c) = List.length l.
Proof. revert i. induction l as [|x l IH]; intros i; [destruct i; reflexivity|]. destruct i; cbn; [reflexivity|]. rewrite IH. reflexivity. Qed.

(** a state transformer that only rewrites store entries of ids outside [ids] leaves their entries alone *)
Lemma view_ext s s' : lst s' = lst s -> (forall i, In i (lst s) -> get_sc s' i = get_sc s i) -> view s' = view s.
Proof.
  intros Hl Hg. unfold view. rewrite Hl.
  assert (F : filter (live s') (lst s) = filter (live s) (lst s)).
  { apply filter_ext_in. intros i Hi. unfold live. rewrite (Hg i Hi). reflexivity. }
  rewrite F. apply map_ext_in. intros i Hi. apply filter_In in Hi as [Hi _]. unfold entry_of. rewrite (Hg i Hi). reflexivity.
Qed.

Lemma view_inp s ys : view (mkSt ys (store s) (lst s)) = view s.
Proof. reflexivity. Qed.

(** ---- bump_all: every listed id is charged once (ids distinct and allocated) *)
Lemma bump_all_spec ids n : forall s, NoDup ids -> Forall (fun i => (i < List.length (store s))%nat) ids ->
  exists s', bump_all ids n s = ([], s', Ok tt) /\ inp s' = inp s /\ lst s' = lst s /\
             List.length (store s') = List.length (store s) /\
             (forall i, In i ids -> get_sc s' i = let c := get_sc s i in mkSc (sc_path c) (sc_max c) (sc_already c + n) (sc_obs c)) /\
             (forall i, ~ In i ids -> get_sc s' i = get_sc s i).
Proof.
  induction ids as [|i r IH]; intros s ND AL.
  - exists s. cbn. repeat split; try reflexivity. intros i [].
  - inversion ND as [|? ? Hni NDr]; subst. inversion AL as [|? ? Hi ALr]; subst.
    cbn [bump_all]. unfold bind at 1. cbn [get]. unfold bind at 1. cbn [set_sc app].
    set (s1 := mkSt (inp s) (upd (store s) i _) (lst s)).
    assert (AL1 : Forall (fun j => (j < List.length (store s1))%nat) r) by (cbn [s1 store]; rewrite upd_length; exact ALr).
    destruct (IH s1 NDr AL1) as (s' & E & I1 & L1 & Len & Hin & Hout).
    exists s'. rewrite E. split; [reflexivity|]. split; [exact I1|]. split; [exact L1|].
    split; [rewrite Len; cbn [s1 store]; apply upd_length|]. split.
    + intros j [<-|Hj].
      * rewrite (Hout i Hni). unfold get_sc. cbn [s1 store]. rewrite get_sc_upd_same by exact Hi. reflexivity.
      * rewrite (Hin j Hj). unfold get_sc. cbn [s1 store].
        rewrite get_sc_upd_other by (intros ->; contradiction). reflexivity.
    + intros j Hj. rewrite Hout by (intros Hx; apply Hj; right; exact Hx).
      unfold get_sc. cbn [s1 store]. rewrite get_sc_upd_other by (intros ->; apply Hj; left; reflexivity). reflexivity.
Qed.

(** ---- purge keeps the view *)
Lemma purge_spec s : exists s', purge s = ([], s', Ok tt) /\ inp s' = inp s /\ store s' = store s /\
  lst s' = filter (live s) (lst s).
Proof. eexists. unfold purge, bind, get, set_lst. cbn. split; [reflexivity|]. repeat split. Qed.

Lemma filter_filter {A} (f : A -> bool) l : filter f (filter f l) = filter f l.
Proof. induction l as [|x l IH]; [reflexivity|]. cbn. destruct (f x) eqn:E; cbn; rewrite ?E, IH; reflexivity. Qed.

Lemma find_violated_none s ids size :
  Forall (fun i => exceeds (get_sc s i) size = None) ids -> forall pre, find_violated s ids size pre = None.
Proof. induction 1 as [|i r Hi _ IH]; intros pre; cbn [find_violated]; [reflexivity|]. rewrite Hi. apply IH. Qed.

Lemma exceeds_none_of_fits c size : match sc_max c with Some m => sc_already c + size <= m | None => True end -> exceeds c size = None.
Proof. unfold exceeds. destruct (sc_max c) as [m|]; [|reflexivity]. intros H. replace (m <? sc_already c + size) with false by lia. reflexivity. Qed.

(** O1: the list-level size check when no listed live region would be crossed *)
Theorem bytes_parsed_nv p size s : wf_st s ->
  find_violated (mkSt [] (store s) (filter (live s) (lst s))) (filter (live s) (lst s)) size [] = None ->
  exists s', bytes_parsed p size s = ([], s', Ok tt) /\ inp s' = inp s /\ view s' = bump size (view s) /\ wf_st s' /\
             List.length (store s') = List.length (store s) /\
             (forall i, ~ In i (lst s) -> get_sc s' i = get_sc s i) /\ incl (lst s') (lst s).
Proof.
  intros [ND AL] NV. unfold bytes_parsed. unfold bind at 1.
  destruct (purge_spec s) as (s0 & E0 & I0 & St0 & L0). rewrite E0. unfold bind at 1. cbn [get app].
  assert (ND0 : NoDup (lst s0)) by (rewrite L0; apply NoDup_filter, ND).
  assert (AL0 : Forall (fun i => (i < List.length (store s0))%nat) (lst s0)).
  { rewrite L0, St0. apply Forall_forall. intros i Hi. apply filter_In in Hi as [Hi _]. rewrite Forall_forall in AL. apply AL, Hi. }
  assert (G0 : forall i, get_sc s0 i = get_sc s i) by (intros i; unfold get_sc; rewrite St0; reflexivity).
  cbn [lst]. rewrite St0, L0, NV.
  destruct (bump_all_spec (lst s0) size s0 ND0 AL0) as (s' & E & I1 & L1 & Len & Hin & Hout).
  rewrite <- L0. rewrite E. exists s'. split; [reflexivity|]. split; [congruence|].
  assert (Live : forall i, live s' i = live s i).
  { intros i. unfold live. destruct (in_dec Nat.eq_dec i (lst s0)) as [Hi|Hi].
    - rewrite (Hin i Hi). cbn. rewrite G0. reflexivity.
    - rewrite (Hout i Hi), G0. reflexivity. }
  split.
  - unfold view. rewrite L1, L0.
    rewrite (filter_ext _ _ Live), filter_filter. unfold bump. rewrite map_map. apply map_ext_in.
    intros i Hi. unfold entry_of, bump_entry. rewrite (Hin i) by (rewrite L0; exact Hi). cbn. rewrite !G0. reflexivity.
  - split; [split; [rewrite L1; exact ND0|rewrite L1, Len; exact AL0]|]. split; [rewrite Len, St0; reflexivity|].
    split.
    + intros i Hi. rewrite Hout, G0; [reflexivity|]. rewrite L0. intros Hx. apply filter_In in Hx as [Hx _]. contradiction.
    + rewrite L1, L0. intros i Hi. apply filter_In in Hi as [Hi _]. exact Hi.
Qed.

Theorem bytes_parsed_fits p size s : wf_st s -> fits (view s) size ->
  exists s', bytes_parsed p size s = ([], s', Ok tt) /\ inp s' = inp s /\ view s' = bump size (view s) /\ wf_st s' /\
             List.length (store s') = List.length (store s) /\
             (forall i, ~ In i (lst s) -> get_sc s' i = get_sc s i) /\ incl (lst s') (lst s).
Proof.
  intros W F. apply bytes_parsed_nv; [exact W|].
  apply find_violated_none. apply Forall_forall. intros i Hi.
  cbv beta. unfold get_sc at 1. cbn [store]. fold (get_sc s i).
  apply exceeds_none_of_fits. unfold fits, view in F. rewrite Forall_forall in F.
  specialize (F (entry_of s i)). cbn in F. apply F. apply in_map. exact Hi.
Qed.

(** ---- what a run leaves alone: constraint objects allocated before (index below [n]) and not listed are neither
    changed nor listed afterwards; the store only grows *)
Definition frame_from (n : nat) (a b : st) : Prop :=
  (List.length (store a) <= List.length (store b))%nat /\
  forall i, (i < n)%nat -> ~ In i (lst a) -> get_sc b i = get_sc a i /\ ~ In i (lst b).
Definition frame (a b : st) : Prop := frame_from (List.length (store a)) a b.

Lemma frame_from_refl n a : frame_from n a a.
Proof. split; [lia|]. intros i _ Hi. split; [reflexivity|exact Hi]. Qed.
Lemma frame_from_trans n a b c : frame_from n a b -> frame_from n b c -> frame_from n a c.
Proof.
  intros [L1 H1] [L2 H2]. split; [lia|]. intros i Hi Hn. destruct (H1 i Hi Hn) as [G1 N1].
  destruct (H2 i Hi N1) as [G2 N2]. split; [congruence|exact N2].
Qed.
Lemma frame_from_le m n a b : (m <= n)%nat -> frame_from n a b -> frame_from m a b.
Proof. intros Hmn [L H]. split; [exact L|]. intros i Hi. apply H. lia. Qed.
Lemma frame_refl a : frame a a.
Proof. apply frame_from_refl. Qed.
Lemma frame_trans a b c : frame a b -> frame b c -> frame a c.
Proof. intros H1 H2. eapply frame_from_trans; [exact H1|]. eapply frame_from_le; [|exact H2]. destruct H1 as [L _]. exact L. Qed.
Lemma frame_weaken n a b : (n <= List.length (store a))%nat -> frame a b -> frame_from n a b.
Proof. intros Hn H. eapply frame_from_le; [exact Hn|exact H]. Qed.
(** a step that only rewrites the entry of [cid] and lists at most [cid] in addition *)
Lemma frame_from_only cid n a b : (n <= cid)%nat -> (List.length (store a) <= List.length (store b))%nat ->
  (forall i, i <> cid -> get_sc b i = get_sc a i) -> (forall i, In i (lst b) -> In i (lst a) \/ i = cid) -> frame_from n a b.
Proof.
  intros Hn L G I. split; [exact L|]. intros i Hi Hni. split; [apply G; lia|].
  intros Hx. destruct (I i Hx) as [Hy|Hy]; [contradiction|lia].
Qed.
(** frames ignore the input *)
Lemma frame_from_inp n a b ia ib : frame_from n a b -> frame_from n (mkSt ia (store a) (lst a)) (mkSt ib (store b) (lst b)).
Proof. intros H. exact H. Qed.

