(** C08, part 4: warn mode never aborts - every root, through the byte pump. *)
From Coq Require Import ZArith List String Bool Lia ZifyBool.
From TV Require Import Layout.Types Base.Bytes Model.Monad Model.Constraints Model.Ints Model.Decoder Model.Message Model.Pump
  Spec.Value Proofs.Closure Proofs.LowClosure Proofs.Account Proofs.Agree Proofs.Sim1 Proofs.Sim2 Proofs.Sim3 Proofs.Sim4 Proofs.Sim7
  Proofs.Sim8 Proofs.Sim9 Proofs.Sim10 Proofs.Sim11 Proofs.Safe1 Proofs.Safe2 Proofs.Safe3 Proofs.Safe4 Proofs.Warn1 Proofs.Warn2 Proofs.Warn3.
Import ListNotations.
Open Scope list_scope.
Open Scope Z_scope.

Section RootsW.
  Variable T : tables.
  Hypothesis Hsafe : msg_safe T = true.
  Hypothesis Hb2m : msg_b2 T = true.

  Lemma acc_cmd_w pa : accounts (dec_command T false pa).
  Proof. apply (P_dec_command T false (@accounts) (lclosed_closed _ accounts_lclosed false)). Qed.
  Lemma acc_rsp_w pa cc enc : accounts (dec_response T false pa cc enc).
  Proof. apply (P_dec_response T false (@accounts) (lclosed_closed _ accounts_lclosed false)). Qed.

  (** the stream loop in warn mode: with more iterations than input bytes it never runs to completion *)
  Lemma stream_loop_w : forall n s, wf_st s -> Forall isbyte (inp s) -> (List.length (inp s) < n)%nat ->
    rw [] (iter n (sbody T false) tt) s (fun _ _ _ => False).
  Proof.
    induction n as [|n IH]; intros s W Hb Hl; [lia|]. cbn [iter].
    apply rw0_bind with (P := fun _ _ s1 => wf_st s1 /\ Forall isbyte (inp s1) /\ (List.length (inp s1) < n)%nat).
    - unfold sbody.
      apply rw0_bind with (P := fun res tr s1 => cmd_postw T res tr s1 /\ inp s = bytes_of tr ++ inp s1).
      + intros tr s1 o E. destruct (cmd_w T Hsafe Hb2m root_path s W Hb _ _ _ E) as (G & P & X). split; [exact G|]. split; [|exact X].
        intros res ->. split; [apply (P res eq_refl)|apply (acc_cmd_w _ _ _ _ _ E)].
      + intros res tr1 s1 ((W1 & B1 & Hr1 & Henc) & Ha1).
        destruct (is_param_enc (sess_attr_field T) (mask_encrypt T) (cr_area res)) as [enc|]; [|exfalso; apply Henc; reflexivity].
        apply rw_bind_ret with (P := fun _ tr s2 => rsp_corew s2 /\ inp s1 = bytes_of tr ++ inp s2).
        * intros tr s2 o E. destruct (rsp_w T Hsafe Hb2m root_path (cr_cc res) enc s1 W1 B1 _ _ _ E) as (G & P & X). split; [exact G|]. split; [|exact X].
          intros v ->. split; [apply (P v eq_refl)|apply (acc_rsp_w _ _ _ _ _ _ _ E)].
        * intros u2 tr2 s2 ((W2 & B2) & Ha2). split; [exact W2|]. split; [exact B2|].
          apply (f_equal (@List.length Z)) in Ha1, Ha2. rewrite app_length in Ha1, Ha2. unfold blen in Hr1. lia.
    - intros [] tr1 s1 (W1 & B1 & L1). eapply rw_weaken; [|apply (IH s1 W1 B1 L1)]. cbv beta. intros ? ? ? [].
  Qed.

  Lemma dec_root_stream_w s : dec_root T false RStream s = bind (dec_stream T false root_path) (fun _ => ret (@None value)) s.
  Proof. reflexivity. Qed.
  Lemma dec_stream_fold_w s : dec_stream T false root_path s = bind (rep stream_bound (sbody T false) tt) (fun _ => @fuel_ unit) s.
  Proof. reflexivity. Qed.

  Lemma stream_goodw bs : Forall isbyte bs -> Z.of_nat (List.length bs) < Z.pos stream_bound ->
    forall tr s' o, dec_root T false RStream (init_st bs) = (tr, s', o) -> gw [] o.
  Proof.
    intros Hb Hw tr s' o E. rewrite dec_root_stream_w in E.
    assert (HN : (List.length bs < Pos.to_nat stream_bound)%nat) by (apply Nat2Z.inj_lt; rewrite positive_nat_Z; exact Hw).
    assert (R : rw [] (bind (dec_stream T false root_path) (fun _ => ret (@None value))) (init_st bs) (fun _ _ _ => True)).
    { apply rw0_bind with (P := fun _ _ _ => False).
      - eapply rw_eq; [apply dec_stream_fold_w|]. apply rw0_bind with (P := fun _ _ _ => False).
        + eapply rw_eq; [apply (rep_iter _ (sbody T false) stream_bound tt)|]. apply (stream_loop_w _ (init_st bs) (wf_init bs) Hb HN).
        + intros ? ? ? [].
      - intros ? ? ? []. }
    apply (proj1 (R _ _ _ E)).
  Qed.

  (** which roots the theorem speaks about: a response may come with any command code, or none *)
  Definition root_safe_w (r : root) : Prop :=
    match r with
    | RType t => safe_ty t = true /\ nonunion t = true /\ bytes2b t = true
    | _ => True
    end.

  Lemma Lok_init bs : Lok (mkSt bs [] []) [].
  Proof. split; [intros j []|constructor]. Qed.

  Theorem root_goodw r bs : root_safe_w r -> Forall isbyte bs -> within_bound r bs ->
    forall tr s' o, dec_root T false r (init_st bs) = (tr, s', o) -> gw [] o.
  Proof.
    intros Hr Hb Hw tr s' o E. destruct r as [t| |cc enc|].
    - destruct Hr as (Hs & Hn & H2). cbn [dec_root] in E. unfold bind in E. cbn [set_lst init_st inp store lst] in E.
      destruct (dec_ty T false t root_path None false (mkSt bs [] [])) as [[tr1 s1] o1] eqn:E1.
      destruct (proj1 (warn_all T) t Hs H2 root_path None (mkSt bs [] []) [] ltac:(intros Hx; unfold nonunion in Hn; rewrite Hx in Hn; discriminate)
                  ltac:(split; constructor) Hb (Lok_init bs) _ _ _ E1) as (G & _).
      destruct o1; injection E as _ _ <-; exact G.
    - cbn [dec_root] in E.
      assert (R : rw [] (bind (dec_command T false root_path) (fun c => ret (Some (cr_obj c)))) (init_st bs) (fun _ _ _ => True)).
      { apply rw_bind_ret with (P := fun _ _ _ => True); [eapply rw_weaken; [|apply (cmd_w T Hsafe Hb2m root_path (init_st bs) (wf_init bs) Hb)]; intros; exact Logic.I|].
        intros; exact Logic.I. }
      apply (proj1 (R _ _ _ E)).
    - cbn [dec_root] in E.
      assert (R : rw [] (bind (dec_response T false root_path cc enc) (fun v => ret (Some v))) (init_st bs) (fun _ _ _ => True)).
      { apply rw_bind_ret with (P := fun _ _ _ => True); [eapply rw_weaken; [|apply (rsp_w T Hsafe Hb2m root_path cc enc (init_st bs) (wf_init bs) Hb)]; intros; exact Logic.I|].
        intros; exact Logic.I. }
      apply (proj1 (R _ _ _ E)).
    - exact (stream_goodw bs Hb (Hw eq_refl) tr s' o E).
  Qed.

  (** what a warn-mode decode may end with: it ran to the end of the input (problems reported as warnings), or the
      layout became unknowable: an unknown or missing command code, a selector that selects no member *)
  Definition warn_outcome_ok (o : outcome) : Prop :=
    match o with
    | OAccepted => True
    | ORaised (EValue _ _ _ src) _ => src <> VSType
    | _ => False
    end.

  Lemma pump_warn_ok {A} is_stream input (run : list action * st * out A) :
    gw [] (snd run) -> warn_outcome_ok (snd (pump false is_stream input run)).
  Proof.
    destruct run as [[tr s'] o]. cbn [snd]. intros G. unfold pump.
    destruct (pump_go is_stream _ tr _) as [ps stopped]. destruct stopped; [exact Logic.I|].
    destruct o as [a|e| |k|]; try contradiction; cbn [snd].
    - destruct (skipZ input (ps_nrd ps)); exact Logic.I.
    - destruct e as [p0 tn v src|c v b|c v val b|c|cc|rest cc|mp me mf]; cbn [gw okfail] in G; try contradiction. exact G.
    - exact Logic.I.
  Qed.

  (** C08: warn-mode decoding of any byte string under any root never aborts on malformed data *)
  Theorem any_root_never_aborts r bs : root_safe_w r -> Forall isbyte bs -> within_bound r bs ->
    warn_outcome_ok (snd (decode T false r bs)).
  Proof.
    intros Hr Hb Hw. unfold decode. apply pump_warn_ok.
    destruct (dec_root T false r (init_st bs)) as [[tr s'] o] eqn:E. cbn [snd]. apply (root_goodw r bs Hr Hb Hw tr s' o E).
  Qed.
End RootsW.
