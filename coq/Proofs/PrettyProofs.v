(** The pretty printer shows every byte and every event exactly once, in order. *)
From Coq Require Import ZArith List String Bool Lia.
From TV Require Import Layout.Types Model.Monad Model.Ints Model.Attr Model.RC Model.Pretty.
Import ListNotations.
Open Scope list_scope.

Section P.
  Variable T : tables.
  Variable d : string.

  Definition pending_hex (st : pstate) : list Z := match st with InBytes _ _ buf _ _ => buf | _ => [] end.
  Definition pending_cover (st : pstate) : list pev :=
    match st with InBytes _ _ _ c dw => c ++ dw | InElems _ _ dw => dw | Top => [] end.

  Lemma attr_rows_hex pa p z : List.concat (map row_hex (attr_rows T d pa p z)) = [].
  Proof.
    unfold attr_rows. destruct (pkind_ p) as [|ms|masks|]; try reflexivity.
    - induction masks as [|m r IH]; [reflexivity|exact IH].
    - induction (rc_rows T d z) as [|m r IH]; [reflexivity|exact IH].
  Qed.
  Lemma attr_rows_cover pa p z : List.concat (map row_cover (attr_rows T d pa p z)) = [].
  Proof.
    unfold attr_rows. destruct (pkind_ p) as [|ms|masks|]; try reflexivity.
    - induction masks as [|m r IH]; [reflexivity|exact IH].
    - induction (rc_rows T d z) as [|m r IH]; [reflexivity|exact IH].
  Qed.
  Lemma attr_rows_nocrash pa p z : ~ In RCrashRow (attr_rows T d pa p z).
  Proof.
    unfold attr_rows. destruct (pkind_ p) as [|ms|masks|]; cbn; try tauto.
    - induction masks as [|m r IH]; cbn; [tauto|]. intros [H|H]; [discriminate|exact (IH H)].
    - induction (rc_rows T d z) as [|m r IH]; cbn; [tauto|]. intros [H|H]; [discriminate|exact (IH H)].
  Qed.

  Lemma full_rows_hex e : List.concat (map row_hex (full_rows T d e)) = pev_bytes e.
  Proof.
    destruct e as [pa tn|pa en b|pa p z|t]; cbn [full_rows plain_row map List.concat row_hex pev_bytes app]; try reflexivity.
    rewrite attr_rows_hex, app_nil_r. reflexivity.
  Qed.
  Lemma full_rows_cover e : List.concat (map row_cover (full_rows T d e)) = [e].
  Proof.
    destruct e as [pa tn|pa en b|pa p z|t]; cbn [full_rows plain_row map List.concat row_cover app]; try reflexivity.
    rewrite attr_rows_cover. reflexivity.
  Qed.

  Definition all_warn (ws : list pev) : Prop := Forall (fun e => match e with PWarn _ => True | _ => False end) ws.
  Lemma warn_rows_hex ws : all_warn ws -> List.concat (map row_hex (warn_rows T d ws)) = [].
  Proof. induction 1 as [|e ws He _ IH]; [reflexivity|]. destruct e; try contradiction. exact IH. Qed.
  Lemma warn_rows_bytes ws : all_warn ws -> List.concat (map pev_bytes ws) = [].
  Proof. induction 1 as [|e ws He _ IH]; [reflexivity|]. destruct e; try contradiction. exact IH. Qed.
  Lemma warn_rows_cover ws : List.concat (map row_cover (warn_rows T d ws)) = ws.
  Proof. induction ws as [|e ws IH]; [reflexivity|]. cbn [warn_rows map List.concat]. fold (warn_rows T d ws). rewrite IH. destruct e; reflexivity. Qed.

  (** states the printer can be in: the list whose elements are being shown is a non-byte list; only warnings are deferred *)
  Definition st_ok (st : pstate) : Prop :=
    match st with
    | InElems (PList _ _ false) _ dw => all_warn dw
    | InElems _ _ _ => False
    | InBytes _ _ _ _ dw => all_warn dw
    | Top => True
    end.

  Lemma all_warn_snoc dw t : all_warn dw -> all_warn (dw ++ [PWarn t]).
  Proof. intros H. apply Forall_app. split; [exact H|]. constructor; [exact I|constructor]. Qed.

  Lemma in_app_not {A} (x : A) l1 l2 : ~ In x (l1 ++ l2) -> ~ In x l1 /\ ~ In x l2.
  Proof. intros Hn. split; intros Hx; apply Hn, in_or_app; [left|right]; exact Hx. Qed.

  (** what a state still owes: the hex of its buffer; printing never fails on decoder-shaped input *)
  Definition H (rows : list row) : list Z := List.concat (map row_hex rows).
  Lemma H_app a b : H (a ++ b) = H a ++ H b.
  Proof. unfold H. rewrite map_app, concat_app. reflexivity. Qed.
  Lemma H_cons r a : H (r :: a) = row_hex r ++ H a. Proof. reflexivity. Qed.

  (** C14: the hex column, concatenated over all rows, is the bytes of the decoded fields, in order
      (for every event list on which the printer does not fail, i.e. whose byte-buffer elements are primitives) *)
  Ltac solve_ok := first [exact I | assumption | apply Forall_nil | apply all_warn_snoc; assumption].

  Theorem hex_column_is_all_bytes evs : forall st, st_ok st ->
    ~ In RCrashRow (pp T d evs st) ->
    H (pp T d evs st) = pending_hex st ++ List.concat (map pev_bytes evs).
  Proof.
    induction evs as [|e r IH]; intros st OK NC.
    - destruct st as [|pa en buf cover dw|parent empty dw]; cbn [pp pending_hex map List.concat]; try reflexivity.
      + rewrite H_cons. unfold H at 1. rewrite (warn_rows_hex _ OK). reflexivity.
      + destruct parent as [| ? ? [|] | |]; try contradiction. rewrite H_app. unfold H at 2. rewrite (warn_rows_hex _ OK).
        destruct empty; reflexivity.
    - destruct st as [|pa en buf cover dw|parent empty dw]; cbn [pp] in *.
      + destruct e as [pa tn|pa en b|pa p z|t].
        * rewrite H_app. unfold H at 1. rewrite full_rows_hex. apply in_app_not in NC as [_ NC]. (rewrite IH; [|solve_ok|exact NC]). reflexivity.
        * destruct b; [(rewrite IH; [|solve_ok|exact NC])|(rewrite IH; [|solve_ok|exact NC])]; reflexivity.
        * rewrite H_app. unfold H at 1. rewrite full_rows_hex. apply in_app_not in NC as [_ NC]. (rewrite IH; [|solve_ok|exact NC]). reflexivity.
        * rewrite H_app. unfold H at 1. rewrite full_rows_hex. apply in_app_not in NC as [_ NC]. (rewrite IH; [|solve_ok|exact NC]). reflexivity.
      + assert (Hout : forall x, ~ In RCrashRow (bytes_row pa en buf cover :: warn_rows T d dw ++ full_rows T d x ++ pp T d r Top) ->
                  H (bytes_row pa en buf cover :: warn_rows T d dw ++ full_rows T d x ++ pp T d r Top) =
                  buf ++ pev_bytes x ++ List.concat (map pev_bytes r)).
        { intros x NC'. rewrite H_cons, !H_app. unfold H at 1 2. rewrite (warn_rows_hex _ OK), full_rows_hex.
          assert (NC2 : ~ In RCrashRow (pp T d r Top)).
          { intros Hx. apply NC'. right. apply in_or_app. right. apply in_or_app. right. exact Hx. }
          (rewrite IH; [|solve_ok|exact NC2]). reflexivity. }
        cbn [pending_hex map List.concat].
        destruct e as [pa' tn|pa' en' b|pa' p z|t]; cbn [pev_path] in *.
        * destruct (is_child pa pa'); [exfalso; apply NC; left; reflexivity|]. apply (Hout (PStruct pa' tn) NC).
        * destruct (is_child pa pa'); [exfalso; apply NC; left; reflexivity|]. apply (Hout (PList pa' en' b) NC).
        * destruct (is_child pa pa').
          -- (rewrite IH; [|solve_ok|exact NC]). cbn [pending_hex pev_bytes]. unfold prim_hex. rewrite <- app_assoc. reflexivity.
          -- apply (Hout (PPrim pa' p z) NC).
        * (rewrite IH; [|solve_ok|exact NC]). reflexivity.
      + destruct parent as [| ppa pen [|] | |]; try contradiction.
        cbn [pending_hex map List.concat app].
        assert (Hparent : forall b : bool, H (if b then [plain_row T d (PList ppa pen false)] else []) = []) by (intros []; reflexivity).
        destruct e as [pa' tn|pa' en' b|pa' p z|t]; cbn [pev_path] in *.
        * destruct (is_child ppa pa').
          -- rewrite H_app, H_cons. unfold H at 1. rewrite (warn_rows_hex _ OK).
             apply in_app_not in NC as [_ NC]. assert (NC2 : ~ In RCrashRow (pp T d r (InElems (PList ppa pen false) false []))) by (intros Hx; apply NC; right; exact Hx).
             (rewrite IH; [|solve_ok|exact NC2]). reflexivity.
          -- rewrite !H_app, Hparent. unfold H at 1 2. rewrite (warn_rows_hex _ OK), full_rows_hex.
             apply in_app_not in NC as [_ NC]. apply in_app_not in NC as [_ NC]. apply in_app_not in NC as [_ NC].
             (rewrite IH; [|solve_ok|exact NC]). reflexivity.
        * destruct (is_child ppa pa').
          -- rewrite H_app, H_cons. unfold H at 1. rewrite (warn_rows_hex _ OK).
             apply in_app_not in NC as [_ NC]. assert (NC2 : ~ In RCrashRow (pp T d r (InElems (PList ppa pen false) false []))) by (intros Hx; apply NC; right; exact Hx).
             (rewrite IH; [|solve_ok|exact NC2]). reflexivity.
          -- rewrite !H_app, Hparent. unfold H at 1 2. rewrite (warn_rows_hex _ OK), full_rows_hex.
             apply in_app_not in NC as [_ NC]. apply in_app_not in NC as [_ NC]. apply in_app_not in NC as [_ NC].
             (rewrite IH; [|solve_ok|exact NC]). reflexivity.
        * destruct (is_child ppa pa').
          -- rewrite H_app, H_cons. unfold H at 1. rewrite (warn_rows_hex _ OK).
             apply in_app_not in NC as [_ NC]. assert (NC2 : ~ In RCrashRow (pp T d r (InElems (PList ppa pen false) false []))) by (intros Hx; apply NC; right; exact Hx).
             (rewrite IH; [|solve_ok|exact NC2]). cbn [plain_row row_hex pending_hex pev_bytes app]. unfold prim_hex. reflexivity.
          -- rewrite !H_app, Hparent. unfold H at 1 2. rewrite (warn_rows_hex _ OK), full_rows_hex.
             apply in_app_not in NC as [_ NC]. apply in_app_not in NC as [_ NC]. apply in_app_not in NC as [_ NC].
             (rewrite IH; [|solve_ok|exact NC]). reflexivity.
        * destruct empty.
          -- (rewrite IH; [|solve_ok|exact NC]). reflexivity.
          -- rewrite H_cons. assert (NC2 : ~ In RCrashRow (pp T d r (InElems (PList ppa pen false) false dw))) by (intros Hx; apply NC; right; exact Hx).
             (rewrite IH; [|solve_ok|exact NC2]). reflexivity.
  Qed.

  (** ---- every event is shown by exactly one row, in order *)
  Definition CV (rows : list row) : list pev := List.concat (map row_cover rows).
  Lemma CV_app a b : CV (a ++ b) = CV a ++ CV b.
  Proof. unfold CV. rewrite map_app, concat_app. reflexivity. Qed.
  Lemma CV_cons r a : CV (r :: a) = row_cover r ++ CV a. Proof. reflexivity. Qed.

  Definition is_warn (e : pev) : bool := match e with PWarn _ => true | _ => false end.
  (** a selection of events that either ignores warnings or selects warnings only (warnings raised inside a list
      before its row is printed are shown right after that row), and that ignores the parents of non-byte lists
      (which have a row only when the list is empty) *)
  Definition separates (f : pev -> bool) : Prop :=
    (forall e, is_warn e = true -> f e = false) \/ (forall e, is_warn e = false -> f e = false).
  Definition ignores_list_parents (f : pev -> bool) : Prop := forall pa en, f (PList pa en false) = false.

  Lemma filter_warns_none f ws : (forall e, is_warn e = true -> f e = false) -> all_warn ws -> filter f ws = [].
  Proof.
    intros Hf. induction 1 as [|e ws He _ IH]; [reflexivity|]. cbn [filter]. destruct e as [| | |t]; try contradiction. rewrite (Hf (PWarn t) eq_refl). exact IH.
  Qed.

  Lemma filter_cons_app (f : pev -> bool) x r : filter f (x :: r) = filter f [x] ++ filter f r.
  Proof. cbn [filter]. destruct (f x); reflexivity. Qed.

  Lemma filter_swap f (a : list pev) ws x : separates f -> all_warn ws -> is_warn x = false ->
    filter f (a ++ ws ++ [x]) = filter f ((a ++ [x]) ++ ws).
  Proof.
    intros [Hf|Hf] Hw Hx; rewrite !filter_app.
    - rewrite (filter_warns_none f ws Hf Hw), app_nil_r. reflexivity.
    - cbn [filter]. rewrite (Hf x Hx), !app_nil_r. reflexivity.
  Qed.

  (** once an element has been shown nothing is deferred any more *)
  Definition st_ok2 (st : pstate) : Prop :=
    st_ok st /\ match st with InElems _ false dw => dw = [] | _ => True end.

  Theorem rows_cover_events_once f : separates f -> ignores_list_parents f ->
    forall evs st, st_ok2 st -> ~ In RCrashRow (pp T d evs st) ->
    filter f (CV (pp T d evs st)) = filter f (pending_cover st ++ evs).
  Proof.
    intros Hs Hl. induction evs as [|e r IH]; intros st [OK OK2] NC.
    - destruct st as [|pa en buf cover dw|parent empty dw]; cbn [pp pending_cover]; rewrite ?app_nil_r; try reflexivity.
      + rewrite CV_cons. unfold CV. rewrite warn_rows_cover. reflexivity.
      + destruct parent as [| ppa pen [|] | |]; try contradiction. rewrite CV_app. unfold CV at 2. rewrite warn_rows_cover.
        destruct empty; [|reflexivity]. cbn [CV map List.concat plain_row row_cover app filter]. rewrite Hl. reflexivity.
    - destruct st as [|pa en buf cover dw|parent empty dw]; cbn [pp pending_cover] in *.
      + destruct e as [pa tn|pa en b|pa p z|t].
        * rewrite CV_app. unfold CV at 1. rewrite full_rows_cover. apply in_app_not in NC as [_ NC]. rewrite filter_app, (IH Top (conj I I) NC). cbn [pending_cover app]. symmetry. apply filter_cons_app.
        * destruct b.
          -- rewrite (IH (InBytes pa en [] [PList pa en true] []) (conj (Forall_nil _) I) NC). cbn [pending_cover app]. reflexivity.
          -- rewrite (IH (InElems (PList pa en false) true []) (conj (Forall_nil _) I) NC). cbn [pending_cover app filter]. rewrite Hl. reflexivity.
        * rewrite CV_app. unfold CV at 1. rewrite full_rows_cover. apply in_app_not in NC as [_ NC]. rewrite filter_app, (IH Top (conj I I) NC). cbn [pending_cover app]. symmetry. apply filter_cons_app.
        * rewrite CV_app. unfold CV at 1. rewrite full_rows_cover. apply in_app_not in NC as [_ NC]. rewrite filter_app, (IH Top (conj I I) NC). cbn [pending_cover app]. symmetry. apply filter_cons_app.
      + assert (Hout : forall x, ~ In RCrashRow (bytes_row pa en buf cover :: warn_rows T d dw ++ full_rows T d x ++ pp T d r Top) ->
                  filter f (CV (bytes_row pa en buf cover :: warn_rows T d dw ++ full_rows T d x ++ pp T d r Top)) =
                  filter f ((cover ++ dw) ++ x :: r)).
        { intros x NC'. rewrite CV_cons, !CV_app. unfold CV at 1 2. rewrite warn_rows_cover, full_rows_cover.
          assert (NC2 : ~ In RCrashRow (pp T d r Top)).
          { intros Hx. apply NC'. right. apply in_or_app. right. apply in_or_app. right. exact Hx. }
          cbn [bytes_row row_cover]. rewrite !filter_app, (IH Top (conj I I) NC2). cbn [pending_cover app]. rewrite <- !filter_app, <- !app_assoc. reflexivity. }
        destruct e as [pa' tn|pa' en' b|pa' p z|t]; cbn [pev_path] in *.
        * destruct (is_child pa pa'); [exfalso; apply NC; left; reflexivity|]. apply (Hout (PStruct pa' tn) NC).
        * destruct (is_child pa pa'); [exfalso; apply NC; left; reflexivity|]. apply (Hout (PList pa' en' b) NC).
        * destruct (is_child pa pa').
          -- rewrite (IH (InBytes pa en (buf ++ prim_hex p z) (cover ++ [PPrim pa' p z]) dw) (conj OK I) NC). cbn [pending_cover].
             change (PPrim pa' p z :: r) with ([PPrim pa' p z] ++ r). rewrite !app_assoc, !(filter_app f _ r). f_equal.
             rewrite <- (app_assoc cover dw). symmetry. apply (filter_swap f cover dw (PPrim pa' p z) Hs OK eq_refl).
          -- apply (Hout (PPrim pa' p z) NC).
        * rewrite (IH (InBytes pa en buf cover (dw ++ [PWarn t])) (conj (all_warn_snoc dw t OK) I) NC). cbn [pending_cover]. rewrite <- !app_assoc. reflexivity.
      + destruct parent as [| ppa pen [|] | |]; try contradiction.
        assert (Hparent : forall b : bool, filter f (CV (if b then [plain_row T d (PList ppa pen false)] else [])) = []).
        { intros []; [|reflexivity]. cbn [CV map List.concat plain_row row_cover app filter]. rewrite Hl. reflexivity. }
        assert (Hin : forall x, is_warn x = false -> ~ In RCrashRow (warn_rows T d dw ++ plain_row T d x :: pp T d r (InElems (PList ppa pen false) false [])) ->
                  filter f (CV (warn_rows T d dw ++ plain_row T d x :: pp T d r (InElems (PList ppa pen false) false []))) = filter f (dw ++ x :: r)).
        { intros x Hx NC'. rewrite CV_app, CV_cons. unfold CV at 1. rewrite warn_rows_cover.
          apply in_app_not in NC' as [_ NC']. assert (NC2 : ~ In RCrashRow (pp T d r (InElems (PList ppa pen false) false []))) by (intros Hy; apply NC'; right; exact Hy).
          rewrite !filter_app, (IH (InElems (PList ppa pen false) false []) (conj (Forall_nil _) eq_refl) NC2). cbn [pending_cover app].
          replace (row_cover (plain_row T d x)) with [x] by (destruct x; reflexivity).
          change (x :: r) with ([x] ++ r). rewrite filter_app. reflexivity. }
        assert (Hout : forall x, ~ In RCrashRow ((if empty then [plain_row T d (PList ppa pen false)] else []) ++ warn_rows T d dw ++ full_rows T d x ++ pp T d r Top) ->
                  filter f (CV ((if empty then [plain_row T d (PList ppa pen false)] else []) ++ warn_rows T d dw ++ full_rows T d x ++ pp T d r Top)) = filter f (dw ++ x :: r)).
        { intros x NC'. rewrite !CV_app, !filter_app, Hparent. unfold CV at 1 2. rewrite warn_rows_cover, full_rows_cover.
          apply in_app_not in NC' as [_ NC']. apply in_app_not in NC' as [_ NC']. apply in_app_not in NC' as [_ NC'].
          rewrite (IH Top (conj I I) NC'). cbn [pending_cover app]. change (x :: r) with ([x] ++ r). rewrite filter_app. reflexivity. }
        destruct e as [pa' tn|pa' en' b|pa' p z|t]; cbn [pev_path] in *.
        * destruct (is_child ppa pa'); [apply (Hin (PStruct pa' tn) eq_refl NC)|apply (Hout (PStruct pa' tn) NC)].
        * destruct (is_child ppa pa'); [apply (Hin (PList pa' en' b) eq_refl NC)|apply (Hout (PList pa' en' b) NC)].
        * destruct (is_child ppa pa'); [apply (Hin (PPrim pa' p z) eq_refl NC)|apply (Hout (PPrim pa' p z) NC)].
        * destruct empty.
          -- rewrite (IH (InElems (PList ppa pen false) true (dw ++ [PWarn t])) (conj (all_warn_snoc dw t OK) I) NC). cbn [pending_cover]. rewrite <- app_assoc. reflexivity.
          -- cbn in OK2. subst dw. rewrite CV_cons. assert (NC2 : ~ In RCrashRow (pp T d r (InElems (PList ppa pen false) false []))) by (intros Hx; apply NC; right; exact Hx).
             cbn [row_cover]. rewrite filter_app, (IH (InElems (PList ppa pen false) false []) (conj (Forall_nil _) eq_refl) NC2). cbn [pending_cover app].
             change (PWarn t :: r) with ([PWarn t] ++ r). rewrite filter_app. reflexivity.
  Qed.

  (** ---- what a row is: the row of one event, a bit row of the attribute word above it, or the single row of a
      byte buffer, holding the bytes of all its elements *)
  Definition is_prim (e : pev) : Prop := match e with PPrim _ _ _ => True | _ => False end.
  Definition row_ok (r : row) : Prop :=
    (exists e, r = plain_row T d e) \/ (exists dp n b, r = RBits dp n b) \/
    (exists pa en ps, Forall is_prim ps /\ r = bytes_row pa en (List.concat (map pev_bytes ps)) (PList pa en true :: ps)) \/
    r = RCrashRow.
  Definition st_rows (st : pstate) : Prop :=
    match st with
    | InBytes pa en buf cover _ => exists ps, Forall is_prim ps /\ cover = PList pa en true :: ps /\ buf = List.concat (map pev_bytes ps)
    | _ => True
    end.

  Lemma attr_rows_ok pa p z : Forall row_ok (attr_rows T d pa p z).
  Proof.
    unfold attr_rows. destruct (pkind_ p) as [|ms|masks|]; try constructor.
    - apply Forall_forall. intros r Hr. apply in_map_iff in Hr as (x & <- & _). right. left. do 3 eexists. reflexivity.
    - apply Forall_forall. intros r Hr. apply in_map_iff in Hr as (x & <- & _). right. left. do 3 eexists. reflexivity.
  Qed.
  Lemma full_rows_ok e : Forall row_ok (full_rows T d e).
  Proof. unfold full_rows. constructor; [left; exists e; reflexivity|]. destruct e; try constructor. apply attr_rows_ok. Qed.
  Lemma warn_rows_ok ws : Forall row_ok (warn_rows T d ws).
  Proof. apply Forall_forall. intros r Hr. apply in_map_iff in Hr as (x & <- & _). left. exists x. reflexivity. Qed.

  Theorem every_row_is_an_event_row_a_bit_row_or_a_buffer_row evs : forall st, st_rows st -> Forall row_ok (pp T d evs st).
  Proof.
    induction evs as [|e r IH]; intros st SR.
    - destruct st as [|pa en buf cover dw|parent empty dw]; cbn [pp]; [constructor| |].
      + destruct SR as (ps & Hp & -> & ->). constructor; [|apply warn_rows_ok]. right. right. left. exists pa, en, ps. split; [exact Hp|reflexivity].
      + apply Forall_app. split; [destruct empty; constructor; [left; eexists; reflexivity|constructor]|apply warn_rows_ok].
    - destruct st as [|pa en buf cover dw|parent empty dw]; cbn [pp].
      + destruct e as [pa tn|pa en b|pa p z|t]; try (apply Forall_app; split; [apply full_rows_ok|apply (IH Top I)]).
        destruct b; apply IH; [|exact I]. exists []. split; [constructor|]. split; reflexivity.
      + assert (Hout : forall x, Forall row_ok (bytes_row pa en buf cover :: warn_rows T d dw ++ full_rows T d x ++ pp T d r Top)).
        { intros x. destruct SR as (ps & Hp & -> & ->). constructor; [right; right; left; exists pa, en, ps; split; [exact Hp|reflexivity]|].
          apply Forall_app. split; [apply warn_rows_ok|]. apply Forall_app. split; [apply full_rows_ok|apply (IH Top I)]. }
        destruct e as [pa' tn|pa' en' b|pa' p z|t]; cbn [pev_path].
        * destruct (is_child pa pa'); [constructor; [right; right; right; reflexivity|constructor]|apply Hout].
        * destruct (is_child pa pa'); [constructor; [right; right; right; reflexivity|constructor]|apply Hout].
        * destruct (is_child pa pa'); [|apply Hout]. apply IH. destruct SR as (ps & Hp & -> & ->).
          exists (ps ++ [PPrim pa' p z]). split; [apply Forall_app; split; [exact Hp|constructor; [exact I|constructor]]|].
          split; [reflexivity|]. rewrite map_app, concat_app. cbn [map List.concat pev_bytes]. rewrite app_nil_r. reflexivity.
        * apply IH. exact SR.
      + assert (Hparent : Forall row_ok (if empty then [plain_row T d parent] else [])) by (destruct empty; constructor; [left; eexists; reflexivity|constructor]).
        destruct e as [pa' tn|pa' en' b|pa' p z|t]; cbn [pev_path].
        1-3: destruct (is_child (pev_path parent) pa');
          [apply Forall_app; split; [apply warn_rows_ok|constructor; [left; eexists; reflexivity|apply (IH (InElems parent false []) I)]]
          |apply Forall_app; split; [exact Hparent|apply Forall_app; split; [apply warn_rows_ok|apply Forall_app; split; [apply full_rows_ok|apply (IH Top I)]]]].
        destruct empty; [apply (IH (InElems parent true (dw ++ [PWarn t])) I)|constructor; [left; exists (PWarn t); reflexivity|apply (IH (InElems parent false dw) I)]].
  Qed.

  (** an empty list has its own row; the parent of a list with elements has none *)
  Lemma empty_list_is_shown pa en e r : is_warn e = false -> is_child pa (pev_path e) = false ->
    pp T d (PList pa en false :: e :: r) Top = plain_row T d (PList pa en false) :: full_rows T d e ++ pp T d r Top.
  Proof. intros Hw Hc. cbn [pp]. destruct e; try discriminate; cbn [pev_path] in *; rewrite Hc; reflexivity. Qed.
End P.
