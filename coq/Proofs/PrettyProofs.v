(** The pretty printer shows every byte and every event exactly once, in order. *)
From Coq Require Import ZArith List String Bool Lia.
From TV Require Import Layout.Types Model.Monad Model.Ints Model.Attr Model.RC Model.Pretty.
Import ListNotations.
Open Scope list_scope.

Section P.
  Variable T : tables.
  Variable d : string.

  Definition pending_hex (st : pstate) : list Z := match st with InBytes _ _ buf _ _ => buf | _ => [] end.
  Definition pending_cover (st : pstate) : list pev :=
    match st with InBytes _ _ _ c dw => c ++ dw | InElems _ _ dw => dw | Top => [] end.

  Lemma attr_rows_hex pa p z : List.concat (map row_hex (attr_rows T d pa p z)) = [].
  Proof.
    unfold attr_rows. destruct (pkind_ p) as [|ms|masks|]; try reflexivity.
    - induction masks as [|m r IH]; [reflexivity|exact IH].
    - induction (rc_rows T d z) as [|m r IH]; [reflexivity|exact IH].
  Qed.
  Lemma attr_rows_cover pa p z : List.concat (map row_cover (attr_rows T d pa p z)) = [].
  Proof.
    unfold attr_rows. destruct (pkind_ p) as [|ms|masks|]; try reflexivity.
    - induction masks as [|m r IH]; [reflexivity|exact IH].
    - induction (rc_rows T d z) as [|m r IH]; [reflexivity|exact IH].
  Qed.
  Lemma attr_rows_nocrash pa p z : ~ In RCrashRow (attr_rows T d pa p z).
  Proof.
    unfold attr_rows. destruct (pkind_ p) as [|ms|masks|]; cbn; try tauto.
    - induction masks as [|m r IH]; cbn; [tauto|]. intros [H|H]; [discriminate|exact (IH H)].
    - induction (rc_rows T d z) as [|m r IH]; cbn; [tauto|]. intros [H|H]; [discriminate|exact (IH H)].
  Qed.

  Lemma full_rows_hex e : List.concat (map row_hex (full_rows T d e)) = pev_bytes e.
  Proof.
    destruct e as [pa tn|pa en b|pa p z|t]; cbn [full_rows plain_row map List.concat row_hex pev_bytes app]; try reflexivity.
    rewrite attr_rows_hex, app_nil_r. reflexivity.
  Qed.
  Lemma full_rows_cover e : List.concat (map row_cover (full_rows T d e)) = [e].
  Proof.
    destruct e as [pa tn|pa en b|pa p z|t]; cbn [full_rows plain_row map List.concat row_cover app]; try reflexivity.
    rewrite attr_rows_cover. reflexivity.
  Qed.

  Definition all_warn (ws : list pev) : Prop := Forall (fun e => match e with PWarn _ => True | _ => False end) ws.
  Lemma warn_rows_hex ws : all_warn ws -> List.concat (map row_hex (warn_rows T d ws)) = [].
  Proof. induction 1 as [|e ws He _ IH]; [reflexivity|]. destruct e; try contradiction. exact IH. Qed.
  Lemma warn_rows_bytes ws : all_warn ws -> List.concat (map pev_bytes ws) = [].
  Proof. induction 1 as [|e ws He _ IH]; [reflexivity|]. destruct e; try contradiction. exact IH. Qed.
  Lemma warn_rows_cover ws : List.concat (map row_cover (warn_rows T d ws)) = ws.
  Proof. induction ws as [|e ws IH]; [reflexivity|]. cbn [warn_rows map List.concat]. fold (warn_rows T d ws). rewrite IH. destruct e; reflexivity. Qed.

  (** states the printer can be in: the list whose elements are being shown is a non-byte list; only warnings are deferred *)
  Definition st_ok (st : pstate) : Prop :=
    match st with
    | InElems (PList _ _ false) _ dw => all_warn dw
    | InElems _ _ _ => False
    | InBytes _ _ _ _ dw => all_warn dw
    | Top => True
    end.

  Lemma all_warn_snoc dw t : all_warn dw -> all_warn (dw ++ [PWarn t]).
  Proof. intros H. apply Forall_app. split; [exact H|]. constructor; [exact I|constructor]. Qed.

  Lemma in_app_not {A} (x : A) l1 l2 : ~ In x (l1 ++ l2) -> ~ In x l1 /\ ~ In x l2.
  Proof. intros Hn. split; intros Hx; apply Hn, in_or_app; [left|right]; exact Hx. Qed.

  (** what a state still owes: the hex of its buffer; printing never fails on decoder-shaped input *)
  Definition H (rows : list row) : list Z := List.concat (map row_hex rows).
  Lemma H_app a b : H (a ++ b) = H a ++ H b.
  Proof. unfold H. rewrite map_app, concat_app. reflexivity. Qed.
  Lemma H_cons r a : H (r :: a) = row_hex r ++ H a. Proof. reflexivity. Qed.

  (** C14: the hex column, concatenated over all rows, is the bytes of the decoded fields, in order
      (for every event list on which the printer does not fail, i.e. whose byte-buffer elements are primitives) *)
  Ltac solve_ok := first [exact I | assumption | apply Forall_nil | apply all_warn_snoc; assumption].

  Theorem hex_column_is_all_bytes evs : forall st, st_ok st ->
    ~ In RCrashRow (pp T d evs st) ->
    H (pp T d evs st) = pending_hex st ++ List.concat (map pev_bytes evs).
  Proof.
    induction evs as [|e r IH]; intros st OK NC.
    - destruct st as [|pa en buf cover dw|parent empty dw]; cbn [pp pending_hex map List.concat]; try reflexivity.
      + rewrite H_cons. unfold H at 1. rewrite (warn_rows_hex _ OK). reflexivity.
      + destruct parent as [| ? ? [|] | |]; try contradiction. rewrite H_app. unfold H at 2. rewrite (warn_rows_hex _ OK).
        destruct empty; reflexivity.
    - destruct st as [|pa en buf cover dw|parent empty dw]; cbn [pp] in *.
      + destruct e as [pa tn|pa en b|pa p z|t].
        * rewrite H_app. unfold H at 1. rewrite full_rows_hex. apply in_app_not in NC as [_ NC]. (rewrite IH; [|solve_ok|exact NC]). reflexivity.
        * destruct b; [(rewrite IH; [|solve_ok|exact NC])|(rewrite IH; [|solve_ok|exact NC])]; reflexivity.
        * rewrite H_app. unfold H at 1. rewrite full_rows_hex. apply in_app_not in NC as [_ NC]. (rewrite IH; [|solve_ok|exact NC]). reflexivity.
        * rewrite H_app. unfold H at 1. rewrite full_rows_hex. apply in_app_not in NC as [_ NC]. (rewrite IH; [|solve_ok|exact NC]). reflexivity.
      + assert (Hout : forall x, ~ In RCrashRow (bytes_row pa en buf cover :: warn_rows T d dw ++ full_rows T d x ++ pp T d r Top) ->
                  H (bytes_row pa en buf cover :: warn_rows T d dw ++ full_rows T d x ++ pp T d r Top) =
                  buf ++ pev_bytes x ++ List.concat (map pev_bytes r)).
        { intros x NC'. rewrite H_cons, !H_app. unfold H at 1 2. rewrite (warn_rows_hex _ OK), full_rows_hex.
          assert (NC2 : ~ In RCrashRow (pp T d r Top)).
          { intros Hx. apply NC'. right. apply in_or_app. right. apply in_or_app. right. exact Hx. }
          (rewrite IH; [|solve_ok|exact NC2]). reflexivity. }
        cbn [pending_hex map List.concat].
        destruct e as [pa' tn|pa' en' b|pa' p z|t]; cbn [pev_path] in *.
        * destruct (is_child pa pa'); [exfalso; apply NC; left; reflexivity|]. apply (Hout (PStruct pa' tn) NC).
        * destruct (is_child pa pa'); [exfalso; apply NC; left; reflexivity|]. apply (Hout (PList pa' en' b) NC).
        * destruct (is_child pa pa').
          -- (rewrite IH; [|solve_ok|exact NC]). cbn [pending_hex pev_bytes]. unfold prim_hex. rewrite <- app_assoc. reflexivity.
          -- apply (Hout (PPrim pa' p z) NC).
        * (rewrite IH; [|solve_ok|exact NC]). reflexivity.
      + destruct parent as [| ppa pen [|] | |]; try contradiction.
        cbn [pending_hex map List.concat app].
        assert (Hparent : forall b : bool, H (if b then [plain_row T d (PList ppa pen false)] else []) = []) by (intros []; reflexivity).
        destruct e as [pa' tn|pa' en' b|pa' p z|t]; cbn [pev_path] in *.
        * destruct (is_child ppa pa').
          -- rewrite H_app, H_cons. unfold H at 1. rewrite (warn_rows_hex _ OK).
             apply in_app_not in NC as [_ NC]. assert (NC2 : ~ In RCrashRow (pp T d r (InElems (PList ppa pen false) false []))) by (intros Hx; apply NC; right; exact Hx).
             (rewrite IH; [|solve_ok|exact NC2]). reflexivity.
          -- rewrite !H_app, Hparent. unfold H at 1 2. rewrite (warn_rows_hex _ OK), full_rows_hex.
             apply in_app_not in NC as [_ NC]. apply in_app_not in NC as [_ NC]. apply in_app_not in NC as [_ NC].
             (rewrite IH; [|solve_ok|exact NC]). reflexivity.
        * destruct (is_child ppa pa').
          -- rewrite H_app, H_cons. unfold H at 1. rewrite (warn_rows_hex _ OK).
             apply in_app_not in NC as [_ NC]. assert (NC2 : ~ In RCrashRow (pp T d r (InElems (PList ppa pen false) false []))) by (intros Hx; apply NC; right; exact Hx).
             (rewrite IH; [|solve_ok|exact NC2]). reflexivity.
          -- rewrite !H_app, Hparent. unfold H at 1 2. rewrite (warn_rows_hex _ OK), full_rows_hex.
             apply in_app_not in NC as [_ NC]. apply in_app_not in NC as [_ NC]. apply in_app_not in NC as [_ NC].
             (rewrite IH; [|solve_ok|exact NC]). reflexivity.
        * destruct (is_child ppa pa').
          -- rewrite H_app, H_cons. unfold H at 1. rewrite (warn_rows_hex _ OK).
             apply in_app_not in NC as [_ NC]. assert (NC2 : ~ In RCrashRow (pp T d r (InElems (PList ppa pen false) false []))) by (intros Hx; apply NC; right; exact Hx).
             (rewrite IH; [|solve_ok|exact NC2]). cbn [plain_row row_hex pending_hex pev_bytes app]. unfold prim_hex. reflexivity.
          -- rewrite !H_app, Hparent. unfold H at 1 2. rewrite (warn_rows_hex _ OK), full_rows_hex.
             apply in_app_not in NC as [_ NC]. apply in_app_not in NC as [_ NC]. apply in_app_not in NC as [_ NC].
             (rewrite IH; [|solve_ok|exact NC]). reflexivity.
        * destruct empty.
          -- (rewrite IH; [|solve_ok|exact NC]). reflexivity.
          -- rewrite H_cons. assert (NC2 : ~ In RCrashRow (pp T d r (InElems (PList ppa pen false) false dw))) by (intros Hx; apply NC; right; exact Hx).
             (rewrite IH; [|solve_ok|exact NC2]). reflexivity.
  Qed.
End P.
