(** C11: the object rebuilt from the decoded events ([events_to_obj]) is the object the decoder returns. *)
From Coq Require Import ZArith List String Bool Lia.
From TV Require Import Layout.Types Base.Bytes Model.Monad Model.Constraints Model.Ints Model.Decoder Model.Message Model.Pump Model.Object
  Proofs.Agree Proofs.OpLemmas Proofs.Tiling Proofs.Sim3 Proofs.Sim4 Proofs.Sim6 Proofs.Sim7 Proofs.Safe1 Proofs.Safe3 Proofs.ObjEv.
Import ListNotations.
Open Scope string_scope.
Open Scope list_scope.
Open Scope Z_scope.

(** the nested dict/list image of an object *)
Fixpoint tree_of (v : value) : tree :=
  match v with
  | VInt_ tn z => TLeaf tn z
  | VStruct_ _ fs => TDict (map (fun nf => (fst nf, match snd nf with Some x => tree_of x | None => TDict [] end)) fs)
  | VList_ l => TList (map (fun x => Some (tree_of x)) l)
  end.

Section ToObj.
  Variable T : tables.

  Lemma all_some_map_some {A B} (f : A -> option B) (g : A -> B) l : (forall a, In a l -> f a = Some (g a)) -> all_some (map f l) = Some (map g l).
  Proof.
    induction l as [|a l IH]; intros H; [reflexivity|]. cbn [map all_some fold_right]. fold (all_some (map f l)).
    rewrite (H a (or_introl eq_refl)), IH; [reflexivity|]. intros b Hb. apply H. right. exact Hb.
  Qed.

  Lemma to_list_of f l : (forall x, In x l -> f (tree_of x) = Some x) -> to_list f (tree_of (VList_ l)) = Some (VList_ l).
  Proof.
    intros H. cbn [tree_of to_list]. rewrite map_map.
    rewrite (all_some_map_some _ (fun x => x)); [rewrite map_id; reflexivity|]. intros x Hx. apply H, Hx.
  Qed.

  Lemma all_of_in {A} (P : A -> Prop) l : all_of P l -> forall x, In x l -> P x.
  Proof. induction l as [|a l IH]; intros H x Hx; [contradiction|]. destruct H as [H1 H2]. destruct Hx as [<-|Hx]; [exact H1|apply IH; assumption]. Qed.

  (** ---- table condition: no ordinary class looks like the synthesized encrypted-parameter class *)
  Definition keys_like_enc (t1 : ty) : bool :=
    match t_enc_param T with
    | TTpm2bList _ eszf ebuf _ _ =>
        match t1 with
        | TTpm2bList _ a b _ _ | TTpm2bStruct _ a b _ _ => String.eqb a eszf && String.eqb b ebuf
        | TStruct _ _ fs => match field_names fs with [a; b] => String.eqb a eszf && String.eqb b ebuf | _ => false end
        | _ => false
        end
    | _ => false
    end.

  Fixpoint plain_ok (t : ty) : bool :=
    match t with
    | TPrim _ => true
    | TStruct _ _ fs => match fs with FPlain _ t1 _ | FUnion _ _ t1 _ => negb (keys_like_enc t1) | _ => true end && plain_fields fs
    | TTpm2bList _ _ _ _ e => plain_ok e
    | TTpm2bStruct _ _ _ _ i => plain_ok i
    | TUnion _ ar => plain_arms ar
    end
  with plain_fields (fs : fields) : bool :=
    match fs with
    | FNil => true
    | FPlain _ t r => plain_ok t && plain_fields r
    | FList _ e r => plain_ok e && plain_fields r
    | FUnion _ _ u r => plain_ok u && plain_fields r
    end
  with plain_arms (ar : arms) : bool :=
    match ar with
    | ANil => true
    | ACons _ _ p r => match p with PNone => true | PTy t => plain_ok t | PList e _ => plain_ok e end && plain_arms r
    end.

  Lemma wsh_fields_names fs : forall vals, wsh_fields fs vals -> map fst vals = field_names fs.
  Proof.
    induction fs as [|n t r IH|n e r IH|n sl u r IH]; intros vals H; cbn [wsh_fields field_names] in *.
    - subst. reflexivity.
    - destruct H as (x & rest & -> & _ & Hr). cbn [map fst]. rewrite (IH _ Hr). reflexivity.
    - destruct H as (l & rest & -> & _ & Hr). cbn [map fst]. rewrite (IH _ Hr). reflexivity.
    - destruct H as (x & rest & -> & _ & Hr). cbn [map fst]. rewrite (IH _ Hr). reflexivity.
  Qed.

  Lemma wsh_fields_some fs : forall vals, wsh_fields fs vals -> forall k o, In (k, o) vals -> o <> None.
  Proof.
    induction fs as [|n t r IH|n e r IH|n sl u r IH]; intros vals H k o Hin; cbn [wsh_fields] in *.
    - subst. contradiction.
    - destruct H as (x & rest & -> & _ & Hr). destruct Hin as [[= <- <-]|Hin]; [discriminate|apply (IH _ Hr _ _ Hin)].
    - destruct H as (l & rest & -> & _ & Hr). destruct Hin as [[= <- <-]|Hin]; [discriminate|apply (IH _ Hr _ _ Hin)].
    - destruct H as (x & rest & -> & _ & Hr). destruct Hin as [[= <- <-]|Hin]; [discriminate|apply (IH _ Hr _ _ Hin)].
  Qed.

  Definition img (nf : string * option value) : string * tree := (fst nf, match snd nf with Some x => tree_of x | None => TDict [] end).

  (** the first field of an ordinary object does not look encrypted *)
  Lemma not_looks_encrypted t1 x1 n1 rest : wsh t1 x1 -> keys_like_enc t1 = false -> looks_encrypted T ((n1, tree_of x1) :: rest) = false.
  Proof.
    intros Hw Hk. unfold looks_encrypted, keys_like_enc in *. destruct (t_enc_param T) as [| |ename eszf ebuf eszp eel| |]; try (destruct (tree_of x1); reflexivity).
    destruct t1 as [p|name isp fs|name szf buf szp e|name szf buf szp i|name ar]; cbn [wsh] in Hw.
    - destruct Hw as (z & ->). reflexivity.
    - destruct Hw as (vals & -> & Hf). cbn [tree_of]. rewrite map_map. cbn [fst]. change (map (fun x => fst x) vals) with (map fst vals). rewrite (wsh_fields_names _ _ Hf).
      destruct (field_names fs) as [|a [|b [|c r]]]; try reflexivity. exact Hk.
    - destruct Hw as (z & l & -> & _). cbn [tree_of map fst]. exact Hk.
    - destruct Hw as (z & [(-> & _)|(x & -> & _)]); cbn [tree_of map fst]; exact Hk.
    - destruct Hw as [->|(n & x & -> & _)]; reflexivity.
  Qed.

  (** ---- E2: converting the image of an object back gives the object *)
  Definition E2_ty (t : ty) : Prop := named_ty t = true -> plain_ok t = true -> forall v, wsh t v -> to_obj_ty T t (tree_of v) = Some v.
  Definition E2_fields (fs : fields) : Prop := named_fields fs = true -> plain_fields fs = true -> NoDup (field_names fs) ->
    forall vals, wsh_fields fs vals -> forall k o, In (k, o) vals -> exists x, o = Some x /\ to_obj_fields T fs k (tree_of x) = Some x.
  Definition E2_arms (ar : arms) : Prop := named_arms ar = true -> plain_arms ar = true ->
    forall n x, wsh_arm ar n x -> to_obj_arms T ar n (tree_of x) = Some x.
  Definition E2_armp (p : armp) : Prop := match p with PNone => True | PTy t => E2_ty t | PList e _ => E2_ty e end.

  Lemma list_back e l : E2_ty e -> named_ty e = true -> plain_ok e = true -> all_of (wsh e) l ->
    to_list (to_obj_ty T e) (tree_of (VList_ l)) = Some (VList_ l).
  Proof. intros IH Hn Hp Hl. apply to_list_of. intros x Hx. apply (IH Hn Hp). apply (all_of_in _ _ Hl _ Hx). Qed.

  Lemma img_all_some (f : string -> tree -> option value) vals :
    (forall k o, In (k, o) vals -> exists x, o = Some x /\ f k (tree_of x) = Some x) ->
    all_some (map (fun kv => match f (fst kv) (snd kv) with Some v => Some (fst kv, Some v) | None => None end) (map img vals)) = Some vals.
  Proof.
    induction vals as [|[k o] vals IH]; intros H; [reflexivity|]. cbn [map all_some fold_right img fst snd].
    fold (all_some (map (fun kv => match f (fst kv) (snd kv) with Some v => Some (fst kv, Some v) | None => None end) (map img vals))).
    destruct (H k o (or_introl eq_refl)) as (x & -> & Hx). rewrite Hx, IH; [reflexivity|]. intros k' o' Hin. apply H. right. exact Hin.
  Qed.

  Lemma to_obj_struct name isp fs kvs : to_obj_ty T (TStruct name isp fs) (TDict kvs) =
    if looks_encrypted T kvs then
      match fs, kvs with
      | FPlain n0 _ r, (k0, sub0) :: kvr =>
          if String.eqb k0 n0 then
            match to_obj_enc T sub0, all_some (map (fun kv => match to_obj_fields T r (fst kv) (snd kv) with Some v => Some (fst kv, Some v) | None => None end) kvr) with
            | Some v0, Some rest => Some (VStruct_ (TyEnc name) ((k0, Some v0) :: rest))
            | _, _ => None
            end
          else None
      | _, _ => None
      end
    else
      match all_some (map (fun kv => match to_obj_fields T fs (fst kv) (snd kv) with Some v => Some (fst kv, Some v) | None => None end) kvs) with
      | Some vals => Some (VStruct_ (TyN name) vals)
      | None => None
      end.
  Proof. reflexivity. Qed.
  Lemma to_obj_2bl name szf buf szp e kvs : to_obj_ty T (TTpm2bList name szf buf szp e) (TDict kvs) = to_obj_2b name szf buf (to_list (to_obj_ty T e)) kvs.
  Proof. reflexivity. Qed.
  Lemma to_obj_2bs name szf buf szp i kvs : to_obj_ty T (TTpm2bStruct name szf buf szp i) (TDict kvs) = to_obj_2b name szf buf (to_obj_ty T i) kvs.
  Proof. reflexivity. Qed.
  Lemma to_obj_union name ar kvs : to_obj_ty T (TUnion name ar) (TDict kvs) =
    match all_some (map (fun kv => match to_obj_arms T ar (fst kv) (snd kv) with Some v => Some (fst kv, Some v) | None => None end) kvs) with
    | Some vals => Some (VStruct_ (TyN name) vals)
    | None => None
    end.
  Proof. reflexivity. Qed.

  Theorem to_obj_all : (forall t, E2_ty t) /\ (forall fs, E2_fields fs) /\ (forall ar, E2_arms ar) /\ (forall p, E2_armp p).
  Proof.
    apply ty_mutind.
    - (* TPrim *) intros p _ _ v (z & ->). reflexivity.
    - (* TStruct *)
      intros name isp fs IH Hn Hp v (vals & -> & Hf). cbn [named_ty plain_ok] in Hn, Hp. apply andb_prop in Hn as [Hd Hn]. apply andb_prop in Hp as [Hfirst Hp].
      cbn [tree_of]. fold img. rewrite to_obj_struct.
      assert (Hle : looks_encrypted T (map img vals) = false).
      { destruct fs as [|n1 t1 r|n1 e r|n1 sl u r]; cbn [wsh_fields] in Hf.
        - subst. reflexivity.
        - destruct Hf as (x1 & rest & -> & Hw1 & _). cbn [map img fst snd]. apply (not_looks_encrypted t1 x1 n1 _ Hw1). destruct (keys_like_enc t1); [discriminate|reflexivity].
        - destruct Hf as (l & rest & -> & _). unfold looks_encrypted. cbn [map img fst snd tree_of]. reflexivity.
        - destruct Hf as (x1 & rest & -> & Hw1 & _). cbn [map img fst snd]. apply (not_looks_encrypted u x1 n1 _ Hw1). destruct (keys_like_enc u); [discriminate|reflexivity]. }
      rewrite Hle. rewrite (img_all_some (to_obj_fields T fs) vals); [reflexivity|].
      intros k o Hin. apply (IH Hn Hp (nodupb_NoDup _ Hd) vals Hf k o Hin).
    - (* TTpm2bList *)
      intros name szf buf szp e IH Hn Hp v (z & l & -> & Hl). cbn [named_ty plain_ok] in Hn, Hp. apply andb_prop in Hn as [Hne Hn].
      assert (Hbs : String.eqb buf szf = false) by (rewrite String.eqb_sym; destruct (String.eqb szf buf); [discriminate|reflexivity]).
      cbn [tree_of map fst snd]. rewrite to_obj_2bl. unfold to_obj_2b. cbn [map fst snd first_is_zero all_some fold_right leaf_obj].
      rewrite String.eqb_refl, Hbs, String.eqb_refl. change (TList (map (fun x0 : value => Some (tree_of x0)) l)) with (tree_of (VList_ l)).
      rewrite (list_back e l IH Hn Hp Hl). unfold tpm2b_fix. cbn [tree_is_empty_dict tree_of]. rewrite !andb_false_r. reflexivity.
    - (* TTpm2bStruct *)
      intros name szf buf szp inner IH Hn Hp v (z & Hv). cbn [named_ty plain_ok] in Hn, Hp. apply andb_prop in Hn as [Hne Hn].
      assert (Hbs : String.eqb buf szf = false) by (rewrite String.eqb_sym; destruct (String.eqb szf buf); [discriminate|reflexivity]).
      destruct Hv as [(-> & ->)|(x & -> & Hz & Hx)]; cbn [tree_of map fst snd]; rewrite to_obj_2bs; unfold to_obj_2b; cbn [map fst snd first_is_zero all_some fold_right leaf_obj];
        rewrite String.eqb_refl, Hbs, String.eqb_refl.
      + unfold tpm2b_fix. cbn [tree_is_empty_dict andb Z.eqb]. reflexivity.
      + rewrite (IH Hn Hp x Hx). unfold tpm2b_fix. replace (z =? 0) with false by (symmetry; apply Z.eqb_neq; exact Hz). cbn [andb tree_is_empty_dict]. reflexivity.
    - (* TUnion *)
      intros name ar IH Hn Hp v Hv. cbn [named_ty plain_ok] in Hn, Hp. apply andb_prop in Hn as [Hd Hn].
      destruct Hv as [->|(n & x & -> & Ha)]; cbn [tree_of map fst snd]; rewrite to_obj_union; cbn [map fst snd all_some fold_right]; [reflexivity|].
      rewrite (IH Hn Hp n x Ha). reflexivity.
    - (* FNil *) intros _ _ _ vals Hv k o Hin. cbn [wsh_fields] in Hv. subst. contradiction.
    - (* FPlain *)
      intros n t IHt r IHr Hn Hp Hd vals Hv k o Hin. cbn [named_fields plain_fields field_names wsh_fields to_obj_fields] in *.
      apply andb_prop in Hn as [Hnt Hnr]. apply andb_prop in Hp as [Hpt Hpr]. inversion Hd as [|? ? Hni Hdr]; subst.
      destruct Hv as (x & rest & -> & Hx & Hr). destruct Hin as [[= <- <-]|Hin].
      + exists x. split; [reflexivity|]. rewrite String.eqb_refl. apply (IHt Hnt Hpt x Hx).
      + assert (Hk : String.eqb k n = false).
        { apply String.eqb_neq. intros ->. apply Hni. rewrite <- (wsh_fields_names _ _ Hr). apply (in_map fst) in Hin. exact Hin. }
        rewrite Hk. apply (IHr Hnr Hpr Hdr rest Hr k o Hin).
    - (* FList *)
      intros n e IHe r IHr Hn Hp Hd vals Hv k o Hin. cbn [named_fields plain_fields field_names wsh_fields to_obj_fields] in *.
      apply andb_prop in Hn as [Hne Hnr]. apply andb_prop in Hp as [Hpe Hpr]. inversion Hd as [|? ? Hni Hdr]; subst.
      destruct Hv as (l & rest & -> & Hl & Hr). destruct Hin as [[= <- <-]|Hin].
      + exists (VList_ l). split; [reflexivity|]. rewrite String.eqb_refl. apply (list_back e l IHe Hne Hpe Hl).
      + assert (Hk : String.eqb k n = false).
        { apply String.eqb_neq. intros ->. apply Hni. rewrite <- (wsh_fields_names _ _ Hr). apply (in_map fst) in Hin. exact Hin. }
        rewrite Hk. apply (IHr Hnr Hpr Hdr rest Hr k o Hin).
    - (* FUnion *)
      intros n sl u IHu r IHr Hn Hp Hd vals Hv k o Hin. cbn [named_fields plain_fields field_names wsh_fields to_obj_fields] in *.
      apply andb_prop in Hn as [Hnu Hnr]. apply andb_prop in Hp as [Hpu Hpr]. inversion Hd as [|? ? Hni Hdr]; subst.
      destruct Hv as (x & rest & -> & Hx & Hr). destruct Hin as [[= <- <-]|Hin].
      + exists x. split; [reflexivity|]. rewrite String.eqb_refl. apply (IHu Hnu Hpu x Hx).
      + assert (Hk : String.eqb k n = false).
        { apply String.eqb_neq. intros ->. apply Hni. rewrite <- (wsh_fields_names _ _ Hr). apply (in_map fst) in Hin. exact Hin. }
        rewrite Hk. apply (IHr Hnr Hpr Hdr rest Hr k o Hin).
    - (* ANil *) intros _ _ n x H. contradiction.
    - (* ACons *)
      intros m k p IHp r IHr Hn Hp n x Ha. cbn [named_arms plain_arms wsh_arm to_obj_arms] in *.
      apply andb_prop in Hn as [Hnp Hnr]. apply andb_prop in Hp as [Hpp Hpr].
      rewrite (String.eqb_sym n m). destruct (String.eqb m n); [|apply (IHr Hnr Hpr n x Ha)].
      destruct p as [|t|e cnt]; [contradiction|apply (IHp Hnp Hpp x Ha)|]. destruct Ha as (l & -> & Hl). apply (list_back e l IHp Hnp Hpp Hl).
    - exact Logic.I.
    - intros t IH. exact IH.
    - intros e IH n. exact IH.
  Qed.
End ToObj.
