(** C05, composition: a well-formed message cut short is reported as depleted after the events of exactly the fields
    that were complete; a well-formed message followed by more bytes is reported as superfluous with exactly those
    bytes - every root but the stream, all tables passing the message checks. *)
From Coq Require Import ZArith List String Bool Lia ZifyBool.
From TV Require Import Layout.Types Base.Bytes Model.Monad Model.Constraints Model.Ints Model.Decoder Model.Message Model.Pump
  Spec.Value Spec.Message Proofs.Closure Proofs.LowClosure Proofs.Account Proofs.Incremental Proofs.Asks Proofs.Tiling Proofs.PumpProofs
  Proofs.Sim2 Proofs.Sim3 Proofs.Sim5 Proofs.Sim10 Proofs.Sim11.
Import ListNotations.
Open Scope list_scope.
Open Scope Z_scope.

(** the items whose bytes end within the first [m] bytes (offsets are monotone: a prefix of the item list) *)
Fixpoint items_within (m : Z) (l : list item) (off : Z) : list item :=
  match l with
  | [] => []
  | IPrim pa p z :: r => if off + pwidth p <=? m then IPrim pa p z :: items_within m r (off + pwidth p) else []
  | INode pa t :: r => if off <=? m then INode pa t :: items_within m r off else []
  end.

(** the command code among the items seen so far: the value of the field at the root's [commandCode] *)
Fixpoint items_cc (l : list item) (cc : option Z) : option Z :=
  match l with
  | [] => cc
  | it :: r => items_cc r (if path_eqb (epath (item_event it)) cc_path then evalue (item_event it) else cc)
  end.

(** the part of a trace that needs no more than [n] input bytes *)
Fixpoint upto (n : nat) (tr : list action) : list action :=
  match tr with
  | [] => []
  | Rd b :: r => match n with O => [] | S n' => Rd b :: upto n' r end
  | a :: r => a :: upto n r
  end.

Lemma upto_cut tr1 y tr2 : upto (List.length (bytes_of tr1)) (tr1 ++ Rd y :: tr2) = tr1.
Proof.
  induction tr1 as [|a r IH]; cbn [bytes_of List.length app upto]; [reflexivity|].
  destruct a as [b|e|w]; cbn [bytes_of List.length upto]; rewrite IH; reflexivity.
Qed.

Lemma upto_reads bs rest n : (List.length bs <= n)%nat -> upto n (map Rd bs ++ rest) = map Rd bs ++ upto (n - List.length bs) rest.
Proof.
  revert n. induction bs as [|b r IH]; intros n H; cbn [map app List.length upto] in *; [rewrite Nat.sub_0_r; reflexivity|].
  destruct n as [|n]; [lia|]. rewrite IH by lia. reflexivity.
Qed.

Lemma upto_reads_short bs rest n : (n < List.length bs)%nat -> upto n (map Rd bs ++ rest) = map Rd (firstn n bs).
Proof.
  revert n. induction bs as [|b r IH]; intros n H; cbn [map app List.length upto firstn] in *; [lia|].
  destruct n as [|n]; [reflexivity|]. cbn [firstn map]. rewrite IH by lia. reflexivity.
Qed.

Lemma stamps_reads len bs rest nrd : stamps false len (map Rd bs ++ rest) nrd = stamps false len rest (nrd + Z.of_nat (List.length bs)).
Proof.
  revert nrd. induction bs as [|b r IH]; intros nrd; cbn [map app stamps List.length]; [rewrite Z.add_0_r; reflexivity|].
  rewrite IH. f_equal. lia.
Qed.

Lemma stamps_vwarn len pa p z rest nrd :
  stamps false len (vwarn pa p z ++ rest) nrd =
  (if valid p z then [] else [(Wn (EValue pa (pname p) z VSType), Z.min len (nrd + 1))]) ++ stamps false len rest nrd.
Proof. unfold vwarn. destruct (valid p z); reflexivity. Qed.

Lemma upto_vwarn pa p z rest n : upto n (vwarn pa p z ++ rest) = vwarn pa p z ++ upto n rest.
Proof. unfold vwarn. destruct (valid p z); reflexivity. Qed.

(** the events of the cut trace are those of the items within the cut *)
Lemma upto_stamps len tr items : shape tr items -> forall n off,
  stamps false len (upto n tr) off = stamp_lenient len (items_within (off + Z.of_nat n) items off) off.
Proof.
  induction 1 as [|pa t tr r H IH|pa p z bs tr r L Hw H IH]; intros n off.
  - reflexivity.
  - cbn [upto items_within]. replace (off <=? off + Z.of_nat n) with true by lia.
    cbn [stamps stamp_lenient andb]. rewrite IH. reflexivity.
  - cbn [items_within]. destruct (off + pwidth p <=? off + Z.of_nat n) eqn:Hc.
    + rewrite upto_reads by lia. cbn [upto]. rewrite upto_vwarn.
      rewrite stamps_reads. cbn [stamps andb]. rewrite stamps_vwarn. cbn [stamp_lenient].
      replace (off + Z.of_nat (List.length bs)) with (off + pwidth p) by lia.
      rewrite IH. replace (off + pwidth p + Z.of_nat (n - List.length bs)) with (off + Z.of_nat n) by lia. reflexivity.
    + rewrite upto_reads_short by lia. cbn [stamp_lenient].
      rewrite <- (app_nil_r (map Rd _)). rewrite stamps_reads. reflexivity.
Qed.

(** ... and so is the command code the pump has seen *)
Fixpoint trace_cc (tr : list action) (cc : option Z) : option Z :=
  match tr with
  | [] => cc
  | Ev e :: r => trace_cc r (if path_eqb (epath e) cc_path then evalue e else cc)
  | _ :: r => trace_cc r cc
  end.

Lemma pump_go_cc len tr : forall ps ps', pump_go false len tr ps = (ps', false) -> ps_cc ps' = trace_cc tr (ps_cc ps).
Proof.
  induction tr as [|a tr IH]; intros ps ps' H; cbn [pump_go trace_cc] in *.
  - injection H as <-. reflexivity.
  - destruct a as [b|e|w]; cbn [andb] in H; rewrite (IH _ _ H); reflexivity.
Qed.

Lemma trace_cc_reads bs rest cc : trace_cc (map Rd bs ++ rest) cc = trace_cc rest cc.
Proof. induction bs as [|b r IH]; cbn [map app trace_cc]; [reflexivity|exact IH]. Qed.

Lemma trace_cc_vwarn pa p z rest cc : trace_cc (vwarn pa p z ++ rest) cc = trace_cc rest cc.
Proof. unfold vwarn. destruct (valid p z); reflexivity. Qed.

Lemma upto_cc tr items : shape tr items -> forall n off cc,
  trace_cc (upto n tr) cc = items_cc (items_within (off + Z.of_nat n) items off) cc.
Proof.
  induction 1 as [|pa t tr r H IH|pa p z bs tr r L Hw H IH]; intros n off cc.
  - reflexivity.
  - cbn [upto items_within]. replace (off <=? off + Z.of_nat n) with true by lia. cbn [trace_cc items_cc]. apply IH.
  - cbn [items_within]. destruct (off + pwidth p <=? off + Z.of_nat n) eqn:Hc.
    + rewrite upto_reads by lia. cbn [upto]. rewrite upto_vwarn, trace_cc_reads. cbn [trace_cc items_cc]. rewrite trace_cc_vwarn.
      rewrite (IH _ (off + pwidth p)). replace (off + pwidth p + Z.of_nat (n - List.length bs)) with (off + Z.of_nat n) by lia. reflexivity.
    + rewrite upto_reads_short by lia. rewrite <- (app_nil_r (map Rd _)). rewrite trace_cc_reads. reflexivity.
Qed.

Lemma shape_cc tr items : shape tr items -> forall cc, trace_cc tr cc = items_cc items cc.
Proof.
  induction 1 as [|pa t tr r H IH|pa p z bs tr r L Hw H IH]; intros cc; cbn [trace_cc items_cc]; [reflexivity|apply IH|].
  rewrite trace_cc_reads. cbn [trace_cc]. rewrite trace_cc_vwarn. apply IH.
Qed.

Lemma items_within_valid m l : forall off, forallb item_valid l = true -> forallb item_valid (items_within m l off) = true.
Proof.
  induction l as [|[pa p z|pa t] r IH]; intros off H; cbn [items_within forallb item_valid] in *; [reflexivity| |].
  - apply andb_prop in H as [H1 H2]. destruct (_ <=? _); [|reflexivity]. cbn [forallb item_valid]. rewrite H1, IH by exact H2. reflexivity.
  - destruct (_ <=? _); [|reflexivity]. cbn [forallb item_valid]. apply IH, H.
Qed.

Section Cut.
  Variable T : tables.
  Hypothesis Hok : msg_tables_ok T = true.
  Variable r : root.
  Hypothesis Hr : is_stream_root r = false.

  (** a well-formed message cut anywhere before its end: depleted, after the events of exactly the items complete
      within the cut, carrying the command code if its field was among them *)
  Theorem cut_is_depleted bs y ys vs : sp_root T r (bs ++ y :: ys) = Some vs -> forallb all_valid vs = true ->
    let n := Z.of_nat (List.length bs) in
    let seen := items_within n (flat_map items_of vs) 0 in
    decode T true r bs = (stamp_items n seen 0, ODepleted (items_cc seen None)).
  Proof.
    intros Hs AV n seen.
    destruct (root_run T true r _ vs Hok Hr Hs ltac:(rewrite ok_leaves_true_all; exact AV)) as (tr & s' & a & E & Sh & I').
    destruct (dec_root T true r (init_st bs)) as [[tr1 s1] o1] eqn:E1.
    assert (Hext : init_st (bs ++ y :: ys) = ext (init_st bs) (y :: ys)) by reflexivity.
    destruct (asks_dec_root T true r) as [Hi Ha].
    assert (Ho : o1 = More).
    { destruct (Hi _ (y :: ys) _ _ _ E1) as [Hne _]. destruct o1 as [v|e| |k|]; try reflexivity;
        (rewrite <- Hext, E in Hne; specialize (Hne ltac:(discriminate)); injection Hne as _ Hs' _; rewrite Hs' in I';
         unfold ext in I'; cbn [inp] in I'; destruct (inp s1); discriminate). }
    subst o1.
    destruct (Ha _ y ys _ _ E1) as (tr2 & s2 & o2 & E2). rewrite <- Hext, E in E2. injection E2 as Htr _ _.
    pose proof (L_dec_root _ more_empty_lclosed T true r _ _ _ E1) as I1.
    pose proof (accounts_dec_root T true r _ _ _ _ E1) as A1. cbn [init_st inp] in A1. rewrite I1, app_nil_r in A1.
    assert (Hup : tr1 = upto (List.length bs) tr) by (rewrite Htr, A1; symmetry; apply upto_cut).
    unfold decode, pump. rewrite Hr, E1.
    destruct (pump_go_nostream (Z.of_nat (List.length bs)) tr1 (mkP 0 None [])) as (ps & G & _ & _).
    rewrite G. pose proof (pump_go_stamps _ _ _ _ _ _ G) as O. pose proof (pump_go_cc _ _ _ _ G) as C.
    cbn [ps_out ps_nrd ps_cc rev app] in O, C. rewrite O, C, Hup.
    rewrite (upto_stamps _ _ _ Sh), (upto_cc _ _ Sh _ 0). rewrite Z.add_0_l. fold n. fold seen.
    rewrite stamp_lenient_valid; [reflexivity|]. apply items_within_valid.
    clear - AV. induction vs as [|v vs IH]; cbn [flat_map forallb] in *; [reflexivity|].
    apply andb_prop in AV as [A1 A2]. rewrite forallb_app, <- items_of_valid, A1, IH by exact A2. reflexivity.
  Qed.

  (** a well-formed message followed by further bytes: superfluous, carrying exactly those bytes *)
  Theorem surplus_is_superfluous w x xs vs : sp_root T r w = Some vs -> forallb all_valid vs = true ->
    let n := Z.of_nat (List.length (w ++ x :: xs)) in
    decode T true r (w ++ x :: xs) = (stamp_items n (flat_map items_of vs) 0, OSuperfluous (x :: xs) (items_cc (flat_map items_of vs) None)).
  Proof.
    intros Hs AV n.
    destruct (root_run T true r _ vs Hok Hr Hs ltac:(rewrite ok_leaves_true_all; exact AV)) as (tr & s' & a & E & Sh & I').
    assert (Hext : init_st (w ++ x :: xs) = ext (init_st w) (x :: xs)) by reflexivity.
    destruct (incr_dec_root T true r _ (x :: xs) _ _ _ E) as [Hne _]. specialize (Hne ltac:(discriminate)). rewrite <- Hext in Hne.
    pose proof (accounts_dec_root T true r _ _ _ _ E) as A1. cbn [init_st inp] in A1. rewrite I', app_nil_r in A1.
    unfold decode, pump. rewrite Hr, Hne.
    destruct (pump_go_nostream n tr (mkP 0 None [])) as (ps & G & _ & N).
    fold n. rewrite G. pose proof (pump_go_stamps _ _ _ _ _ _ G) as O. pose proof (pump_go_cc _ _ _ _ G) as C.
    cbn [ps_out ps_nrd ps_cc rev app] in O, C, N. rewrite Z.add_0_l in N.
    rewrite N, <- A1, skipZ_app, O, C, (shape_cc _ _ Sh), (shape_stamps _ _ _ Sh).
    rewrite stamp_lenient_valid; [reflexivity|].
    clear - AV. induction vs as [|v vs IH]; cbn [flat_map forallb] in *; [reflexivity|].
    apply andb_prop in AV as [A1 A2]. rewrite forallb_app, <- items_of_valid, A1, IH by exact A2. reflexivity.
  Qed.
End Cut.

(** ---- the stream root: a cut that is not at the start of a message is depleted *)

(** some message root (a structure event at the root path) sits at byte offset [n] *)
Fixpoint root_at (n : Z) (l : list item) (off : Z) : bool :=
  match l with
  | [] => false
  | INode pa t :: r => (is_root_event (item_event (INode pa t)) && (off =? n)) || root_at n r off
  | IPrim pa p z :: r => root_at n r (off + pwidth p)
  end.

Lemma upto_app_short a b n : (n < List.length (bytes_of a))%nat -> upto n (a ++ b) = upto n a.
Proof.
  revert n. induction a as [|x a IH]; intros n H; cbn [bytes_of List.length app upto] in *; [lia|].
  destruct x as [c|e|w]; cbn [bytes_of List.length] in H.
  - destruct n as [|n]; [reflexivity|]. rewrite IH by lia. reflexivity.
  - rewrite IH by exact H. reflexivity.
  - rewrite IH by exact H. reflexivity.
Qed.

Lemma prim_not_root pa p z : is_root_event (item_event (IPrim pa p z)) = false.
Proof. unfold is_root_event, item_event. cbn [evalue]. apply andb_false_r. Qed.

Lemma clean_upto n tr items : shape tr items -> forall k off, off + Z.of_nat k = n -> root_at n items off = false -> clean n (upto k tr) off.
Proof.
  induction 1 as [|pa t tr r H IH|pa p z bs tr r L Hw H IH]; intros k off Hk Hr.
  - apply clean_nil.
  - cbn [upto root_at] in *. apply orb_false_elim in Hr as [Hr1 Hr2].
    intros ps Hp. cbn [pump_go].
    replace (true && (n <=? ps_nrd ps) && is_root_event (item_event (INode pa t))) with false.
    + apply (IH k off Hk Hr2). exact Hp.
    + symmetry. destruct (is_root_event (item_event (INode pa t))); [|rewrite andb_false_r; reflexivity].
      cbn [andb] in Hr1. rewrite andb_true_r. cbn [andb]. lia.
  - cbn [root_at] in Hr. destruct (Nat.le_gt_cases (List.length bs) k) as [Hle|Hgt].
    + rewrite upto_reads by exact Hle. cbn [upto]. rewrite upto_vwarn.
      apply clean_reads. intros ps Hp. cbn [pump_go]. rewrite prim_not_root, andb_false_r.
      assert (Hc : clean n (upto (k - List.length bs) tr) (off + blen bs)).
      { apply IH; [unfold blen; lia|]. replace (off + blen bs) with (off + pwidth p) by (unfold blen; lia). exact Hr. }
      unfold vwarn. destruct (valid p z); cbn [app pump_go]; apply Hc; cbn [ps_nrd]; exact Hp.
    + rewrite upto_reads_short by exact Hgt. rewrite <- (app_nil_r (map Rd _)). apply clean_reads, clean_nil.
Qed.

Section StreamCut.
  Variable T : tables.
  Hypothesis Hok : msg_tables_ok T = true.

  Theorem stream_cut_inside_is_depleted bs y ys vs :
    sp_stream T (List.length (bs ++ y :: ys)) root_path (bs ++ y :: ys) = Some vs -> forallb all_valid vs = true ->
    Z.of_nat (List.length (bs ++ y :: ys)) < Z.pos stream_bound ->
    let n := Z.of_nat (List.length bs) in
    let seen := items_within n (flat_map items_of vs) 0 in
    root_at n (flat_map items_of vs) 0 = false ->
    decode T true RStream bs = (stamp_items n seen 0, ODepleted (items_cc seen None)).
  Proof.
    intros Hs AV Hb n seen Hroot. set (w := bs ++ y :: ys) in *.
    assert (HN : (List.length w < Pos.to_nat stream_bound)%nat) by (apply Nat2Z.inj_lt; rewrite positive_nat_Z; exact Hb).
    destruct (stream_iter T true Hok (List.length w) (Pos.to_nat stream_bound) w vs (init_st w) Hs
                ltac:(rewrite ok_leaves_true_all; exact AV) HN (wf_init w) eq_refl)
      as (tr_m & e & tl & s' & o & E & He & Sh & Bm & Cm).
    assert (Er : exists tl' s'' o'', dec_root T true RStream (init_st w) = (tr_m ++ tl', s'', o'')).
    { cbn [dec_root]. unfold dec_stream.
      assert (E0 : rep stream_bound (sbody T true) tt (init_st w) = (tr_m ++ Ev e :: tl, s', o)).
      { rewrite (rep_iter _ (sbody T true) stream_bound tt (init_st w)), E. reflexivity. }
      destruct (bind_prefix _ _ (rep stream_bound (sbody T true) tt) (fun _ => @fuel_ unit) (init_st w) _ _ _ _ E0) as (tl1 & s1 & o1 & E1).
      destruct (bind_prefix _ _ _ (fun _ => ret (@None value)) (init_st w) _ _ _ _ E1) as (tl2 & s2 & o2 & E2).
      eexists _, _, _. exact E2. }
    destruct Er as (tl' & s'' & o'' & Er).
    destruct (dec_root T true RStream (init_st bs)) as [[tr1 s1] o1] eqn:E1.
    assert (Hext : init_st w = ext (init_st bs) (y :: ys)) by reflexivity.
    destruct (asks_dec_root T true RStream) as [Hi Ha].
    pose proof (accounts_dec_root T true RStream _ _ _ _ E1) as A1. cbn [init_st inp] in A1.
    assert (Hlen : (List.length bs < List.length (bytes_of tr_m))%nat) by (rewrite Bm; unfold w; rewrite app_length; cbn [List.length]; lia).
    assert (Ho : o1 = More).
    { destruct (Hi _ (y :: ys) _ _ _ E1) as [Hne _]. destruct o1 as [v|ee| |k|]; try reflexivity;
        (rewrite <- Hext, Er in Hne; specialize (Hne ltac:(discriminate)); injection Hne as Htr _ _;
         apply (f_equal (fun t => List.length (bytes_of t))) in Htr; rewrite bytes_of_app, app_length in Htr;
         apply (f_equal (@List.length Z)) in A1; rewrite app_length in A1; lia). }
    subst o1.
    destruct (Ha _ y ys _ _ E1) as (tr2 & s2 & o2 & E2). rewrite <- Hext, Er in E2. injection E2 as Htr _ _.
    pose proof (L_dec_root _ more_empty_lclosed T true RStream _ _ _ E1) as I1. rewrite I1, app_nil_r in A1.
    assert (Hup : tr1 = upto (List.length bs) tr_m).
    { rewrite <- (upto_app_short tr_m tl' _ Hlen), Htr, A1. symmetry. apply upto_cut. }
    unfold decode, pump. rewrite E1. cbn [is_stream_root].
    destruct (pump_go_nostream (Z.of_nat (List.length bs)) tr1 (mkP 0 None [])) as (ps & G & _ & _).
    assert (Cl : clean n tr1 0) by (rewrite Hup; apply (clean_upto n tr_m _ Sh); [lia|exact Hroot]).
    fold n in G |- *. rewrite (Cl (mkP 0 None []) eq_refl), G.
    pose proof (pump_go_stamps _ _ _ _ _ _ G) as O. pose proof (pump_go_cc _ _ _ _ G) as C.
    cbn [ps_out ps_nrd ps_cc rev app] in O, C. rewrite O, C, Hup.
    rewrite (upto_stamps _ _ _ Sh), (upto_cc _ _ Sh _ 0). rewrite Z.add_0_l. fold n. fold seen.
    rewrite stamp_lenient_valid; [reflexivity|]. apply items_within_valid.
    clear - AV. induction vs as [|v vs IH]; cbn [flat_map forallb] in *; [reflexivity|].
    apply andb_prop in AV as [A1 A2]. rewrite forallb_app, <- items_of_valid, A1, IH by exact A2. reflexivity.
  Qed.
End StreamCut.
