(** Simulation, part 13: C04 for streams - strict decoding of a stream of whole messages with an out-of-range leaf. *)
From Coq Require Import ZArith List String Bool Lia ZifyBool.
From TV Require Import Layout.Types Base.Bytes Model.Monad Model.Constraints Model.Ints Model.Decoder Model.Message Model.Pump
  Spec.Value Spec.Message Proofs.Account Proofs.Tiling Proofs.PumpProofs Proofs.Agree
  Proofs.Sim1 Proofs.Sim2 Proofs.Sim3 Proofs.Sim4 Proofs.Sim5 Proofs.Sim6 Proofs.Sim7 Proofs.Sim8 Proofs.Sim9 Proofs.Sim10 Proofs.Sim11.
Import ListNotations.
Open Scope list_scope.
Open Scope Z_scope.

(** the first warning of [X ++ junk] lies in [X] *)
Lemma first_warning_inside X : forall junk tr pre e rest,
  X ++ junk = tr ++ pre ++ Wn e :: rest -> existsb is_warning X = true -> existsb is_warning tr = false -> offending e pre ->
  exists rest', X = tr ++ pre ++ Wn e :: rest'.
Proof.
  induction X as [|a X IH]; intros junk tr pre e rest H HX Ht O; [discriminate|].
  destruct tr as [|b tr1]; cbn [app] in H.
  - apply offending_cases in O. destruct O as [->|(pa & tn & v & src & -> & ->)]; cbn [app] in H.
    + injection H as -> _. exists X. reflexivity.
    + injection H as -> H. destruct X as [|a2 X2]; [discriminate|]. cbn [app] in H. injection H as -> _.
      exists X2. reflexivity.
  - injection H as -> H. cbn [existsb orb] in Ht, HX. apply orb_false_elim in Ht as [Hb Ht]. rewrite Hb in HX. cbn [orb] in HX.
    destruct (IH junk tr1 pre e rest H HX Ht O) as (rest' & ->). exists rest'. reflexivity.
Qed.

(** when the pump does not stop at a message root it behaves as in plain mode *)
Lemma pump_go_not_stopped len tr : forall ps ps', pump_go true len tr ps = (ps', false) -> pump_go false len tr ps = (ps', false).
Proof.
  induction tr as [|a tr IH]; intros ps ps' H; cbn [pump_go] in *; [exact H|].
  destruct a as [b|e|w]; try (apply IH, H).
  cbn [andb]. destruct (true && (len <=? ps_nrd ps) && is_root_event e); [discriminate|apply IH, H].
Qed.

Lemma clean_prefix len a b nrd : clean len (a ++ b) nrd -> clean len a nrd.
Proof.
  intros H ps Hn. destruct (pump_go true len a ps) as [ps1 st] eqn:G.
  destruct st.
  - pose proof (pump_go_app_stopped true len a b ps ps1 G) as G2. rewrite (H ps Hn) in G2.
    destruct (pump_go_nostream len (a ++ b) ps) as (ps2 & G3 & _). rewrite G3 in G2. discriminate.
  - symmetry. apply pump_go_not_stopped. exact G.
Qed.

Theorem stream_first_bad T bs evs o :
  msg_tables_ok T = true -> Z.of_nat (List.length bs) < Z.pos stream_bound ->
  spec_value_error T RStream bs = Some (evs, o) -> decode T true RStream bs = (evs, o).
Proof.
  intros Ht Hb. unfold spec_value_error. cbn [sp_root].
  destruct (sp_stream T (List.length bs) root_path bs) as [vs|] eqn:Es; [|discriminate].
  destruct (until_bad (Z.of_nat (List.length bs)) (flat_map items_of vs) 0) as [evs0 [[[[pa p] z] off]|]] eqn:U; [|discriminate].
  intros [= <- <-].
  assert (HN : (List.length bs < Pos.to_nat stream_bound)%nat) by (apply Nat2Z.inj_lt; rewrite positive_nat_Z; exact Hb).
  destruct (stream_iter T false Ht (List.length bs) (Pos.to_nat stream_bound) bs vs (init_st bs) Es (ok_leaves_false_all vs) HN (wf_init bs) eq_refl)
    as (tr_m & e & tl & s' & o & E & He & Sh & Bm & Cm).
  assert (Ew : exists tl' s'' o'', dec_root T false RStream (init_st bs) = (tr_m ++ (Ev e :: tl'), s'', o'')).
  { cbn [dec_root]. unfold dec_stream.
    assert (E0 : rep stream_bound (sbody T false) tt (init_st bs) = ((tr_m ++ [Ev e]) ++ tl, s', o)).
    { rewrite (rep_iter _ (sbody T false) stream_bound tt (init_st bs)), E, <- app_assoc. reflexivity. }
    destruct (bind_prefix _ _ (rep stream_bound (sbody T false) tt) (fun _ => @fuel_ unit) (init_st bs) _ _ _ _ E0) as (tl1 & s1 & o1 & E1).
    destruct (bind_prefix _ _ _ (fun _ => ret (@None value)) (init_st bs) _ _ _ _ E1) as (tl2 & s2 & o2 & E2).
    exists tl2, s2, o2. rewrite <- app_assoc in E2. exact E2. }
  destruct Ew as (tl' & sw & ow & Ew).
  pose proof (agree_dec_root T RStream (init_st bs)) as Ag.
  destruct (dec_root T true RStream (init_st bs)) as [[tr ss] os] eqn:Er.
  pose proof (strict_is_quiet T RStream _ _ _ _ Er) as Q.
  pose proof (shape_has_warning _ _ _ Sh _ _ _ U) as Hw.
  assert (Hfail : exists e0 pre rest, os = Fail e0 /\ tr_m ++ (Ev e :: tl') = tr ++ pre ++ Wn e0 :: rest /\ offending e0 pre).
  { destruct os as [a0|e0| |k|].
    - exfalso. rewrite Ew in Ag. injection Ag as Ht' _ _. rewrite <- Ht', existsb_app, Hw in Q. discriminate.
    - destruct Ag as [(pre & rest & s2 & o2 & Ea & O)|Ea].
      + rewrite Ew in Ea. injection Ea as Ht' _ _. exists e0, pre, rest. repeat split; assumption.
      + exfalso. rewrite Ew in Ea. injection Ea as Ht' _ _. rewrite <- Ht', existsb_app, Hw in Q. discriminate.
    - exfalso. rewrite Ew in Ag. injection Ag as Ht' _ _. rewrite <- Ht', existsb_app, Hw in Q. discriminate.
    - exfalso. rewrite Ew in Ag. injection Ag as Ht' _ _. rewrite <- Ht', existsb_app, Hw in Q. discriminate.
    - exfalso. rewrite Ew in Ag. injection Ag as Ht' _ _. rewrite <- Ht', existsb_app, Hw in Q. discriminate. }
  destruct Hfail as (e0 & pre & rest & -> & Hsplit & O).
  destruct (first_warning_inside tr_m _ tr pre e0 rest Hsplit Hw Q O) as (rest' & Hm).
  destruct (first_bad_trace _ _ _ Sh tr pre e0 rest' 0 evs0 pa p z off Hm Q O U) as (S1 & -> & ->).
  unfold decode, pump. rewrite Er. cbn [is_stream_root].
  set (len := Z.of_nat (List.length bs)).
  assert (Cl : clean len tr 0).
  { apply (clean_prefix len tr (pre ++ Wn (EValue pa (pname p) z VSType) :: rest') 0). rewrite <- Hm. apply Cm. unfold blen, len. lia. }
  destruct (pump_go_nostream len tr (mkP 0 None [])) as (ps & G & _ & N).
  pose proof (pump_go_stamps _ _ _ _ _ _ G) as Out. cbn [ps_out ps_nrd rev app] in Out, N.
  rewrite (Cl (mkP 0 None []) eq_refl), G. rewrite Out. unfold len. rewrite S1, N. reflexivity.
Qed.

(** C04 for every root *)
Theorem any_root_first_bad T r bs evs o :
  msg_tables_ok T = true -> within_bound r bs -> spec_value_error T r bs = Some (evs, o) -> decode T true r bs = (evs, o).
Proof.
  intros Ht Hb H. destruct (is_stream_root r) eqn:Hr.
  - destruct r; try discriminate. apply (stream_first_bad T bs evs o Ht (Hb eq_refl) H).
  - apply (root_first_bad T r bs evs o Ht Hr H).
Qed.
