From Coq Require Import ZArith List String Bool Lia.
From TV Require Import Layout.Types Model.Monad Model.Decoder Model.Pump Model.Object.
Import ListNotations.
Open Scope list_scope.

(** a message: starts with a root event, contains no other *)
Definition message (m : list event) : Prop :=
  match m with
  | e :: r => is_root e = true /\ forallb (fun x => negb (is_root x)) r = true
  | [] => False
  end.

Lemma separate_nonroots r cur rest :
  forallb (fun x => negb (is_root x)) r = true -> separate (r ++ rest) cur = separate rest (rev r ++ cur).
Proof.
  revert cur. induction r as [|e r IH]; intros cur H; cbn [app rev]; [reflexivity|].
  cbn [forallb] in H. apply andb_prop in H as [He Hr]. cbn [separate].
  destruct (is_root e); [discriminate|]. cbn [andb]. rewrite IH by exact Hr.
  rewrite <- app_assoc. reflexivity.
Qed.

(** C09: the events of a stream, split at the message roots, are the messages one by one *)
Theorem separate_messages ms : Forall message ms -> separate_events (List.concat ms) = ms.
Proof.
  unfold separate_events.
  assert (G : forall ms cur, Forall message ms -> cur <> [] ->
              separate (List.concat ms) cur = rev cur :: ms).
  { induction ms0 as [|m r IH]; intros cur H Hc; cbn [List.concat separate].
    - destruct cur; [contradiction|reflexivity].
    - inversion H as [|? ? Hm Hr]; subst. destruct m as [|e m']; [contradiction|].
      destruct Hm as [He Hn]. cbn [app separate]. rewrite He.
      destruct cur as [|c cur']; [contradiction|]. cbn [negb andb].
      rewrite separate_nonroots by exact Hn. f_equal.
      destruct r as [|m2 r'].
      + cbn [List.concat separate].
        destruct (rev m' ++ [e]) eqn:E; [destruct (rev m'); discriminate|].
        rewrite <- E. rewrite rev_app_distr, rev_involutive. reflexivity.
      + rewrite IH; [|exact Hr|destruct (rev m'); discriminate].
        rewrite rev_app_distr, rev_involutive. reflexivity. }
  intros H. destruct ms as [|m r]; [reflexivity|].
  inversion H as [|? ? Hm Hr]; subst. destruct m as [|e m']; [contradiction|]. destruct Hm as [He Hn].
  cbn [List.concat app separate]. rewrite He. cbn [andb negb].
  rewrite separate_nonroots by exact Hn.
  destruct r as [|m2 r'].
  - cbn [List.concat separate]. destruct (rev m' ++ [e]) eqn:E; [destruct (rev m'); discriminate|].
    rewrite <- E. rewrite rev_app_distr, rev_involutive. reflexivity.
  - rewrite G; [|exact Hr|destruct (rev m'); discriminate].
    rewrite rev_app_distr, rev_involutive. reflexivity.
Qed.

(** the pairing: message 2k is a command, message 2k+1 the response to it (built with its command code) *)
Theorem roles_alternate c rsp rest :
  roles (c :: rsp :: rest) None = RoleCommand :: RoleResponse (command_code_of c) :: roles rest None.
Proof. reflexivity. Qed.

Theorem roles_length ms p : List.length (roles ms p) = List.length ms.
Proof. revert p. induction ms as [|m r IH]; intros p; cbn [roles]; [reflexivity|]. destruct p; cbn [List.length]; rewrite IH; reflexivity. Qed.
