(** Completeness, part 3: through the byte pump - what strict decoding of a structure type ACCEPTS is exactly what the
    specification reads (C03: in particular every size field equals the length of the region it governs). *)
From Coq Require Import ZArith List String Bool Lia ZifyBool.
From TV Require Import Layout.Types Base.Bytes Model.Monad Model.Constraints Model.Ints Model.Decoder Model.Message Model.Pump
  Spec.Value Spec.Message Proofs.Account Proofs.Tiling Proofs.PumpProofs
  Proofs.Sim1 Proofs.Sim2 Proofs.Sim3 Proofs.Sim4 Proofs.Sim5 Proofs.Sim10 Proofs.Safe1 Proofs.Safe2 Proofs.Comp2.
Import ListNotations.
Open Scope list_scope.
Open Scope Z_scope.

(** an accepted decode of a root other than a stream: the processor completed and nothing was left *)
Lemma accepted_inv T r bs evs : is_stream_root r = false -> decode T true r bs = (evs, OAccepted) ->
  exists tr s' a, dec_root T true r (init_st bs) = (tr, s', Ok a) /\ inp s' = [] /\ evs = stamps false (Z.of_nat (List.length bs)) tr 0.
Proof.
  intros Hr D. unfold decode, pump in D. rewrite Hr in D.
  destruct (dec_root T true r (init_st bs)) as [[tr s'] o] eqn:E.
  destruct (pump_go_nostream (Z.of_nat (List.length bs)) tr (mkP 0 None [])) as (ps & G & _ & N).
  rewrite G in D. pose proof (pump_go_stamps _ _ _ _ _ _ G) as O. cbn [ps_out ps_nrd rev app] in O, N. rewrite Z.add_0_l in N.
  pose proof (accounts_dec_root T true r (init_st bs) tr s' o E) as A. cbn [init_st inp] in A.
  assert (Rk : skipZ bs (ps_nrd ps) = inp s') by (rewrite N; rewrite A at 1; apply skipZ_app).
  rewrite Rk in D.
  destruct o as [a|e| |k|]; try discriminate.
  destruct (inp s') as [|x xs] eqn:Ei; [|discriminate]. injection D as <-.
  exists tr, s', a. split; [reflexivity|]. split; [exact Ei|exact O].
Qed.

(** C03 / completeness for structure types: accepted => the specification reads the whole input as a value of the
    type with valid leaves and exact sizes, and the events are the specified ones *)
Theorem types_accepted_are_specified T t bs evs :
  safe_ty t = true -> lp_ty t = true -> Forall isbyte bs ->
  decode T true (RType t) bs = (evs, OAccepted) -> spec_events T (RType t) bs = Some evs.
Proof.
  intros Hs Hl Hb D. destruct (accepted_inv T (RType t) bs evs eq_refl D) as (tr & s' & a & E & I' & ->).
  cbn [dec_root] in E. unfold bind in E. cbn [set_lst init_st inp store lst] in E.
  destruct (dec_ty T true t root_path None false (mkSt bs [] [])) as [[tr1 s1] o1] eqn:E1.
  destruct o1 as [a1|e| |k|]; try discriminate. injection E as <- <- <-.
  destruct (proj1 (comp_all T) t Hs Hl root_path None (mkSt bs [] []) tr1 s1 a1 ltac:(split; constructor) Hb E1) as (v & Hv & Sh & AV & _).
  cbn [inp] in Hv. rewrite I' in Hv.
  unfold spec_events, sp_root. rewrite Hv. cbn [forallb flat_map]. rewrite AV. cbn [andb]. rewrite ?app_nil_r.
  rewrite (shape_stamps _ _ _ Sh). rewrite stamp_lenient_valid by (rewrite <- items_of_valid; exact AV). reflexivity.
Qed.

(** both directions: strict decoding of a structure type accepts exactly the well-formed encodings *)
Theorem types_accept_iff_specified T t bs evs :
  safe_ty t = true -> lp_ty t = true -> Forall isbyte bs ->
  (decode T true (RType t) bs = (evs, OAccepted) <-> spec_events T (RType t) bs = Some evs).
Proof.
  intros Hs Hl Hb. split; [apply types_accepted_are_specified; assumption|apply types_decode_as_specified].
Qed.
