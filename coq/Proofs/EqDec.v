(** Decidable equality of layout tables (so that C20_pinned is one vm_compute of a boolean). *)
From Coq Require Import ZArith List String Ascii Bool.
From TV Require Import Layout.Types.
Import ListNotations.

Lemma emember_eq_dec (a b : emember) : {a = b} + {a <> b}.
Proof. decide equality; auto using string_dec, Z.eq_dec. Defined.
Lemma vitem_eq_dec (a b : vitem) : {a = b} + {a <> b}.
Proof. decide equality; auto using string_dec, Z.eq_dec, (list_eq_dec emember_eq_dec). Defined.
Lemma sz_eq_dec (a b : string * Z) : {a = b} + {a <> b}.
Proof. decide equality; auto using string_dec, Z.eq_dec. Defined.
Lemma zs_eq_dec (a b : Z * string) : {a = b} + {a <> b}.
Proof. decide equality; auto using string_dec, Z.eq_dec. Defined.
Lemma pkind_eq_dec (a b : pkind) : {a = b} + {a <> b}.
Proof. decide equality; auto using (list_eq_dec emember_eq_dec), (list_eq_dec sz_eq_dec). Defined.
Lemma prim_eq_dec (a b : prim) : {a = b} + {a <> b}.
Proof. decide equality; auto using string_dec, Z.eq_dec, bool_dec, pkind_eq_dec, (list_eq_dec vitem_eq_dec). Defined.
Lemma selkey_eq_dec (a b : selkey) : {a = b} + {a <> b}.
Proof. decide equality; auto using Z.eq_dec. Defined.
Lemma optZ_eq_dec (a b : option Z) : {a = b} + {a <> b}.
Proof. decide equality; auto using Z.eq_dec. Defined.

Fixpoint ty_eq_dec (a b : ty) {struct a} : {a = b} + {a <> b}
with fields_eq_dec (a b : fields) {struct a} : {a = b} + {a <> b}
with arms_eq_dec (a b : arms) {struct a} : {a = b} + {a <> b}
with armp_eq_dec (a b : armp) {struct a} : {a = b} + {a <> b}.
Proof.
  - decide equality; auto using string_dec, bool_dec, prim_eq_dec.
  - decide equality; auto using string_dec.
  - decide equality; auto using string_dec, selkey_eq_dec.
  - decide equality; auto using optZ_eq_dec.
Defined.

Lemma sty_eq_dec (a b : string * ty) : {a = b} + {a <> b}.
Proof. decide equality; auto using string_dec, ty_eq_dec. Defined.
Lemma zty_eq_dec (a b : Z * ty) : {a = b} + {a <> b}.
Proof. decide equality; auto using Z.eq_dec, ty_eq_dec. Defined.

Lemma tables_eq_dec (a b : tables) : {a = b} + {a <> b}.
Proof.
  decide equality; auto using string_dec, Z.eq_dec, prim_eq_dec, ty_eq_dec, optZ_eq_dec,
    (list_eq_dec sty_eq_dec), (list_eq_dec zty_eq_dec), (list_eq_dec zs_eq_dec).
Defined.

Definition tables_eqb (a b : tables) : bool := if tables_eq_dec a b then true else false.
Lemma tables_eqb_sound a b : tables_eqb a b = true -> a = b.
Proof. unfold tables_eqb. destruct (tables_eq_dec a b); [auto|discriminate]. Qed.

Definition prims_eqb (a b : list prim) : bool := if list_eq_dec prim_eq_dec a b then true else false.
Lemma prims_eqb_sound a b : prims_eqb a b = true -> a = b.
Proof. unfold prims_eqb. destruct (list_eq_dec prim_eq_dec a b); [auto|discriminate]. Qed.
