(** One structural induction over the whole decoder model, done once: any predicate on
    computations that is closed under the model's building blocks holds of every decoder
    function.  Invariants (byte accounting, tiling, absence of internal errors, ...) are then
    proved by exhibiting the closure record. *)
From Coq Require Import ZArith List String Bool.
From TV Require Import Layout.Types Base.Bytes Model.Monad Model.Constraints Model.Ints Model.Decoder Model.Message.
Import ListNotations.
Open Scope Z_scope.

Section Closure.
  Variable T : tables.
  Variable abort : bool.
  Variable P : forall A : Type, M A -> Prop.
  Arguments P {A} _.

  Record closed : Prop := mkClosed {
    c_ret : forall A (a : A), P (ret a);
    c_bind : forall A B (m : M A) (f : A -> M B), P m -> (forall a, P (f a)) -> P (bind m f);
    c_get : P get;
    c_fail : forall A pa tn v src, P (@fail A (EValue pa tn v src));   (* the decoder itself raises value errors only *)
    c_internal : forall A k, P (@internal_ A k);
    c_fuel : forall A, P (@fuel_ A);
    c_sev : forall pa t, P (emit (sev pa t));
    c_prim : forall p pa, P (dec_prim abort p pa);
    c_new_sc : P new_sc;
    c_set_constraint : forall i pa n, P (set_constraint abort i pa n);
    c_append_lst : forall i, P (append_lst i);
    c_set_lst : forall l, P (set_lst l);
    c_assert_done : forall i, P (assert_done abort i);
    c_catch : forall A ids (m h : M A), P m -> P h -> P (catch_exceeded abort ids m h);
    c_problem : forall pa ex fo, P (if abort then @fail unit (EEncMismatch pa ex fo) else emit (Wn (EEncMismatch pa ex fo))) }.

  Hypothesis C : closed.

  Lemma P_rep A (f : A -> M A) : (forall x, P (f x)) -> forall p x, P (rep p f x).
  Proof.
    intros Hf p. induction p as [q IH|q IH|]; intros x; cbn [rep].
    - apply (c_bind C); [apply Hf|]. intros y. apply (c_bind C); [apply IH|]. intros z. apply IH.
    - apply (c_bind C); [apply IH|]. intros y. apply IH.
    - apply Hf.
  Qed.

  Lemma P_repZ A (f : A -> M A) : (forall x, P (f x)) -> forall n x, P (repZ n f x).
  Proof. intros Hf n x. destruct n; cbn [repZ]; [apply (c_ret C)|apply P_rep; assumption|apply (c_ret C)]. Qed.

  Lemma P_dec_array lid pa count body : (forall p, P (body p)) -> P (dec_array lid pa count body).
  Proof.
    intros Hb. unfold dec_array.
    apply (c_bind C); [apply (c_sev C)|]. intros _.
    apply (c_bind C).
    - apply P_repZ. intros x. apply (c_bind C); [apply Hb|]. intros v. apply (c_ret C).
    - intros r. apply (c_ret C).
  Qed.

  Lemma P_dec_tpm2b_list name szf buf szp lid body pa :
    (forall p, P (body p)) -> P (dec_tpm2b_list abort name szf buf szp lid body pa).
  Proof.
    intros Hb. unfold dec_tpm2b_list.
    apply (c_bind C); [apply (c_sev C)|]. intros _.
    apply (c_bind C); [apply (c_prim C)|]. intros szv.
    apply (c_bind C); [apply (c_new_sc C)|]. intros cid.
    apply (c_bind C); [apply (c_set_constraint C)|]. intros _.
    apply (c_bind C); [apply (c_append_lst C)|]. intros _.
    apply (c_bind C); [apply P_dec_array; assumption|]. intros bv.
    apply (c_bind C); [apply (c_assert_done C)|]. intros _.
    apply (c_ret C).
  Qed.

  Lemma P_dec_enc_param pa : P (dec_enc_param T abort pa).
  Proof.
    unfold dec_enc_param. destruct (t_enc_param T) as [| | ? ? ? ? [ep| | | |] | |]; try apply (c_internal C).
    apply P_dec_tpm2b_list. intros p. apply (c_prim C).
  Qed.

  Definition P_ty (t : ty) : Prop := forall pa sel enc, P (dec_ty T abort t pa sel enc).
  Definition P_fields (fs : fields) : Prop :=
    (forall pa rvals, P (dec_fields T abort fs pa rvals)) /\
    match fs with
    | FPlain _ _ r => forall pa rvals, P (dec_fields T abort r pa rvals)
    | _ => True
    end.
  Definition P_arms (ar : arms) : Prop := forall uname pa target, P (dec_arms T abort ar uname pa target).
  Definition P_armp (p : armp) : Prop :=
    match p with
    | PNone => True
    | PTy t => P_ty t
    | PList elem _ => P_ty elem
    end.

  Lemma P_dec_all :
    (forall t, P_ty t) /\ (forall fs, P_fields fs) /\ (forall ar, P_arms ar) /\ (forall p, P_armp p).
  Proof.
    apply ty_mutind.
    - (* TPrim *) intros p pa sel enc. cbn [dec_ty]. apply (c_prim C).
    - (* TStruct *) intros name isparams fs [IH IHt] pa sel enc. cbn [dec_ty].
      apply (c_bind C); [apply (c_sev C)|]. intros _.
      apply (c_bind C).
      + destruct (enc && isparams && first_is_tpm2b fs).
        * destruct fs as [|n t r|n e r|n s u r]; [exact (IH pa [])| |exact (IH pa [])|exact (IH pa [])].
          apply (c_bind C); [apply P_dec_enc_param|]. intros v. apply IHt.
        * apply IH.
      + intros vals. apply (c_ret C).
    - (* TTpm2bList *) intros name szf buf szp elem IH pa sel enc. cbn [dec_ty].
      apply P_dec_tpm2b_list. intros p. apply IH.
    - (* TTpm2bStruct *) intros name szf buf szp inner IH pa sel enc. cbn [dec_ty].
      apply (c_bind C); [apply (c_sev C)|]. intros _.
      apply (c_bind C); [apply (c_prim C)|]. intros szv.
      apply (c_bind C); [apply (c_new_sc C)|]. intros cid.
      apply (c_bind C); [apply (c_set_constraint C)|]. intros _.
      apply (c_bind C); [apply (c_append_lst C)|]. intros _.
      destruct (_ =? 0).
      + apply (c_bind C); [apply (c_sev C)|]. intros _.
        apply (c_bind C); [apply (c_assert_done C)|]. intros _. apply (c_ret C).
      + apply (c_catch C); [|apply (c_ret C)].
        apply (c_bind C); [apply IH|]. intros bv.
        apply (c_bind C); [apply (c_assert_done C)|]. intros _. apply (c_ret C).
    - (* TUnion *) intros name ar IH pa sel enc. cbn [dec_ty].
      apply (c_bind C); [apply (c_sev C)|]. intros _.
      destruct (select_arm ar sel) as [[n ?]|].
      + apply IH.
      + destruct sel as [[tn z]|]; [apply (c_fail C)|apply (c_internal C)].
    - (* FNil *) split; [|exact I]. intros pa rvals. cbn [dec_fields]. apply (c_ret C).
    - (* FPlain *) intros n t IHt r [IHr _]. split; [|exact IHr]. intros pa rvals. cbn [dec_fields].
      apply (c_bind C); [apply IHt|]. intros v. apply IHr.
    - (* FList *) intros n elem IHe r [IHr _]. split; [|exact I]. intros pa rvals. cbn [dec_fields].
      destruct (last_nonlist rvals) as [cv|]; [|apply (c_internal C)].
      destruct (as_int cv) as [count|]; [|apply (c_internal C)].
      apply (c_bind C); [apply P_dec_array; intros p; apply IHe|]. intros v. apply IHr.
    - (* FUnion *) intros n seln u IHu r [IHr _]. split; [|exact I]. intros pa rvals. cbn [dec_fields].
      destruct (lookupS seln rvals) as [sv|]; [|apply (c_internal C)].
      destruct (as_typed_int sv) as [tz|]; [|apply (c_internal C)].
      apply (c_bind C); [apply IHu|]. intros v. apply IHr.
    - (* ANil *) intros uname pa target. cbn [dec_arms]. apply (c_internal C).
    - (* ACons *) intros n key p IHp r IHr uname pa target. cbn [dec_arms].
      destruct (String.eqb n target); [|apply IHr].
      destruct p as [|t|elem [cnt|]]; cbn [P_armp] in IHp.
      + apply (c_ret C).
      + apply (c_bind C); [apply IHp|]. intros v. apply (c_ret C).
      + apply (c_bind C); [apply P_dec_array; intros q; apply IHp|]. intros v. apply (c_ret C).
      + apply (c_internal C).
    - exact I.
    - intros t IH. exact IH.
    - intros elem IH n. exact IH.
  Qed.

  Lemma P_dec_ty t pa sel enc : P (dec_ty T abort t pa sel enc).
  Proof. apply P_dec_all. Qed.

  Lemma P_dec_sized_array lid pa cid body : (forall p, P (body p)) -> P (dec_sized_array abort lid pa cid body).
  Proof.
    intros Hb. unfold dec_sized_array.
    apply (c_bind C); [apply (c_sev C)|]. intros _.
    apply (c_bind C); [apply (c_get C)|]. intros s0.
    destruct (sc_max (get_sc s0 cid)) as [mx|]; [|apply (c_internal C)].
    apply (c_catch C); [|apply (c_ret C)].
    apply (c_bind C).
    - apply P_repZ. intros x. apply (c_bind C); [apply (c_get C)|]. intros s.
      destruct (_ <? _); [|apply (c_ret C)].
      apply (c_bind C); [apply Hb|]. intros v. apply (c_ret C).
    - intros r. apply (c_bind C); [apply (c_get C)|]. intros s.
      destruct (_ <? _); [apply (c_fuel C)|].
      apply (c_bind C); [apply (c_assert_done C)|]. intros _. apply (c_ret C).
  Qed.

  Lemma P_try_field A R ids (m : M A) (ab : M R) (k : A -> M R) :
    P m -> P ab -> (forall a, P (k a)) -> P (try_field abort ids m ab k).
  Proof.
    intros Hm Hab Hk. unfold try_field.
    apply (c_bind C).
    - apply (c_catch C); [|apply (c_ret C)]. apply (c_bind C); [exact Hm|]. intros a. apply (c_ret C).
    - intros [a|]; [apply Hk|exact Hab].
  Qed.

  Lemma P_cmd_params_step pa cid aid ccz v area enc : P (cmd_params_step T abort pa cid aid ccz v area enc).
  Proof.
    unfold cmd_params_step, bad_cc. destruct (lookupZ _ (cmd_params T)) as [pty|]; [|apply (c_fail C)].
    apply P_try_field; [apply P_dec_ty|apply (c_ret C)|]. intros pv.
    apply (c_bind C); [apply (c_assert_done C)|]. intros _. apply (c_ret C).
  Qed.

  Lemma P_dec_command pa : P (dec_command T abort pa).
  Proof.
    unfold dec_command, bad_cc.
    apply (c_bind C); [apply (c_new_sc C)|]. intros cid.
    apply (c_bind C); [apply (c_new_sc C)|]. intros aid.
    apply (c_bind C); [apply (c_set_lst C)|]. intros _.
    apply (c_bind C); [apply (c_sev C)|]. intros _.
    apply P_try_field; [apply (c_prim C)|apply (c_ret C)|]. intros tagv.
    apply P_try_field; [apply (c_prim C)|apply (c_ret C)|]. intros szv.
    apply (c_bind C); [apply (c_set_constraint C)|]. intros _.
    apply P_try_field; [apply (c_prim C)|apply (c_ret C)|]. intros ccv.
    destruct (lookupZ _ (cmd_handles T)) as [hty|]; [|apply (c_fail C)].
    apply P_try_field; [apply P_dec_ty|apply (c_ret C)|]. intros hv.
    destruct (match as_int tagv with Some z => z =? st_sessions T | None => false end).
    - apply P_try_field; [apply (c_prim C)|apply (c_ret C)|]. intros asv.
      apply (c_bind C); [apply (c_set_constraint C)|]. intros _.
      apply (c_bind C); [apply (c_append_lst C)|]. intros _.
      apply P_try_field; [apply P_dec_sized_array; intros p; apply P_dec_ty|apply (c_ret C)|]. intros area.
      destruct (is_param_enc _ _ area) as [enc|]; [apply P_cmd_params_step|apply (c_internal C)].
    - apply P_cmd_params_step.
  Qed.

  Lemma P_list_assert_done : P list_assert_done.
  Proof.
    unfold list_assert_done. apply (c_bind C); [apply (c_get C)|]. intros s.
    destruct (forallb _ _); [apply (c_ret C)|apply (c_internal C)].
  Qed.

  Lemma P_rsp_finish rid v : P (rsp_finish abort rid v).
  Proof.
    unfold rsp_finish. apply (c_bind C); [apply (c_assert_done C)|]. intros _.
    apply (c_bind C); [apply P_list_assert_done|]. intros _. apply (c_ret C).
  Qed.

  Lemma P_rsp_rest pa rid pid cc enc sessions v hp : P (rsp_rest T abort pa rid pid cc enc sessions v hp).
  Proof.
    unfold rsp_rest.
    destruct (match cc with Some c => lookupZ c (rsp_params T) | None => None end) as [pty|]; [|unfold rsp_no_cc; destruct cc; apply (c_fail C)].
    apply P_try_field; [apply P_dec_ty|apply (c_ret C)|]. intros pv.
    apply (c_bind C); [destruct hp; [apply (c_assert_done C)|apply (c_ret C)]|]. intros _.
    destruct sessions; [|apply P_rsp_finish].
    apply P_try_field; [apply P_dec_sized_array; intros p; apply P_dec_ty|apply (c_ret C)|]. intros area.
    destruct (is_param_enc _ _ area) as [e|]; [|apply (c_internal C)].
    apply (c_bind C); [|intros _; apply P_rsp_finish].
    destruct (Bool.eqb e enc); [apply (c_ret C)|apply (c_problem C)].
  Qed.

  Lemma P_dec_response pa cc enc : P (dec_response T abort pa cc enc).
  Proof.
    unfold dec_response.
    apply (c_bind C); [apply (c_new_sc C)|]. intros rid.
    apply (c_bind C); [apply (c_new_sc C)|]. intros pid.
    apply (c_bind C); [apply (c_set_lst C)|]. intros _.
    apply (c_bind C); [apply (c_sev C)|]. intros _.
    apply P_try_field; [apply (c_prim C)|apply (c_ret C)|]. intros tagv.
    apply P_try_field; [apply (c_prim C)|apply (c_ret C)|]. intros szv.
    apply (c_bind C); [apply (c_set_constraint C)|]. intros _.
    apply P_try_field; [apply (c_prim C)|apply (c_ret C)|]. intros rcv.
    destruct (match as_int rcv with Some z => negb (z =? rc_success T) | None => true end); [apply P_rsp_finish|].
    destruct (match cc with Some c => lookupZ c (rsp_handles T) | None => None end) as [hty|]; [|unfold rsp_no_cc; destruct cc; apply (c_fail C)].
    apply P_try_field; [apply P_dec_ty|apply (c_ret C)|]. intros hv.
    destruct (match as_int tagv with Some z => z =? st_sessions T | None => false end).
    - apply P_try_field; [apply (c_prim C)|apply (c_ret C)|]. intros psv.
      apply (c_bind C); [apply (c_set_constraint C)|]. intros _.
      apply (c_bind C); [apply (c_append_lst C)|]. intros _. apply P_rsp_rest.
    - apply P_rsp_rest.
  Qed.

  Lemma P_dec_stream pa : P (dec_stream T abort pa).
  Proof.
    unfold dec_stream. apply (c_bind C); [|intros _; apply (c_fuel C)].
    apply P_rep. intros _.
    apply (c_bind C); [apply P_dec_command|]. intros c.
    destruct (is_param_enc _ _ (cr_area c)) as [enc|]; [|apply (c_internal C)].
    apply (c_bind C); [apply P_dec_response|]. intros _. apply (c_ret C).
  Qed.

  Theorem P_dec_root r : P (dec_root T abort r).
  Proof.
    destruct r as [t| |cc enc|]; cbn [dec_root].
    - apply (c_bind C); [apply (c_set_lst C)|]. intros _. apply P_dec_ty.
    - apply (c_bind C); [apply P_dec_command|]. intros c. apply (c_ret C).
    - apply (c_bind C); [apply P_dec_response|]. intros v. apply (c_ret C).
    - apply (c_bind C); [apply P_dec_stream|]. intros _. apply (c_ret C).
  Qed.
End Closure.
