(** Response codes: the code's text/rows equal the specification's classification for all 2^32 codes with
    bit 7 or bit 8 set (and zero): everything depends on the low 12 bits only (lemmas), and the 4096
    residues are swept by computation. *)
From Coq Require Import ZArith List String Bool Lia.
From TV Require Import Layout.Types Model.Ints Model.Attr Model.RC.
Import ListNotations.
Open Scope Z_scope.

Lemma land_mod v m : 0 <= m < 4096 -> Z.land (v mod 4096) m = Z.land v m.
Proof.
  intros Hm. change 4096 with (2 ^ 12). rewrite <- Z.land_ones by lia.
  rewrite <- Z.land_assoc. f_equal. rewrite Z.land_comm, Z.land_ones by lia. apply Z.mod_small. exact Hm.
Qed.

Lemma bit_mod v i : 0 <= i < 12 -> bit (v mod 4096) i = bit v i.
Proof. intros Hi. unfold bit. change 4096 with (2 ^ 12). apply Z.mod_pow2_bits_low. lia. Qed.

Lemma field_mod v lo n : 0 <= lo -> 0 <= n -> lo + n <= 12 -> field (v mod 4096) lo n = field v lo n.
Proof.
  intros Hlo Hn Hs. unfold field. apply Z.bits_inj'. intros j Hj.
  destruct (Z.lt_ge_cases j n) as [Hlt|Hge].
  - rewrite !Z.mod_pow2_bits_low by lia. rewrite !Z.shiftr_spec by lia.
    change 4096 with (2 ^ 12). apply Z.mod_pow2_bits_low. lia.
  - rewrite !Z.mod_pow2_bits_high by lia. reflexivity.
Qed.

Section Sweep.
  Variables Tc Tp : tables.
  Variables dc dp : string.

  (** one residue: text = rendering of the class; rows agree with the class and partition the 32-bit word *)
  Definition check (r : Z) : bool :=
    if bit r 7 || bit r 8 then
      String.eqb (rc_text Tc dc r) (rc_render Tp dp (classify r)) &&
      rows_agree Tp dp (classify r) (rc_rows Tc dc r) &&
      attr_ok 32 (map (fun x => snd (fst x)) (rc_rows Tc dc r))
    else true.

  Definition sweep : bool := forallb (fun k => check (Z.of_nat k)) (seq 0 4096).

  Lemma sweep_all : sweep = true -> forall r, 0 <= r < 4096 -> check r = true.
  Proof.
    unfold sweep. intros H r Hr. rewrite forallb_forall in H.
    specialize (H (Z.to_nat r)). rewrite Z2Nat.id in H by lia. apply H.
    apply in_seq. lia.
  Qed.

  Lemma text_mod v : v mod 4096 <> 0 -> rc_text Tc dc (v mod 4096) = rc_text Tc dc v.
  Proof.
    intros Hnz. assert (Hv : v <> 0) by (intros ->; apply Hnz; reflexivity).
    unfold rc_text, bits_set, bits_unset. rewrite !land_mod by lia.
    replace (v mod 4096 =? 0) with false by lia. replace (v =? 0) with false by lia. reflexivity.
  Qed.

  Lemma rows_mod v : v mod 4096 <> 0 -> rc_rows Tc dc (v mod 4096) = rc_rows Tc dc v.
  Proof.
    intros Hnz. assert (Hv : v <> 0) by (intros ->; apply Hnz; reflexivity).
    unfold rc_rows, bits_set, bits_unset. rewrite !land_mod by lia.
    replace (v mod 4096 =? 0) with false by lia. replace (v =? 0) with false by lia. reflexivity.
  Qed.

  Lemma classify_mod v : v mod 4096 <> 0 -> classify (v mod 4096) = classify v.
  Proof.
    intros Hnz. assert (Hv : v <> 0) by (intros ->; apply Hnz; reflexivity).
    unfold classify. rewrite !bit_mod, !field_mod by lia.
    replace (v mod 4096 =? 0) with false by lia. replace (v =? 0) with false by lia. reflexivity.
  Qed.

  Lemma residue_nonzero v : bit v 7 || bit v 8 = true -> v mod 4096 <> 0.
  Proof.
    intros H E. rewrite <- (bit_mod v 7), <- (bit_mod v 8), E in H by lia.
    unfold bit in H. rewrite !Z.testbit_0_l in H. discriminate.
  Qed.

  (** the theorem for all codes of the domain *)
  Theorem rc_spec : sweep = true -> forall v, 0 <= v ->
    (v = 0 \/ bit v 7 || bit v 8 = true) ->
    rc_text Tc dc v = rc_render Tp dp (classify v) /\
    rows_agree Tp dp (classify v) (rc_rows Tc dc v) = true /\
    (v <> 0 -> attr_ok 32 (map (fun x => snd (fst x)) (rc_rows Tc dc v)) = true).
  Proof.
    intros S v Hv [->|Hb].
    - repeat split; try reflexivity. intros H; exfalso; apply H; reflexivity.
    - pose proof (residue_nonzero v Hb) as Hnz.
      assert (Hr : 0 <= v mod 4096 < 4096) by (apply Z.mod_pos_bound; lia).
      pose proof (sweep_all S _ Hr) as C. unfold check in C.
      rewrite !bit_mod, Hb in C by lia.
      rewrite text_mod, rows_mod, classify_mod in C by exact Hnz.
      apply andb_prop in C as [C C3]. apply andb_prop in C as [C1 C2].
      apply String.eqb_eq in C1. split; [exact C1|split; [exact C2|intros _; exact C3]].
  Qed.
End Sweep.
